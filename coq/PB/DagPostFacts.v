(* Facts about PB/DagPost.v: a history over shared objects runs like the posting sequence
   obtained by resolving every reference by value, and the generated CNF admits exactly the
   user assignments that satisfy the accepted constraints AS THE USER WROTE THEM (direct
   integer evaluation of the unfolded trees). *)
From Coq Require Import ZArith List Bool String Lia.
From FrameModel Require Import PB.Expr PB.ExprFacts PB.Cnf PB.Amo PB.Robdd PB.Codify PB.Sat
  PB.SatFacts PB.Dag PB.DagFacts PB.DagPost.
Import ListNotations.
Local Open Scope nat_scope.

Lemma hstep_hunfold ts env o op v : build_all ts = Some env -> hstep env o = Some (op, v) ->
  exists t, hunfold ts o = Some t /\ ubuild t = Some v.
Proof.
  intros B H. destruct o as [b|x|c|l x|l|k l|i d]; cbn [hstep hunfold] in *.
  - pose proof (step_unfold1 ts env b B) as S.
    destruct (step env b) as [w|] eqn:E; [|discriminate]. inversion H; subst.
    destruct (unfold1 ts b) as [t|]; [|discriminate]. exists t. split; [reflexivity|]. symmetry; exact S.
  - inversion H; subst. eexists; split; reflexivity.
  - destruct (rlits env c); inversion H; subst. eexists; split; reflexivity.
  - destruct (rlits env l); [|discriminate]. destruct (rlit env x); inversion H; subst. eexists; split; reflexivity.
  - destruct (rlits env l); inversion H; subst. eexists; split; reflexivity.
  - destruct (rlits env l); inversion H; subst. eexists; split; reflexivity.
  - destruct (get env i) as [[| | | | |q|]|]; inversion H; subst. eexists; split; reflexivity.
Qed.

Definition lift_run (r : option (memory * mgr * list status)) (env : list pyval) :=
  match r with Some (m, s, sts) => Some (m, s, env, sts) | None => None end.

Lemma run_hist_compile ops : forall (m : memory) s env ts, build_all ts = Some env ->
  run_hist m s env ops =
  match compile env ts ops with
  | None => None
  | Some (cps, env', _) => lift_run (run_posts m s (map fst cps)) env'
  end.
Proof.
  induction ops as [|o r IH]; intros m s env ts B; cbn [run_hist compile]; [reflexivity|].
  destruct (hstep env o) as [[op v]|] eqn:H; [|reflexivity].
  destruct (hstep_hunfold ts env o op v B H) as (t & -> & Bt).
  assert (B' : build_all (ts ++ [t]) = Some (env ++ [v])) by (rewrite (build_all_snoc ts env t B), Bt; reflexivity).
  destruct op as [p|].
  - destruct (compile (env ++ [v]) (ts ++ [t]) r) as [[[cps env'] ts']|] eqn:C.
    + cbn [map fst run_posts]. destruct (run_post m s p) as [[[m1 s1] st]|]; [|reflexivity].
      rewrite (IH m1 s1 _ _ B'), C. destruct (run_posts m1 s1 (map fst cps)) as [[[m2 s2] sts]|]; reflexivity.
    + destruct (run_post m s p) as [[[m1 s1] st]|]; [|reflexivity].
      rewrite (IH m1 s1 _ _ B'), C. reflexivity.
  - rewrite (IH m s _ _ B'). destruct (compile (env ++ [v]) (ts ++ [t]) r) as [[[cps env'] ts']|]; reflexivity.
Qed.

(* every compiled inequality is the value of the tree recorded beside it *)
Definition tied (pt : post * utree) : Prop :=
  match fst pt with PIneq q _ => ubuild (snd pt) = Some (VIneq q) | _ => True end.

Lemma compile_tied ops : forall env ts cps env' ts', build_all ts = Some env ->
  compile env ts ops = Some (cps, env', ts') -> Forall tied cps /\ build_all ts' = Some env'.
Proof.
  induction ops as [|o r IH]; intros env ts cps env' ts' B; cbn [compile]; intro H.
  - inversion H; subst. split; [constructor|exact B].
  - destruct (hstep env o) as [[op v]|] eqn:Hs; [|discriminate].
    destruct (hstep_hunfold ts env o op v B Hs) as (t & Hu & Bt). rewrite Hu in H.
    assert (B' : build_all (ts ++ [t]) = Some (env ++ [v])) by (rewrite (build_all_snoc ts env t B), Bt; reflexivity).
    destruct (compile (env ++ [v]) (ts ++ [t]) r) as [[[cps0 env0] ts0]|] eqn:C; [|discriminate].
    destruct (IH _ _ _ _ _ B' C) as [F Bf].
    destruct op as [p|]; inversion H; subst; (split; [|exact Bf]); [|exact F].
    constructor; [|exact F]. unfold tied; cbn [fst snd].
    destruct o as [b|x|c|l x|l|k l|i d]; cbn [hstep] in Hs.
    + destruct (step env b); discriminate.
    + inversion Hs; subst; exact I.
    + destruct (rlits env c); inversion Hs; subst; exact I.
    + destruct (rlits env l); [|discriminate]. destruct (rlit env x); inversion Hs; subst; exact I.
    + destruct (rlits env l); inversion Hs; subst; exact I.
    + destruct (rlits env l); inversion Hs; subst; exact I.
    + pose proof (build_all_get ts env i B) as G.
      destruct (get env i) as [[| | | | |q|]|] eqn:E; inversion Hs; subst.
      destruct (tget ts i) as [u|]; [|discriminate]. destruct G as (w & Ew & Bu). inversion Ew; subst. exact Bu.
Qed.

Lemma tied_ok cps : Forall tied cps -> Forall post_ok (map fst cps).
Proof.
  induction 1 as [|[p t] r T _ IH]; cbn [map fst]; constructor; [|exact IH].
  destruct p; cbn [post_ok]; try exact I. unfold tied in T; cbn [fst snd] in T.
  destruct (ubuild_sound (fun _ => true) t _ T) as (_ & [P _] & _). exact P.
Qed.
Lemma tied_direct a cps : Forall tied cps -> forall sts,
  accepted_hold a (map fst cps) sts <-> accepted_direct a cps sts.
Proof.
  induction 1 as [|[p t] r T _ IH]; intro sts; cbn [map fst accepted_hold accepted_direct]; [tauto|].
  destruct sts as [|[|] sts]; [tauto| |apply IH].
  rewrite (IH sts). unfold direct_holds; cbn [fst snd].
  destruct p; cbn [post_holds]; try tauto. unfold tied in T; cbn [fst snd] in T.
  destruct (ubuild_sound a t _ T) as (_ & _ & Hh). cbn [vholds] in Hh. tauto.
Qed.

(* every history (bindings reused at will, posts interleaved), every well-formed initial store *)
Theorem dag_post_exact : forall (m0 : memory) ops cps vs ts, mem_wf m0 ->
  compile [] [] ops = Some (cps, vs, ts) ->
  exists m s sts, run_hist m0 empty_mgr [] ops = Some (m, s, vs, sts) /\
    List.length sts = List.length cps /\
    forall a, ext a (clauses s) <-> accepted_direct a cps sts.
Proof.
  intros m0 ops cps vs ts W C.
  destruct (compile_tied ops [] [] cps vs ts eq_refl C) as [T _].
  destruct (post_exact m0 (map fst cps) W (tied_ok _ T)) as (m & s & sts & E & Len & Hx).
  exists m, s, sts. rewrite (run_hist_compile ops m0 empty_mgr [] [] eq_refl), C, E. split; [reflexivity|].
  rewrite map_length in Len. split; [exact Len|]. intro a. rewrite (Hx a). apply tied_direct. exact T.
Qed.

(* ... and solve / evalexpr: satisfiable iff some assignment satisfies what the user wrote; the
   exposed model satisfies it, and evalexpr of ANY bound expression object gives the direct
   integer value of the tree that built it *)
Theorem dag_solve_exact : forall (sat_o : cnf -> option valuation),
  (forall f e, sat_o f = Some e -> sat e f) ->
  (forall f, sat_o f = None -> forall e, ~ sat e f) ->
  forall (m0 : memory) ops cps vs ts, mem_wf m0 -> compile [] [] ops = Some (cps, vs, ts) ->
    exists m s sts, run_hist m0 empty_mgr [] ops = Some (m, s, vs, sts) /\
      ((exists e, solve sat_o s = Some e) <-> (exists a, accepted_direct a cps sts)) /\
      (forall e, solve sat_o s = Some e ->
         accepted_direct (user_part e) cps sts /\
         Forall2 (fun v t => forall x, v = VExpr x -> evalexpr e x = ueval (user_part e) t) vs ts).
Proof.
  intros sat_o So Co m0 ops cps vs ts W C.
  destruct (compile_tied ops [] [] cps vs ts eq_refl C) as [T Bf].
  destruct (solve_exact sat_o So Co m0 (map fst cps) W (tied_ok _ T)) as (m & s & sts & E & Hs & Hm).
  exists m, s, sts. rewrite (run_hist_compile ops m0 empty_mgr [] [] eq_refl), C, E. split; [reflexivity|].
  split.
  - rewrite Hs. split; intros [a Ha]; exists a; apply (tied_direct a cps T sts); exact Ha.
  - intros e He. destruct (Hm e He) as (Ha & Hev & _). split; [apply (tied_direct _ cps T sts); exact Ha|].
    apply build_all_Forall2 in Bf. clear - Bf Hev.
    induction Bf as [|v t vs' ts' B _ IH]; constructor; [|exact IH].
    intros x ->. rewrite Hev. destruct (ubuild_sound (user_part e) t _ B) as (Em & _). exact Em.
Qed.

(* non-vacuity: the seeded shape - load = 2a + b + c is posted AFTER slack = load + 2(-a) was
   derived from it and posted; the model posts 2a + b + c >= 3 *)
Example dag_post_example :
  let ops := [HNewVar "a"; HNewVar "b"; HNewVar "c";
              HBind (BTimes 0 2); HBind (BAdd 3 1); HBind (BAdd 4 2);          (* 5: load *)
              HBind (BNot 0); HBind (BTimes 6 2); HBind (BAdd 5 7);            (* 8: slack *)
              HBind (BInt 3); HBind (BCmp 8 GE 9); HIneq 10 false;             (* slack >= 3 *)
              HBind (BCmp 5 GE 9); HIneq 12 false]%string in                   (* load >= 3 *)
  match compile [] [] ops with
  | Some (cps, vs, _) =>
      map fst cps = [PNewVar "a"; PNewVar "b"; PNewVar "c";
                     PIneq (mkI [mkT "b" true 1; mkT "c" true 1] 1 GE) false;
                     PIneq (mkI [mkT "a" true 2; mkT "b" true 1; mkT "c" true 1] 3 GE) false]%string
  | None => False
  end.
Proof. vm_compute. reflexivity. Qed.
