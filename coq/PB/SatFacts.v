(* C07 facts, part 4: the posting interface.  For every sequence of posts and
   every well-formed initial store, a user assignment extends to a model of the
   generated clauses exactly when it satisfies every accepted constraint; a
   refused post changes nothing; with a sound and complete solver, solve /
   value / evalexpr report exactly that. *)
From Coq Require Import ZArith List Bool String Lia.
From FrameModel Require Import PB.Expr PB.ExprFacts PB.Cnf PB.Amo PB.AmoFacts PB.Robdd PB.RobddFacts
  PB.Codify PB.CodifyFacts PB.Sat.
Import ListNotations.
Local Open Scope nat_scope.

(* ---------- which variables the clauses may mention ---------- *)
Definition var_ok (m : memory) (n : nat) (v : var) : Prop :=
  match v with User _ => True | Aux k => k <= n | Node k => valid m k end.
Definition lits_bound (m : memory) (n : nat) (f : cnf) : Prop :=
  forall c x, In c f -> In x c -> var_ok m n (fst x).

Record Inv (m : memory) (s : mgr) : Prop := mkInv {
  inv_wf : mem_wf m;
  inv_cod : cod_inv m s;
  inv_lits : lits_bound m (auxcount s) (clauses s)
}.

Lemma var_ok_mono (m ex : memory) n n' v : n <= n' -> var_ok m n v -> var_ok (m ++ ex) n' v.
Proof. intros H. destruct v; cbn; [tauto|lia|apply valid_grow]. Qed.
Lemma lits_bound_app m n f g : lits_bound m n f -> lits_bound m n g -> lits_bound m n (f ++ g).
Proof. intros A B c x Hc. apply in_app_or in Hc. destruct Hc; [eapply A|eapply B]; eassumption. Qed.
Lemma lits_bound_mono (m ex : memory) n n' f : n <= n' -> lits_bound m n f -> lits_bound (m ++ ex) n' f.
Proof. intros H A c x Hc Hx. eapply var_ok_mono; [exact H|eapply A; eassumption]. Qed.
Lemma lits_bound_aux (m : memory) n n' f : n <= n' -> lits_bound m n f -> lits_bound m n' f.
Proof. intros H A c x Hc Hx. specialize (A c x Hc Hx). destruct (fst x); cbn in *; [exact I|lia|exact A]. Qed.
Lemma lits_bound_user m n f : (forall c, In c f -> user_lits c) -> lits_bound m n f.
Proof. intros U c x Hc Hx. specialize (U c Hc x Hx). destruct (fst x); try discriminate. exact I. Qed.

Lemma canon_agree (m ex : memory) n a aux aux' f : lits_bound m n f ->
  (forall k, k <= n -> aux' k = aux k) ->
  cnf_val (canon (m ++ ex) a aux') f = cnf_val (canon m a aux) f.
Proof.
  intros B A. apply cnf_val_agree. intros c Hc x Hx. specialize (B c x Hc Hx).
  destruct (fst x); cbn in *; [reflexivity|apply A; exact B|apply den_old; exact B].
Qed.

(* ---------- the codified set under store growth and new clauses ---------- *)
Lemma tseitin_grow (m ex : memory) k : valid m k -> tseitin (m ++ ex) k = tseitin m k.
Proof.
  unfold valid. intro V. destruct k as [|[|j]]; cbn [tseitin]; try reflexivity.
  rewrite nth_error_app1 by lia. reflexivity.
Qed.
Lemma cod_inv_grow (m ex : memory) s : cod_inv m s -> cod_inv (m ++ ex) s.
Proof.
  intros C k Hk. destruct (C k Hk) as [V R]. split; [apply valid_grow; exact V|].
  intro Np. destruct (R Np) as [R1 R2]. split.
  - intros c Hc. rewrite tseitin_grow in Hc by exact V. apply R1. exact Hc.
  - intros j v hi lo Ek En. subst k. unfold valid in V. rewrite nth_error_app1 in En by lia.
    eapply R2; [reflexivity|exact En].
Qed.
Lemma cod_inv_more m s s' new : cod_inv m s -> clauses s' = clauses s ++ new -> codified s' = codified s ->
  cod_inv m s'.
Proof.
  intros C Ecl Eco k Hk. rewrite Eco in Hk. destruct (C k Hk) as [V R]. split; [exact V|].
  intro Np. destruct (R Np) as [R1 R2]. rewrite Ecl, Eco. split; [|exact R2].
  intros c Hc. apply in_or_app. left. apply R1. exact Hc.
Qed.

Lemma tseitin_clause_ok (m : memory) n c : mem_wf m -> tseitin_clause m c ->
  forall x, In x c -> var_ok m n (fst x).
Proof.
  intros W [k [V Hc]] x Hx. destruct k as [|[|j]]; cbn [tseitin] in Hc.
  - destruct Hc as [Hc|[]]. subst c. destruct Hx as [Hx|[]]. subst x. exact V.
  - destruct Hc as [Hc|[]]. subst c. destruct Hx as [Hx|[]]. subst x. exact V.
  - destruct (nth_error m j) as [[[v hi] lo]|] eqn:En; [|destruct Hc].
    destruct (W _ _ _ _ En) as [Hh Hl]. unfold valid in V.
    destruct Hc as [Hc|[Hc|[]]]; subst c; destruct Hx as [Hx|[Hx|[Hx|[]]]]; subst x; cbn; unfold valid; try exact I; lia.
Qed.

(* ---------- user clauses ---------- *)
Lemma ulits_user l : user_lits (ulits l).
Proof. intros x Hx. unfold ulits in Hx. apply in_map_iff in Hx. destruct Hx as [p [E _]]. subst x. reflexivity. Qed.
Lemma user_lits_neg l : user_lits l -> user_lits (map neg l).
Proof. intros U x Hx. apply in_map_iff in Hx. destruct Hx as [y [E Hy]]. subst x. cbn. apply U. exact Hy. Qed.
Lemma user_lits_app l r : user_lits l -> user_lits r -> user_lits (l ++ r).
Proof. intros A B x Hx. apply in_app_or in Hx. destruct Hx; [apply A|apply B]; assumption. Qed.
Lemma user_clause_val e a c : user_lits c -> extends e a -> clause_val e c = clause_val (uval a) c.
Proof. intros U X. apply clause_val_agree. apply user_lits_agree; assumption. Qed.
Lemma user_count e a l : user_lits l -> extends e a -> count_true e l = count_true (uval a) l.
Proof. intros U X. apply count_agree. apply user_lits_agree; assumption. Qed.
Lemma user_forallb e a l : user_lits l -> extends e a -> forallb (lit_val e) l = forallb (lit_val (uval a)) l.
Proof.
  intros U X. induction l as [|x l IH]; [reflexivity|]. cbn [forallb].
  rewrite IH by (intros y Hy; apply U; right; exact Hy). f_equal. unfold lit_val.
  pose proof (U x (or_introl eq_refl)) as Ux. destruct (fst x); try discriminate. cbn. rewrite X. reflexivity.
Qed.

Lemma imply_clause e l x :
  clause_val e (map neg l ++ [x]) = true <-> (forallb (lit_val e) l = true -> lit_val e x = true).
Proof.
  unfold clause_val. rewrite existsb_app. cbn [existsb]. rewrite orb_false_r.
  induction l as [|y l IH]; cbn [map existsb forallb].
  - cbn. tauto.
  - rewrite lit_val_neg. destruct (lit_val e y); cbn; [exact IH|]. split; [discriminate|reflexivity].
Qed.

Lemma quadratic_lits l c x : In c (quadratic l) -> In x c -> exists y, In y l /\ x = neg y.
Proof.
  induction l as [|z r IH]; cbn [quadratic]; [intros []|]. intros Hc Hx. apply in_app_or in Hc. destruct Hc as [Hc|Hc].
  - apply in_map_iff in Hc. destruct Hc as [y [E Hy]]. subst c. destruct Hx as [Hx|[Hx|[]]]; subst x.
    + exists z. split; [left; reflexivity|reflexivity].
    + exists y. split; [right; exact Hy|reflexivity].
  - destruct (IH Hc Hx) as [y [Hy E]]. exists y. split; [right; exact Hy|exact E].
Qed.
Lemma quadratic_user l : user_lits l -> forall c, In c (quadratic l) -> user_lits c.
Proof. intros U c Hc x Hx. destruct (quadratic_lits l c x Hc Hx) as [y [Hy E]]. subst x. cbn. apply U. exact Hy. Qed.

Lemma firstn_In {A} n (l : list A) x : In x (firstn n l) -> In x l.
Proof. intro H. rewrite <- (firstn_skipn n l). apply in_or_app. left. exact H. Qed.
Lemma skipn_In {A} n (l : list A) x : In x (skipn n l) -> In x l.
Proof. intro H. rewrite <- (firstn_skipn n l). apply in_or_app. right. exact H. Qed.

(* variables of the chained encoding: those of the list, or the fresh auxiliaries *)
Lemma heule_vars : forall fuel k aux l cs aux', heule fuel k aux l = Some (cs, aux') ->
  forall c x, In c cs -> In x c ->
    (exists y, In y l /\ fst x = fst y) \/ (exists n, fst x = Aux n /\ aux < n <= aux').
Proof.
  induction fuel as [|f IH]; intros k aux l cs aux'; cbn [heule]; destruct (List.length l <=? k);
    try (intros H; injection H as H _; subst cs; intros c x Hc Hx;
         destruct (quadratic_lits l c x Hc Hx) as [y [Hy E]]; left; exists y; split; [exact Hy|subst x; reflexivity]);
    try discriminate.
  destruct (heule f k (S aux) _) as [[c2 a2]|] eqn:E; [|discriminate].
  intros H; injection H as H H'; subst cs a2. intros c x Hc Hx.
  pose proof (heule_aux_mono _ _ _ _ _ _ E) as Mono.
  apply in_app_or in Hc. destruct Hc as [Hc|Hc].
  - destruct (quadratic_lits _ c x Hc Hx) as [y [Hy Ex]]. subst x. cbn [neg fst].
    apply in_app_or in Hy. destruct Hy as [Hy|[Hy|[]]].
    + left. exists y. split; [eapply firstn_In; exact Hy|reflexivity].
    + subst y. right. exists (S aux). split; [reflexivity|lia].
  - destruct (IH _ _ _ _ _ E c x Hc Hx) as [[y [Hy Ey]]|[n [En Hn]]].
    + destruct Hy as [Hy|Hy].
      * subst y. right. exists (S aux). split; [exact Ey|lia].
      * left. exists y. split; [eapply skipn_In; exact Hy|exact Ey].
    + right. exists n. split; [exact En|lia].
Qed.

(* ---------- one post ---------- *)
Definition post_spec (m : memory) (s : mgr) (p : post) (m' : memory) (s' : mgr) (st : status) : Prop :=
  Inv m' s' /\ (exists ex, m' = m ++ ex) /\ (exists new, clauses s' = clauses s ++ new) /\
  auxcount s <= auxcount s' /\
  (st = Refused -> m' = m /\ s' = s) /\
  (st = Accepted ->
     (forall e a, extends e a -> sat e (clauses s') -> post_holds a p) /\
     (forall a aux, post_holds a p -> sat (canon m a aux) (clauses s) ->
        exists aux', (forall n, n <= auxcount s -> aux' n = aux n) /\ sat (canon m' a aux') (clauses s'))).

Lemma simple_post (m : memory) s s' p new : Inv m s ->
  clauses s' = clauses s ++ new -> codified s' = codified s -> auxcount s' = auxcount s ->
  (forall c, In c new -> user_lits c) ->
  (forall e a, extends e a -> (sat e new <-> post_holds a p)) ->
  post_spec m s p m s' Accepted.
Proof.
  intros [W C B] Ecl Eco Eau U Hp. split; [|split; [exists []; rewrite app_nil_r; reflexivity|]].
  { split; [exact W|eapply cod_inv_more; eassumption|]. rewrite Eau, Ecl.
    apply lits_bound_app; [exact B|apply lits_bound_user; exact U]. }
  split; [exists new; exact Ecl|]. split; [lia|]. split; [discriminate|]. intros _. split.
  - intros e a X HS. rewrite Ecl in HS. apply sat_app in HS. apply (Hp e a X). tauto.
  - intros a aux Hh HS. exists aux. split; [reflexivity|]. rewrite Ecl. apply sat_app. split; [exact HS|].
    apply (Hp _ a (canon_extends m a aux)). exact Hh.
Qed.

Lemma unchanged_spec (m : memory) s p st : Inv m s ->
  (st = Accepted -> forall a, post_holds a p) -> post_spec m s p m s st.
Proof.
  intros I Hp. split; [exact I|]. split; [exists []; rewrite app_nil_r; reflexivity|].
  split; [exists []; rewrite app_nil_r; reflexivity|]. split; [lia|]. split; [intros _; split; reflexivity|].
  intro Ea. split; [intros e a _ _; apply Hp; exact Ea|].
  intros a aux _ HS. exists aux. split; [reflexivity|exact HS].
Qed.

Lemma ulit_val e a x : extends e a -> lit_val e (ulit (fst x) (snd x)) = lit_val (uval a) (ulit (fst x) (snd x)).
Proof. intro X. unfold lit_val, ulit. cbn. rewrite X. reflexivity. Qed.

Lemma register_aux_fields lo hi s :
  clauses (register_aux lo hi s) = clauses s /\ codified (register_aux lo hi s) = codified s /\
  auxcount (register_aux lo hi s) = auxcount s.
Proof.
  unfold register_aux. generalize (seq (S lo) (hi - lo)). intro l. revert s.
  induction l as [|n l IH]; intro s; cbn [fold_left]; [repeat split|].
  destruct (IH (newvar (Aux n) s)) as (A & B & C). rewrite A, B, C, newvar_clauses, newvar_codified, newvar_aux.
  repeat split.
Qed.

Lemma isclause_user i c : isclause i = IsClause c -> user_lits c.
Proof.
  unfold isclause, isclause_gen. destruct (negb _); [discriminate|]. destruct (taut_fixed _ _); [discriminate|].
  destruct (take_strong _ _ _) as [big weak]. destruct (_ || _); [discriminate|].
  intros H; injection H as H; subst c. intros x Hx. apply in_rev in Hx. apply in_map_iff in Hx.
  destruct Hx as [t [E _]]. subst x. reflexivity.
Qed.

Lemma holds_ge a i : is_ge (iop i) = true -> (holds a i <-> (tsum a (il i) >= ir i)%Z).
Proof. unfold holds. destruct (iop i); try discriminate. intros _. reflexivity. Qed.

Lemma run_post_spec (m : memory) s p : Inv m s -> post_ok p ->
  exists m' s' st, run_post m s p = Some (m', s', st) /\ post_spec m s p m' s' st.
Proof.
  intros I Ok. destruct p as [v|c|l x|l|k l|i d]; cbn [run_post].
  - (* newvar *)
    eexists _, _, _. split; [reflexivity|]. apply (simple_post m s _ _ []); try exact I.
    + rewrite newvar_clauses, app_nil_r. reflexivity.
    + apply newvar_codified.
    + apply newvar_aux.
    + intros c [].
    + intros e a _. cbn. split; [tauto|intros _; apply sat_nil].
  - (* clause *)
    eexists _, _, _. split; [reflexivity|]. apply (simple_post m s _ _ [ulits c]); try exact I; try reflexivity.
    + intros d [Hd|[]]. subst d. apply ulits_user.
    + intros e a X. rewrite sat_cons. cbn [post_holds]. rewrite (user_clause_val e a _ (ulits_user c) X).
      split; [tauto|intro H; split; [exact H|apply sat_nil]].
  - (* imply *)
    eexists _, _, _. split; [reflexivity|].
    apply (simple_post m s _ _ [map neg (ulits l) ++ [ulit (fst x) (snd x)]]); try exact I; try reflexivity.
    + intros d [Hd|[]]. subst d. apply user_lits_app; [apply user_lits_neg, ulits_user|].
      intros y [Hy|[]]. subst y. reflexivity.
    + intros e a X. rewrite sat_cons, imply_clause. cbn [post_holds].
      rewrite (user_forallb e a _ (ulits_user l) X), (ulit_val e a x X).
      split; [tauto|intro H; split; [exact H|apply sat_nil]].
  - (* pairwise at-most-one *)
    eexists _, _, _. split; [reflexivity|]. apply (simple_post m s _ _ (quadratic (ulits l))); try exact I; try reflexivity.
    + apply quadratic_user, ulits_user.
    + intros e a X. rewrite amo_quadratic. cbn [post_holds]. unfold at_most_one.
      rewrite (user_count e a _ (ulits_user l) X). reflexivity.
  - (* chained at-most-one *)
    destruct (Z.ltb_spec k 3) as [Hk|Hk].
    { eexists _, _, _. split; [reflexivity|]. apply unchanged_spec; [exact I|discriminate]. }
    assert (Hk' : 3 <= Z.to_nat k) by lia.
    destruct (heule_total (List.length l) (Z.to_nat k) (auxcount s) (ulits l) Hk') as [[cs aux'] E].
    { unfold ulits. rewrite map_length. apply le_n. }
    rewrite E. eexists _, _, _. split; [reflexivity|].
    destruct (register_aux_fields (auxcount s) aux' (add_clauses cs s)) as (Rc & Ro & Ra).
    pose proof (heule_aux_mono _ _ _ _ _ _ E) as Mono. destruct I as [W C B].
    assert (Bcs : lits_bound m aux' cs).
    { intros c x Hc Hx. destruct (heule_vars _ _ _ _ _ _ E c x Hc Hx) as [[y [Hy Ey]]|[n [En Hn]]].
      - rewrite Ey. pose proof (ulits_user l y Hy) as Uy. destruct (fst y); try discriminate. exact I.
      - rewrite En. cbn. lia. }
    split; [|split; [exists []; rewrite app_nil_r; reflexivity|]].
    { split; [exact W| |].
      - apply (cod_inv_more m s _ cs C); cbn [set_aux clauses codified]; [rewrite Rc|rewrite Ro]; reflexivity.
      - cbn [set_aux clauses auxcount]. rewrite Rc. cbn [add_clauses clauses]. apply lits_bound_app; [|exact Bcs].
        apply (lits_bound_aux m (auxcount s)); [exact Mono|exact B]. }
    cbn [set_aux clauses auxcount]. rewrite Rc. cbn [add_clauses clauses].
    split; [exists cs; reflexivity|]. split; [exact Mono|]. split; [discriminate|]. intros _. split.
    + intros e a X HS. apply sat_app in HS. destruct HS as [_ HS]. cbn [post_holds].
      pose proof (heule_sound _ _ _ _ _ _ e E HS) as A. unfold at_most_one in *.
      rewrite <- (user_count e a _ (ulits_user l) X). exact A.
    + intros a aux Hh HS. cbn [post_holds] in Hh.
      assert (A : at_most_one (canon m a aux) (ulits l)).
      { unfold at_most_one in *. rewrite (user_count _ a _ (ulits_user l) (canon_extends m a aux)). exact Hh. }
      destruct (heule_complete _ _ _ _ _ _ (canon m a aux) E A (user_lits_aux_below _ _ (ulits_user l)))
        as [e' [O HS']].
      exists (fun n => e' (Aux n)).
      assert (Ag : forall v, canon m a (fun n => e' (Aux n)) v = e' v).
      { intros [u|n|n]; cbn; [|reflexivity|]; symmetry; apply O; intros n' En; discriminate. }
      split.
      * intros n Hn. rewrite O; [reflexivity|]. intros n' En. injection En as En. subst n'. lia.
      * apply sat_app. split.
        -- unfold sat. rewrite <- (app_nil_r m) at 1.
           rewrite (canon_agree m [] (auxcount s) a aux _ (clauses s) B); [exact HS|].
           intros n Hn. rewrite O; [reflexivity|]. intros n' En. injection En as En. subst n'. lia.
        -- unfold sat. rewrite (cnf_val_agree _ e' cs); [exact HS'|]. intros c _ x _. apply Ag.
  - (* inequality *)
    cbn [post_ok] in Ok. unfold pseudobool.
    pose proof (fun a => isclause_exact i a Ok) as Ex.
    destruct (isclause i) as [| |c] eqn:Eic.
    + (* through the diagram, or refused *)
      destruct (is_ge (iop i)) eqn:Ege.
      2:{ eexists _, _, _. split; [reflexivity|]. apply unchanged_spec; [exact I|discriminate]. }
      destruct I as [W C B].
      destruct (getrobdd_total d i m Ok) as [[root m'] Eg]. rewrite Eg.
      destruct (robdd_sem d i m root m' W Ok Eg) as (ex & Em & W' & V & Dold & Droot).
      assert (C' : cod_inv m' s) by (rewrite Em; apply cod_inv_grow; exact C).
      destruct (codify_total (S root) m' root s W' V (Nat.lt_succ_diag_r root)) as [s1 Ec]. rewrite Ec.
      destruct (codify_spec _ _ _ _ _ _ Ec C') as ((new & Cl & F) & _ & _ & _ & Au).
      eexists _, _, _. split; [reflexivity|].
      set (s' := add_clause [(Node root, true)] (newvar (Node root) s1)).
      assert (Cls : clauses s' = clauses s1 ++ [[(Node root, true)]])
        by (unfold s', add_clause; cbn [clauses]; rewrite newvar_clauses; reflexivity).
      assert (Cos : codified s' = codified s1) by (unfold s', add_clause; cbn [codified]; apply newvar_codified).
      assert (Aus : auxcount s' = auxcount s) by (unfold s', add_clause; cbn [auxcount]; rewrite newvar_aux; exact Au).
      destruct (codify_exact_gen m' root s s1) with (a := fun _ : string => true) as (C1 & _ & _); try assumption.
      split; [|split; [exists ex; exact Em|]].
      { split; [exact W'|apply (cod_inv_more m' s1 s' _ C1 Cls Cos)|].
        rewrite Aus, Cls, Cl. apply lits_bound_app; [apply lits_bound_app|].
        - rewrite Em. apply (lits_bound_mono m ex (auxcount s)); [apply le_n|exact B].
        - intros c x Hc Hx. rewrite Forall_forall in F. exact (tseitin_clause_ok m' _ c W' (F c Hc) x Hx).
        - intros c x [Hc|[]] Hx. subst c. destruct Hx as [Hx|[]]. subst x. exact V. }
      split; [exists (new ++ [[(Node root, true)]]); rewrite Cls, Cl, app_assoc; reflexivity|].
      split; [lia|]. split; [discriminate|]. intros _. split.
      * intros e a X HS. rewrite Cls in HS.
        destruct (codify_exact_gen m' root s s1 a W' C' Ec) as (_ & A & _).
        cbn [post_holds]. apply holds_ge; [exact Ege|]. apply Droot. exact (A e X HS).
      * intros a aux Hh HS. cbn [post_holds] in Hh. apply holds_ge in Hh; [|exact Ege]. apply Droot in Hh.
        destruct (codify_exact_gen m' root s s1 a W' C' Ec) as (_ & _ & Bc).
        exists aux. split; [reflexivity|]. rewrite Cls. apply Bc; [exact Hh|].
        unfold sat. rewrite Em. rewrite (canon_agree m ex (auxcount s) a aux aux (clauses s) B); [exact HS|reflexivity].
    + (* tautology: nothing is added *)
      eexists _, _, _. split; [reflexivity|]. apply unchanged_spec; [exact I|]. intros _ a. exact (Ex a).
    + (* a single clause *)
      eexists _, _, _. split; [reflexivity|]. apply (simple_post m s _ _ [c]); try exact I; try reflexivity.
      * intros c' [Hc|[]]. subst c'. apply (isclause_user i). exact Eic.
      * intros e a X. rewrite sat_cons. cbn [post_holds].
        rewrite (user_clause_val e a c (isclause_user i c Eic) X). specialize (Ex a). cbn in Ex.
        split; [intros [H _]; apply Ex; exact H|intro H; split; [apply Ex; exact H|apply sat_nil]].
Qed.

(* ---------- sequences of posts ---------- *)
Lemma run_posts_spec : forall ps (m : memory) s, Inv m s -> Forall post_ok ps ->
  exists m' s' sts, run_posts m s ps = Some (m', s', sts) /\ Inv m' s' /\
    List.length sts = List.length ps /\
    (forall e a, extends e a -> sat e (clauses s') -> sat e (clauses s) /\ accepted_hold a ps sts) /\
    (forall a aux, accepted_hold a ps sts -> sat (canon m a aux) (clauses s) ->
                   exists aux', sat (canon m' a aux') (clauses s')).
Proof.
  induction ps as [|p r IH]; intros m s I Ok.
  - exists m, s, []. cbn [run_posts]. split; [reflexivity|]. split; [exact I|]. split; [reflexivity|]. split.
    + intros e a _ HS. split; [exact HS|exact Logic.I].
    + intros a aux _ HS. exists aux. exact HS.
  - inversion Ok as [|? ? Okp Okr]; subst.
    destruct (run_post_spec m s p I Okp) as (m1 & s1 & st & E1 & I1 & _ & (new & Cl) & _ & Ref & Acc).
    destruct (IH m1 s1 I1 Okr) as (m2 & s2 & sts & E2 & I2 & Len & Snd & Cmp).
    exists m2, s2, (st :: sts). cbn [run_posts]. rewrite E1, E2.
    split; [reflexivity|]. split; [exact I2|]. split; [cbn; lia|]. split.
    + intros e a X HS. destruct (Snd e a X HS) as [HS1 Hr]. split.
      * rewrite Cl in HS1. apply sat_app in HS1. tauto.
      * cbn [accepted_hold]. destruct st; [|exact Hr]. split; [|exact Hr].
        destruct (Acc eq_refl) as [A _]. exact (A e a X HS1).
    + intros a aux Hh HS. cbn [accepted_hold] in Hh. destruct st.
      * destruct Hh as [Hp Hr]. destruct (Acc eq_refl) as [_ B].
        destruct (B a aux Hp HS) as [aux1 [_ HS1]]. exact (Cmp a aux1 Hr HS1).
      * destruct (Ref eq_refl) as [Em Es]. subst m1 s1. exact (Cmp a aux Hh HS).
Qed.

Lemma inv_empty (m : memory) : mem_wf m -> Inv m empty_mgr.
Proof. intro W. split; [exact W|apply cod_inv_empty|intros c x []]. Qed.

(* (vi) every sequence of posts, every well-formed initial store (whatever was encoded earlier):
   the model never gets stuck, and a user assignment extends to a model of the generated CNF
   exactly when it satisfies every accepted constraint *)
Theorem post_exact : forall (m0 : memory) ps, mem_wf m0 -> Forall post_ok ps ->
  exists m s sts, run_posts m0 empty_mgr ps = Some (m, s, sts) /\
    List.length sts = List.length ps /\
    forall a, ext a (clauses s) <-> accepted_hold a ps sts.
Proof.
  intros m0 ps W Ok.
  destruct (run_posts_spec ps m0 empty_mgr (inv_empty m0 W) Ok) as (m & s & sts & E & _ & Len & Snd & Cmp).
  exists m, s, sts. split; [exact E|]. split; [exact Len|]. intro a. split.
  - intros [e [X HS]]. exact (proj2 (Snd e a X HS)).
  - intro Hh. destruct (Cmp a (fun _ => false) Hh (sat_nil _)) as [aux' HS].
    exists (canon m a aux'). split; [apply canon_extends|exact HS].
Qed.

(* a refused post leaves the store and the manager exactly as they were *)
Theorem refused_unchanged : forall (m : memory) s p m' s',
  run_post m s p = Some (m', s', Refused) -> m' = m /\ s' = s.
Proof.
  intros m s p m' s'. destruct p as [v|c|l x|l|k l|i d]; cbn [run_post]; try discriminate.
  - destruct (k <? 3)%Z; [intros H; injection H as H1 H2; subst; split; reflexivity|].
    destruct (heule _ _ _ _) as [[cs a]|]; discriminate.
  - unfold pseudobool. destruct (isclause i); try discriminate.
    destruct (is_ge (iop i)); [|intros H; injection H as H1 H2; subst; split; reflexivity].
    destruct (getrobdd d i m) as [[root m1]|]; [|discriminate].
    destruct (codify _ _ _ _); discriminate.
Qed.

(* what is refused: a chain width below 3, or an inequality that is not a clause and whose
   operator is not >= (after Ineq's normalisation: > or =) *)
Theorem refused_only : forall (m : memory) s p m' s',
  run_post m s p = Some (m', s', Refused) ->
  (exists k l, p = PAmoH k l /\ (k < 3)%Z) \/
  (exists i d, p = PIneq i d /\ isclause i = NotClause /\ is_ge (iop i) = false).
Proof.
  intros m s p m' s'. destruct p as [v|c|l x|l|k l|i d]; cbn [run_post]; try discriminate.
  - destruct (Z.ltb_spec k 3); [intros _; left; exists k, l; split; [reflexivity|assumption]|].
    destruct (heule _ _ _ _) as [[cs a]|]; discriminate.
  - unfold pseudobool. destruct (isclause i) eqn:Ei; try discriminate.
    destruct (is_ge (iop i)) eqn:Eg; [|intros _; right; exists i, d; repeat split; assumption].
    destruct (getrobdd d i m) as [[root m1]|]; [|discriminate].
    destruct (codify _ _ _ _); discriminate.
Qed.

(* ---------- solve / value / evalexpr ---------- *)
Lemma value_lit e v b : value e (User v, b) = lit (user_part e) v b.
Proof. unfold value, lit, user_part. cbn. destruct (e (User v)), b; reflexivity. Qed.
Lemma evalterms_sum e l : forall s0, evalterms e l s0 = (s0 + tsum (user_part e) l)%Z.
Proof.
  induction l as [|t r IH]; intro s0; cbn [evalterms tsum]; [lia|].
  rewrite IH. unfold tlit. rewrite value_lit.
  destruct (lit_01 (user_part e) (tv t) (ts t)) as [E|E]; rewrite E; cbn; lia.
Qed.
Lemma evalexpr_eval e x : evalexpr e x = eval (user_part e) x.
Proof. unfold evalexpr, eval. apply evalterms_sum. Qed.

Section Solver.
  (* the SAT solver (PySAT) is not modelled: any function with this contract *)
  Variable sat_o : cnf -> option valuation.
  Hypothesis sat_o_sound : forall f e, sat_o f = Some e -> sat e f.
  Hypothesis sat_o_complete : forall f, sat_o f = None -> forall e, ~ sat e f.
  Definition solve (s : mgr) : option valuation := sat_o (clauses s).

  Theorem solve_exact : forall (m0 : memory) ps, mem_wf m0 -> Forall post_ok ps ->
    exists m s sts, run_posts m0 empty_mgr ps = Some (m, s, sts) /\
      ((exists e, solve s = Some e) <-> (exists a, accepted_hold a ps sts)) /\
      (forall e, solve s = Some e ->
         accepted_hold (user_part e) ps sts /\
         (forall x, evalexpr e x = eval (user_part e) x) /\
         (forall v b, value e (User v, b) = lit (user_part e) v b)).
  Proof.
    intros m0 ps W Ok. destruct (post_exact m0 ps W Ok) as (m & s & sts & E & _ & Hx).
    exists m, s, sts. split; [exact E|].
    assert (M : forall e, solve s = Some e -> accepted_hold (user_part e) ps sts).
    { intros e He. apply Hx. exists e. split; [intro v; reflexivity|apply sat_o_sound; exact He]. }
    split; [split|].
    - intros [e He]. exists (user_part e). exact (M e He).
    - intros [a Ha]. apply Hx in Ha. destruct Ha as [e [_ HS]]. unfold solve.
      destruct (sat_o (clauses s)) as [e'|] eqn:Es; [exists e'; reflexivity|].
      exfalso. exact (sat_o_complete _ Es e HS).
    - intros e He. split; [exact (M e He)|]. split; [intro x; apply evalexpr_eval|intros v b; apply value_lit].
  Qed.
End Solver.

Example post_exact_ex :
  let ge2 := mkI [mkT "x" true 1; mkT "y" true 1; mkT "z" true 1] 2 GE in
  let ps := [PNewVar "x"; PIneq ge2 false; PAmoH 3 [("x", true); ("y", true); ("z", true); ("w", true)]%string;
             PIneq (mkI [mkT "x" true 1; mkT "y" true 1] 1 EQ) false; PIneq ge2 true] in
  Forall post_ok ps /\
  match run_posts [] empty_mgr ps with
  | Some (m, s, sts) => sts = [Accepted; Accepted; Accepted; Refused; Accepted] /\ List.length (clauses s) = 18 /\
                        List.length m = 4 /\ auxcount s = 1
  | None => False
  end.
Proof.
  cbn zeta. split.
  - repeat constructor.
  - vm_compute. repeat split.
Qed.
