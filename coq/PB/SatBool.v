(* Boolean evaluation of "the user assignment satisfies every accepted constraint" (the right-hand
   side of C07_post_exact), for the semantic comparison of the correspondence: by the theorem the
   model's CNF admits exactly these assignments, so an implementation whose CNF differs from the
   model's in form (clause order, auxiliary numbering, another but equivalent diagram) agrees with
   the model iff the assignments that extend to its CNF are these. *)
From Coq Require Import ZArith List Bool String Arith Lia.
From FrameModel Require Import PB.Expr PB.Cnf PB.Amo PB.Robdd PB.Codify PB.Sat.
Import ListNotations.

Definition holdsb (a : asg) (i : ineq) : bool :=
  let x := tsum a (il i) in
  match iop i with
  | GE => (ir i <=? x)%Z | LE => (x <=? ir i)%Z | GT => (ir i <? x)%Z | LT => (x <? ir i)%Z
  | EQ | EQ2 => (x =? ir i)%Z
  end.
Definition post_holdsb (a : uasg) (p : post) : bool :=
  match p with
  | PNewVar _ => true
  | PClause c => clause_val (uval a) (ulits c)
  | PImply l x => implb (forallb (lit_val (uval a)) (ulits l)) (lit_val (uval a) (ulit (fst x) (snd x)))
  | PAmoQ l => (count_true (uval a) (ulits l) <=? 1)%nat
  | PAmoH _ l => (count_true (uval a) (ulits l) <=? 1)%nat
  | PIneq i _ => holdsb a i
  end.
Fixpoint accepted_holdb (a : uasg) (ps : list post) (sts : list status) : bool :=
  match ps, sts with
  | p :: r, Accepted :: t => post_holdsb a p && accepted_holdb a r t
  | _ :: r, Refused :: t => accepted_holdb a r t
  | _, _ => true
  end.

Lemma holdsb_iff a i : holdsb a i = true <-> holds a i.
Proof.
  unfold holdsb, holds. destruct (iop i); cbn [cmp_holds].
  - rewrite Z.leb_le. lia.
  - rewrite Z.leb_le. lia.
  - rewrite Z.ltb_lt. lia.
  - rewrite Z.ltb_lt. lia.
  - rewrite Z.eqb_eq. lia.
  - rewrite Z.eqb_eq. lia.
Qed.
Lemma post_holdsb_iff a p : post_holdsb a p = true <-> post_holds a p.
Proof.
  destruct p as [v|c|l x|l|k l|i d]; cbn [post_holdsb post_holds].
  - tauto.
  - tauto.
  - destruct (forallb (lit_val (uval a)) (ulits l)); cbn [implb].
    + split; [intros H _; exact H|intro H; apply H; reflexivity].
    + split; [intros _ H; discriminate|reflexivity].
  - unfold at_most_one. apply Nat.leb_le.
  - unfold at_most_one. apply Nat.leb_le.
  - apply holdsb_iff.
Qed.
Theorem accepted_holdb_iff a : forall ps sts, accepted_holdb a ps sts = true <-> accepted_hold a ps sts.
Proof.
  induction ps as [|p r IH]; intros sts; cbn [accepted_holdb accepted_hold]; [tauto|].
  destruct sts as [|[|] t]; [tauto| |apply IH].
  rewrite andb_true_iff, post_holdsb_iff, IH. tauto.
Qed.

(* ---- user assignments as bit masks: variable j of [users] is true iff bit j of the mask is set ---- *)
Fixpoint index_of (s : string) (l : list string) (j : nat) : option nat :=
  match l with
  | [] => None
  | x :: r => if String.eqb s x then Some j else index_of s r (S j)
  end.
Definition asg_mask (users : list string) (mask : N) : uasg :=
  fun s => match index_of s users 0 with Some j => N.testbit mask (N.of_nat j) | None => false end.
(* observed: for each mask, whether the assignment extends to a model of the implementation's CNF *)
Definition sem_table (users : list string) (ps : list post) (sts : list status) (tab : list (N * bool)) : bool :=
  forallb (fun mb => Bool.eqb (accepted_holdb (asg_mask users (fst mb)) ps sts) (snd mb)) tab.
(* all 2^n masks at once: bit m of [tt] says whether mask m extends *)
Definition sem_full (users : list string) (ps : list post) (sts : list status) (tt : N) : bool :=
  forallb (fun m => let mask := N.of_nat m in
                    Bool.eqb (accepted_holdb (asg_mask users mask) ps sts) (N.testbit tt mask))
          (seq 0 (Nat.pow 2 (List.length users))).
