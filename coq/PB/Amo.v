(* C07 model, part 2: SATManager.quadraticencoding / heuleencoding
   (tools/rect/satmanager.py:85-111). *)
From Coq Require Import List Bool String Arith Lia.
From FrameModel Require Import PB.Cnf.
Import ListNotations.

(* for i: for j > i: add_clause([-lst[i], -lst[j]]) *)
Fixpoint quadratic (l : list literal) : cnf :=
  match l with
  | [] => []
  | x :: r => map (fun y => [neg x; neg y]) r ++ quadratic r
  end.

(* heuleencoding(lst, k) for k >= 3 (the k < 3 refusal is in Sat.v).
   [aux] is the manager's auxcount; the result is the clauses in the order they
   are added and the new auxcount.  Fuel: the list gets shorter by k - 2 >= 1 in
   every recursive call, [List.length l] is enough; [None] = out of fuel. *)
Fixpoint heule (fuel : nat) (k : nat) (aux : nat) (l : list literal) : option (cnf * nat) :=
  if List.length l <=? k then Some (quadratic l, aux)
  else match fuel with
       | 0 => None
       | S f =>
           let fresh : literal := (Aux (S aux), true) in
           let h1 := firstn (k - 1) l ++ [fresh] in
           let h2 := neg fresh :: skipn (k - 1) l in     (* lst[k-2:] with [0] := -fresh *)
           match heule f k (S aux) h2 with
           | None => None
           | Some (c2, aux') => Some (quadratic h1 ++ c2, aux')
           end
       end.

Definition count_true (e : valuation) (l : list literal) : nat := List.length (filter (lit_val e) l).
Definition at_most_one (e : valuation) (l : list literal) : Prop := count_true e l <= 1.
