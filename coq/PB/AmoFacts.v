(* C07 facts, part 1: CNF satisfaction lemmas; the pairwise and the chained
   at-most-one encodings are exact for every list and every k >= 3. *)
From Coq Require Import List Bool Arith Lia String.
From FrameModel Require Import PB.Cnf PB.Amo.
Import ListNotations.

Lemma sat_app e f g : sat e (f ++ g) <-> sat e f /\ sat e g.
Proof. unfold sat, cnf_val. rewrite forallb_app, andb_true_iff. tauto. Qed.
Lemma sat_cons e c f : sat e (c :: f) <-> clause_val e c = true /\ sat e f.
Proof. unfold sat, cnf_val. cbn [forallb]. rewrite andb_true_iff. tauto. Qed.
Lemma sat_nil e : sat e [].
Proof. reflexivity. Qed.
Lemma sat_In e f : sat e f <-> forall c, In c f -> clause_val e c = true.
Proof. unfold sat, cnf_val. apply forallb_forall. Qed.
Lemma lit_val_neg e l : lit_val e (neg l) = negb (lit_val e l).
Proof. unfold lit_val, neg. cbn. destruct (e (fst l)), (snd l); reflexivity. Qed.

(* satisfaction only depends on the variables that occur *)
Definition agree_on (l : list literal) (e e' : valuation) : Prop := forall x, In x l -> e (fst x) = e' (fst x).
Lemma clause_val_agree e e' c : agree_on c e e' -> clause_val e c = clause_val e' c.
Proof.
  induction c as [|x c IH]; intro H; cbn; [reflexivity|].
  unfold lit_val at 1 3. rewrite (H x (or_introl eq_refl)). f_equal. apply IH.
  intros y Hy. apply H. right. exact Hy.
Qed.
Lemma cnf_val_agree e e' f : (forall c, In c f -> agree_on c e e') -> cnf_val e f = cnf_val e' f.
Proof.
  induction f as [|c f IH]; intro H; cbn; [reflexivity|].
  rewrite (clause_val_agree e e' c) by (apply H; left; reflexivity).
  f_equal. apply IH. intros d Hd. apply H. right. exact Hd.
Qed.

Lemma count_cons e x r : count_true e (x :: r) = (if lit_val e x then 1 else 0) + count_true e r.
Proof. unfold count_true. cbn. destruct (lit_val e x); reflexivity. Qed.
Lemma count_app e l r : count_true e (l ++ r) = count_true e l + count_true e r.
Proof. unfold count_true. rewrite filter_app, List.app_length. reflexivity. Qed.
Lemma count_agree e e' l : agree_on l e e' -> count_true e l = count_true e' l.
Proof.
  induction l as [|x l IH]; intro H; [reflexivity|]. rewrite !count_cons.
  unfold lit_val at 1 2. rewrite (H x (or_introl eq_refl)). f_equal. apply IH.
  intros y Hy. apply H. right. exact Hy.
Qed.

Lemma pairs_sat e x r :
  sat e (map (fun y => [neg x; neg y]) r) <-> (lit_val e x = false \/ count_true e r = 0).
Proof.
  induction r as [|y r IH]; cbn [map].
  - split; [intros _; right; reflexivity|intros _; apply sat_nil].
  - rewrite sat_cons, IH, count_cons. cbn [clause_val existsb]. rewrite !lit_val_neg.
    destruct (lit_val e x), (lit_val e y); cbn; split; intro H;
      repeat match goal with
             | H : _ /\ _ |- _ => destruct H
             | H : _ \/ _ |- _ => destruct H
             end; try discriminate; try lia; try (split; [reflexivity|]); try tauto;
      try (right; lia); try (left; reflexivity).
Qed.

(* (i) the pairwise encoding: satisfied exactly when at most one literal of the list is true
   (repeated literals count with their multiplicity), for every list and every valuation *)
Theorem amo_quadratic : forall e l, sat e (quadratic l) <-> at_most_one e l.
Proof.
  intros e l. unfold at_most_one. induction l as [|x r IH]; cbn [quadratic].
  - split; [intros _; cbn; lia|intros _; apply sat_nil].
  - rewrite sat_app, pairs_sat, IH, count_cons.
    destruct (lit_val e x); split; intro H;
      repeat match goal with
             | H : _ /\ _ |- _ => destruct H
             | H : _ \/ _ |- _ => destruct H
             end; try discriminate; try lia;
      (split; [first [left; reflexivity|right; lia]|lia]).
Qed.

Example amo_quadratic_ex :
  let l := [(User "a"%string, true); (User "b"%string, false); (User "a"%string, true)] in
  cnf_val (fun v => match v with User "b" => true | _ => false end) (quadratic l) = true /\
  cnf_val (fun v => match v with User "a" => true | _ => false end) (quadratic l) = false /\
  List.length (quadratic l) = 3.
Proof. repeat split. Qed.

(* ---------- the chained (Heule) encoding ---------- *)
Lemma heule_aux_mono : forall fuel k aux l cs aux', heule fuel k aux l = Some (cs, aux') -> aux <= aux'.
Proof.
  induction fuel as [|f IH]; intros k aux l cs aux'; cbn [heule];
    destruct (List.length l <=? k); try (intros H; injection H as _ H; lia); try discriminate.
  destruct (heule f k (S aux) _) as [[c2 a2]|] eqn:E; [|discriminate].
  intros H; injection H as _ H. apply IH in E. lia.
Qed.

Lemma heule_total : forall fuel k aux l, 3 <= k -> List.length l <= fuel -> exists r, heule fuel k aux l = Some r.
Proof.
  induction fuel as [|f IH]; intros k aux l Hk Hl; cbn [heule].
  - destruct (Nat.leb_spec (List.length l) k); [eexists; reflexivity|lia].
  - destruct (Nat.leb_spec (List.length l) k); [eexists; reflexivity|].
    destruct (IH k (S aux) (neg (Aux (S aux), true) :: skipn (k - 1) l) Hk) as [[c2 a2] E].
    + cbn [List.length]. rewrite skipn_length. lia.
    + rewrite E. eexists; reflexivity.
Qed.

Lemma heule_sound : forall fuel k aux l cs aux' e,
  heule fuel k aux l = Some (cs, aux') -> sat e cs -> at_most_one e l.
Proof.
  induction fuel as [|f IH]; intros k aux l cs aux' e; cbn [heule];
    destruct (List.length l <=? k);
    try (intros H; injection H as H _; subst cs; apply amo_quadratic); try discriminate.
  destruct (heule f k (S aux) _) as [[c2 a2]|] eqn:E; [|discriminate].
  intros H; injection H as H _; subst cs. intro HS. apply sat_app in HS. destruct HS as [S1 S2].
  apply amo_quadratic in S1. apply (IH _ _ _ _ _ e E) in S2.
  unfold at_most_one in *. rewrite <- (firstn_skipn (k - 1) l), count_app.
  rewrite count_app in S1. rewrite !count_cons in S1. rewrite count_cons, lit_val_neg in S2.
  cbn [count_true filter List.length] in S1.
  destruct (lit_val e (Aux (S aux), true)); cbn in S1, S2; lia.
Qed.

Definition aux_below (n : nat) (l : list literal) : Prop :=
  forall x k, In x l -> fst x = Aux k -> k <= n.
Definition same_outside (lo hi : nat) (e e' : valuation) : Prop :=
  forall v, (forall n, v = Aux n -> ~ (lo < n <= hi)) -> e' v = e v.

Lemma heule_complete : forall fuel k aux l cs aux' e,
  heule fuel k aux l = Some (cs, aux') -> at_most_one e l -> aux_below aux l ->
  exists e', same_outside aux aux' e e' /\ sat e' cs.
Proof.
  induction fuel as [|f IH]; intros k aux l cs aux' e; cbn [heule];
    destruct (List.length l <=? k);
    try (intros H; injection H as H _; subst cs; intros A _; exists e; split;
         [intros v _; reflexivity|apply amo_quadratic; exact A]); try discriminate.
  destruct (heule f k (S aux) _) as [[c2 a2]|] eqn:E; [|discriminate].
  intros H; injection H as H H'; subst cs a2. intros A B.
  set (F := firstn (k - 1) l) in *. set (R := skipn (k - 1) l) in *.
  assert (El : l = F ++ R) by (symmetry; apply firstn_skipn).
  unfold at_most_one in A. rewrite El, count_app in A.
  set (b := Nat.eqb (count_true e F) 0).
  set (e1 := fun v => if var_eqb v (Aux (S aux)) then b else e v).
  assert (Agl : agree_on l e e1).
  { intros x Hx. unfold e1. destruct (fst x) eqn:Ex; cbn [var_eqb]; try reflexivity.
    destruct (Nat.eqb_spec n (S aux)); [|reflexivity]. pose proof (B x n Hx Ex). lia. }
  assert (AgF : agree_on F e e1) by (intros x Hx; apply Agl; rewrite El; apply in_or_app; left; exact Hx).
  assert (AgR : agree_on R e e1) by (intros x Hx; apply Agl; rewrite El; apply in_or_app; right; exact Hx).
  assert (Ef : e1 (Aux (S aux)) = b) by (unfold e1; cbn [var_eqb]; rewrite Nat.eqb_refl; reflexivity).
  assert (A2 : at_most_one e1 (neg (Aux (S aux), true) :: R)).
  { unfold at_most_one. rewrite count_cons, lit_val_neg, <- (count_agree e e1 R AgR).
    unfold lit_val. cbn [fst snd]. rewrite Ef. unfold b.
    destruct (Nat.eqb_spec (count_true e F) 0); cbn; lia. }
  assert (B2 : aux_below (S aux) (neg (Aux (S aux), true) :: R)).
  { intros x n [Hx|Hx] Ex.
    - subst x. cbn in Ex. injection Ex as Ex. lia.
    - assert (n <= aux) by (apply (B x n); [rewrite El; apply in_or_app; right; exact Hx|exact Ex]). lia. }
  destruct (IH _ _ _ _ _ e1 E A2 B2) as [e2 [O2 S2]].
  pose proof (heule_aux_mono _ _ _ _ _ _ E) as Mono.
  exists e2. split.
  - intros v Hv. rewrite O2.
    + unfold e1. destruct v; cbn [var_eqb]; try reflexivity.
      destruct (Nat.eqb_spec n (S aux)); [|reflexivity]. exfalso. apply (Hv n eq_refl). lia.
    + intros n En Hn. apply (Hv n En). lia.
  - apply sat_app. split; [|exact S2]. apply amo_quadratic. unfold at_most_one.
    assert (Ag1 : agree_on (F ++ [(Aux (S aux), true)]) e1 e2).
    { intros x Hx. symmetry. apply O2. intros n En Hn. apply in_app_or in Hx. destruct Hx as [Hx|[Hx|[]]].
      - assert (n <= aux) by (apply (B x n); [rewrite El; apply in_or_app; left; exact Hx|exact En]). lia.
      - subst x. cbn in En. injection En as En. lia. }
    assert (Q : count_true e2 (F ++ [(Aux (S aux), true)]) = count_true e1 (F ++ [(Aux (S aux), true)]))
      by (symmetry; apply count_agree; exact Ag1).
    eapply Nat.le_trans; [apply Nat.eq_le_incl; exact Q|].
    rewrite count_app, <- (count_agree e e1 F AgF), count_cons.
    unfold lit_val. cbn [fst snd]. rewrite Ef. unfold b. cbn [count_true filter List.length].
    destruct (Nat.eqb_spec (count_true e F) 0); cbn; lia.
Qed.

Definition user_lits (l : list literal) : Prop := forall x, In x l -> user_var (fst x) = true.
Lemma user_lits_aux_below n l : user_lits l -> aux_below n l.
Proof. intros U x k Hx Ex. specialize (U x Hx). rewrite Ex in U. discriminate. Qed.
Lemma user_lits_agree l e a : user_lits l -> extends e a -> agree_on l e (uval a).
Proof.
  intros U X x Hx. specialize (U x Hx). destruct (fst x); try discriminate. cbn. apply X.
Qed.

(* (v) for every chain width k >= 3, every list of literals over user variables and every value of
   the manager's counter: the encoding is produced, and a user assignment extends to a model of it
   (over the fresh auxiliary variables) exactly when at most one literal of the list is true *)
Theorem amo_heule : forall k l aux a, 3 <= k -> user_lits l ->
  exists cs aux', heule (List.length l) k aux l = Some (cs, aux') /\
                  (ext a cs <-> at_most_one (uval a) l).
Proof.
  intros k l aux a Hk U. destruct (heule_total (List.length l) k aux l Hk (le_n _)) as [[cs aux'] E].
  exists cs, aux'. split; [exact E|]. split.
  - intros [e [X HS]]. pose proof (heule_sound _ _ _ _ _ _ e E HS) as A.
    unfold at_most_one in *. rewrite <- (count_agree e (uval a) l); [exact A|].
    apply user_lits_agree; assumption.
  - intro A. destruct (heule_complete _ _ _ _ _ _ (uval a) E A (user_lits_aux_below aux l U)) as [e' [O HS]].
    exists e'. split; [|exact HS]. intro s. rewrite O; [reflexivity|]. intros n En. discriminate.
Qed.

Example amo_heule_ex :
  let l := map (fun s => (User s, true)) ["a"; "b"; "c"; "d"; "e"; "f"]%string in
  heule 6 3 0 l =
  Some (quadratic [(User "a", true); (User "b", true); (Aux 1, true)] ++
        quadratic [(Aux 1, false); (User "c", true); (Aux 2, true)] ++
        quadratic [(Aux 2, false); (User "d", true); (Aux 3, true)] ++
        quadratic [(Aux 3, false); (User "e", true); (User "f", true)], 3).
Proof. reflexivity. Qed.
