(* C07 facts, part 1: CNF satisfaction lemmas; the pairwise and the chained
   at-most-one encodings are exact for every list and every k >= 3. *)
From Coq Require Import List Bool Arith Lia String.
From FrameModel Require Import PB.Cnf PB.Amo.
Import ListNotations.

Lemma sat_app e f g : sat e (f ++ g) <-> sat e f /\ sat e g.
Proof. unfold sat, cnf_val. rewrite forallb_app, andb_true_iff. tauto. Qed.
Lemma sat_cons e c f : sat e (c :: f) <-> clause_val e c = true /\ sat e f.
Proof. unfold sat, cnf_val. cbn [forallb]. rewrite andb_true_iff. tauto. Qed.
Lemma sat_nil e : sat e [].
Proof. reflexivity. Qed.
Lemma sat_In e f : sat e f <-> forall c, In c f -> clause_val e c = true.
Proof. unfold sat, cnf_val. apply forallb_forall. Qed.
Lemma lit_val_neg e l : lit_val e (neg l) = negb (lit_val e l).
Proof. unfold lit_val, neg. cbn. destruct (e (fst l)), (snd l); reflexivity. Qed.

(* satisfaction only depends on the variables that occur *)
Definition agree_on (l : list literal) (e e' : valuation) : Prop := forall x, In x l -> e (fst x) = e' (fst x).
Lemma clause_val_agree e e' c : agree_on c e e' -> clause_val e c = clause_val e' c.
Proof.
  induction c as [|x c IH]; intro H; cbn; [reflexivity|].
  unfold lit_val at 1 3. rewrite (H x (or_introl eq_refl)). f_equal. apply IH.
  intros y Hy. apply H. right. exact Hy.
Qed.
Lemma cnf_val_agree e e' f : (forall c, In c f -> agree_on c e e') -> cnf_val e f = cnf_val e' f.
Proof.
  induction f as [|c f IH]; intro H; cbn; [reflexivity|].
  rewrite (clause_val_agree e e' c) by (apply H; left; reflexivity).
  f_equal. apply IH. intros d Hd. apply H. right. exact Hd.
Qed.

Lemma count_cons e x r : count_true e (x :: r) = (if lit_val e x then 1 else 0) + count_true e r.
Proof. unfold count_true. cbn. destruct (lit_val e x); reflexivity. Qed.
Lemma count_app e l r : count_true e (l ++ r) = count_true e l + count_true e r.
Proof. unfold count_true. rewrite filter_app, List.app_length. reflexivity. Qed.
Lemma count_agree e e' l : agree_on l e e' -> count_true e l = count_true e' l.
Proof.
  induction l as [|x l IH]; intro H; [reflexivity|]. rewrite !count_cons.
  unfold lit_val at 1 2. rewrite (H x (or_introl eq_refl)). f_equal. apply IH.
  intros y Hy. apply H. right. exact Hy.
Qed.

Lemma pairs_sat e x r :
  sat e (map (fun y => [neg x; neg y]) r) <-> (lit_val e x = false \/ count_true e r = 0).
Proof.
  induction r as [|y r IH]; cbn [map].
  - split; [intros _; right; reflexivity|intros _; apply sat_nil].
  - rewrite sat_cons, IH, count_cons. cbn [clause_val existsb]. rewrite !lit_val_neg.
    destruct (lit_val e x), (lit_val e y); cbn; split; intro H;
      repeat match goal with
             | H : _ /\ _ |- _ => destruct H
             | H : _ \/ _ |- _ => destruct H
             end; try discriminate; try lia; try (split; [reflexivity|]); try tauto;
      try (right; lia); try (left; reflexivity).
Qed.

(* (i) the pairwise encoding: satisfied exactly when at most one literal of the list is true
   (repeated literals count with their multiplicity), for every list and every valuation *)
Theorem amo_quadratic : forall e l, sat e (quadratic l) <-> at_most_one e l.
Proof.
  intros e l. unfold at_most_one. induction l as [|x r IH]; cbn [quadratic].
  - split; [intros _; cbn; lia|intros _; apply sat_nil].
  - rewrite sat_app, pairs_sat, IH, count_cons.
    destruct (lit_val e x); split; intro H;
      repeat match goal with
             | H : _ /\ _ |- _ => destruct H
             | H : _ \/ _ |- _ => destruct H
             end; try discriminate; try lia;
      (split; [first [left; reflexivity|right; lia]|lia]).
Qed.

Example amo_quadratic_ex :
  let l := [(User "a"%string, true); (User "b"%string, false); (User "a"%string, true)] in
  cnf_val (fun v => match v with User "b" => true | _ => false end) (quadratic l) = true /\
  cnf_val (fun v => match v with User "a" => true | _ => false end) (quadratic l) = false /\
  List.length (quadratic l) = 3.
Proof. repeat split. Qed.
