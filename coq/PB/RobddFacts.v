(* C07 facts, part 2: the clause shortcut is exact; the diagram store keeps old
   denotations; constructrobdd (generic in the two propagation functions)
   returns a node that denotes "sum >= bound", from every well-formed store. *)
From Coq Require Import ZArith List Bool String Lia.
From FrameModel Require Import PB.Expr PB.ExprFacts PB.Cnf PB.Robdd.
Import ListNotations.
Open Scope Z_scope.

(* ---------- sums ---------- *)
Lemma tsum_app a l r : tsum a (l ++ r) = tsum a l + tsum a r.
Proof. induction l as [|t l IH]; cbn [app tsum]; lia. Qed.
Lemma tsum_nonneg a l : pos_terms l -> 0 <= tsum a l.
Proof.
  induction 1 as [|t l Ht _ IH]; cbn [tsum]; [lia|].
  destruct (lit_01 a (tv t) (ts t)) as [E|E]; rewrite E; lia.
Qed.
Lemma tsum_le_maxsum a l : pos_terms l -> tsum a l <= maxsum l.
Proof.
  induction 1 as [|t l Ht _ IH]; cbn [tsum maxsum]; [lia|].
  destruct (lit_01 a (tv t) (ts t)) as [E|E]; rewrite E; lia.
Qed.
Lemma maxsum_nonneg l : pos_terms l -> 0 <= maxsum l.
Proof. induction 1 as [|t l Ht _ IH]; cbn [maxsum]; lia. Qed.

Lemma tsum_ins_desc a t l : tsum a (ins_desc t l) = tc t * lit a (tv t) (ts t) + tsum a l.
Proof.
  induction l as [|x r IH]; cbn [ins_desc tsum]; [lia|].
  destruct (tc x >? tc t); cbn [tsum]; lia.
Qed.
Lemma tsum_sort a l : tsum a (sort_desc l) = tsum a l.
Proof. induction l as [|t r IH]; cbn [sort_desc tsum]; [reflexivity|]. rewrite tsum_ins_desc. lia. Qed.
Lemma pos_ins_desc t l : 0 < tc t -> pos_terms l -> pos_terms (ins_desc t l).
Proof.
  intros Ht. induction 1 as [|x r Hx Hr IH]; cbn [ins_desc].
  - constructor; [exact Ht|constructor].
  - destruct (tc x >? tc t); [constructor; [exact Hx|exact IH]|constructor; [exact Ht|constructor; assumption]].
Qed.
Lemma pos_sort l : pos_terms l -> pos_terms (sort_desc l).
Proof. induction 1 as [|t r Ht _ IH]; cbn [sort_desc]; [constructor|]. apply pos_ins_desc; assumption. Qed.

(* ---------- isclause ---------- *)
Lemma take_strong_spec o rhs l b w :
  take_strong o rhs l = (b, w) -> l = b ++ w /\ Forall (fun t => strong o rhs t = true) b.
Proof.
  revert b w. induction l as [|t r IH]; intros b w; cbn [take_strong].
  - intros E; inversion E; subst. split; [reflexivity|constructor].
  - destruct (strong o rhs t) eqn:S.
    + destruct (take_strong o rhs r) as [b' w'] eqn:T. intros E; inversion E; subst.
      destruct (IH _ _ eq_refl) as [E1 F]. split; [cbn; f_equal; exact E1|constructor; assumption].
    + intros E; inversion E; subst. split; [reflexivity|constructor].
Qed.
Lemma acc_while_le rhs l : forall s, acc_while rhs s l <= rhs -> acc_while rhs s l = s + maxsum l.
Proof.
  induction l as [|t r IH]; intros s; cbn [acc_while maxsum]; [lia|].
  destruct (Z.leb_spec s rhs); [|lia]. intros H1. rewrite IH by exact H1. lia.
Qed.

Lemma lit_uval a t : lit_val (uval a) (tlit t) = (lit a (tv t) (ts t) =? 1).
Proof. unfold lit_val, tlit, uval, lit. cbn. destruct (Bool.eqb (a (tv t)) (ts t)); reflexivity. Qed.
Lemma clause_terms a l :
  clause_val (uval a) (rev (map tlit l)) = true <-> exists t, In t l /\ lit a (tv t) (ts t) = 1.
Proof.
  unfold clause_val. rewrite existsb_exists. split.
  - intros [x [Hin Hv]]. apply in_rev in Hin. apply in_map_iff in Hin. destruct Hin as [t [E Hin]]. subst x.
    exists t. split; [exact Hin|]. rewrite lit_uval in Hv. lia.
  - intros [t [Hin Hv]]. exists (tlit t). split.
    + apply in_rev. rewrite rev_involutive. apply in_map. exact Hin.
    + rewrite lit_uval. lia.
Qed.
Lemma tsum_all_false a l : (forall t, In t l -> lit a (tv t) (ts t) <> 1) -> tsum a l = 0.
Proof.
  induction l as [|t r IH]; intro H; cbn [tsum]; [reflexivity|].
  rewrite IH by (intros x Hx; apply H; right; exact Hx).
  destruct (lit_01 a (tv t) (ts t)) as [E|E]; [rewrite E; lia|]. exfalso. apply (H t); [left; reflexivity|exact E].
Qed.
Lemma tsum_ge_member a l t : pos_terms l -> In t l -> lit a (tv t) (ts t) = 1 -> tc t <= tsum a l.
Proof.
  induction 1 as [|x r Hx Hr IH]; intros Hin Hv; [destruct Hin|]. cbn [tsum].
  destruct Hin as [E|Hin].
  - subst x. rewrite Hv. pose proof (tsum_nonneg a r Hr). lia.
  - specialize (IH Hin Hv). destruct (lit_01 a (tv x) (ts x)) as [E|E]; rewrite E; lia.
Qed.

(* (ii) when the shortcut fires, the emitted clause - or nothing, for a tautology - is
   equivalent to the inequality under every assignment *)
Theorem isclause_exact : forall i a, pos_terms (il i) ->
  match isclause i with
  | Tautology => holds a i
  | IsClause c => clause_val (uval a) c = true <-> holds a i
  | NotClause => True
  end.
Proof.
  intros [l rhs o] a Hp. unfold isclause, isclause_gen, holds. cbn [il ir iop] in *.
  destruct (negb (is_ge o || is_gt o)) eqn:Eop; [exact I|].
  pose proof (tsum_nonneg a l Hp) as Hn.
  unfold taut_fixed. destruct ((rhs <? 0) || ((rhs =? 0) && is_ge o)) eqn:Et.
  { destruct o; cbn in Eop; try discriminate; cbn [cmp_holds]; cbn in Et.
    - destruct (Z.ltb_spec rhs 0); destruct (Z.eqb_spec rhs 0); cbn in Et; try discriminate; lia.
    - destruct (Z.ltb_spec rhs 0); cbn in Et; [lia|]. rewrite andb_false_r in Et. discriminate. }
  destruct (take_strong o rhs (sort_desc l)) as [big weak] eqn:T.
  destruct (take_strong_spec _ _ _ _ _ T) as [Esplit Hbig].
  set (s := acc_while rhs 0 weak).
  destruct ((s >? rhs) || ((s >=? rhs) && is_ge o)) eqn:Es; [exact I|].
  pose proof (pos_sort l Hp) as Hps. rewrite Esplit in Hps.
  assert (Hpb : pos_terms big) by (apply Forall_app in Hps; tauto).
  assert (Hpw : pos_terms weak) by (apply Forall_app in Hps; tauto).
  assert (Esum : tsum a l = tsum a big + tsum a weak) by (rewrite <- (tsum_sort a l), Esplit, tsum_app; reflexivity).
  apply orb_false_iff in Es. destruct Es as [Es1 Es2].
  assert (Hs : s <= rhs) by (destruct (Z.gtb_spec s rhs); [discriminate|lia]).
  assert (Hsw : s = maxsum weak) by (unfold s in *; rewrite acc_while_le by exact Hs; lia).
  pose proof (tsum_le_maxsum a weak Hpw) as Hw. pose proof (tsum_nonneg a weak Hpw) as Hw0.
  rewrite clause_terms. split.
  - intros [t [Hin Hv]]. pose proof (tsum_ge_member a big t Hpb Hin Hv) as Hge.
    rewrite Forall_forall in Hbig. specialize (Hbig t Hin). unfold strong in Hbig.
    destruct o; cbn in Eop; try discriminate; cbn [cmp_holds is_ge] in *.
    + rewrite andb_true_r in Hbig. apply orb_true_iff in Hbig.
      destruct Hbig as [H|H]; [destruct (Z.gtb_spec (tc t) rhs); [lia|discriminate]|].
      rewrite Z.geb_leb in H. apply Z.leb_le in H. lia.
    + rewrite andb_false_r, orb_false_r in Hbig. destruct (Z.gtb_spec (tc t) rhs); [lia|discriminate].
  - intros Hh.
    destruct (existsb (fun t => lit a (tv t) (ts t) =? 1) big) eqn:Ex.
    + apply existsb_exists in Ex. destruct Ex as [t [Hin Hv]]. exists t. split; [exact Hin|lia].
    + exfalso. assert (Hz : tsum a big = 0).
      { apply tsum_all_false. intros t Hin Hv.
        assert (existsb (fun t => lit a (tv t) (ts t) =? 1) big = true)
          by (apply existsb_exists; exists t; split; [exact Hin|lia]). congruence. }
      destruct o; cbn in Eop; try discriminate; cbn [cmp_holds is_ge] in *.
      * rewrite andb_true_r in Es2. rewrite Z.geb_leb in Es2. apply Z.leb_gt in Es2. lia.
      * lia.
Qed.

Example isclause_ex :
  isclause (mkI [mkT "x" true 1; mkT "y" false 1] 0 GT) = IsClause [(User "y", false); (User "x", true)] /\
  isclause (mkI [mkT "x" true 3; mkT "y" false 1] 3 GE) = IsClause [(User "x", true)] /\
  isclause (mkI [mkT "x" true 2; mkT "y" true 1] 0 GE) = Tautology /\
  isclause (mkI [mkT "x" true 2; mkT "y" true 1; mkT "z" true 1] 2 GE) = NotClause.
Proof. repeat split. Qed.

(* the unrepaired tautology test (rhs <= 0 for both operators) drops x + y > 0 *)
Theorem gt0_refuted : exists i a, Forall (fun t => 0 < tc t) (il i) /\ isclause_orig i = Tautology /\ ~ holds a i.
Proof.
  exists (mkI [mkT "x" true 1; mkT "y" true 1] 0 GT), (fun _ => false).
  split; [repeat constructor|]. split; [reflexivity|]. unfold holds; cbn. lia.
Qed.

(* ---------- the diagram store ---------- *)
Local Open Scope nat_scope.

Lemma vals_app a (m1 m2 : memory) : forall acc, vals a (m1 ++ m2) acc = vals a m2 (vals a m1 acc).
Proof. induction m1 as [|[[v hi] lo] r IH]; intro acc; cbn [app vals]; [reflexivity|apply IH]. Qed.
Lemma vals_prefix a (m : memory) : forall acc, exists x, vals a m acc = acc ++ x /\ List.length x = List.length m.
Proof.
  induction m as [|[[v hi] lo] r IH]; intro acc; cbn [vals].
  - exists []. rewrite app_nil_r. split; reflexivity.
  - destruct (IH (acc ++ [if a v then nth hi acc false else nth lo acc false])) as [x [E L]].
    eexists (_ :: x). rewrite E, <- app_assoc. split; [reflexivity|cbn; lia].
Qed.
Lemma vals_length a (m : memory) acc : List.length (vals a m acc) = List.length acc + List.length m.
Proof. destruct (vals_prefix a m acc) as [x [E L]]. rewrite E, app_length. lia. Qed.

Lemma den_0 (m : memory) a : den m a 0 = false.
Proof. unfold den. destruct (vals_prefix a m [false; true]) as [x [E _]]. rewrite E. reflexivity. Qed.
Lemma den_1 (m : memory) a : den m a 1 = true.
Proof. unfold den. destruct (vals_prefix a m [false; true]) as [x [E _]]. rewrite E. reflexivity. Qed.

(* old ids keep their denotation when the store grows *)
Lemma den_old (m ex : memory) a id : valid m id -> den (m ++ ex) a id = den m a id.
Proof.
  unfold valid, den. intro H. rewrite vals_app.
  destruct (vals_prefix a ex (vals a m [false; true])) as [x [E _]]. rewrite E.
  apply app_nth1. rewrite vals_length. cbn. lia.
Qed.
Lemma den_new (m : memory) v hi lo a :
  den (m ++ [(v, hi, lo)]) a (2 + List.length m) = if a v then den m a hi else den m a lo.
Proof.
  unfold den. rewrite vals_app. cbn [vals].
  rewrite app_nth2 by (rewrite vals_length; cbn; lia).
  rewrite vals_length. cbn [List.length]. replace (2 + List.length m - (2 + List.length m)) with 0 by lia.
  reflexivity.
Qed.
Lemma den_node (m : memory) j v hi lo a : mem_wf m -> nth_error m j = Some (v, hi, lo) ->
  den m a (j + 2) = if a v then den m a hi else den m a lo.
Proof.
  intros W E. destruct (W _ _ _ _ E) as [Hh Hl].
  destruct (nth_error_split m j E) as [l1 [l2 [Em Lj]]]. subst j.
  assert (Em' : m = (l1 ++ [(v, hi, lo)]) ++ l2) by (rewrite <- app_assoc; exact Em).
  rewrite Em' at 1. rewrite den_old by (unfold valid; rewrite app_length; cbn; lia).
  replace (List.length l1 + 2) with (2 + List.length l1) by lia. rewrite den_new.
  rewrite Em. rewrite !den_old by (unfold valid; lia). reflexivity.
Qed.

Lemma wf_snoc (m : memory) v hi lo : mem_wf m -> valid m hi -> valid m lo -> mem_wf (m ++ [(v, hi, lo)]).
Proof.
  unfold mem_wf, valid. intros W Hh Hl j v' hi' lo' E.
  destruct (Nat.lt_ge_cases j (List.length m)) as [Lt|Ge].
  - rewrite nth_error_app1 in E by exact Lt. eapply W; exact E.
  - rewrite nth_error_app2 in E by exact Ge. destruct (j - List.length m) eqn:D.
    + cbn in E. inversion E; subst. lia.
    + cbn in E. destruct n; discriminate.
Qed.

Lemma node_eqb_eq x y : node_eqb x y = true -> x = y.
Proof.
  destruct x as [[v i] e], y as [[v' i'] e']. cbn. rewrite !andb_true_iff.
  intros [[A B] C]. apply String.eqb_eq in A. apply Nat.eqb_eq in B. apply Nat.eqb_eq in C. subst. reflexivity.
Qed.
Lemma find_node_spec x (m : memory) : forall k id, find_node x m k = Some id -> exists j, id = j + k /\ nth_error m j = Some x.
Proof.
  induction m as [|y r IH]; intros k id; cbn [find_node]; [discriminate|].
  destruct (node_eqb x y) eqn:E.
  - intros H; inversion H; subst. apply node_eqb_eq in E. subst y. exists 0. split; [reflexivity|reflexivity].
  - intros H. destruct (IH _ _ H) as [j [Ej Hn]]. exists (S j). split; [lia|exact Hn].
Qed.

Lemma intern_spec v hi lo (m : memory) id (m' : memory) : intern (v, hi, lo) m = (id, m') ->
  mem_wf m -> valid m hi -> valid m lo ->
  exists ex, m' = m ++ ex /\ mem_wf m' /\ valid m' id /\
             forall a, den m' a id = if a v then den m a hi else den m a lo.
Proof.
  unfold intern. intros E W Hh Hl. destruct (find_node (v, hi, lo) m 2) as [k|] eqn:F.
  - injection E as Hk Hm. subst id m'. exists []. rewrite app_nil_r. split; [reflexivity|]. split; [exact W|].
    destruct (find_node_spec _ _ _ _ F) as [j [Ej Hn]]. subst k.
    assert (j < List.length m) by (apply nth_error_Some; congruence).
    split; [unfold valid; lia|]. intro a. apply den_node; assumption.
  - injection E as Hk Hm. subst id m'. exists [(v, hi, lo)]. split; [reflexivity|]. split; [apply wf_snoc; assumption|].
    split; [unfold valid; rewrite app_length; cbn; lia|]. intro a. apply den_new.
Qed.

(* ---------- constructrobdd, generic in the propagation functions ---------- *)
Lemma term_eqb_eq x y : term_eqb x y = true -> x = y.
Proof.
  destruct x, y. unfold term_eqb. cbn. rewrite !andb_true_iff. intros [[A B] C].
  apply String.eqb_eq in A. apply eqb_prop in B. apply Z.eqb_eq in C. subst. reflexivity.
Qed.
Lemma terms_eqb_eq x : forall y, terms_eqb x y = true -> x = y.
Proof.
  induction x as [|t x IH]; destruct y as [|u y]; cbn; try discriminate; [reflexivity|].
  rewrite andb_true_iff. intros [A B]. apply term_eqb_eq in A. apply IH in B. subst. reflexivity.
Qed.
Lemma data_eqb_eq x y : data_eqb x y = true -> x = y.
Proof.
  destruct x, y. unfold data_eqb. cbn. rewrite andb_true_iff. intros [A B].
  apply terms_eqb_eq in A. apply Z.eqb_eq in B. subst. reflexivity.
Qed.

Definition memo_ok (m : memory) (mo : memo_t) : Prop :=
  forall d id, memo_find d mo = Some id -> valid m id /\ forall a, den m a id = semb d a.
Lemma memo_ok_grow (m ex : memory) mo : memo_ok m mo -> memo_ok (m ++ ex) mo.
Proof.
  intros H d id E. destruct (H d id E) as [V D]. split.
  - unfold valid in *. rewrite app_length. lia.
  - intro a. rewrite den_old by exact V. apply D.
Qed.
Lemma valid_grow (m ex : memory) id : valid m id -> valid (m ++ ex) id.
Proof. unfold valid. rewrite app_length. lia. Qed.

Definition Pd (d : data) : Prop := pos_terms (fst d).

Lemma base_sem d a : Pd d -> bccond d = true -> semb d a = Nat.eqb (bcconstr d) 1.
Proof.
  unfold Pd, bccond, bcconstr, semb. intros P B.
  pose proof (tsum_nonneg a _ P). pose proof (tsum_le_maxsum a _ P).
  rewrite Z.geb_leb. destruct (Z.leb_spec (snd d) 0).
  - cbn. apply Z.leb_le. lia.
  - rewrite orb_false_r in B. apply Z.ltb_lt in B. cbn. apply Z.leb_gt. lia.
Qed.

Section Construct.
  Variables ifp elp : data -> data.
  Variable mu : data -> nat.
  Hypothesis Hstep : forall d, Pd d -> bccond d = false ->
    exists t r, fst d = t :: r /\ Pd (ifp d) /\ Pd (elp d) /\
      (forall a, a (tv t) = true -> semb (ifp d) a = semb d a) /\
      (forall a, a (tv t) = false -> semb (elp d) a = semb d a) /\
      mu (ifp d) < mu d /\ mu (elp d) < mu d.

  Lemma construct_sound : forall fuel d m mo id m' mo',
    construct ifp elp fuel d m mo = Some (id, m', mo') ->
    mem_wf m -> memo_ok m mo -> Pd d ->
    exists ex, m' = m ++ ex /\ mem_wf m' /\ valid m' id /\ memo_ok m' mo' /\
               forall a, den m' a id = semb d a.
  Proof.
    induction fuel as [|f IH]; intros d m mo id m' mo'; cbn [construct]; [discriminate|].
    intros E W MO P.
    destruct (memo_find d mo) as [k|] eqn:Em.
    { injection E as E1 E2 E3. subst k m' mo'. exists []. rewrite app_nil_r. destruct (MO _ _ Em) as [V D].
      split; [reflexivity|]. split; [exact W|]. split; [exact V|]. split; [exact MO|exact D]. }
    destruct (bccond d) eqn:Eb.
    { injection E as E1 E2 E3. subst id m' mo'. exists []. rewrite app_nil_r. split; [reflexivity|]. split; [exact W|].
      split; [unfold valid, bcconstr; destruct (snd d <=? 0)%Z; lia|]. split; [exact MO|].
      intro a. rewrite (base_sem d a P Eb). unfold bcconstr. destruct (snd d <=? 0)%Z; cbn; [apply den_1|apply den_0]. }
    destruct (Hstep d P Eb) as (t & r & Ed & Pi & Pe & Si & Se & _ & _).
    destruct (construct ifp elp f (ifp d) m mo) as [[[i m1] mo1]|] eqn:E1; [|discriminate].
    destruct (IH _ _ _ _ _ _ E1 W MO Pi) as (ex1 & Em1 & W1 & V1 & MO1 & D1).
    destruct (construct ifp elp f (elp d) m1 mo1) as [[[e m2] mo2]|] eqn:E2; [|discriminate].
    destruct (IH _ _ _ _ _ _ E2 W1 MO1 Pe) as (ex2 & Em2 & W2 & V2 & MO2 & D2).
    assert (D1' : forall a, den m2 a i = semb (ifp d) a).
    { intro a. rewrite Em2, den_old by exact V1. apply D1. }
    assert (V1' : valid m2 i) by (rewrite Em2; apply valid_grow; exact V1).
    destruct (Nat.eqb_spec i e) as [Eie|Nie].
    { injection E as E3 E4 E5. subst id m' mo'. exists (ex1 ++ ex2). split; [subst; rewrite app_assoc; reflexivity|].
      split; [exact W2|]. split; [exact V1'|]. split; [exact MO2|].
      intro a. destruct (a (tv t)) eqn:Ea.
      - rewrite D1'. apply Si. exact Ea.
      - rewrite Eie, D2. apply Se. exact Ea. }
    unfold dvar in E. rewrite Ed in E.
    destruct (intern (tv t, i, e) m2) as [k m3] eqn:Ei. injection E as E3 E4 E5. subst id m' mo'.
    destruct (intern_spec _ _ _ _ _ _ Ei W2 V1' V2) as (ex3 & Em3 & W3 & V3 & D3).
    exists (ex1 ++ ex2 ++ ex3). split; [subst; rewrite !app_assoc; reflexivity|].
    split; [exact W3|]. split; [exact V3|].
    assert (Dk : forall a, den m3 a k = semb d a).
    { intro a. rewrite D3. destruct (a (tv t)) eqn:Ea.
      - rewrite D1'. apply Si. exact Ea.
      - rewrite D2. apply Se. exact Ea. }
    split; [|exact Dk].
    intros d' id'. cbn [memo_find]. destruct (data_eqb d' d) eqn:Ed'.
    - intros H; inversion H; subst id'. apply data_eqb_eq in Ed'. subst d'. split; [exact V3|exact Dk].
    - intros H. rewrite Em3. exact (memo_ok_grow m2 ex3 mo2 MO2 d' id' H).
  Qed.

  Lemma construct_total : forall fuel d m mo, mu d < fuel -> Pd d ->
    exists r, construct ifp elp fuel d m mo = Some r.
  Proof.
    induction fuel as [|f IH]; intros d m mo Hf P; [lia|]. cbn [construct].
    destruct (memo_find d mo) as [k|]; [eexists; reflexivity|].
    destruct (bccond d) eqn:Eb; [eexists; reflexivity|].
    destruct (Hstep d P Eb) as (t & r & Ed & Pi & Pe & _ & _ & Mi & Me).
    destruct (IH (ifp d) m mo) as [[[i m1] mo1] E1]; [lia|exact Pi|]. rewrite E1.
    destruct (IH (elp d) m1 mo1) as [[[e m2] mo2] E2]; [lia|exact Pe|]. rewrite E2.
    destruct (Nat.eqb i e); [eexists; reflexivity|].
    unfold dvar. rewrite Ed. destruct (intern (tv t, i, e) m2). eexists; reflexivity.
  Qed.
End Construct.

(* ---------- the standard construction ---------- *)
Lemma bccond_nil rhs : bccond ([], rhs) = true.
Proof. unfold bccond. cbn. destruct (Z.ltb_spec 0 rhs); destruct (Z.leb_spec rhs 0); cbn; try reflexivity; lia. Qed.
Lemma geb_shift x y c : (c + x >=? y)%Z = (x >=? y - c)%Z.
Proof. rewrite !Z.geb_leb. destruct (Z.leb_spec y (c + x)); destruct (Z.leb_spec (y - c) x); try reflexivity; lia. Qed.
Lemma lit_true_s a v s : a v = true -> lit a v s = if s then 1%Z else 0%Z.
Proof. unfold lit. intros ->. destruct s; reflexivity. Qed.
Lemma lit_false_s a v s : a v = false -> lit a v s = if s then 0%Z else 1%Z.
Proof. unfold lit. intros ->. destruct s; reflexivity. Qed.

Lemma step_std : forall d, Pd d -> bccond d = false ->
  exists t r, fst d = t :: r /\ Pd (ifp_std d) /\ Pd (elp_std d) /\
    (forall a, a (tv t) = true -> semb (ifp_std d) a = semb d a) /\
    (forall a, a (tv t) = false -> semb (elp_std d) a = semb d a) /\
    mu_std (ifp_std d) < mu_std d /\ mu_std (elp_std d) < mu_std d.
Proof.
  intros [l rhs] P B. destruct l as [|t r]; [rewrite bccond_nil in B; discriminate|].
  exists t, r. unfold Pd, ifp_std, elp_std, mu_std, semb in *. cbn [fst snd] in *.
  inversion P as [|? ? Ht Pr]; subst.
  split; [reflexivity|]. split; [exact Pr|]. split; [exact Pr|].
  split; [|split; [|cbn; lia]].
  - intros a Ha. cbn [tsum]. rewrite (lit_true_s a _ _ Ha). destruct (ts t).
    + rewrite Z.mul_1_r. symmetry. apply geb_shift.
    + rewrite Z.mul_0_r. reflexivity.
  - intros a Ha. cbn [tsum]. rewrite (lit_false_s a _ _ Ha). destruct (ts t).
    + rewrite Z.mul_0_r. reflexivity.
    + rewrite Z.mul_1_r. symmetry. apply geb_shift.
Qed.

Lemma memo_ok_nil m : memo_ok m [].
Proof. intros d id H. discriminate. Qed.

(* what getrobdd guarantees, whichever construction, given the step lemma of that construction *)
Definition robdd_post (i : ineq) (m : memory) (root : nat) (m' : memory) : Prop :=
  exists ex, m' = m ++ ex /\ mem_wf m' /\ valid m' root /\
    (forall id a, valid m id -> den m' a id = den m a id) /\
    (forall a, den m' a root = true <-> (tsum a (il i) >= ir i)%Z).

Lemma semb_sorted i a : semb (sort_desc (il i), ir i) a = true <-> (tsum a (il i) >= ir i)%Z.
Proof. unfold semb. cbn [fst snd]. rewrite tsum_sort, Z.geb_leb, Z.leb_le. lia. Qed.

(* (iii) standard construction: from every well-formed store, the store stays well formed,
   only grows, every old id keeps its denotation, and the returned node is true exactly
   under the assignments whose sum reaches the bound *)
Theorem robdd_sem_std : forall i m root m', mem_wf m -> pos_terms (il i) ->
  getrobdd false i m = Some (root, m') -> robdd_post i m root m'.
Proof.
  intros i m root m' W P. unfold getrobdd.
  destruct (construct ifp_std elp_std _ _ m []) as [[[id m1] mo]|] eqn:E; [|discriminate].
  intros H; injection H as H1 H2; subst id m1.
  destruct (construct_sound ifp_std elp_std mu_std step_std _ _ _ _ _ _ _ E W (memo_ok_nil m))
    as (ex & Em & W' & V & _ & D).
  { apply pos_sort. exact P. }
  exists ex. split; [exact Em|]. split; [exact W'|]. split; [exact V|]. split.
  - intros id a Vid. rewrite Em. apply den_old. exact Vid.
  - intro a. rewrite D. apply semb_sorted.
Qed.
Theorem getrobdd_std_total : forall i m, pos_terms (il i) -> exists r, getrobdd false i m = Some r.
Proof.
  intros i m P. unfold getrobdd.
  destruct (construct_total ifp_std elp_std mu_std step_std (S (mu_std (sort_desc (il i), ir i)))
              (sort_desc (il i), ir i) m []) as [[[id m1] mo] E].
  - lia.
  - apply pos_sort. exact P.
  - rewrite E. eexists; reflexivity.
Qed.

Example robdd_std_ex :
  let i := mkI [mkT "x" true 2; mkT "y" false 1; mkT "z" true 1] 2 GE in
  let m0 : memory := [("q"%string, 1, 0); ("x"%string, 2, 1)] in
  mem_wf m0 /\
  getrobdd false i m0 = Some (6, m0 ++ [("z"%string, 1, 0); ("y"%string, 0, 4); ("x"%string, 1, 5)]) /\
  getrobdd false i [] = Some (4, [("z"%string, 1, 0); ("y"%string, 0, 2); ("x"%string, 1, 3)]).
Proof.
  cbn zeta. split; [|split; reflexivity].
  intros j v hi lo E. destruct j as [|[|[|j]]]; cbn in E; try discriminate; inversion E; subst; lia.
Qed.

(* ---------- the coefficient-decomposition construction ---------- *)
Lemma largebit_spec c : (0 < c)%Z -> (0 < largebit c <= c /\ c - largebit c < largebit c)%Z.
Proof.
  intro H. unfold largebit. destruct (Z.ltb_spec c 1); [lia|].
  pose proof (Z.log2_spec c H) as [L U]. rewrite Z.pow_succ_r in U by apply Z.log2_nonneg.
  pose proof (Z.pow_pos_nonneg 2 (Z.log2 c) ltac:(lia) (Z.log2_nonneg c)). lia.
Qed.
Lemma tsum_rev a l : tsum a (rev l) = tsum a l.
Proof. induction l as [|t r IH]; cbn [rev tsum]; [reflexivity|]. rewrite tsum_app. cbn [tsum]. lia. Qed.
Lemma tsum_bubble a t rl : tsum a (bubble rl t) = (tc t * lit a (tv t) (ts t) + tsum a rl)%Z.
Proof. induction rl as [|x r IH]; cbn [bubble tsum]; [lia|]. destruct (tc t >? tc x)%Z; cbn [tsum]; lia. Qed.
Lemma tsum_insert a l t : tsum a (insert l t) = (tsum a l + tc t * lit a (tv t) (ts t))%Z.
Proof.
  unfold insert. destruct (Z.eqb_spec (tc t) 0) as [E|E]; [rewrite E; lia|].
  rewrite tsum_rev, tsum_bubble, tsum_rev. lia.
Qed.
Lemma pos_rev l : pos_terms l -> pos_terms (rev l).
Proof. unfold pos_terms. intro H. apply Forall_rev. exact H. Qed.
Lemma pos_bubble t rl : (0 < tc t)%Z -> pos_terms rl -> pos_terms (bubble rl t).
Proof.
  intros Ht. induction 1 as [|x r Hx Hr IH]; cbn [bubble]; [constructor; [exact Ht|constructor]|].
  destruct (tc t >? tc x)%Z; [constructor; [exact Hx|exact IH]|constructor; [exact Ht|constructor; assumption]].
Qed.
Lemma pos_insert l t : (0 <= tc t)%Z -> pos_terms l -> pos_terms (insert l t).
Proof.
  intros Ht P. unfold insert. destruct (Z.eqb_spec (tc t) 0); [exact P|].
  apply pos_rev. apply pos_bubble; [lia|apply pos_rev; exact P].
Qed.
Lemma mu_app l r : mu_terms (l ++ r) = mu_terms l + mu_terms r.
Proof. induction l as [|t l IH]; cbn [app mu_terms]; [reflexivity|]. rewrite IH. lia. Qed.
Lemma mu_rev l : mu_terms (rev l) = mu_terms l.
Proof. induction l as [|t r IH]; cbn [rev mu_terms]; [reflexivity|]. rewrite mu_app. cbn [mu_terms]. lia. Qed.
Lemma mu_bubble t rl : mu_terms (bubble rl t) = bitsize (tc t) + mu_terms rl.
Proof. induction rl as [|x r IH]; cbn [bubble mu_terms]; [lia|]. destruct (tc t >? tc x)%Z; cbn [mu_terms]; lia. Qed.
Lemma mu_insert l t : mu_terms (insert l t) = (if (tc t =? 0)%Z then 0 else bitsize (tc t)) + mu_terms l.
Proof.
  unfold insert. destruct (tc t =? 0)%Z; [reflexivity|]. rewrite mu_rev, mu_bubble, mu_rev. reflexivity.
Qed.
Lemma bitsize_lt c c' : (0 < c)%Z -> (0 < c' < largebit c)%Z -> bitsize c' < bitsize c.
Proof.
  intros Hc [H0 H1]. unfold bitsize. unfold largebit in H1. destruct (Z.ltb_spec c 1); [lia|].
  apply (Z.log2_lt_pow2 c' (Z.log2 c) H0) in H1.
  pose proof (Z.log2_nonneg c'). lia.
Qed.

Lemma step_dec : forall d, Pd d -> bccond d = false ->
  exists t r, fst d = t :: r /\ Pd (ifp_dec d) /\ Pd (elp_dec d) /\
    (forall a, a (tv t) = true -> semb (ifp_dec d) a = semb d a) /\
    (forall a, a (tv t) = false -> semb (elp_dec d) a = semb d a) /\
    mu_dec (ifp_dec d) < mu_dec d /\ mu_dec (elp_dec d) < mu_dec d.
Proof.
  intros [l rhs] P B. destruct l as [|t r]; [rewrite bccond_nil in B; discriminate|].
  exists t, r. unfold Pd, ifp_dec, elp_dec, mu_dec, semb in *. cbn [fst snd] in *.
  inversion P as [|? ? Ht Pr]; subst.
  destruct (largebit_spec (tc t) Ht) as [[L0 L1] L2].
  set (t' := mkT (tv t) (ts t) (tc t - largebit (tc t))).
  assert (Pi : pos_terms (insert r t')) by (apply pos_insert; [cbn; lia|exact Pr]).
  assert (M : mu_terms (insert r t') < mu_terms (t :: r)).
  { rewrite mu_insert. cbn [mu_terms tc t']. destruct (Z.eqb_spec (tc t - largebit (tc t)) 0).
    - unfold bitsize. lia.
    - pose proof (bitsize_lt (tc t) (tc t - largebit (tc t)) Ht ltac:(lia)). lia. }
  split; [reflexivity|]. split; [exact Pi|]. split; [exact Pi|].
  split; [|split; [|split; exact M]].
  - intros a Ha. rewrite tsum_insert. cbn [tsum tc tv ts t']. rewrite (lit_true_s a _ _ Ha).
    rewrite !Z.geb_leb. destruct (ts t).
    + destruct (Z.leb_spec (rhs - largebit (tc t)) (tsum a r + (tc t - largebit (tc t)) * 1));
        destruct (Z.leb_spec rhs (tc t * 1 + tsum a r)); try reflexivity; lia.
    + destruct (Z.leb_spec rhs (tsum a r + (tc t - largebit (tc t)) * 0));
        destruct (Z.leb_spec rhs (tc t * 0 + tsum a r)); try reflexivity; lia.
  - intros a Ha. rewrite tsum_insert. cbn [tsum tc tv ts t']. rewrite (lit_false_s a _ _ Ha).
    rewrite !Z.geb_leb. destruct (ts t).
    + destruct (Z.leb_spec rhs (tsum a r + (tc t - largebit (tc t)) * 0));
        destruct (Z.leb_spec rhs (tc t * 0 + tsum a r)); try reflexivity; lia.
    + destruct (Z.leb_spec (rhs - largebit (tc t)) (tsum a r + (tc t - largebit (tc t)) * 1));
        destruct (Z.leb_spec rhs (tc t * 1 + tsum a r)); try reflexivity; lia.
Qed.

(* (vii) the same guarantee for the coefficient-decomposition construction *)
Theorem robdd_sem_dec : forall i m root m', mem_wf m -> pos_terms (il i) ->
  getrobdd true i m = Some (root, m') -> robdd_post i m root m'.
Proof.
  intros i m root m' W P. unfold getrobdd.
  destruct (construct ifp_dec elp_dec _ _ m []) as [[[id m1] mo]|] eqn:E; [|discriminate].
  intros H; injection H as H1 H2; subst id m1.
  destruct (construct_sound ifp_dec elp_dec mu_dec step_dec _ _ _ _ _ _ _ E W (memo_ok_nil m))
    as (ex & Em & W' & V & _ & D).
  { apply pos_sort. exact P. }
  exists ex. split; [exact Em|]. split; [exact W'|]. split; [exact V|]. split.
  - intros id a Vid. rewrite Em. apply den_old. exact Vid.
  - intro a. rewrite D. apply semb_sorted.
Qed.
Theorem getrobdd_dec_total : forall i m, pos_terms (il i) -> exists r, getrobdd true i m = Some r.
Proof.
  intros i m P. unfold getrobdd.
  destruct (construct_total ifp_dec elp_dec mu_dec step_dec (S (mu_dec (sort_desc (il i), ir i)))
              (sort_desc (il i), ir i) m []) as [[[id m1] mo] E].
  - lia.
  - apply pos_sort. exact P.
  - rewrite E. eexists; reflexivity.
Qed.

Theorem robdd_sem : forall dec i m root m', mem_wf m -> pos_terms (il i) ->
  getrobdd dec i m = Some (root, m') -> robdd_post i m root m'.
Proof. intros [|]; [apply robdd_sem_dec|apply robdd_sem_std]. Qed.
Theorem getrobdd_total : forall dec i m, pos_terms (il i) -> exists r, getrobdd dec i m = Some r.
Proof. intros [|]; [apply getrobdd_dec_total|apply getrobdd_std_total]. Qed.

Example robdd_dec_ex :
  getrobdd true (mkI [mkT "x" true 5; mkT "y" true 3] 6 GE) [] =
    Some (5, [("y"%string, 1, 0); ("x"%string, 2, 0); ("y"%string, 1, 3); ("x"%string, 4, 0)]).
Proof. reflexivity. Qed.
