(* C07 facts, part 2: the clause shortcut is exact; the diagram store keeps old
   denotations; constructrobdd (generic in the two propagation functions)
   returns a node that denotes "sum >= bound", from every well-formed store. *)
From Coq Require Import ZArith List Bool String Lia.
From FrameModel Require Import PB.Expr PB.ExprFacts PB.Cnf PB.Robdd.
Import ListNotations.
Open Scope Z_scope.

(* ---------- sums ---------- *)
Lemma tsum_app a l r : tsum a (l ++ r) = tsum a l + tsum a r.
Proof. induction l as [|t l IH]; cbn [app tsum]; lia. Qed.
Lemma tsum_nonneg a l : pos_terms l -> 0 <= tsum a l.
Proof.
  induction 1 as [|t l Ht _ IH]; cbn [tsum]; [lia|].
  destruct (lit_01 a (tv t) (ts t)) as [E|E]; rewrite E; lia.
Qed.
Lemma tsum_le_maxsum a l : pos_terms l -> tsum a l <= maxsum l.
Proof.
  induction 1 as [|t l Ht _ IH]; cbn [tsum maxsum]; [lia|].
  destruct (lit_01 a (tv t) (ts t)) as [E|E]; rewrite E; lia.
Qed.
Lemma maxsum_nonneg l : pos_terms l -> 0 <= maxsum l.
Proof. induction 1 as [|t l Ht _ IH]; cbn [maxsum]; lia. Qed.

Lemma tsum_ins_desc a t l : tsum a (ins_desc t l) = tc t * lit a (tv t) (ts t) + tsum a l.
Proof.
  induction l as [|x r IH]; cbn [ins_desc tsum]; [lia|].
  destruct (tc x >? tc t); cbn [tsum]; lia.
Qed.
Lemma tsum_sort a l : tsum a (sort_desc l) = tsum a l.
Proof. induction l as [|t r IH]; cbn [sort_desc tsum]; [reflexivity|]. rewrite tsum_ins_desc. lia. Qed.
Lemma pos_ins_desc t l : 0 < tc t -> pos_terms l -> pos_terms (ins_desc t l).
Proof.
  intros Ht. induction 1 as [|x r Hx Hr IH]; cbn [ins_desc].
  - constructor; [exact Ht|constructor].
  - destruct (tc x >? tc t); [constructor; [exact Hx|exact IH]|constructor; [exact Ht|constructor; assumption]].
Qed.
Lemma pos_sort l : pos_terms l -> pos_terms (sort_desc l).
Proof. induction 1 as [|t r Ht _ IH]; cbn [sort_desc]; [constructor|]. apply pos_ins_desc; assumption. Qed.

(* ---------- isclause ---------- *)
Lemma take_strong_spec o rhs l b w :
  take_strong o rhs l = (b, w) -> l = b ++ w /\ Forall (fun t => strong o rhs t = true) b.
Proof.
  revert b w. induction l as [|t r IH]; intros b w; cbn [take_strong].
  - intros E; inversion E; subst. split; [reflexivity|constructor].
  - destruct (strong o rhs t) eqn:S.
    + destruct (take_strong o rhs r) as [b' w'] eqn:T. intros E; inversion E; subst.
      destruct (IH _ _ eq_refl) as [E1 F]. split; [cbn; f_equal; exact E1|constructor; assumption].
    + intros E; inversion E; subst. split; [reflexivity|constructor].
Qed.
Lemma acc_while_le rhs l : forall s, acc_while rhs s l <= rhs -> acc_while rhs s l = s + maxsum l.
Proof.
  induction l as [|t r IH]; intros s; cbn [acc_while maxsum]; [lia|].
  destruct (Z.leb_spec s rhs); [|lia]. intros H1. rewrite IH by exact H1. lia.
Qed.

Lemma lit_uval a t : lit_val (uval a) (tlit t) = (lit a (tv t) (ts t) =? 1).
Proof. unfold lit_val, tlit, uval, lit. cbn. destruct (Bool.eqb (a (tv t)) (ts t)); reflexivity. Qed.
Lemma clause_terms a l :
  clause_val (uval a) (rev (map tlit l)) = true <-> exists t, In t l /\ lit a (tv t) (ts t) = 1.
Proof.
  unfold clause_val. rewrite existsb_exists. split.
  - intros [x [Hin Hv]]. apply in_rev in Hin. apply in_map_iff in Hin. destruct Hin as [t [E Hin]]. subst x.
    exists t. split; [exact Hin|]. rewrite lit_uval in Hv. lia.
  - intros [t [Hin Hv]]. exists (tlit t). split.
    + apply in_rev. rewrite rev_involutive. apply in_map. exact Hin.
    + rewrite lit_uval. lia.
Qed.
Lemma tsum_all_false a l : (forall t, In t l -> lit a (tv t) (ts t) <> 1) -> tsum a l = 0.
Proof.
  induction l as [|t r IH]; intro H; cbn [tsum]; [reflexivity|].
  rewrite IH by (intros x Hx; apply H; right; exact Hx).
  destruct (lit_01 a (tv t) (ts t)) as [E|E]; [rewrite E; lia|]. exfalso. apply (H t); [left; reflexivity|exact E].
Qed.
Lemma tsum_ge_member a l t : pos_terms l -> In t l -> lit a (tv t) (ts t) = 1 -> tc t <= tsum a l.
Proof.
  induction 1 as [|x r Hx Hr IH]; intros Hin Hv; [destruct Hin|]. cbn [tsum].
  destruct Hin as [E|Hin].
  - subst x. rewrite Hv. pose proof (tsum_nonneg a r Hr). lia.
  - specialize (IH Hin Hv). destruct (lit_01 a (tv x) (ts x)) as [E|E]; rewrite E; lia.
Qed.

(* (ii) when the shortcut fires, the emitted clause - or nothing, for a tautology - is
   equivalent to the inequality under every assignment *)
Theorem isclause_exact : forall i a, pos_terms (il i) ->
  match isclause i with
  | Tautology => holds a i
  | IsClause c => clause_val (uval a) c = true <-> holds a i
  | NotClause => True
  end.
Proof.
  intros [l rhs o] a Hp. unfold isclause, isclause_gen, holds. cbn [il ir iop] in *.
  destruct (negb (is_ge o || is_gt o)) eqn:Eop; [exact I|].
  pose proof (tsum_nonneg a l Hp) as Hn.
  unfold taut_fixed. destruct ((rhs <? 0) || ((rhs =? 0) && is_ge o)) eqn:Et.
  { destruct o; cbn in Eop; try discriminate; cbn [cmp_holds]; cbn in Et.
    - destruct (Z.ltb_spec rhs 0); destruct (Z.eqb_spec rhs 0); cbn in Et; try discriminate; lia.
    - destruct (Z.ltb_spec rhs 0); cbn in Et; [lia|]. rewrite andb_false_r in Et. discriminate. }
  destruct (take_strong o rhs (sort_desc l)) as [big weak] eqn:T.
  destruct (take_strong_spec _ _ _ _ _ T) as [Esplit Hbig].
  set (s := acc_while rhs 0 weak).
  destruct ((s >? rhs) || ((s >=? rhs) && is_ge o)) eqn:Es; [exact I|].
  pose proof (pos_sort l Hp) as Hps. rewrite Esplit in Hps.
  assert (Hpb : pos_terms big) by (apply Forall_app in Hps; tauto).
  assert (Hpw : pos_terms weak) by (apply Forall_app in Hps; tauto).
  assert (Esum : tsum a l = tsum a big + tsum a weak) by (rewrite <- (tsum_sort a l), Esplit, tsum_app; reflexivity).
  apply orb_false_iff in Es. destruct Es as [Es1 Es2].
  assert (Hs : s <= rhs) by (destruct (Z.gtb_spec s rhs); [discriminate|lia]).
  assert (Hsw : s = maxsum weak) by (unfold s in *; rewrite acc_while_le by exact Hs; lia).
  pose proof (tsum_le_maxsum a weak Hpw) as Hw. pose proof (tsum_nonneg a weak Hpw) as Hw0.
  rewrite clause_terms. split.
  - intros [t [Hin Hv]]. pose proof (tsum_ge_member a big t Hpb Hin Hv) as Hge.
    rewrite Forall_forall in Hbig. specialize (Hbig t Hin). unfold strong in Hbig.
    destruct o; cbn in Eop; try discriminate; cbn [cmp_holds is_ge] in *.
    + rewrite andb_true_r in Hbig. apply orb_true_iff in Hbig.
      destruct Hbig as [H|H]; [destruct (Z.gtb_spec (tc t) rhs); [lia|discriminate]|].
      rewrite Z.geb_leb in H. apply Z.leb_le in H. lia.
    + rewrite andb_false_r, orb_false_r in Hbig. destruct (Z.gtb_spec (tc t) rhs); [lia|discriminate].
  - intros Hh.
    destruct (existsb (fun t => lit a (tv t) (ts t) =? 1) big) eqn:Ex.
    + apply existsb_exists in Ex. destruct Ex as [t [Hin Hv]]. exists t. split; [exact Hin|lia].
    + exfalso. assert (Hz : tsum a big = 0).
      { apply tsum_all_false. intros t Hin Hv.
        assert (existsb (fun t => lit a (tv t) (ts t) =? 1) big = true)
          by (apply existsb_exists; exists t; split; [exact Hin|lia]). congruence. }
      destruct o; cbn in Eop; try discriminate; cbn [cmp_holds is_ge] in *.
      * rewrite andb_true_r in Es2. rewrite Z.geb_leb in Es2. apply Z.leb_gt in Es2. lia.
      * lia.
Qed.

Example isclause_ex :
  isclause (mkI [mkT "x" true 1; mkT "y" false 1] 0 GT) = IsClause [(User "y", false); (User "x", true)] /\
  isclause (mkI [mkT "x" true 3; mkT "y" false 1] 3 GE) = IsClause [(User "x", true)] /\
  isclause (mkI [mkT "x" true 2; mkT "y" true 1] 0 GE) = Tautology /\
  isclause (mkI [mkT "x" true 2; mkT "y" true 1; mkT "z" true 1] 2 GE) = NotClause.
Proof. repeat split. Qed.

(* the unrepaired tautology test (rhs <= 0 for both operators) drops x + y > 0 *)
Theorem gt0_refuted : exists i a, Forall (fun t => 0 < tc t) (il i) /\ isclause_orig i = Tautology /\ ~ holds a i.
Proof.
  exists (mkI [mkT "x" true 1; mkT "y" true 1] 0 GT), (fun _ => false).
  split; [repeat constructor|]. split; [reflexivity|]. unfold holds; cbn. lia.
Qed.
