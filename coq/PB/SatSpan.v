(* C07 facts, part 5: the SIZE of the process-wide store and managers that SPAN other managers'
   encodings.

   (i)   post_span: a manager posts ps1; then the store grows by ANY well-formed extension (the
         diagrams other managers built in the meantime - C07_robdd_sem shows that is what every
         encoding does to the store); then the same manager posts ps2.  A user assignment extends
         to a model of its clauses exactly when it satisfies every accepted constraint of ps1 and
         of ps2.  (The nodes the manager has codified keep their ids and their meaning: cod_inv_grow.)
   (ii)  post_store_independent: which posts are accepted and which user assignments extend does
         not depend on the store the posts started from (this is what the harness uses when the
         implementation's store - 10^3 .. 2^21 nodes - is too big to be handed to vm_compute: the
         model is run from the empty store and the semantic part of the comparison decides).
   (iii) wf_store_any_size / post_exact_any_size: the hypothesis "well-formed store" of the C07
         theorems is satisfiable at every size; no statement carries a bound on the store. *)
From Coq Require Import ZArith List Bool String Lia.
From FrameModel Require Import PB.Expr PB.Cnf PB.Amo PB.AmoFacts PB.Robdd PB.RobddFacts PB.Codify PB.CodifyFacts
  PB.Sat PB.SatFacts.
Import ListNotations.
Local Open Scope nat_scope.

Lemma inv_grow (m ex : memory) s : Inv m s -> mem_wf (m ++ ex) -> Inv (m ++ ex) s.
Proof.
  intros [W C B] W'. split; [exact W'|apply cod_inv_grow; exact C|].
  apply (lits_bound_mono m ex (auxcount s) (auxcount s) (clauses s) (le_n _)). exact B.
Qed.

Theorem post_span : forall (m0 : memory) ps1 ps2, mem_wf m0 -> Forall post_ok ps1 -> Forall post_ok ps2 ->
  exists m1 s1 sts1, run_posts m0 empty_mgr ps1 = Some (m1, s1, sts1) /\ List.length sts1 = List.length ps1 /\
    forall ex : memory, mem_wf (m1 ++ ex) ->
      exists m2 s2 sts2, run_posts (m1 ++ ex) s1 ps2 = Some (m2, s2, sts2) /\
        List.length sts2 = List.length ps2 /\
        forall a, ext a (clauses s2) <-> accepted_hold a ps1 sts1 /\ accepted_hold a ps2 sts2.
Proof.
  intros m0 ps1 ps2 W Ok1 Ok2.
  destruct (run_posts_spec ps1 m0 empty_mgr (inv_empty m0 W) Ok1) as (m1 & s1 & sts1 & E1 & I1 & Len1 & Snd1 & Cmp1).
  exists m1, s1, sts1. split; [exact E1|]. split; [exact Len1|]. intros ex W'.
  destruct (run_posts_spec ps2 (m1 ++ ex) s1 (inv_grow m1 ex s1 I1 W') Ok2)
    as (m2 & s2 & sts2 & E2 & I2 & Len2 & Snd2 & Cmp2).
  exists m2, s2, sts2. split; [exact E2|]. split; [exact Len2|]. intro a. split.
  - intros [e [X HS]]. destruct (Snd2 e a X HS) as [HS1 H2]. split; [|exact H2].
    exact (proj2 (Snd1 e a X HS1)).
  - intros [H1 H2]. destruct (Cmp1 a (fun _ => false) H1 (sat_nil _)) as [aux1 HS1].
    assert (HS1' : sat (canon (m1 ++ ex) a aux1) (clauses s1)).
    { unfold sat. rewrite (canon_agree m1 ex (auxcount s1) a aux1 aux1 (clauses s1) (inv_lits _ _ I1));
        [exact HS1|reflexivity]. }
    destruct (Cmp2 a aux1 H2 HS1') as [aux2 HS2].
    exists (canon m2 a aux2). split; [apply canon_extends|exact HS2].
Qed.

(* ---------- accepted / refused does not depend on the store nor on the manager ---------- *)
Definition post_status (p : post) : status :=
  match p with
  | PAmoH k _ => if (k <? 3)%Z then Refused else Accepted
  | PIneq i _ => match isclause i with
                 | NotClause => if is_ge (iop i) then Accepted else Refused
                 | _ => Accepted
                 end
  | _ => Accepted
  end.

Lemma run_post_status (m : memory) s p m' s' st : run_post m s p = Some (m', s', st) -> st = post_status p.
Proof.
  destruct p as [v|c|l x|l|k l|i d]; cbn [run_post post_status]; try (intro H; inversion H; reflexivity).
  - destruct (k <? 3)%Z; [intro H; inversion H; reflexivity|].
    destruct (heule _ _ _ _) as [[cs aux']|]; [intro H; inversion H; reflexivity|discriminate].
  - unfold pseudobool. destruct (isclause i); try (intro H; inversion H; reflexivity).
    destruct (is_ge (iop i)); [|intro H; inversion H; reflexivity].
    destruct (getrobdd d i m) as [[root mm]|]; [|discriminate].
    destruct (codify _ _ _ _); [intro H; inversion H; reflexivity|discriminate].
Qed.

Lemma run_posts_status : forall ps (m : memory) s m' s' sts,
  run_posts m s ps = Some (m', s', sts) -> sts = map post_status ps.
Proof.
  induction ps as [|p r IH]; intros m s m' s' sts; cbn [run_posts map].
  - intro H. inversion H. reflexivity.
  - destruct (run_post m s p) as [[[m1 s1] st]|] eqn:E1; [|discriminate].
    destruct (run_posts m1 s1 r) as [[[m2 s2] sts2]|] eqn:E2; [|discriminate].
    intro H. inversion H. subst. rewrite (run_post_status _ _ _ _ _ _ E1), (IH _ _ _ _ _ E2). reflexivity.
Qed.

Theorem post_store_independent : forall (m0 m0' : memory) ps, mem_wf m0 -> mem_wf m0' -> Forall post_ok ps ->
  exists m s m' s' sts,
    run_posts m0 empty_mgr ps = Some (m, s, sts) /\ run_posts m0' empty_mgr ps = Some (m', s', sts) /\
    sts = map post_status ps /\
    forall a, ext a (clauses s) <-> ext a (clauses s').
Proof.
  intros m0 m0' ps W W' Ok.
  destruct (post_exact m0 ps W Ok) as (m & s & sts & E & _ & Hx).
  destruct (post_exact m0' ps W' Ok) as (m' & s' & sts' & E' & _ & Hx').
  pose proof (run_posts_status _ _ _ _ _ _ E) as S1. pose proof (run_posts_status _ _ _ _ _ _ E') as S2.
  exists m, s, m', s', sts. split; [exact E|]. split; [rewrite S1, <- S2; exact E'|]. split; [exact S1|].
  intro a. rewrite Hx, Hx'. rewrite S1, S2. tauto.
Qed.

(* ---------- (ii) and (i) together: the store may differ at the start AND grow differently in the middle ----------
   One manager posts ps1, the store grows (by other managers' diagrams: any well-formed extension, of any size - in
   particular across any size threshold), the same manager posts ps2.  Run twice, from two arbitrary well-formed
   stores and with two arbitrary growths (one of them may be empty: the posts executed alone, first thing in a
   process): the same posts are accepted and the same user assignments extend. *)
Theorem post_span_store_independent : forall (m0 m0' : memory) ps1 ps2,
  mem_wf m0 -> mem_wf m0' -> Forall post_ok ps1 -> Forall post_ok ps2 ->
  exists m1 s1 m1' s1' sts1,
    run_posts m0 empty_mgr ps1 = Some (m1, s1, sts1) /\ run_posts m0' empty_mgr ps1 = Some (m1', s1', sts1) /\
    forall ex ex' : memory, mem_wf (m1 ++ ex) -> mem_wf (m1' ++ ex') ->
      exists m2 s2 m2' s2' sts2,
        run_posts (m1 ++ ex) s1 ps2 = Some (m2, s2, sts2) /\ run_posts (m1' ++ ex') s1' ps2 = Some (m2', s2', sts2) /\
        (forall a, ext a (clauses s2) <-> ext a (clauses s2')) /\
        (forall a, ext a (clauses s2) <-> accepted_hold a ps1 sts1 /\ accepted_hold a ps2 sts2).
Proof.
  intros m0 m0' ps1 ps2 W W' Ok1 Ok2.
  destruct (post_span m0 ps1 ps2 W Ok1 Ok2) as (m1 & s1 & sts1 & E1 & _ & H1).
  destruct (post_span m0' ps1 ps2 W' Ok1 Ok2) as (m1' & s1' & sts1' & E1' & _ & H1').
  pose proof (run_posts_status _ _ _ _ _ _ E1) as S1. pose proof (run_posts_status _ _ _ _ _ _ E1') as S1'.
  exists m1, s1, m1', s1', sts1. split; [exact E1|]. split; [rewrite S1, <- S1'; exact E1'|].
  intros ex ex' Wx Wx'.
  destruct (H1 ex Wx) as (m2 & s2 & sts2 & E2 & _ & X2).
  destruct (H1' ex' Wx') as (m2' & s2' & sts2' & E2' & _ & X2').
  pose proof (run_posts_status _ _ _ _ _ _ E2) as S2. pose proof (run_posts_status _ _ _ _ _ _ E2') as S2'.
  exists m2, s2, m2', s2', sts2. split; [exact E2|]. split; [rewrite S2, <- S2'; exact E2'|].
  split; [|exact X2].
  intro a. rewrite X2, X2'. rewrite S1, S1', S2, S2'. tauto.
Qed.

(* ---------- stores of every size ---------- *)
Lemma wf_store_any_size : forall n, mem_wf (repeat (("x"%string, 1, 0) : node) n) /\
                                    List.length (repeat (("x"%string, 1, 0) : node) n) = n.
Proof.
  intro n. split; [|apply repeat_length].
  intros j v hi lo Hn. apply nth_error_In in Hn. apply repeat_spec in Hn. inversion Hn. lia.
Qed.

Theorem post_exact_any_size : forall n ps, Forall post_ok ps ->
  exists m0 : memory, List.length m0 = n /\ mem_wf m0 /\
    exists m s sts, run_posts m0 empty_mgr ps = Some (m, s, sts) /\
      forall a, ext a (clauses s) <-> accepted_hold a ps sts.
Proof.
  intros n ps Ok. destruct (wf_store_any_size n) as [W L].
  exists (repeat (("x"%string, 1, 0) : node) n). split; [exact L|]. split; [exact W|].
  destruct (post_exact _ ps W Ok) as (m & s & sts & E & _ & Hx). exists m, s, sts. split; [exact E|exact Hx].
Qed.

(* from the empty store and from a store of any size *)
Theorem memory_any_size : forall n ps, Forall post_ok ps ->
  exists m0 : memory, List.length m0 = n /\ mem_wf m0 /\
    exists m s m' s' sts,
      run_posts [] empty_mgr ps = Some (m, s, sts) /\ run_posts m0 empty_mgr ps = Some (m', s', sts) /\
      forall a, ext a (clauses s) <-> ext a (clauses s').
Proof.
  intros n ps Ok. destruct (wf_store_any_size n) as [W L].
  exists (repeat (("x"%string, 1, 0) : node) n). split; [exact L|]. split; [exact W|].
  assert (W0 : mem_wf []) by (intros j v hi lo H; destruct j; discriminate).
  destruct (post_store_independent [] _ ps W0 W Ok) as (m & s & m' & s' & sts & E & E' & _ & Hx).
  exists m, s, m', s', sts. split; [exact E|]. split; [exact E'|exact Hx].
Qed.

(* the hypotheses of post_span are satisfiable: a manager posts x + y + z >= 2, another manager's
   diagram (three nodes over other variables) enters the store, the first manager posts u + v + w >= 2
   (refused as "=", accepted as ">=") *)
Example post_span_ex :
  let ge2 a b c := mkI [mkT a true 1; mkT b true 1; mkT c true 1] 2 GE in
  let ps1 := [PNewVar "x"; PIneq (ge2 "x" "y" "z") false]%string in
  let ps2 := [PIneq (mkI [mkT "u" true 1; mkT "v" true 1] 1 EQ) false; PIneq (ge2 "u" "v" "w") false]%string in
  Forall post_ok ps1 /\ Forall post_ok ps2 /\
  match run_posts [] empty_mgr ps1 with
  | Some (m1, s1, sts1) =>
      let ex := [("q", 1, 0); ("p", 2 + List.length m1, 0); ("r", 1, 3 + List.length m1)]%string in
      sts1 = [Accepted; Accepted] /\
      match run_posts (m1 ++ ex) s1 ps2 with
      | Some (m2, s2, sts2) => sts2 = [Refused; Accepted] /\ List.length m2 = List.length m1 + 3 + List.length m1
      | None => False
      end
  | None => False
  end.
Proof.
  cbn zeta. split; [repeat constructor|]. split; [repeat constructor|]. vm_compute. repeat split.
Qed.
