(* C07 model, part 1: structured variables, clauses, CNF satisfaction, [ext].
   The implementation's variable names are strings; the harness maps
   "aux_<n>" -> Aux n, "robdd_<id>" -> Node id, anything else -> User name. *)
From Coq Require Import List Bool String Arith Lia.
Import ListNotations.

Inductive var := User (s : string) | Aux (n : nat) | Node (n : nat).
Definition var_eqb (x y : var) : bool :=
  match x, y with
  | User s, User t => String.eqb s t
  | Aux n, Aux m => Nat.eqb n m
  | Node n, Node m => Nat.eqb n m
  | _, _ => false
  end.
Definition literal := (var * bool)%type.          (* (variable, sign); sign true = positive *)
Definition neg (l : literal) : literal := (fst l, negb (snd l)).
Definition clause := list literal.
Definition cnf := list clause.
Definition lit_eqb (a b : literal) : bool := var_eqb (fst a) (fst b) && Bool.eqb (snd a) (snd b).

Definition valuation := var -> bool.
Definition lit_val (e : valuation) (l : literal) : bool := Bool.eqb (e (fst l)) (snd l).
Definition clause_val (e : valuation) (c : clause) : bool := existsb (lit_val e) c.
Definition cnf_val (e : valuation) (f : cnf) : bool := forallb (clause_val e) f.
Definition sat (e : valuation) (f : cnf) : Prop := cnf_val e f = true.

(* a user assignment gives a value to every user name *)
Definition uasg := string -> bool.
Definition extends (e : valuation) (a : uasg) : Prop := forall s, e (User s) = a s.
(* some extension of [a] to the auxiliary and diagram-node variables satisfies [f] *)
Definition ext (a : uasg) (f : cnf) : Prop := exists e, extends e a /\ sat e f.

Definition ulit (s : string) (b : bool) : literal := (User s, b).
Definition user_var (v : var) : bool := match v with User _ => true | _ => false end.
Definition user_clause (c : clause) : bool := forallb (fun l => user_var (fst l)) c.
(* the valuation that knows only the user's variables *)
Definition uval (a : uasg) : valuation := fun v => match v with User s => a s | _ => false end.
