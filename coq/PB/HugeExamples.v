(* Coefficients beyond binary64 (C07, stream "huge" of harness/props/c07.py).  The model computes in Z: largebit is exact
   for every positive coefficient (RobddFacts.largebit_spec, used by C07_robdd_sem for the decomposition construction);
   the instances below are the coefficients just below a power of two, where a float logarithm rounds up. *)
From Coq Require Import ZArith List Bool String Lia.
From FrameModel Require Import PB.Expr PB.Robdd PB.RobddFacts.
Import ListNotations.
Open Scope Z_scope.

Example largebit_below_2_49 : largebit (2 ^ 49 - 1) = 2 ^ 48.
Proof. vm_compute. reflexivity. Qed.

Example largebit_below_2_53 : largebit (2 ^ 53 - 1) = 2 ^ 52.
Proof. vm_compute. reflexivity. Qed.

Example largebit_below_2_64 : largebit (2 ^ 64 - 1) = 2 ^ 63.
Proof. vm_compute. reflexivity. Qed.

Example largebit_below_2_100 : largebit (2 ^ 100 - 1) = 2 ^ 99.
Proof. vm_compute. reflexivity. Qed.

Example largebit_at_2_64 : largebit (2 ^ 64) = 2 ^ 64 /\ largebit (2 ^ 64 + 1) = 2 ^ 64.
Proof. vm_compute. split; reflexivity. Qed.

(* the residual coefficient of the decomposition never goes negative, whatever the size *)
Lemma largebit_residual_nonneg c : 0 < c -> 0 <= c - largebit c.
Proof. intro H. destruct (largebit_spec c H) as [[_ H1] _]. lia. Qed.
