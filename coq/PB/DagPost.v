(* C07 over histories with shared objects: the constraints a user posts are built from
   Literal / Term / Expr / Ineq objects that are bound to names and reused (PB/Dag.v), and the
   posts are interleaved with further derivations from the same objects.  A history step is a
   binding, a registration (x = sm.newvar(..), binding the returned Literal) or a post whose
   literals / inequality are taken from the bindings.  [run_hist] threads the diagram store, the
   manager and the (immutable) values of all bindings; [compile] resolves the references by
   value, which yields an ordinary posting sequence of PB/Sat.v - the implementation, whose
   objects are mutable and may share parts, has to behave like that. *)
From Coq Require Import ZArith List Bool String Lia.
From FrameModel Require Import PB.Expr PB.Cnf PB.Amo PB.Robdd PB.Codify PB.Sat PB.Dag.
Import ListNotations.
Local Open Scope nat_scope.

(* a literal handed to the manager: built on the spot, or an object bound earlier *)
Inductive lref := LNew (v : string) (s : bool) | LRef (i : nat).

Inductive hop :=
| HBind (b : bind)                          (* x_n = <operator of the algebra> *)
| HNewVar (v : string)                      (* x_n = sm.newvar(v): registers v, binds Literal(v) *)
| HClause (c : list lref)                   (* sm.add_clause([...]) *)
| HImply (l : list lref) (x : lref)
| HAmoQ (l : list lref)
| HAmoH (k : Z) (l : list lref)
| HIneq (i : nat) (decomp : bool).          (* sm.pseudoboolencoding(x_i, decomp) *)

Definition rlit (env : list pyval) (r : lref) : option ul :=
  match r with
  | LNew v s => Some (v, s)
  | LRef i => match get env i with Some (VLit v s) => Some (v, s) | _ => None end
  end.
Fixpoint rlits (env : list pyval) (l : list lref) : option (list ul) :=
  match l with
  | [] => Some []
  | r :: t => match rlit env r, rlits env t with Some x, Some xs => Some (x :: xs) | _, _ => None end
  end.

(* the post a step performs (if any) and the value it binds; [None]: ill-typed reference *)
Definition hstep (env : list pyval) (o : hop) : option (option post * pyval) :=
  match o with
  | HBind b => match step env b with Some v => Some (None, v) | None => None end
  | HNewVar v => Some (Some (PNewVar v), VLit v true)
  | HClause c => match rlits env c with Some c' => Some (Some (PClause c'), VNone) | None => None end
  | HImply l x => match rlits env l, rlit env x with
                  | Some l', Some x' => Some (Some (PImply l' x'), VNone) | _, _ => None end
  | HAmoQ l => match rlits env l with Some l' => Some (Some (PAmoQ l'), VNone) | None => None end
  | HAmoH k l => match rlits env l with Some l' => Some (Some (PAmoH k l'), VNone) | None => None end
  | HIneq i d => match get env i with Some (VIneq q) => Some (Some (PIneq q d), VNone) | _ => None end
  end.

Fixpoint run_hist (m : memory) (s : mgr) (env : list pyval) (ops : list hop)
  : option (memory * mgr * list pyval * list status) :=
  match ops with
  | [] => Some (m, s, env, [])
  | o :: r =>
      match hstep env o with
      | None => None
      | Some (None, v) => run_hist m s (env ++ [v]) r
      | Some (Some p, v) =>
          match run_post m s p with
          | None => None
          | Some (m1, s1, st) =>
              match run_hist m1 s1 (env ++ [v]) r with
              | None => None
              | Some (m2, s2, env2, sts) => Some (m2, s2, env2, st :: sts)
              end
          end
      end
  end.

(* ---- the same history with every reference replaced by the tree that built the object ---- *)
Definition hunfold (ts : list utree) (o : hop) : option utree :=
  match o with
  | HBind b => unfold1 ts b
  | HNewVar v => Some (ULit v true)
  | _ => Some (UObs (UInt 0))
  end.

(* the posts of a history with, for a posted inequality, the tree it was built from *)
Fixpoint compile (env : list pyval) (ts : list utree) (ops : list hop)
  : option (list (post * utree) * list pyval * list utree) :=
  match ops with
  | [] => Some ([], env, ts)
  | o :: r =>
      match hstep env o, hunfold ts o with
      | Some (op, v), Some t =>
          match compile (env ++ [v]) (ts ++ [t]) r with
          | None => None
          | Some (cps, env', ts') =>
              match op with
              | None => Some (cps, env', ts')
              | Some p =>
                  let tr := match o with
                            | HIneq i _ => match tget ts i with Some u => u | None => UInt 0 end
                            | _ => UInt 0 end in
                  Some ((p, tr) :: cps, env', ts')
              end
          end
      | _, _ => None
      end
  end.

(* what a posted constraint means for a user assignment, read from how the user WROTE it:
   an inequality by direct integer evaluation of the trees of its two sides *)
Definition direct_holds (a : uasg) (pt : post * utree) : Prop :=
  match fst pt with
  | PIneq _ _ => uholds a (snd pt)
  | p => post_holds a p
  end.
Fixpoint accepted_direct (a : uasg) (cps : list (post * utree)) (sts : list status) : Prop :=
  match cps, sts with
  | pt :: r, Accepted :: t => direct_holds a pt /\ accepted_direct a r t
  | _ :: r, Refused :: t => accepted_direct a r t
  | _, _ => True
  end.
