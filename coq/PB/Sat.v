(* C07 model, part 5: the posting interface of SATManager as a state machine
   over (process-wide memory, manager):  add_clause, imply, quadraticencoding,
   heuleencoding, pseudoboolencoding, newvar; solve / value / evalexpr
   (tools/rect/satmanager.py). *)
From Coq Require Import ZArith List Bool String Lia.
From FrameModel Require Import PB.Expr PB.Cnf PB.Amo PB.Robdd PB.Codify.
Import ListNotations.
Local Open Scope nat_scope.

Definition ul := (string * bool)%type.                 (* a literal over a user name *)
Definition ulits (l : list ul) : list literal := map (fun p => ulit (fst p) (snd p)) l.

Inductive post :=
| PNewVar (s : string)                      (* newvar(name) *)
| PClause (c : list ul)                     (* add_clause *)
| PImply (l : list ul) (x : ul)             (* imply(list1, l2) *)
| PAmoQ (l : list ul)                       (* quadraticencoding *)
| PAmoH (k : Z) (l : list ul)               (* heuleencoding(lst, k) *)
| PIneq (i : ineq) (decomp : bool).         (* pseudoboolencoding(ineq, coefficientdecomposition) *)

Inductive status := Accepted | Refused.
Definition status_eqb (a b : status) : bool :=
  match a, b with Accepted, Accepted | Refused, Refused => true | _, _ => false end.

Definition add_clauses (cs : cnf) (s : mgr) : mgr :=
  mkM (clauses s ++ cs) (auxcount s) (codified s) (vtable s).
Definition set_aux (n : nat) (s : mgr) : mgr := mkM (clauses s) n (codified s) (vtable s).
(* newaux registers aux_<n> when it is created *)
Definition register_aux (lo hi : nat) (s : mgr) : mgr :=
  fold_left (fun acc n => newvar (Aux n) acc) (seq (S lo) (hi - lo)) s.

(* [None]: the model got stuck (out of fuel / index error) - shown impossible for
   well-formed memories and inequalities in normal form *)
Definition pseudobool (decomp : bool) (i : ineq) (m : memory) (s : mgr) : option (memory * mgr * status) :=
  match isclause i with
  | Tautology => Some (m, s, Accepted)
  | IsClause c => Some (m, add_clause c s, Accepted)
  | NotClause =>
      if is_ge (iop i) then
        match getrobdd decomp i m with
        | None => None
        | Some (root, m') =>
            match codify (S root) m' root s with
            | None => None
            | Some s' => Some (m', add_clause [(Node root, true)] (newvar (Node root) s'), Accepted)
            end
        end
      else Some (m, s, Refused)                     (* Exception("Not implemented yet.") *)
  end.

Definition run_post (m : memory) (s : mgr) (p : post) : option (memory * mgr * status) :=
  match p with
  | PNewVar v => Some (m, newvar (User v) s, Accepted)
  | PClause c => Some (m, add_clause (ulits c) s, Accepted)
  | PImply l x => Some (m, add_clause (map neg (ulits l) ++ [ulit (fst x) (snd x)]) s, Accepted)
  | PAmoQ l => Some (m, add_clauses (quadratic (ulits l)) s, Accepted)
  | PAmoH k l =>
      if (k <? 3)%Z then Some (m, s, Refused)       (* Exception("k must be at least 3") *)
      else match heule (List.length l) (Z.to_nat k) (auxcount s) (ulits l) with
           | None => None
           | Some (cs, aux') =>
               Some (m, set_aux aux' (register_aux (auxcount s) aux' (add_clauses cs s)), Accepted)
           end
  | PIneq i d => pseudobool d i m s
  end.

Fixpoint run_posts (m : memory) (s : mgr) (ps : list post) : option (memory * mgr * list status) :=
  match ps with
  | [] => Some (m, s, [])
  | p :: r =>
      match run_post m s p with
      | None => None
      | Some (m1, s1, st) =>
          match run_posts m1 s1 r with
          | None => None
          | Some (m2, s2, sts) => Some (m2, s2, st :: sts)
          end
      end
  end.

(* ---- what a posted constraint means for a user assignment ---- *)
Definition post_holds (a : uasg) (p : post) : Prop :=
  match p with
  | PNewVar _ => True
  | PClause c => clause_val (uval a) (ulits c) = true
  | PImply l x => forallb (lit_val (uval a)) (ulits l) = true -> lit_val (uval a) (ulit (fst x) (snd x)) = true
  | PAmoQ l => at_most_one (uval a) (ulits l)
  | PAmoH _ l => at_most_one (uval a) (ulits l)
  | PIneq i _ => holds a i
  end.
(* inequalities reach the manager normalised (C16: positive coefficients) *)
Definition post_ok (p : post) : Prop :=
  match p with PIneq i _ => Forall (fun t => (0 < tc t)%Z) (il i) | _ => True end.

Fixpoint accepted_hold (a : uasg) (ps : list post) (sts : list status) : Prop :=
  match ps, sts with
  | p :: r, Accepted :: t => post_holds a p /\ accepted_hold a r t
  | _ :: r, Refused :: t => accepted_hold a r t
  | _, _ => True
  end.

(* ---- solve / value / evalexpr ---- *)
Definition value (e : valuation) (l : literal) : Z :=
  if snd l then (if e (fst l) then 1 else 0)%Z else (1 - (if e (fst l) then 1 else 0))%Z.
Fixpoint evalterms (e : valuation) (l : list term) (s : Z) : Z :=
  match l with
  | [] => s
  | t :: r => evalterms e r (if (value e (tlit t) =? 1)%Z then (s + tc t)%Z else s)
  end.
Definition evalexpr (e : valuation) (x : expr) : Z := evalterms e (et x) (ec x).
Definition user_part (e : valuation) : uasg := fun s => e (User s).
