(* C16: the expression algebra preserves integer semantics and normal form. *)
From Coq Require Import ZArith List Bool String Lia.
From FrameModel Require Import PB.Expr.
Import ListNotations.
Open Scope Z_scope.

Lemma lit_negb a v s : lit a v (negb s) = 1 - lit a v s.
Proof. unfold lit. destruct (a v), s; reflexivity. Qed.
Lemma lit_01 a v s : lit a v s = 0 \/ lit a v s = 1.
Proof. unfold lit. destruct (Bool.eqb (a v) s); auto. Qed.
Lemma lit_other a v s s' : Bool.eqb s' s = false -> lit a v s' = 1 - lit a v s.
Proof. unfold lit. destruct (a v), s, s'; simpl; intros; try discriminate; reflexivity. Qed.

Definition pos_terms (l : list term) := Forall (fun t => 0 < tc t) l.
Definition sub_names (l' l : list term) (v : string) :=
  forall x, In x (map tv l') -> In x (map tv l) \/ x = v.

Lemma upd_sum a l v s k :
  tsum a (fst (upd l v s k)) + snd (upd l v s k) = tsum a l + k * lit a v s.
Proof.
  induction l as [|t r IH]; cbn [upd].
  - destruct (k <? 0) eqn:E; cbn [fst snd tsum tc tv ts]; rewrite ?lit_negb; lia.
  - destruct (String.eqb_spec (tv t) v) as [Ev|Ev].
    + subst v. destruct (Bool.eqb (ts t) s) eqn:Es.
      * apply eqb_prop in Es. subst s.
        destruct (tc t + k =? 0) eqn:E0; [|destruct (tc t + k <? 0) eqn:E1];
          cbn [fst snd tsum tc tv ts]; rewrite ?lit_negb; lia.
      * pose proof (lit_other a (tv t) s (ts t) Es) as Lo.
        destruct (tc t - k =? 0) eqn:E0; [|destruct (tc t - k <? 0) eqn:E1];
          cbn [fst snd tsum tc tv ts]; rewrite ?lit_negb; lia.
    + destruct (upd r v s k) as [r' d] eqn:U. cbn [fst snd tsum] in *. lia.
Qed.

Lemma upd_nf l v s k : k <> 0 -> pos_terms l -> NoDup (map tv l) ->
  pos_terms (fst (upd l v s k)) /\ NoDup (map tv (fst (upd l v s k))) /\
  sub_names (fst (upd l v s k)) l v.
Proof.
  intros Hk. induction l as [|t r IH]; intros Hp Hn; cbn [upd].
  - destruct (k <? 0) eqn:E; cbn [fst]; (split; [|split]).
    + constructor; [cbn; lia|constructor].
    + cbn. constructor; [intros []|constructor].
    + intros x [Hx|[]]. right. symmetry. exact Hx.
    + constructor; [cbn; lia|constructor].
    + cbn. constructor; [intros []|constructor].
    + intros x [Hx|[]]. right. symmetry. exact Hx.
  - inversion Hp as [|? ? Ht Hr]; subst. cbn [map] in Hn. inversion Hn as [|? ? Hnin Hnr]; subst.
    destruct (String.eqb_spec (tv t) v) as [Ev|Ev].
    + set (c' := if Bool.eqb (ts t) s then tc t + k else tc t - k).
      destruct (c' =? 0) eqn:E0; [|destruct (c' <? 0) eqn:E1]; cbn [fst].
      * split; [exact Hr|]. split; [exact Hnr|]. intros x Hx. left. right. exact Hx.
      * split; [constructor; [cbn; lia|exact Hr]|]. split.
        { cbn [map tv]. constructor; [rewrite <- Ev; exact Hnin|exact Hnr]. }
        intros x [Hx|Hx]; [right; symmetry; exact Hx|left; right; exact Hx].
      * split; [constructor; [cbn; lia|exact Hr]|]. split.
        { cbn [map tv]. constructor; [rewrite <- Ev; exact Hnin|exact Hnr]. }
        intros x [Hx|Hx]; [right; symmetry; exact Hx|left; right; exact Hx].
    + specialize (IH Hr Hnr). destruct (upd r v s k) as [r' d] eqn:U. cbn [fst] in *.
      destruct IH as (P & N & S). split; [constructor; assumption|]. split.
      * cbn [map]. constructor; [|exact N]. intro Hin. apply S in Hin. destruct Hin as [Hin|Hin]; [contradiction|congruence].
      * intros x [Hx|Hx]; [left; left; exact Hx|]. apply S in Hx. destruct Hx; [left; right; assumption|right; assumption].
Qed.

Lemma add_term_eval a e v s k : eval a (add_term e v s k) = eval a e + k * lit a v s.
Proof.
  unfold add_term. destruct (k =? 0) eqn:E; [lia|].
  pose proof (upd_sum a (et e) v s k) as U. destruct (upd (et e) v s k) as [l d].
  unfold eval; cbn [ec et fst snd] in *. lia.
Qed.
Lemma add_term_NF e v s k : NF e -> NF (add_term e v s k).
Proof.
  intros [P N]. unfold add_term. destruct (k =? 0) eqn:E; [split; assumption|].
  assert (Hk : k <> 0) by lia.
  pose proof (upd_nf (et e) v s k Hk P N) as (P' & N' & _).
  destruct (upd (et e) v s k) as [l d]. split; assumption.
Qed.
Lemma add_int_eval a e k : eval a (add_int e k) = eval a e + k.
Proof. unfold eval, add_int; cbn. lia. Qed.
Lemma add_int_NF e k : NF e -> NF (add_int e k).
Proof. intros H; exact H. Qed.

Lemma fold_add_eval a sg l : forall acc,
  eval a (fold_left (fun acc t => add_term acc (tv t) (ts t) (sg * tc t)) l acc) = eval a acc + sg * tsum a l.
Proof.
  induction l as [|t r IH]; intro acc; cbn [fold_left tsum]; [lia|].
  rewrite IH, add_term_eval. lia.
Qed.
Lemma fold_add_NF sg l : forall acc, NF acc ->
  NF (fold_left (fun acc t => add_term acc (tv t) (ts t) (sg * tc t)) l acc).
Proof.
  induction l as [|t r IH]; intros acc H; cbn [fold_left]; [exact H|].
  apply IH. apply add_term_NF. exact H.
Qed.

Lemma fold_left_ext {A B} (f g : A -> B -> A) : (forall x y, f x y = g x y) ->
  forall l x, fold_left f l x = fold_left g l x.
Proof. intros H l. induction l as [|y l IH]; intro x; cbn; [reflexivity|]. rewrite H. apply IH. Qed.

Lemma add_expr_eval a e f : eval a (add_expr e f) = eval a e + eval a f.
Proof.
  unfold add_expr.
  rewrite (fold_left_ext _ (fun acc t => add_term acc (tv t) (ts t) (1 * tc t))).
  2:{ intros acc t. f_equal; lia. }
  rewrite fold_add_eval, add_int_eval. unfold eval. lia.
Qed.
Lemma add_expr_NF e f : NF e -> NF (add_expr e f).
Proof.
  intro H. unfold add_expr.
  rewrite (fold_left_ext _ (fun acc t => add_term acc (tv t) (ts t) (1 * tc t))).
  2:{ intros acc t. f_equal; lia. }
  apply fold_add_NF. exact H.
Qed.
Lemma sub_expr_eval a e f : eval a (sub_expr e f) = eval a e - eval a f.
Proof.
  unfold sub_expr.
  rewrite (fold_left_ext _ (fun acc t => add_term acc (tv t) (ts t) (-1 * tc t))).
  2:{ intros acc t. f_equal; lia. }
  rewrite fold_add_eval, add_int_eval. unfold eval. lia.
Qed.
Lemma sub_expr_NF e f : NF e -> NF (sub_expr e f).
Proof.
  intro H. unfold sub_expr.
  rewrite (fold_left_ext _ (fun acc t => add_term acc (tv t) (ts t) (-1 * tc t))).
  2:{ intros acc t. f_equal; lia. }
  apply fold_add_NF. exact H.
Qed.

Lemma mul_terms_sum a l k :
  tsum a (fst (mul_terms l k)) + snd (mul_terms l k) = k * tsum a l.
Proof.
  induction l as [|t r IH]; cbn [mul_terms tsum fst snd]; [lia|].
  destruct (mul_terms r k) as [r' d]. cbn [fst snd] in IH.
  replace (k * (tc t * lit a (tv t) (ts t) + tsum a r)) with ((tc t * k) * lit a (tv t) (ts t) + k * tsum a r) by ring.
  generalize dependent (tc t * k). intros p.
  destruct (p =? 0) eqn:E0; [|destruct (p <? 0) eqn:E1];
    cbn [fst snd tsum tc tv ts]; rewrite ?lit_negb; nia.
Qed.
Lemma mul_terms_nf l k : pos_terms l -> NoDup (map tv l) ->
  pos_terms (fst (mul_terms l k)) /\ NoDup (map tv (fst (mul_terms l k))) /\
  (forall x, In x (map tv (fst (mul_terms l k))) -> In x (map tv l)).
Proof.
  induction l as [|t r IH]; intros Hp Hn; cbn [mul_terms].
  - cbn. split; [constructor|]. split; [constructor|]. intros x [].
  - inversion Hp as [|? ? Ht Hr]; subst. cbn [map] in Hn. inversion Hn as [|? ? Hnin Hnr]; subst.
    specialize (IH Hr Hnr). destruct (mul_terms r k) as [r' d]. cbn [fst] in IH. destruct IH as (P & N & S).
    destruct (tc t * k =? 0) eqn:E0; [|destruct (tc t * k <? 0) eqn:E1]; cbn [fst].
    + split; [exact P|]. split; [exact N|]. intros x Hx. right. apply S. exact Hx.
    + split; [constructor; [cbn; lia|exact P]|]. split.
      * cbn [map tv]. constructor; [|exact N]. intro Hin. apply S in Hin. contradiction.
      * intros x [Hx|Hx]; [left; exact Hx|right; apply S; exact Hx].
    + split; [constructor; [cbn; lia|exact P]|]. split.
      * cbn [map tv]. constructor; [|exact N]. intro Hin. apply S in Hin. contradiction.
      * intros x [Hx|Hx]; [left; exact Hx|right; apply S; exact Hx].
Qed.
Lemma mul_eval a e k : eval a (mul e k) = eval a e * k.
Proof.
  unfold mul. pose proof (mul_terms_sum a (et e) k) as M.
  destruct (mul_terms (et e) k) as [l d]. unfold eval; cbn [ec et fst snd] in *. lia.
Qed.
Lemma mul_NF e k : NF e -> NF (mul e k).
Proof.
  intros [P N]. unfold mul. pose proof (mul_terms_nf (et e) k P N) as (P' & N' & _).
  destruct (mul_terms (et e) k) as [l d]. split; assumption.
Qed.

Lemma zero_NF : NF zero.
Proof. split; constructor. Qed.

Theorem build_eval t a : eval a (build t) = teval a t /\ NF (build t).
Proof.
  induction t as [|t [IH N] v|t [IH N] v s|t [IH N] v s k|t [IH N] k|t [IH N] u [IHu Nu]
                  |t [IH N] v|t [IH N] v s|t [IH N] v s k|t [IH N] k|t [IH N] u [IHu Nu]|t [IH N] k];
    cbn [build teval].
  - split; [reflexivity|apply zero_NF].
  - rewrite add_term_eval, IH. split; [lia|apply add_term_NF; exact N].
  - rewrite add_term_eval, IH. split; [lia|apply add_term_NF; exact N].
  - rewrite add_term_eval, IH. split; [lia|apply add_term_NF; exact N].
  - rewrite add_int_eval, IH. split; [lia|exact N].
  - rewrite add_expr_eval, IH, IHu. split; [lia|apply add_expr_NF; exact N].
  - rewrite add_term_eval, IH. split; [lia|apply add_term_NF; exact N].
  - rewrite add_term_eval, IH. split; [lia|apply add_term_NF; exact N].
  - rewrite add_term_eval, IH. split; [lia|apply add_term_NF; exact N].
  - rewrite add_int_eval, IH. split; [lia|exact N].
  - rewrite sub_expr_eval, IH, IHu. split; [lia|apply sub_expr_NF; exact N].
  - rewrite mul_eval, IH. split; [lia|apply mul_NF; exact N].
Qed.

Theorem ineq_holds_iff a l r op :
  holds a (mk_ineq l r op) <-> cmp_holds op (eval a l) (eval a r).
Proof.
  unfold holds, mk_ineq.
  destruct op; cbn [il ir iop cmp_holds];
    match goal with |- context [sub_expr ?x ?y] => pose proof (sub_expr_eval a x y) as S; unfold eval in *; revert S;
       generalize (tsum a (et (sub_expr x y))) (ec (sub_expr x y)); intros end;
    lia.
Qed.
Theorem ineq_NF l r op : NF l -> NF r ->
  NF (mkE 0 (il (mk_ineq l r op))).
Proof.
  intros Hl Hr. unfold mk_ineq. destruct op; cbn [il];
    match goal with |- context [sub_expr ?x ?y] => assert (S : NF (sub_expr x y)) by (apply sub_expr_NF; assumption) end;
    exact S.
Qed.

(* non-vacuity: a tree with cancellation, opposite polarities and a negative multiple *)
Example build_example :
  build (TMul (TSubLit (TAddTerm (TAddStr TZero "a") "a" false 3) "b" true) (-2))
  = mkE (-6) [mkT "a" true 4; mkT "b" true 2].
Proof. reflexivity. Qed.
