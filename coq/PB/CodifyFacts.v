(* C07 facts, part 3: _codifyrobdd.  The one-directional Tseitin clauses of a
   diagram together with the unit clause of its root are satisfiable by an
   extension of a user assignment exactly when the root denotes true - also when
   part of the diagram was codified earlier in the same manager. *)
From Coq Require Import ZArith List Bool String Lia.
From FrameModel Require Import PB.Expr PB.ExprFacts PB.Cnf PB.Amo PB.AmoFacts PB.Robdd PB.RobddFacts PB.Codify.
Import ListNotations.
Local Open Scope nat_scope.

(* the canonical extension: every node variable takes the value its node denotes *)
Definition canon (m : memory) (a : uasg) (aux : nat -> bool) : valuation :=
  fun v => match v with User s => a s | Aux n => aux n | Node k => den m a k end.
Lemma canon_extends m a aux : extends (canon m a aux) a.
Proof. intro s. reflexivity. Qed.

(* manager fields under the primitive updates *)
Lemma newvar_clauses v s : clauses (newvar v s) = clauses s.
Proof. unfold newvar. destruct (existsb _ _); reflexivity. Qed.
Lemma newvar_codified v s : codified (newvar v s) = codified s.
Proof. unfold newvar. destruct (existsb _ _); reflexivity. Qed.
Lemma newvar_aux v s : auxcount (newvar v s) = auxcount s.
Proof. unfold newvar. destruct (existsb _ _); reflexivity. Qed.

Lemma is_codified_In id s : is_codified id s = true <-> In id (codified s).
Proof.
  unfold is_codified. rewrite existsb_exists. split.
  - intros [x [H E]]. apply Nat.eqb_eq in E. subst. exact H.
  - intro H. exists id. split; [exact H|apply Nat.eqb_refl].
Qed.

Lemma tseitin_canon (m : memory) a aux k c : mem_wf m -> In c (tseitin m k) ->
  clause_val (canon m a aux) c = true.
Proof.
  intros W H. destruct k as [|[|j]]; cbn [tseitin] in H.
  - destruct H as [H|[]]. subst c. unfold clause_val, lit_val, canon. cbn [existsb fst snd]. rewrite den_0. reflexivity.
  - destruct H as [H|[]]. subst c. unfold clause_val, lit_val, canon. cbn [existsb fst snd]. rewrite den_1. reflexivity.
  - destruct (nth_error m j) as [[[v hi] lo]|] eqn:E; [|destruct H].
    pose proof (den_node m j v hi lo a W E) as D. replace (j + 2) with (S (S j)) in D by lia.
    destruct H as [H|[H|[]]]; subst c; unfold clause_val, lit_val, canon; cbn [existsb fst snd]; rewrite D;
      destruct (a v), (den m a hi), (den m a lo); reflexivity.
Qed.

(* closure of the codified set, except for the nodes whose clauses are still pending *)
Definition cod_ex (m : memory) (s : mgr) (pend : list nat) : Prop :=
  forall k, In k (codified s) ->
    valid m k /\
    (~ In k pend ->
     (forall c, In c (tseitin m k) -> In c (clauses s)) /\
     (forall j v hi lo, k = S (S j) -> nth_error m j = Some (v, hi, lo) ->
                        In hi (codified s) /\ In lo (codified s))).
Definition cod_inv (m : memory) (s : mgr) : Prop := cod_ex m s [].

Definition tseitin_clause (m : memory) (c : clause) : Prop := exists k, valid m k /\ In c (tseitin m k).

Lemma codify_spec : forall fuel (m : memory) id s s' pend,
  codify fuel m id s = Some s' -> cod_ex m s pend ->
  (exists new, clauses s' = clauses s ++ new /\ Forall (tseitin_clause m) new) /\
  cod_ex m s' pend /\ In id (codified s') /\ incl (codified s) (codified s') /\
  auxcount s' = auxcount s.
Proof.
  induction fuel as [|f IH]; intros m id s s' pend; cbn [codify]; [discriminate|].
  destruct (is_codified id s) eqn:Ec.
  { intros E C. injection E as E. subst s'. split; [exists []; rewrite app_nil_r; split; [reflexivity|constructor]|].
    split; [exact C|]. split; [apply is_codified_In; exact Ec|]. split; [apply incl_refl|reflexivity]. }
  set (s0 := newvar (Node id) (set_codified id s)).
  assert (Cl0 : clauses s0 = clauses s) by (unfold s0; rewrite newvar_clauses; reflexivity).
  assert (Co0 : codified s0 = codified s ++ [id]) by (unfold s0; rewrite newvar_codified; reflexivity).
  assert (Au0 : auxcount s0 = auxcount s) by (unfold s0; rewrite newvar_aux; reflexivity).
  (* leaves *)
  assert (Leaf : forall c, (id = 0 \/ id = 1) -> tseitin m id = [c] -> cod_ex m s pend ->
            let s1 := add_clause c s0 in
            (exists new, clauses s1 = clauses s ++ new /\ Forall (tseitin_clause m) new) /\
            cod_ex m s1 pend /\ In id (codified s1) /\ incl (codified s) (codified s1) /\ auxcount s1 = auxcount s).
  { intros c Hid Ht C s1. unfold s1, add_clause. cbn [clauses codified auxcount]. rewrite Cl0, Co0, Au0.
    split; [exists [c]; split; [reflexivity|constructor; [|constructor]]|].
    { exists id. split; [unfold valid; lia|rewrite Ht; left; reflexivity]. }
    split; [|split; [apply in_or_app; right; left; reflexivity|split; [apply incl_appl, incl_refl|reflexivity]]].
    intros k Hk. apply in_app_or in Hk. destruct Hk as [Hk|[Hk|[]]].
    - destruct (C k Hk) as [V R]. split; [exact V|]. intro Np. destruct (R Np) as [R1 R2]. split.
      + intros d Hd. apply in_or_app. left. apply R1. exact Hd.
      + intros j v hi lo Ek En. destruct (R2 j v hi lo Ek En). split; apply in_or_app; left; assumption.
    - subst k. split; [unfold valid; lia|]. intros _. split.
      + intros d Hd. rewrite Ht in Hd. destruct Hd as [Hd|[]]. subst d. apply in_or_app. right. left. reflexivity.
      + intros j v hi lo Ek. lia. }
  destruct id as [|[|j]].
  { intros E C. injection E as E. subst s'. apply (Leaf [(Node 0, false)]); [left; reflexivity|reflexivity|exact C]. }
  { intros E C. injection E as E. subst s'. apply (Leaf [(Node 1, true)]); [right; reflexivity|reflexivity|exact C]. }
  clear Leaf.
  destruct (nth_error m j) as [[[v hi] lo]|] eqn:En; [|discriminate].
  intros E C.
  assert (Vid : valid m (S (S j))).
  { unfold valid. assert (j < List.length m) by (apply nth_error_Some; congruence). lia. }
  (* the state with the node marked: closed except for pend and the node itself *)
  assert (C0 : cod_ex m s0 (S (S j) :: pend)).
  { intros k Hk. rewrite Co0 in Hk. apply in_app_or in Hk. destruct Hk as [Hk|[Hk|[]]].
    - destruct (C k Hk) as [V R]. split; [exact V|]. intro Np.
      assert (Np' : ~ In k pend) by (intro; apply Np; right; assumption).
      destruct (R Np') as [R1 R2]. rewrite Cl0, Co0. split; [exact R1|].
      intros j' v' hi' lo' Ek En'. destruct (R2 j' v' hi' lo' Ek En'). split; apply in_or_app; left; assumption.
    - subst k. split; [exact Vid|]. intro Np. exfalso. apply Np. left. reflexivity. }
  destruct (codify f m hi s0) as [s1|] eqn:E1; [|discriminate].
  destruct (IH _ _ _ _ _ E1 C0) as ((n1 & Cl1 & F1) & C1 & In1 & Inc1 & Au1).
  destruct (codify f m lo s1) as [s2|] eqn:E2; [|discriminate].
  destruct (IH _ _ _ _ _ E2 C1) as ((n2 & Cl2 & F2) & C2 & In2 & Inc2 & Au2).
  injection E as E. subst s'.
  set (c1 := [(Node (S (S j)), false); (User v, false); (Node hi, true)]).
  set (c2 := [(Node (S (S j)), false); (User v, true); (Node lo, true)]).
  unfold add_clause. cbn [clauses codified auxcount]. rewrite !newvar_clauses, !newvar_codified, !newvar_aux.
  assert (Ht : tseitin m (S (S j)) = [c1; c2]) by (cbn [tseitin]; rewrite En; reflexivity).
  split.
  { exists (n1 ++ n2 ++ [c1; c2]). split.
    - rewrite Cl2, Cl1, Cl0. rewrite <- !app_assoc. reflexivity.
    - apply Forall_app. split; [exact F1|]. apply Forall_app. split; [exact F2|].
      constructor; [|constructor; [|constructor]]; exists (S (S j)); (split; [exact Vid|rewrite Ht]).
      + left; reflexivity.
      + right; left; reflexivity. }
  assert (Inid : In (S (S j)) (codified s2)).
  { apply Inc2, Inc1. rewrite Co0. apply in_or_app. right. left. reflexivity. }
  split; [|split; [exact Inid|split; [|lia]]].
  2:{ intros k Hk. apply Inc2, Inc1. rewrite Co0. apply in_or_app. left. exact Hk. }
  intros k Hk. destruct (C2 k Hk) as [V R]. split; [exact V|]. intro Np.
  destruct (Nat.eq_dec k (S (S j))) as [Ek|Nk].
  - subst k. split.
    + intros d Hd. rewrite Ht in Hd. rewrite <- app_assoc. apply in_or_app. right.
      destruct Hd as [Hd|[Hd|[]]]; subst d; [left|right; left]; reflexivity.
    + intros j' v' hi' lo' Ej En'. injection Ej as Ej. subst j'. rewrite En in En'. injection En' as A B D. subst.
      split; [apply Inc2; exact In1|exact In2].
  - assert (Np' : ~ In k (S (S j) :: pend)) by (intros [A|A]; [apply Nk; symmetry; exact A|apply Np; exact A]).
    destruct (R Np') as [R1 R2]. split; [|exact R2].
    intros d Hd. apply in_or_app. left. apply in_or_app. left. apply R1. exact Hd.
Qed.

Lemma codify_total : forall fuel (m : memory) id s, mem_wf m -> valid m id -> id < fuel ->
  exists s', codify fuel m id s = Some s'.
Proof.
  induction fuel as [|f IH]; intros m id s W V Hf; [lia|]. cbn [codify].
  destruct (is_codified id s); [eexists; reflexivity|].
  destruct id as [|[|j]]; [eexists; reflexivity|eexists; reflexivity|].
  unfold valid in V. destruct (nth_error m j) as [[[v hi] lo]|] eqn:En.
  - destruct (W _ _ _ _ En) as [Hh Hl].
    destruct (IH m hi (newvar (Node (S (S j))) (set_codified (S (S j)) s)) W) as [s1 E1];
      [unfold valid; lia|lia|]. rewrite E1.
    destruct (IH m lo s1 W) as [s2 E2]; [unfold valid; lia|lia|]. rewrite E2. eexists; reflexivity.
  - apply nth_error_None in En. lia.
Qed.

(* in a model of the clauses, a true node variable of a codified node forces its denotation *)
Lemma sound_nodes (m : memory) s e a : mem_wf m -> cod_inv m s -> extends e a -> sat e (clauses s) ->
  forall n k, k < n -> In k (codified s) -> e (Node k) = true -> den m a k = true.
Proof.
  intros W C X HS. rewrite sat_In in HS.
  induction n as [|n IH]; intros k Hk Hin Hv; [lia|].
  destruct (C k Hin) as [V R]. destruct (R (fun H => H)) as [R1 R2].
  destruct k as [|[|j]].
  - specialize (HS _ (R1 _ (or_introl eq_refl))). unfold clause_val, lit_val in HS. cbn [existsb fst snd] in HS.
    rewrite Hv in HS. discriminate.
  - apply den_1.
  - unfold valid in V. destruct (nth_error m j) as [[[v hi] lo]|] eqn:En;
      [|apply nth_error_None in En; lia].
    destruct (W _ _ _ _ En) as [Hh Hl]. destruct (R2 j v hi lo eq_refl En) as [Ih Il].
    pose proof (den_node m j v hi lo a W En) as D. replace (j + 2) with (S (S j)) in D by lia. rewrite D.
    assert (T : tseitin m (S (S j)) = [[(Node (S (S j)), false); (User v, false); (Node hi, true)];
                                        [(Node (S (S j)), false); (User v, true); (Node lo, true)]])
      by (cbn [tseitin]; rewrite En; reflexivity).
    pose proof (HS _ (R1 _ ltac:(rewrite T; left; reflexivity))) as S1.
    pose proof (HS _ (R1 _ ltac:(rewrite T; right; left; reflexivity))) as S2.
    unfold clause_val, lit_val in S1, S2. cbn [existsb fst snd] in S1, S2. rewrite Hv, (X v) in S1, S2.
    destruct (a v); cbn in S1, S2.
    + apply (IH hi); [lia|exact Ih|]. destruct (e (Node hi)); [reflexivity|discriminate].
    + apply (IH lo); [lia|exact Il|]. destruct (e (Node lo)); [reflexivity|discriminate].
Qed.

Lemma canon_tseitin_sat (m : memory) a aux new : mem_wf m -> Forall (tseitin_clause m) new ->
  sat (canon m a aux) new.
Proof.
  intros W F. apply sat_In. intros c Hc. rewrite Forall_forall in F. destruct (F c Hc) as [k [_ Hk]].
  eapply tseitin_canon; eassumption.
Qed.

(* (iv) codifying a root into a manager whose codified set is closed (possibly sharing
   nodes codified earlier) and asserting the root:
   - every model of the resulting clauses makes the root's denotation true;
   - if the denotation is true, the canonical extension that satisfied the old clauses
     satisfies the new ones as well. *)
Theorem codify_exact_gen : forall (m : memory) root s s' a, mem_wf m -> cod_inv m s ->
  codify (S root) m root s = Some s' ->
  cod_inv m s' /\
  (forall e, extends e a -> sat e (clauses s' ++ [[(Node root, true)]]) -> den m a root = true) /\
  (forall aux, den m a root = true -> sat (canon m a aux) (clauses s) ->
               sat (canon m a aux) (clauses s' ++ [[(Node root, true)]])).
Proof.
  intros m root s s' a W C E.
  destruct (codify_spec _ _ _ _ _ _ E C) as ((new & Cl & F) & C' & Hin & _ & _).
  split; [exact C'|]. split.
  - intros e X HS. apply sat_app in HS. destruct HS as [S1 S2].
    apply (sound_nodes m s' e a W C' X S1 (S root) root); [lia|exact Hin|].
    apply sat_cons in S2. destruct S2 as [S2 _]. unfold clause_val, lit_val in S2. cbn [existsb fst snd] in S2.
    destruct (e (Node root)); [reflexivity|discriminate].
  - intros aux D HS. rewrite Cl. rewrite <- app_assoc. apply sat_app. split; [exact HS|].
    apply sat_app. split; [apply canon_tseitin_sat; assumption|].
    apply sat_cons. split; [|apply sat_nil]. unfold clause_val, lit_val, canon. cbn [existsb fst snd].
    rewrite D. reflexivity.
Qed.

Lemma cod_inv_empty m : cod_inv m empty_mgr.
Proof. intros k []. Qed.

(* from an empty manager: ext a (codify root ++ [[root]]) <-> den root a *)
Theorem codify_exact : forall (m : memory) root a, mem_wf m -> valid m root ->
  exists s', codify (S root) m root empty_mgr = Some s' /\
             (ext a (clauses s' ++ [[(Node root, true)]]) <-> den m a root = true).
Proof.
  intros m root a W V. destruct (codify_total (S root) m root empty_mgr W V) as [s' E]; [lia|].
  exists s'. split; [exact E|].
  destruct (codify_exact_gen m root empty_mgr s' a W (cod_inv_empty m) E) as (_ & A & B).
  split.
  - intros [e [X HS]]. exact (A e X HS).
  - intro D. exists (canon m a (fun _ => false)). split; [apply canon_extends|].
    apply B; [exact D|apply sat_nil].
Qed.

Example codify_ex :
  let m : memory := [("z"%string, 1, 0); ("y"%string, 0, 2); ("x"%string, 1, 3)] in
  option_map clauses (codify 5 m 4 empty_mgr) =
  Some [[(Node 1, true)]; [(Node 0, false)];
        [(Node 2, false); (User "z", false); (Node 1, true)]; [(Node 2, false); (User "z", true); (Node 0, true)];
        [(Node 3, false); (User "y", false); (Node 0, true)]; [(Node 3, false); (User "y", true); (Node 2, true)];
        [(Node 4, false); (User "x", false); (Node 1, true)]; [(Node 4, false); (User "x", true); (Node 3, true)]].
Proof. reflexivity. Qed.
