(* Canonicity of the normal form of tools/rect/pseudobool.py's Expr (model: PB/Expr.v):
   a normalised expression that is 0 under every assignment is the empty expression, hence
   two expressions mean the same exactly when the code's own subtraction gives the empty one,
   and an inequality between two sides of equal meaning has no literal left. *)
From Coq Require Import ZArith List Bool String Lia.
From FrameModel Require Import PB.Expr PB.ExprFacts.
Import ListNotations.
Open Scope Z_scope.

(* the assignment that makes every literal of l false (first occurrence of a variable decides) *)
Definition falsify (l : list term) : asg :=
  fun v => match find (fun t => String.eqb (tv t) v) l with Some t => negb (ts t) | None => false end.
(* as falsify r, except that the variable of t gets the value b *)
Definition point (t : term) (b : bool) (r : list term) : asg :=
  fun v => if String.eqb v (tv t) then b else falsify r v.

Lemma lit_false a v s : a v = negb s -> lit a v s = 0.
Proof. unfold lit; intros ->. destruct s; reflexivity. Qed.
Lemma lit_true a v s : a v = s -> lit a v s = 1.
Proof. unfold lit; intros ->. destruct s; reflexivity. Qed.

Lemma tsum_all_false a l : (forall t, In t l -> a (tv t) = negb (ts t)) -> tsum a l = 0.
Proof.
  induction l as [|t r IH]; cbn [tsum]; intros H; [reflexivity|].
  rewrite (lit_false a (tv t) (ts t)) by (apply H; left; reflexivity).
  rewrite IH by (intros u Hu; apply H; right; exact Hu). lia.
Qed.

Lemma falsify_spec l : NoDup (map tv l) -> forall t, In t l -> falsify l (tv t) = negb (ts t).
Proof.
  induction l as [|x r IH]; intros Hnd t Hin; [destruct Hin|].
  cbn [map] in Hnd. inversion Hnd as [|? ? Hx Hr]; subst.
  unfold falsify; cbn [find]. destruct (String.eqb (tv x) (tv t)) eqn:E.
  - destruct Hin as [->|Hin]; [reflexivity|]. apply String.eqb_eq in E.
    exfalso; apply Hx. rewrite E. apply in_map; exact Hin.
  - destruct Hin as [->|Hin]; [rewrite String.eqb_refl in E; discriminate|].
    exact (IH Hr t Hin).
Qed.

Lemma tsum_point t b r : NoDup (map tv (t :: r)) -> tsum (point t b r) r = 0.
Proof.
  intros Hnd. cbn [map] in Hnd. inversion Hnd as [|? ? Hx Hr]; subst.
  apply tsum_all_false. intros u Hu. unfold point.
  destruct (String.eqb (tv u) (tv t)) eqn:E.
  - apply String.eqb_eq in E. exfalso; apply Hx. rewrite <- E. apply in_map; exact Hu.
  - apply falsify_spec; assumption.
Qed.

(* flipping one variable of a normalised expression changes its value by that term's coefficient *)
Lemma point_gap c t r : NoDup (map tv (t :: r)) ->
  eval (point t (ts t) r) (mkE c (t :: r)) = c + tc t /\
  eval (point t (negb (ts t)) r) (mkE c (t :: r)) = c.
Proof.
  intros Hnd. unfold eval; cbn [ec et tsum]. rewrite !(tsum_point t _ r Hnd).
  rewrite (lit_true _ (tv t) (ts t)) by (unfold point; rewrite String.eqb_refl; reflexivity).
  rewrite (lit_false _ (tv t) (ts t)) by (unfold point; rewrite String.eqb_refl; reflexivity).
  split; lia.
Qed.

Theorem zero_canonical e : NF e -> (forall a, eval a e = 0) -> e = zero.
Proof.
  destruct e as [c l]; intros [Hpos Hnd] H; cbn [et] in *.
  destruct l as [|t r].
  - specialize (H (fun _ => false)). unfold eval in H; cbn [ec et tsum] in H.
    unfold zero; f_equal; lia.
  - exfalso. destruct (point_gap c t r Hnd) as [E1 E2].
    rewrite H in E1, E2. inversion Hpos; subst. lia.
Qed.

(* a normalised expression that is CONSTANT under every assignment has no literal *)
Theorem constant_canonical e k : NF e -> (forall a, eval a e = k) -> e = mkE k [].
Proof.
  destruct e as [c l]; intros [Hpos Hnd] H; cbn [et] in *.
  destruct l as [|t r].
  - specialize (H (fun _ => false)). unfold eval in H; cbn [ec et tsum] in H. f_equal; lia.
  - exfalso. destruct (point_gap c t r Hnd) as [E1 E2].
    rewrite H in E1, E2. inversion Hpos; subst. lia.
Qed.

Theorem sem_eq_iff_sub_zero e f : NF e ->
  ((forall a, eval a e = eval a f) <-> sub_expr e f = zero).
Proof.
  intros He; split.
  - intros H. apply zero_canonical; [apply sub_expr_NF; exact He|].
    intros a; rewrite sub_expr_eval, H; lia.
  - intros H a. pose proof (sub_expr_eval a e f) as E. rewrite H in E.
    change (eval a zero) with 0 in E. lia.
Qed.

Theorem ineq_of_equal_sides l r op : NF l -> NF r -> (forall a, eval a l = eval a r) ->
  il (mk_ineq l r op) = [] /\ ir (mk_ineq l r op) = 0.
Proof.
  intros Hl Hr H.
  assert (E1 : sub_expr l r = zero) by (apply sem_eq_iff_sub_zero; assumption).
  assert (E2 : sub_expr r l = zero)
    by (apply sem_eq_iff_sub_zero; [assumption | intros a; symmetry; apply H]).
  destruct op; cbv beta iota zeta delta [mk_ineq il ir]; rewrite ?E1, ?E2; split; reflexivity.
Qed.

(* non-vacuity: x - x and (x + 2) * 3 - 3 x, built by the model's operations *)
Example canon_ex1 : sub_expr (build (TAddStr TZero "x")) (build (TAddStr TZero "x")) = zero.
Proof. reflexivity. Qed.
Example canon_ex2 :
  sub_expr (build (TMul (TAddInt (TAddStr TZero "x") 2) 3)) (build (TAddTerm TZero "x" true 3)) = mkE 6 [].
Proof. reflexivity. Qed.

(* corollaries: what cancels leaves nothing behind *)
Corollary sub_self e : NF e -> sub_expr e e = zero.
Proof. intros He. apply sem_eq_iff_sub_zero; [exact He | reflexivity]. Qed.

Corollary mul_zero e : NF e -> mul e 0 = zero.
Proof.
  intros He. apply zero_canonical; [apply mul_NF; exact He|].
  intros a; rewrite mul_eval; lia.
Qed.

Corollary add_sub_cancel e f : NF e -> NF f -> sub_expr (sub_expr (add_expr e f) f) e = zero.
Proof.
  intros He Hf. apply sem_eq_iff_sub_zero.
  - apply sub_expr_NF, add_expr_NF; exact He.
  - intros a. rewrite sub_expr_eval, add_expr_eval. lia.
Qed.
