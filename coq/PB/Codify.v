(* C07 model, part 4: the manager record, newvar, add_clause and
   SATManager._codifyrobdd (tools/rect/satmanager.py:27-56, 123-146). *)
From Coq Require Import ZArith List Bool String Lia.
From FrameModel Require Import PB.Expr PB.Cnf PB.Robdd.
Import ListNotations.
Local Open Scope nat_scope.

Record mgr := mkM {
  clauses : cnf;            (* SATManager.clauses, in posting order *)
  auxcount : nat;           (* SATManager.auxcount *)
  codified : list nat;      (* keys of SATManager.codified, in insertion order *)
  vtable : list var         (* SATManager.vtable[1:], the registered names in order *)
}.
Definition empty_mgr : mgr := mkM [] 0 [] [].

Definition add_clause (c : clause) (s : mgr) : mgr :=
  mkM (clauses s ++ [c]) (auxcount s) (codified s) (vtable s).
Definition newvar (v : var) (s : mgr) : mgr :=
  if existsb (var_eqb v) (vtable s) then s
  else mkM (clauses s) (auxcount s) (codified s) (vtable s ++ [v]).
Definition set_codified (id : nat) (s : mgr) : mgr :=
  mkM (clauses s) (auxcount s) (codified s ++ [id]) (vtable s).
Definition is_codified (id : nat) (s : mgr) : bool := existsb (Nat.eqb id) (codified s).

(* the two one-directional Tseitin clauses of an inner node, the unit clause of a leaf *)
Definition tseitin (m : memory) (id : nat) : cnf :=
  match id with
  | 0 => [[(Node 0, false)]]
  | 1 => [[(Node 1, true)]]
  | S (S j) => match nth_error m j with
               | Some (v, hi, lo) => [[(Node id, false); (User v, false); (Node hi, true)];
                                      [(Node id, false); (User v, true); (Node lo, true)]]
               | None => []
               end
  end.

(* [None]: out of fuel or memory[robdd_id] out of range (IndexError) *)
Fixpoint codify (fuel : nat) (m : memory) (id : nat) (s : mgr) : option mgr :=
  match fuel with
  | O => None
  | S f =>
      if is_codified id s then Some s
      else
        let s0 := newvar (Node id) (set_codified id s) in
        match id with
        | 0 => Some (add_clause [(Node 0, false)] s0)
        | 1 => Some (add_clause [(Node 1, true)] s0)
        | S (S j) =>
            match nth_error m j with
            | None => None
            | Some (v, hi, lo) =>
                match codify f m hi s0 with
                | None => None
                | Some s1 =>
                    match codify f m lo s1 with
                    | None => None
                    | Some s2 =>
                        let s3 := newvar (Node lo) (newvar (Node hi) (newvar (User v) s2)) in
                        Some (add_clause [(Node id, false); (User v, true); (Node lo, true)]
                                (add_clause [(Node id, false); (User v, false); (Node hi, true)] s3))
                    end
                end
            end
        end
  end.
