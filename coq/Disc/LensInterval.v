(* C17 - per-case agreement between the model and the implementation, by proof.

   The harness states, for an input (x1 y1 r1 x2 y2 r2) given by the exact
   rational values of the floats and for the implementation's result v,
       agrees (overlap_code x1 y1 r1 x2 y2 r2) (v - tol) (v + tol)
   and closes it with [lens_goal]: the case of the model is selected by proof,
   [acos] is rewritten to the [atan] form (Interval has no acos) and the
   numerical facts are discharged by the [interval] tactic. *)
From Coq Require Import Reals Lra.
From Coquelicot Require Import Rcomplements.
From Interval Require Import Tactic.
From FrameModel Require Import Disc.Lens Disc.LensFacts.
Open Scope R_scope.

Definition agrees (o : option R) (lo hi : R) : Prop :=
  exists v, o = Some v /\ lo <= v <= hi.

Lemma acos_atan_form : forall x, -1 < x < 1 ->
  acos x = PI / 2 - atan (x / sqrt (1 - x * x)).
Proof.
  intros x [A B]. unfold acos, Rsqr.
  destruct (Rle_dec x (-1)); [lra|]. destruct (Rle_dec 1 x); [lra|]. reflexivity.
Qed.

Lemma cosarg_bounds_strict : forall r1 r2 d, 0 < r1 -> 0 < r2 ->
  Rabs (r1 - r2) < d -> d < r1 + r2 -> -1 < cosarg r1 r2 d < 1.
Proof.
  intros r1 r2 d H1 H2 A B.
  assert (M : mid r1 r2 d) by (unfold mid; lra).
  destruct (mid_lin _ _ _ M) as (A1 & A2 & _ & D).
  unfold cosarg, cosnum, cosden.
  assert (Hden : 0 < 2 * r1 * d) by nra.
  split.
  - apply Rlt_div_r; [exact Hden|]. nra.
  - apply Rlt_div_l; [exact Hden|]. nra.
Qed.

(* the middle case with acos in atan form and sin(acos a) = sqrt(1 - a^2) *)
Definition lens_mid_atan (r1 r2 d : R) : R :=
  r1 ^ 2 * (PI / 2 - atan (cosarg r1 r2 d / sqrt (1 - cosarg r1 r2 d * cosarg r1 r2 d)))
  + r2 ^ 2 * (PI / 2 - atan (cosarg r2 r1 d / sqrt (1 - cosarg r2 r1 d * cosarg r2 r1 d)))
  - d * r1 * sqrt (1 - cosarg r1 r2 d * cosarg r1 r2 d).

Lemma lens_mid_atan_eq : forall r1 r2 d, 0 < r1 -> 0 < r2 ->
  Rabs (r1 - r2) < d -> d < r1 + r2 -> lens r1 r2 d = lens_mid_atan r1 r2 d.
Proof.
  intros r1 r2 d H1 H2 A B.
  pose proof (cosarg_bounds_strict r1 r2 d H1 H2 A B) as Ba.
  assert (A' : Rabs (r2 - r1) < d) by now rewrite Rabs_minus_sym.
  pose proof (cosarg_bounds_strict r2 r1 d H2 H1 A' ltac:(lra)) as Bb.
  unfold lens. destruct (Rlt_dec (r1 + r2) d); [lra|].
  destruct (Rle_dec d (Rabs (r1 - r2))); [lra|].
  unfold lens_formula, lens_mid_atan.
  rewrite sin_acos by lra. unfold Rsqr.
  rewrite (acos_atan_form _ Ba), (acos_atan_form _ Bb). reflexivity.
Qed.

Lemma agrees_far : forall x1 y1 r1 x2 y2 r2 lo hi, 0 < r1 -> 0 < r2 ->
  r1 + r2 < dist x1 y1 x2 y2 -> lo <= 0 <= hi ->
  agrees (overlap_code x1 y1 r1 x2 y2 r2) lo hi.
Proof.
  intros x1 y1 r1 x2 y2 r2 lo hi H1 H2 F B. exists 0. split; [|exact B].
  rewrite overlap_code_total by assumption. unfold overlap, lens.
  destruct (Rlt_dec (r1 + r2) (dist x1 y1 x2 y2)); [reflexivity|lra].
Qed.

Lemma agrees_nested : forall x1 y1 r1 x2 y2 r2 lo hi, 0 < r1 -> 0 < r2 ->
  (dist x1 y1 x2 y2 <= r1 - r2 /\ lo <= PI * r2 ^ 2 <= hi) \/
  (dist x1 y1 x2 y2 <= r2 - r1 /\ lo <= PI * r1 ^ 2 <= hi) ->
  agrees (overlap_code x1 y1 r1 x2 y2 r2) lo hi.
Proof.
  intros x1 y1 r1 x2 y2 r2 lo hi H1 H2 C.
  exists (small_disc r1 r2). split.
  - rewrite overlap_code_total by assumption. unfold overlap, lens.
    set (d := dist x1 y1 x2 y2) in *.
    assert (N : d <= Rabs (r1 - r2)).
    { destruct C as [[C _]|[C _]].
      - apply Rle_trans with (1 := C). apply Rle_abs.
      - apply Rle_trans with (1 := C). rewrite Rabs_minus_sym. apply Rle_abs. }
    destruct (Rlt_dec (r1 + r2) d) as [F|F].
    + exfalso. unfold Rabs in N. destruct (Rcase_abs (r1 - r2)); lra.
    + destruct (Rle_dec d (Rabs (r1 - r2))); [reflexivity|lra].
  - unfold small_disc.
    assert (D0 : 0 <= dist x1 y1 x2 y2) by (unfold dist, norm; apply sqrt_pos).
    destruct C as [[C B]|[C B]].
    + rewrite Rmin_right by lra. exact B.
    + rewrite Rmin_left by lra. exact B.
Qed.

Lemma agrees_mid : forall x1 y1 r1 x2 y2 r2 lo hi, 0 < r1 -> 0 < r2 ->
  r1 - r2 < dist x1 y1 x2 y2 -> r2 - r1 < dist x1 y1 x2 y2 -> dist x1 y1 x2 y2 < r1 + r2 ->
  lo <= lens_mid_atan r1 r2 (dist x1 y1 x2 y2) <= hi ->
  agrees (overlap_code x1 y1 r1 x2 y2 r2) lo hi.
Proof.
  intros x1 y1 r1 x2 y2 r2 lo hi H1 H2 A1 A2 B K.
  exists (lens_mid_atan r1 r2 (dist x1 y1 x2 y2)). split; [|exact K].
  rewrite overlap_code_total by assumption. unfold overlap. f_equal.
  apply lens_mid_atan_eq; try assumption.
  unfold Rabs. destruct (Rcase_abs (r1 - r2)); lra.
Qed.

Ltac lens_num := cbv [dist norm lens_mid_atan cosarg cosnum cosden]; interval with (i_prec 90).

Ltac lens_goal :=
  first
  [ apply agrees_far; [lens_num | lens_num | lens_num | split; lens_num]
  | apply agrees_nested; [lens_num | lens_num |
      first [ left; split; [lens_num | split; lens_num] | right; split; [lens_num | split; lens_num] ] ]
  | apply agrees_mid; [lens_num | lens_num | lens_num | lens_num | lens_num | split; lens_num] ].

(* satisfiability of the hypotheses / a worked instance: two unit discs at distance 1 *)
Example unit_discs_at_distance_1 :
  agrees (overlap_code 0 0 1 1 0 1) (1.2283696) (1.2283698).
Proof. lens_goal. Qed.

(* the exact coincidences of Disc/LensCoincide.v are ordinary goals for [lens_goal]
   (the atan form is singular at cosine +-1, not at cosine 0): 3-4-5 with the chord through
   the first centre, and the offset (1,2) with radii 2 and 3 *)
Example right_angle_3_4_5 :
  agrees (overlap_code 0 0 3 4 0 5) (18.22469) (18.22470).
Proof. lens_goal. Qed.

Example right_angle_offset_1_2 :
  agrees (overlap_code 0 0 2 1 2 3) (8.37859) (8.37860).
Proof. lens_goal. Qed.
