(* C17 - the overlap area is a function of its arguments.

   The implementation lives in a process with class-wide state: the distance and
   area tolerances of frame.geometry.Rectangle (undefined at start; defined by
   Rectangle.set_epsilon, by the first Die that is loaded while they are
   undefined, undefined again by Rectangle.undefine_epsilon).  The model
   [overlap_code] has no state parameter.  To make that a statement and not an
   omission, histories of state operations and calls are modelled here: the
   state evolves as in the code, every call is evaluated "in" the current state
   by [overlap_in], which ignores it, and the theorems say that the list of
   results of a history is the list of [overlap_code] values of its calls,
   whatever the initial state and whatever state operations are interleaved.
   The harness runs such histories on the implementation and requires the same
   results, bit for bit, as in the undefined-tolerance state. *)
From Coq Require Import Reals List.
From FrameModel Require Import Disc.Lens Disc.LensFacts.
Import ListNotations.
Open Scope R_scope.

(* Rectangle._distance_epsilon / _area_epsilon when defined *)
Definition gstate : Type := option (R * R).

Inductive op : Type :=
| SetEps (e : R)            (* Rectangle.set_epsilon(e): the area tolerance becomes sqrt(e) *)
| SetEps2 (e a : R)         (* Rectangle.set_epsilon(e, a) *)
| Undefine                  (* Rectangle.undefine_epsilon() *)
| LoadDie (w h : R)         (* Die("<w>x<h>"): defines the tolerances only when they are undefined *)
| Call (x1 y1 r1 x2 y2 r2 : R).   (* circle_circle_intersection_area(Point(x1,y1), r1, Point(x2,y2), r2) *)

Definition step_state (g : gstate) (o : op) : gstate :=
  match o with
  | SetEps e => Some (e, sqrt e)
  | SetEps2 e a => Some (e, a)
  | Undefine => None
  | LoadDie w h =>
      match g with
      | Some _ => g
      | None => let e := Rmin w h * (10 / 10 ^ 12) in Some (e, sqrt e)
      end
  | Call _ _ _ _ _ _ => g
  end.

(* a call made in state g: the state is not consulted *)
Definition overlap_in (g : gstate) (x1 y1 r1 x2 y2 r2 : R) : option R :=
  overlap_code x1 y1 r1 x2 y2 r2.

Fixpoint run_hist (g : gstate) (h : list op) : list (option R) :=
  match h with
  | [] => []
  | Call x1 y1 r1 x2 y2 r2 :: t => overlap_in g x1 y1 r1 x2 y2 r2 :: run_hist g t
  | o :: t => run_hist (step_state g o) t
  end.

(* the calls of a history, evaluated without any state *)
Fixpoint calls (h : list op) : list (option R) :=
  match h with
  | [] => []
  | Call x1 y1 r1 x2 y2 r2 :: t => overlap_code x1 y1 r1 x2 y2 r2 :: calls t
  | _ :: t => calls t
  end.

Theorem overlap_in_any_state : forall g g' x1 y1 r1 x2 y2 r2,
  overlap_in g x1 y1 r1 x2 y2 r2 = overlap_in g' x1 y1 r1 x2 y2 r2.
Proof. reflexivity. Qed.

Theorem run_hist_calls : forall h g, run_hist g h = calls h.
Proof.
  induction h as [|o t IH]; intro g; [reflexivity|].
  destruct o; cbn [run_hist calls]; try apply IH.
  unfold overlap_in. f_equal. apply IH.
Qed.

Theorem run_hist_any_state : forall h g g', run_hist g h = run_hist g' h.
Proof. intros h g g'. rewrite (run_hist_calls h g), (run_hist_calls h g'). reflexivity. Qed.

(* ... and each result is the lens area of the call's own arguments *)
Theorem run_hist_call_value : forall g pre x1 y1 r1 x2 y2 r2, 0 < r1 -> 0 < r2 ->
  calls pre = [] ->
  run_hist g (pre ++ [Call x1 y1 r1 x2 y2 r2]) = [Some (overlap x1 y1 r1 x2 y2 r2)].
Proof.
  intros g pre x1 y1 r1 x2 y2 r2 H1 H2 P. rewrite run_hist_calls.
  assert (A : forall a b, calls (a ++ b) = calls a ++ calls b).
  { induction a as [|o t IH]; intro b; [reflexivity|].
    destruct o; cbn [app calls]; try apply IH. f_equal. apply IH. }
  rewrite A, P. cbn [app calls]. rewrite overlap_code_total by assumption. reflexivity.
Qed.

(* the seeded scenario: two unit discs at distance 19/10, evaluated before and
   after a 5e10 x 2e10 die was loaded and after set_epsilon(3/10): three equal results *)
Example history_example :
  run_hist None [Call 0 0 1 (19/10) 0 1; LoadDie 50000000000 20000000000; Call 0 0 1 (19/10) 0 1;
                 SetEps (3/10); Call 0 0 1 (19/10) 0 1; Undefine; Call 0 0 1 (19/10) 0 1]
  = let v := overlap_code 0 0 1 (19/10) 0 1 in [v; v; v; v].
Proof. reflexivity. Qed.

(* the state does evolve in the model (the theorem is not about a constant state) *)
Example state_evolves :
  step_state None (SetEps2 (3/10) 1) = Some (3/10, 1) /\
  step_state (Some (3/10, 1)) (LoadDie 5 2) = Some (3/10, 1) /\
  step_state (Some (3/10, 1)) Undefine = None.
Proof. repeat split. Qed.
