(* C17 - exact coincidences of the lens configuration.

   The harness' coincidence stream feeds the implementation with discs whose
   radii and centre distance form an exactly representable right triangle
   (3-4-5, 5-12-13, offset (1,2) with radii 2 and 3, ...).  Three cases:

     right angle at the centre of the first disc   r2^2 = r1^2 + d^2
        (the common chord passes through that centre: cosine 0, half-angle PI/2),
     right angle at the centre of the second disc  r1^2 = r2^2 + d^2  (by symmetry),
     right angle at the intersection point         d^2 = r1^2 + r2^2  (orthogonal circles).

   In each of them the code is in its middle branch, both divisors are non-zero
   (Properties/C17.v, C17_lens_defined) and the value has the closed form below;
   a rewrite of the formula that divides by the (signed) distance from a centre
   to the chord is undefined exactly here. *)
From Coq Require Import Reals Lra.
From FrameModel Require Import Disc.Lens Disc.LensFacts.
Open Scope R_scope.

Definition right_at_first (r1 r2 d : R) : Prop := r2 ^ 2 = r1 ^ 2 + d ^ 2.
Definition orthogonal (r1 r2 d : R) : Prop := d ^ 2 = r1 ^ 2 + r2 ^ 2.

Lemma right_at_first_mid : forall r1 r2 d, 0 < r1 -> 0 < r2 -> 0 < d ->
  right_at_first r1 r2 d -> r1 < r2 /\ d < r2 /\ r2 < r1 + d.
Proof. unfold right_at_first. intros r1 r2 d H1 H2 Hd E. repeat split; nra. Qed.

Lemma right_at_first_branch : forall r1 r2 d, 0 < r1 -> 0 < r2 -> 0 < d ->
  right_at_first r1 r2 d -> ~ (r1 + r2 < d) /\ ~ (d <= Rabs (r1 - r2)).
Proof.
  intros r1 r2 d H1 H2 Hd E.
  destruct (right_at_first_mid _ _ _ H1 H2 Hd E) as (A & B & C).
  split; [lra|]. rewrite Rabs_left by lra. lra.
Qed.

(* the chord passes through the centre of the first disc: the cosine is exactly 0 ... *)
Lemma cosarg_right_at_first : forall r1 r2 d, 0 < r1 -> 0 < d ->
  right_at_first r1 r2 d -> cosarg r1 r2 d = 0.
Proof.
  unfold right_at_first, cosarg, cosnum, cosden. intros r1 r2 d H1 Hd E.
  replace (r1 ^ 2 + d ^ 2 - r2 ^ 2) with 0 by lra. unfold Rdiv. ring.
Qed.

(* ... and the other cosine is d / r2 *)
Lemma cosarg_right_at_first_other : forall r1 r2 d, 0 < r2 -> 0 < d ->
  right_at_first r1 r2 d -> cosarg r2 r1 d = d / r2.
Proof.
  unfold right_at_first, cosarg, cosnum, cosden. intros r1 r2 d H2 Hd E.
  replace (r2 ^ 2 + d ^ 2 - r1 ^ 2) with (2 * d ^ 2) by lra. field. lra.
Qed.

Theorem lens_right_at_first : forall r1 r2 d, 0 < r1 -> 0 < r2 -> 0 < d ->
  right_at_first r1 r2 d ->
  lens r1 r2 d = r1 ^ 2 * (PI / 2) + r2 ^ 2 * acos (d / r2) - d * r1.
Proof.
  intros r1 r2 d H1 H2 Hd E.
  destruct (right_at_first_branch _ _ _ H1 H2 Hd E) as (F & N).
  unfold lens. destruct (Rlt_dec (r1 + r2) d); [contradiction|].
  destruct (Rle_dec d (Rabs (r1 - r2))); [contradiction|].
  unfold lens_formula.
  rewrite (cosarg_right_at_first _ _ _ H1 Hd E), (cosarg_right_at_first_other _ _ _ H2 Hd E).
  rewrite acos_0, sin_PI2. ring.
Qed.

Theorem lens_code_right_at_first : forall r1 r2 d, 0 < r1 -> 0 < r2 -> 0 < d ->
  right_at_first r1 r2 d ->
  lens_code r1 r2 d = Some (r1 ^ 2 * (PI / 2) + r2 ^ 2 * acos (d / r2) - d * r1) /\
  lens_code r2 r1 d = Some (r1 ^ 2 * (PI / 2) + r2 ^ 2 * acos (d / r2) - d * r1).
Proof.
  intros r1 r2 d H1 H2 Hd E. split.
  - rewrite lens_code_total by assumption. f_equal. now apply lens_right_at_first.
  - rewrite lens_code_total by assumption. rewrite <- lens_sym by assumption.
    f_equal. now apply lens_right_at_first.
Qed.

(* orthogonal circles: the cosines are r1/d and r2/d, the kite is r1*r2 *)
Lemma orthogonal_branch : forall r1 r2 d, 0 < r1 -> 0 < r2 -> 0 < d ->
  orthogonal r1 r2 d -> ~ (r1 + r2 < d) /\ ~ (d <= Rabs (r1 - r2)).
Proof.
  unfold orthogonal. intros r1 r2 d H1 H2 Hd E. split; [nra|].
  unfold Rabs. destruct (Rcase_abs (r1 - r2)); nra.
Qed.

Lemma cosarg_orthogonal : forall r1 r2 d, 0 < r1 -> 0 < d ->
  orthogonal r1 r2 d -> cosarg r1 r2 d = r1 / d.
Proof.
  unfold orthogonal, cosarg, cosnum, cosden. intros r1 r2 d H1 Hd E.
  replace (r1 ^ 2 + d ^ 2 - r2 ^ 2) with (2 * r1 ^ 2) by lra. field. lra.
Qed.

Lemma sin_acos_orthogonal : forall r1 r2 d, 0 < r1 -> 0 < r2 -> 0 < d ->
  orthogonal r1 r2 d -> sin (acos (r1 / d)) = r2 / d.
Proof.
  unfold orthogonal. intros r1 r2 d H1 H2 Hd E.
  assert (B : -1 <= r1 / d <= 1).
  { split.
    - apply Rle_trans with 0; [lra|]. apply Rlt_le, Rdiv_lt_0_compat; assumption.
    - apply Rlt_le. apply (Rmult_lt_reg_r d); [assumption|].
      unfold Rdiv. rewrite Rmult_assoc, Rinv_l by lra. nra. }
  rewrite sin_acos by exact B.
  replace (1 - Rsqr (r1 / d)) with (Rsqr (r2 / d)).
  - apply sqrt_Rsqr. apply Rlt_le, Rdiv_lt_0_compat; assumption.
  - unfold Rsqr. field_simplify_eq; [|lra]. nra.
Qed.

Theorem lens_orthogonal : forall r1 r2 d, 0 < r1 -> 0 < r2 -> 0 < d ->
  orthogonal r1 r2 d ->
  lens r1 r2 d = r1 ^ 2 * acos (r1 / d) + r2 ^ 2 * acos (r2 / d) - r1 * r2.
Proof.
  intros r1 r2 d H1 H2 Hd E.
  destruct (orthogonal_branch _ _ _ H1 H2 Hd E) as (F & N).
  assert (E' : orthogonal r2 r1 d) by (unfold orthogonal in *; lra).
  unfold lens. destruct (Rlt_dec (r1 + r2) d); [contradiction|].
  destruct (Rle_dec d (Rabs (r1 - r2))); [contradiction|].
  unfold lens_formula.
  rewrite (cosarg_orthogonal _ _ _ H1 Hd E), (cosarg_orthogonal _ _ _ H2 Hd E').
  rewrite (sin_acos_orthogonal _ _ _ H1 H2 Hd E). field. lra.
Qed.

(* the hypotheses are satisfiable: 3-4-5 in the three roles, and the offset
   (1,2) with radii 2 and 3 (distance sqrt 5) *)
Lemma right_at_first_3_4_5 : 0 < 3 /\ 0 < 5 /\ 0 < 4 /\ right_at_first 3 5 4.
Proof. unfold right_at_first. repeat split; lra. Qed.

Lemma orthogonal_3_4_5 : 0 < 3 /\ 0 < 4 /\ 0 < 5 /\ orthogonal 3 4 5.
Proof. unfold orthogonal. repeat split; lra. Qed.

Lemma right_at_first_offset_1_2 : right_at_first 2 3 (dist 0 0 1 2).
Proof.
  unfold right_at_first, dist, norm.
  replace ((0 + - 1) ^ 2 + (0 + - 2) ^ 2) with 5 by ring.
  rewrite pow2_sqrt by lra. ring.
Qed.
