(* C17 - facts about the disc-overlap model [Disc/Lens.v]. *)
From Coq Require Import Reals Lra Lia.
From Coquelicot Require Import Coquelicot.
From FrameModel Require Import Disc.Lens.
Open Scope R_scope.

(* ---------- the middle case ---------- *)
Definition mid (r1 r2 d : R) : Prop := Rabs (r1 - r2) < d /\ d <= r1 + r2.

Lemma abs_lt_parts : forall a d, Rabs a < d -> a < d /\ - a < d.
Proof.
  intros a d H. split.
  - apply Rle_lt_trans with (2 := H). apply Rle_abs.
  - apply Rle_lt_trans with (2 := H). rewrite <- Rabs_Ropp. apply Rle_abs.
Qed.

Lemma mid_sym : forall r1 r2 d, mid r1 r2 d -> mid r2 r1 d.
Proof.
  unfold mid. intros r1 r2 d [H1 H2]. split.
  - now rewrite Rabs_minus_sym.
  - lra.
Qed.

Lemma mid_lin : forall r1 r2 d, mid r1 r2 d ->
  r1 - r2 < d /\ r2 - r1 < d /\ d <= r1 + r2 /\ 0 < d.
Proof.
  unfold mid. intros r1 r2 d [H1 H2].
  destruct (abs_lt_parts _ _ H1) as [A B].
  pose proof (Rabs_pos (r1 - r2)). lra.
Qed.

(* ---------- lens_defined: the acos arguments lie in [-1,1] ---------- *)
Lemma cosarg_bounds : forall r1 r2 d, 0 < r1 -> 0 < r2 -> mid r1 r2 d ->
  -1 <= cosarg r1 r2 d <= 1.
Proof.
  intros r1 r2 d H1 H2 M. destruct (mid_lin _ _ _ M) as (A & B & C & D).
  unfold cosarg, cosnum, cosden.
  assert (Hden : 0 < 2 * r1 * d) by nra.
  split.
  - apply Rle_div_r; [exact Hden|]. nra.
  - apply Rle_div_l; [exact Hden|]. nra.
Qed.

Theorem lens_defined : forall r1 r2 d, 0 < r1 -> 0 < r2 ->
  ~ (r1 + r2 < d) -> ~ (d <= Rabs (r1 - r2)) ->
  cosden r1 d <> 0 /\ cosden r2 d <> 0 /\
  -1 <= cosarg r1 r2 d <= 1 /\ -1 <= cosarg r2 r1 d <= 1.
Proof.
  intros r1 r2 d H1 H2 Hf Hn.
  assert (M : mid r1 r2 d) by (unfold mid; lra).
  destruct (mid_lin _ _ _ M) as (A & B & C & D).
  unfold cosden. repeat split; try nra.
  - apply (cosarg_bounds r1 r2 d H1 H2 M).
  - apply (cosarg_bounds r1 r2 d H1 H2 M).
  - apply (cosarg_bounds r2 r1 d H2 H1 (mid_sym _ _ _ M)).
  - apply (cosarg_bounds r2 r1 d H2 H1 (mid_sym _ _ _ M)).
Qed.

(* ---------- Heron-type identities in the middle case ---------- *)
Lemma cos_split : forall r1 r2 d, 0 < r1 -> 0 < r2 -> 0 < d ->
  r1 * cosarg r1 r2 d + r2 * cosarg r2 r1 d = d.
Proof. intros. unfold cosarg, cosnum, cosden. field. lra. Qed.

Lemma height_sq : forall r1 r2 d, 0 < r1 -> 0 < r2 -> 0 < d ->
  r1 ^ 2 * (1 - (cosarg r1 r2 d)²) = r2 ^ 2 * (1 - (cosarg r2 r1 d)²).
Proof. intros. unfold cosarg, cosnum, cosden, Rsqr. field. lra. Qed.

Lemma height_eq : forall r1 r2 d, 0 < r1 -> 0 < r2 -> mid r1 r2 d ->
  r1 * sqrt (1 - (cosarg r1 r2 d)²) = r2 * sqrt (1 - (cosarg r2 r1 d)²).
Proof.
  intros r1 r2 d H1 H2 M. destruct (mid_lin _ _ _ M) as (A & B & C & D).
  rewrite <- (sqrt_pow2 r1) at 1 by lra.
  rewrite <- (sqrt_pow2 r2) at 2 by lra.
  rewrite <- !sqrt_mult_alt by (apply pow2_ge_0).
  f_equal. now apply height_sq.
Qed.

(* the code's formula as the sum of two circular segments *)
Lemma lens_segments : forall r1 r2 d, 0 < r1 -> 0 < r2 -> mid r1 r2 d ->
  lens_formula r1 r2 d (acos (cosarg r1 r2 d)) (acos (cosarg r2 r1 d)) =
  r1 ^ 2 * seg (acos (cosarg r1 r2 d)) + r2 ^ 2 * seg (acos (cosarg r2 r1 d)).
Proof.
  intros r1 r2 d H1 H2 M. destruct (mid_lin _ _ _ M) as (A & B & C & D).
  pose proof (cosarg_bounds _ _ _ H1 H2 M) as Ba.
  pose proof (cosarg_bounds _ _ _ H2 H1 (mid_sym _ _ _ M)) as Bb.
  unfold lens_formula, seg.
  rewrite !sin_acos, !cos_acos by assumption.
  pose proof (cos_split r1 r2 d H1 H2 D) as E1.
  pose proof (height_eq r1 r2 d H1 H2 M) as E2.
  set (a := cosarg r1 r2 d) in *. set (b := cosarg r2 r1 d) in *.
  set (sa := sqrt (1 - a²)) in *. set (sb := sqrt (1 - b²)) in *.
  replace (d * r1 * sa) with ((r1 * a + r2 * b) * (r1 * sa)) by (rewrite E1; ring).
  replace ((r1 * a + r2 * b) * (r1 * sa)) with (r1 ^ 2 * (sa * a) + r2 * b * (r1 * sa)) by ring.
  rewrite E2. ring.
Qed.

(* ---------- segments are non-negative ---------- *)
Lemma seg_nonneg : forall t, 0 <= t <= PI -> 0 <= seg t.
Proof.
  intros t [H0 H1]. unfold seg.
  destruct (Req_dec t 0) as [->|Hn].
  - rewrite sin_0. lra.
  - assert (Ht : 0 < t) by lra.
    pose proof (sin_lt_x t Ht). pose proof (sin_ge_0 t H0 H1).
    pose proof (COS_bound t) as [C1 C2].
    destruct (Rle_dec 0 (cos t)); nra.
Qed.

Theorem lens_nonneg : forall r1 r2 d, 0 < r1 -> 0 < r2 -> 0 <= lens r1 r2 d.
Proof.
  intros r1 r2 d H1 H2. unfold lens.
  destruct (Rlt_dec (r1 + r2) d) as [F|F]; [lra|].
  destruct (Rle_dec d (Rabs (r1 - r2))) as [N|N].
  - unfold small_disc. pose proof PI_RGT_0. pose proof (pow2_ge_0 (Rmin r1 r2)). nra.
  - assert (M : mid r1 r2 d) by (unfold mid; lra).
    rewrite lens_segments by assumption.
    pose proof (seg_nonneg _ (acos_bound (cosarg r1 r2 d))).
    pose proof (seg_nonneg _ (acos_bound (cosarg r2 r1 d))).
    pose proof (pow2_ge_0 r1). pose proof (pow2_ge_0 r2). nra.
Qed.

(* ---------- symmetry ---------- *)
Lemma small_disc_sym : forall r1 r2, small_disc r1 r2 = small_disc r2 r1.
Proof. intros. unfold small_disc. now rewrite Rmin_comm. Qed.

Theorem lens_sym : forall r1 r2 d, 0 < r1 -> 0 < r2 -> lens r1 r2 d = lens r2 r1 d.
Proof.
  intros r1 r2 d H1 H2. unfold lens.
  rewrite (Rplus_comm r2 r1), (Rabs_minus_sym r2 r1).
  destruct (Rlt_dec (r1 + r2) d) as [F|F]; [reflexivity|].
  destruct (Rle_dec d (Rabs (r1 - r2))) as [N|N]; [apply small_disc_sym|].
  assert (M : mid r1 r2 d) by (unfold mid; lra).
  rewrite (lens_segments r1 r2 d H1 H2 M), (lens_segments r2 r1 d H2 H1 (mid_sym _ _ _ M)).
  ring.
Qed.

(* ---------- scaling ---------- *)
Lemma cosarg_scale : forall k r1 r2 d, 0 < k -> 0 < r1 -> 0 < d ->
  cosarg (k * r1) (k * r2) (k * d) = cosarg r1 r2 d.
Proof. intros. unfold cosarg, cosnum, cosden. field. lra. Qed.

Theorem lens_scale : forall k r1 r2 d, 0 < k -> 0 < r1 -> 0 < r2 ->
  lens (k * r1) (k * r2) (k * d) = k ^ 2 * lens r1 r2 d.
Proof.
  intros k r1 r2 d Hk H1 H2. unfold lens.
  replace (k * r1 - k * r2) with (k * (r1 - r2)) by ring.
  rewrite Rabs_mult, (Rabs_pos_eq k) by lra.
  assert (Hs : small_disc (k * r1) (k * r2) = k ^ 2 * small_disc r1 r2).
  { unfold small_disc. rewrite <- Rmult_min_distr_l by lra. ring. }
  destruct (Rlt_dec (r1 + r2) d) as [F|F]; destruct (Rlt_dec (k * r1 + k * r2) (k * d)) as [F'|F'];
    try (exfalso; nra); [ring|].
  destruct (Rle_dec d (Rabs (r1 - r2))) as [N|N];
    destruct (Rle_dec (k * d) (k * Rabs (r1 - r2))) as [N'|N']; try (exfalso; nra); [exact Hs|].
  assert (M : mid r1 r2 d) by (unfold mid; lra).
  destruct (mid_lin _ _ _ M) as (A & B & C & D).
  rewrite !cosarg_scale by assumption.
  unfold lens_formula. ring.
Qed.

(* ---------- the three cases agree where they meet ---------- *)
Lemma cosarg_ext : forall r1 r2, 0 < r1 -> 0 < r2 -> cosarg r1 r2 (r1 + r2) = 1.
Proof. intros. unfold cosarg, cosnum, cosden. field. lra. Qed.

Lemma cosarg_int_small : forall r1 r2, 0 < r1 -> r1 < r2 -> cosarg r1 r2 (r2 - r1) = -1.
Proof. intros. unfold cosarg, cosnum, cosden. field. lra. Qed.

Lemma cosarg_int_big : forall r1 r2, 0 < r2 -> r2 < r1 -> cosarg r1 r2 (r1 - r2) = 1.
Proof. intros. unfold cosarg, cosnum, cosden. field. lra. Qed.

Lemma acos_m1 : acos (-1) = PI.
Proof. unfold acos. destruct (Rle_dec (-1) (-1)); lra. Qed.

(* at d = r1 + r2 the code is in its middle branch and the formula gives the
   value of the far branch; at d = |r1 - r2| it is in the nested branch and the
   formula of the middle branch, evaluated there, gives the same value *)
Theorem lens_continuous_cases : forall r1 r2, 0 < r1 -> 0 < r2 ->
  lens r1 r2 (r1 + r2) = 0 /\
  lens_formula r1 r2 (r1 + r2) (acos (cosarg r1 r2 (r1 + r2))) (acos (cosarg r2 r1 (r1 + r2))) = 0 /\
  (r1 <> r2 ->
   lens_formula r1 r2 (Rabs (r1 - r2)) (acos (cosarg r1 r2 (Rabs (r1 - r2))))
                                       (acos (cosarg r2 r1 (Rabs (r1 - r2)))) = small_disc r1 r2).
Proof.
  intros r1 r2 H1 H2.
  assert (E : lens_formula r1 r2 (r1 + r2) (acos (cosarg r1 r2 (r1 + r2))) (acos (cosarg r2 r1 (r1 + r2))) = 0).
  { rewrite (Rplus_comm r1 r2) at 3. rewrite !cosarg_ext by assumption.
    unfold lens_formula. rewrite acos_1, sin_0. ring. }
  split; [|split; [exact E|]].
  - unfold lens.
    destruct (Rlt_dec (r1 + r2) (r1 + r2)) as [F|F]; [lra|].
    destruct (Rle_dec (r1 + r2) (Rabs (r1 - r2))) as [N|N]; [|exact E].
    exfalso. unfold Rabs in N. destruct (Rcase_abs (r1 - r2)); lra.
  - intros Hne. unfold small_disc, lens_formula.
    destruct (Rlt_dec r1 r2) as [L|L].
    + rewrite Rabs_left by lra. replace (- (r1 - r2)) with (r2 - r1) by ring.
      rewrite cosarg_int_small, cosarg_int_big by lra.
      rewrite acos_m1, acos_1, sin_PI, Rmin_left by lra. ring.
    + assert (r2 < r1) by lra. rewrite Rabs_right by lra.
      rewrite cosarg_int_small, cosarg_int_big by lra.
      rewrite acos_m1, acos_1, sin_0, Rmin_right by lra. ring.
Qed.

(* ---------- upper bound: the lens is no larger than the smaller disc ----------
   With h the half-chord (h = r1 sin(alpha) = r2 sin(beta)) each segment is
   h^2 * G(angle) with G t = seg t / sin^2 t, and G is increasing on (0, PI)
   (G' = 2 (sin t - t cos t) / sin^3 t >= 0).  For r1 <= r2 the big disc's
   segment (angle beta <= PI/2) is therefore no larger than the complementary
   segment (angle PI - alpha >= beta) of the small disc. *)
Definition kfun (t : R) := sin t - t * cos t.
Lemma kfun_derive : forall t, is_derive kfun t (t * sin t).
Proof. intros t. unfold kfun. auto_derive; [trivial|]. ring. Qed.

Lemma kfun_nonneg : forall t, 0 <= t <= PI -> 0 <= kfun t.
Proof.
  intros t [H0 H1].
  destruct (MVT_gen kfun 0 t (fun z => z * sin z)) as [c [Hc E]].
  - intros z _. apply kfun_derive.
  - intros z _. apply derivable_continuous_pt. exists (z * sin z). apply is_derive_Reals, kfun_derive.
  - rewrite Rmin_left, Rmax_right in Hc by lra.
    assert (K0 : kfun 0 = 0) by (unfold kfun; rewrite sin_0; ring).
    cbv beta in E. rewrite K0 in E. rewrite !Rminus_0_r in E. rewrite E. assert (0 <= sin c). { clear E K0. apply sin_ge_0; lra. } clear E K0. apply Rmult_le_pos; [apply Rmult_le_pos|]; lra.
Qed.

Definition G (t : R) := seg t / (sin t) ^ 2.
Definition dG (t : R) := 2 * kfun t / (sin t) ^ 3.

Lemma G_derive : forall t, sin t <> 0 -> is_derive G t (dG t).
Proof.
  intros t Hs. unfold G, dG, seg, kfun. auto_derive.
  - intros Z. apply Hs. destruct (Rmult_integral _ _ Z) as [Z1|Z1]; [exact Z1|]. lra.
  - pose proof (sin2_cos2 t) as E. unfold Rsqr in E.
    generalize dependent (cos t). generalize dependent (sin t). intros s Hs c E.
    field_simplify_eq; [|exact Hs]. replace (c ^ 2) with (1 - s ^ 2) by (simpl; lra). ring.
Qed.

Lemma G_mono : forall x y, 0 < x -> x <= y -> y < PI -> G x <= G y.
Proof.
  intros x y Hx Hxy Hy.
  assert (Hsin : forall z, x <= z <= y -> 0 < sin z) by (intros; apply sin_gt_0; lra).
  destruct (MVT_gen G x y dG) as [c [Hc E]].
  - rewrite Rmin_left, Rmax_right by lra. intros z Hz. apply G_derive. apply Rgt_not_eq, Hsin; lra.
  - rewrite Rmin_left, Rmax_right by lra. intros z Hz. apply derivable_continuous_pt.
    exists (dG z). apply is_derive_Reals, G_derive. apply Rgt_not_eq, Hsin; lra.
  - rewrite Rmin_left, Rmax_right in Hc by lra.
    assert (D : 0 <= dG c).
    { unfold dG. pose proof (kfun_nonneg c ltac:(lra)). pose proof (Hsin c Hc).
      apply Rle_div_r; [apply pow_lt; assumption|]. lra. }
    assert (0 <= dG c * (y - x)) by (apply Rmult_le_pos; lra).
    lra.
Qed.

Lemma seg_0 : seg 0 = 0.
Proof. unfold seg. rewrite sin_0. ring. Qed.

Lemma seg_compare : forall r1 r2 a b, 0 < r1 -> r1 <= r2 -> 0 <= a <= PI -> 0 <= b <= PI / 2 ->
  r1 * sin a = r2 * sin b -> r2 ^ 2 * seg b <= r1 ^ 2 * seg a.
Proof.
  intros r1 r2 a b H1 H12 Ha Hb E.
  pose proof PI_RGT_0 as Hpi.
  destruct (Req_dec b 0) as [->|Hb0].
  - rewrite seg_0. pose proof (seg_nonneg a Ha). pose proof (pow2_ge_0 r1). nra.
  - assert (Sb : 0 < sin b) by (apply sin_gt_0; lra).
    assert (Sa : 0 < sin a) by nra.
    assert (Ha' : 0 < a < PI).
    { destruct Ha as [A0 A1]. split.
      - destruct A0 as [A0|A0]; [exact A0|]. rewrite <- A0, sin_0 in Sa. lra.
      - destruct A1 as [A1|A1]; [exact A1|]. rewrite A1, sin_PI in Sa. lra. }
    assert (Hba : b <= a).
    { destruct (Rle_dec a (PI / 2)) as [L|L]; [|lra].
      apply sin_incr_0; try lra. nra. }
    pose proof (G_mono b a ltac:(lra) Hba ltac:(lra)) as HG.
    assert (Eb : seg b = G b * (sin b) ^ 2) by (unfold G; field; lra).
    assert (Ea : seg a = G a * (sin a) ^ 2) by (unfold G; field; lra).
    rewrite Eb, Ea.
    replace (r2 ^ 2 * (G b * sin b ^ 2)) with ((r2 * sin b) ^ 2 * G b) by ring.
    replace (r1 ^ 2 * (G a * sin a ^ 2)) with ((r1 * sin a) ^ 2 * G a) by ring.
    rewrite <- E. apply Rmult_le_compat_l; [apply pow2_ge_0|exact HG].
Qed.

Lemma cos_PI_minus : forall x, cos (PI - x) = - cos x.
Proof. intros. rewrite cos_minus, cos_PI, sin_PI. ring. Qed.

Lemma seg_PI_minus : forall x, seg (PI - x) = PI - x + sin x * cos x.
Proof. intros. unfold seg. rewrite sin_PI_x, cos_PI_minus. ring. Qed.

Lemma acos_le_half_PI : forall x, 0 <= x <= 1 -> acos x <= PI / 2.
Proof.
  intros x Hx. destruct (Rle_dec (acos x) (PI / 2)) as [L|L]; [exact L|].
  exfalso. pose proof (acos_bound x) as [B0 B1]. pose proof PI_RGT_0.
  assert (cos (acos x) < 0) by (apply cos_lt_0; lra).
  rewrite cos_acos in H0 by lra. lra.
Qed.

Lemma lens_le_small_aux : forall r1 r2 d, 0 < r1 -> r1 <= r2 -> lens r1 r2 d <= PI * r1 ^ 2.
Proof.
  intros r1 r2 d H1 H12. assert (H2 : 0 < r2) by lra.
  pose proof PI_RGT_0 as Hpi. pose proof (pow2_ge_0 r1) as Hsq.
  unfold lens.
  destruct (Rlt_dec (r1 + r2) d) as [F|F]; [nra|].
  destruct (Rle_dec d (Rabs (r1 - r2))) as [N|N].
  - unfold small_disc. rewrite Rmin_left by lra. lra.
  - assert (M : mid r1 r2 d) by (unfold mid; lra).
    destruct (mid_lin _ _ _ M) as (A & B & C & D).
    rewrite lens_segments by assumption.
    pose proof (cosarg_bounds _ _ _ H1 H2 M) as Ba.
    pose proof (cosarg_bounds _ _ _ H2 H1 (mid_sym _ _ _ M)) as Bb.
    assert (Bb0 : 0 <= cosarg r2 r1 d).
    { unfold cosarg, cosnum, cosden. apply Rle_div_r; nra. }
    pose proof (acos_bound (cosarg r1 r2 d)) as Aa.
    pose proof (acos_bound (cosarg r2 r1 d)) as Ab.
    pose proof (acos_le_half_PI _ (conj Bb0 (proj2 Bb))) as Ab2.
    assert (E : r1 * sin (PI - acos (cosarg r1 r2 d)) = r2 * sin (acos (cosarg r2 r1 d))).
    { rewrite sin_PI_x, !sin_acos by assumption. now apply height_eq. }
    pose proof (seg_compare r1 r2 (PI - acos (cosarg r1 r2 d)) (acos (cosarg r2 r1 d)) H1 H12
                  ltac:(lra) ltac:(lra) E) as K.
    rewrite seg_PI_minus in K. unfold seg at 1.
    set (al := acos (cosarg r1 r2 d)) in *. set (sc := sin al * cos al) in *.
    clearbody sc al. clear - K Hsq. nra.
Qed.

Theorem lens_le_small_disc : forall r1 r2 d, 0 < r1 -> 0 < r2 -> lens r1 r2 d <= small_disc r1 r2.
Proof.
  intros r1 r2 d H1 H2. destruct (Rle_dec r1 r2) as [L|L].
  - unfold small_disc. rewrite Rmin_left by lra. now apply lens_le_small_aux.
  - rewrite lens_sym, small_disc_sym by assumption.
    unfold small_disc. rewrite Rmin_left by lra. apply lens_le_small_aux; lra.
Qed.

(* ---------- the code (repaired and original) computes [lens] and never fails ---------- *)
Lemma clamp_id : forall lo hi x, lo <= x <= hi -> clamp lo hi x = x.
Proof. intros lo hi x [A B]. unfold clamp. rewrite Rmin_right, Rmax_right by lra. reflexivity. Qed.

Lemma acos_py_some : forall x, -1 <= x <= 1 -> acos_py x = Some (acos x).
Proof.
  intros x [A B]. unfold acos_py.
  destruct (Rle_dec (-1) x); [|lra]. destruct (Rle_dec x 1); [reflexivity|lra].
Qed.

Lemma div_py_some : forall x y, y <> 0 -> div_py x y = Some (x / y).
Proof. intros x y H. unfold div_py. destruct (Req_EM_T y 0); [contradiction|reflexivity]. Qed.

Theorem lens_code_orig_total : forall r1 r2 d, 0 < r1 -> 0 < r2 ->
  lens_code_orig r1 r2 d = Some (lens r1 r2 d).
Proof.
  intros r1 r2 d H1 H2. unfold lens_code_orig, lens.
  destruct (Rlt_dec (r1 + r2) d) as [F|F]; [reflexivity|].
  destruct (Rle_dec d (Rabs (r1 - r2))) as [N|N]; [reflexivity|].
  destruct (lens_defined r1 r2 d H1 H2 F N) as (D1 & D2 & B1 & B2).
  rewrite (div_py_some _ _ D1). cbn [bind]. fold (cosarg r1 r2 d).
  rewrite (acos_py_some _ B1). cbn [bind].
  rewrite (div_py_some _ _ D2). cbn [bind]. fold (cosarg r2 r1 d).
  rewrite (acos_py_some _ B2). reflexivity.
Qed.

Theorem lens_code_total : forall r1 r2 d, 0 < r1 -> 0 < r2 ->
  lens_code r1 r2 d = Some (lens r1 r2 d).
Proof.
  intros r1 r2 d H1 H2.
  pose proof (lens_nonneg r1 r2 d H1 H2) as L0.
  pose proof (lens_le_small_disc r1 r2 d H1 H2) as L1.
  revert L0 L1. unfold lens_code, lens.
  destruct (Rlt_dec (r1 + r2) d) as [F|F]; [reflexivity|].
  destruct (Rle_dec d (Rabs (r1 - r2))) as [N|N]; [reflexivity|].
  intros L0 L1.
  destruct (lens_defined r1 r2 d H1 H2 F N) as (D1 & D2 & B1 & B2).
  rewrite (div_py_some _ _ D1). cbn [bind]. fold (cosarg r1 r2 d).
  rewrite (clamp_id _ _ _ B1), (acos_py_some _ B1). cbn [bind].
  rewrite (div_py_some _ _ D2). cbn [bind]. fold (cosarg r2 r1 d).
  rewrite (clamp_id _ _ _ B2), (acos_py_some _ B2). cbn [bind].
  rewrite clamp_id by (split; assumption). reflexivity.
Qed.

(* the whole function, from centres and radii *)
Theorem overlap_code_total : forall x1 y1 r1 x2 y2 r2, 0 < r1 -> 0 < r2 ->
  overlap_code x1 y1 r1 x2 y2 r2 = Some (overlap x1 y1 r1 x2 y2 r2).
Proof. intros. unfold overlap_code, overlap. now apply lens_code_total. Qed.

Lemma dist_sym : forall x1 y1 x2 y2, dist x1 y1 x2 y2 = dist x2 y2 x1 y1.
Proof. intros. unfold dist, norm. f_equal. ring. Qed.

Theorem overlap_sym : forall x1 y1 r1 x2 y2 r2, 0 < r1 -> 0 < r2 ->
  overlap x1 y1 r1 x2 y2 r2 = overlap x2 y2 r2 x1 y1 r1.
Proof. intros. unfold overlap. rewrite (dist_sym x2 y2 x1 y1). now apply lens_sym. Qed.

Lemma middle_case_example : 0 < 2 /\ 0 < 3 /\ ~ (2 + 3 < 4) /\ ~ (4 <= Rabs (2 - 3)).
Proof.
  repeat split; try lra.
  unfold Rabs. destruct (Rcase_abs (2 - 3)); lra.
Qed.
