(* C17 - facts about the disc-overlap model [Disc/Lens.v]. *)
From Coq Require Import Reals Lra Lia.
From Coquelicot Require Import Coquelicot.
From FrameModel Require Import Disc.Lens.
Open Scope R_scope.

(* ---------- the middle case ---------- *)
Definition mid (r1 r2 d : R) : Prop := Rabs (r1 - r2) < d /\ d <= r1 + r2.

Lemma abs_lt_parts : forall a d, Rabs a < d -> a < d /\ - a < d.
Proof.
  intros a d H. split.
  - apply Rle_lt_trans with (2 := H). apply Rle_abs.
  - apply Rle_lt_trans with (2 := H). rewrite <- Rabs_Ropp. apply Rle_abs.
Qed.

Lemma mid_sym : forall r1 r2 d, mid r1 r2 d -> mid r2 r1 d.
Proof.
  unfold mid. intros r1 r2 d [H1 H2]. split.
  - now rewrite Rabs_minus_sym.
  - lra.
Qed.

Lemma mid_lin : forall r1 r2 d, mid r1 r2 d ->
  r1 - r2 < d /\ r2 - r1 < d /\ d <= r1 + r2 /\ 0 < d.
Proof.
  unfold mid. intros r1 r2 d [H1 H2].
  destruct (abs_lt_parts _ _ H1) as [A B].
  pose proof (Rabs_pos (r1 - r2)). lra.
Qed.

(* ---------- lens_defined: the acos arguments lie in [-1,1] ---------- *)
Lemma cosarg_bounds : forall r1 r2 d, 0 < r1 -> 0 < r2 -> mid r1 r2 d ->
  -1 <= cosarg r1 r2 d <= 1.
Proof.
  intros r1 r2 d H1 H2 M. destruct (mid_lin _ _ _ M) as (A & B & C & D).
  unfold cosarg, cosnum, cosden.
  assert (Hden : 0 < 2 * r1 * d) by nra.
  split.
  - apply Rle_div_r; [exact Hden|]. nra.
  - apply Rle_div_l; [exact Hden|]. nra.
Qed.

Theorem lens_defined : forall r1 r2 d, 0 < r1 -> 0 < r2 ->
  ~ (r1 + r2 < d) -> ~ (d <= Rabs (r1 - r2)) ->
  cosden r1 d <> 0 /\ cosden r2 d <> 0 /\
  -1 <= cosarg r1 r2 d <= 1 /\ -1 <= cosarg r2 r1 d <= 1.
Proof.
  intros r1 r2 d H1 H2 Hf Hn.
  assert (M : mid r1 r2 d) by (unfold mid; lra).
  destruct (mid_lin _ _ _ M) as (A & B & C & D).
  unfold cosden. repeat split; try nra.
  - apply (cosarg_bounds r1 r2 d H1 H2 M).
  - apply (cosarg_bounds r1 r2 d H1 H2 M).
  - apply (cosarg_bounds r2 r1 d H2 H1 (mid_sym _ _ _ M)).
  - apply (cosarg_bounds r2 r1 d H2 H1 (mid_sym _ _ _ M)).
Qed.

(* ---------- Heron-type identities in the middle case ---------- *)
Lemma cos_split : forall r1 r2 d, 0 < r1 -> 0 < r2 -> 0 < d ->
  r1 * cosarg r1 r2 d + r2 * cosarg r2 r1 d = d.
Proof. intros. unfold cosarg, cosnum, cosden. field. lra. Qed.

Lemma height_sq : forall r1 r2 d, 0 < r1 -> 0 < r2 -> 0 < d ->
  r1 ^ 2 * (1 - (cosarg r1 r2 d)²) = r2 ^ 2 * (1 - (cosarg r2 r1 d)²).
Proof. intros. unfold cosarg, cosnum, cosden, Rsqr. field. lra. Qed.

Lemma height_eq : forall r1 r2 d, 0 < r1 -> 0 < r2 -> mid r1 r2 d ->
  r1 * sqrt (1 - (cosarg r1 r2 d)²) = r2 * sqrt (1 - (cosarg r2 r1 d)²).
Proof.
  intros r1 r2 d H1 H2 M. destruct (mid_lin _ _ _ M) as (A & B & C & D).
  rewrite <- (sqrt_pow2 r1) at 1 by lra.
  rewrite <- (sqrt_pow2 r2) at 2 by lra.
  rewrite <- !sqrt_mult_alt by (apply pow2_ge_0).
  f_equal. now apply height_sq.
Qed.

(* the code's formula as the sum of two circular segments *)
Lemma lens_segments : forall r1 r2 d, 0 < r1 -> 0 < r2 -> mid r1 r2 d ->
  lens_formula r1 r2 d (acos (cosarg r1 r2 d)) (acos (cosarg r2 r1 d)) =
  r1 ^ 2 * seg (acos (cosarg r1 r2 d)) + r2 ^ 2 * seg (acos (cosarg r2 r1 d)).
Proof.
  intros r1 r2 d H1 H2 M. destruct (mid_lin _ _ _ M) as (A & B & C & D).
  pose proof (cosarg_bounds _ _ _ H1 H2 M) as Ba.
  pose proof (cosarg_bounds _ _ _ H2 H1 (mid_sym _ _ _ M)) as Bb.
  unfold lens_formula, seg.
  rewrite !sin_acos, !cos_acos by assumption.
  pose proof (cos_split r1 r2 d H1 H2 D) as E1.
  pose proof (height_eq r1 r2 d H1 H2 M) as E2.
  set (a := cosarg r1 r2 d) in *. set (b := cosarg r2 r1 d) in *.
  set (sa := sqrt (1 - a²)) in *. set (sb := sqrt (1 - b²)) in *.
  replace (d * r1 * sa) with ((r1 * a + r2 * b) * (r1 * sa)) by (rewrite E1; ring).
  replace ((r1 * a + r2 * b) * (r1 * sa)) with (r1 ^ 2 * (sa * a) + r2 * b * (r1 * sa)) by ring.
  rewrite E2. ring.
Qed.

(* ---------- segments are non-negative ---------- *)
Lemma seg_nonneg : forall t, 0 <= t <= PI -> 0 <= seg t.
Proof.
  intros t [H0 H1]. unfold seg.
  destruct (Req_dec t 0) as [->|Hn].
  - rewrite sin_0. lra.
  - assert (Ht : 0 < t) by lra.
    pose proof (sin_lt_x t Ht). pose proof (sin_ge_0 t H0 H1).
    pose proof (COS_bound t) as [C1 C2].
    destruct (Rle_dec 0 (cos t)); nra.
Qed.

Theorem lens_nonneg : forall r1 r2 d, 0 < r1 -> 0 < r2 -> 0 <= lens r1 r2 d.
Proof.
  intros r1 r2 d H1 H2. unfold lens.
  destruct (Rlt_dec (r1 + r2) d) as [F|F]; [lra|].
  destruct (Rle_dec d (Rabs (r1 - r2))) as [N|N].
  - unfold small_disc. pose proof PI_RGT_0. pose proof (pow2_ge_0 (Rmin r1 r2)). nra.
  - assert (M : mid r1 r2 d) by (unfold mid; lra).
    rewrite lens_segments by assumption.
    pose proof (seg_nonneg _ (acos_bound (cosarg r1 r2 d))).
    pose proof (seg_nonneg _ (acos_bound (cosarg r2 r1 d))).
    pose proof (pow2_ge_0 r1). pose proof (pow2_ge_0 r2). nra.
Qed.

(* ---------- symmetry ---------- *)
Lemma small_disc_sym : forall r1 r2, small_disc r1 r2 = small_disc r2 r1.
Proof. intros. unfold small_disc. now rewrite Rmin_comm. Qed.

Theorem lens_sym : forall r1 r2 d, 0 < r1 -> 0 < r2 -> lens r1 r2 d = lens r2 r1 d.
Proof.
  intros r1 r2 d H1 H2. unfold lens.
  rewrite (Rplus_comm r2 r1), (Rabs_minus_sym r2 r1).
  destruct (Rlt_dec (r1 + r2) d) as [F|F]; [reflexivity|].
  destruct (Rle_dec d (Rabs (r1 - r2))) as [N|N]; [apply small_disc_sym|].
  assert (M : mid r1 r2 d) by (unfold mid; lra).
  rewrite (lens_segments r1 r2 d H1 H2 M), (lens_segments r2 r1 d H2 H1 (mid_sym _ _ _ M)).
  ring.
Qed.

(* ---------- scaling ---------- *)
Lemma cosarg_scale : forall k r1 r2 d, 0 < k -> 0 < r1 -> 0 < d ->
  cosarg (k * r1) (k * r2) (k * d) = cosarg r1 r2 d.
Proof. intros. unfold cosarg, cosnum, cosden. field. lra. Qed.

Theorem lens_scale : forall k r1 r2 d, 0 < k -> 0 < r1 -> 0 < r2 ->
  lens (k * r1) (k * r2) (k * d) = k ^ 2 * lens r1 r2 d.
Proof.
  intros k r1 r2 d Hk H1 H2. unfold lens.
  replace (k * r1 - k * r2) with (k * (r1 - r2)) by ring.
  rewrite Rabs_mult, (Rabs_pos_eq k) by lra.
  assert (Hs : small_disc (k * r1) (k * r2) = k ^ 2 * small_disc r1 r2).
  { unfold small_disc. rewrite <- Rmult_min_distr_l by lra. ring. }
  destruct (Rlt_dec (r1 + r2) d) as [F|F]; destruct (Rlt_dec (k * r1 + k * r2) (k * d)) as [F'|F'];
    try (exfalso; nra); [ring|].
  destruct (Rle_dec d (Rabs (r1 - r2))) as [N|N];
    destruct (Rle_dec (k * d) (k * Rabs (r1 - r2))) as [N'|N']; try (exfalso; nra); [exact Hs|].
  assert (M : mid r1 r2 d) by (unfold mid; lra).
  destruct (mid_lin _ _ _ M) as (A & B & C & D).
  rewrite !cosarg_scale by assumption.
  unfold lens_formula. ring.
Qed.

(* ---------- the three cases agree where they meet ---------- *)
Lemma cosarg_ext : forall r1 r2, 0 < r1 -> 0 < r2 -> cosarg r1 r2 (r1 + r2) = 1.
Proof. intros. unfold cosarg, cosnum, cosden. field. lra. Qed.

Lemma cosarg_int_small : forall r1 r2, 0 < r1 -> r1 < r2 -> cosarg r1 r2 (r2 - r1) = -1.
Proof. intros. unfold cosarg, cosnum, cosden. field. lra. Qed.

Lemma cosarg_int_big : forall r1 r2, 0 < r2 -> r2 < r1 -> cosarg r1 r2 (r1 - r2) = 1.
Proof. intros. unfold cosarg, cosnum, cosden. field. lra. Qed.

Lemma acos_m1 : acos (-1) = PI.
Proof. unfold acos. destruct (Rle_dec (-1) (-1)); lra. Qed.

(* at d = r1 + r2 the code is in its middle branch and the formula gives the
   value of the far branch; at d = |r1 - r2| it is in the nested branch and the
   formula of the middle branch, evaluated there, gives the same value *)
Theorem lens_continuous_cases : forall r1 r2, 0 < r1 -> 0 < r2 ->
  lens r1 r2 (r1 + r2) = 0 /\
  lens_formula r1 r2 (r1 + r2) (acos (cosarg r1 r2 (r1 + r2))) (acos (cosarg r2 r1 (r1 + r2))) = 0 /\
  (r1 <> r2 ->
   lens_formula r1 r2 (Rabs (r1 - r2)) (acos (cosarg r1 r2 (Rabs (r1 - r2))))
                                       (acos (cosarg r2 r1 (Rabs (r1 - r2)))) = small_disc r1 r2).
Proof.
  intros r1 r2 H1 H2.
  assert (E : lens_formula r1 r2 (r1 + r2) (acos (cosarg r1 r2 (r1 + r2))) (acos (cosarg r2 r1 (r1 + r2))) = 0).
  { rewrite (Rplus_comm r1 r2) at 3. rewrite !cosarg_ext by assumption.
    unfold lens_formula. rewrite acos_1, sin_0. ring. }
  split; [|split; [exact E|]].
  - unfold lens.
    destruct (Rlt_dec (r1 + r2) (r1 + r2)) as [F|F]; [lra|].
    destruct (Rle_dec (r1 + r2) (Rabs (r1 - r2))) as [N|N]; [|exact E].
    exfalso. unfold Rabs in N. destruct (Rcase_abs (r1 - r2)); lra.
  - intros Hne. unfold small_disc, lens_formula.
    destruct (Rlt_dec r1 r2) as [L|L].
    + rewrite Rabs_left by lra. replace (- (r1 - r2)) with (r2 - r1) by ring.
      rewrite cosarg_int_small, cosarg_int_big by lra.
      rewrite acos_m1, acos_1, sin_PI, Rmin_left by lra. ring.
    + assert (r2 < r1) by lra. rewrite Rabs_right by lra.
      rewrite cosarg_int_small, cosarg_int_big by lra.
      rewrite acos_m1, acos_1, sin_0, Rmin_right by lra. ring.
Qed.
