(* C17 - model of tools/force/fruchterman_reingold.py::circle_circle_intersection_area
   over the real numbers.

     d = (c1 - c2).norm()
     if d > r1 + r2: return 0
     if d <= abs(r1 - r2): return math.pi * min(r1, r2)**2
     alpha = math.acos(max(-1.0, min(1.0, (r1**2 + d**2 - r2**2) / (2 * r1 * d))))
     beta  = math.acos(max(-1.0, min(1.0, (r2**2 + d**2 - r1**2) / (2 * r2 * d))))
     area  = r1**2 * alpha + r2**2 * beta - d * r1 * math.sin(alpha)
     return max(0.0, min(area, math.pi * min(r1, r2)**2))

   ([lens_code]: the code after fixes/C17-acos-clamp.diff; [lens_code_orig]: the
   code before it, without the two kinds of clamp.)  Python's [math.acos] raises
   outside [-1,1] and [/] raises on a zero divisor: both are option-valued here,
   so that "never fails" is a theorem (LensFacts.lens_code_total) and not an
   artefact of Coq's total [acos] and [/].  Definitions only. *)
From Coq Require Import Reals.
Open Scope R_scope.

(* math.acos: ValueError("math domain error") outside [-1, 1] *)
Definition acos_py (x : R) : option R :=
  if Rle_dec (-1) x then if Rle_dec x 1 then Some (acos x) else None else None.

(* x / y: ZeroDivisionError when y = 0 *)
Definition div_py (x y : R) : option R :=
  if Req_EM_T y 0 then None else Some (x / y).

Definition bind {A B : Type} (o : option A) (f : A -> option B) : option B :=
  match o with Some a => f a | None => None end.

(* max(lo, min(hi, x)) *)
Definition clamp (lo hi x : R) : R := Rmax lo (Rmin hi x).

(* numerator and denominator of the cosine of the half-angle at the centre of the first disc *)
Definition cosnum (r1 r2 d : R) : R := r1 ^ 2 + d ^ 2 - r2 ^ 2.
Definition cosden (r1 d : R) : R := 2 * r1 * d.
Definition cosarg (r1 r2 d : R) : R := cosnum r1 r2 d / cosden r1 d.

(* math.pi * min(r1, r2)**2 *)
Definition small_disc (r1 r2 : R) : R := PI * (Rmin r1 r2) ^ 2.

(* r1**2 * alpha + r2**2 * beta - d * r1 * math.sin(alpha) *)
Definition lens_formula (r1 r2 d alpha beta : R) : R :=
  r1 ^ 2 * alpha + r2 ^ 2 * beta - d * r1 * sin alpha.

(* the repaired code *)
Definition lens_code (r1 r2 d : R) : option R :=
  if Rlt_dec (r1 + r2) d then Some 0
  else if Rle_dec d (Rabs (r1 - r2)) then Some (small_disc r1 r2)
  else
    bind (div_py (cosnum r1 r2 d) (cosden r1 d)) (fun ca =>
    bind (acos_py (clamp (-1) 1 ca)) (fun alpha =>
    bind (div_py (cosnum r2 r1 d) (cosden r2 d)) (fun cb =>
    bind (acos_py (clamp (-1) 1 cb)) (fun beta =>
    Some (clamp 0 (small_disc r1 r2) (lens_formula r1 r2 d alpha beta)))))).

(* the code before the repair: no clamps *)
Definition lens_code_orig (r1 r2 d : R) : option R :=
  if Rlt_dec (r1 + r2) d then Some 0
  else if Rle_dec d (Rabs (r1 - r2)) then Some (small_disc r1 r2)
  else
    bind (div_py (cosnum r1 r2 d) (cosden r1 d)) (fun ca =>
    bind (acos_py ca) (fun alpha =>
    bind (div_py (cosnum r2 r1 d) (cosden r2 d)) (fun cb =>
    bind (acos_py cb) (fun beta =>
    Some (lens_formula r1 r2 d alpha beta))))).

(* the value both compute in real arithmetic (LensFacts.lens_code_total /
   lens_code_orig_total): same case split, total functions, no clamps *)
Definition lens (r1 r2 d : R) : R :=
  if Rlt_dec (r1 + r2) d then 0
  else if Rle_dec d (Rabs (r1 - r2)) then small_disc r1 r2
  else lens_formula r1 r2 d (acos (cosarg r1 r2 d)) (acos (cosarg r2 r1 d)).

(* Point.__sub__ is  self + (-other);  Point.norm is  (x**2 + y**2)**(1/2) *)
Definition norm (x y : R) : R := sqrt (x ^ 2 + y ^ 2).
Definition dist (x1 y1 x2 y2 : R) : R := norm (x1 + - x2) (y1 + - y2).

Definition overlap_code (x1 y1 r1 x2 y2 r2 : R) : option R :=
  lens_code r1 r2 (dist x1 y1 x2 y2).
Definition overlap (x1 y1 r1 x2 y2 r2 : R) : R :=
  lens r1 r2 (dist x1 y1 x2 y2).

(* area of the circular segment of half-angle t in the unit disc *)
Definition seg (t : R) : R := t - sin t * cos t.
