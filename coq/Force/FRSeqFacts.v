(* Facts about histories of relocation calls (Force/FRSeq.v): what one call promises
   holds for every call of every history, from the value the history has reached; and
   the invariants that survive whole histories.  Everything for ARBITRARY force laws
   and cost functions (a different one per call if you like). *)
From FrameModel Require Import Num.QcTac Force.FR Force.FRFacts Force.FRSeq.
Open Scope Qc_scope.

Section Facts.
  Context {A B : Type}.
  Notation module := (module A).
  Notation netlist := (netlist A B).
  Notation op := (op A B).

  (* ---------------- update_nth ---------------- *)
  Lemma update_nth_length {X} (f : X -> X) : forall v l, length (update_nth f v l) = length l.
  Proof. intros v l; revert v; induction l as [|x l IH]; intros [|v]; cbn; auto. Qed.

  Lemma update_nth_map {X Y} (f : X -> X) (g : X -> Y) : (forall x, g (f x) = g x) ->
    forall v l, map g (update_nth f v l) = map g l.
  Proof.
    intros Hg v l; revert v; induction l as [|x l IH]; intros [|v]; cbn; auto.
    - rewrite Hg; reflexivity.
    - rewrite IH; reflexivity.
  Qed.

  Lemma update_nth_In {X} (f : X -> X) : forall v l y,
    In y (update_nth f v l) -> In y l \/ exists x, In x l /\ y = f x.
  Proof.
    intros v l; revert v; induction l as [|x l IH]; intros [|v] y Hy; cbn in Hy; auto.
    - destruct Hy as [<-|Hy]; [right; exists x; split; [left; reflexivity|reflexivity]|left; right; exact Hy].
    - destruct Hy as [<-|Hy]; [left; left; reflexivity|].
      destruct (IH v y Hy) as [Hi|(x0 & Hi & E)]; [left; right; exact Hi|right; exists x0; split; [right; exact Hi|exact E]].
  Qed.

  (* ---------------- one step ---------------- *)
  Lemma same_but_centres_refl (s : netlist) : same_but_centres s s.
  Proof. unfold same_but_centres; auto. Qed.

  Lemma same_but_centres_trans (s1 s2 s3 : netlist) :
    same_but_centres s1 s2 -> same_but_centres s2 s3 -> same_but_centres s1 s3.
  Proof.
    intros (E1 & E2 & E3 & E4) (F1 & F2 & F3 & F4). unfold same_but_centres.
    rewrite F1, F2, F3, F4. auto.
  Qed.

  Lemma fixed_kept_refl (s : netlist) : fixed_kept s s.
  Proof. intros v m c Hm _ _; exact Hm. Qed.

  Lemma fixed_kept_trans (s1 s2 s3 : netlist) : fixed_kept s1 s2 -> fixed_kept s2 s3 -> fixed_kept s1 s3.
  Proof. intros H1 H2 v m c Hm Hf Hc. eapply H2; eauto. Qed.

  Lemma layout_reloc_inv force W H mi (s : netlist) : 0 <= W -> 0 <= H ->
    reloc_inv W H mi s (fr_layout force W H mi s).
  Proof.
    intros HW HH. unfold reloc_inv. splits.
    - exact (fr_only_centres force W H mi s).
    - intros v m c Hm Hf Hc. exact (proj2 (fr_fixed force W H mi s v m c Hm Hf Hc)).
    - intros Hn v m Hm Hf. exact (fr_in_die force W H mi s v m HW HH Hn Hm Hf).
  Qed.

  Theorem step_inv_holds W H (o : op) (s : netlist) : 0 <= W -> 0 <= H ->
    step_inv W H o s (apply_op W H o s).
  Proof.
    intros HW HH. destruct o as [force mi|force cost ks mi|v c|v a|]; cbn [step_inv apply_op].
    - apply layout_reloc_inv; assumption.
    - split.
      + unfold force_algorithm_on. apply layout_reloc_inv; assumption.
      + intros Hne. unfold argmin_from.
        destruct (fa_argmin_on force cost ks W H mi s Hne) as (E & l1 & l2 & Ek & H1 & H2).
        split; [exact E|]. exists l1, l2. splits; assumption.
    - unfold same_but_centres; cbn [modules nets]. splits.
      + apply update_nth_map. reflexivity.
      + apply update_nth_map. reflexivity.
      + apply update_nth_length.
      + reflexivity.
    - unfold centres_of; cbn [modules nets]. splits.
      + apply update_nth_map. reflexivity.
      + apply update_nth_map. reflexivity.
      + reflexivity.
    - reflexivity.
  Qed.

  (* every call of every history keeps its promises, from the value reached so far;
     for force_algorithm: the argmin with the costs of THAT call's starting layout *)
  Theorem seq_hist_inv W H : 0 <= W -> 0 <= H -> forall (ops : list op) (s : netlist), hist_inv W H ops s.
  Proof.
    intros HW HH. induction ops as [|o r IH]; intros s; cbn [hist_inv]; [exact I|].
    split; [apply step_inv_holds; assumption|apply IH].
  Qed.

  (* no hidden state: what the rest of a history does depends only on the value reached *)
  Theorem run_ops_app W H (a b : list op) (s : netlist) :
    run_ops W H (a ++ b) s = run_ops W H b (run_ops W H a s).
  Proof. unfold run_ops. apply fold_left_app. Qed.

  Lemma last_cons' {X} : forall (l : list X) (x d : X), last (x :: l) d = last l x.
  Proof. induction l as [|y l IH]; intros x d; [reflexivity|]. cbn [last] in *. destruct l; [reflexivity|apply IH]. Qed.

  Theorem run_ops_states W H : forall (ops : list op) (s : netlist),
    run_ops W H ops s = last (states W H ops s) s /\ length (states W H ops s) = length ops.
  Proof.
    induction ops as [|o r IH]; intros s; [split; reflexivity|].
    destruct (IH (apply_op W H o s)) as [E L]. split.
    - cbn [states]. change (run_ops W H (o :: r) s) with (run_ops W H r (apply_op W H o s)). rewrite E.
      symmetry. apply last_cons'.
    - cbn [states length]. rewrite L. reflexivity.
  Qed.

  (* the same, said of the call at any position of a history *)
  Theorem seq_call_at W H : 0 <= W -> 0 <= H -> forall (pre : list op) (o : op) (s : netlist),
    step_inv W H o (run_ops W H pre s) (run_ops W H (pre ++ [o]) s).
  Proof.
    intros HW HH pre o s. rewrite run_ops_app. cbn [run_ops fold_left]. apply step_inv_holds; assumption.
  Qed.

  Theorem seq_argmin_at W H (pre : list op) force cost ks mi (s : netlist) : ks <> [] ->
    let s0 := run_ops W H pre s in
    let kb := best_kappa force cost W H mi s0 ks in
    let c k := cost (fr_layout (force k) W H mi s0) in
    run_ops W H (pre ++ [Algo force cost ks mi]) s = fr_layout (force kb) W H mi s0 /\
    exists l1 l2, ks = l1 ++ kb :: l2 /\
      (forall k, In k l1 -> c kb < c k) /\ (forall k, In k l2 -> c kb <= c k).
  Proof.
    intros Hne s0 kb c. rewrite run_ops_app. cbn [run_ops fold_left apply_op]. fold (run_ops W H pre s). fold s0.
    destruct (fa_argmin_on force cost ks W H mi s0 Hne) as (E & l1 & l2 & Ek & H1 & H2).
    split; [exact E|]. exists l1, l2. splits; assumption.
  Qed.

  (* ---------------- whole histories of relocation calls ---------------- *)
  Lemma reloc_step W H (o : op) (s : netlist) : 0 <= W -> 0 <= H -> is_reloc o ->
    same_but_centres s (apply_op W H o s) /\ fixed_kept s (apply_op W H o s).
  Proof.
    intros HW HH Hr. pose proof (step_inv_holds W H o s HW HH) as Hs.
    destruct o as [force mi|force cost ks mi|v c|v a|]; cbn [is_reloc] in Hr; try contradiction;
      cbn [step_inv] in Hs.
    - destruct Hs as (E & F & _). split; assumption.
    - destruct Hs as ((E & F & _) & _). split; assumption.
    - cbn [apply_op] in *. split; [apply same_but_centres_refl|apply fixed_kept_refl].
  Qed.

  (* however often the same netlist is relocated (and copied), nothing but centres
     changes and the fixed modules are returned as they were at the very start *)
  Theorem seq_only_centres W H : 0 <= W -> 0 <= H -> forall (ops : list op) (s : netlist),
    Forall is_reloc ops ->
    same_but_centres s (run_ops W H ops s) /\ fixed_kept s (run_ops W H ops s).
  Proof.
    intros HW HH. induction ops as [|o r IH]; intros s Hall.
    - split; [apply same_but_centres_refl|apply fixed_kept_refl].
    - inversion Hall as [|? ? Ho Hr]; subst.
      destruct (reloc_step W H o s HW HH Ho) as [E1 F1].
      destruct (IH (apply_op W H o s) Hr) as [E2 F2].
      change (run_ops W H (o :: r) s) with (run_ops W H r (apply_op W H o s)).
      split; [eapply same_but_centres_trans; eassumption|eapply fixed_kept_trans; eassumption].
  Qed.

  (* ---------------- the die along a history ---------------- *)
  Lemma all_centred_centres W H (s : netlist) : all_centred_in_die W H s -> centres_in_die W H s.
  Proof.
    intros Hall m c Hm Hc. destruct (Hall m Hm) as (c' & Ec & Hd). rewrite Hc in Ec. inversion Ec; subst. exact Hd.
  Qed.

  Lemma layout_all_centred force W H mi (s : netlist) : 0 <= W -> 0 <= H ->
    centres_in_die W H s -> all_centred_in_die W H (fr_layout force W H mi s).
  Proof.
    intros HW HH Hin m' Hm'. eapply fr_all_in_die; eauto.
  Qed.

  Lemma call_all_centred W H (o : op) (s : netlist) : 0 <= W -> 0 <= H -> is_call o ->
    centres_in_die W H s -> all_centred_in_die W H (apply_op W H o s).
  Proof.
    intros HW HH Hc Hin. destruct o as [force mi|force cost ks mi|v c|v a|]; cbn [is_call] in Hc; try contradiction;
      cbn [apply_op]; [|unfold force_algorithm_on]; apply layout_all_centred; assumption.
  Qed.

  Lemma op_keeps_centres_in_die W H (o : op) (s : netlist) : 0 <= W -> 0 <= H -> op_in_die W H o ->
    centres_in_die W H s -> centres_in_die W H (apply_op W H o s).
  Proof.
    intros HW HH Ho Hin. destruct o as [force mi|force cost ks mi|v c|v a|]; cbn [apply_op op_in_die] in *.
    - apply all_centred_centres, layout_all_centred; assumption.
    - unfold force_algorithm_on. apply all_centred_centres, layout_all_centred; assumption.
    - intros m c0 Hm Hc. cbn [modules] in Hm. apply update_nth_In in Hm.
      destruct Hm as [Hm|(m0 & Hm0 & E)]; [eapply Hin; eauto|].
      subst m. cbn [with_centre centre] in Hc. inversion Hc; subst. exact Ho.
    - intros m c0 Hm Hc. cbn [modules] in Hm. apply update_nth_In in Hm.
      destruct Hm as [Hm|(m0 & Hm0 & E)]; [eapply Hin; eauto|].
      subst m. cbn [with_payload centre] in Hc. eapply Hin; eauto.
    - exact Hin.
  Qed.

  Lemma op_keeps_all_centred W H (o : op) (s : netlist) : 0 <= W -> 0 <= H -> op_in_die W H o ->
    all_centred_in_die W H s -> all_centred_in_die W H (apply_op W H o s).
  Proof.
    intros HW HH Ho Hall. destruct o as [force mi|force cost ks mi|v c|v a|]; cbn [apply_op op_in_die] in *.
    - apply layout_all_centred; try assumption. apply all_centred_centres; assumption.
    - unfold force_algorithm_on. apply layout_all_centred; try assumption. apply all_centred_centres; assumption.
    - intros m Hm. cbn [modules] in Hm. apply update_nth_In in Hm.
      destruct Hm as [Hm|(m0 & Hm0 & E)]; [apply Hall; exact Hm|].
      subst m. exists c. split; [reflexivity|exact Ho].
    - intros m Hm. cbn [modules] in Hm. apply update_nth_In in Hm.
      destruct Hm as [Hm|(m0 & Hm0 & E)]; [apply Hall; exact Hm|].
      subst m. cbn [with_payload centre]. apply Hall; exact Hm0.
    - exact Hall.
  Qed.

  (* if the netlist starts with its centres in the die and the callers keep the
     centres they write in the die, the centres are in the die after every history;
     and once a relocation has run every module has a centre *)
  Theorem seq_in_die W H : 0 <= W -> 0 <= H -> forall (ops : list op) (s : netlist),
    Forall (op_in_die W H) ops -> centres_in_die W H s ->
    centres_in_die W H (run_ops W H ops s) /\
    (all_centred_in_die W H s \/ Exists is_call ops -> all_centred_in_die W H (run_ops W H ops s)).
  Proof.
    intros HW HH. induction ops as [|o r IH]; intros s Hops Hin.
    - split; [exact Hin|]. intros [Hall|Hex]; [exact Hall|inversion Hex].
    - inversion Hops as [|? ? Ho Hr]; subst.
      change (run_ops W H (o :: r) s) with (run_ops W H r (apply_op W H o s)).
      pose proof (op_keeps_centres_in_die W H o s HW HH Ho Hin) as Hin'.
      destruct (IH (apply_op W H o s) Hr Hin') as [I1 I2].
      split; [exact I1|]. intros [Hall|Hex].
      + apply I2. left. apply op_keeps_all_centred; assumption.
      + inversion Hex as [? ? Hc|? ? Hc]; subst.
        * apply I2. left. apply call_all_centred; assumption.
        * apply I2. right. exact Hc.
  Qed.
End Facts.
