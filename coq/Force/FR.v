(* Model of tools/force/fruchterman_reingold.py: the logical shell of
   fruchterman_reingold_layout and force_algorithm.  DEFINITIONS ONLY.

   What is concrete (mirrors the code line by line):
     pos[v]   = centre_v - (W,H)/2           (die recentred to the origin; (0,0) when there is no centre)
     t        = max(W,H) * 0.1 ;  dt = t / (max_iter + 1)
     each iteration, for every NON-FIXED v:
        pos[v]   += disp[v] / nrm[v] * min(nrm[v], t)
        pos[v].x  = min(W/2, max(-W/2, pos[v].x)) ;  pos[v].y likewise with H
     t -= dt
     centre_v = pos[v] + (W,H)/2             (every module, after the loop)
     force_algorithm: first strict minimum of the cost over kappa = 0.4 .. 1.5
                      (best_cost = +inf, best_kappa = 0.0 initially), then the layout
                      is recomputed with that kappa on the untouched die.

   What is abstract (Section variables, no contract needed by the invariants):
     the force law - f_att, f_rep, die_repelling, the norms, the sqrt in k - is
     [force kappa i t pos v = (disp_v, nrm_v)]: ANY function of the spring
     constant, the iteration number, the temperature and the current positions.
     In the code nrm_v = max(|disp_v|, 1e-6); that contract ([nrm_floor]) is only
     used by the "capped by the temperature" lemma, not by the invariants.
     [cost] (disc overlap + wire length / 2: sqrt, acos, pi) is any function of
     the laid-out netlist. *)
From FrameModel Require Import Num.QcTac.
Open Scope Qc_scope.

Definition vec : Type := (Qc * Qc)%type.

(* ---- netlists as far as this tool can see them ---- *)
Section Netlist.
  (* [A]: everything a module carries besides its centre and its fixed flag (name,
     areas, rectangles, hard/terminal flags ...);  [B]: the nets.  The layout
     functions below are parametric in both: they can only copy them. *)
  Context {A B : Type}.

  Record module : Type := mkMod { centre : option vec; is_fixed : bool; payload : A }.
  Record netlist : Type := mkNl { modules : list module; nets : B }.

  (* pos = module.center - Point(W, H) / 2   |   Point() *)
  Definition recentre (W H : Qc) (m : module) : vec :=
    match centre m with
    | Some c => (fst c - W * half, snd c - H * half)
    | None => (0, 0)
    end.

  (* min(hi, max(-hi, x)) *)
  Definition clamp (hi x : Qc) : Qc := Qcmin hi (Qcmax (- hi) x).

  (* pos += disp / nrm * min(nrm, t); then the two clamps *)
  Definition move (W H t : Qc) (p d : vec) (n : Qc) : vec :=
    let s := Qcmin n t in
    (clamp (W * half) (fst p + fst d / n * s), clamp (H * half) (snd p + snd d / n * s)).

  (* one pass of "for v in range(num_modules): if not is_fixed: ..." starting at index v.
     [F v] is the accumulated displacement of module v and its floored norm. *)
  Fixpoint step_at (W H t : Qc) (F : nat -> vec * Qc) (v : nat) (fx : list bool) (pos : list vec)
    : list vec :=
    match fx, pos with
    | f :: fx', p :: pos' =>
        (if f then p else move W H t p (fst (F v)) (snd (F v))) :: step_at W H t F (S v) fx' pos'
    | _, _ => pos        (* lengths always agree (both come from the module list) *)
    end.
  Definition step (W H t : Qc) (fx : list bool) (pos : list vec) (F : nat -> vec * Qc) : list vec :=
    step_at W H t F 0 fx pos.

  (* the main loop: [n] iterations left, [i] the iteration number *)
  Fixpoint iterate (force : nat -> Qc -> list vec -> nat -> vec * Qc) (W H dt : Qc) (fx : list bool)
           (n i : nat) (t : Qc) (pos : list vec) : list vec :=
    match n with
    | O => pos
    | S n' => iterate force W H dt fx n' (S i) (t - dt) (step W H t fx pos (force i t pos))
    end.

  Definition t_init (W H : Qc) : Qc := Qcmax W H * qc 1 10.
  Definition dt_of (W H : Qc) (max_iter : nat) : Qc :=
    t_init W H / Q2Qc (inject_Z (Z.of_nat (S max_iter))).
  (* temperature at the start of iteration i (t -= dt, i times) *)
  Fixpoint temp_at (t dt : Qc) (i : nat) : Qc :=
    match i with O => t | S i' => temp_at (t - dt) dt i' end.

  (* module.center = pos[v] + Point(W, H) / 2 : nothing else is assigned *)
  Definition set_centre (W H : Qc) (m : module) (p : vec) : module :=
    mkMod (Some (fst p + W * half, snd p + H * half)) (is_fixed m) (payload m).
  Fixpoint write_back (W H : Qc) (ms : list module) (pos : list vec) : list module :=
    match ms, pos with
    | m :: ms', p :: pos' => set_centre W H m p :: write_back W H ms' pos'
    | _, _ => ms
    end.

  Definition final_pos (force : nat -> Qc -> list vec -> nat -> vec * Qc) (W H : Qc) (max_iter : nat)
             (nl : netlist) : list vec :=
    iterate force W H (dt_of W H max_iter) (map is_fixed (modules nl)) max_iter 0 (t_init W H)
            (map (recentre W H) (modules nl)).

  (* fruchterman_reingold_layout(die, kappa, max_iter) with the force law of that kappa *)
  Definition fr_layout (force : nat -> Qc -> list vec -> nat -> vec * Qc) (W H : Qc) (max_iter : nat)
             (nl : netlist) : netlist :=
    mkNl (write_back W H (modules nl) (final_pos force W H max_iter nl)) (nets nl).

  (* ---- force_algorithm ---- *)
  (* the loop "if cost < best_cost: best_cost, best_kappa = cost, kappa" over (kappa, cost)
     pairs; best_cost = None stands for float("inf") *)
  Fixpoint select (best_cost : option Qc) (best_kappa : Qc) (kcs : list (Qc * Qc)) : Qc :=
    match kcs with
    | [] => best_kappa
    | (k, c) :: r =>
        match best_cost with
        | None => select (Some c) k r
        | Some b => if Qcltb c b then select (Some c) k r else select best_cost best_kappa r
        end
    end.

  (* [i / 10 for i in range(4, 16)] *)
  Definition kappas : list Qc :=
    map (fun i => qc i 10) [4; 5; 6; 7; 8; 9; 10; 11; 12; 13; 14; 15]%Z.

  Section Algorithm.
    Variable force : Qc -> nat -> Qc -> list vec -> nat -> vec * Qc.   (* force law per kappa *)
    Variable cost : netlist -> Qc.                 (* total_intersection_area + wire_length / 2 *)

    Definition trial (W H : Qc) (max_iter : nat) (nl : netlist) (k : Qc) : Qc * Qc :=
      (k, cost (fr_layout (force k) W H max_iter nl)).     (* on deepcopy(die): nl itself untouched *)
    Definition best_kappa (W H : Qc) (max_iter : nat) (nl : netlist) (ks : list Qc) : Qc :=
      select None 0 (map (trial W H max_iter nl) ks).
    Definition force_algorithm_on (ks : list Qc) (W H : Qc) (max_iter : nat) (nl : netlist) : netlist :=
      fr_layout (force (best_kappa W H max_iter nl ks)) W H max_iter nl.
    Definition force_algorithm := force_algorithm_on kappas.
  End Algorithm.
End Netlist.

Arguments module : clear implicits.
Arguments netlist : clear implicits.

(* contract of the norms in the code: nrm_v = max(|disp_v|, 1e-6) *)
Definition nrm_floor (d : vec) (n : Qc) : Prop :=
  qc 1 1000000 <= n /\ Qcabs (fst d) <= n /\ Qcabs (snd d) <= n.

Definition in_box (W H : Qc) (p : vec) : Prop :=
  - (W * half) <= fst p <= W * half /\ - (H * half) <= snd p <= H * half.
Definition in_die (W H : Qc) (c : vec) : Prop :=
  0 <= fst c <= W /\ 0 <= snd c <= H.
