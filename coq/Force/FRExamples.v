(* The hypotheses of the C13 theorems are satisfiable by non-trivial concrete states
   (and what the model computes on one of them). *)
From FrameModel Require Import Num.QcTac Cases.Cmp Force.FR Force.FRFacts Cases.CmpC13.
Open Scope Qc_scope.

(* die 8 x 4; a soft module that starts OUTSIDE the die, a fixed module, a terminal without
   centre; a "force law" that pushes everything towards the lower right, harder at every
   iteration, with norms honouring the floor *)
Definition ex_nl : netlist unit unit :=
  mkNl [mkMod (Some (qc 9 1, qc 1 1)) false tt; mkMod (Some (qc 1 1, qc 1 1)) true tt; mkMod None false tt] tt.
Definition ex_force (i : nat) (t : Qc) (pos : list vec) (v : nat) : vec * Qc :=
  ((qc 3 1 * Q2Qc (inject_Z (Z.of_nat (S i))), - (qc 4 1) * Q2Qc (inject_Z (Z.of_nat (S i)))),
   qc 5 1 * Q2Qc (inject_Z (Z.of_nat (S i)))).

Example ex_dims : 0 <= qc 8 1 /\ 0 <= qc 4 1.
Proof. split; apply Qcleb_true; reflexivity. Qed.

(* fr_fixed / fr_in_die / fr_zero_iter: module 1 is fixed with a centre, modules 0 and 2 are movable *)
Example ex_fixed_hyp :
  nth_error (modules ex_nl) 1 = Some (mkMod (Some (qc 1 1, qc 1 1)) true tt) /\
  is_fixed (mkMod (A:=unit) (Some (qc 1 1, qc 1 1)) true tt) = true.
Proof. split; reflexivity. Qed.
Example ex_movable_hyp :
  nth_error (modules ex_nl) 0 = Some (mkMod (Some (qc 9 1, qc 1 1)) false tt) /\ 2%nat <> O.
Proof. split; [reflexivity|discriminate]. Qed.

(* the norms of ex_force satisfy the code's contract, the die centre is in the box *)
Example ex_nrm_floor : nrm_floor (fst (ex_force 0 0 [] 0)) (snd (ex_force 0 0 [] 0)).
Proof. unfold nrm_floor. splits; apply Qcleb_true; vm_compute; reflexivity. Qed.
Example ex_in_box : in_box (qc 8 1) (qc 4 1) (0, 0).
Proof. unfold in_box; cbn [fst snd]. splits; apply Qcleb_true; vm_compute; reflexivity. Qed.

(* what the model returns after two iterations: the outside module has been pulled into the
   die (x = 8 on the border), the fixed one has not moved, the terminal got a centre *)
Example ex_layout :
  list_eqb (opt_eqb (vclose 0)) (map centre (modules (fr_layout ex_force (qc 8 1) (qc 4 1) 2 ex_nl)))
           [Some (qc 8 1, 0); Some (qc 1 1, qc 1 1); Some (qc 24 5, qc 14 15)] = true.
Proof. vm_compute. reflexivity. Qed.

(* fr_all_in_die: its hypothesis holds of a netlist whose fixed module is in the die *)
Example ex_all_in_die_hyp :
  forall m c, In m (modules ex_nl) -> centre m = Some c -> is_fixed m = true \/ 2%nat = O -> in_die (qc 8 1) (qc 4 1) c.
Proof.
  intros m c [<-|[<-|[<-|[]]]] Hc [Hf|Hn]; try discriminate; cbn in Hc; inversion Hc; subst c.
  unfold in_die; cbn [fst snd]. splits; apply Qcleb_true; vm_compute; reflexivity.
Qed.

(* force_algorithm on a cost that prefers kappa = 0.7 and ties at 0.9: the first minimum wins *)
Example ex_select :
  Qceqb (select None 0 [(qc 4 10, qc 5 1); (qc 7 10, qc 2 1); (qc 9 10, qc 2 1); (qc 15 10, qc 3 1)]) (qc 7 10) = true.
Proof. vm_compute. reflexivity. Qed.
Example ex_kappas_nonempty : kappas <> [].
Proof. discriminate. Qed.
