(* The hypotheses of the C13 theorems are satisfiable by non-trivial concrete states
   (and what the model computes on one of them). *)
From FrameModel Require Import Num.QcTac Cases.Cmp Force.FR Force.FRFacts Force.FRSeq Force.FRSeqFacts Cases.CmpC13.
Open Scope Qc_scope.

(* die 8 x 4; a soft module that starts OUTSIDE the die, a fixed module, a terminal without
   centre; a "force law" that pushes everything towards the lower right, harder at every
   iteration, with norms honouring the floor *)
Definition ex_nl : netlist unit unit :=
  mkNl [mkMod (Some (qc 9 1, qc 1 1)) false tt; mkMod (Some (qc 1 1, qc 1 1)) true tt; mkMod None false tt] tt.
Definition ex_force (i : nat) (t : Qc) (pos : list vec) (v : nat) : vec * Qc :=
  ((qc 3 1 * Q2Qc (inject_Z (Z.of_nat (S i))), - (qc 4 1) * Q2Qc (inject_Z (Z.of_nat (S i)))),
   qc 5 1 * Q2Qc (inject_Z (Z.of_nat (S i)))).

Example ex_dims : 0 <= qc 8 1 /\ 0 <= qc 4 1.
Proof. split; apply Qcleb_true; reflexivity. Qed.

(* fr_fixed / fr_in_die / fr_zero_iter: module 1 is fixed with a centre, modules 0 and 2 are movable *)
Example ex_fixed_hyp :
  nth_error (modules ex_nl) 1 = Some (mkMod (Some (qc 1 1, qc 1 1)) true tt) /\
  is_fixed (mkMod (A:=unit) (Some (qc 1 1, qc 1 1)) true tt) = true.
Proof. split; reflexivity. Qed.
Example ex_movable_hyp :
  nth_error (modules ex_nl) 0 = Some (mkMod (Some (qc 9 1, qc 1 1)) false tt) /\ 2%nat <> O.
Proof. split; [reflexivity|discriminate]. Qed.

(* the norms of ex_force satisfy the code's contract, the die centre is in the box *)
Example ex_nrm_floor : nrm_floor (fst (ex_force 0 0 [] 0)) (snd (ex_force 0 0 [] 0)).
Proof. unfold nrm_floor. splits; apply Qcleb_true; vm_compute; reflexivity. Qed.
Example ex_in_box : in_box (qc 8 1) (qc 4 1) (0, 0).
Proof. unfold in_box; cbn [fst snd]. splits; apply Qcleb_true; vm_compute; reflexivity. Qed.

(* what the model returns after two iterations: the outside module has been pulled into the
   die (x = 8 on the border), the fixed one has not moved, the terminal got a centre *)
Example ex_layout :
  list_eqb (opt_eqb (vclose 0)) (map centre (modules (fr_layout ex_force (qc 8 1) (qc 4 1) 2 ex_nl)))
           [Some (qc 8 1, 0); Some (qc 1 1, qc 1 1); Some (qc 24 5, qc 14 15)] = true.
Proof. vm_compute. reflexivity. Qed.

(* fr_all_in_die: its hypothesis holds of a netlist whose fixed module is in the die *)
Example ex_all_in_die_hyp :
  forall m c, In m (modules ex_nl) -> centre m = Some c -> is_fixed m = true \/ 2%nat = O -> in_die (qc 8 1) (qc 4 1) c.
Proof.
  intros m c [<-|[<-|[<-|[]]]] Hc [Hf|Hn]; try discriminate; cbn in Hc; inversion Hc; subst c.
  unfold in_die; cbn [fst snd]. splits; apply Qcleb_true; vm_compute; reflexivity.
Qed.

(* C13_fr_last_step_corner: a 10 x 10 die, a fixed terminal on the corner (0,0) and a movable one at (1/2, 3/8)
   pulled towards it with a force far above the temperature: the single iteration (t = 1) would carry it to
   about (-0.3, -0.22), past both borders; it comes back exactly on the corner *)
Definition ex_corner_nl : netlist unit unit :=
  mkNl [mkMod (Some (0, 0)) true tt; mkMod (Some (qc 1 2, qc 3 8)) false tt] tt.
Definition ex_corner_force (i : nat) (t : Qc) (pos : list vec) (v : nat) : vec * Qc :=
  ((- qc 40 1, - qc 30 1), qc 50 1).
Example ex_corner_hyp :
  let W := qc 10 1 in let H := qc 10 1 in
  let tl := temp_at (t_init W H) (dt_of W H 1) 0 in
  let p := (qc 1 2 - W * half, qc 3 8 - H * half) in
  nth_error (iterate ex_corner_force W H (dt_of W H 1) [true; false] 0 0 (t_init W H)
               (map (recentre W H) (modules ex_corner_nl))) 1 = Some p /\
  fst p + (- qc 40 1) / qc 50 1 * Qcmin (qc 50 1) tl <= - (W * half) /\
  snd p + (- qc 30 1) / qc 50 1 * Qcmin (qc 50 1) tl <= - (H * half).
Proof. cbv zeta. splits; [reflexivity| |]; apply Qcleb_true; vm_compute; reflexivity. Qed.
Example ex_corner_layout :
  list_eqb (opt_eqb (vclose 0)) (map centre (modules (fr_layout ex_corner_force (qc 10 1) (qc 10 1) 1 ex_corner_nl)))
           [Some (0, 0); Some (0, 0)] = true.
Proof. vm_compute. reflexivity. Qed.

(* force_algorithm on a cost that prefers kappa = 0.7 and ties at 0.9: the first minimum wins *)
Example ex_select :
  Qceqb (select None 0 [(qc 4 10, qc 5 1); (qc 7 10, qc 2 1); (qc 9 10, qc 2 1); (qc 15 10, qc 3 1)]) (qc 7 10) = true.
Proof. vm_compute. reflexivity. Qed.
Example ex_kappas_nonempty : kappas <> [].
Proof. discriminate. Qed.

(* ---- histories (Force/FRSeq.v) ---- *)
(* a netlist with every centre in the 8 x 4 die, payloads that can be told apart *)
Definition ex_nl2 : netlist nat unit :=
  mkNl [mkMod (Some (qc 7 1, qc 1 1)) false 10%nat; mkMod (Some (qc 1 1, qc 1 1)) true 11%nat; mkMod None false 12%nat] tt.
Definition ex_cost (s : netlist nat unit) : Qc :=
  match modules s with {| centre := Some c |} :: _ => fst c | _ => 0 end.
Definition ex_law (k : Qc) : law := fun i t pos v => ((k, - k), qc 2 1).
(* the caller squares module 0, relocates, moves module 0 by hand, relocates twice more (force_algorithm last) *)
Definition ex_ops : list (op nat unit) :=
  [SetPayload 0 20%nat; Layout ex_force 2; SetCentre 0 (qc 2 1, qc 3 1); Copy; Layout ex_force 1;
   Algo ex_law ex_cost [qc 1 1; qc 2 1; qc 1 2] 1].

(* hypotheses of C13_seq_in_die *)
Example ex_ops_in_die : Forall (op_in_die (qc 8 1) (qc 4 1)) ex_ops.
Proof.
  repeat (apply Forall_cons; [try exact I|]); [|apply Forall_nil].
  unfold op_in_die, in_die; cbn [fst snd]. splits; apply Qcleb_true; vm_compute; reflexivity.
Qed.
Example ex_nl2_in_die : centres_in_die (qc 8 1) (qc 4 1) ex_nl2.
Proof.
  intros m c [<-|[<-|[<-|[]]]] Hc; cbn in Hc; inversion Hc; subst c;
    unfold in_die; cbn [fst snd]; splits; apply Qcleb_true; vm_compute; reflexivity.
Qed.
Example ex_ops_has_call : Exists is_call ex_ops.
Proof. right. left. exact I. Qed.
(* hypothesis of C13_seq_only_centres: a history of relocation calls and copies *)
Example ex_reloc_only : Forall is_reloc [Layout ex_force 2; Copy; Algo ex_law ex_cost [qc 1 1; qc 2 1] 1; Layout ex_force 0].
Proof. repeat (apply Forall_cons; [exact I|]). apply Forall_nil. Qed.
(* hypothesis of C13_seq_argmin *)
Example ex_ks_nonempty : [qc 1 1; qc 2 1; qc 1 2] <> [].
Proof. discriminate. Qed.

(* what the model computes along ex_ops: payloads 20, 11, 12 throughout, the fixed module where it was, and
   force_algorithm - whose cost is the x of module 0 - ends with the constant 1/2 that pushes it least to the right *)
Example ex_history :
  let s := run_ops (qc 8 1) (qc 4 1) ex_ops ex_nl2 in
  (map payload (modules s), map is_fixed (modules s), nth_error (map centre (modules s)) 1) =
  ([20; 11; 12]%nat, [false; true; false], Some (Some (qc 1 1, qc 1 1))) /\
  Qceqb (best_kappa ex_law ex_cost (qc 8 1) (qc 4 1) 1
           (run_ops (qc 8 1) (qc 4 1) (firstn 5 ex_ops) ex_nl2) [qc 1 1; qc 2 1; qc 1 2]) (qc 1 2) = true.
Proof. vm_compute. split; reflexivity. Qed.

(* ---- the history comparator (Cases/CmpC13.v): satisfiable, and it refuses a call that ignored the current values ---- *)
Definition ex_cnl : cnl := mkNl (cmods [Some (qc 1 1, qc 1 1)] [false] [[qc 5 1]]) [].
(* a layout of 0 iterations recorded from the centre (1,1) of an 8 x 4 die: final position (-3,-1) *)
Example ex_hist_ok :
  hist_ok (qc 8 1) (qc 4 1) (qc 1 1000) (qc 1 1000) ex_cnl
    [HLayout 0 [] [(- qc 3 1, - qc 1 1)]; HCheck [Some (qc 1 1, qc 1 1)] [false] [[qc 5 1]] [];
     HSetCentre 0 (qc 2 1, qc 2 1); HLayout 0 [] [(- qc 2 1, 0)]; HCheck [Some (qc 2 1, qc 2 1)] [false] [[qc 5 1]] []] = true.
Proof. vm_compute. reflexivity. Qed.
(* the same second call, but its trace starts from the OLD centre (a stale copy of the positions): refused *)
Example ex_hist_stale :
  hist_ok (qc 8 1) (qc 4 1) (qc 1 1000) (qc 1 1000) ex_cnl
    [HLayout 0 [] [(- qc 3 1, - qc 1 1)]; HSetCentre 0 (qc 2 1, qc 2 1); HLayout 0 [] [(- qc 3 1, - qc 1 1)]] = false.
Proof. vm_compute. reflexivity. Qed.
(* a call after which a rectangle (payload) is found changed: refused *)
Example ex_hist_dragged :
  hist_ok (qc 8 1) (qc 4 1) (qc 1 1000) (qc 1 1000) ex_cnl
    [HLayout 0 [] [(- qc 3 1, - qc 1 1)]; HCheck [Some (qc 1 1, qc 1 1)] [false] [[qc 6 1]] []] = false.
Proof. vm_compute. reflexivity. Qed.
