(* Force-directed relocation along a HISTORY.  DEFINITIONS ONLY.

   The code mutates objects: the Die and its Netlist are handed to
   fruchterman_reingold_layout / force_algorithm again and again, other parts of the
   tool chain (Netlist.create_squares, Allocation.initial_allocation, the caller
   editing a centre through the setter or in place on the Point) change the same
   objects in between, dies are deep-copied.  The model stays what it is - a pure
   function of VALUES - and a history is a list of operations folded over the
   netlist value:

     Layout force max_iter         fruchterman_reingold_layout(die, kappa, ..., max_iter)  (the force law of
                                   that kappa on that netlist: ANY function, a different one per call if you like)
     Algo force cost ks max_iter   force_algorithm(die, ..., max_iter) trying the constants ks
     SetCentre v c                 the caller writes the centre of module v:  module.center = Point(..)  or, on
                                   a Point nobody else holds,  module.center.x, module.center.y = ..
     SetPayload v a                the caller rewrites what module v carries besides its centre
                                   (create_squares / Allocation(...) give it a default square; an in-place edit of
                                   a centre that a square shares drags that square along)
     Copy                          deepcopy(die), or a new Die object for the same netlist: a new object graph,
                                   the same values

   "The implementation on a reused / mutated / pre-exercised object behaves like the
   model on the current values" is the correspondence requirement (Cases/CmpC13.v,
   [hist_ok]): a cache that outlives a call, or a write through a shared Point, makes
   the implementation leave this function. *)
From FrameModel Require Import Num.QcTac Force.FR.
Open Scope Qc_scope.

Section Seq.
  Context {A B : Type}.
  Notation module := (module A).
  Notation netlist := (netlist A B).

  (* the force law of one call: iteration, temperature, positions, module -> (disp, floored norm) *)
  Definition law : Type := nat -> Qc -> list vec -> nat -> vec * Qc.

  Inductive op : Type :=
  | Layout (force : law) (max_iter : nat)
  | Algo (force : Qc -> law) (cost : netlist -> Qc) (ks : list Qc) (max_iter : nat)
  | SetCentre (v : nat) (c : vec)
  | SetPayload (v : nat) (a : A)
  | Copy.

  Fixpoint update_nth {X : Type} (f : X -> X) (v : nat) (l : list X) : list X :=
    match l, v with
    | [], _ => []
    | x :: r, O => f x :: r
    | x :: r, S v' => x :: update_nth f v' r
    end.

  Definition with_centre (c : vec) (m : module) : module := mkMod (Some c) (is_fixed m) (payload m).
  Definition with_payload (a : A) (m : module) : module := mkMod (centre m) (is_fixed m) a.

  Definition apply_op (W H : Qc) (o : op) (nl : netlist) : netlist :=
    match o with
    | Layout force mi => fr_layout force W H mi nl
    | Algo force cost ks mi => force_algorithm_on force cost ks W H mi nl
    | SetCentre v c => mkNl (update_nth (with_centre c) v (modules nl)) (nets nl)
    | SetPayload v a => mkNl (update_nth (with_payload a) v (modules nl)) (nets nl)
    | Copy => nl
    end.

  (* the whole history, and the states it goes through (after every operation) *)
  Definition run_ops (W H : Qc) (ops : list op) (nl : netlist) : netlist :=
    fold_left (fun s o => apply_op W H o s) ops nl.
  Fixpoint states (W H : Qc) (ops : list op) (nl : netlist) : list netlist :=
    match ops with
    | [] => []
    | o :: r => apply_op W H o nl :: states W H r (apply_op W H o nl)
    end.

  (* operations of the relocation itself (and copies), as opposed to what callers do in between *)
  Definition is_reloc (o : op) : Prop :=
    match o with Layout _ _ | Algo _ _ _ _ | Copy => True | SetCentre _ _ | SetPayload _ _ => False end.
  Definition is_call (o : op) : Prop :=
    match o with Layout _ _ | Algo _ _ _ _ => True | _ => False end.

  (* ---- what one call promises, between the value it starts from and the value it leaves ---- *)
  Definition same_but_centres (s s' : netlist) : Prop :=
    map payload (modules s') = map payload (modules s) /\
    map is_fixed (modules s') = map is_fixed (modules s) /\
    length (modules s') = length (modules s) /\
    nets s' = nets s.
  Definition fixed_kept (s s' : netlist) : Prop :=
    forall v m c, nth_error (modules s) v = Some m -> is_fixed m = true -> centre m = Some c ->
                  nth_error (modules s') v = Some m.
  Definition movable_in_die (W H : Qc) (s s' : netlist) : Prop :=
    forall v m, nth_error (modules s) v = Some m -> is_fixed m = false ->
                exists c, nth_error (modules s') v = Some (mkMod (Some c) false (payload m)) /\ in_die W H c.
  Definition reloc_inv (W H : Qc) (max_iter : nat) (s s' : netlist) : Prop :=
    same_but_centres s s' /\ fixed_kept s s' /\ (max_iter <> O -> movable_in_die W H s s').
  (* the layout left by force_algorithm is the layout of the first constant attaining the
     smallest cost, the costs being those of the layouts computed FROM s *)
  Definition argmin_from (W H : Qc) (force : Qc -> law) (cost : netlist -> Qc) (ks : list Qc) (max_iter : nat)
             (s s' : netlist) : Prop :=
    let kb := best_kappa force cost W H max_iter s ks in
    let c k := cost (fr_layout (force k) W H max_iter s) in
    s' = fr_layout (force kb) W H max_iter s /\
    exists l1 l2, ks = l1 ++ kb :: l2 /\
      (forall k, In k l1 -> c kb < c k) /\ (forall k, In k l2 -> c kb <= c k).

  Definition centres_of (s : netlist) : list (option vec) := map centre (modules s).
  Definition payloads_of (s : netlist) : list A := map payload (modules s).

  Definition step_inv (W H : Qc) (o : op) (s s' : netlist) : Prop :=
    match o with
    | Layout _ mi => reloc_inv W H mi s s'
    | Algo force cost ks mi => reloc_inv W H mi s s' /\ (ks <> [] -> argmin_from W H force cost ks mi s s')
    | SetCentre _ _ => same_but_centres s s'
    | SetPayload _ _ => centres_of s' = centres_of s /\ map is_fixed (modules s') = map is_fixed (modules s) /\
                        nets s' = nets s
    | Copy => s' = s
    end.

  (* every operation of the history, taken from the state the history has reached *)
  Fixpoint hist_inv (W H : Qc) (ops : list op) (s : netlist) : Prop :=
    match ops with
    | [] => True
    | o :: r => step_inv W H o s (apply_op W H o s) /\ hist_inv W H r (apply_op W H o s)
    end.

  (* ---- the die along a history ---- *)
  Definition centres_in_die (W H : Qc) (s : netlist) : Prop :=
    forall m c, In m (modules s) -> centre m = Some c -> in_die W H c.
  Definition all_centred_in_die (W H : Qc) (s : netlist) : Prop :=
    forall m, In m (modules s) -> exists c, centre m = Some c /\ in_die W H c.
  (* the callers keep the centres they write inside the die *)
  Definition op_in_die (W H : Qc) (o : op) : Prop :=
    match o with SetCentre _ c => in_die W H c | _ => True end.
End Seq.

Arguments op : clear implicits.
