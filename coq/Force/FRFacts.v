(* Facts about the force-directed relocation model (Force/FR.v), for an ARBITRARY
   force law: every lemma below quantifies over [force] (resp. the per-iteration
   displacement table [F]) without any hypothesis on it. *)
From FrameModel Require Import Num.QcTac Force.FR.
Open Scope Qc_scope.

Section Facts.
  Context {A B : Type}.
  Notation module := (module A).
  Notation netlist := (netlist A B).
  Implicit Types (force : nat -> Qc -> list vec -> nat -> vec * Qc) (fx : list bool) (pos : list vec).

  (* ---------------- one pass over the modules ---------------- *)
  Lemma step_at_length W H t F v fx pos : length (step_at W H t F v fx pos) = length pos.
  Proof.
    revert v pos. induction fx as [|f fx IH]; intros v [|p pos]; cbn [step_at length]; auto.
  Qed.

  Lemma step_at_nth W H t F fx : forall v pos i,
    nth_error (step_at W H t F v fx pos) i =
    match nth_error pos i with
    | None => None
    | Some p => match nth_error fx i with
                | Some false => Some (move W H t p (fst (F (v + i)%nat)) (snd (F (v + i)%nat)))
                | _ => Some p
                end
    end.
  Proof.
    induction fx as [|f fx IH]; intros v pos i.
    - destruct pos as [|p pos]; cbn [step_at].
      + destruct i; reflexivity.
      + destruct (nth_error (p :: pos) i); destruct i; reflexivity.
    - destruct pos as [|p pos]; cbn [step_at].
      + destruct i; reflexivity.
      + destruct i as [|i]; cbn [nth_error].
        * rewrite Nat.add_0_r. destruct f; reflexivity.
        * rewrite IH. replace (S v + i)%nat with (v + S i)%nat by lia. reflexivity.
  Qed.

  Lemma step_length W H t fx pos F : length (step W H t fx pos F) = length pos.
  Proof. apply step_at_length. Qed.

  Lemma step_fixed W H t fx pos F v :
    nth_error fx v = Some true -> nth_error (step W H t fx pos F) v = nth_error pos v.
  Proof.
    intros Hf. unfold step. rewrite step_at_nth, Hf. destruct (nth_error pos v); reflexivity.
  Qed.

  Lemma step_movable W H t fx pos F v p :
    nth_error fx v = Some false -> nth_error pos v = Some p ->
    nth_error (step W H t fx pos F) v = Some (move W H t p (fst (F v)) (snd (F v))).
  Proof. intros Hf Hp. unfold step. rewrite step_at_nth, Hf, Hp. reflexivity. Qed.

  (* ---------------- the clamp ---------------- *)
  Lemma clamp_range hi x : 0 <= hi -> - hi <= clamp hi x <= hi.
  Proof. intros Hhi. unfold clamp. split; qmlra. Qed.

  Lemma clamp_id hi x : - hi <= x <= hi -> clamp hi x = x.
  Proof. intros [H1 H2]. unfold clamp. qmlra. Qed.

  Lemma move_in_box W H t p d n : 0 <= W -> 0 <= H -> in_box W H (move W H t p d n).
  Proof.
    intros HW HH. unfold in_box, move; cbn [fst snd].
    split; apply clamp_range; qlra.
  Qed.

  (* displacement capped by the temperature (uses the norm contract of the code) *)
  Lemma scaled_disp_capped (dx n t : Qc) :
    0 <= t -> 0 < n -> Qcabs dx <= n -> Qcabs (dx / n * Qcmin n t) <= t.
  Proof.
    intros Ht Hn Hd.
    assert (E : dx / n * n = dx) by (field; intro E0; rewrite E0 in Hn; qlra).
    revert E. generalize (dx / n). intros u E. subst dx.
    assert (Hu : - (1) <= u <= 1).
    { split.
      - qc_norm. qmm_split; nra.
      - qc_norm. qmm_split; nra. }
    destruct Hu as [Hu1 Hu2]. clear Hd.
    destruct (Qcmin_spec n t) as [[Hm Em]|[Hm Em]]; rewrite Em; clear Em.
    - destruct (Qcabs_spec (u * n)) as [[Ha Ea]|[Ha Ea]]; rewrite Ea; clear Ea; qnra.
    - destruct (Qcabs_spec (u * t)) as [[Ha Ea]|[Ha Ea]]; rewrite Ea; clear Ea; qnra.
  Qed.

  Lemma clamp_toward hi x e : - hi <= x <= hi -> Qcabs (clamp hi (x + e) - x) <= Qcabs e.
  Proof. intros [H1 H2]. unfold clamp. qmlra. Qed.

  Lemma move_capped W H t p d n :
    0 <= t -> nrm_floor d n -> in_box W H p ->
    Qcabs (fst (move W H t p d n) - fst p) <= t /\ Qcabs (snd (move W H t p d n) - snd p) <= t.
  Proof.
    intros Ht (Hn & Hx & Hy) [Bx By].
    assert (Hn0 : 0 < n) by (unfold qc in Hn; qc_norm; lra).
    unfold move; cbn [fst snd]. split.
    - eapply Qcle_trans; [apply clamp_toward; exact Bx|]. apply scaled_disp_capped; assumption.
    - eapply Qcle_trans; [apply clamp_toward; exact By|]. apply scaled_disp_capped; assumption.
  Qed.

  (* ---------------- leaving through a border / a corner ---------------- *)
  (* the two clamps are INDEPENDENT: what happens to x does not depend on whether y had
     to be clamped in the same step, and vice versa *)
  Lemma clamp_low hi x : 0 <= hi -> x <= - hi -> clamp hi x = - hi.
  Proof. intros Hhi Hx. unfold clamp. qmlra. Qed.

  Lemma clamp_high hi x : 0 <= hi -> hi <= x -> clamp hi x = hi.
  Proof. intros Hhi Hx. unfold clamp. qmlra. Qed.

  Lemma move_axes W H t p d n : 0 <= W -> 0 <= H ->
    let qx := fst p + fst d / n * Qcmin n t in
    let qy := snd p + snd d / n * Qcmin n t in
    let r := move W H t p d n in
    (qx <= - (W * half) -> fst r = - (W * half)) /\ (W * half <= qx -> fst r = W * half) /\
    (- (W * half) <= qx <= W * half -> fst r = qx) /\
    (qy <= - (H * half) -> snd r = - (H * half)) /\ (H * half <= qy -> snd r = H * half) /\
    (- (H * half) <= qy <= H * half -> snd r = qy).
  Proof.
    intros HW HH qx qy r. subst r. unfold move; cbn [fst snd]. fold qx qy.
    assert (0 <= W * half) by qlra. assert (0 <= H * half) by qlra.
    splits; intros Hq; first [apply clamp_low|apply clamp_high|apply clamp_id]; assumption.
  Qed.

  (* a step that would carry the module past BOTH borders of a corner (east? north?)
     ends exactly on that corner *)
  Lemma move_corner W H t p d n (east north : bool) : 0 <= W -> 0 <= H ->
    let qx := fst p + fst d / n * Qcmin n t in
    let qy := snd p + snd d / n * Qcmin n t in
    (if east then W * half <= qx else qx <= - (W * half)) ->
    (if north then H * half <= qy else qy <= - (H * half)) ->
    move W H t p d n = (if east then W * half else - (W * half), if north then H * half else - (H * half)).
  Proof.
    intros HW HH qx qy Hx Hy.
    destruct (move_axes W H t p d n HW HH) as (X1 & X2 & _ & Y1 & Y2 & _). fold qx qy in X1, X2, Y1, Y2.
    rewrite (surjective_pairing (move W H t p d n)).
    destruct east, north; f_equal; auto.
  Qed.

  (* ---------------- the loop ---------------- *)
  Lemma iterate_length force W H dt fx : forall n i t pos,
    length (iterate force W H dt fx n i t pos) = length pos.
  Proof.
    induction n as [|n IH]; intros i t pos; cbn [iterate]; auto.
    rewrite IH. apply step_length.
  Qed.

  (* the position of a fixed module is never assigned *)
  Lemma iterate_fixed force W H dt fx v : nth_error fx v = Some true ->
    forall n i t pos, nth_error (iterate force W H dt fx n i t pos) v = nth_error pos v.
  Proof.
    intros Hf. induction n as [|n IH]; intros i t pos; cbn [iterate]; auto.
    rewrite IH. apply step_fixed; exact Hf.
  Qed.

  (* loop invariant: after at least one iteration (or from a position already in
     the box) a movable module is in the centred box, whatever the forces were *)
  Lemma iterate_in_box force W H dt fx v : 0 <= W -> 0 <= H -> nth_error fx v = Some false ->
    forall n i t pos p, nth_error pos v = Some p -> (n <> O \/ in_box W H p) ->
    exists q, nth_error (iterate force W H dt fx n i t pos) v = Some q /\ in_box W H q.
  Proof.
    intros HW HH Hf. induction n as [|n IH]; intros i t pos p Hp Hor; cbn [iterate].
    - exists p. split; [exact Hp|]. destruct Hor as [Hn|Hb]; [congruence|exact Hb].
    - eapply IH.
      + apply step_movable; eassumption.
      + right. apply move_in_box; assumption.
  Qed.

  (* ---------------- write-back ---------------- *)
  Lemma write_back_nth W H : forall (ms : list module) pos v, length pos = length ms ->
    nth_error (write_back W H ms pos) v =
    match nth_error ms v, nth_error pos v with
    | Some m, Some p => Some (set_centre W H m p)
    | _, _ => None
    end.
  Proof.
    induction ms as [|m ms IH]; intros [|p pos] v Hl; cbn [length] in Hl; try discriminate.
    - destruct v; reflexivity.
    - cbn [write_back]. destruct v as [|v]; cbn [nth_error]; [reflexivity|]. apply IH. lia.
  Qed.

  Lemma write_back_payload W H : forall (ms : list module) pos,
    map payload (write_back W H ms pos) = map payload ms /\
    map is_fixed (write_back W H ms pos) = map is_fixed ms /\
    length (write_back W H ms pos) = length ms.
  Proof.
    induction ms as [|m ms IH]; intros [|p pos]; cbn [write_back map length]; auto.
    destruct (IH pos) as (E1 & E2 & E3). cbn [set_centre payload is_fixed]. rewrite E1, E2, E3. auto.
  Qed.

  Lemma final_pos_length force W H max_iter (nl : netlist) :
    length (final_pos force W H max_iter nl) = length (modules nl).
  Proof. unfold final_pos. rewrite iterate_length, map_length. reflexivity. Qed.

  Lemma nth_error_map' {X Y} (f : X -> Y) l v : nth_error (map f l) v = option_map f (nth_error l v).
  Proof. revert v; induction l as [|x l IH]; intros [|v]; cbn; auto. Qed.

  (* ---------------- the layout ---------------- *)
  (* fixed modules: position never assigned, centre = (c - D/2) + D/2 = c *)
  Theorem fr_fixed force W H max_iter (nl : netlist) v m c :
    nth_error (modules nl) v = Some m -> is_fixed m = true -> centre m = Some c ->
    nth_error (final_pos force W H max_iter nl) v = Some (fst c - W * half, snd c - H * half) /\
    nth_error (modules (fr_layout force W H max_iter nl)) v = Some m.
  Proof.
    intros Hm Hf Hc.
    assert (Hp : nth_error (final_pos force W H max_iter nl) v = Some (fst c - W * half, snd c - H * half)).
    { unfold final_pos. rewrite iterate_fixed.
      - rewrite nth_error_map', Hm. cbn [option_map]. unfold recentre. rewrite Hc. reflexivity.
      - rewrite nth_error_map', Hm. cbn [option_map]. rewrite Hf. reflexivity. }
    split; [exact Hp|].
    unfold fr_layout; cbn [modules]. rewrite write_back_nth by apply final_pos_length.
    rewrite Hm, Hp. f_equal. destruct m as [c0 f0 a0]; cbn [centre is_fixed payload] in *. subst.
    unfold set_centre; cbn [centre is_fixed payload fst snd].
    replace (fst c - W * half + W * half) with (fst c) by ring.
    replace (snd c - H * half + H * half) with (snd c) by ring.
    destruct c; reflexivity.
  Qed.

  (* movable modules: in the die after at least one iteration *)
  Theorem fr_in_die force W H max_iter (nl : netlist) v m :
    0 <= W -> 0 <= H -> max_iter <> O ->
    nth_error (modules nl) v = Some m -> is_fixed m = false ->
    exists c, nth_error (modules (fr_layout force W H max_iter nl)) v = Some (mkMod (Some c) false (payload m))
              /\ in_die W H c.
  Proof.
    intros HW HH Hn Hm Hf.
    destruct (iterate_in_box force W H (dt_of W H max_iter) (map is_fixed (modules nl)) v HW HH
                (ltac:(rewrite nth_error_map', Hm; cbn; rewrite Hf; reflexivity))
                max_iter 0%nat (t_init W H) (map (recentre W H) (modules nl)) (recentre W H m)
                (ltac:(rewrite nth_error_map', Hm; reflexivity)) (or_introl Hn)) as (q & Hq & [Bx By]).
    exists (fst q + W * half, snd q + H * half). split.
    - unfold fr_layout; cbn [modules]. rewrite write_back_nth by apply final_pos_length.
      rewrite Hm. unfold final_pos. rewrite Hq. unfold set_centre. rewrite Hf. reflexivity.
    - unfold in_die; cbn [fst snd]. destruct Bx, By. splits; qlra.
  Qed.

  (* the last iteration: iterate (S n) = n iterations, then one step at the temperature reached *)
  Lemma iterate_last force W H dt fx : forall n i t pos,
    iterate force W H dt fx (S n) i t pos =
    step W H (temp_at t dt n) fx (iterate force W H dt fx n i t pos)
         (force (i + n)%nat (temp_at t dt n) (iterate force W H dt fx n i t pos)).
  Proof.
    induction n as [|n IH]; intros i t pos.
    - cbn [iterate temp_at]. rewrite Nat.add_0_r. reflexivity.
    - change (iterate force W H dt fx (S (S n)) i t pos)
        with (iterate force W H dt fx (S n) (S i) (t - dt) (step W H t fx pos (force i t pos))).
      rewrite IH. cbn [iterate temp_at]. replace (S i + n)%nat with (i + S n)%nat by lia. reflexivity.
  Qed.

  (* a movable module that the LAST iteration would carry out of the die through a corner
     (past both borders in the same step) is returned with its centre exactly on that corner *)
  Theorem fr_last_step_corner force W H k (nl : netlist) v m p (east north : bool) :
    0 <= W -> 0 <= H ->
    nth_error (modules nl) v = Some m -> is_fixed m = false ->
    let fx := map is_fixed (modules nl) in
    let tl := temp_at (t_init W H) (dt_of W H (S k)) k in
    let pos := iterate force W H (dt_of W H (S k)) fx k 0 (t_init W H) (map (recentre W H) (modules nl)) in
    let d := fst (force k tl pos v) in
    let n := snd (force k tl pos v) in
    nth_error pos v = Some p ->
    (if east then W * half <= fst p + fst d / n * Qcmin n tl else fst p + fst d / n * Qcmin n tl <= - (W * half)) ->
    (if north then H * half <= snd p + snd d / n * Qcmin n tl else snd p + snd d / n * Qcmin n tl <= - (H * half)) ->
    nth_error (modules (fr_layout force W H (S k) nl)) v =
    Some (mkMod (Some (if east then W else 0, if north then H else 0)) false (payload m)).
  Proof.
    intros HW HH Hm Hf fx tl pos d n Hp Hx Hy.
    assert (Hfx : nth_error fx v = Some false).
    { unfold fx. rewrite nth_error_map', Hm. cbn [option_map]. rewrite Hf. reflexivity. }
    assert (Hq : nth_error (final_pos force W H (S k) nl) v =
                 Some (if east then W * half else - (W * half), if north then H * half else - (H * half))).
    { unfold final_pos. rewrite iterate_last. fold fx. fold pos. fold tl. cbn [Nat.add].
      rewrite (step_movable W H tl fx pos _ v p Hfx Hp). f_equal.
      apply move_corner; assumption. }
    unfold fr_layout; cbn [modules]. rewrite write_back_nth by apply final_pos_length.
    rewrite Hm, Hq. unfold set_centre. rewrite Hf. cbn [fst snd]. f_equal. f_equal. f_equal.
    destruct east, north; f_equal; unfold half; qc_norm; try ring; lra.
  Qed.

  (* zero iterations: every centre is returned as it was (modules without a
     centre are placed at the die centre) *)
  Theorem fr_zero_iter force W H (nl : netlist) v m :
    nth_error (modules nl) v = Some m ->
    nth_error (modules (fr_layout force W H 0 nl)) v =
    Some (mkMod (Some match centre m with Some c => c | None => (W * half, H * half) end)
                (is_fixed m) (payload m)).
  Proof.
    intros Hm. unfold fr_layout; cbn [modules]. rewrite write_back_nth by apply final_pos_length.
    rewrite Hm. unfold final_pos; cbn [iterate]. rewrite nth_error_map', Hm; cbn [option_map].
    unfold set_centre, recentre.
    destruct (centre m) as [[x y]|]; cbn [fst snd].
    - replace (x - W * half + W * half) with x by ring.
      replace (y - H * half + H * half) with y by ring. reflexivity.
    - replace (0 + W * half) with (W * half) by ring.
      replace (0 + H * half) with (H * half) by ring. reflexivity.
  Qed.

  (* every centre in the die, with the hypotheses that are really needed:
     fixed modules must have been placed in the die (they are never moved), and
     with zero iterations so must everything else *)
  Theorem fr_all_in_die force W H max_iter (nl : netlist) :
    0 <= W -> 0 <= H ->
    (forall m c, In m (modules nl) -> centre m = Some c -> is_fixed m = true \/ max_iter = O -> in_die W H c) ->
    forall m', In m' (modules (fr_layout force W H max_iter nl)) ->
    exists c, centre m' = Some c /\ in_die W H c.
  Proof.
    intros HW HH Hin m' Hm'.
    apply In_nth_error in Hm'. destruct Hm' as [v Hv].
    assert (Hlen : (v < length (modules nl))%nat).
    { assert (Hs : nth_error (modules (fr_layout force W H max_iter nl)) v <> None) by congruence.
      apply nth_error_Some in Hs. unfold fr_layout in Hs; cbn [modules] in Hs.
      destruct (write_back_payload W H (modules nl) (final_pos force W H max_iter nl)) as (_ & _ & E).
      rewrite E in Hs. exact Hs. }
    destruct (nth_error (modules nl) v) as [m|] eqn:Hm; [|apply nth_error_None in Hm; lia].
    assert (HIn : In m (modules nl)) by (eapply nth_error_In; eassumption).
    assert (Hcentre : in_die W H (W * half, H * half)).
    { unfold in_die; cbn [fst snd]. splits; qlra. }
    destruct (Nat.eq_dec max_iter 0) as [E0|Hn0].
    - subst max_iter. rewrite (fr_zero_iter force W H nl v m Hm) in Hv. inversion Hv; subst m'; clear Hv.
      cbn [centre]. eexists; split; [reflexivity|].
      destruct (centre m) as [c|] eqn:Ec; [|exact Hcentre].
      eapply Hin; eauto.
    - destruct (is_fixed m) eqn:Hf.
      + destruct (centre m) as [c|] eqn:Ec.
        * destruct (fr_fixed force W H max_iter nl v m c Hm Hf Ec) as [_ E]. rewrite E in Hv.
          inversion Hv; subst m'. exists c. split; [exact Ec|]. eapply Hin; eauto.
        * (* a fixed module without a centre sits at the die centre *)
          unfold fr_layout in Hv; cbn [modules] in Hv.
          rewrite write_back_nth in Hv by apply final_pos_length. rewrite Hm in Hv.
          unfold final_pos in Hv. rewrite iterate_fixed in Hv
            by (rewrite nth_error_map', Hm; cbn; rewrite Hf; reflexivity).
          rewrite nth_error_map', Hm in Hv; cbn [option_map] in Hv. inversion Hv; subst m'.
          unfold set_centre, recentre; rewrite Ec; cbn [centre fst snd].
          eexists; split; [reflexivity|]. unfold in_die; cbn [fst snd]. splits; qlra.
      + destruct (fr_in_die force W H max_iter nl v m HW HH Hn0 Hm Hf) as (c & E & Hc).
        rewrite E in Hv. inversion Hv; subst m'. exists c. split; [reflexivity|exact Hc].
  Qed.

  (* nothing but centres: same modules (payloads: names, areas, rectangles, flags),
     same fixed flags, same number of modules, same nets *)
  Theorem fr_only_centres force W H max_iter (nl : netlist) :
    map payload (modules (fr_layout force W H max_iter nl)) = map payload (modules nl) /\
    map is_fixed (modules (fr_layout force W H max_iter nl)) = map is_fixed (modules nl) /\
    length (modules (fr_layout force W H max_iter nl)) = length (modules nl) /\
    nets (fr_layout force W H max_iter nl) = nets nl.
  Proof.
    unfold fr_layout; cbn [modules nets].
    destruct (write_back_payload W H (modules nl) (final_pos force W H max_iter nl)) as (E1 & E2 & E3).
    auto.
  Qed.

  (* along the run: the state after ANY number k >= 1 of iterations has every movable
     module in the centred box (this is [iterate] with fuel k, any temperature schedule) *)
  Theorem fr_loop_invariant force W H dt fx k i t pos v p :
    0 <= W -> 0 <= H -> k <> O -> nth_error fx v = Some false -> nth_error pos v = Some p ->
    exists q, nth_error (iterate force W H dt fx k i t pos) v = Some q /\ in_box W H q.
  Proof. intros HW HH Hk Hf Hp. eapply iterate_in_box; eauto. Qed.

  (* ---------------- force_algorithm ---------------- *)
  Lemma select_spec : forall kcs b bk,
    (select (Some b) bk kcs = bk /\ forall k c, In (k, c) kcs -> b <= c) \/
    (exists l1 c l2, kcs = l1 ++ (select (Some b) bk kcs, c) :: l2 /\ c < b /\
        (forall k' c', In (k', c') l1 -> c < c') /\ (forall k' c', In (k', c') l2 -> c <= c')).
  Proof.
    induction kcs as [|[k c] r IH]; intros b bk; cbn [select].
    - left. split; [reflexivity|]. intros ? ? [].
    - destruct (Qcltb c b) eqn:E; qb2p.
      + right. destruct (IH c k) as [[Er Hall]|(l1 & c2 & l2 & Er & Hlt & H1 & H2)].
        * exists [], c, r. rewrite Er. cbn [app]. splits; auto. intros ? ? [].
        * exists ((k, c) :: l1), c2, l2. splits.
          -- cbn [app]. f_equal. exact Er.
          -- eapply Qclt_trans; eassumption.
          -- intros k' c' [Ei|Hi]; [inversion Ei; subst; exact Hlt|eapply H1; eauto].
          -- exact H2.
      + destruct (IH b bk) as [[Er Hall]|(l1 & c2 & l2 & Er & Hlt & H1 & H2)].
        * left. split; [exact Er|]. intros k' c' [Ei|Hi]; [inversion Ei; subst; exact E|eapply Hall; eauto].
        * right. exists ((k, c) :: l1), c2, l2. splits; auto.
          -- cbn [app]. f_equal. exact Er.
          -- intros k' c' [Ei|Hi]; [inversion Ei; subst|eapply H1; eauto].
             eapply Qclt_le_trans; eassumption.
  Qed.

  Lemma select_first_min : forall kcs bk, kcs <> [] ->
    exists l1 c l2, kcs = l1 ++ (select None bk kcs, c) :: l2 /\
        (forall k' c', In (k', c') l1 -> c < c') /\ (forall k' c', In (k', c') l2 -> c <= c').
  Proof.
    intros [|[k c] r] bk Hne; [congruence|]. cbn [select].
    destruct (select_spec r c k) as [[Er Hall]|(l1 & c2 & l2 & Er & Hlt & H1 & H2)].
    - exists [], c, r. rewrite Er. splits; auto. intros ? ? [].
    - exists ((k, c) :: l1), c2, l2. splits; auto.
      + cbn [app]. f_equal. exact Er.
      + intros k' c' [Ei|Hi]; [inversion Ei; subst; exact Hlt|eapply H1; eauto].
  Qed.

  Section Algo.
    Variable force : Qc -> nat -> Qc -> list vec -> nat -> vec * Qc.
    Variable cost : netlist -> Qc.

    (* the layout returned is the layout of the FIRST spring constant that attains
       the minimal cost: strictly cheaper than every constant tried before it, at
       least as cheap as every constant tried after it *)
    Theorem fa_argmin_on ks W H max_iter (nl : netlist) : ks <> [] ->
      let kb := best_kappa force cost W H max_iter nl ks in
      let c k := cost (fr_layout (force k) W H max_iter nl) in
      force_algorithm_on force cost ks W H max_iter nl = fr_layout (force kb) W H max_iter nl /\
      exists l1 l2, ks = l1 ++ kb :: l2 /\
        (forall k, In k l1 -> c kb < c k) /\ (forall k, In k l2 -> c kb <= c k).
    Proof.
      intros Hne kb c. split; [reflexivity|].
      assert (Hne' : map (trial force cost W H max_iter nl) ks <> []) by (destruct ks; [congruence|discriminate]).
      destruct (select_first_min _ 0 Hne') as (l1 & c0 & l2 & E & H1 & H2).
      fold (best_kappa force cost W H max_iter nl ks) in E. fold kb in E.
      apply map_eq_app in E. destruct E as (k1 & k2' & Eks & E1 & E2).
      apply map_eq_cons in E2. destruct E2 as (k0 & k2 & Ek2 & E0 & E2). subst k2'.
      unfold trial in E0. inversion E0; subst k0. clear E0.
      assert (Ec : c0 = c kb) by (symmetry; assumption). rewrite Ec in H1, H2.
      exists k1, k2. split; [exact Eks|]. split.
      - intros k Hk. apply (H1 k (c k)). rewrite <- E1. apply in_map_iff. exists k. split; auto.
      - intros k Hk. apply (H2 k (c k)). rewrite <- E2. apply in_map_iff. exists k. split; auto.
    Qed.

    Theorem fa_argmin W H max_iter (nl : netlist) :
      let kb := best_kappa force cost W H max_iter nl kappas in
      let c k := cost (fr_layout (force k) W H max_iter nl) in
      force_algorithm force cost W H max_iter nl = fr_layout (force kb) W H max_iter nl /\
      In kb kappas /\ (forall k, In k kappas -> c kb <= c k) /\
      exists l1 l2, kappas = l1 ++ kb :: l2 /\ (forall k, In k l1 -> c kb < c k).
    Proof.
      intros kb c.
      destruct (fa_argmin_on kappas W H max_iter nl ltac:(discriminate)) as (E & l1 & l2 & Ek & H1 & H2).
      fold kb in Ek, H1, H2. fold c in H1, H2.
      split; [exact E|]. split; [rewrite Ek; apply in_or_app; right; left; reflexivity|]. split.
      - intros k Hk. rewrite Ek in Hk. apply in_app_or in Hk. destruct Hk as [Hk|[Hk|Hk]].
        + apply Qclt_le_weak. apply H1; exact Hk.
        + subst k. apply Qcle_refl.
        + apply H2; exact Hk.
      - exists l1, l2. split; [exact Ek|exact H1].
    Qed.
  End Algo.
End Facts.
