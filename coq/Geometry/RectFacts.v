(* Facts about the Rectangle model (property C18 and foundation of the
   other geometric properties). *)
From FrameModel Require Import Num.QcTac Geometry.Rect.
Open Scope Qc_scope.

Ltac runfold :=
  unfold Pt, IntPt, wf, area, xmin, xmax, ymin, ymax in *; cbn [cx cy rw rh fixed hard region rloc with_geom duplicate] in *.

(* ---------------- overlap area ---------------- *)
Lemma ov_sym r s : area_overlap r s = area_overlap s r.
Proof.
  unfold area_overlap.
  rewrite (Qcmax_comm (xmin r)), (Qcmin_comm (xmax r)), (Qcmax_comm (ymin r)), (Qcmin_comm (ymax r)). reflexivity.
Qed.

Lemma ov_nonneg r s : 0 <= area_overlap r s.
Proof.
  unfold area_overlap.
  destruct (Qcleb _ _) eqn:E1; [qlra|].
  destruct (Qcleb (Qcmin (ymax r) _) _) eqn:E2; [qlra|]. qb2p. qnra.
Qed.

(* the common box of two rectangles, in coordinates *)
Definition bx0 r s := Qcmax (xmin r) (xmin s).
Definition bx1 r s := Qcmin (xmax r) (xmax s).
Definition by0 r s := Qcmax (ymin r) (ymin s).
Definition by1 r s := Qcmin (ymax r) (ymax s).

Lemma box_pts r s px py :
  (bx0 r s <= px /\ px <= bx1 r s /\ by0 r s <= py /\ py <= by1 r s) <-> (Pt r px py /\ Pt s px py).
Proof.
  unfold bx0, bx1, by0, by1, Pt.
  generalize (xmin r) (xmin s) (xmax r) (xmax s) (ymin r) (ymin s) (ymax r) (ymax s).
  intros a b c d e f g i. split; intros; repeat split; qmlra.
Qed.

Lemma ov_pos_iff r s :
  0 < area_overlap r s <-> (bx0 r s < bx1 r s /\ by0 r s < by1 r s).
Proof.
  unfold area_overlap. fold (bx0 r s) (bx1 r s) (by0 r s) (by1 r s).
  destruct (Qcleb (bx1 r s) (bx0 r s)) eqn:E1; qb2p.
  - split; [intro H; exfalso; qlra | intros [H _]; exfalso; qlra].
  - destruct (Qcleb (by1 r s) (by0 r s)) eqn:E2; qb2p.
    + split; [intro H; exfalso; qlra | intros [_ H]; exfalso; qlra].
    + split; [auto | intros _; qnra].
Qed.

Lemma ov_pos_area r s :
  0 < area_overlap r s -> area_overlap r s = (bx1 r s - bx0 r s) * (by1 r s - by0 r s).
Proof.
  intro H. pose proof (proj1 (ov_pos_iff r s) H) as [Hx Hy].
  unfold area_overlap. fold (bx0 r s) (bx1 r s) (by0 r s) (by1 r s).
  destruct (Qcleb (bx1 r s) (bx0 r s)) eqn:E1; qb2p; [exfalso; qlra|].
  destruct (Qcleb (by1 r s) (by0 r s)) eqn:E2; qb2p; [exfalso; qlra|]. reflexivity.
Qed.

Lemma ov_zero_iff r s :
  area_overlap r s = 0 <-> (bx1 r s <= bx0 r s \/ by1 r s <= by0 r s).
Proof.
  pose proof (ov_pos_iff r s) as P. pose proof (ov_nonneg r s) as N.
  split.
  - intro H.
    destruct (Qcleb (bx1 r s) (bx0 r s)) eqn:E1; qb2p; [left; exact E1|].
    destruct (Qcleb (by1 r s) (by0 r s)) eqn:E2; qb2p; [right; exact E2|].
    exfalso. assert (0 < area_overlap r s) by (apply P; split; assumption). qlra.
  - intro H.
    destruct (Qceqb (area_overlap r s) 0) eqn:E; qb2p; [exact E|].
    assert (Hp : 0 < area_overlap r s) by qlra.
    apply P in Hp. destruct Hp, H; exfalso; qlra.
Qed.

(* no common interior point iff the overlap area is zero *)
Lemma ov_zero_no_interior r s :
  area_overlap r s = 0 -> forall px py, ~ (IntPt r px py /\ IntPt s px py).
Proof.
  intros H px py [Hr Hs]. apply ov_zero_iff in H.
  unfold bx0, bx1, by0, by1, IntPt in *.
  revert H Hr Hs.
  generalize (xmin r) (xmin s) (xmax r) (xmax s) (ymin r) (ymin s) (ymax r) (ymax s).
  intros a b c d e f g i H Hr Hs. qcases; destruct H; qlra.
Qed.

Lemma ov_pos_interior r s :
  0 < area_overlap r s -> exists px py, IntPt r px py /\ IntPt s px py.
Proof.
  intro H. apply ov_pos_iff in H. destruct H as [Hx Hy].
  exists ((bx0 r s + bx1 r s) * half), ((by0 r s + by1 r s) * half).
  unfold bx0, bx1, by0, by1, IntPt in *.
  revert Hx Hy.
  generalize (xmin r) (xmin s) (xmax r) (xmax s) (ymin r) (ymin s) (ymax r) (ymax s).
  intros a b c d e f g i Hx Hy. repeat split; qmlra.
Qed.

Theorem ov_common_region r s :
  (0 < area_overlap r s ->
     bx0 r s < bx1 r s /\ by0 r s < by1 r s /\
     area_overlap r s = (bx1 r s - bx0 r s) * (by1 r s - by0 r s) /\
     forall px py, (bx0 r s <= px /\ px <= bx1 r s /\ by0 r s <= py /\ py <= by1 r s)
                   <-> (Pt r px py /\ Pt s px py)) /\
  (area_overlap r s = 0 -> forall px py, ~ (IntPt r px py /\ IntPt s px py)) /\
  (0 < area_overlap r s \/ area_overlap r s = 0).
Proof.
  split; [|split].
  - intro H. pose proof (proj1 (ov_pos_iff r s) H) as [Hx Hy].
    split; [exact Hx|]. split; [exact Hy|]. split; [apply ov_pos_area; exact H|].
    intros px py. apply box_pts.
  - apply ov_zero_no_interior.
  - pose proof (ov_nonneg r s). destruct (Qceqb (area_overlap r s) 0) eqn:E; qb2p; [right; auto|left; qlra].
Qed.

(* ---------------- containment, membership, touching ---------------- *)
Lemma point_inside_iff r px py : point_inside r px py = true <-> Pt r px py.
Proof.
  unfold point_inside, Pt. rewrite !andb_true_iff, !Qcleb_true. tauto.
Qed.

Lemma is_inside_coords r s :
  is_inside r s = true <->
  (xmin s <= xmin r /\ ymin s <= ymin r /\ xmax r <= xmax s /\ ymax r <= ymax s).
Proof. unfold is_inside. rewrite !andb_true_iff, !Qcleb_true. tauto. Qed.

Theorem inside_iff_pts r s : wf r ->
  (is_inside r s = true <-> forall px py, Pt r px py -> Pt s px py).
Proof.
  intros [Hw Hh]. rewrite is_inside_coords. split.
  - intros (A & B & C & D) px py (P1 & P2 & P3 & P4). unfold Pt. repeat split; qlra.
  - intro H.
    assert (L : Pt r (xmin r) (ymin r)) by (runfold; repeat split; qlra).
    assert (U : Pt r (xmax r) (ymax r)) by (runfold; repeat split; qlra).
    apply H in L. apply H in U. unfold Pt in L, U. repeat split; tauto.
Qed.

(* touches: the L-infinity gap between the two closed boxes is at most eps *)
Theorem touches_iff eps r s : wf r -> wf s -> 0 <= eps ->
  (touches eps r s = true <->
   exists px py qx qy, Pt r px py /\ Pt s qx qy /\
     Qcabs (px - qx) <= eps /\ Qcabs (py - qy) <= eps).
Proof.
  intros [Hw Hh] [Hw' Hh'] He. unfold touches. rewrite !andb_true_iff, !Qcleb_true. split.
  - intros [[[A B] C] D].
    (* closest points: clamp *)
    exists (Qcmax (xmin r) (Qcmin (xmax r) (xmin s))), (Qcmax (ymin r) (Qcmin (ymax r) (ymin s))).
    exists (Qcmax (xmin s) (Qcmin (xmax s) (Qcmax (xmin r) (Qcmin (xmax r) (xmin s))))),
           (Qcmax (ymin s) (Qcmin (ymax s) (Qcmax (ymin r) (Qcmin (ymax r) (ymin s))))).
    unfold Pt.
    assert (X : xmin r < xmax r) by (runfold; qlra).
    assert (Y : ymin r < ymax r) by (runfold; qlra).
    assert (X' : xmin s < xmax s) by (runfold; qlra).
    assert (Y' : ymin s < ymax s) by (runfold; qlra).
    revert A B C D X Y X' Y'.
    generalize (xmin r) (xmin s) (xmax r) (xmax s) (ymin r) (ymin s) (ymax r) (ymax s).
    intros a b c d e f g i A B C D X Y X' Y'.
    repeat split; qmlra.
  - intros (px & py & qx & qy & (P1 & P2 & P3 & P4) & (Q1 & Q2 & Q3 & Q4) & Ax & Ay).
    repeat split; qmlra.
Qed.

(* ---------------- intersection (__mul__) ---------------- *)
Lemma inter_none_iff r s :
  inter r s = None <-> (region r <> region s \/ area_overlap r s = 0).
Proof.
  unfold inter. destruct (String.eqb_spec (region r) (region s)) as [E|E]; cbn [negb].
  2:{ split; auto. }
  rewrite ov_zero_iff. fold (bx0 r s) (bx1 r s) (by0 r s) (by1 r s).
  destruct (Qcleb (bx1 r s - bx0 r s) 0) eqn:E1; qb2p.
  { split; auto. intros _. right. left. qlra. }
  destruct (Qcleb (by1 r s - by0 r s) 0) eqn:E2; qb2p.
  { split; auto. intros _. right. right. qlra. }
  split; [discriminate|]. intros [H|[H|H]]; [contradiction| exfalso; qlra | exfalso; qlra].
Qed.

Theorem inter_some r s t : inter r s = Some t ->
  region r = region s /\ 0 < area_overlap r s /\
  xmin t = bx0 r s /\ xmax t = bx1 r s /\ ymin t = by0 r s /\ ymax t = by1 r s /\
  wf t /\ area t = area_overlap r s /\
  is_inside t r = true /\ is_inside t s = true /\
  (forall px py, Pt t px py <-> (Pt r px py /\ Pt s px py)) /\
  same_attrs r t /\ rloc t = NOPOLY.
Proof.
  unfold inter. destruct (String.eqb_spec (region r) (region s)) as [E|E]; cbn [negb]; [|discriminate].
  fold (bx0 r s) (bx1 r s) (by0 r s) (by1 r s).
  destruct (Qcleb (bx1 r s - bx0 r s) 0) eqn:E1; [discriminate|].
  destruct (Qcleb (by1 r s - by0 r s) 0) eqn:E2; [discriminate|]. qb2p.
  intro H; injection H as <-.
  assert (Hp : 0 < area_overlap r s) by (apply ov_pos_iff; split; qlra).
  assert (X0 : xmin (with_geom r (bx0 r s + (bx1 r s - bx0 r s) * half) (by0 r s + (by1 r s - by0 r s) * half)
                 (bx1 r s - bx0 r s) (by1 r s - by0 r s)) = bx0 r s) by (unfold xmin; cbn; qlra).
  assert (X1 : xmax (with_geom r (bx0 r s + (bx1 r s - bx0 r s) * half) (by0 r s + (by1 r s - by0 r s) * half)
                 (bx1 r s - bx0 r s) (by1 r s - by0 r s)) = bx1 r s) by (unfold xmax; cbn; qlra).
  assert (Y0 : ymin (with_geom r (bx0 r s + (bx1 r s - bx0 r s) * half) (by0 r s + (by1 r s - by0 r s) * half)
                 (bx1 r s - bx0 r s) (by1 r s - by0 r s)) = by0 r s) by (unfold ymin; cbn; qlra).
  assert (Y1 : ymax (with_geom r (bx0 r s + (bx1 r s - bx0 r s) * half) (by0 r s + (by1 r s - by0 r s) * half)
                 (bx1 r s - bx0 r s) (by1 r s - by0 r s)) = by1 r s) by (unfold ymax; cbn; qlra).
  split; [exact E|]. split; [exact Hp|].
  split; [exact X0|]. split; [exact X1|]. split; [exact Y0|]. split; [exact Y1|].
  split. { unfold wf; cbn. split; qlra. }
  split. { rewrite (ov_pos_area _ _ Hp). reflexivity. }
  split. { apply is_inside_coords. rewrite X0, X1, Y0, Y1. unfold bx0, bx1, by0, by1. repeat split; qmlra. }
  split. { apply is_inside_coords. rewrite X0, X1, Y0, Y1. unfold bx0, bx1, by0, by1. repeat split; qmlra. }
  split. { intros px py. unfold Pt at 1. rewrite X0, X1, Y0, Y1. apply box_pts. }
  split; [|reflexivity]. unfold same_attrs; cbn. auto.
Qed.

Theorem inter_sym r s :
  match inter r s, inter s r with
  | None, None => True
  | Some t, Some u =>
      cx t = cx u /\ cy t = cy u /\ rw t = rw u /\ rh t = rh u /\
      same_attrs r t /\ same_attrs s u
  | _, _ => False
  end.
Proof.
  destruct (inter r s) as [t|] eqn:E1; destruct (inter s r) as [u|] eqn:E2.
  - apply inter_some in E1. apply inter_some in E2.
    destruct E1 as (_ & _ & A1 & A2 & A3 & A4 & _ & _ & _ & _ & _ & S1 & _).
    destruct E2 as (_ & _ & B1 & B2 & B3 & B4 & _ & _ & _ & _ & _ & S2 & _).
    assert (bx0 r s = bx0 s r) by apply Qcmax_comm.
    assert (bx1 r s = bx1 s r) by apply Qcmin_comm.
    assert (by0 r s = by0 s r) by apply Qcmax_comm.
    assert (by1 r s = by1 s r) by apply Qcmin_comm.
    unfold xmin, xmax, ymin, ymax in *.
    repeat split; try apply S1; try apply S2; qlra.
  - apply inter_some in E1. apply inter_none_iff in E2.
    destruct E1 as (Er & Hp & _). rewrite ov_sym in E2. destruct E2; [congruence|qlra].
  - apply inter_some in E2. apply inter_none_iff in E1.
    destruct E2 as (Er & Hp & _). rewrite ov_sym in E1. destruct E1; [congruence|qlra].
  - exact I.
Qed.

