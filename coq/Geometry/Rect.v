(* Model of frame/geometry/geometry.py: class Rectangle (pure methods).
   Definitions only; the facts are in RectFacts.v. *)
From FrameModel Require Export Num.QcTac.
From Coq Require Export String.
Open Scope Qc_scope.

Inductive loc := TRUNK | NORTH | SOUTH | EAST | WEST | NOPOLY.
Definition loc_eqb (a b : loc) : bool :=
  match a, b with
  | TRUNK, TRUNK | NORTH, NORTH | SOUTH, SOUTH | EAST, EAST | WEST, WEST
  | NOPOLY, NOPOLY => true
  | _, _ => false
  end.

Record Rect := mkRect {
  cx : Qc; cy : Qc; rw : Qc; rh : Qc;
  fixed : bool; hard : bool; region : string; rloc : loc }.

Definition wf (r : Rect) : Prop := 0 < rw r /\ 0 < rh r.
Definition wfb (r : Rect) : bool := Qcltb 0 (rw r) && Qcltb 0 (rh r).

(* bounding_box: half_w = w / 2; xmin = cx - half_w ... *)
Definition xmin r := cx r - rw r * half.
Definition xmax r := cx r + rw r * half.
Definition ymin r := cy r - rh r * half.
Definition ymax r := cy r + rh r * half.
Definition area r := rw r * rh r.

(* duplicate(): same centre/shape/fixed/hard/region, location reset *)
Definition duplicate (r : Rect) : Rect :=
  mkRect (cx r) (cy r) (rw r) (rh r) (fixed r) (hard r) (region r) NOPOLY.
Definition with_geom (r : Rect) (x y w h : Qc) : Rect :=
  mkRect x y w h (fixed r) (hard r) (region r) NOPOLY.

Definition point_inside (r : Rect) (px py : Qc) : bool :=
  Qcleb (xmin r) px && Qcleb px (xmax r) && Qcleb (ymin r) py && Qcleb py (ymax r).

Definition is_inside (r s : Rect) : bool :=
  Qcleb (xmin s) (xmin r) && Qcleb (ymin s) (ymin r) &&
  Qcleb (xmax r) (xmax s) && Qcleb (ymax r) (ymax s).

Definition touches (eps : Qc) (r s : Rect) : bool :=
  Qcleb (xmin r) (xmax s + eps) && Qcleb (xmin s) (xmax r + eps) &&
  Qcleb (ymin r) (ymax s + eps) && Qcleb (ymin s) (ymax r + eps).

Definition area_overlap (r s : Rect) : Qc :=
  let minx := Qcmax (xmin r) (xmin s) in
  let maxx := Qcmin (xmax r) (xmax s) in
  if Qcleb maxx minx then 0 else
  let miny := Qcmax (ymin r) (ymin s) in
  let maxy := Qcmin (ymax r) (ymax s) in
  if Qcleb maxy miny then 0 else (maxx - minx) * (maxy - miny).

Definition overlap (aeps : Qc) (r s : Rect) : bool := Qcltb aeps (area_overlap r s).

(* __mul__ : intersection, None when regions differ or no common area *)
Definition inter (r s : Rect) : option Rect :=
  if negb (String.eqb (region r) (region s)) then None else
  let minx := Qcmax (xmin r) (xmin s) in
  let maxx := Qcmin (xmax r) (xmax s) in
  let width := maxx - minx in
  if Qcleb width 0 then None else
  let miny := Qcmax (ymin r) (ymin s) in
  let maxy := Qcmin (ymax r) (ymax s) in
  let height := maxy - miny in
  if Qcleb height 0 then None else
  Some (with_geom r (minx + width * half) (miny + height * half) width height).

(* __eq__ : same centre, shape and region *)
Definition req (r s : Rect) : bool :=
  Qceqb (cx r) (cx s) && Qceqb (cy r) (cy s) && Qceqb (rw r) (rw s) &&
  Qceqb (rh r) (rh s) && String.eqb (region r) (region s).

(* split_horizontal(x): x < 0 means "halve" (as written in the code) *)
Definition split_horizontal (r : Rect) (x0 : Qc) : option (Rect * Rect) :=
  let x := if Qcltb x0 0 then cx r else x0 in
  if Qcltb (xmin r) x && Qcltb x (xmax r) then
    let w1 := x - xmin r in
    Some (with_geom r ((xmin r + x) * half) (cy r) w1 (rh r),
          with_geom r ((xmax r + x) * half) (cy r) (rw r - w1) (rh r))
  else None.

Definition split_vertical (r : Rect) (y0 : Qc) : option (Rect * Rect) :=
  let y := if Qcltb y0 0 then cy r else y0 in
  if Qcltb (ymin r) y && Qcltb y (ymax r) then
    let h1 := y - ymin r in
    Some (with_geom r (cx r) ((ymin r + y) * half) (rw r) h1,
          with_geom r (cx r) ((ymax r + y) * half) (rw r) (rh r - h1))
  else None.

Definition minus1 : Qc := Q2Qc (-1).
(* split(): vertical iff h > w *)
Definition split (r : Rect) : option (Rect * Rect) :=
  if Qcltb (rw r) (rh r) then split_vertical r minus1 else split_horizontal r minus1.

Definition x_cuttable (r : Rect) (x ratio : Qc) : bool :=
  if Qcleb x (xmin r) || Qcleb (xmax r) x then false
  else Qcltb (ratio * rh r) (Qcmin (x - xmin r) (xmax r - x)).
Definition y_cuttable (r : Rect) (y ratio : Qc) : bool :=
  if Qcleb y (ymin r) || Qcleb (ymax r) y then false
  else Qcltb (ratio * rw r) (Qcmin (y - ymin r) (ymax r - y)).

Definition aspect_ratio (r : Rect) : Qc :=
  let ar := rh r / rw r in if Qcltb ar 1 then 1 / ar else ar.

(* rectangle_grid(nrows, ncols): row-major, same shape *)
Definition ofnat (n : nat) : Qc := Q2Qc (inject_Z (Z.of_nat n)).
Definition rectangle_grid (r : Rect) (nrows ncols : nat) : option (list Rect) :=
  match nrows, ncols with
  | O, _ | _, O => None
  | _, _ =>
    let xs := rw r / ofnat ncols in
    let ys := rh r / ofnat nrows in
    let x0 := cx r - rw r * half + xs * half in
    let y0 := cy r - rh r * half + ys * half in
    Some (flat_map (fun row =>
            map (fun col => with_geom r (x0 + ofnat col * xs) (y0 + ofnat row * ys) xs ys)
                (seq 0 ncols))
          (seq 0 nrows))
  end.

(* ---- specification vocabulary ---- *)
Definition Pt (r : Rect) (px py : Qc) : Prop :=
  xmin r <= px /\ px <= xmax r /\ ymin r <= py /\ py <= ymax r.
Definition IntPt (r : Rect) (px py : Qc) : Prop :=
  xmin r < px /\ px < xmax r /\ ymin r < py /\ py < ymax r.
Definition same_attrs (r t : Rect) : Prop :=
  fixed t = fixed r /\ hard t = hard r /\ region t = region r.

Fixpoint pairwise_no_ov (l : list Rect) : Prop :=
  match l with
  | [] => True
  | r :: rest => Forall (fun s => area_overlap r s = 0) rest /\ pairwise_no_ov rest
  end.
Definition tiles (l : list Rect) (d : Rect) : Prop :=
  Forall (fun r => wf r /\ is_inside r d = true) l /\ pairwise_no_ov l /\
  Qcsum (map area l) = area d.
