(* Coincidences between derived quantities of two rectangles (C18, C03).

   A second rectangle is BUILT from a first one: it shares a distinguished point with it
   (the centre or one of the four corners) and its shape stands in a stated relation to the
   first one's (same shape, same area with another shape, transposed, same width, same height,
   same perimeter, same aspect ratio).  The harness generates pairs through [coincide] (the
   generated second rectangle must equal the model's construction) and the theorems say what
   Rectangle.area_overlap / is_inside must answer on every such pair: the overlap of two
   rectangles sharing the centre or a corner is min(w) * min(h); the overlap is the whole
   area of a rectangle only if it lies inside the other; two rectangles of equal area that
   overlap in that whole area are the same box.  Hence no shortcut of area_overlap keyed on a
   coincidence of derived quantities (same centre and same area ...) is sound unless it implies
   the same box. *)
From FrameModel Require Import Num.QcTac Geometry.Rect Geometry.RectFacts.
Open Scope Qc_scope.

Inductive anchor := ACentre | ALL | AUR | ALR | AUL.

Inductive shaperel :=
| SSame                 (* (w, h) *)
| SEqArea (k : Qc)      (* (w * k, h / k): the same area *)
| STransposed           (* (h, w) *)
| SSameW (h' : Qc)      (* (w, h') *)
| SSameH (w' : Qc)      (* (w', h) *)
| SEqPerim (d : Qc)     (* (w + d, h - d): the same perimeter *)
| SEqAspect (k : Qc).   (* (w * k, h * k): the same aspect ratio *)

Definition rel_shape (rel : shaperel) (w h : Qc) : Qc * Qc :=
  match rel with
  | SSame => (w, h)
  | SEqArea k => (w * k, h / k)
  | STransposed => (h, w)
  | SSameW h' => (w, h')
  | SSameH w' => (w', h)
  | SEqPerim d => (w + d, h - d)
  | SEqAspect k => (w * k, h * k)
  end.

(* the rectangle with the attributes of [t], the shape [rel_shape rel] of [r]'s, sharing the point [a] with [r] *)
Definition coincide (a : anchor) (rel : shaperel) (r t : Rect) : Rect :=
  let w := fst (rel_shape rel (rw r) (rh r)) in
  let h := snd (rel_shape rel (rw r) (rh r)) in
  let x := match a with
           | ACentre => cx r
           | ALL | AUL => xmin r + w * half
           | AUR | ALR => xmax r - w * half
           end in
  let y := match a with
           | ACentre => cy r
           | ALL | ALR => ymin r + h * half
           | AUR | AUL => ymax r - h * half
           end in
  mkRect x y w h (fixed t) (hard t) (region t) (rloc t).

Definition anchored (a : anchor) (r s : Rect) : Prop :=
  match a with
  | ACentre => cx r = cx s /\ cy r = cy s
  | ALL => xmin r = xmin s /\ ymin r = ymin s
  | AUR => xmax r = xmax s /\ ymax r = ymax s
  | ALR => xmax r = xmax s /\ ymin r = ymin s
  | AUL => xmin r = xmin s /\ ymax r = ymax s
  end.

(* geometry only (the attributes of the generated rectangle are chosen freely) *)
Definition geom_eqb (r s : Rect) : bool :=
  Qceqb (cx r) (cx s) && Qceqb (cy r) (cy s) && Qceqb (rw r) (rw s) && Qceqb (rh r) (rh s).

(* ---------------- what [coincide] builds ---------------- *)
Lemma coincide_anchored a rel r t : anchored a r (coincide a rel r t).
Proof.
  unfold anchored, coincide, xmin, xmax, ymin, ymax; cbn [cx cy rw rh].
  generalize (fst (rel_shape rel (rw r) (rh r))) (snd (rel_shape rel (rw r) (rh r))).
  generalize (cx r) (cy r) (rw r) (rh r). intros x y w h w' h'.
  destruct a; split; qlra.
Qed.

Lemma coincide_shape a rel r t :
  (rw (coincide a rel r t), rh (coincide a rel r t)) = rel_shape rel (rw r) (rh r).
Proof. unfold coincide; cbn [rw rh]. destruct (rel_shape rel (rw r) (rh r)); reflexivity. Qed.

Lemma coincide_attrs a rel r t : same_attrs t (coincide a rel r t) /\ rloc (coincide a rel r t) = rloc t.
Proof. unfold same_attrs, coincide; cbn. auto. Qed.

Lemma rel_shape_spec rel w h :
  let w' := fst (rel_shape rel w h) in
  let h' := snd (rel_shape rel w h) in
  match rel with
  | SSame => w' = w /\ h' = h
  | SEqArea k => k <> 0 -> w' * h' = w * h
  | STransposed => w' = h /\ h' = w
  | SSameW _ => w' = w
  | SSameH _ => h' = h
  | SEqPerim _ => w' + h' = w + h
  | SEqAspect _ => w' * h = w * h'
  end.
Proof.
  destruct rel; cbn [rel_shape fst snd]; auto.
  - intro Hk. unfold Qcdiv. field. exact Hk.
  - ring.
  - ring.
Qed.

(* ---------------- what the Rectangle methods must answer on such pairs ---------------- *)
Lemma anchored_spans a r s : wf r -> wf s -> anchored a r s ->
  Qcmin (xmax r) (xmax s) - Qcmax (xmin r) (xmin s) = Qcmin (rw r) (rw s) /\
  Qcmin (ymax r) (ymax s) - Qcmax (ymin r) (ymin s) = Qcmin (rh r) (rh s).
Proof.
  unfold wf, anchored, xmin, xmax, ymin, ymax.
  generalize (cx r) (cy r) (rw r) (rh r) (cx s) (cy s) (rw s) (rh s).
  intros x y w h x' y' w' h' [Hw Hh] [Hw' Hh'] Ha.
  destruct a; destruct Ha as [Hx Hy]; split; qmlra.
Qed.

(* two rectangles sharing the centre or a corner overlap in min(w) * min(h) *)
Theorem anchored_overlap a r s : wf r -> wf s -> anchored a r s ->
  area_overlap r s = Qcmin (rw r) (rw s) * Qcmin (rh r) (rh s).
Proof.
  intros Hr Hs Ha. destruct (anchored_spans a r s Hr Hs Ha) as [Hx Hy].
  assert (Pw : 0 < Qcmin (rw r) (rw s)) by (destruct Hr, Hs; qmlra).
  assert (Ph : 0 < Qcmin (rh r) (rh s)) by (destruct Hr, Hs; qmlra).
  unfold area_overlap. cbv zeta.
  destruct (Qcleb (Qcmin (xmax r) (xmax s)) (Qcmax (xmin r) (xmin s))) eqn:E1; qb2p.
  - exfalso. rewrite <- Hx in Pw. clear - E1 Pw. qlra.
  - destruct (Qcleb (Qcmin (ymax r) (ymax s)) (Qcmax (ymin r) (ymin s))) eqn:E2; qb2p.
    + exfalso. rewrite <- Hy in Ph. clear - E2 Ph. qlra.
    + rewrite Hx, Hy. reflexivity.
Qed.

Lemma prod_eq_sides (a b w h : Qc) :
  0 < a -> 0 < b -> a <= w -> b <= h -> a * b = w * h -> a = w /\ b = h.
Proof.
  intros Ha Hb Haw Hbh E.
  destruct (Qceqb a w) eqn:E1; qb2p.
  - subst a. split; [reflexivity|]. qnra.
  - exfalso. assert (a < w) by qlra. clear E1 Haw. qnra.
Qed.

(* the overlap is the whole area of a rectangle exactly when it lies inside the other *)
Theorem full_overlap_iff_inside r s : wf r ->
  (area_overlap r s = area r <-> is_inside r s = true).
Proof.
  intros [Hw Hh]. rewrite is_inside_coords. split.
  - intro E.
    assert (P : 0 < area_overlap r s) by (rewrite E; unfold area; qnra).
    pose proof (proj1 (ov_pos_iff r s) P) as [Px Py].
    rewrite (ov_pos_area r s P) in E.
    assert (S : bx1 r s - bx0 r s = rw r /\ by1 r s - by0 r s = rh r).
    { apply prod_eq_sides; [qlra | qlra | | | exact E].
      - clear - Hw. unfold bx0, bx1, xmin, xmax. generalize (cx r) (rw r) (cx s) (rw s). intros. qmlra.
      - clear - Hh. unfold by0, by1, ymin, ymax. generalize (cy r) (rh r) (cy s) (rh s). intros. qmlra. }
    destruct S as [Sx Sy]. clear E P Px Py.
    revert Sx Sy. unfold bx0, bx1, by0, by1, xmin, xmax, ymin, ymax.
    generalize (cx r) (cy r) (rw r) (rh r) (cx s) (cy s) (rw s) (rh s).
    intros x y w h x' y' w' h' Sx Sy. splits; qmlra.
  - intros (H1 & H2 & H3 & H4).
    assert (Sx : Qcmin (xmax r) (xmax s) - Qcmax (xmin r) (xmin s) = rw r).
    { revert H1 H3. unfold xmin, xmax. generalize (cx r) (rw r) (cx s) (rw s). intros. qmlra. }
    assert (Sy : Qcmin (ymax r) (ymax s) - Qcmax (ymin r) (ymin s) = rh r).
    { revert H2 H4. unfold ymin, ymax. generalize (cy r) (rh r) (cy s) (rh s). intros. qmlra. }
    unfold area_overlap, area. cbv zeta.
    destruct (Qcleb (Qcmin (xmax r) (xmax s)) (Qcmax (xmin r) (xmin s))) eqn:E1; qb2p.
    + exfalso. clear - E1 Sx Hw. qlra.
    + destruct (Qcleb (Qcmin (ymax r) (ymax s)) (Qcmax (ymin r) (ymin s))) eqn:E2; qb2p.
      * exfalso. clear - E2 Sy Hh. qlra.
      * rewrite Sx, Sy. reflexivity.
Qed.

(* two rectangles of the same area overlapping in that whole area are the same box *)
Theorem eq_area_full_overlap_same_box r s : wf r -> wf s -> area r = area s ->
  area_overlap r s = area r ->
  cx r = cx s /\ cy r = cy s /\ rw r = rw s /\ rh r = rh s.
Proof.
  intros Hr Hs Ea E.
  pose proof (proj1 (full_overlap_iff_inside r s Hr) E) as I1.
  assert (E' : area_overlap s r = area s) by (rewrite ov_sym, E; exact Ea).
  pose proof (proj1 (full_overlap_iff_inside s r Hs) E') as I2.
  rewrite is_inside_coords in I1, I2. revert I1 I2.
  unfold xmin, xmax, ymin, ymax. generalize (cx r) (cy r) (rw r) (rh r) (cx s) (cy s) (rw s) (rh s).
  intros x y w h x' y' w' h' (A1 & A2 & A3 & A4) (B1 & B2 & B3 & B4). splits; qlra.
Qed.

(* the case a 'same rectangle' shortcut keyed on centre and area gets wrong: same distinguished
   point, same area, another shape - the overlap is strictly smaller than the area *)
Theorem anchored_eq_area_other_shape a r s : wf r -> wf s -> anchored a r s ->
  area r = area s -> rw r <> rw s -> area_overlap r s < area r.
Proof.
  intros Hr Hs Ha Ea Hne.
  destruct (Qcltb (area_overlap r s) (area r)) eqn:E; qb2p; [exact E|]. exfalso.
  assert (Le : area_overlap r s <= area r).
  { rewrite (anchored_overlap a r s Hr Hs Ha). destruct Hr as [Hw Hh], Hs as [Hw' Hh']. unfold area.
    revert Hw Hh Hw' Hh'. generalize (rw r) (rh r) (rw s) (rh s). intros w h w' h' Hw Hh Hw' Hh'.
    qcases; qnra. }
  assert (Eq : area_overlap r s = area r) by qlra.
  destruct (eq_area_full_overlap_same_box r s Hr Hs Ea Eq) as (_ & _ & Hw & _). contradiction.
Qed.

(* satisfiable: a 2x2 square centred on a 4x1 rectangle - same centre, same area, overlap 2 < 4 *)
Example coincide_example :
  let r := mkRect (qc 6 1) (qc 15 2) (qc 4 1) (qc 1 1) false false "_" NOPOLY in
  let s := coincide ACentre (SEqArea half) r r in
  geom_eqb s (mkRect (qc 6 1) (qc 15 2) (qc 2 1) (qc 2 1) false false "_" NOPOLY) = true /\
  area r = area s /\ area_overlap r s = qc 2 1.
Proof. cbv zeta. split; [vm_compute; reflexivity|]. split; apply Qc_is_canon; vm_compute; reflexivity. Qed.

(* ---------------- near-equal region names ----------------
   Region names are compared EXACTLY (Python ==; String.eqb here): names that differ only in letter
   case, by a trailing / leading underscore or digit, by one being a prefix of the other, '_' / '__' /
   '#', are different regions.  Two rectangles whose names differ have no intersection and are not
   equal, however the boxes lie; a piece of a split / a grid cell / a duplicate carries exactly the
   name of its source (RectFacts / SplitFacts / GridFacts: same_attrs).  The harness runs every
   operation that reads or copies the region on pairs of such names (harness/props/c18.py::NEAR). *)
Definition near_distinct (a b : string) : bool := negb (String.eqb a b).

Lemma near_distinct_neq a b : near_distinct a b = true <-> a <> b.
Proof.
  unfold near_distinct. destruct (String.eqb_spec a b) as [E|E]; cbn [negb]; split; intro H.
  - discriminate.
  - contradiction.
  - exact E.
  - reflexivity.
Qed.

Lemma inter_region_differs r s : region r <> region s -> inter r s = None /\ inter s r = None.
Proof.
  intro H. split; apply inter_none_iff; left; auto.
Qed.

Lemma req_region_differs r s : region r <> region s -> req r s = false /\ req s r = false.
Proof.
  intro H. unfold req. split.
  - destruct (String.eqb_spec (region r) (region s)) as [E|E]; [contradiction|]. apply Bool.andb_false_r.
  - destruct (String.eqb_spec (region s) (region r)) as [E|E]; [symmetry in E; contradiction|]. apply Bool.andb_false_r.
Qed.

(* the same box under two names of a near-equal pair: an overlap of the whole area, no intersection, not equal *)
Lemma same_box_other_name r a b : wf r -> a <> b ->
  let r1 := mkRect (cx r) (cy r) (rw r) (rh r) (fixed r) (hard r) a (rloc r) in
  let r2 := mkRect (cx r) (cy r) (rw r) (rh r) (fixed r) (hard r) b (rloc r) in
  inter r1 r2 = None /\ inter r2 r1 = None /\ req r1 r2 = false /\ req r2 r1 = false.
Proof.
  intros Hr Hab r1 r2.
  assert (H : region r1 <> region r2) by exact Hab.
  destruct (inter_region_differs r1 r2 H) as [A B]. destruct (req_region_differs r1 r2 H) as [C D].
  repeat split; assumption.
Qed.

Example near_names_distinct :
  forallb (fun p => near_distinct (fst p) (snd p))
    [("dsp", "DSP"); ("A", "a"); ("Bram", "BRAM"); ("r_X1", "r_x1"); ("dsp", "dsp_"); ("_", "__"); ("dsp", "dsp1");
     ("dsp1", "dsp10"); ("dsp", "ds"); ("_dsp", "dsp"); ("#", "_"); ("#", "__"); ("r_1", "r__1"); ("dsp0", "dspO")]%string
  = true.
Proof. vm_compute; reflexivity. Qed.

Example near_case_example :
  let r := mkRect (qc 2 1) (qc 2 1) (qc 4 1) (qc 4 1) false false "dsp" NOPOLY in
  let s := mkRect (qc 2 1) (qc 2 1) (qc 10 1) (qc 1 1) false false "DSP" NOPOLY in
  inter r s = None /\ inter s r = None /\ req r s = false /\ area_overlap r s = qc 4 1.
Proof. cbv zeta. repeat split; first [vm_compute; reflexivity | apply Qc_is_canon; vm_compute; reflexivity]. Qed.
