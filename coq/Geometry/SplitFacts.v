(* Facts about splitting and cuttability (C18). *)
From FrameModel Require Import Num.QcTac Geometry.Rect Geometry.RectFacts.
Open Scope Qc_scope.

(* ---------------- splitting ---------------- *)
Lemma ov_zero_x r s : xmax r <= xmin s -> area_overlap r s = 0.
Proof. intro H. apply ov_zero_iff. left. unfold bx0, bx1. qcases; qlra. Qed.
Lemma ov_zero_y r s : ymax r <= ymin s -> area_overlap r s = 0.
Proof. intro H. apply ov_zero_iff. right. unfold by0, by1. qcases; qlra. Qed.

Theorem split_h_tiles r x0 r1 r2 : wf r ->
  split_horizontal r x0 = Some (r1, r2) ->
  let x := if Qcltb x0 0 then cx r else x0 in
  xmin r < x /\ x < xmax r /\
  xmin r1 = xmin r /\ xmax r1 = x /\ xmin r2 = x /\ xmax r2 = xmax r /\
  ymin r1 = ymin r /\ ymax r1 = ymax r /\ ymin r2 = ymin r /\ ymax r2 = ymax r /\
  same_attrs r r1 /\ same_attrs r r2 /\ rloc r1 = NOPOLY /\ rloc r2 = NOPOLY /\
  tiles [r1; r2] r.
Proof.
  intros [Hw Hh]. unfold split_horizontal.
  set (x := if Qcltb x0 0 then cx r else x0). cbv zeta.
  destruct (Qcltb (xmin r) x && Qcltb x (xmax r)) eqn:E; [|discriminate].
  qb2p. intro Hinj; injection Hinj as <- <-.
  assert (A1 : xmin (with_geom r ((xmin r + x) * half) (cy r) (x - xmin r) (rh r)) = xmin r) by (unfold xmin; cbn; qlra).
  assert (A2 : xmax (with_geom r ((xmin r + x) * half) (cy r) (x - xmin r) (rh r)) = x) by (unfold xmax, xmin; cbn; qlra).
  assert (A3 : xmin (with_geom r ((xmax r + x) * half) (cy r) (rw r - (x - xmin r)) (rh r)) = x) by (unfold xmin, xmax; cbn; qlra).
  assert (A4 : xmax (with_geom r ((xmax r + x) * half) (cy r) (rw r - (x - xmin r)) (rh r)) = xmax r) by (unfold xmin, xmax; cbn; qlra).
  repeat match goal with |- _ /\ _ => split end; auto; try reflexivity;
    try (unfold same_attrs; cbn; tauto).
  unfold tiles; split; [|split].
  - repeat constructor; try (apply is_inside_coords; rewrite ?A1, ?A2, ?A3, ?A4; unfold ymin, ymax; cbn; repeat split; qlra);
        unfold xmin, xmax in *; cbn; qlra.
  - cbn. repeat constructor. apply ov_zero_x. rewrite A2, A3. qlra.
  - unfold area, xmin; cbn. qlra.
Qed.

Theorem split_v_tiles r y0 r1 r2 : wf r ->
  split_vertical r y0 = Some (r1, r2) ->
  let y := if Qcltb y0 0 then cy r else y0 in
  ymin r < y /\ y < ymax r /\
  ymin r1 = ymin r /\ ymax r1 = y /\ ymin r2 = y /\ ymax r2 = ymax r /\
  xmin r1 = xmin r /\ xmax r1 = xmax r /\ xmin r2 = xmin r /\ xmax r2 = xmax r /\
  same_attrs r r1 /\ same_attrs r r2 /\ rloc r1 = NOPOLY /\ rloc r2 = NOPOLY /\
  tiles [r1; r2] r.
Proof.
  intros [Hw Hh]. unfold split_vertical.
  set (y := if Qcltb y0 0 then cy r else y0). cbv zeta.
  destruct (Qcltb (ymin r) y && Qcltb y (ymax r)) eqn:E; [|discriminate].
  qb2p. intro Hinj; injection Hinj as <- <-.
  assert (A1 : ymin (with_geom r (cx r) ((ymin r + y) * half) (rw r) (y - ymin r)) = ymin r) by (unfold ymin; cbn; qlra).
  assert (A2 : ymax (with_geom r (cx r) ((ymin r + y) * half) (rw r) (y - ymin r)) = y) by (unfold ymax, ymin; cbn; qlra).
  assert (A3 : ymin (with_geom r (cx r) ((ymax r + y) * half) (rw r) (rh r - (y - ymin r))) = y) by (unfold ymin, ymax; cbn; qlra).
  assert (A4 : ymax (with_geom r (cx r) ((ymax r + y) * half) (rw r) (rh r - (y - ymin r))) = ymax r) by (unfold ymin, ymax; cbn; qlra).
  repeat match goal with |- _ /\ _ => split end; auto; try reflexivity;
    try (unfold same_attrs; cbn; tauto).
  unfold tiles; split; [|split].
  - repeat constructor; try (apply is_inside_coords; rewrite ?A1, ?A2, ?A3, ?A4; unfold xmin, xmax; cbn; repeat split; qlra);
        unfold ymin, ymax in *; cbn; qlra.
  - cbn. repeat constructor. apply ov_zero_y. rewrite A2, A3. qlra.
  - unfold area, ymin; cbn. qlra.
Qed.

(* a split is rejected exactly when the effective cut is not strictly inside *)
Theorem split_h_reject_iff r x0 :
  let x := if Qcltb x0 0 then cx r else x0 in
  split_horizontal r x0 = None <-> ~ (xmin r < x /\ x < xmax r).
Proof.
  unfold split_horizontal. cbv zeta.
  set (x := if Qcltb x0 0 then cx r else x0).
  destruct (Qcltb (xmin r) x) eqn:E1; destruct (Qcltb x (xmax r)) eqn:E2; cbn [andb]; qb2p;
    split; try discriminate; try tauto; intros; try reflexivity; intros [A B]; qlra.
Qed.
Theorem split_v_reject_iff r y0 :
  let y := if Qcltb y0 0 then cy r else y0 in
  split_vertical r y0 = None <-> ~ (ymin r < y /\ y < ymax r).
Proof.
  unfold split_vertical. cbv zeta.
  set (y := if Qcltb y0 0 then cy r else y0).
  destruct (Qcltb (ymin r) y) eqn:E1; destruct (Qcltb y (ymax r)) eqn:E2; cbn [andb]; qb2p;
    split; try discriminate; try tauto; intros; try reflexivity; intros [A B]; qlra.
Qed.

Lemma minus1_neg : Qcltb minus1 0 = true.
Proof. reflexivity. Qed.

(* split(): halves the longer side (vertical cut line iff h > w); never rejects *)
Theorem split_halves r : wf r ->
  exists r1 r2, split r = Some (r1, r2) /\ tiles [r1; r2] r /\
    area r1 = area r * half /\ area r2 = area r * half /\
    same_attrs r r1 /\ same_attrs r r2 /\
    (rw r < rh r -> rw r1 = rw r /\ rw r2 = rw r /\ rh r1 = rh r * half /\ rh r2 = rh r * half) /\
    (rh r <= rw r -> rh r1 = rh r /\ rh r2 = rh r /\ rw r1 = rw r * half /\ rw r2 = rw r * half).
Proof.
  intros Hwf. pose proof Hwf as [Hw Hh]. unfold split.
  destruct (Qcltb (rw r) (rh r)) eqn:E; qb2p.
  - destruct (split_vertical r minus1) as [[r1 r2]|] eqn:S.
    + exists r1, r2. pose proof (split_v_tiles r minus1 r1 r2 Hwf S) as T. cbv zeta in T. rewrite minus1_neg in T.
      destruct T as (_ & _ & _ & _ & _ & _ & _ & _ & _ & _ & SA1 & SA2 & _ & _ & T).
      unfold split_vertical in S. rewrite minus1_neg in S.
      destruct (Qcltb (ymin r) (cy r) && Qcltb (cy r) (ymax r)); [|discriminate].
      injection S as <- <-.
      splits; auto; try (intros; splits); unfold area, ymin; cbn; try qlra; try (exfalso; qlra).
    + exfalso. apply split_v_reject_iff in S. rewrite minus1_neg in S. apply S. unfold ymin, ymax. split; qlra.
  - destruct (split_horizontal r minus1) as [[r1 r2]|] eqn:S.
    + exists r1, r2. pose proof (split_h_tiles r minus1 r1 r2 Hwf S) as T. cbv zeta in T. rewrite minus1_neg in T.
      destruct T as (_ & _ & _ & _ & _ & _ & _ & _ & _ & _ & SA1 & SA2 & _ & _ & T).
      unfold split_horizontal in S. rewrite minus1_neg in S.
      destruct (Qcltb (xmin r) (cx r) && Qcltb (cx r) (xmax r)); [|discriminate].
      injection S as <- <-.
      splits; auto; try (intros; splits); unfold area, xmin; cbn; try qlra; try (exfalso; qlra).
    + exfalso. apply split_h_reject_iff in S. rewrite minus1_neg in S. apply S. unfold xmin, xmax. split; qlra.
Qed.

(* ---------------- cuttable ---------------- *)
Theorem x_cuttable_inside r x q : x_cuttable r x q = true -> xmin r < x /\ x < xmax r.
Proof.
  unfold x_cuttable. destruct (Qcleb x (xmin r)) eqn:E1; destruct (Qcleb (xmax r) x) eqn:E2; cbn [orb]; try discriminate.
  qb2p. auto.
Qed.
Theorem y_cuttable_inside r y q : y_cuttable r y q = true -> ymin r < y /\ y < ymax r.
Proof.
  unfold y_cuttable. destruct (Qcleb y (ymin r)) eqn:E1; destruct (Qcleb (ymax r) y) eqn:E2; cbn [orb]; try discriminate.
  qb2p. auto.
Qed.
(* no sliver (each piece thicker than q times either side) => cuttable *)
Theorem x_cuttable_no_sliver r x q : xmin r < x -> x < xmax r ->
  q * rh r < x - xmin r -> q * rh r < xmax r - x -> x_cuttable r x q = true.
Proof.
  intros A B C D. unfold x_cuttable.
  destruct (Qcleb x (xmin r)) eqn:E1; qb2p; [exfalso; qlra|].
  destruct (Qcleb (xmax r) x) eqn:E2; qb2p; [exfalso; qlra|]. cbn [orb]. qb2p. qcases; assumption.
Qed.
Theorem y_cuttable_no_sliver r y q : ymin r < y -> y < ymax r ->
  q * rw r < y - ymin r -> q * rw r < ymax r - y -> y_cuttable r y q = true.
Proof.
  intros A B C D. unfold y_cuttable.
  destruct (Qcleb y (ymin r)) eqn:E1; qb2p; [exfalso; qlra|].
  destruct (Qcleb (ymax r) y) eqn:E2; qb2p; [exfalso; qlra|]. cbn [orb]. qb2p. qcases; assumption.
Qed.
(* exact characterisation *)
Theorem x_cuttable_iff r x q :
  x_cuttable r x q = true <->
  (xmin r < x /\ x < xmax r /\ q * rh r < x - xmin r /\ q * rh r < xmax r - x).
Proof.
  split.
  - intro H. pose proof (x_cuttable_inside _ _ _ H) as [A B]. unfold x_cuttable in H.
    destruct (Qcleb x (xmin r)) eqn:E1; qb2p; [exfalso; qlra|].
    destruct (Qcleb (xmax r) x) eqn:E2; qb2p; [exfalso; qlra|]. cbn [orb] in H. qb2p.
    revert H. qcases; intros; repeat split; qlra.
  - intros (A & B & C & D). apply x_cuttable_no_sliver; assumption.
Qed.
Theorem y_cuttable_iff r y q :
  y_cuttable r y q = true <->
  (ymin r < y /\ y < ymax r /\ q * rw r < y - ymin r /\ q * rw r < ymax r - y).
Proof.
  split.
  - intro H. pose proof (y_cuttable_inside _ _ _ H) as [A B]. unfold y_cuttable in H.
    destruct (Qcleb y (ymin r)) eqn:E1; qb2p; [exfalso; qlra|].
    destruct (Qcleb (ymax r) y) eqn:E2; qb2p; [exfalso; qlra|]. cbn [orb] in H. qb2p.
    revert H. qcases; intros; repeat split; qlra.
  - intros (A & B & C & D). apply y_cuttable_no_sliver; assumption.
Qed.
