(* Object histories of Rectangle (frame/geometry/geometry.py).

   A Rectangle is a mutable object: it holds a Point (centre) and a Shape whose attributes
   can be assigned (r.center.x = v, r.center.x += d, r.shape.w = v), it has setters for the
   centre, the shape and the attributes (r.center = Point(..), r.fixed = b, r.region = s), and
   every method of property C18 is a READ of the current values.  The model: a pool of Rect
   values indexed by object identity, writes [GSet ..], reads [GQuery ..] (no effect), and
   [GPush ..]: a rectangle RETURNED by a method (a piece of a split, an intersection, a cell of
   a grid) becomes a pool object of its own - it shares nothing with the rectangle it came from.

   The theorems of Properties/C18.v quantify over all rectangles, so they hold of the values a
   rectangle has at any point of any history; the facts here say that a history reaches the
   methods only through those values: a write changes the named field of the named object and
   nothing else, a read changes nothing, a pushed rectangle is independent of its parent. *)
From FrameModel Require Import Num.QcTac Geometry.Rect Cases.Cmp.
Open Scope list_scope.
Open Scope Qc_scope.

Inductive gmech := GInPlace | GSetter.
Inductive field := FCx | FCy | FW | FH.

Inductive query :=
  | QOv (i j : nat) | QOverlap (aeps : Qc) (i j : nat) | QInside (i j : nat)
  | QTouches (eps : Qc) (i j : nat) | QInter (i j : nat) | QEq (i j : nat)
  | QPt (i : nat) (px py : Qc)
  | QSplitH (i : nat) (x : Qc) | QSplitV (i : nat) (y : Qc) | QSplit (i : nat)
  | QXcut (i : nat) (x ratio : Qc) | QYcut (i : nat) (y ratio : Qc)
  | QGrid (i : nat) (nrows ncols : nat) | QAr (i : nat) | QBbox (i : nat).

Inductive derive :=
  | DSplitH (i : nat) (x : Qc) (second : bool)
  | DSplitV (i : nat) (y : Qc) (second : bool)
  | DSplit (i : nat) (second : bool)
  | DInter (i j : nat)
  | DGridCell (i : nat) (nrows ncols k : nat).

Inductive gop :=
  | GSet (m : gmech) (i : nat) (f : field) (v : Qc)
  | GFixed (i : nat) (b : bool) | GHard (i : nat) (b : bool) | GRegion (i : nat) (s : string)
  | GQuery (q : query)
  | GPush (d : derive).

Definition get_field (r : Rect) (f : field) : Qc :=
  match f with FCx => cx r | FCy => cy r | FW => rw r | FH => rh r end.
Definition set_field (r : Rect) (f : field) (v : Qc) : Rect :=
  match f with
  | FCx => mkRect v (cy r) (rw r) (rh r) (fixed r) (hard r) (region r) (rloc r)
  | FCy => mkRect (cx r) v (rw r) (rh r) (fixed r) (hard r) (region r) (rloc r)
  | FW => mkRect (cx r) (cy r) v (rh r) (fixed r) (hard r) (region r) (rloc r)
  | FH => mkRect (cx r) (cy r) (rw r) v (fixed r) (hard r) (region r) (rloc r)
  end.
Definition set_fixedb (r : Rect) (b : bool) := mkRect (cx r) (cy r) (rw r) (rh r) b (hard r) (region r) (rloc r).
Definition set_hardb (r : Rect) (b : bool) := mkRect (cx r) (cy r) (rw r) (rh r) (fixed r) b (region r) (rloc r).
Definition set_region (r : Rect) (s : string) := mkRect (cx r) (cy r) (rw r) (rh r) (fixed r) (hard r) s (rloc r).

Fixpoint gset_nth (l : list Rect) (n : nat) (x : Rect) : list Rect :=
  match l, n with
  | [], _ => []
  | _ :: r, O => x :: r
  | y :: r, S m => y :: gset_nth r m x
  end.
Definition gupd (pool : list Rect) (i : nat) (f : Rect -> Rect) : list Rect :=
  match nth_error pool i with Some r => gset_nth pool i (f r) | None => pool end.

Definition pick {A} (second : bool) (p : A * A) : A := if second then snd p else fst p.
Definition derived_of (pool : list Rect) (d : derive) : option Rect :=
  match d with
  | DSplitH i x k => match nth_error pool i with
                     | Some r => option_map (pick k) (split_horizontal r x) | None => None end
  | DSplitV i y k => match nth_error pool i with
                     | Some r => option_map (pick k) (split_vertical r y) | None => None end
  | DSplit i k => match nth_error pool i with
                  | Some r => option_map (pick k) (split r) | None => None end
  | DInter i j => match nth_error pool i, nth_error pool j with
                  | Some r, Some s => inter r s | _, _ => None end
  | DGridCell i n m k => match nth_error pool i with
                         | Some r => match rectangle_grid r n m with
                                     | Some g => nth_error g k | None => None end
                         | None => None end
  end.

Definition gapply (pool : list Rect) (op : gop) : list Rect :=
  match op with
  | GSet _ i f v => gupd pool i (fun r => set_field r f v)
  | GFixed i b => gupd pool i (fun r => set_fixedb r b)
  | GHard i b => gupd pool i (fun r => set_hardb r b)
  | GRegion i s => gupd pool i (fun r => set_region r s)
  | GQuery _ => pool
  | GPush d => match derived_of pool d with Some r => pool ++ [r] | None => pool end
  end.

(* ---------- what a read returns, compared with what was observed ---------- *)
Inductive gobs :=
  | OQ (v : Qc) | OQ2 (v w : Qc) | OB (b : bool) | OB2 (b c : bool)
  | ORect2 (o p : option Rect)
  | OPair (o : option (Rect * Rect))
  | OList (k : Z) (scale : Qc) (o : option (list Rect))     (* k = 0: exact *)
  | OBox (x0 y0 x1 y1 a : Qc) (dup : Rect)
  | ONone.

Definition get1 (pool : list Rect) (i : nat) (f : Rect -> bool) : bool :=
  match nth_error pool i with Some r => f r | None => false end.
Definition get2 (pool : list Rect) (i j : nat) (f : Rect -> Rect -> bool) : bool :=
  match nth_error pool i, nth_error pool j with Some r, Some s => f r s | _, _ => false end.

Definition query_ok (pool : list Rect) (q : query) (o : gobs) : bool :=
  match q, o with
  | QOv i j, OQ2 v w =>
      get2 pool i j (fun r s => Qceqb (area_overlap r s) v && Qceqb (area_overlap s r) w)
  | QOverlap a i j, OB2 v w =>
      get2 pool i j (fun r s => Bool.eqb (overlap a r s) v && Bool.eqb (overlap a s r) w)
  | QInside i j, OB v => get2 pool i j (fun r s => Bool.eqb (is_inside r s) v)
  | QTouches e i j, OB2 v w =>
      get2 pool i j (fun r s => Bool.eqb (touches e r s) v && Bool.eqb (touches e s r) w)
  | QInter i j, ORect2 v w =>
      get2 pool i j (fun r s => opt_eqb rect_eqb (inter r s) v && opt_eqb rect_eqb (inter s r) w)
  | QEq i j, OB v => get2 pool i j (fun r s => Bool.eqb (req r s) v)
  | QPt i px py, OB v => get1 pool i (fun r => Bool.eqb (point_inside r px py) v)
  | QSplitH i x, OPair v =>
      get1 pool i (fun r => opt_eqb (pair_eqb rect_eqb rect_eqb) (split_horizontal r x) v)
  | QSplitV i y, OPair v =>
      get1 pool i (fun r => opt_eqb (pair_eqb rect_eqb rect_eqb) (split_vertical r y) v)
  | QSplit i, OPair v => get1 pool i (fun r => opt_eqb (pair_eqb rect_eqb rect_eqb) (split r) v)
  | QXcut i x q0, OB v => get1 pool i (fun r => Bool.eqb (x_cuttable r x q0) v)
  | QYcut i y q0, OB v => get1 pool i (fun r => Bool.eqb (y_cuttable r y q0) v)
  | QGrid i n m, OList k scale v =>
      get1 pool i (fun r =>
        if Z.eqb k 0 then opt_eqb (list_eqb rect_eqb) (rectangle_grid r n m) v
        else opt_eqb (list_eqb (rect_close k scale)) (rectangle_grid r n m) v)
  | QAr i, OQ v => get1 pool i (fun r => qclose_rel 4 (aspect_ratio r) v)
  | QBbox i, OBox x0 y0 x1 y1 a d =>
      get1 pool i (fun r => Qceqb (xmin r) x0 && Qceqb (ymin r) y0 && Qceqb (xmax r) x1 &&
                            Qceqb (ymax r) y1 && Qceqb (area r) a && rect_eqb (duplicate r) d)
  | _, _ => false
  end.

(* a recorded history: the operation, what the call returned, every object read back afterwards *)
Definition gstep : Type := (gop * gobs * list Rect)%type.

Fixpoint ghist_check (pool : list Rect) (steps : list gstep) : bool :=
  match steps with
  | [] => true
  | (op, o, post) :: rest =>
      let pool' := gapply pool op in
      match op with GQuery q => query_ok pool q o | _ => true end &&
      list_eqb rect_eqb pool' post && ghist_check pool' rest
  end.

(* ====================================================================== *)
(*                                 facts                                  *)
(* ====================================================================== *)
Lemma gset_nth_eq l n x : (n < List.length l)%nat -> nth_error (gset_nth l n x) n = Some x.
Proof. revert n; induction l as [|a l IH]; intros [|n] H; cbn in *; try lia; auto. apply IH. lia. Qed.
Lemma gset_nth_neq l n m x : m <> n -> nth_error (gset_nth l n x) m = nth_error l m.
Proof.
  revert n m; induction l as [|a l IH]; intros [|n] [|m] H; cbn; try reflexivity; try congruence.
  apply IH. congruence.
Qed.
Lemma gset_nth_length l n x : List.length (gset_nth l n x) = List.length l.
Proof. revert n; induction l as [|a l IH]; intros [|n]; cbn; auto. Qed.

Lemma gupd_other pool i f j : j <> i -> nth_error (gupd pool i f) j = nth_error pool j.
Proof. intro H. unfold gupd. destruct (nth_error pool i); [apply gset_nth_neq; exact H|reflexivity]. Qed.
Lemma gupd_same pool i f r : nth_error pool i = Some r -> nth_error (gupd pool i f) i = Some (f r).
Proof.
  intro H. unfold gupd. rewrite H. apply gset_nth_eq. apply nth_error_Some. congruence.
Qed.
Lemma gupd_length pool i f : List.length (gupd pool i f) = List.length pool.
Proof. unfold gupd. destruct (nth_error pool i); [apply gset_nth_length|reflexivity]. Qed.

(* a write reaches the named object only, and only the named field of it *)
Theorem gwrite_frame pool m i f v j : j <> i ->
  nth_error (gapply pool (GSet m i f v)) j = nth_error pool j.
Proof. apply gupd_other. Qed.
Theorem gwrite_field pool m i f v r : nth_error pool i = Some r ->
  exists r', nth_error (gapply pool (GSet m i f v)) i = Some r' /\
    get_field r' f = v /\ (forall f', f' <> f -> get_field r' f' = get_field r f') /\
    fixed r' = fixed r /\ hard r' = hard r /\ region r' = region r /\ rloc r' = rloc r.
Proof.
  intro H. exists (set_field r f v). split; [exact (gupd_same pool i (fun r => set_field r f v) r H)|].
  destruct f; cbn; (split; [reflexivity|]); (split; [intros [] E; try reflexivity; congruence|]); auto.
Qed.
Theorem gflag_frame pool i j : j <> i ->
  (forall b, nth_error (gapply pool (GFixed i b)) j = nth_error pool j) /\
  (forall b, nth_error (gapply pool (GHard i b)) j = nth_error pool j) /\
  (forall s, nth_error (gapply pool (GRegion i s)) j = nth_error pool j).
Proof. intro H. repeat split; intros; apply gupd_other; exact H. Qed.
(* the way the coordinate is written does not matter *)
Theorem gmech_irrelevant pool m m' i f v : gapply pool (GSet m i f v) = gapply pool (GSet m' i f v).
Proof. reflexivity. Qed.
(* a read changes nothing *)
Theorem gquery_pure pool q : gapply pool (GQuery q) = pool.
Proof. reflexivity. Qed.
(* a rectangle returned by a method becomes an object of its own: the old objects are as before,
   and later writes to its parent do not reach it *)
Theorem gpush_frame pool d j : (j < List.length pool)%nat ->
  nth_error (gapply pool (GPush d)) j = nth_error pool j.
Proof.
  intro H. cbn [gapply]. destruct (derived_of pool d); [|reflexivity]. apply nth_error_app1. exact H.
Qed.
Theorem gpush_independent pool d r m i f v :
  derived_of pool d = Some r -> (i < List.length pool)%nat ->
  nth_error (gapply (gapply pool (GPush d)) (GSet m i f v)) (List.length pool) = Some r.
Proof.
  intros D H. cbn [gapply]. rewrite D. rewrite gupd_other by lia.
  rewrite nth_error_app2 by lia. rewrite Nat.sub_diag. reflexivity.
Qed.

(* an accepted record: every read returned what the method returns on the values the objects
   have after the preceding operations of the record *)
Theorem ghist_check_reads steps : forall pool, ghist_check pool steps = true ->
  forall pre q o post rest, steps = pre ++ (GQuery q, o, post) :: rest ->
    query_ok (fold_left gapply (map (fun s : gstep => fst (fst s)) pre) pool) q o = true.
Proof.
  induction steps as [|[[op o0] post0] steps IH]; intros pool H pre q o post rest E.
  - destruct pre; discriminate.
  - cbn [ghist_check] in H. apply andb_true_iff in H. destruct H as [H H3].
    apply andb_true_iff in H. destruct H as [H1 H2].
    destruct pre as [|s pre].
    + cbn in E. injection E as E1 E2 E3 E4. subst. cbn. exact H1.
    + cbn in E. injection E as E1 E2. subst. cbn [map fold_left fst]. eapply IH; eauto.
Qed.
