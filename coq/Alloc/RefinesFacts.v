(* The refinement relation between allocations: every cell is replaced, in
   place, by cells that tile it, inherit its occupancy map and conserve its
   first moments.  All three refinement operations produce such a relation;
   conservation of module area / centroid and acceptance by the constructor
   are consequences of the relation alone (C02). *)
From FrameModel Require Import Num.QcTac Geometry.Rect Geometry.RectFacts Geometry.SplitFacts
  Alloc.Alloc Alloc.GeomExtra.
Open Scope list_scope.
Open Scope Qc_scope.
Local Notation concat := List.concat.

Definition carea (c : cell) : Qc := area (crect c).
Definition cmx (c : cell) : Qc := area (crect c) * cx (crect c).
Definition cmy (c : cell) : Qc := area (crect c) * cy (crect c).

Record cell_refines (c : cell) (ps : list cell) : Prop := mkCR {
  cr_alloc : Forall (fun p => calloc p = calloc c) ps;
  cr_wf : Forall (fun p => wf (crect p)) ps;
  cr_inside : Forall (fun p => is_inside (crect p) (crect c) = true) ps;
  cr_attrs : Forall (fun p => same_attrs (crect c) (crect p)) ps;
  cr_disj : pairwise_no_ov (map crect ps);
  cr_area : Qcsum (map carea ps) = carea c;
  cr_mx : Qcsum (map cmx ps) = cmx c;
  cr_my : Qcsum (map cmy ps) = cmy c;
  cr_depth : Forall (fun p => (cdepth c <= cdepth p)%nat) ps;
  cr_fixed : fixed (crect c) = true -> ps = [c]
}.

(* cells' is obtained from cells by replacing each cell by its pieces, in order *)
Definition refines (cells cells' : list cell) : Prop :=
  exists parts, Forall2 cell_refines cells parts /\ cells' = concat parts.

Lemma same_attrs_refl r : same_attrs r r.
Proof. unfold same_attrs. auto. Qed.
Lemma same_attrs_trans a b c : same_attrs a b -> same_attrs b c -> same_attrs a c.
Proof. unfold same_attrs. intros (A1 & A2 & A3) (B1 & B2 & B3). repeat split; congruence. Qed.

Lemma cell_refines_refl c : wf (crect c) -> cell_refines c [c].
Proof.
  intro W. constructor.
  - repeat constructor.
  - repeat constructor; apply W.
  - repeat constructor. apply is_inside_refl.
  - repeat constructor; apply same_attrs_refl.
  - cbn. auto.
  - cbn. unfold carea. ring.
  - cbn. ring.
  - cbn. ring.
  - repeat constructor.
  - reflexivity.
Qed.

(* ---- sums over concatenations ---- *)
Lemma Qcsum_map_app {A} (f : A -> Qc) l1 l2 :
  Qcsum (map f (l1 ++ l2)) = Qcsum (map f l1) + Qcsum (map f l2).
Proof. rewrite map_app. apply Qcsum_app. Qed.
Lemma Qcsum_concat {A} (f : A -> Qc) (ls : list (list A)) :
  Qcsum (map f (concat ls)) = Qcsum (map (fun l => Qcsum (map f l)) ls).
Proof.
  induction ls as [|l ls IH]; cbn [concat map Qcsum]; [reflexivity|].
  rewrite Qcsum_map_app, IH. reflexivity.
Qed.

Lemma pairwise_app (l1 l2 : list Rect) :
  pairwise_no_ov l1 -> pairwise_no_ov l2 ->
  (forall a b, In a l1 -> In b l2 -> area_overlap a b = 0) ->
  pairwise_no_ov (l1 ++ l2).
Proof.
  induction l1 as [|x l1 IH]; intros H1 H2 H; cbn [app]; [exact H2|].
  destruct H1 as [Hx H1]. split.
  - apply Forall_app. split; [exact Hx|]. apply Forall_forall. intros b Hb. apply H; [left; reflexivity|exact Hb].
  - apply IH; auto. intros a b Ha Hb. apply H; [right; exact Ha|exact Hb].
Qed.
Lemma pairwise_in (l : list Rect) : pairwise_no_ov l ->
  forall i j a b, (i < j)%nat -> nth_error l i = Some a -> nth_error l j = Some b -> area_overlap a b = 0.
Proof.
  induction l as [|x l IH]; intros H i j a b Hij Hi Hj; [destruct i; discriminate|].
  destruct H as [Hx H]. destruct i as [|i]; cbn in Hi.
  - injection Hi as <-. destruct j as [|j]; [lia|]. cbn in Hj.
    rewrite Forall_forall in Hx. apply Hx. eapply nth_error_In; exact Hj.
  - destruct j as [|j]; [lia|]. cbn in Hj. apply (IH H i j); auto. lia.
Qed.

Lemma Forall2_In_r_ex {A B} (R : A -> B -> Prop) l1 l2 : Forall2 R l1 l2 ->
  forall y, In y l2 -> exists x, In x l1 /\ R x y.
Proof.
  induction 1 as [|a b l1 l2 H F IH]; intros y Hy; [destruct Hy|].
  destruct Hy as [<-|Hy]; [exists a; split; [left; reflexivity|exact H]|].
  destruct (IH y Hy) as (x & Hx & Hr). exists x. split; [right; exact Hx|exact Hr].
Qed.
Lemma Forall2_In_l_ex {A B} (R : A -> B -> Prop) l1 l2 : Forall2 R l1 l2 ->
  forall x, In x l1 -> exists y, In y l2 /\ R x y.
Proof.
  induction 1 as [|a b l1 l2 H F IH]; intros x Hx; [destruct Hx|].
  destruct Hx as [<-|Hx]; [exists b; split; [left; reflexivity|exact H]|].
  destruct (IH x Hx) as (y & Hy & Hr). exists y. split; [right; exact Hy|exact Hr].
Qed.

(* ---- transitivity: pieces of pieces ---- *)
Lemma cell_refines_concat c ps pss :
  cell_refines c ps -> Forall2 cell_refines ps pss -> cell_refines c (concat pss).
Proof.
  intros [Ca Cw Ci Ct Cd Csa Csx Csy Cdp Cf] F.
  constructor.
  - (* alloc *)
    clear - Ca F. induction F as [|p qs ps pss Hp F IH]; cbn [concat]; [constructor|].
    inversion Ca; subst. apply Forall_app. split; [|apply IH; assumption].
    eapply Forall_impl; [|apply (cr_alloc _ _ Hp)]. cbn. intros; congruence.
  - clear - F. induction F as [|p qs ps pss Hp F IH]; cbn [concat]; [constructor|].
    apply Forall_app. split; [apply (cr_wf _ _ Hp)|exact IH].
  - clear - Ci F. induction F as [|p qs ps pss Hp F IH]; cbn [concat]; [constructor|].
    inversion Ci; subst. apply Forall_app. split; [|apply IH; assumption].
    eapply Forall_impl; [|apply (cr_inside _ _ Hp)]. cbn. intros q Hq. eapply is_inside_trans; eauto.
  - clear - Ct F. induction F as [|p qs ps pss Hp F IH]; cbn [concat]; [constructor|].
    inversion Ct; subst. apply Forall_app. split; [|apply IH; assumption].
    eapply Forall_impl; [|apply (cr_attrs _ _ Hp)]. cbn. intros q Hq. eapply same_attrs_trans; eauto.
  - (* disjointness *)
    clear - Cd F. induction F as [|p qs ps pss Hp F IH]; cbn [concat]; [exact I|].
    cbn [map pairwise_no_ov] in Cd. destruct Cd as [Cp Cd].
    rewrite map_app. apply pairwise_app; [apply (cr_disj _ _ Hp)|apply IH; exact Cd|].
    intros a b Ha Hb. apply in_map_iff in Ha. destruct Ha as (qa & <- & Ha).
    apply in_map_iff in Hb. destruct Hb as (qb & <- & Hb).
    apply in_concat in Hb. destruct Hb as (grp & Hgrp & Hqb).
    destruct (Forall2_In_r_ex _ _ _ F grp Hgrp) as (p' & Hp' & Hr').
    rewrite Forall_forall in Cp. specialize (Cp (crect p') (in_map crect _ _ Hp')).
    pose proof (cr_inside _ _ Hp) as I1. rewrite Forall_forall in I1.
    pose proof (cr_inside _ _ Hr') as I2. rewrite Forall_forall in I2.
    eapply ov_zero_inside; [apply I1; exact Ha|apply I2; exact Hqb|exact Cp].
  - rewrite Qcsum_concat. rewrite <- Csa. clear - F.
    induction F as [|p qs ps pss Hp F IH]; cbn [map Qcsum]; [reflexivity|]. rewrite IH, (cr_area _ _ Hp). reflexivity.
  - rewrite Qcsum_concat. rewrite <- Csx. clear - F.
    induction F as [|p qs ps pss Hp F IH]; cbn [map Qcsum]; [reflexivity|]. rewrite IH, (cr_mx _ _ Hp). reflexivity.
  - rewrite Qcsum_concat. rewrite <- Csy. clear - F.
    induction F as [|p qs ps pss Hp F IH]; cbn [map Qcsum]; [reflexivity|]. rewrite IH, (cr_my _ _ Hp). reflexivity.
  - clear - Cdp F. induction F as [|p qs ps pss Hp F IH]; cbn [concat]; [constructor|].
    inversion Cdp; subst. apply Forall_app. split; [|apply IH; assumption].
    eapply Forall_impl; [|apply (cr_depth _ _ Hp)]. cbn. intros; lia.
  - intro Hfx. specialize (Cf Hfx). subst ps. inversion F as [|? qs ? rest Hp F']; subst.
    inversion F'; subst. cbn [concat]. rewrite app_nil_r. apply (cr_fixed _ _ Hp Hfx).
Qed.

(* ---- reflexivity / transitivity of [refines] ---- *)
Lemma refines_refl cells : Forall (fun c => wf (crect c)) cells -> refines cells cells.
Proof.
  intro H. exists (map (fun c => [c]) cells). split.
  - induction H as [|c cells Hc H IH]; cbn; constructor; [apply cell_refines_refl; exact Hc|exact IH].
  - clear H. induction cells as [|c cells IH]; cbn; [reflexivity|]. f_equal. exact IH.
Qed.

Lemma Forall2_concat_split {A B} (R : A -> B -> Prop) (ls : list (list A)) : forall ys,
  Forall2 R (concat ls) ys -> exists yss, Forall2 (Forall2 R) ls yss /\ ys = concat yss.
Proof.
  induction ls as [|l ls IH]; intros ys H; cbn [concat] in H.
  - inversion H; subst. exists []. split; [constructor|reflexivity].
  - apply Forall2_app_inv_l in H. destruct H as (y1 & y2 & H1 & H2 & ->).
    destruct (IH _ H2) as (yss & F & ->). exists (y1 :: yss). split; [constructor; assumption|reflexivity].
Qed.

Lemma refines_trans a b c : refines a b -> refines b c -> refines a c.
Proof.
  intros (p1 & F1 & ->) (p2 & F2 & ->).
  destruct (Forall2_concat_split _ _ _ F2) as (yss & F & ->).
  exists (map (@List.concat cell) yss). split.
  - clear F2. revert yss F. induction F1 as [|x ps a p1 Hx F1 IH]; intros yss F; inversion F; subst; cbn [map]; constructor.
    + eapply cell_refines_concat; eauto.
    + apply IH. assumption.
  - clear. induction yss as [|y yss IH]; cbn; [reflexivity|]. rewrite concat_app, IH. reflexivity.
Qed.

(* ---- conservation of module area and first moments ---- *)
Lemma Qcsum_scal {A} (k : Qc) (f : A -> Qc) l :
  Qcsum (map (fun x => k * f x) l) = k * Qcsum (map f l).
Proof. induction l as [|x l IH]; cbn [map Qcsum]; [ring|]. rewrite IH. ring. Qed.
Lemma Qcsum_ext {A} (f g : A -> Qc) l : Forall (fun x => f x = g x) l ->
  Qcsum (map f l) = Qcsum (map g l).
Proof. induction 1 as [|x l H F IH]; cbn [map Qcsum]; [reflexivity|]. rewrite H, IH. reflexivity. Qed.

Lemma ratio_alloc m p c : calloc p = calloc c -> ratio m p = ratio m c.
Proof. unfold ratio. intros ->. reflexivity. Qed.

Lemma pieces_area m c ps : cell_refines c ps -> area_of m ps = ratio m c * carea c.
Proof.
  intro H. unfold area_of. rewrite <- (cr_area _ _ H), <- Qcsum_scal. apply Qcsum_ext.
  eapply Forall_impl; [|apply (cr_alloc _ _ H)]. cbn. intros p Hp. rewrite (ratio_alloc m p c Hp). reflexivity.
Qed.
Lemma pieces_momx m c ps : cell_refines c ps -> momx_of m ps = ratio m c * cmx c.
Proof.
  intro H. unfold momx_of. rewrite <- (cr_mx _ _ H), <- Qcsum_scal. apply Qcsum_ext.
  eapply Forall_impl; [|apply (cr_alloc _ _ H)]. cbn. intros p Hp. rewrite (ratio_alloc m p c Hp). unfold cmx. ring.
Qed.
Lemma pieces_momy m c ps : cell_refines c ps -> momy_of m ps = ratio m c * cmy c.
Proof.
  intro H. unfold momy_of. rewrite <- (cr_my _ _ H), <- Qcsum_scal. apply Qcsum_ext.
  eapply Forall_impl; [|apply (cr_alloc _ _ H)]. cbn. intros p Hp. rewrite (ratio_alloc m p c Hp). unfold cmy. ring.
Qed.

Theorem refines_area m cells cells' : refines cells cells' -> area_of m cells' = area_of m cells.
Proof.
  intros (parts & F & ->). unfold area_of at 1. rewrite Qcsum_concat.
  induction F as [|c ps cells parts Hc F IH]; cbn [map Qcsum]; [reflexivity|].
  rewrite IH. fold (area_of m ps). rewrite (pieces_area m c ps Hc). unfold area_of, carea. cbn [map Qcsum]. reflexivity.
Qed.
Theorem refines_momx m cells cells' : refines cells cells' -> momx_of m cells' = momx_of m cells.
Proof.
  intros (parts & F & ->). unfold momx_of at 1. rewrite Qcsum_concat.
  induction F as [|c ps cells parts Hc F IH]; cbn [map Qcsum]; [reflexivity|].
  rewrite IH. fold (momx_of m ps). rewrite (pieces_momx m c ps Hc). unfold momx_of, cmx. cbn [map Qcsum]. ring.
Qed.
Theorem refines_momy m cells cells' : refines cells cells' -> momy_of m cells' = momy_of m cells.
Proof.
  intros (parts & F & ->). unfold momy_of at 1. rewrite Qcsum_concat.
  induction F as [|c ps cells parts Hc F IH]; cbn [map Qcsum]; [reflexivity|].
  rewrite IH. fold (momy_of m ps). rewrite (pieces_momy m c ps Hc). unfold momy_of, cmy. cbn [map Qcsum]. ring.
Qed.
Theorem refines_center m cells cells' : refines cells cells' -> center_of m cells' = center_of m cells.
Proof.
  intro H. unfold center_of. rewrite (refines_area m _ _ H), (refines_momx m _ _ H), (refines_momy m _ _ H). reflexivity.
Qed.
