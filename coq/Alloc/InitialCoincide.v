(* C03 on coincidences (Geometry/RectCoincide.v): a module whose single rectangle (or default
   square) shares the centre or a corner with a refinable cell - whatever else the two have in
   common: the area, a side, the perimeter - is recorded in that cell with min(w) * min(h) / area,
   and with ratio 1 only if the cell lies inside the rectangle. *)
From FrameModel Require Import Num.QcTac Geometry.Rect Geometry.RectFacts Geometry.RectCoincide
  Alloc.Alloc Alloc.Initial Alloc.InitialGeom Alloc.InitialFacts.
Open Scope list_scope.
Open Scope Qc_scope.

Lemma covered_single c s : covered c [s] = area_overlap c s.
Proof. unfold covered; cbn [map Qcsum]. ring. Qed.

Theorem ia_ratio_anchored sqrt_o feps ceps aeps inc0 R Fx mods out :
  compatible sqrt_o R Fx mods -> 0 < feps -> feps < 1 ->
  initial_allocation sqrt_o feps ceps aeps inc0 R Fx mods = Accept out ->
  forall c, In c R -> exists cell, In cell out /\ crect cell = c /\
    forall m s, In m mods -> shape sqrt_o m = [s] -> wf c -> wf s ->
      (forall a, anchored a c s ->
         ratio (mname m) cell = Qcmin (rw c) (rw s) * Qcmin (rh c) (rh s) / area c) /\
      (ratio (mname m) cell = 1 <-> is_inside c s = true).
Proof.
  intros Hc H0 H1 Ha c Hin.
  destruct (ia_ratio sqrt_o feps ceps aeps inc0 R Fx mods out Hc H0 H1 Ha c Hin) as (cell & I & E & _ & Hr).
  exists cell. split; [exact I|]. split; [exact E|].
  intros m s Hm Hs Wc Ws. destruct (Hr m Hm) as (Er & _). rewrite Hs, covered_single in Er. split.
  - intros a An. rewrite Er, (anchored_overlap a c s Wc Ws An). reflexivity.
  - rewrite Er, <- (full_overlap_iff_inside c s Wc).
    assert (Pa : 0 < area c) by (destruct Wc; unfold area; qnra).
    assert (Na : area c <> 0) by (intro Z; rewrite Z in Pa; qlra).
    split; intro H.
    + assert (area_overlap c s = area_overlap c s / area c * area c) as -> by (field; exact Na).
      rewrite H. ring.
    + rewrite H. field. exact Na.
Qed.
