(* C12: refinement decisions are consistent and exact. *)
From FrameModel Require Import Num.QcTac Geometry.Rect Geometry.RectFacts Geometry.SplitFacts
  Alloc.Alloc Alloc.GeomExtra Alloc.RefinesFacts Alloc.AcceptFacts Alloc.OpsFacts.
Open Scope list_scope.
Open Scope Qc_scope.
Local Notation concat := List.concat.

Lemma concat_opt_map_inv {A B} (f : A -> option (list B)) l : forall new,
  concat_opt (map f l) = Some new ->
  exists parts, Forall2 (fun c ps => f c = Some ps) l parts /\ new = concat parts.
Proof.
  induction l as [|c l IH]; intros new H; cbn [map concat_opt] in H.
  - injection H as <-. exists []. split; [constructor|reflexivity].
  - destruct (f c) as [ps|] eqn:E; [|discriminate].
    destruct (concat_opt (map f l)) as [rest|] eqn:E'; [|discriminate]. injection H as <-.
    destruct (IH rest eq_refl) as (parts & F & ->). exists (ps :: parts). split; [constructor; assumption|reflexivity].
Qed.

(* what refine does to one cell *)
Definition refine_cell_spec (t : Qc) (levels : nat) (c : cell) (ps : list cell) : Prop :=
  if splittable t c then
    List.length ps = (2 ^ levels)%nat /\ cell_refines c ps /\
    Forall (fun p => cdepth p = (cdepth c + levels)%nat /\ carea p = carea c * hpow levels /\
                     calloc p = calloc c) ps /\
    split_alloc (crect c) (calloc c) (cdepth c) levels = Some ps
  else ps = [c].

Theorem refine_exact t levels cells new : Forall (fun c => wf (crect c)) cells ->
  refine_cells t levels cells = Some new ->
  exists parts, new = concat parts /\ Forall2 (refine_cell_spec t levels) cells parts.
Proof.
  intros W H. unfold refine_cells in H. apply concat_opt_map_inv in H. destruct H as (parts & F & ->).
  exists parts. split; [reflexivity|]. revert W. induction F as [|c ps cells parts Hc F IH]; intro W; constructor.
  - inversion W as [|? ? Wc W']; subst. unfold refine_cell_spec. destruct (splittable t c) eqn:E.
    + destruct (split_alloc_refines levels (crect c) (calloc c) (cdepth c) Wc (or_intror (splittable_not_fixed _ _ E)))
        as (ps' & S' & R & L & P). rewrite S' in Hc. injection Hc as <-. rewrite cell_eta in R.
      split; [exact L|]. split; [exact R|]. split; [|exact S'].
      pose proof (cr_alloc _ _ R) as Al. rewrite Forall_forall in *. intros p Hp. destruct (P p Hp) as [P1 P2].
      split; [exact P1|]. split; [exact P2|]. apply Al. exact Hp.
    + cbn [split_alloc] in Hc. injection Hc as <-. rewrite cell_eta. reflexivity.
  - apply IH. inversion W; assumption.
Qed.

(* must_be_refined(t) = False: refining at t is the identity *)
Theorem mbr_false_identity t levels cells :
  must_be_refined t cells = false -> refine_cells t levels cells = Some cells.
Proof.
  unfold must_be_refined, refine_cells. induction cells as [|c cells IH]; cbn [existsb map concat_opt]; [reflexivity|].
  intro H. apply orb_false_iff in H. destruct H as [Hc H]. rewrite Hc. cbn [split_alloc]. rewrite (IH H), cell_eta. reflexivity.
Qed.

Lemma pow2_ge2 l : (0 < l)%nat -> (2 <= 2 ^ l)%nat.
Proof. destruct l; [lia|]. intros _. cbn [Nat.pow]. pose proof (Nat.pow_nonzero 2 l). lia. Qed.

(* must_be_refined(t) = True: refining at t strictly increases the number of cells *)
Theorem mbr_true_progress t levels cells new : Forall (fun c => wf (crect c)) cells -> (0 < levels)%nat ->
  must_be_refined t cells = true -> refine_cells t levels cells = Some new ->
  (List.length cells < List.length new)%nat.
Proof.
  intros W Hl M H. destruct (refine_exact t levels cells new W H) as (parts & -> & F).
  unfold must_be_refined in M. clear H W.
  assert (G : (List.length cells <= List.length (concat parts))%nat /\
              (existsb (splittable t) cells = true -> (List.length cells < List.length (concat parts))%nat)).
  { clear M. induction F as [|c ps cells parts Hc F [IH1 IH2]]; cbn [concat List.length existsb]; [split; [lia|discriminate]|].
    rewrite app_length. unfold refine_cell_spec in Hc. destruct (splittable t c) eqn:E.
    - destruct Hc as (L & _). pose proof (pow2_ge2 levels Hl). cbn [orb]. split; [lia|intros _; lia].
    - subst ps. cbn [List.length orb]. split; [lia|]. intro H. specialize (IH2 H). lia. }
  apply G. exact M.
Qed.

(* must_be_refined is exactly "refining changes the allocation" *)
Theorem mbr_iff_changes t levels cells new : Forall (fun c => wf (crect c)) cells -> (0 < levels)%nat ->
  refine_cells t levels cells = Some new ->
  (must_be_refined t cells = true <-> new <> cells).
Proof.
  intros W Hl H. split.
  - intros M E. subst new. pose proof (mbr_true_progress t levels cells cells W Hl M H). lia.
  - intro Hne. destruct (must_be_refined t cells) eqn:M; [reflexivity|].
    rewrite (mbr_false_identity t levels cells M) in H. congruence.
Qed.

(* ---- uniform depth ---- *)
Lemma max_depth_ge cells c : In c cells -> (cdepth c <= max_depth cells)%nat.
Proof.
  induction cells as [|x cells IH]; [intros []|]. cbn [max_depth fold_right]. intros [<-|H].
  - apply Nat.le_max_l.
  - fold (max_depth cells). specialize (IH H). lia.
Qed.

Lemma Forall2_impl_in {A B} (R Q : A -> B -> Prop) l1 l2 :
  Forall2 R l1 l2 -> (forall a b, In a l1 -> R a b -> Q a b) -> Forall2 Q l1 l2.
Proof.
  induction 1 as [|a b l1 l2 H F IH]; intro Himp; constructor.
  - apply Himp; [left; reflexivity|exact H].
  - apply IH. intros x y Hx. apply Himp. right. exact Hx.
Qed.

Definition uniform_cell_spec (md : nat) (c : cell) (ps : list cell) : Prop :=
  cell_refines c ps /\ (fixed (crect c) = true -> ps = [c]) /\ (cdepth c = md -> ps = [c]) /\
  Forall (fun p => fixed (crect p) = false -> cdepth p = md) ps.

Theorem uniform_exact cells new : Forall (fun c => wf (crect c)) cells ->
  uniform_cells cells = Some new ->
  exists parts, new = concat parts /\ Forall2 (uniform_cell_spec (max_depth cells)) cells parts.
Proof.
  intros W H. unfold uniform_cells in H. apply concat_opt_map_inv in H. destruct H as (parts & F & ->).
  exists parts. split; [reflexivity|]. eapply Forall2_impl_in; [exact F|].
  intros c ps Hin S. cbv beta in S. rewrite Forall_forall in W. pose proof (W c Hin) as Wc.
  pose proof (max_depth_ge cells c Hin) as Hd. unfold uniform_cell_spec. destruct (fixed (crect c)) eqn:E.
  - cbn [split_alloc] in S. rewrite cell_eta in S. injection S as <-.
    split; [apply cell_refines_refl; exact Wc|]. split; [reflexivity|]. split; [reflexivity|].
    constructor; [|constructor]. intro H. congruence.
  - destruct (split_alloc_refines (max_depth cells - cdepth c) (crect c) (calloc c) (cdepth c) Wc (or_intror E))
      as (ps' & S' & R & L & P). rewrite S' in S. injection S as <-. rewrite cell_eta in R.
    split; [exact R|]. split; [intro; congruence|]. split.
    + intro Hm. replace (max_depth cells - cdepth c)%nat with 0%nat in S' by lia. cbn [split_alloc] in S'. rewrite cell_eta in S'. injection S' as <-. reflexivity.
    + eapply Forall_impl; [|exact P]. cbn. intros p [P1 _] _. lia.
Qed.

Corollary uniform_all_at_max cells new : Forall (fun c => wf (crect c)) cells ->
  uniform_cells cells = Some new ->
  Forall (fun p => fixed (crect p) = false -> cdepth p = max_depth cells) new.
Proof.
  intros W H. destruct (uniform_exact cells new W H) as (parts & -> & F).
  clear W H. generalize dependent (max_depth cells). intros md F.
  induction F as [|c ps cs parts' Hc F IH]; cbn [concat]; [constructor|].
  destruct Hc as (_ & _ & _ & Hc). apply Forall_app. split; [exact Hc|exact IH].
Qed.
