(* Object histories around create_initial_allocation (frame/allocation/allocation.py,
   frame/netlist/module.py, frame/netlist/netlist.py, frame/geometry/geometry.py).

   The netlist handed to create_initial_allocation is a graph of mutable objects: Module
   objects holding Rectangle objects holding a Point (centre) and a Shape.  Before an
   allocation is computed the objects may have been read (bounding_box, area_overlap,
   find_location), relabelled and reordered (Module.create_stog), allocated once already
   (which gives every module without rectangles a square: Netlist.create_squares), and
   moved or resized through the public API: attribute assignment on the Point / Shape the
   rectangle holds (r.center.x = v, r.center.x += d, r.shape.w = v), the centre / shape
   setters (r.center = Point(..)), the module centre (m.center = Point(..), m.center.x = v)
   and Module.recenter_rectangles.

   Model: the state is the list of modules with their CURRENT VALUES ([nmod] of
   Alloc/Initial.v) plus one bit of aliasing that the code really has: create_square builds
   Rectangle(center=self.center, ...), so the square's centre IS the module's centre object
   until either is replaced through a setter; an in-place write to one is a write to the
   other.  The die's cells (R, Fx) are constants of a history (see [NAlloc]).
   [run_nhist] threads the state through a list of operations and records, for every
   allocation, the state it was computed from and its result; by construction and by
   [nhist_allocs_current] the result is [initial_allocation] of the current values, so the
   theorems of Properties/C03.v (stated for all R, Fx, mods) apply at every point of every
   history.  [ia_twice]: allocating again after an allocation gives the same answer. *)
From FrameModel Require Import Num.QcTac Geometry.Rect Alloc.Alloc Alloc.Initial Alloc.InitialFacts
  Stog.CreateStog.
Open Scope list_scope.
Open Scope Qc_scope.

(* how a coordinate is written *)
Inductive wmech := WInPlace | WSetter.

Record hmod := mkH {
  hbase : nmod;
  hshared : bool   (* m.rectangles[0].center is m.center  (left by create_square) *)
}.

Inductive nop :=
  | NProbe                                            (* reads only: bounding_box, area_overlap, find_location *)
  | NAlloc (inc0 : bool)                              (* create_initial_allocation(die, inc0) *)
  | NMoveRect (m : wmech) (mi ri : nat) (x y : Qc)    (* centre of rectangle ri of module mi := (x, y) *)
  | NResizeRect (m : wmech) (mi ri : nat) (w h : Qc)  (* shape of rectangle ri of module mi := (w, h) *)
  | NSetCenter (m : wmech) (mi : nat) (x y : Qc)      (* centre of module mi := (x, y) *)
  | NRecenter (mi : nat)                              (* modules[mi].recenter_rectangles() *)
  | NCreateStog (mi : nat).                           (* modules[mi].create_stog() *)

Definition rset_center (r : Rect) (x y : Qc) : Rect :=
  mkRect x y (rw r) (rh r) (fixed r) (hard r) (region r) (rloc r).
Definition rset_shape (r : Rect) (w h : Qc) : Rect :=
  mkRect (cx r) (cy r) w h (fixed r) (hard r) (region r) (rloc r).
Definition set_mcenter (m : nmod) (c : option (Qc * Qc)) : nmod :=
  mkMod (mname m) (mfixed m) (mhard m) (marea m) c (mrects m).

Fixpoint set_at {A} (l : list A) (n : nat) (x : A) : list A :=
  match l, n with
  | [], _ => []
  | _ :: r, O => x :: r
  | y :: r, S k => y :: set_at r k x
  end.

(* ---- Module.recenter_rectangles ---- *)
Definition rects_area (rs : list Rect) : Qc := Qcsum (map area rs).
Definition rects_momx (rs : list Rect) : Qc := Qcsum (map (fun r => cx r * area r) rs).
Definition rects_momy (rs : list Rect) : Qc := Qcsum (map (fun r => cy r * area r) rs).
Definition translate (dx dy : Qc) (r : Rect) : Rect := rset_center r (cx r + dx) (cy r + dy).

(* ---- Netlist.create_squares as far as it gets: the loop stops at the first module whose
        create_square raises; the squares made before stay ---- *)
Section Hist.
  Variable sqrt_o : Qc -> Qc.
  Variables feps ceps aeps : Qc.       (* as in Alloc/Initial.v *)
  Variables seps saeps : Qc.           (* the class-wide distance / area tolerance create_stog reads *)
  Variables R Fx : list Rect.          (* die.floorplanning_rectangles() *)

  Fixpoint squares_partial (ms : list hmod) : list hmod :=
    match ms with
    | [] => []
    | h :: rest =>
        match mrects (hbase h) with
        | [] => match create_square sqrt_o (hbase h) with
                | Some r => mkH (set_rects (hbase h) [r]) true :: squares_partial rest
                | None => h :: rest
                end
        | _ => h :: squares_partial rest
        end
    end.

  (* one operation: the new state, and whether the call raised (state then as far as it got) *)
  Definition on_mod (ms : list hmod) (mi : nat) (f : hmod -> option hmod) : list hmod * bool :=
    match nth_error ms mi with
    | None => (ms, true)
    | Some h => match f h with
                | Some h' => (set_at ms mi h', false)
                | None => (ms, true)
                end
    end.

  Definition move_rect (m : wmech) (ri : nat) (x y : Qc) (h : hmod) : option hmod :=
    match nth_error (mrects (hbase h)) ri with
    | None => None
    | Some r =>
        let b := set_rects (hbase h) (set_at (mrects (hbase h)) ri (rset_center r x y)) in
        match m, ri with
        | WInPlace, O => if hshared h then Some (mkH (set_mcenter b (Some (x, y))) true)
                         else Some (mkH b false)
        | WSetter, O => Some (mkH b false)
        | _, _ => Some (mkH b (hshared h))
        end
    end.

  Definition resize_rect (ri : nat) (w h0 : Qc) (h : hmod) : option hmod :=
    match nth_error (mrects (hbase h)) ri with
    | None => None
    | Some r => Some (mkH (set_rects (hbase h) (set_at (mrects (hbase h)) ri (rset_shape r w h0))) (hshared h))
    end.

  Definition set_center (m : wmech) (x y : Qc) (h : hmod) : option hmod :=
    match m with
    | WSetter => Some (mkH (set_mcenter (hbase h) (Some (x, y))) false)
    | WInPlace =>
        match mcenter (hbase h) with
        | None => None                                   (* None has no attribute x *)
        | Some _ =>
            let b := set_mcenter (hbase h) (Some (x, y)) in
            if hshared h then
              match mrects b with
              | r :: rest => Some (mkH (set_rects b (rset_center r x y :: rest)) true)
              | [] => Some (mkH b true)
              end
            else Some (mkH b false)
        end
    end.

  Definition recenter (h : hmod) : option hmod :=
    let b := hbase h in
    match mcenter b with
    | Some (x, y) =>
        if mhard b && negb (mfixed b) then
          let a := rects_area (mrects b) in
          if Qceqb a 0 then None else
          let dx := x - rects_momx (mrects b) / a in
          let dy := y - rects_momy (mrects b) / a in
          let rs := map (translate dx dy) (mrects b) in
          let b' := set_rects b rs in
          if hshared h then
            match rs with
            | r :: _ => Some (mkH (set_mcenter b' (Some (cx r, cy r))) true)
            | [] => Some (mkH b' true)
            end
          else Some (mkH b' false)
        else None
    | None => None
    end.

  Definition restog (h : hmod) : option hmod :=
    match create_stog seps saeps (mrects (hbase h)) with
    | Some (_, out) => Some (mkH (set_rects (hbase h) out) (hshared h))
    | None => None
    end.

  Definition alloc_result (inc0 : bool) (ms : list hmod) : result :=
    initial_allocation sqrt_o feps ceps aeps inc0 R Fx (map hbase ms).
  Definition alloc_raised (inc0 : bool) (ms : list hmod) : bool :=
    match alloc_result inc0 ms with Accept _ => false | Reject _ => true end.

  (* the die's cells do not change: the cells of the fixed modules are flagged fixed from the
     start (they ARE the fixed modules' rectangles) and no refinable cell is ever covered by a
     fixed module of a valid die; the harness checks after every operation that they are as before *)
  Definition apply_nop (ms : list hmod) (op : nop) : list hmod * bool :=
    match op with
    | NProbe => (ms, false)
    | NAlloc inc0 =>
        (match mk_allocation aeps (init_cells R Fx) with
         | None => ms
         | Some _ => squares_partial ms
         end, alloc_raised inc0 ms)
    | NMoveRect m mi ri x y => on_mod ms mi (move_rect m ri x y)
    | NResizeRect _ mi ri w h => on_mod ms mi (resize_rect ri w h)
    | NSetCenter m mi x y => on_mod ms mi (set_center m x y)
    | NRecenter mi => on_mod ms mi recenter
    | NCreateStog mi => on_mod ms mi restog
    end.

  (* one record per allocation: the state it was computed from, the option, the result *)
  Fixpoint run_nhist (ms : list hmod) (ops : list nop) : list (list hmod * bool * result) :=
    match ops with
    | [] => []
    | op :: rest =>
        match op with
        | NAlloc inc0 => [(ms, inc0, alloc_result inc0 ms)]
        | _ => []
        end ++ run_nhist (fst (apply_nop ms op)) rest
    end.

  (* ---------------------------------------------------------------- *)
  (*                              facts                               *)
  (* ---------------------------------------------------------------- *)

  (* every allocation of every history is initial_allocation of the values the modules have at
     that moment: nothing else of the history is read *)
  Theorem nhist_allocs_current ops : forall ms,
    Forall (fun s => match s with (st, inc0, res) =>
              res = initial_allocation sqrt_o feps ceps aeps inc0 R Fx (map hbase st) end)
           (run_nhist ms ops).
  Proof.
    induction ops as [|op ops IH]; intro ms; cbn [run_nhist]; [constructor|].
    apply Forall_app. split; [|apply IH].
    destruct op; constructor; [reflexivity|constructor].
  Qed.

  (* create_squares after a (partial) create_squares: same outcome *)
  Lemma create_squares_partial ms :
    create_squares sqrt_o (map hbase (squares_partial ms)) = create_squares sqrt_o (map hbase ms).
  Proof.
    induction ms as [|h rest IH]; [reflexivity|]. cbn [squares_partial].
    destruct (mrects (hbase h)) as [|r0 rs] eqn:Er.
    - destruct (create_square sqrt_o (hbase h)) as [r|] eqn:Ec; [|reflexivity].
      cbn [map hbase create_squares]. rewrite IH.
      unfold with_square. rewrite Er, Ec. cbn [set_rects mrects]. reflexivity.
    - cbn [map create_squares]. rewrite IH. reflexivity.
  Qed.

  (* "the same netlist allocated twice", "a die that was already used": the state an allocation
     leaves behind (squares given to the modules without rectangles, as far as the loop got)
     yields the same allocation again, with either option *)
  Theorem ia_twice inc0 ms :
    initial_allocation sqrt_o feps ceps aeps inc0 R Fx (map hbase (squares_partial ms)) =
    initial_allocation sqrt_o feps ceps aeps inc0 R Fx (map hbase ms).
  Proof. unfold initial_allocation. rewrite create_squares_partial. reflexivity. Qed.

  Corollary nhist_alloc_twice inc0 inc1 ms :
    match run_nhist ms [NAlloc inc0; NAlloc inc1] with
    | [(_, _, _); (_, _, r2)] => r2 = alloc_result inc1 ms
    | _ => False
    end.
  Proof.
    cbn [run_nhist app apply_nop fst]. unfold alloc_result.
    destruct (mk_allocation aeps (init_cells R Fx)); [apply ia_twice|reflexivity].
  Qed.

  (* reads have no effect; on a rectangle that shares nothing the two ways of writing agree *)
  Lemma probe_no_effect ms : apply_nop ms NProbe = (ms, false).
  Proof. reflexivity. Qed.
  Lemma mech_irrelevant_unshared ms mi ri x y h :
    nth_error ms mi = Some h -> hshared h = false ->
    apply_nop ms (NMoveRect WInPlace mi ri x y) = apply_nop ms (NMoveRect WSetter mi ri x y).
  Proof.
    intros E S. cbn [apply_nop]. unfold on_mod. rewrite E. unfold move_rect. rewrite S.
    destruct (nth_error (mrects (hbase h)) ri); [|reflexivity]. destruct ri; reflexivity.
  Qed.

  (* an in-place move of every rectangle by the same vector = recenter's translation: the
     module's rectangles keep their shapes, flags and mutual offsets *)
  Lemma recenter_rigid h h' : recenter h = Some h' ->
    exists dx dy, mrects (hbase h') = map (translate dx dy) (mrects (hbase h)).
  Proof.
    unfold recenter. destruct (mcenter (hbase h)) as [[x y]|]; [|discriminate].
    destruct (mhard (hbase h) && negb (mfixed (hbase h))); [|discriminate].
    destruct (Qceqb (rects_area (mrects (hbase h))) 0); [discriminate|].
    set (dx := x - _). set (dy := y - _). intro H. exists dx, dy.
    destruct (hshared h).
    - destruct (map (translate dx dy) (mrects (hbase h))) eqn:E; injection H as <-; cbn; rewrite <- E; reflexivity.
    - injection H as <-. reflexivity.
  Qed.
End Hist.
