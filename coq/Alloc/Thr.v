(* Thresholds of Allocation.refine / must_be_refined as the code receives them: a Python float, i.e. a finite
   value, +inf, -inf or a NaN.  DEFINITIONS ONLY.

   The code compares every occupancy ratio x of a cell with the threshold by  x <= threshold  and nothing else
   (frame/allocation/allocation.py: refine, must_be_refined).  Ratios are finite (the constructor checks
   0 <= x <= 1), so IEEE comparison gives: x <= +inf is True, x <= -inf is False, x <= nan is False.
   [le_thr x t] is that comparison.  Alloc.v keeps the functions over finite thresholds (splittable, refine_cells,
   refine, must_be_refined, op / run_op / run_ops: used by the Glb and History models); the functions below are the same
   text with [Qcleb x t] replaced by [le_thr x t], and coincide with them on [TFin t] by computation
   (ThrFacts.v: splittable_x_fin, refine_x_fin ...). *)
From FrameModel Require Import Num.QcTac Geometry.Rect Alloc.Alloc.
Open Scope list_scope.
Open Scope Qc_scope.

Inductive thr := TFin (q : Qc) | TPosInf | TNegInf | TNan.
Coercion TFin : Qc >-> thr.

(* x <= t, x a finite ratio *)
Definition le_thr (x : Qc) (t : thr) : bool :=
  match t with
  | TFin q => Qcleb x q
  | TPosInf => true
  | TNegInf => false
  | TNan => false
  end.

(* a cell is split by refine(t) iff it is not fixed, its map is non-empty and no ratio exceeds t *)
Definition splittable_x (t : thr) (c : cell) : bool :=
  negb (fixed (crect c)) && negb (is_empty (calloc c)) && forallb (fun p => le_thr (snd p) t) (calloc c).

Definition refine_cells_x (t : thr) (levels : nat) (cells : list cell) : option (list cell) :=
  concat_opt (map (fun c => split_alloc (crect c) (calloc c) (cdepth c)
                              (if splittable_x t c then levels else 0)) cells).
Definition refine_x (aeps : Qc) (t : thr) (levels : nat) (cells : list cell) : option (list cell) :=
  match levels with
  | O => None                                   (* assert levels > 0 *)
  | _ => match refine_cells_x t levels cells with
         | Some new => mk_allocation aeps new
         | None => None
         end
  end.
Definition must_be_refined_x (t : thr) (cells : list cell) : bool := existsb (splittable_x t) cells.

(* any composition of the three operations, thresholds as the code receives them *)
Inductive xop := XRefine (t : thr) (levels : nat) | XUniform | XGriddify.
Definition run_xop (eps aeps q : Qc) (o : xop) (cells : list cell) : option (list cell) :=
  match o with
  | XRefine t l => refine_x aeps t l cells
  | XUniform => uniform_refinement_depth aeps cells
  | XGriddify => griddify eps aeps q cells
  end.
Definition run_xops (eps aeps q : Qc) (ops : list xop) (cells : list cell) : option (list cell) :=
  fold_left (fun acc o => match acc with Some cs => run_xop eps aeps q o cs | None => None end)
            ops (Some cells).
Definition xop_of_op (o : op) : xop :=
  match o with OpRefine t l => XRefine (TFin t) l | OpUniform => XUniform | OpGriddify => XGriddify end.

(* the refine-while-needed loop of the callers (e.g. tools/glbfloor):  while a.must_be_refined(t): a = a.refine(t, levels).
   [fuel] bounds the rounds the model follows; the result says how it ended. *)
Inductive loop_end := LoopDone (cells : list cell) | LoopRaised | LoopOutOfFuel (cells : list cell).
Fixpoint refine_loop (fuel : nat) (aeps : Qc) (t : thr) (levels : nat) (cells : list cell) : loop_end :=
  match fuel with
  | O => LoopOutOfFuel cells
  | S f =>
      if must_be_refined_x t cells then
        match refine_x aeps t levels cells with
        | Some new => refine_loop f aeps t levels new
        | None => LoopRaised
        end
      else LoopDone cells
  end.
