(* Facts about the model of create_initial_allocation (property C03). *)
From FrameModel Require Import Num.QcTac Geometry.Rect Geometry.RectFacts Alloc.Alloc Alloc.Initial Alloc.InitialGeom.
Open Scope list_scope.
Open Scope Qc_scope.

(* ------------------------------------------------------------------ *)
(* Netlist.create_squares                                               *)
(* ------------------------------------------------------------------ *)
Section Facts.
  Variable sqrt_o : Qc -> Qc.
  Definition sqrt_contract : Prop := forall a, 0 <= a -> 0 <= sqrt_o a /\ sqrt_o a * sqrt_o a = a.

  (* the rectangles a module has when the ratios are computed: its own, or the square *)
  Definition shape (m : nmod) : list Rect :=
    match mrects m with
    | [] => match create_square sqrt_o m with Some r => [r] | None => [] end
    | l => l
    end.
  Definition squared (m : nmod) : nmod := set_rects m (shape m).

  Lemma create_squares_spec ms ms' : create_squares sqrt_o ms = Some ms' -> ms' = map squared ms.
  Proof.
    revert ms'. induction ms as [|m ms IH]; cbn [create_squares map]; intros ms' H.
    - inversion H. reflexivity.
    - destruct (with_square sqrt_o m) as [m'|] eqn:E; [|discriminate].
      destruct (create_squares sqrt_o ms) as [l|]; [|discriminate]. inversion H; subst.
      rewrite (IH l eq_refl). f_equal.
      unfold with_square in E. unfold squared, shape.
      destruct (mrects m) as [|r0 rs] eqn:Er.
      + destruct (create_square sqrt_o m); inversion E. reflexivity.
      + inversion E. subst m'. unfold set_rects. rewrite <- Er. destruct m; reflexivity.
  Qed.

  (* the square really is a square of the module's area around its centre *)
  Lemma shape_square m x y : sqrt_contract -> mrects m = [] -> mcenter m = Some (x, y) -> 0 < marea m ->
    exists s, shape m = [mkRect x y s s false false "_" NOPOLY] /\ 0 < s /\ s * s = marea m.
  Proof.
    intros Hc Hr Hm Ha. unfold shape, create_square. rewrite Hr, Hm.
    destruct (Hc (marea m)) as [S0 S1]; [qlra|].
    destruct (Qcltb (marea m) 0) eqn:E0; qb2p; [exfalso; qlra|].
    assert (0 < sqrt_o (marea m)).
    { destruct (Qceqb (sqrt_o (marea m)) 0) eqn:E; qb2p; [exfalso; rewrite E in S1; qlra|qlra]. }
    destruct (Qcltb 0 (sqrt_o (marea m))) eqn:E1; qb2p; [|exfalso; qlra].
    exists (sqrt_o (marea m)). auto.
  Qed.

  Lemma create_squares_defined ms : sqrt_contract ->
    Forall (fun m => mrects m = [] -> (exists p, mcenter m = Some p) /\ 0 < marea m) ms ->
    create_squares sqrt_o ms = Some (map squared ms).
  Proof.
    intros Hc. induction 1 as [|m ms Hm _ IH]; cbn [create_squares map]; [reflexivity|].
    rewrite IH.
    assert (E : with_square sqrt_o m = Some (squared m)).
    { unfold with_square, squared, shape. destruct (mrects m) as [|r0 rs] eqn:Er.
      - destruct (Hm eq_refl) as [[[x y] Hp] Ha].
        destruct (shape_square m x y Hc Er Hp Ha) as (s & Hs & _). unfold shape in Hs. rewrite Er in Hs.
        destruct (create_square sqrt_o m); [reflexivity|discriminate].
      - unfold set_rects. rewrite <- Er. destruct m; reflexivity. }
    rewrite E. reflexivity.
  Qed.

  Lemma squared_name m : mname (squared m) = mname m. Proof. reflexivity. Qed.
  Lemma squared_fixed m : mfixed (squared m) = mfixed m. Proof. reflexivity. Qed.
  Lemma squared_rects m : mrects (squared m) = shape m. Proof. reflexivity. Qed.
  Lemma shape_rects m : mrects m <> [] -> shape m = mrects m.
  Proof. unfold shape. destruct (mrects m); [congruence|reflexivity]. Qed.
End Facts.

(* ------------------------------------------------------------------ *)
(* _detect_fixed_rectangles when every ratio is 0 or 1                  *)
(* ------------------------------------------------------------------ *)
Definition own (c : Rect) (m : nmod) : bool := Qceqb (cov_ratio c (mrects m)) 1.
Definition owners (fms : list nmod) (c : Rect) : list nmod := filter (own c) fms.
Definition mark (fms : list nmod) (c : cell) : cell :=
  mkCell (if is_empty (owners fms (crect c)) then crect c else set_fixed (crect c)) (calloc c) (cdepth c).
Definition pairs (fms : list nmod) (c : cell) : list (Rect * string) :=
  map (fun m => (crect (mark fms c), mname m)) (owners fms (crect c)).

Lemma is_empty_map {A B} (f : A -> B) l : is_empty (map f l) = is_empty l.
Proof. destruct l; reflexivity. Qed.

Lemma detect_cell_spec feps c fms : 0 < feps -> feps < 1 ->
  (forall m, In m fms -> cov_ratio c (mrects m) = 0 \/ cov_ratio c (mrects m) = 1) ->
  detect_cell feps c fms = Some (map mname (owners fms c)).
Proof.
  intros H0 H1. unfold owners. induction fms as [|m fms IH]; intro Hb; [reflexivity|].
  cbn [detect_cell filter]. cbv zeta. unfold own at 1.
  rewrite IH by (intros; apply Hb; right; assumption).
  destruct (Hb m (or_introl eq_refl)) as [E|E]; rewrite E.
  - rewrite (proj2 (Qcltb_true 0 feps) H0). cbn [orb].
    assert (Qcltb (1 - feps) 0 = false) as -> by (qb2p; qlra).
    assert (Qceqb 0 1 = false) as -> by (qb2p; qlra). reflexivity.
  - assert (Qcltb 1 feps = false) as -> by (qb2p; qlra).
    assert (Qcltb (1 - feps) 1 = true) as -> by (qb2p; qlra).
    assert (Qcltb 1 (1 + feps) = true) as -> by (qb2p; qlra).
    assert (Qceqb 1 1 = true) as -> by (qb2p; reflexivity). reflexivity.
Qed.

Lemma detect_spec feps cells fms : 0 < feps -> feps < 1 ->
  (forall c m, In c cells -> In m fms ->
     cov_ratio (crect c) (mrects m) = 0 \/ cov_ratio (crect c) (mrects m) = 1) ->
  detect feps cells fms = Some (map (mark fms) cells, flat_map (pairs fms) cells).
Proof.
  intros H0 H1. induction cells as [|c cells IH]; intro Hb; [reflexivity|].
  cbn [detect map flat_map].
  rewrite (detect_cell_spec feps (crect c) fms H0 H1) by (intros; apply Hb; [left; reflexivity|assumption]).
  rewrite IH by (intros; apply Hb; [right|]; assumption).
  cbv zeta. rewrite is_empty_map, map_map. reflexivity.
Qed.

(* counting the names recorded for a module *)
Lemma count_name_app n l1 l2 : count_name n (l1 ++ l2) = (count_name n l1 + count_name n l2)%nat.
Proof. unfold count_name. rewrite filter_app, app_length. reflexivity. Qed.

Lemma count_name_const {A} n (k : string) (l : list A) :
  count_name n (map (fun _ => k) l) = if String.eqb n k then List.length l else 0%nat.
Proof.
  unfold count_name. induction l as [|a l IH]; cbn [map filter]; [destruct (String.eqb n k); reflexivity|].
  destruct (String.eqb n k) eqn:E; cbn [List.length]; rewrite IH; reflexivity.
Qed.

Lemma NoDup_map_inj {A B} (f : A -> B) l a b :
  NoDup (map f l) -> In a l -> In b l -> f a = f b -> a = b.
Proof.
  induction l as [|x l IH]; cbn [map]; intros Hn Ha Hb E; [destruct Ha|].
  inversion Hn as [|? ? Hx Hn']; subst.
  destruct Ha as [->|Ha], Hb as [->|Hb]; auto.
  - exfalso. apply Hx. rewrite E. apply in_map. exact Hb.
  - exfalso. apply Hx. rewrite <- E. apply in_map. exact Ha.
Qed.

Lemma count_name_absent n (l : list nmod) : ~ In n (map mname l) ->
  count_name n (flat_map (fun m' => map (fun _ => mname m') (mrects m')) l) = 0%nat.
Proof.
  induction l as [|x l IH]; cbn [map flat_map]; intro H; [reflexivity|].
  rewrite count_name_app, count_name_const, IH by (intro; apply H; right; assumption).
  destruct (String.eqb n (mname x)) eqn:E; [|reflexivity].
  apply String.eqb_eq in E. exfalso. apply H. left. symmetry. exact E.
Qed.

Lemma count_name_fixed (l : list nmod) m : NoDup (map mname l) -> In m l ->
  count_name (mname m) (flat_map (fun m' => map (fun _ => mname m') (mrects m')) l) = List.length (mrects m).
Proof.
  induction l as [|x l IH]; cbn [map flat_map]; intros Hn Hin; [destruct Hin|].
  inversion Hn as [|? ? Hx Hn']; subst. rewrite count_name_app, count_name_const.
  destruct Hin as [->|Hin].
  - rewrite String.eqb_refl, count_name_absent by exact Hx. apply Nat.add_0_r.
  - destruct (String.eqb (mname m) (mname x)) eqn:E.
    + apply String.eqb_eq in E. exfalso. apply Hx. rewrite <- E. apply in_map. exact Hin.
    + rewrite (IH Hn' Hin). reflexivity.
Qed.

Lemma NoDup_map_filter {A B} (f : A -> B) (p : A -> bool) l : NoDup (map f l) -> NoDup (map f (filter p l)).
Proof.
  induction l as [|x l IH]; cbn [map filter]; intro H; [constructor|].
  inversion H as [|? ? Hx Hn]; subst. destruct (p x); cbn [map]; [|auto].
  constructor; [|auto]. intro Hin. apply Hx. apply in_map_iff in Hin. destruct Hin as (y & E & Hy).
  apply filter_In in Hy. rewrite <- E. apply in_map. tauto.
Qed.

(* a function on the elements of a nested list that depends on the position of the block *)
Lemma nested_flat_map {A B C} (g : A -> list B) (f : B -> list C) (h : A -> B -> list C) full :
  (forall pre m post, full = pre ++ m :: post -> forall c, In c (g m) -> f c = h m c) ->
  forall l pre0, full = pre0 ++ l ->
  flat_map f (flat_map g l) = flat_map (fun m => flat_map (h m) (g m)) l.
Proof.
  intro H. induction l as [|m l IH]; intros pre0 E; [reflexivity|]. cbn [flat_map].
  rewrite flat_map_app. f_equal.
  - specialize (H pre0 m l E). revert H. generalize (g m). intro gl.
    induction gl as [|c gl IHg]; intro H; [reflexivity|]. cbn [flat_map].
    rewrite (H c (or_introl eq_refl)), IHg; [reflexivity|]. intros c' Hc'. apply H. right. exact Hc'.
  - apply (IH (pre0 ++ [m])). rewrite <- app_assoc. exact E.
Qed.

Lemma filter_none_in {A} (p : A -> bool) l : (forall x, In x l -> p x = false) -> filter p l = [].
Proof.
  induction l as [|a l IH]; intro H; [reflexivity|]. cbn [filter].
  rewrite (H a (or_introl eq_refl)). apply IH. intros x Hx. apply H. right. exact Hx.
Qed.

Lemma flat_map_nil {A B} (f : A -> list B) l : (forall x, In x l -> f x = []) -> flat_map f l = [].
Proof.
  induction l as [|a l IH]; intro H; [reflexivity|]. cbn [flat_map].
  rewrite (H a (or_introl eq_refl)). apply IH. intros x Hx. apply H. right. exact Hx.
Qed.

Lemma flat_map_map_c {A B C} (g : A -> B) (f : B -> list C) l : flat_map f (map g l) = flat_map (fun x => f (g x)) l.
Proof. induction l as [|a l IH]; cbn [map flat_map]; [reflexivity|]. rewrite IH. reflexivity. Qed.

Lemma flat_map_singleton {A B} (f : A -> B) l : flat_map (fun x => [f x]) l = map f l.
Proof. induction l as [|a l IH]; cbn [flat_map map]; [reflexivity|]. rewrite IH. reflexivity. Qed.

(* ------------------------------------------------------------------ *)
(* the cells of a die and the fixed modules of its netlist              *)
(* ------------------------------------------------------------------ *)
Section Die.
  Variable R : list Rect.            (* refinable regions *)
  Variable ms : list nmod.           (* modules, every one with rectangles *)
  Let fms := filter mfixed ms.
  Let F := flat_map mrects fms.
  Hypothesis HW : Forall wf (R ++ F).
  Hypothesis HP : pairwise_no_ov (R ++ F).
  Hypothesis HR : Forall (fun r => fixed r = false) R.
  Hypothesis HN : NoDup (map mname ms).

  Lemma zero_ratio c rs : (forall r, In r rs -> area_overlap c r = 0) -> cov_ratio c rs = 0.
  Proof. intro H. rewrite cov_ratio_eq, (covered_zero c rs H). unfold Qcdiv. ring. Qed.

  Lemma ratio_ref c m : In c R -> In m fms -> cov_ratio c (mrects m) = 0.
  Proof.
    intros Hc Hm. apply zero_ratio. intros r Hr.
    destruct (pairwise_app R F HP) as (_ & _ & H). apply H; [exact Hc|].
    unfold F. apply in_flat_map. exists m. split; assumption.
  Qed.

  Lemma ratio_fixed pre m post c : fms = pre ++ m :: post -> In c (mrects m) ->
    cov_ratio c (mrects m) = 1 /\ forall m', In m' (pre ++ post) -> cov_ratio c (mrects m') = 0.
  Proof.
    intros E Hc.
    destruct (pairwise_app R F HP) as (_ & PF & _).
    apply Forall_app in HW. destruct HW as [_ WF].
    unfold F in PF, WF. rewrite E, flat_map_app in PF, WF. cbn [flat_map] in PF, WF.
    destruct (pairwise_app _ _ PF) as (_ & PBC & PA).
    destruct (pairwise_app _ _ PBC) as (PB & _ & PC).
    apply Forall_app in WF. destruct WF as [_ WBC]. apply Forall_app in WBC. destruct WBC as [WB _].
    split.
    - rewrite cov_ratio_eq, (covered_self (mrects m) c PB WB Hc).
      assert (Wc : wf c) by (rewrite Forall_forall in WB; apply WB; exact Hc).
      pose proof (pos_neq0 _ (wf_area_pos c Wc)). field. assumption.
    - intros m' Hm'. apply zero_ratio. intros r Hr. apply in_app_or in Hm'. destruct Hm' as [Hm'|Hm'].
      + rewrite ov_sym. apply PA; [apply in_flat_map; exists m'; split; assumption|].
        apply in_or_app. left. exact Hc.
      + apply PC; [exact Hc|]. apply in_flat_map. exists m'. split; assumption.
  Qed.

  Lemma fixed_cell_owner c : In c F -> exists pre m post, fms = pre ++ m :: post /\ In c (mrects m).
  Proof.
    intro H. unfold F in H. apply in_flat_map in H. destruct H as (m & Hm & Hc).
    destruct (in_split m fms Hm) as (pre & post & E). exists pre, m, post. split; assumption.
  Qed.

  Lemma ratios_binary c m : In c (R ++ F) -> In m fms ->
    cov_ratio c (mrects m) = 0 \/ cov_ratio c (mrects m) = 1.
  Proof.
    intros Hc Hm. apply in_app_or in Hc. destruct Hc as [Hc|Hc].
    - left. apply ratio_ref; assumption.
    - destruct (fixed_cell_owner c Hc) as (pre & m0 & post & E & Hc0).
      destruct (ratio_fixed pre m0 post c E Hc0) as [H1 H0].
      rewrite E in Hm. apply in_app_or in Hm. destruct Hm as [Hm|[<-|Hm]].
      + left. apply H0. apply in_or_app. left. exact Hm.
      + right. exact H1.
      + left. apply H0. apply in_or_app. right. exact Hm.
  Qed.

  Lemma owners_ref c : In c R -> owners fms c = [].
  Proof.
    intro Hc. unfold owners. apply filter_none_in. intros m Hm. unfold own.
    rewrite (ratio_ref c m Hc Hm). qb2p. qlra.
  Qed.

  Lemma owners_fixed pre m post c : fms = pre ++ m :: post -> In c (mrects m) -> owners fms c = [m].
  Proof.
    intros E Hc. destruct (ratio_fixed pre m post c E Hc) as [H1 H0].
    unfold owners. rewrite E, filter_app. cbn [filter]. unfold own at 2. rewrite H1.
    assert (Qceqb 1 1 = true) as -> by (qb2p; reflexivity).
    rewrite !filter_none_in; [reflexivity| |].
    - intros x Hx. unfold own. rewrite (H0 x) by (apply in_or_app; right; exact Hx). qb2p. qlra.
    - intros x Hx. unfold own. rewrite (H0 x) by (apply in_or_app; left; exact Hx). qb2p. qlra.
  Qed.

  Definition mk0 (r : Rect) : cell := mkCell r [] 0%nat.
  Definition mkf (r : Rect) : cell := mkCell (set_fixed r) [] 0%nat.
  Definition fixed_pairs : list (Rect * string) :=
    flat_map (fun m => map (fun r => (set_fixed r, mname m)) (mrects m)) fms.

  Lemma marks : map (mark fms) (init_cells R F) = map mk0 R ++ map mkf F.
  Proof.
    unfold init_cells. fold mk0. rewrite !map_app, !map_map. f_equal.
    - apply map_ext_in. intros c Hc. unfold mark, mk0. cbn [crect calloc cdepth].
      rewrite (owners_ref c Hc). reflexivity.
    - apply map_ext_in. intros c Hc. destruct (fixed_cell_owner c Hc) as (pre & m & post & E & Hm).
      unfold mark, mk0, mkf. cbn [crect calloc cdepth]. rewrite (owners_fixed pre m post c E Hm). reflexivity.
  Qed.

  Lemma pairs_fixed pre m post c : fms = pre ++ m :: post -> In c (mrects m) ->
    pairs fms (mk0 c) = [(set_fixed c, mname m)].
  Proof.
    intros E Hc. unfold pairs, mark, mk0. cbn [crect calloc cdepth].
    rewrite (owners_fixed pre m post c E Hc). reflexivity.
  Qed.

  Lemma all_pairs : flat_map (pairs fms) (init_cells R F) = fixed_pairs.
  Proof.
    unfold init_cells. fold mk0. rewrite map_app, flat_map_app.
    assert (E1 : flat_map (pairs fms) (map mk0 R) = []).
    { rewrite flat_map_map_c. apply flat_map_nil. intros c Hc.
      unfold pairs, mk0. cbn [crect]. rewrite (owners_ref c Hc). reflexivity. }
    rewrite E1. cbn [app]. rewrite flat_map_map_c. unfold F, fixed_pairs.
    rewrite (nested_flat_map mrects (fun c => pairs fms (mk0 c))
               (fun m c => [(set_fixed c, mname m)]) fms
               (fun pre m post E c Hc => pairs_fixed pre m post c E Hc) fms [] eq_refl).
    apply flat_map_ext. intro m. apply flat_map_singleton.
  Qed.

  Lemma detect_die feps : 0 < feps -> feps < 1 ->
    detect feps (init_cells R F) fms = Some (map mk0 R ++ map mkf F, fixed_pairs).
  Proof.
    intros H0 H1. rewrite (detect_spec feps _ fms H0 H1).
    - rewrite marks, all_pairs. reflexivity.
    - intros c m Hc Hm. unfold init_cells in Hc. apply in_map_iff in Hc. destruct Hc as (r & <- & Hr).
      cbn [crect]. apply ratios_binary; assumption.
  Qed.

  Lemma counts_die : counts_ok fms fixed_pairs = true.
  Proof.
    unfold counts_ok. apply forallb_forall. intros m Hm. apply Nat.eqb_eq.
    assert (E : map snd fixed_pairs = flat_map (fun m' => map (fun _ => mname m') (mrects m')) fms).
    { unfold fixed_pairs. generalize fms. intro l. induction l as [|x l IH]; [reflexivity|].
      cbn [flat_map]. rewrite map_app, IH, map_map. reflexivity. }
    rewrite E. symmetry. apply count_name_fixed; [|exact Hm].
    unfold fms. apply NoDup_map_filter. exact HN.
  Qed.

  Lemma rest_die inc0 ms' :
    rest_alloc inc0 ms' (map mk0 R ++ map mkf F) = map (fun r => mkCell r (alloc_of inc0 ms' r) 0%nat) R.
  Proof.
    unfold rest_alloc. rewrite flat_map_app, !flat_map_map_c.
    assert (E2 : flat_map (fun x => if fixed (crect (mkf x)) then []
                   else [mkCell (crect (mkf x)) (alloc_of inc0 ms' (crect (mkf x))) (cdepth (mkf x))]) F = []).
    { apply flat_map_nil. intros c _. reflexivity. }
    rewrite E2, app_nil_r. rewrite <- flat_map_singleton.
    clear HW HP. induction R as [|c l IH]; [reflexivity|]. inversion HR; subst. cbn [flat_map].
    unfold mk0 at 1 2 3. cbn [crect cdepth]. rewrite H1. cbn [app]. f_equal. apply IH. assumption.
  Qed.

  Definition out_cells (inc0 : bool) : list cell :=
    flat_map (fun m => map (fun r => mkCell (set_fixed r) [(mname m, 1)] 0%nat) (mrects m)) fms ++
    map (fun r => mkCell r (alloc_of inc0 ms r) 0%nat) R.

  Lemma prealloc_die : prealloc fixed_pairs =
    flat_map (fun m => map (fun r => mkCell (set_fixed r) [(mname m, 1)] 0%nat) (mrects m)) fms.
  Proof.
    unfold prealloc, fixed_pairs. generalize fms. intro l. induction l as [|x l IH]; [reflexivity|].
    cbn [flat_map]. rewrite map_app, IH, map_map. reflexivity.
  Qed.
End Die.
