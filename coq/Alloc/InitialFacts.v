(* Facts about the model of create_initial_allocation (property C03). *)
From FrameModel Require Import Num.QcTac Geometry.Rect Geometry.RectFacts Alloc.Alloc Alloc.Initial Alloc.InitialGeom
  Cases.Cmp Cases.CmpC03.
Open Scope list_scope.
Open Scope Qc_scope.

(* ------------------------------------------------------------------ *)
(* Netlist.create_squares                                               *)
(* ------------------------------------------------------------------ *)
Section Facts.
  Variable sqrt_o : Qc -> Qc.
  (* the contract of math.sqrt, required only at the areas that occur (no rational function
     satisfies it everywhere) *)
  Definition sqrt_at (a : Qc) : Prop := 0 <= sqrt_o a /\ sqrt_o a * sqrt_o a = a.
  (* a module without rectangles can be given its square: it has a centre, a positive area,
     and the root of that area is exact *)
  Definition squarable (m : nmod) : Prop :=
    mrects m = [] -> (exists p, mcenter m = Some p) /\ 0 < marea m /\ sqrt_at (marea m).

  (* the rectangles a module has when the ratios are computed: its own, or the square *)
  Definition shape (m : nmod) : list Rect :=
    match mrects m with
    | [] => match create_square sqrt_o m with Some r => [r] | None => [] end
    | l => l
    end.
  Definition squared (m : nmod) : nmod := set_rects m (shape m).

  Lemma create_squares_spec ms ms' : create_squares sqrt_o ms = Some ms' -> ms' = map squared ms.
  Proof.
    revert ms'. induction ms as [|m ms IH]; cbn [create_squares map]; intros ms' H.
    - inversion H. reflexivity.
    - destruct (with_square sqrt_o m) as [m'|] eqn:E; [|discriminate].
      destruct (create_squares sqrt_o ms) as [l|]; [|discriminate]. inversion H; subst.
      rewrite (IH l eq_refl). f_equal.
      unfold with_square in E. unfold squared, shape.
      destruct (mrects m) as [|r0 rs] eqn:Er.
      + destruct (create_square sqrt_o m); inversion E. reflexivity.
      + inversion E. subst m'. unfold set_rects. rewrite <- Er. destruct m; reflexivity.
  Qed.

  (* the square really is a square of the module's area around its centre *)
  Lemma shape_square m x y : sqrt_at (marea m) -> mrects m = [] -> mcenter m = Some (x, y) -> 0 < marea m ->
    exists s, shape m = [mkRect x y s s false false "_" NOPOLY] /\ 0 < s /\ s * s = marea m.
  Proof.
    intros Hc Hr Hm Ha. unfold shape, create_square. rewrite Hr, Hm.
    destruct Hc as [S0 S1].
    destruct (Qcltb (marea m) 0) eqn:E0; qb2p; [exfalso; qlra|].
    assert (0 < sqrt_o (marea m)).
    { destruct (Qceqb (sqrt_o (marea m)) 0) eqn:E; qb2p; [exfalso; rewrite E in S1; qlra|qlra]. }
    destruct (Qcltb 0 (sqrt_o (marea m))) eqn:E1; qb2p; [|exfalso; qlra].
    exists (sqrt_o (marea m)). auto.
  Qed.

  Lemma create_squares_defined ms : Forall squarable ms ->
    create_squares sqrt_o ms = Some (map squared ms).
  Proof.
    induction 1 as [|m ms Hm _ IH]; cbn [create_squares map]; [reflexivity|].
    rewrite IH.
    assert (E : with_square sqrt_o m = Some (squared m)).
    { unfold with_square, squared, shape. destruct (mrects m) as [|r0 rs] eqn:Er.
      - destruct (Hm Er) as ([[x y] Hp] & Ha & Hc).
        destruct (shape_square m x y Hc Er Hp Ha) as (s & Hs & _). unfold shape in Hs. rewrite Er in Hs.
        destruct (create_square sqrt_o m); [reflexivity|discriminate].
      - unfold set_rects. rewrite <- Er. destruct m; reflexivity. }
    rewrite E. reflexivity.
  Qed.

  Lemma squared_name m : mname (squared m) = mname m. Proof. reflexivity. Qed.
  Lemma squared_fixed m : mfixed (squared m) = mfixed m. Proof. reflexivity. Qed.
  Lemma squared_rects m : mrects (squared m) = shape m. Proof. reflexivity. Qed.
  Lemma shape_rects m : mrects m <> [] -> shape m = mrects m.
  Proof. unfold shape. destruct (mrects m); [congruence|reflexivity]. Qed.
End Facts.

(* ------------------------------------------------------------------ *)
(* _detect_fixed_rectangles when every ratio is 0 or 1                  *)
(* ------------------------------------------------------------------ *)
Definition own (c : Rect) (m : nmod) : bool := Qceqb (cov_ratio c (mrects m)) 1.
Definition owners (fms : list nmod) (c : Rect) : list nmod := filter (own c) fms.
Definition mark (fms : list nmod) (c : cell) : cell :=
  mkCell (if is_empty (owners fms (crect c)) then crect c else set_fixed (crect c)) (calloc c) (cdepth c).
Definition pairs (fms : list nmod) (c : cell) : list (Rect * string) :=
  map (fun m => (crect (mark fms c), mname m)) (owners fms (crect c)).

Lemma is_empty_map {A B} (f : A -> B) l : is_empty (map f l) = is_empty l.
Proof. destruct l; reflexivity. Qed.

Lemma detect_cell_spec feps c fms : 0 < feps -> feps < 1 ->
  (forall m, In m fms -> cov_ratio c (mrects m) = 0 \/ cov_ratio c (mrects m) = 1) ->
  detect_cell feps c fms = Some (map mname (owners fms c)).
Proof.
  intros H0 H1. unfold owners. induction fms as [|m fms IH]; intro Hb; [reflexivity|].
  cbn [detect_cell filter]. cbv zeta. unfold own at 1.
  rewrite IH by (intros; apply Hb; right; assumption).
  destruct (Hb m (or_introl eq_refl)) as [E|E]; rewrite E.
  - rewrite (proj2 (Qcltb_true 0 feps) H0). cbn [orb].
    assert (Qcltb (1 - feps) 0 = false) as -> by (qb2p; qlra).
    assert (Qceqb 0 1 = false) as -> by (qb2p; qlra). reflexivity.
  - assert (Qcltb 1 feps = false) as -> by (qb2p; qlra).
    assert (Qcltb (1 - feps) 1 = true) as -> by (qb2p; qlra).
    assert (Qcltb 1 (1 + feps) = true) as -> by (qb2p; qlra).
    assert (Qceqb 1 1 = true) as -> by (qb2p; reflexivity). reflexivity.
Qed.

Lemma detect_spec feps cells fms : 0 < feps -> feps < 1 ->
  (forall c m, In c cells -> In m fms ->
     cov_ratio (crect c) (mrects m) = 0 \/ cov_ratio (crect c) (mrects m) = 1) ->
  detect feps cells fms = Some (map (mark fms) cells, flat_map (pairs fms) cells).
Proof.
  intros H0 H1. induction cells as [|c cells IH]; intro Hb; [reflexivity|].
  cbn [detect map flat_map].
  rewrite (detect_cell_spec feps (crect c) fms H0 H1) by (intros; apply Hb; [left; reflexivity|assumption]).
  rewrite IH by (intros; apply Hb; [right|]; assumption).
  cbv zeta. rewrite is_empty_map, map_map. reflexivity.
Qed.

(* counting the names recorded for a module *)
Lemma count_name_app n l1 l2 : count_name n (l1 ++ l2) = (count_name n l1 + count_name n l2)%nat.
Proof. unfold count_name. rewrite filter_app, app_length. reflexivity. Qed.

Lemma count_name_const {A} n (k : string) (l : list A) :
  count_name n (map (fun _ => k) l) = if String.eqb n k then List.length l else 0%nat.
Proof.
  unfold count_name. induction l as [|a l IH]; cbn [map filter]; [destruct (String.eqb n k); reflexivity|].
  destruct (String.eqb n k) eqn:E; cbn [List.length]; rewrite IH; reflexivity.
Qed.

Lemma NoDup_map_inj {A B} (f : A -> B) l a b :
  NoDup (map f l) -> In a l -> In b l -> f a = f b -> a = b.
Proof.
  induction l as [|x l IH]; cbn [map]; intros Hn Ha Hb E; [destruct Ha|].
  inversion Hn as [|? ? Hx Hn']; subst.
  destruct Ha as [->|Ha], Hb as [->|Hb]; auto.
  - exfalso. apply Hx. rewrite E. apply in_map. exact Hb.
  - exfalso. apply Hx. rewrite <- E. apply in_map. exact Ha.
Qed.

Lemma count_name_absent n (l : list nmod) : ~ In n (map mname l) ->
  count_name n (flat_map (fun m' => map (fun _ => mname m') (mrects m')) l) = 0%nat.
Proof.
  induction l as [|x l IH]; cbn [map flat_map]; intro H; [reflexivity|].
  rewrite count_name_app, count_name_const, IH by (intro; apply H; right; assumption).
  destruct (String.eqb n (mname x)) eqn:E; [|reflexivity].
  apply String.eqb_eq in E. exfalso. apply H. left. symmetry. exact E.
Qed.

Lemma count_name_fixed (l : list nmod) m : NoDup (map mname l) -> In m l ->
  count_name (mname m) (flat_map (fun m' => map (fun _ => mname m') (mrects m')) l) = List.length (mrects m).
Proof.
  induction l as [|x l IH]; cbn [map flat_map]; intros Hn Hin; [destruct Hin|].
  inversion Hn as [|? ? Hx Hn']; subst. rewrite count_name_app, count_name_const.
  destruct Hin as [->|Hin].
  - rewrite String.eqb_refl, count_name_absent by exact Hx. apply Nat.add_0_r.
  - destruct (String.eqb (mname m) (mname x)) eqn:E.
    + apply String.eqb_eq in E. exfalso. apply Hx. rewrite <- E. apply in_map. exact Hin.
    + rewrite (IH Hn' Hin). reflexivity.
Qed.

Lemma NoDup_map_filter {A B} (f : A -> B) (p : A -> bool) l : NoDup (map f l) -> NoDup (map f (filter p l)).
Proof.
  induction l as [|x l IH]; cbn [map filter]; intro H; [constructor|].
  inversion H as [|? ? Hx Hn]; subst. destruct (p x); cbn [map]; [|auto].
  constructor; [|auto]. intro Hin. apply Hx. apply in_map_iff in Hin. destruct Hin as (y & E & Hy).
  apply filter_In in Hy. rewrite <- E. apply in_map. tauto.
Qed.

(* a function on the elements of a nested list that depends on the position of the block *)
Lemma nested_flat_map {A B C} (g : A -> list B) (f : B -> list C) (h : A -> B -> list C) full :
  (forall pre m post, full = pre ++ m :: post -> forall c, In c (g m) -> f c = h m c) ->
  forall l pre0, full = pre0 ++ l ->
  flat_map f (flat_map g l) = flat_map (fun m => flat_map (h m) (g m)) l.
Proof.
  intro H. induction l as [|m l IH]; intros pre0 E; [reflexivity|]. cbn [flat_map].
  rewrite flat_map_app. f_equal.
  - specialize (H pre0 m l E). revert H. generalize (g m). intro gl.
    induction gl as [|c gl IHg]; intro H; [reflexivity|]. cbn [flat_map].
    rewrite (H c (or_introl eq_refl)), IHg; [reflexivity|]. intros c' Hc'. apply H. right. exact Hc'.
  - apply (IH (pre0 ++ [m])). rewrite <- app_assoc. exact E.
Qed.

Lemma filter_none_in {A} (p : A -> bool) l : (forall x, In x l -> p x = false) -> filter p l = [].
Proof.
  induction l as [|a l IH]; intro H; [reflexivity|]. cbn [filter].
  rewrite (H a (or_introl eq_refl)). apply IH. intros x Hx. apply H. right. exact Hx.
Qed.

Lemma flat_map_nil {A B} (f : A -> list B) l : (forall x, In x l -> f x = []) -> flat_map f l = [].
Proof.
  induction l as [|a l IH]; intro H; [reflexivity|]. cbn [flat_map].
  rewrite (H a (or_introl eq_refl)). apply IH. intros x Hx. apply H. right. exact Hx.
Qed.

Lemma flat_map_map_c {A B C} (g : A -> B) (f : B -> list C) l : flat_map f (map g l) = flat_map (fun x => f (g x)) l.
Proof. induction l as [|a l IH]; cbn [map flat_map]; [reflexivity|]. rewrite IH. reflexivity. Qed.

Lemma flat_map_singleton {A B} (f : A -> B) l : flat_map (fun x => [f x]) l = map f l.
Proof. induction l as [|a l IH]; cbn [flat_map map]; [reflexivity|]. rewrite IH. reflexivity. Qed.

(* ------------------------------------------------------------------ *)
(* the cells of a die and the fixed modules of its netlist              *)
(* ------------------------------------------------------------------ *)
Section Die.
  Variable R : list Rect.            (* refinable regions *)
  Variable ms : list nmod.           (* modules, every one with rectangles *)
  Let fms := filter mfixed ms.
  Let F := flat_map mrects fms.
  Hypothesis HW : Forall wf (R ++ F).
  Hypothesis HP : pairwise_no_ov (R ++ F).
  Hypothesis HR : Forall (fun r => fixed r = false) R.
  Hypothesis HN : NoDup (map mname ms).

  Lemma zero_ratio c rs : (forall r, In r rs -> area_overlap c r = 0) -> cov_ratio c rs = 0.
  Proof. intro H. rewrite cov_ratio_eq, (covered_zero c rs H). unfold Qcdiv. ring. Qed.

  Lemma ratio_ref c m : In c R -> In m fms -> cov_ratio c (mrects m) = 0.
  Proof.
    intros Hc Hm. apply zero_ratio. intros r Hr.
    destruct (pairwise_app R F HP) as (_ & _ & H). apply H; [exact Hc|].
    unfold F. apply in_flat_map. exists m. split; assumption.
  Qed.

  Lemma ratio_fixed pre m post c : fms = pre ++ m :: post -> In c (mrects m) ->
    cov_ratio c (mrects m) = 1 /\ forall m', In m' (pre ++ post) -> cov_ratio c (mrects m') = 0.
  Proof.
    intros E Hc.
    destruct (pairwise_app R F HP) as (_ & PF & _).
    apply Forall_app in HW. destruct HW as [_ WF].
    unfold F in PF, WF. rewrite E, flat_map_app in PF, WF. cbn [flat_map] in PF, WF.
    destruct (pairwise_app _ _ PF) as (_ & PBC & PA).
    destruct (pairwise_app _ _ PBC) as (PB & _ & PC).
    apply Forall_app in WF. destruct WF as [_ WBC]. apply Forall_app in WBC. destruct WBC as [WB _].
    split.
    - rewrite cov_ratio_eq, (covered_self (mrects m) c PB WB Hc).
      assert (Wc : wf c) by (rewrite Forall_forall in WB; apply WB; exact Hc).
      pose proof (pos_neq0 _ (wf_area_pos c Wc)). field. assumption.
    - intros m' Hm'. apply zero_ratio. intros r Hr. apply in_app_or in Hm'. destruct Hm' as [Hm'|Hm'].
      + rewrite ov_sym. apply PA; [apply in_flat_map; exists m'; split; assumption|].
        apply in_or_app. left. exact Hc.
      + apply PC; [exact Hc|]. apply in_flat_map. exists m'. split; assumption.
  Qed.

  Lemma fixed_cell_owner c : In c F -> exists pre m post, fms = pre ++ m :: post /\ In c (mrects m).
  Proof.
    intro H. unfold F in H. apply in_flat_map in H. destruct H as (m & Hm & Hc).
    destruct (in_split m fms Hm) as (pre & post & E). exists pre, m, post. split; assumption.
  Qed.

  Lemma ratios_binary c m : In c (R ++ F) -> In m fms ->
    cov_ratio c (mrects m) = 0 \/ cov_ratio c (mrects m) = 1.
  Proof.
    intros Hc Hm. apply in_app_or in Hc. destruct Hc as [Hc|Hc].
    - left. apply ratio_ref; assumption.
    - destruct (fixed_cell_owner c Hc) as (pre & m0 & post & E & Hc0).
      destruct (ratio_fixed pre m0 post c E Hc0) as [H1 H0].
      rewrite E in Hm. apply in_app_or in Hm. destruct Hm as [Hm|[<-|Hm]].
      + left. apply H0. apply in_or_app. left. exact Hm.
      + right. exact H1.
      + left. apply H0. apply in_or_app. right. exact Hm.
  Qed.

  Lemma owners_ref c : In c R -> owners fms c = [].
  Proof.
    intro Hc. unfold owners. apply filter_none_in. intros m Hm. unfold own.
    rewrite (ratio_ref c m Hc Hm). qb2p. qlra.
  Qed.

  Lemma owners_fixed pre m post c : fms = pre ++ m :: post -> In c (mrects m) -> owners fms c = [m].
  Proof.
    intros E Hc. destruct (ratio_fixed pre m post c E Hc) as [H1 H0].
    unfold owners. rewrite E, filter_app. cbn [filter]. unfold own at 2. rewrite H1.
    assert (Qceqb 1 1 = true) as -> by (qb2p; reflexivity).
    rewrite !filter_none_in; [reflexivity| |].
    - intros x Hx. unfold own. rewrite (H0 x) by (apply in_or_app; right; exact Hx). qb2p. qlra.
    - intros x Hx. unfold own. rewrite (H0 x) by (apply in_or_app; left; exact Hx). qb2p. qlra.
  Qed.

  Definition mk0 (r : Rect) : cell := mkCell r [] 0%nat.
  Definition mkf (r : Rect) : cell := mkCell (set_fixed r) [] 0%nat.
  Definition fixed_pairs : list (Rect * string) :=
    flat_map (fun m => map (fun r => (set_fixed r, mname m)) (mrects m)) fms.

  Lemma marks : map (mark fms) (init_cells R F) = map mk0 R ++ map mkf F.
  Proof.
    unfold init_cells. fold mk0. rewrite !map_app, !map_map. f_equal.
    - apply map_ext_in. intros c Hc. unfold mark, mk0. cbn [crect calloc cdepth].
      rewrite (owners_ref c Hc). reflexivity.
    - apply map_ext_in. intros c Hc. destruct (fixed_cell_owner c Hc) as (pre & m & post & E & Hm).
      unfold mark, mk0, mkf. cbn [crect calloc cdepth]. rewrite (owners_fixed pre m post c E Hm). reflexivity.
  Qed.

  Lemma pairs_fixed pre m post c : fms = pre ++ m :: post -> In c (mrects m) ->
    pairs fms (mk0 c) = [(set_fixed c, mname m)].
  Proof.
    intros E Hc. unfold pairs, mark, mk0. cbn [crect calloc cdepth].
    rewrite (owners_fixed pre m post c E Hc). reflexivity.
  Qed.

  Lemma all_pairs : flat_map (pairs fms) (init_cells R F) = fixed_pairs.
  Proof.
    unfold init_cells. fold mk0. rewrite map_app, flat_map_app.
    assert (E1 : flat_map (pairs fms) (map mk0 R) = []).
    { rewrite flat_map_map_c. apply flat_map_nil. intros c Hc.
      unfold pairs, mk0. cbn [crect]. rewrite (owners_ref c Hc). reflexivity. }
    rewrite E1. cbn [app]. rewrite flat_map_map_c. unfold F, fixed_pairs.
    rewrite (nested_flat_map mrects (fun c => pairs fms (mk0 c))
               (fun m c => [(set_fixed c, mname m)]) fms
               (fun pre m post E c Hc => pairs_fixed pre m post c E Hc) fms [] eq_refl).
    apply flat_map_ext. intro m. apply flat_map_singleton.
  Qed.

  Lemma detect_die feps : 0 < feps -> feps < 1 ->
    detect feps (init_cells R F) fms = Some (map mk0 R ++ map mkf F, fixed_pairs).
  Proof.
    intros H0 H1. rewrite (detect_spec feps _ fms H0 H1).
    - rewrite marks, all_pairs. reflexivity.
    - intros c m Hc Hm. unfold init_cells in Hc. apply in_map_iff in Hc. destruct Hc as (r & <- & Hr).
      cbn [crect]. apply ratios_binary; assumption.
  Qed.

  Lemma counts_die : counts_ok fms fixed_pairs = true.
  Proof.
    unfold counts_ok. apply forallb_forall. intros m Hm. apply Nat.eqb_eq.
    assert (E : map snd fixed_pairs = flat_map (fun m' => map (fun _ => mname m') (mrects m')) fms).
    { unfold fixed_pairs. generalize fms. intro l. induction l as [|x l IH]; [reflexivity|].
      cbn [flat_map]. rewrite map_app, IH, map_map. reflexivity. }
    rewrite E. symmetry. apply count_name_fixed; [|exact Hm].
    unfold fms. apply NoDup_map_filter. exact HN.
  Qed.

  Lemma rest_die ceps inc0 ms' :
    rest_alloc ceps inc0 ms' (map mk0 R ++ map mkf F) = map (fun r => mkCell r (alloc_of ceps inc0 ms' r) 0%nat) R.
  Proof.
    unfold rest_alloc. rewrite flat_map_app, !flat_map_map_c.
    assert (E2 : flat_map (fun x => if fixed (crect (mkf x)) then []
                   else [mkCell (crect (mkf x)) (alloc_of ceps inc0 ms' (crect (mkf x))) (cdepth (mkf x))]) F = []).
    { apply flat_map_nil. intros c _. reflexivity. }
    rewrite E2, app_nil_r. rewrite <- flat_map_singleton.
    clear HW HP. induction R as [|c l IH]; [reflexivity|]. inversion HR; subst. cbn [flat_map].
    unfold mk0 at 1 2 3. cbn [crect cdepth]. rewrite H1. cbn [app]. f_equal. apply IH. assumption.
  Qed.

  Definition out_cells (ceps : Qc) (inc0 : bool) : list cell :=
    flat_map (fun m => map (fun r => mkCell (set_fixed r) [(mname m, 1)] 0%nat) (mrects m)) fms ++
    map (fun r => mkCell r (alloc_of ceps inc0 ms r) 0%nat) R.

  Lemma prealloc_die : prealloc fixed_pairs =
    flat_map (fun m => map (fun r => mkCell (set_fixed r) [(mname m, 1)] 0%nat) (mrects m)) fms.
  Proof.
    unfold prealloc, fixed_pairs. generalize fms. intro l. induction l as [|x l IH]; [reflexivity|].
    cbn [flat_map]. rewrite map_app, IH, map_map. reflexivity.
  Qed.
End Die.

(* ------------------------------------------------------------------ *)
(* the Allocation constructor                                           *)
(* ------------------------------------------------------------------ *)
Lemma mk_allocation_inv aeps cs cs' : mk_allocation aeps cs = Some cs' -> cs' = cs.
Proof.
  unfold mk_allocation. destruct cs; [discriminate|].
  destruct (_ && _ && _ && _); [|discriminate]. intro H. inversion H. reflexivity.
Qed.

Lemma finalize_inv aeps new out : finalize aeps new = Accept out -> out = new /\ mk_allocation aeps new = Some new.
Proof.
  unfold finalize. destruct (mk_allocation aeps new) as [cs|] eqn:E.
  - intro H. inversion H. subst. pose proof (mk_allocation_inv _ _ _ E). subst. auto.
  - destruct new; [discriminate|]. destruct (_ && _ && _); discriminate.
Qed.

(* ------------------------------------------------------------------ *)
(* the map of a refinable cell                                          *)
(* ------------------------------------------------------------------ *)
Lemma lookup_absent n a : ~ In n (map fst a) -> lookup n a = None.
Proof.
  induction a as [|[k v] a IH]; cbn [map lookup fst]; intro H; [reflexivity|].
  destruct (String.eqb k n) eqn:E; [apply String.eqb_eq in E; exfalso; apply H; left; exact E|].
  apply IH. intro Hin. apply H. right. exact Hin.
Qed.

Lemma lookup_app n a b : lookup n (a ++ b) = match lookup n a with Some q => Some q | None => lookup n b end.
Proof.
  induction a as [|[k v] a IH]; cbn [app lookup]; [reflexivity|]. destruct (String.eqb k n); auto.
Qed.

Lemma alloc_of_keys ceps inc0 ms c n : In n (map fst (alloc_of ceps inc0 ms c)) -> In n (map mname ms).
Proof.
  unfold alloc_of. induction ms as [|m ms IH]; cbn [flat_map map]; [auto|].
  rewrite map_app, in_app_iff. intros [H|H]; [|right; auto].
  cbv zeta in H. destruct (inc0 || Qcltb 0 (clamp1 ceps (cov_ratio c (mrects m)))); [|destruct H].
  destruct H as [<-|[]]. left. reflexivity.
Qed.

Lemma lookup_alloc_of ceps inc0 ms c m : NoDup (map mname ms) -> In m ms ->
  lookup (mname m) (alloc_of ceps inc0 ms c) =
  if inc0 || Qcltb 0 (clamp1 ceps (cov_ratio c (mrects m))) then Some (clamp1 ceps (cov_ratio c (mrects m))) else None.
Proof.
  induction ms as [|x ms IH]; cbn [map]; intros Hn Hin; [destruct Hin|].
  inversion Hn as [|? ? Hx Hn']; subst.
  change (alloc_of ceps inc0 (x :: ms) c) with
    ((if inc0 || Qcltb 0 (clamp1 ceps (cov_ratio c (mrects x))) then [(mname x, clamp1 ceps (cov_ratio c (mrects x)))] else [])
     ++ alloc_of ceps inc0 ms c).
  rewrite lookup_app. destruct Hin as [->|Hin].
  - destruct (inc0 || Qcltb 0 (clamp1 ceps (cov_ratio c (mrects m)))).
    + cbn [lookup]. rewrite String.eqb_refl. reflexivity.
    + cbn [lookup]. apply lookup_absent. intro H. apply Hx. eapply alloc_of_keys. exact H.
  - assert (Hne : String.eqb (mname x) (mname m) = false).
    { apply String.eqb_neq. intro E. apply Hx. rewrite E. apply in_map. exact Hin. }
    destruct (inc0 || Qcltb 0 (clamp1 ceps (cov_ratio c (mrects x)))); cbn [lookup]; [rewrite Hne|]; apply IH; assumption.
Qed.

(* the rounding allowance does nothing to a ratio that is at most 1 *)
Lemma clamp1_id ceps a : a <= 1 -> clamp1 ceps a = a.
Proof. intro H. unfold clamp1. assert (Qcltb 1 a = false) as -> by (qb2p; exact H). reflexivity. Qed.
Lemma clamp1_nonneg ceps a : 0 <= a -> 0 <= clamp1 ceps a.
Proof. intro H. unfold clamp1. destruct (Qcltb 1 a && Qcleb a (1 + ceps)); [qlra|exact H]. Qed.

Lemma cov_ratio_nonneg c rs : wf c -> 0 <= cov_ratio c rs.
Proof. intro W. rewrite cov_ratio_eq. apply div_pos_nonneg; [apply covered_nonneg|apply wf_area_pos; exact W]. Qed.

Lemma ratio_alloc_of ceps inc0 ms c m d : wf c -> NoDup (map mname ms) -> In m ms ->
  ratio (mname m) (mkCell c (alloc_of ceps inc0 ms c) d) = clamp1 ceps (cov_ratio c (mrects m)).
Proof.
  intros W Hn Hin. unfold ratio. cbn [calloc]. rewrite (lookup_alloc_of ceps inc0 ms c m Hn Hin).
  destruct (inc0 || Qcltb 0 (clamp1 ceps (cov_ratio c (mrects m)))) eqn:E; [reflexivity|].
  apply orb_false_iff in E. destruct E as [_ E]. qb2p.
  pose proof (clamp1_nonneg ceps _ (cov_ratio_nonneg c (mrects m) W)). qlra.
Qed.

Lemma area_of_app n l1 l2 : area_of n (l1 ++ l2) = area_of n l1 + area_of n l2.
Proof. unfold area_of. rewrite map_app. apply Qcsum_app. Qed.

Definition pre_cells (l : list nmod) : list cell :=
  flat_map (fun m => map (fun r => mkCell (set_fixed r) [(mname m, 1)] 0%nat) (mrects m)) l.

Lemma area_pre_block n k rs :
  area_of n (map (fun r => mkCell (set_fixed r) [(k, 1)] 0%nat) rs) =
  if String.eqb k n then Qcsum (map area rs) else 0.
Proof.
  unfold area_of. rewrite map_map. unfold ratio. cbn [calloc crect lookup].
  destruct (String.eqb k n).
  - apply Qcsum_map_ext. intros r _. unfold set_fixed, area. cbn [rw rh]. ring.
  - apply Qcsum_map_zero. intros r _. ring.
Qed.

Lemma area_pre_absent n l : ~ In n (map mname l) -> area_of n (pre_cells l) = 0.
Proof.
  unfold pre_cells. induction l as [|x l IH]; cbn [map flat_map]; intro H; [reflexivity|].
  rewrite area_of_app, area_pre_block, IH by (intro; apply H; right; assumption).
  destruct (String.eqb (mname x) n) eqn:E; [|ring].
  apply String.eqb_eq in E. exfalso. apply H. left. exact E.
Qed.

Lemma area_pre_fixed l m : NoDup (map mname l) -> In m l ->
  area_of (mname m) (pre_cells l) = Qcsum (map area (mrects m)).
Proof.
  unfold pre_cells. induction l as [|x l IH]; cbn [map flat_map]; intros Hn Hin; [destruct Hin|].
  inversion Hn as [|? ? Hx Hn']; subst. rewrite area_of_app, area_pre_block.
  destruct Hin as [->|Hin].
  - rewrite String.eqb_refl. fold (pre_cells l). rewrite area_pre_absent by exact Hx. ring.
  - destruct (String.eqb (mname x) (mname m)) eqn:E.
    + apply String.eqb_eq in E. exfalso. apply Hx. rewrite E. apply in_map. exact Hin.
    + rewrite (IH Hn' Hin). ring.
Qed.

(* ---- what makes the Allocation constructor accept ---- *)
Lemma mk_allocation_intro aeps cells : cells <> [] -> forallb cell_ok cells = true ->
  in_quadrant cells = true -> no_overlap aeps cells = true ->
  (forall n, In n (module_names cells) -> area_of n cells <> 0) ->
  mk_allocation aeps cells = Some cells.
Proof.
  intros Hne H1 H2 H3 H4. unfold mk_allocation. destruct cells as [|c cs]; [congruence|].
  rewrite H1, H2, H3. cbn [andb].
  assert (E : forallb (fun m => negb (Qceqb (area_of m (c :: cs)) 0)) (module_names (c :: cs)) = true).
  { apply forallb_forall. intros n Hn. apply negb_true_iff. qb2p. apply H4. exact Hn. }
  rewrite E. reflexivity.
Qed.

Lemma no_overlap_pairwise aeps cells : 0 <= aeps -> pairwise_no_ov (map crect cells) -> no_overlap aeps cells = true.
Proof.
  intro Ha. induction cells as [|c cs IH]; cbn [map pairwise_no_ov no_overlap]; [reflexivity|].
  intros [Hc Hp]. rewrite (IH Hp), andb_true_r. clear IH Hp.
  induction cs as [|d ds IH]; cbn [map no_overlap_with]; [reflexivity|].
  inversion Hc as [|? ? Hd Hds]; subst. rewrite (IH Hds), andb_true_r.
  unfold overlap. rewrite Hd. apply negb_true_iff. qb2p. exact Ha.
Qed.

Lemma add_names_in n a : forall acc, In n (add_names a acc) -> In n acc \/ In n (map fst a).
Proof.
  induction a as [|[k v] a IH]; cbn [add_names map fst]; intros acc H; [left; exact H|].
  apply IH in H. destruct H as [H|H]; [|right; right; exact H].
  destruct (existsb (String.eqb k) acc); [left; exact H|].
  apply in_app_or in H. destruct H as [H|[<-|[]]]; [left; exact H|right; left; reflexivity].
Qed.

Lemma module_names_in n cells : In n (module_names cells) ->
  exists c, In c cells /\ In n (map fst (calloc c)).
Proof.
  unfold module_names.
  assert (G : forall acc, In n (fold_left (fun acc c => add_names (calloc c) acc) cells acc) ->
              In n acc \/ exists c, In c cells /\ In n (map fst (calloc c))).
  { induction cells as [|c cs IH]; cbn [fold_left]; intros acc H; [left; exact H|].
    apply IH in H. destruct H as [H|(c' & Hc' & Hn)].
    - apply add_names_in in H. destruct H as [H|H]; [left; exact H|].
      right. exists c. split; [left; reflexivity|exact H].
    - right. exists c'. split; [right; exact Hc'|exact Hn]. }
  intro H. apply G in H. destruct H as [[]|H]. exact H.
Qed.

Lemma pairwise_app_intro l1 l2 : pairwise_no_ov l1 -> pairwise_no_ov l2 ->
  (forall a b, In a l1 -> In b l2 -> area_overlap a b = 0) -> pairwise_no_ov (l1 ++ l2).
Proof.
  induction l1 as [|x l1 IH]; cbn [app pairwise_no_ov]; intros H1 H2 H3; [exact H2|].
  destruct H1 as [Hx H1]. split.
  - apply Forall_app. split; [exact Hx|]. apply Forall_forall. intros b Hb. apply H3; [left; reflexivity|exact Hb].
  - apply IH; auto. intros a b Ha Hb. apply H3; [right; exact Ha|exact Hb].
Qed.

Lemma pairwise_map_fixed l : pairwise_no_ov l -> pairwise_no_ov (map set_fixed l).
Proof.
  induction l as [|x l IH]; cbn [map pairwise_no_ov]; [auto|]. intros [Hx Hp]. split; [|auto].
  rewrite Forall_map. eapply Forall_impl; [|exact Hx]. intros a Ha. exact Ha.
Qed.

Lemma crect_pre l : map crect (pre_cells l) = map set_fixed (flat_map mrects l).
Proof.
  unfold pre_cells. induction l as [|x l IH]; [reflexivity|]. cbn [flat_map].
  rewrite !map_app, IH, map_map. reflexivity.
Qed.

Lemma alloc_of_in ceps inc0 ms c p : In p (alloc_of ceps inc0 ms c) ->
  exists m, In m ms /\ p = (mname m, clamp1 ceps (cov_ratio c (mrects m))) /\
            (inc0 || Qcltb 0 (clamp1 ceps (cov_ratio c (mrects m)))) = true.
Proof.
  unfold alloc_of. intro H. apply in_flat_map in H. destruct H as (m & Hm & Hp). cbv zeta in Hp.
  destruct (inc0 || Qcltb 0 (clamp1 ceps (cov_ratio c (mrects m)))) eqn:E; [|destruct Hp].
  destruct Hp as [<-|[]]. exists m. auto.
Qed.

Lemma nodup_keys_alloc_of ceps inc0 ms c : NoDup (map mname ms) -> nodup_keys (alloc_of ceps inc0 ms c) = true.
Proof.
  induction ms as [|x ms IH]; cbn [map]; intro Hn; [reflexivity|].
  inversion Hn as [|? ? Hx Hn']; subst.
  change (alloc_of ceps inc0 (x :: ms) c) with
    ((if inc0 || Qcltb 0 (clamp1 ceps (cov_ratio c (mrects x))) then [(mname x, clamp1 ceps (cov_ratio c (mrects x)))] else [])
     ++ alloc_of ceps inc0 ms c).
  destruct (inc0 || Qcltb 0 (clamp1 ceps (cov_ratio c (mrects x)))); cbn [app nodup_keys]; [|auto].
  rewrite lookup_absent; [auto|]. intro H. apply Hx. eapply alloc_of_keys. exact H.
Qed.

Lemma shape_wf sqrt_o m : Forall wf (mrects m) -> Forall wf (shape sqrt_o m).
Proof.
  intro H. unfold shape. destruct (mrects m) eqn:Er; [|exact H]. unfold create_square.
  destruct (mcenter m) as [[x y]|]; [|constructor]. destruct (Qcltb (marea m) 0); [constructor|].
  destruct (Qcltb 0 (sqrt_o (marea m))) eqn:E; [|constructor]. qb2p.
  constructor; [|constructor]. split; exact E.
Qed.

Lemma shape_pairwise sqrt_o m : pairwise_no_ov (mrects m) -> pairwise_no_ov (shape sqrt_o m).
Proof.
  intro H. unfold shape. destruct (mrects m) eqn:Er; [|exact H].
  destruct (create_square sqrt_o m); cbn [pairwise_no_ov]; auto.
Qed.

(* ------------------------------------------------------------------ *)
(* the initial allocation of a netlist on a die                         *)
(* ------------------------------------------------------------------ *)
Section Main.
  Variable sqrt_o : Qc -> Qc.
  Notation shape := (shape sqrt_o).
  Notation squared := (squared sqrt_o).

  (* what a die and its netlist guarantee: the cells (refinable regions R, fixed regions Fx) are
     proper rectangles without common area; the fixed regions are the rectangles of the fixed
     modules (Die takes them from netlist.fixed_rectangles()); refinable regions are not marked
     fixed; module names are distinct; a module without rectangles has a centre and a positive
     area (no terminals) whose root sqrt_o returns exactly; each module's own rectangles are
     proper and pairwise without common area *)
  Definition compatible (R Fx : list Rect) (mods : list nmod) : Prop :=
    Forall wf (R ++ Fx) /\ pairwise_no_ov (R ++ Fx) /\
    Forall (fun r => fixed r = false) R /\
    Fx = flat_map mrects (filter mfixed mods) /\
    Forall (fun m => mfixed m = true -> mrects m <> []) mods /\
    NoDup (map mname mods) /\
    Forall (squarable sqrt_o) mods /\
    Forall (fun m => pairwise_no_ov (mrects m) /\ Forall wf (mrects m)) mods.

  Lemma filter_squared mods : filter mfixed (map squared mods) = map squared (filter mfixed mods).
  Proof.
    induction mods as [|m l IH]; [reflexivity|]. cbn [map filter]. rewrite squared_fixed.
    destruct (mfixed m); cbn [map]; rewrite IH; reflexivity.
  Qed.

  Lemma fixed_rects_squared mods : Forall (fun m => mfixed m = true -> mrects m <> []) mods ->
    flat_map mrects (filter mfixed (map squared mods)) = flat_map mrects (filter mfixed mods).
  Proof.
    intro H. rewrite filter_squared, flat_map_map_c.
    induction mods as [|m l IH]; [reflexivity|]. inversion H as [|? ? Hm Hl]; subst. cbn [filter].
    destruct (mfixed m) eqn:E; [|auto]. cbn [flat_map]. rewrite (IH Hl), squared_rects, shape_rects; auto.
  Qed.

  Lemma names_squared mods : map mname (map squared mods) = map mname mods.
  Proof. rewrite map_map. apply map_ext. reflexivity. Qed.

  (* the list of cells the construction hands to the Allocation constructor *)
  Definition expected (ceps : Qc) (inc0 : bool) (R : list Rect) (mods : list nmod) : list cell :=
    out_cells R (map squared mods) ceps inc0.

  Theorem ia_cells feps ceps aeps inc0 R Fx mods : compatible R Fx mods -> 0 < feps -> feps < 1 ->
    initial_allocation sqrt_o feps ceps aeps inc0 R Fx mods =
    match mk_allocation aeps (init_cells R Fx) with
    | None => Reject RCells
    | Some _ => finalize aeps (expected ceps inc0 R mods)
    end.
  Proof.
    intros (HW & HP & HR & HF & HX & HN & HS & HD) H0 H1. unfold initial_allocation.
    destruct (mk_allocation aeps (init_cells R Fx)) as [cells|] eqn:E; [|reflexivity].
    apply mk_allocation_inv in E. subst cells.
    rewrite (create_squares_defined sqrt_o mods HS).
    set (ms := map squared mods).
    assert (EF : Fx = flat_map mrects (filter mfixed ms)) by (unfold ms; rewrite fixed_rects_squared; assumption).
    assert (HN' : NoDup (map mname ms)) by (unfold ms; rewrite names_squared; exact HN).
    rewrite EF in HW, HP |- *.
    rewrite (detect_die R ms HW HP feps H0 H1).
    rewrite (counts_die ms HN').
    rewrite (rest_die R ms HR ceps inc0 ms), prealloc_die. reflexivity.
  Qed.

  Lemma ia_accept_inv feps ceps aeps inc0 R Fx mods out : compatible R Fx mods -> 0 < feps -> feps < 1 ->
    initial_allocation sqrt_o feps ceps aeps inc0 R Fx mods = Accept out -> out = expected ceps inc0 R mods.
  Proof.
    intros Hc H0 H1. rewrite (ia_cells feps ceps aeps inc0 R Fx mods Hc H0 H1).
    destruct (mk_allocation aeps (init_cells R Fx)); [|discriminate].
    intro H. apply finalize_inv in H. tauto.
  Qed.

  Lemma cov_le_1 R Fx mods c m : compatible R Fx mods -> In c R -> In m mods -> cov_ratio c (shape m) <= 1.
  Proof.
    intros (HW & HP & HR & HF & HX & HN & HS & HD) Hc Hm.
    assert (W : wf c) by (rewrite Forall_forall in HW; apply HW; apply in_or_app; left; exact Hc).
    rewrite Forall_forall in HD. destruct (HD m Hm) as [Pm Wm].
    rewrite cov_ratio_eq. apply div_le_1; [|apply wf_area_pos; exact W].
    apply covered_le_area; [exact W|apply shape_pairwise; exact Pm|apply shape_wf; exact Wm].
  Qed.

  Lemma cell_ratio ceps inc0 R Fx mods c m d : compatible R Fx mods -> In c R -> In m mods ->
    ratio (mname m) (mkCell c (alloc_of ceps inc0 (map squared mods) c) d) = covered c (shape m) / area c.
  Proof.
    intros Hcomp Hc Hm. pose proof Hcomp as (HW & HP & HR & HF & HX & HN & HS & HD).
    assert (W : wf c) by (rewrite Forall_forall in HW; apply HW; apply in_or_app; left; exact Hc).
    change (mname m) with (mname (squared m)).
    rewrite ratio_alloc_of; [|exact W|rewrite names_squared; exact HN|apply in_map; exact Hm].
    rewrite squared_rects, clamp1_id by (apply (cov_le_1 R Fx mods c m Hcomp Hc Hm)). apply cov_ratio_eq.
  Qed.

  Lemma in_expected_ref ceps inc0 R mods c : In c R ->
    In (mkCell c (alloc_of ceps inc0 (map squared mods) c) 0%nat) (expected ceps inc0 R mods).
  Proof.
    intro Hc. unfold expected, out_cells. apply in_or_app. right.
    apply (in_map (fun r => mkCell r (alloc_of ceps inc0 (map squared mods) r) 0%nat)). exact Hc.
  Qed.

  (* every refinable cell records, for every module, exactly the covered fraction *)
  Theorem ia_ratio feps ceps aeps inc0 R Fx mods out : compatible R Fx mods -> 0 < feps -> feps < 1 ->
    initial_allocation sqrt_o feps ceps aeps inc0 R Fx mods = Accept out ->
    forall c, In c R -> exists cell, In cell out /\ crect cell = c /\ cdepth cell = 0%nat /\
      forall m, In m mods ->
        ratio (mname m) cell = covered c (shape m) / area c /\
        0 <= ratio (mname m) cell /\ ratio (mname m) cell <= 1.
  Proof.
    intros Hc H0 H1 Ha c Hin. rewrite (ia_accept_inv feps ceps aeps inc0 R Fx mods out Hc H0 H1 Ha).
    exists (mkCell c (alloc_of ceps inc0 (map squared mods) c) 0%nat).
    split; [apply in_expected_ref; exact Hin|]. split; [reflexivity|]. split; [reflexivity|].
    intros m Hm. rewrite (cell_ratio ceps inc0 R Fx mods c m 0%nat Hc Hin Hm).
    assert (W : wf c).
    { destruct Hc as (HW & _). rewrite Forall_forall in HW. apply HW. apply in_or_app. left. exact Hin. }
    pose proof (wf_area_pos c W) as Ap.
    split; [reflexivity|]. split.
    - apply div_pos_nonneg; [apply covered_nonneg|exact Ap].
    - rewrite <- cov_ratio_eq. apply (cov_le_1 R Fx mods c m Hc Hin Hm).
  Qed.

  (* without zero entries a module is listed in a refinable cell iff it covers part of it *)
  Theorem ia_listed_iff feps ceps aeps R Fx mods out : compatible R Fx mods -> 0 < feps -> feps < 1 ->
    initial_allocation sqrt_o feps ceps aeps false R Fx mods = Accept out ->
    forall c, In c R -> exists cell, In cell out /\ crect cell = c /\
      forall m, In m mods ->
        ((exists q, lookup (mname m) (calloc cell) = Some q) <-> 0 < covered c (shape m)).
  Proof.
    intros Hc H0 H1 Ha c Hin. rewrite (ia_accept_inv feps ceps aeps false R Fx mods out Hc H0 H1 Ha).
    exists (mkCell c (alloc_of ceps false (map squared mods) c) 0%nat).
    split; [apply in_expected_ref; exact Hin|]. split; [reflexivity|].
    intros m Hm. cbn [calloc]. pose proof (cov_le_1 R Fx mods c m Hc Hin Hm) as L1.
    destruct Hc as (HW & HP & HR & HF & HX & HN & HS & HD).
    assert (W : wf c) by (rewrite Forall_forall in HW; apply HW; apply in_or_app; left; exact Hin).
    change (mname m) with (mname (squared m)).
    rewrite lookup_alloc_of; [|rewrite names_squared; exact HN|apply in_map; exact Hm].
    rewrite squared_rects, (clamp1_id ceps _ L1), cov_ratio_eq. cbn [orb].
    pose proof (div_pos_iff (covered c (shape m)) (area c) (wf_area_pos c W)) as D.
    destruct (Qcltb 0 (covered c (shape m) / area c)) eqn:E; qb2p.
    - split; [intros _; apply D; exact E|intros _; eexists; reflexivity].
    - split; [intros [q Hq]; discriminate|]. intro Hp. apply D in Hp. exfalso. qlra.
  Qed.

  Lemma fixed_in_fms mods m : In m mods -> mfixed m = true -> In (squared m) (filter mfixed (map squared mods)).
  Proof. intros Hm Hf. apply filter_In. split; [apply in_map; exact Hm|exact Hf]. Qed.

  Lemma fixed_shape mods m : Forall (fun m => mfixed m = true -> mrects m <> []) mods ->
    In m mods -> mfixed m = true -> shape m = mrects m.
  Proof. intros HX Hm Hf. rewrite Forall_forall in HX. apply shape_rects. apply HX; assumption. Qed.

  (* a refinable cell has no area in common with a fixed module *)
  Lemma fixed_not_on_ref R Fx mods c m : compatible R Fx mods -> In c R -> In m mods -> mfixed m = true ->
    covered c (shape m) = 0.
  Proof.
    intros (HW & HP & HR & HF & HX & HN & HS & HD) Hc Hm Hf. rewrite (fixed_shape mods m HX Hm Hf).
    apply covered_zero. intros r Hr. destruct (pairwise_app R Fx HP) as (_ & _ & H). apply H; [exact Hc|].
    rewrite HF. apply in_flat_map. exists m. split; [apply filter_In; split; assumption|exact Hr].
  Qed.

  Lemma same_name mods m m' : NoDup (map mname mods) -> In m mods -> In m' (map squared mods) ->
    mname m' = mname m -> m' = squared m.
  Proof.
    intros HN Hm Hm' E. apply (NoDup_map_inj mname (map squared mods)); auto.
    - rewrite names_squared. exact HN.
    - apply in_map. exact Hm.
  Qed.

  (* every fixed module owns exactly its own cells, wholly and alone *)
  Theorem ia_fixed_owns feps ceps aeps inc0 R Fx mods out : compatible R Fx mods -> 0 < feps -> feps < 1 ->
    initial_allocation sqrt_o feps ceps aeps inc0 R Fx mods = Accept out ->
    forall m, In m mods -> mfixed m = true ->
      (forall r, In r (mrects m) -> In (mkCell (set_fixed r) [(mname m, 1)] 0%nat) out) /\
      (forall cell, In cell out -> 0 < ratio (mname m) cell ->
         exists r, In r (mrects m) /\ cell = mkCell (set_fixed r) [(mname m, 1)] 0%nat).
  Proof.
    intros Hc H0 H1 Ha m Hm Hf. rewrite (ia_accept_inv feps ceps aeps inc0 R Fx mods out Hc H0 H1 Ha).
    pose proof Hc as (HW & HP & HR & HF & HX & HN & HS & HD).
    unfold expected, out_cells. split.
    - intros r Hr. apply in_or_app. left. apply in_flat_map. exists (squared m).
      split; [apply fixed_in_fms; assumption|].
      rewrite squared_rects, (fixed_shape mods m HX Hm Hf).
      apply (in_map (fun r => mkCell (set_fixed r) [(mname (squared m), 1)] 0%nat)). exact Hr.
    - intros cell Hin Hp. apply in_app_or in Hin. destruct Hin as [Hin|Hin].
      + apply in_flat_map in Hin. destruct Hin as (m' & Hm' & Hcell).
        apply in_map_iff in Hcell. destruct Hcell as (r & <- & Hr).
        unfold ratio in Hp. cbn [calloc lookup] in Hp.
        destruct (String.eqb (mname m') (mname m)) eqn:E; [|exfalso; qlra].
        apply String.eqb_eq in E. apply filter_In in Hm'. destruct Hm' as [Hm' _].
        pose proof (same_name mods m m' HN Hm Hm' E) as ->.
        rewrite squared_rects, (fixed_shape mods m HX Hm Hf) in Hr. exists r. split; [exact Hr|reflexivity].
      + apply in_map_iff in Hin. destruct Hin as (c & <- & Hc').
        rewrite (cell_ratio ceps inc0 R Fx mods c m 0%nat Hc Hc' Hm) in Hp.
        rewrite (fixed_not_on_ref R Fx mods c m Hc Hc' Hm Hf) in Hp.
        exfalso. unfold Qcdiv in Hp. revert Hp. generalize (/ area c). intros. qlra.
  Qed.

  Lemma area_expected ceps inc0 R Fx mods m : compatible R Fx mods -> In m mods ->
    area_of (mname m) (expected ceps inc0 R mods) =
    (if mfixed m then Qcsum (map area (mrects m)) else 0) + Qcsum (map (fun c => covered c (shape m)) R).
  Proof.
    intros Hc Hm. pose proof Hc as (HW & HP & HR & HF & HX & HN & HS & HD).
    unfold expected, out_cells. rewrite area_of_app. f_equal.
    - fold (pre_cells (filter mfixed (map squared mods))). destruct (mfixed m) eqn:Hf.
      + change (mname m) with (mname (squared m)). rewrite area_pre_fixed.
        * rewrite squared_rects, (fixed_shape mods m HX Hm Hf). reflexivity.
        * apply NoDup_map_filter. rewrite names_squared. exact HN.
        * apply fixed_in_fms; assumption.
      + apply area_pre_absent. intro Hin. apply in_map_iff in Hin. destruct Hin as (m' & E & Hm').
        apply filter_In in Hm'. destruct Hm' as [Hm' Hf'].
        pose proof (same_name mods m m' HN Hm Hm' E) as ->. rewrite squared_fixed in Hf'. congruence.
    - unfold area_of. rewrite map_map. apply Qcsum_map_ext. intros c Hin. cbn [crect].
      rewrite (cell_ratio ceps inc0 R Fx mods c m 0%nat Hc Hin Hm).
      apply div_mul_cancel. apply pos_neq0. apply wf_area_pos.
      rewrite Forall_forall in HW. apply HW. apply in_or_app. left. exact Hin.
  Qed.

  (* the area allocated to a module is the area of its shape on the cells open to it:
     the refinable cells for a soft or hard module, its own rectangles for a fixed module *)
  Theorem ia_area feps ceps aeps inc0 R Fx mods out : compatible R Fx mods -> 0 < feps -> feps < 1 ->
    initial_allocation sqrt_o feps ceps aeps inc0 R Fx mods = Accept out ->
    forall m, In m mods ->
      (mfixed m = false ->
         area_of (mname m) out = Qcsum (map (fun r => Qcsum (map (fun c => area_overlap c r) R)) (shape m))) /\
      (mfixed m = true ->
         area_of (mname m) out = Qcsum (map area (mrects m)) /\
         area_of (mname m) out = Qcsum (map (fun r => Qcsum (map (fun c => area_overlap c r) (R ++ Fx))) (mrects m))).
  Proof.
    intros Hc H0 H1 Ha m Hm. rewrite (ia_accept_inv feps ceps aeps inc0 R Fx mods out Hc H0 H1 Ha).
    rewrite (area_expected ceps inc0 R Fx mods m Hc Hm). split; intro Hf; rewrite Hf.
    - unfold covered. rewrite Qcplus_0_l. exact (Qcsum_swap (fun c r => area_overlap c r) R (shape m)).
    - assert (E : Qcsum (map (fun c => covered c (shape m)) R) = 0).
      { apply Qcsum_map_zero. intros c Hin. apply (fixed_not_on_ref R Fx mods c m Hc Hin Hm Hf). }
      rewrite E. split; [ring|]. rewrite Qcplus_0_r. apply Qcsum_map_ext. intros r Hr.
      pose proof Hc as (HW & HP & HR & HF & HX & HN & HS & HD).
      assert (Hin : In r (R ++ Fx)).
      { apply in_or_app. right. rewrite HF. apply in_flat_map. exists m.
        split; [apply filter_In; split; assumption|exact Hr]. }
      rewrite <- (covered_self (R ++ Fx) r HP HW Hin). unfold covered.
      apply Qcsum_map_ext. intros c _. apply ov_sym.
  Qed.

  (* ---- the construction is accepted ---- *)
  Definition well_placed (R Fx : list Rect) (mods : list nmod) : Prop :=
    R ++ Fx <> [] /\
    Forall (fun r => 0 <= xmin r /\ 0 <= ymin r) (R ++ Fx) /\
    Forall (fun m => valid_identifier (mname m) = true) mods.

  Lemma init_cells_accepted aeps R Fx mods : compatible R Fx mods -> well_placed R Fx mods -> 0 <= aeps ->
    mk_allocation aeps (init_cells R Fx) = Some (init_cells R Fx).
  Proof.
    intros (HW & HP & _) (Hne & HQ & _) Ha. unfold init_cells. apply mk_allocation_intro.
    - intro E. apply map_eq_nil in E. contradiction.
    - apply forallb_forall. intros c Hc. apply in_map_iff in Hc. destruct Hc as (r & <- & Hr).
      unfold cell_ok. cbn [crect calloc]. rewrite Forall_forall in HW. destruct (HW r Hr) as [A B].
      unfold wfb. rewrite (proj2 (Qcltb_true _ _) A), (proj2 (Qcltb_true _ _) B). reflexivity.
    - unfold in_quadrant. apply forallb_forall. intros c Hc. apply in_map_iff in Hc. destruct Hc as (r & <- & Hr).
      cbn [crect]. rewrite Forall_forall in HQ. destruct (HQ r Hr) as [A B].
      rewrite (proj2 (Qcleb_true _ _) A), (proj2 (Qcleb_true _ _) B). reflexivity.
    - apply no_overlap_pairwise; [exact Ha|]. rewrite map_map. cbn [crect]. rewrite map_id. exact HP.
    - intros n Hn. apply module_names_in in Hn. destruct Hn as (c & Hc & Hin).
      apply in_map_iff in Hc. destruct Hc as (r & <- & _). destruct Hin.
  Qed.

  Lemma crect_expected ceps inc0 R Fx mods : compatible R Fx mods ->
    map crect (expected ceps inc0 R mods) = map set_fixed Fx ++ R.
  Proof.
    intros (HW & HP & HR & HF & HX & HN & HS & HD). unfold expected, out_cells.
    fold (pre_cells (filter mfixed (map squared mods))).
    rewrite map_app, crect_pre, (fixed_rects_squared mods HX), <- HF, map_map. cbn [crect]. rewrite map_id.
    reflexivity.
  Qed.

  Lemma expected_cases ceps inc0 R mods cell : In cell (expected ceps inc0 R mods) ->
    (exists m r, In m (filter mfixed (map squared mods)) /\ In r (mrects m) /\
                 cell = mkCell (set_fixed r) [(mname m, 1)] 0%nat) \/
    (exists c, In c R /\ cell = mkCell c (alloc_of ceps inc0 (map squared mods) c) 0%nat).
  Proof.
    unfold expected, out_cells. intro H. apply in_app_or in H. destruct H as [H|H].
    - left. apply in_flat_map in H. destruct H as (m & Hm & Hc). apply in_map_iff in Hc.
      destruct Hc as (r & <- & Hr). exists m, r. auto.
    - right. apply in_map_iff in H. destruct H as (c & <- & Hc). exists c. auto.
  Qed.

  Lemma in_squared mods m' : In m' (map squared mods) -> exists m, In m mods /\ m' = squared m.
  Proof. intro H. apply in_map_iff in H. destruct H as (m & <- & Hm). exists m. auto. Qed.

  Theorem ia_ok feps ceps aeps inc0 R Fx mods : compatible R Fx mods -> well_placed R Fx mods ->
    0 < feps -> feps < 1 -> 0 <= aeps ->
    (inc0 = true -> forall m, In m mods -> mfixed m = false -> exists c, In c R /\ 0 < covered c (shape m)) ->
    initial_allocation sqrt_o feps ceps aeps inc0 R Fx mods = Accept (expected ceps inc0 R mods).
  Proof.
    intros Hc Hwp H0 H1 Ha Htouch.
    rewrite (ia_cells feps ceps aeps inc0 R Fx mods Hc H0 H1), (init_cells_accepted aeps R Fx mods Hc Hwp Ha).
    pose proof Hc as (HW & HP & HR & HF & HX & HN & HS & HD). pose proof Hwp as (Hne & HQ & HV).
    assert (HNs : NoDup (map mname (map squared mods))) by (rewrite names_squared; exact HN).
    assert (WR : forall c, In c R -> wf c).
    { intros c Hin. rewrite Forall_forall in HW. apply HW. apply in_or_app. left. exact Hin. }
    assert (WF : forall m r, In m mods -> mfixed m = true -> In r (mrects m) -> In r Fx).
    { intros m r Hm Hf Hr. rewrite HF. apply in_flat_map. exists m. split; [apply filter_In; split; assumption|exact Hr]. }
    unfold finalize. rewrite mk_allocation_intro; [reflexivity| | | | |].
    - intro E. apply (f_equal (map crect)) in E. rewrite (crect_expected ceps inc0 R Fx mods Hc) in E.
      cbn [map] in E. apply app_eq_nil in E. destruct E as [E1 E2]. apply map_eq_nil in E1.
      apply Hne. rewrite E1, E2. reflexivity.
    - apply forallb_forall. intros cell Hin. unfold cell_ok.
      destruct (expected_cases ceps inc0 R mods cell Hin) as [(m' & r & Hm' & Hr & ->)|(c & Hin' & ->)]; cbn [crect calloc].
      + apply filter_In in Hm'. destruct Hm' as [Hm' Hf']. destruct (in_squared mods m' Hm') as (m & Hm & ->).
        rewrite squared_fixed in Hf'. rewrite squared_rects, (fixed_shape mods m HX Hm Hf') in Hr.
        assert (Wr : wf r) by (rewrite Forall_forall in HW; apply HW; apply in_or_app; right; eapply WF; eauto).
        destruct Wr as [A B]. unfold wfb, set_fixed. cbn [rw rh].
        rewrite (proj2 (Qcltb_true _ _) A), (proj2 (Qcltb_true _ _) B). unfold alloc_ok. cbn [forallb fst snd nodup_keys lookup].
        rewrite Forall_forall in HV. rewrite squared_name, (HV m Hm).
        assert (Qcleb 0 1 = true) as -> by (qb2p; qlra). assert (Qcleb 1 1 = true) as -> by (qb2p; qlra). reflexivity.
      + destruct (WR c Hin') as [A B]. unfold wfb.
        rewrite (proj2 (Qcltb_true _ _) A), (proj2 (Qcltb_true _ _) B). cbn [andb]. unfold alloc_ok.
        rewrite (nodup_keys_alloc_of ceps inc0 _ c HNs), andb_true_r.
        apply forallb_forall. intros p Hp. apply alloc_of_in in Hp. destruct Hp as (m' & Hm' & -> & _).
        destruct (in_squared mods m' Hm') as (m & Hm & ->). cbn [fst snd].
        rewrite Forall_forall in HV. rewrite squared_name, (HV m Hm), squared_rects. cbn [andb].
        pose proof (cov_ratio_nonneg c (shape m) (WR c Hin')) as N0.
        pose proof (cov_le_1 R Fx mods c m Hc Hin' Hm) as N1. rewrite (clamp1_id ceps _ N1).
        rewrite (proj2 (Qcleb_true _ _) N0), (proj2 (Qcleb_true _ _) N1). reflexivity.
    - unfold in_quadrant. apply forallb_forall. intros cell Hin.
      assert (Hq : In (crect cell) (map set_fixed Fx ++ R)).
      { rewrite <- (crect_expected ceps inc0 R Fx mods Hc). apply in_map. exact Hin. }
      rewrite Forall_forall in HQ. apply in_app_or in Hq. destruct Hq as [Hq|Hq].
      + apply in_map_iff in Hq. destruct Hq as (r & E & Hr).
        destruct (HQ r (in_or_app _ _ _ (or_intror Hr))) as [A B]. rewrite <- E.
        change (xmin (set_fixed r)) with (xmin r). change (ymin (set_fixed r)) with (ymin r).
        rewrite (proj2 (Qcleb_true _ _) A), (proj2 (Qcleb_true _ _) B). reflexivity.
      + destruct (HQ _ (in_or_app _ _ _ (or_introl Hq))) as [A B].
        rewrite (proj2 (Qcleb_true _ _) A), (proj2 (Qcleb_true _ _) B). reflexivity.
    - apply no_overlap_pairwise; [exact Ha|]. rewrite (crect_expected ceps inc0 R Fx mods Hc).
      destruct (pairwise_app R Fx HP) as (PR & PF & PX).
      apply pairwise_app_intro; [apply pairwise_map_fixed; exact PF|exact PR|].
      intros a b Ha' Hb. apply in_map_iff in Ha'. destruct Ha' as (r & <- & Hr).
      change (area_overlap (set_fixed r) b) with (area_overlap r b). rewrite ov_sym. apply PX; assumption.
    - intros n Hn. apply module_names_in in Hn. destruct Hn as (cell & Hin & Hk).
      assert (G : forall m, In m mods -> (mfixed m = false -> exists c, In c R /\ 0 < covered c (shape m)) ->
                  area_of (mname m) (expected ceps inc0 R mods) <> 0).
      { intros m Hm Hex. rewrite (area_expected ceps inc0 R Fx mods m Hc Hm).
        assert (S0 : 0 <= Qcsum (map (fun c => covered c (shape m)) R)).
        { apply Qcsum_map_nonneg. intros. apply covered_nonneg. }
        destruct (mfixed m) eqn:Hf.
        - assert (0 < Qcsum (map area (mrects m))).
          { rewrite Forall_forall in HX. pose proof (HX m Hm Hf) as Hnn.
            destruct (mrects m) as [|r rs] eqn:Er; [congruence|].
            apply (Qcsum_pos_in area (r :: rs) r).
            - intros y Hy. apply Qclt_le_weak. apply wf_area_pos. rewrite Forall_forall in HW. apply HW.
              apply in_or_app. right. apply (WF m y Hm Hf). rewrite Er. exact Hy.
            - left. reflexivity.
            - apply wf_area_pos. rewrite Forall_forall in HW. apply HW.
              apply in_or_app. right. apply (WF m r Hm Hf). rewrite Er. left. reflexivity. }
          apply pos_neq0. revert H S0. generalize (Qcsum (map area (mrects m))) (Qcsum (map (fun c => covered c (shape m)) R)).
          intros. qlra.
        - destruct (Hex eq_refl) as (c & Hin' & Hp).
          assert (0 < Qcsum (map (fun c => covered c (shape m)) R)).
          { apply (Qcsum_pos_in (fun c => covered c (shape m)) R c); auto. intros. apply covered_nonneg. }
          apply pos_neq0. revert H. generalize (Qcsum (map (fun c => covered c (shape m)) R)). intros. qlra. }
      destruct (expected_cases ceps inc0 R mods cell Hin) as [(m' & r & Hm' & Hr & ->)|(c & Hin' & ->)]; cbn [calloc map fst] in Hk.
      + destruct Hk as [<-|[]]. apply filter_In in Hm'. destruct Hm' as [Hm' Hf'].
        destruct (in_squared mods m' Hm') as (m & Hm & ->). rewrite squared_fixed in Hf'. rewrite squared_name.
        apply G; [exact Hm|]. intro. congruence.
      + apply in_map_iff in Hk. destruct Hk as (p & <- & Hp). apply alloc_of_in in Hp.
        destruct Hp as (m' & Hm' & -> & Hl). destruct (in_squared mods m' Hm') as (m & Hm & ->).
        cbn [fst]. rewrite squared_name. apply G; [exact Hm|]. intro Hf.
        destruct inc0 eqn:Ei.
        * apply Htouch; auto.
        * cbn [orb] in Hl. qb2p.
          rewrite squared_rects, (clamp1_id ceps _ (cov_le_1 R Fx mods c m Hc Hin' Hm)), cov_ratio_eq in Hl.
          exists c. split; [exact Hin'|]. apply (div_pos_iff _ (area c) (wf_area_pos c (WR c Hin'))). exact Hl.
  Qed.
End Main.

(* ------------------------------------------------------------------ *)
(* Example: the hypotheses are satisfiable by a non-trivial state       *)
(* ------------------------------------------------------------------ *)
(* A 4 x 4 die.  Blockage x 2..4, y 2..4 (not a cell).  Fixed module F1 at x 0..1, y 3..4.
   Refinable regions: A = x 0..2, y 0..3;  B = x 1..2, y 3..4;  C = x 2..4, y 0..2 (region dsp).
   Soft module S: area 4, centre (3.5, 2), no rectangles -> the square x 2.5..4.5, y 1..3, which
   sticks out of the die (x > 4), lies partly on the blockage (y 2..3) and contains the hard
   module H = x 2.5..3.5, y 1..2.  S covers 1.5 of C's area 4, H covers 1. *)
Module Ex.
  Definition sq : Qc -> Qc := table_sqrt [(qc 4 1, qc 2 1)].
  Definition A := mkRect (qc 1 1) (qc 3 2) (qc 2 1) (qc 3 1) false false "_" NOPOLY.
  Definition B := mkRect (qc 3 2) (qc 7 2) (qc 1 1) (qc 1 1) false false "_" NOPOLY.
  Definition C := mkRect (qc 3 1) (qc 1 1) (qc 2 1) (qc 2 1) false false "dsp" NOPOLY.
  Definition F1 := mkRect (qc 1 2) (qc 7 2) (qc 1 1) (qc 1 1) true true "_" TRUNK.
  Definition H1 := mkRect (qc 3 1) (qc 3 2) (qc 1 1) (qc 1 1) false true "_" TRUNK.
  Definition R := [A; B; C].
  Definition mods := [ mkMod "S" false false (qc 4 1) (Some (qc 7 2, qc 2 1)) [];
                       mkMod "H" false true (qc 1 1) (Some (qc 3 1, qc 3 2)) [H1];
                       mkMod "F1" true true (qc 1 1) (Some (qc 1 2, qc 7 2)) [F1] ].
  Definition feps := qc 1 1000000.
  Definition ceps := qc 1 1000000000.
  Definition aeps := qc 1 1000000.

  Ltac qdec := first [ apply Qcltb_true | apply Qcleb_true | apply Qceqb_true ]; vm_compute; reflexivity.

  Example compatible_ex : compatible sq R [F1] mods.
  Proof.
    unfold compatible. splits.
    - repeat constructor; qdec.
    - cbn [R app pairwise_no_ov]. splits; repeat constructor; qdec.
    - repeat constructor.
    - reflexivity.
    - repeat constructor; cbn [mfixed mrects]; intros; discriminate.
    - cbn [map mods mname]. repeat constructor; cbn [In]; intuition discriminate.
    - unfold mods. constructor; [|constructor; [|constructor; [|constructor]]]; intro E; try discriminate E.
      split; [eexists; reflexivity|]. split; [qdec|]. split; qdec.
    - repeat constructor; cbn [mrects pairwise_no_ov]; auto; qdec.
  Qed.

  Example well_placed_ex : well_placed R [F1] mods.
  Proof.
    unfold well_placed. splits.
    - discriminate.
    - repeat constructor; qdec.
    - repeat constructor.
  Qed.

  (* the square of S *)
  Example shape_ex : shape sq (mkMod "S" false false (qc 4 1) (Some (qc 7 2, qc 2 1)) []) =
                     [mkRect (qc 7 2) (qc 2 1) (sq (qc 4 1)) (sq (qc 4 1)) false false "_" NOPOLY] /\
                     sq (qc 4 1) = qc 2 1.
  Proof. split; [reflexivity|]. qdec. Qed.

  (* the result: F1's cell first, wholly F1's and marked fixed; A and B empty; C lists S with 3/8
     and H with 1/4 (both cover the same part of C: modules may overlap) *)
  Example result_ex :
    agree_accept [0; 0; 0; 0]%Z (initial_allocation sq feps ceps aeps false R [F1] mods)
      [ mkCell (set_fixed F1) [("F1"%string, 1)] 0%nat; mkCell A [] 0%nat; mkCell B [] 0%nat;
        mkCell C [("S"%string, qc 3 8); ("H"%string, qc 1 4)] 0%nat ] = true.
  Proof. vm_compute. reflexivity. Qed.

  (* with zero entries every module is listed in every refinable cell; accepted because every
     module touches some cell *)
  Example result_zero_ex :
    agree_accept [0; 0; 0; 0]%Z (initial_allocation sq feps ceps aeps true R [F1] mods)
      [ mkCell (set_fixed F1) [("F1"%string, 1)] 0%nat;
        mkCell A [("S"%string, 0); ("H"%string, 0); ("F1"%string, 0)] 0%nat;
        mkCell B [("S"%string, 0); ("H"%string, 0); ("F1"%string, 0)] 0%nat;
        mkCell C [("S"%string, qc 3 8); ("H"%string, qc 1 4); ("F1"%string, 0)] 0%nat ] = true.
  Proof. vm_compute. reflexivity. Qed.

  (* outside the hypotheses the construction does reject: a fixed module that covers half of a
     cell, and a soft module that touches no cell when zero entries are requested *)
  Example reject_half_ex :
    agree_reject (initial_allocation sq feps ceps aeps false R []
       [mkMod "F1" true true (qc 1 1) None [mkRect (qc 7 2) (qc 1 1) (qc 1 1) (qc 2 1) true true "_" TRUNK]])
       RFixedRatio = true.
  Proof. vm_compute. reflexivity. Qed.
  Example reject_untouched_ex :
    agree_reject (initial_allocation sq feps ceps aeps true R []
       [mkMod "S" false false (qc 4 1) (Some (qc 10 1, qc 10 1)) []]) RZeroArea = true.
  Proof. vm_compute. reflexivity. Qed.
End Ex.
