(* refine / uniform_refinement_depth / griddify: each produces a refinement
   (RefinesFacts) of its argument and never fails on an accepted allocation. *)
From FrameModel Require Import Num.QcTac Geometry.Rect Geometry.RectFacts Geometry.SplitFacts
  Alloc.Alloc Alloc.GeomExtra Alloc.RefinesFacts Alloc.AcceptFacts.
Open Scope list_scope.
Open Scope Qc_scope.
Local Notation concat := List.concat.

Lemma cell_eta c : mkCell (crect c) (calloc c) (cdepth c) = c.
Proof. destruct c; reflexivity. Qed.

(* two pieces obtained by an axis-parallel cut refine the cell *)
Lemma two_piece_refines c r1 r2 d1 d2 :
  fixed (crect c) = false ->
  tiles [r1; r2] (crect c) -> same_attrs (crect c) r1 -> same_attrs (crect c) r2 ->
  area r1 * cx r1 + area r2 * cx r2 = area (crect c) * cx (crect c) ->
  area r1 * cy r1 + area r2 * cy r2 = area (crect c) * cy (crect c) ->
  (cdepth c <= d1)%nat -> (cdepth c <= d2)%nat ->
  cell_refines c [mkCell r1 (calloc c) d1; mkCell r2 (calloc c) d2].
Proof.
  intros Hfx (Fw & Pd & As) S1 S2 Mx My D1 D2.
  inversion Fw as [|? ? [W1 I1] Fw']; subst. inversion Fw' as [|? ? [W2 I2] _]; subst.
  constructor; cbn [map crect calloc cdepth].
  - repeat (apply Forall_cons || apply Forall_nil); reflexivity.
  - repeat (apply Forall_cons || apply Forall_nil); cbn; assumption.
  - repeat (apply Forall_cons || apply Forall_nil); cbn; assumption.
  - repeat (apply Forall_cons || apply Forall_nil); cbn; assumption.
  - exact Pd.
  - unfold carea; cbn [map crect Qcsum]. cbn [map Qcsum] in As. exact As.
  - unfold cmx; cbn [map crect Qcsum]. rewrite <- Mx. ring.
  - unfold cmy; cbn [map crect Qcsum]. rewrite <- My. ring.
  - repeat (apply Forall_cons || apply Forall_nil); cbn; assumption.
  - intro H. congruence.
Qed.

Lemma split_moments r r1 r2 : split r = Some (r1, r2) ->
  area r1 * cx r1 + area r2 * cx r2 = area r * cx r /\
  area r1 * cy r1 + area r2 * cy r2 = area r * cy r.
Proof.
  unfold split. destruct (Qcltb (rw r) (rh r)); intro H.
  - apply split_v_moments in H. tauto.
  - apply split_h_moments in H. tauto.
Qed.

Fixpoint hpow (l : nat) : Qc := match l with O => 1 | S k => half * hpow k end.

(* _split_allocation *)
Lemma split_alloc_refines l : forall r al d, wf r -> (l = 0%nat \/ fixed r = false) ->
  exists ps, split_alloc r al d l = Some ps /\ cell_refines (mkCell r al d) ps /\
    List.length ps = (2 ^ l)%nat /\
    Forall (fun p => cdepth p = (d + l)%nat /\ carea p = area r * hpow l) ps.
Proof.
  induction l as [|l IH]; intros r al d W Hfx; cbn [split_alloc].
  - exists [mkCell r al d]. split; [reflexivity|]. split; [apply cell_refines_refl; exact W|].
    split; [reflexivity|]. repeat constructor; cbn; [lia|unfold carea; cbn; ring].
  - destruct Hfx as [Hfx|Hfx]; [discriminate|].
    destruct (split_halves r W) as (r1 & r2 & Hs & T & A1 & A2 & SA1 & SA2 & _). rewrite Hs.
    pose proof T as (Fw & _). inversion Fw as [|? ? [W1 _] Fw']; subst. inversion Fw' as [|? ? [W2 _] _]; subst.
    assert (F1 : fixed r1 = false) by (destruct SA1 as (E & _); congruence).
    assert (F2 : fixed r2 = false) by (destruct SA2 as (E & _); congruence).
    destruct (IH r1 al (S d) W1 (or_intror F1)) as (ps1 & E1 & R1 & L1 & P1).
    destruct (IH r2 al (S d) W2 (or_intror F2)) as (ps2 & E2 & R2 & L2 & P2).
    rewrite E1, E2. exists (ps1 ++ ps2). split; [reflexivity|]. split; [|split].
    + destruct (split_moments _ _ _ Hs) as [Mx My].
      pose proof (two_piece_refines (mkCell r al d) r1 r2 (S d) (S d) Hfx T SA1 SA2 Mx My) as TP.
      cbn [cdepth calloc] in TP. specialize (TP (Nat.le_succ_diag_r d) (Nat.le_succ_diag_r d)).
      replace (ps1 ++ ps2) with (concat [ps1; ps2]) by (cbn; rewrite app_nil_r; reflexivity).
      eapply cell_refines_concat; [exact TP|]. constructor; [exact R1|]. constructor; [exact R2|constructor].
    + rewrite app_length, L1, L2. cbn [Nat.pow]. lia.
    + apply Forall_app. split.
      * eapply Forall_impl; [|exact P1]. cbn. intros p [Hd Ha]. split; [lia|]. rewrite Ha, A1. cbn [hpow]. ring.
      * eapply Forall_impl; [|exact P2]. cbn. intros p [Hd Ha]. split; [lia|]. rewrite Ha, A2. cbn [hpow]. ring.
Qed.

(* mapping a cell-wise step over an allocation *)
Lemma map_step_refines (f : cell -> option (list cell)) cells :
  (forall c, wf (crect c) -> exists ps, f c = Some ps /\ cell_refines c ps) ->
  Forall (fun c => wf (crect c)) cells ->
  exists new, concat_opt (map f cells) = Some new /\ refines cells new.
Proof.
  intros Hf W. induction W as [|c cells Wc W IH]; cbn [map concat_opt].
  - exists []. split; [reflexivity|]. exists []. split; [constructor|reflexivity].
  - destruct (Hf c Wc) as (ps & E & R). rewrite E. destruct IH as (new & E' & parts & F & ->). rewrite E'.
    exists (ps ++ concat parts). split; [reflexivity|]. exists (ps :: parts). split; [constructor; assumption|reflexivity].
Qed.

Lemma refines_wf cells cells' : refines cells cells' -> Forall (fun c => wf (crect c)) cells'.
Proof.
  intros (parts & F & ->). induction F as [|c ps cells parts Hc F IH]; cbn [concat]; [constructor|].
  apply Forall_app. split; [apply (cr_wf _ _ Hc)|exact IH].
Qed.

(* ---- refine ---- *)
Lemma splittable_not_fixed t c : splittable t c = true -> fixed (crect c) = false.
Proof.
  unfold splittable. intro H. apply andb_true_iff in H. destruct H as [H _]. apply andb_true_iff in H.
  destruct H as [H _]. apply negb_true_iff in H. exact H.
Qed.

Lemma refine_cells_refines t levels cells : Forall (fun c => wf (crect c)) cells ->
  exists new, refine_cells t levels cells = Some new /\ refines cells new.
Proof.
  intro W. unfold refine_cells. apply map_step_refines; [|exact W].
  intros c Wc. destruct (splittable t c) eqn:E.
  - destruct (split_alloc_refines levels (crect c) (calloc c) (cdepth c) Wc (or_intror (splittable_not_fixed _ _ E)))
      as (ps & S & R & _). exists ps. rewrite cell_eta in R. auto.
  - destruct (split_alloc_refines 0 (crect c) (calloc c) (cdepth c) Wc (or_introl eq_refl)) as (ps & S & R & _).
    exists ps. rewrite cell_eta in R. auto.
Qed.

Theorem refine_ok aeps t levels cells : 0 <= aeps -> (0 < levels)%nat -> accepted aeps cells ->
  exists new, refine aeps t levels cells = Some new /\ refines cells new /\ accepted aeps new.
Proof.
  intros Ha Hl Acc. destruct (refine_cells_refines t levels cells (accepted_wf _ _ Acc)) as (new & E & R).
  exists new. unfold refine. destruct levels; [lia|]. rewrite E.
  pose proof (refines_accepted aeps cells new Ha Acc R) as A. split; [exact A|]. split; assumption.
Qed.

(* ---- uniform depth ---- *)
Lemma uniform_cells_refines cells : Forall (fun c => wf (crect c)) cells ->
  exists new, uniform_cells cells = Some new /\ refines cells new.
Proof.
  intro W. unfold uniform_cells. apply map_step_refines; [|exact W].
  intros c Wc. destruct (fixed (crect c)) eqn:E.
  - destruct (split_alloc_refines 0 (crect c) (calloc c) (cdepth c) Wc (or_introl eq_refl)) as (ps & S & R & _).
    exists ps. rewrite cell_eta in R. auto.
  - destruct (split_alloc_refines (max_depth cells - cdepth c) (crect c) (calloc c) (cdepth c) Wc (or_intror E))
      as (ps & S & R & _). exists ps. rewrite cell_eta in R. auto.
Qed.

Theorem uniform_ok aeps cells : 0 <= aeps -> accepted aeps cells ->
  exists new, uniform_refinement_depth aeps cells = Some new /\ refines cells new /\ accepted aeps new.
Proof.
  intros Ha Acc. unfold uniform_refinement_depth.
  destruct (Nat.eqb (max_depth cells) (min_depth cells)).
  - exists cells. split; [reflexivity|]. split; [apply refines_refl; apply (accepted_wf _ _ Acc)|exact Acc].
  - destruct (uniform_cells_refines cells (accepted_wf _ _ Acc)) as (new & E & R). exists new. rewrite E.
    pose proof (refines_accepted aeps cells new Ha Acc R) as A. split; [exact A|]. split; assumption.
Qed.

(* ---- griddify ---- *)
Lemma cut_x_refines q x c : wf (crect c) -> exists ps, cut_x q x c = Some ps /\ cell_refines c ps.
Proof.
  intro W. unfold cut_x. destruct (negb (fixed (crect c)) && x_cuttable (crect c) x q) eqn:E.
  - apply andb_true_iff in E. destruct E as [Ef Ec]. apply negb_true_iff in Ef.
    apply x_cuttable_inside in Ec. destruct Ec as [C1 C2].
    destruct (split_horizontal (crect c) x) as [[r1 r2]|] eqn:S.
    + eexists. split; [reflexivity|].
      pose proof (split_h_tiles _ _ _ _ W S) as T. cbv zeta in T.
      destruct T as (_ & _ & _ & _ & _ & _ & _ & _ & _ & _ & SA1 & SA2 & _ & _ & T).
      destruct (split_h_moments _ _ _ _ S) as (_ & Mx & My).
      apply two_piece_refines; auto.
    + exfalso. apply split_h_reject_iff in S. apply S. destruct W as [Ww Wh].
      destruct (Qcltb x 0); [unfold xmin, xmax; split; qlra|split; assumption].
  - exists [c]. split; [reflexivity|apply cell_refines_refl; exact W].
Qed.
Lemma cut_y_refines q y c : wf (crect c) -> exists ps, cut_y q y c = Some ps /\ cell_refines c ps.
Proof.
  intro W. unfold cut_y. destruct (negb (fixed (crect c)) && y_cuttable (crect c) y q) eqn:E.
  - apply andb_true_iff in E. destruct E as [Ef Ec]. apply negb_true_iff in Ef.
    apply y_cuttable_inside in Ec. destruct Ec as [C1 C2].
    destruct (split_vertical (crect c) y) as [[r1 r2]|] eqn:S.
    + eexists. split; [reflexivity|].
      pose proof (split_v_tiles _ _ _ _ W S) as T. cbv zeta in T.
      destruct T as (_ & _ & _ & _ & _ & _ & _ & _ & _ & _ & SA1 & SA2 & _ & _ & T).
      destruct (split_v_moments _ _ _ _ S) as (_ & Mx & My).
      apply two_piece_refines; auto.
    + exfalso. apply split_v_reject_iff in S. apply S. destruct W as [Ww Wh].
      destruct (Qcltb y 0); [unfold ymin, ymax; split; qlra|split; assumption].
  - exists [c]. split; [reflexivity|apply cell_refines_refl; exact W].
Qed.

Lemma apply_cuts_refines (f : Qc -> cell -> option (list cell)) cuts :
  (forall x c, wf (crect c) -> exists ps, f x c = Some ps /\ cell_refines c ps) ->
  forall cells, Forall (fun c => wf (crect c)) cells ->
  exists new, apply_cuts f cuts cells = Some new /\ refines cells new.
Proof.
  intro Hf. unfold apply_cuts. induction cuts as [|x cuts IH]; intros cells W; cbn [fold_left].
  - exists cells. split; [reflexivity|apply refines_refl; exact W].
  - destruct (map_step_refines (f x) cells (Hf x) W) as (mid & E & R). rewrite E.
    destruct (IH mid (refines_wf _ _ R)) as (new & E' & R'). exists new. split; [exact E'|].
    eapply refines_trans; eauto.
Qed.

Lemma griddify_cells_refines eps q cells : Forall (fun c => wf (crect c)) cells ->
  exists new, griddify_cells eps q cells = Some new /\ refines cells new.
Proof.
  intro W. unfold griddify_cells. destruct (gather_boundaries eps (map crect cells)) as [xc yc].
  destruct (apply_cuts_refines (cut_x q) (interior xc) (cut_x_refines q) cells W) as (mid & E & R). rewrite E.
  destruct (apply_cuts_refines (cut_y q) (interior yc) (cut_y_refines q) mid (refines_wf _ _ R)) as (new & E' & R').
  exists new. split; [exact E'|]. eapply refines_trans; eauto.
Qed.

Theorem griddify_ok eps aeps q cells : 0 <= aeps -> accepted aeps cells ->
  exists new, griddify eps aeps q cells = Some new /\ refines cells new /\ accepted aeps new.
Proof.
  intros Ha Acc. destruct (griddify_cells_refines eps q cells (accepted_wf _ _ Acc)) as (new & E & R).
  exists new. unfold griddify. rewrite E.
  pose proof (refines_accepted aeps cells new Ha Acc R) as A. split; [exact A|]. split; assumption.
Qed.

(* ---- any composition of the three operations ---- *)
Definition op_admissible (o : op) : Prop :=
  match o with OpRefine _ l => (0 < l)%nat | _ => True end.

Theorem run_ops_ok eps aeps q ops : 0 <= aeps -> Forall op_admissible ops ->
  forall cells, accepted aeps cells ->
  exists new, run_ops eps aeps q ops cells = Some new /\ refines cells new /\ accepted aeps new.
Proof.
  intros Ha Hops. unfold run_ops. induction Hops as [|o ops Ho Hops IH]; intros cells Acc; cbn [fold_left].
  - exists cells. split; [reflexivity|]. split; [apply refines_refl; apply (accepted_wf _ _ Acc)|exact Acc].
  - assert (S1 : exists mid, run_op eps aeps q o cells = Some mid /\ refines cells mid /\ accepted aeps mid).
    { destruct o as [t l| |]; cbn [run_op].
      - apply refine_ok; assumption.
      - apply uniform_ok; assumption.
      - apply griddify_ok; assumption. }
    destruct S1 as (mid & E & R & A). rewrite E. destruct (IH mid A) as (new & E' & R' & A').
    exists new. split; [exact E'|]. split; [eapply refines_trans; eauto|exact A'].
Qed.

Theorem refines_unfold cells cells' : refines cells cells' ->
  exists parts, cells' = List.concat parts /\
    Forall2 (fun c ps =>
      Forall (fun p => calloc p = calloc c /\ wf (crect p) /\ is_inside (crect p) (crect c) = true /\
                       same_attrs (crect c) (crect p)) ps /\
      pairwise_no_ov (map crect ps) /\
      Qcsum (map carea ps) = carea c /\
      (fixed (crect c) = true -> ps = [c])) cells parts.
Proof.
  intros (parts & F & ->). exists parts. split; [reflexivity|].
  induction F as [|c ps cells parts Hc F IH]; constructor; [|exact IH].
  split; [|split; [apply (cr_disj _ _ Hc)|split; [apply (cr_area _ _ Hc)|apply (cr_fixed _ _ Hc)]]].
  pose proof (cr_alloc _ _ Hc) as A. pose proof (cr_wf _ _ Hc) as B.
  pose proof (cr_inside _ _ Hc) as C. pose proof (cr_attrs _ _ Hc) as D.
  rewrite Forall_forall in *. intros p Hp. auto.
Qed.

(* non-vacuity: a two-cell allocation is accepted and can be refined *)
Definition ex_cells : list cell :=
  [mkCell (mkRect (qc 1 1) (qc 1 1) (qc 2 1) (qc 2 1) false false "_" NOPOLY) [("M1"%string, qc 1 2)] 0;
   mkCell (mkRect (qc 3 1) (qc 1 1) (qc 2 1) (qc 2 1) true true "_" NOPOLY) [("FX"%string, qc 1 1)] 0].
Example ex_accepted : accepted (qc 1 1024) ex_cells /\
  match refine (qc 1 1024) (qc 1 2) 2 ex_cells with Some new => List.length new = 5%nat | None => False end.
Proof. split; vm_compute; reflexivity. Qed.
