(* C12, grid alignment, the y phase read against the PIECE: griddify applies all x cuts before the first y cut, so a
   boundary line y that is still strictly inside a refinable cell f of the result was refused on a cell with exactly
   the x extent of f (f itself or a cell f was cut from by y cuts only): the sliver is measured against the width of
   the piece the x cuts left, not against the width of the original cell.  (An implementation that decides which y
   lines to try from the ORIGINAL cells - for which the line may be an exempt sliver - does not satisfy this.) *)
From FrameModel Require Import Num.QcTac Geometry.Rect Geometry.RectFacts Geometry.SplitFacts
  Alloc.Alloc Alloc.GeomExtra Alloc.RefinesFacts Alloc.AcceptFacts Alloc.OpsFacts Alloc.DecisionFacts
  Alloc.GriddifyFacts.
Open Scope list_scope.
Open Scope Qc_scope.
Local Notation concat := List.concat.

(* the cut at y was tried on a and refused, a contains f and has the x extent of f *)
Definition refused_y_piece (q y : Qc) (cells0 : list cell) (f : cell) : Prop :=
  exists a, desc cells0 a /\ is_inside (crect f) (crect a) = true /\ fixed (crect a) = false /\
            ymin (crect a) < y /\ y < ymax (crect a) /\ y_cuttable (crect a) y q = false /\
            xmin (crect a) = xmin (crect f) /\ xmax (crect a) = xmax (crect f).

Lemma refused_y_piece_weaken q y cells0 f : refused_y_piece q y cells0 f -> refused_y q y cells0 f.
Proof. intros (a & A & B & C & D & E & F & _). exists a. auto 10. Qed.

Definition inv_yp (q : Qc) (cells0 : list cell) (P : Qc -> Prop) (cs : list cell) : Prop :=
  Forall (fun f => wf (crect f) /\ desc cells0 f /\
    (fixed (crect f) = false -> forall y, P y -> ymin (crect f) < y -> y < ymax (crect f) ->
       refused_y_piece q y cells0 f)) cs.

Lemma refused_y_piece_inside q y cells0 f g : refused_y_piece q y cells0 f ->
  is_inside (crect g) (crect f) = true -> xmin (crect g) = xmin (crect f) -> xmax (crect g) = xmax (crect f) ->
  refused_y_piece q y cells0 g.
Proof.
  intros (a & D & I & R1 & R2 & R3 & R4 & X1 & X2) H E1 E2. exists a. split; [exact D|].
  split; [eapply is_inside_trans; eauto|]. splits; try assumption; congruence.
Qed.

Lemma step_yp q cells0 P y : 0 <= y -> forall cs new,
  inv_yp q cells0 P cs -> concat_opt (map (cut_y q y) cs) = Some new ->
  inv_yp q cells0 (fun z => P z \/ z = y) new.
Proof.
  intros Hy cs. induction cs as [|c cs IH]; intros new Inv H; cbn [map concat_opt] in H.
  - injection H as <-. constructor.
  - destruct (cut_y q y c) as [ps|] eqn:E; [|discriminate].
    destruct (concat_opt (map (cut_y q y) cs)) as [rest|] eqn:E'; [|discriminate]. injection H as <-.
    inversion Inv as [|? ? (Wc & Dc & Ic) Inv']; subst.
    unfold inv_yp. apply Forall_app. split; [|exact (IH _ Inv' eq_refl)].
    destruct (cut_y_cases q y c ps Wc Hy E) as
      [[-> Hn]|(r1 & r2 & d & -> & Fc & W1 & W2 & I1 & I2 & F1 & F2 & Y1 & Y2 & A1 & A2 & A3 & A4)].
    + constructor; [|constructor]. split; [exact Wc|]. split; [exact Dc|].
      intros Hf z [Pz| ->] L U; [apply Ic; assumption|].
      destruct Hn as [Hn|Hn]; [congruence|].
      exists c. split; [exact Dc|]. split; [apply is_inside_refl|]. auto 10.
    + assert (Cut : forall r, is_inside r (crect c) = true -> wf r -> fixed r = false ->
                (ymax r = y \/ ymin r = y) -> xmin r = xmin (crect c) -> xmax r = xmax (crect c) ->
                wf r /\ desc cells0 (mkCell r (calloc c) d) /\
                (fixed r = false -> forall z, P z \/ z = y -> ymin r < z -> z < ymax r ->
                   refused_y_piece q z cells0 (mkCell r (calloc c) d))).
      { intros r Ir Wr Fr Hb E1 E2. split; [exact Wr|]. split; [apply (desc_inside cells0 c); assumption|].
        intros _ z [Pz| ->] L U.
        - destruct (inside_y_strict (mkCell r (calloc c) d) c z Ir L U) as [L' U'].
          apply (refused_y_piece_inside q z cells0 c); [apply Ic; assumption|exact Ir|exact E1|exact E2].
        - exfalso. destruct Hb as [Hb|Hb]; rewrite Hb in *; qlra. }
      constructor; [apply Cut; auto|]. constructor; [apply Cut; auto|constructor].
Qed.

Lemma apply_cuts_yp_inv q cells0 cuts : Forall (fun y => 0 <= y) cuts -> forall P cs new,
  inv_yp q cells0 P cs -> apply_cuts (cut_y q) cuts cs = Some new ->
  inv_yp q cells0 (fun y => P y \/ In y cuts) new.
Proof.
  intro Hc. unfold apply_cuts. induction Hc as [|y cuts Hy Hc IH]; intros P cs new Inv H; cbn [fold_left] in H.
  - injection H as <-. eapply Forall_impl; [|exact Inv]. cbn. intros f (A & B & C). split; [exact A|]. split; [exact B|].
    intros Hf z [Pz|[]]. apply C; assumption.
  - destruct (concat_opt (map (cut_y q y) cs)) as [mid|] eqn:E.
    2:{ exfalso. clear - H. induction cuts as [|z cuts IH]; cbn [fold_left] in H; [discriminate|auto]. }
    pose proof (step_yp q cells0 P y Hy cs mid Inv E) as Inv'.
    specialize (IH _ _ _ Inv' H). eapply Forall_impl; [|exact IH]. cbn. intros f (A & B & C).
    split; [exact A|]. split; [exact B|]. intros Hf z Hz. apply C; [exact Hf|].
    destruct Hz as [Pz|[ ->|Hin]]; auto.
Qed.

Theorem griddify_aligned_piece eps q cells new : Forall (fun c => wf (crect c)) cells -> in_quadrant cells = true ->
  griddify_cells eps q cells = Some new ->
  let yc := snd (gather_boundaries eps (map crect cells)) in
  Forall (fun f => fixed (crect f) = false ->
     forall y, In y (interior yc) -> ymin (crect f) < y -> y < ymax (crect f) -> refused_y_piece q y cells f) new.
Proof.
  intros W Q H. cbv zeta. pose proof (boundaries_nonneg eps cells W Q) as B.
  unfold griddify_cells in H. destruct (gather_boundaries eps (map crect cells)) as [xc yc]. cbn [fst snd].
  destruct B as [Bx By].
  destruct (apply_cuts (cut_x q) (interior xc) cells) as [mid|] eqn:E; [|discriminate].
  assert (I0 : inv_x q cells (fun _ => False) cells).
  { apply Forall_forall. intros f Hf. rewrite Forall_forall in W. split; [apply W; exact Hf|].
    split; [exists f; split; [exact Hf|apply is_inside_refl]|]. intros _ x []. }
  pose proof (apply_cuts_x_inv q cells (interior xc) Bx _ _ _ I0 E) as I1.
  assert (I1' : inv_yp q cells (fun _ => False) mid).
  { eapply Forall_impl; [|exact I1]. cbn. intros f (A & B & C). split; [exact A|]. split; [exact B|].
    intros _ y []. }
  pose proof (apply_cuts_yp_inv q cells (interior yc) By _ _ _ I1' H) as I2.
  eapply Forall_impl; [|exact I2]. cbn. intros f (_ & _ & C) Hf y Hy. apply C; [exact Hf|]. right. exact Hy.
Qed.

(* in coordinates: one of the two pieces the refused cut would have left is no thicker than q times the WIDTH OF f *)
Theorem griddify_piece_sliver eps q cells new : Forall (fun c => wf (crect c)) cells -> in_quadrant cells = true ->
  griddify_cells eps q cells = Some new ->
  Forall (fun f => fixed (crect f) = false ->
     forall y, In y (interior (snd (gather_boundaries eps (map crect cells)))) ->
       ymin (crect f) < y -> y < ymax (crect f) ->
       exists a, desc cells a /\ is_inside (crect f) (crect a) = true /\
         ymin (crect a) < y /\ y < ymax (crect a) /\
         (y - ymin (crect a) <= q * rw (crect f) \/ ymax (crect a) - y <= q * rw (crect f))) new.
Proof.
  intros W Q H. pose proof (griddify_aligned_piece eps q cells new W Q H) as G. cbv zeta in G.
  eapply Forall_impl; [|exact G]. cbn. intros f C Hf y Hy L U.
  destruct (C Hf y Hy L U) as (a & D & I & Fa & L' & U' & R & X1 & X2).
  exists a. split; [exact D|]. split; [exact I|]. split; [exact L'|]. split; [exact U'|].
  assert (Ew : rw (crect f) = rw (crect a)).
  { unfold xmin, xmax in X1, X2. qlra. }
  rewrite Ew. apply refused_is_sliver_y; assumption.
Qed.

(* the layout of the class, by computation: A = [0,128] x [0,8] is not cut at y = 1 as a whole (1 <= 1% of 128), B beside
   it defines that line, C above A's left end defines the x cut at 16; the left piece [0,16] x [0,8] IS cut at y = 1
   (1 > 1% of 16), the right piece (112 wide) is not *)
Definition piece_layout : list cell :=
  [ mkCell (mkRect (qc 64 1) (qc 4 1) (qc 128 1) (qc 8 1) false false "_" NOPOLY) [("M1"%string, qc 1 2)] 0;
    mkCell (mkRect (qc 132 1) (qc 1 2) (qc 8 1) (qc 1 1) false false "_" NOPOLY) [] 0;
    mkCell (mkRect (qc 8 1) (qc 10 1) (qc 16 1) (qc 4 1) false false "_" NOPOLY) [] 0 ].
Definition has_box (x0 y0 x1 y1 : Qc) (cs : list cell) : bool :=
  existsb (fun c => Qceqb (xmin (crect c)) x0 && Qceqb (ymin (crect c)) y0 &&
                    Qceqb (xmax (crect c)) x1 && Qceqb (ymax (crect c)) y1) cs.
Lemma piece_layout_cut :
  forallb (fun c => negb (y_cuttable (crect c) (qc 1 1) (qc 1 100))) piece_layout = true /\
  match griddify_cells (qc 1 1048576) (qc 1 100) piece_layout with
  | Some new => has_box 0 0 (qc 16 1) (qc 1 1) new && has_box 0 (qc 1 1) (qc 16 1) (qc 8 1) new &&
                has_box (qc 16 1) 0 (qc 128 1) (qc 8 1) new && Nat.eqb (List.length new) 5
  | None => false
  end = true.
Proof. split; vm_compute; reflexivity. Qed.

(* Layouts that do not tile their bounding box.  Nothing above asks the cells to fill a rectangle (the hypotheses are wf
   and in_quadrant only), and equal shapes do not mean aligned cells: brick_layout is three 2 x 1 bricks, two side by
   side at x in [0,2], [2,4] and one on top of them at x in [1,3] (the corners [0,1] x [1,2] and [3,4] x [1,2] of the
   bounding box stay empty).  Every brick is crossed through its middle by a side of another one; griddify halves each
   of them (6 cells 1 x 1, one level deeper), so it is NOT the identity on a layout whose cells all have one shape. *)
Definition brick_layout : list cell :=
  [ mkCell (mkRect (qc 1 1) (qc 1 2) (qc 2 1) (qc 1 1) false false "_" NOPOLY) [("M1"%string, qc 1 2); ("M2"%string, qc 1 4)] 0;
    mkCell (mkRect (qc 3 1) (qc 1 2) (qc 2 1) (qc 1 1) false false "_" NOPOLY) [("M2"%string, qc 1 2)] 0;
    mkCell (mkRect (qc 2 1) (qc 3 2) (qc 2 1) (qc 1 1) false false "_" NOPOLY) [("M1"%string, qc 1 4); ("M3"%string, qc 3 4)] 0 ].
Lemma brick_layout_cut :
  forallb (fun c => Qceqb (rw (crect c)) (qc 2 1) && Qceqb (rh (crect c)) (qc 1 1)) brick_layout = true /\
  match griddify_cells (qc 1 1048576) (qc 1 100) brick_layout with
  | Some new => has_box 0 0 (qc 1 1) (qc 1 1) new && has_box (qc 1 1) 0 (qc 2 1) (qc 1 1) new &&
                has_box (qc 2 1) 0 (qc 3 1) (qc 1 1) new && has_box (qc 3 1) 0 (qc 4 1) (qc 1 1) new &&
                has_box (qc 1 1) (qc 1 1) (qc 2 1) (qc 2 1) new && has_box (qc 2 1) (qc 1 1) (qc 3 1) (qc 2 1) new &&
                Nat.eqb (List.length new) 6 && forallb (fun c => Nat.eqb (cdepth c) 1) new
  | None => false
  end = true.
Proof. split; vm_compute; reflexivity. Qed.
