(* C12, grid alignment: after griddify no refinable cell has a boundary line of
   another cell strictly inside it, unless cutting there was refused as a
   sliver on the cell itself or on one of its ancestors at the time that cut
   was tried. *)
From FrameModel Require Import Num.QcTac Geometry.Rect Geometry.RectFacts Geometry.SplitFacts
  Alloc.Alloc Alloc.GeomExtra Alloc.RefinesFacts Alloc.AcceptFacts Alloc.OpsFacts Alloc.DecisionFacts.
Open Scope list_scope.
Open Scope Qc_scope.
Local Notation concat := List.concat.

(* a is (a descendant of) an original cell *)
Definition desc (cells0 : list cell) (a : cell) : Prop :=
  exists c0, In c0 cells0 /\ is_inside (crect a) (crect c0) = true.

(* the cut at x was tried on an ancestor a of f and refused although x is strictly inside a *)
Definition refused_x (q x : Qc) (cells0 : list cell) (f : cell) : Prop :=
  exists a, desc cells0 a /\ is_inside (crect f) (crect a) = true /\ fixed (crect a) = false /\
            xmin (crect a) < x /\ x < xmax (crect a) /\ x_cuttable (crect a) x q = false.
Definition refused_y (q y : Qc) (cells0 : list cell) (f : cell) : Prop :=
  exists a, desc cells0 a /\ is_inside (crect f) (crect a) = true /\ fixed (crect a) = false /\
            ymin (crect a) < y /\ y < ymax (crect a) /\ y_cuttable (crect a) y q = false.

Definition inv_x (q : Qc) (cells0 : list cell) (P : Qc -> Prop) (cs : list cell) : Prop :=
  Forall (fun f => wf (crect f) /\ desc cells0 f /\
    (fixed (crect f) = false -> forall x, P x -> xmin (crect f) < x -> x < xmax (crect f) ->
       refused_x q x cells0 f)) cs.
Definition inv_y (q : Qc) (cells0 : list cell) (P : Qc -> Prop) (cs : list cell) : Prop :=
  Forall (fun f => wf (crect f) /\ desc cells0 f /\
    (fixed (crect f) = false -> forall y, P y -> ymin (crect f) < y -> y < ymax (crect f) ->
       refused_y q y cells0 f)) cs.

Lemma desc_inside cells0 a f : desc cells0 a -> is_inside (crect f) (crect a) = true -> desc cells0 f.
Proof. intros (c0 & H0 & H1) H. exists c0. split; [exact H0|]. eapply is_inside_trans; eauto. Qed.

Lemma refused_x_inside q x cells0 f g : refused_x q x cells0 f -> is_inside (crect g) (crect f) = true ->
  refused_x q x cells0 g.
Proof.
  intros (a & D & I & R) H. exists a. split; [exact D|]. split; [eapply is_inside_trans; eauto|exact R].
Qed.
Lemma refused_y_inside q y cells0 f g : refused_y q y cells0 f -> is_inside (crect g) (crect f) = true ->
  refused_y q y cells0 g.
Proof.
  intros (a & D & I & R) H. exists a. split; [exact D|]. split; [eapply is_inside_trans; eauto|exact R].
Qed.

(* ---- one x cut on one cell ---- *)
Lemma cut_x_cases q y c ps : wf (crect c) -> 0 <= y -> cut_x q y c = Some ps ->
  (ps = [c] /\ (fixed (crect c) = true \/ x_cuttable (crect c) y q = false)) \/
  (exists r1 r2 d, ps = [mkCell r1 (calloc c) d; mkCell r2 (calloc c) d] /\
     fixed (crect c) = false /\ wf r1 /\ wf r2 /\
     is_inside r1 (crect c) = true /\ is_inside r2 (crect c) = true /\
     fixed r1 = false /\ fixed r2 = false /\ xmax r1 = y /\ xmin r2 = y).
Proof.
  intros W Hy. unfold cut_x. destruct (fixed (crect c)) eqn:Ef; cbn [negb andb].
  { intro H; injection H as <-. left. auto. }
  destruct (x_cuttable (crect c) y q) eqn:Ec.
  2:{ intro H; injection H as <-. left. auto. }
  destruct (split_horizontal (crect c) y) as [[r1 r2]|] eqn:Hs; [|discriminate].
  intro H; injection H as <-. right.
  pose proof (split_h_tiles _ _ _ _ W Hs) as T. cbv zeta in T.
  assert (Qcltb y 0 = false) as Ny by (apply Qcltb_false; exact Hy). rewrite Ny in T.
  destruct T as (_ & _ & _ & X1 & X2 & _ & _ & _ & _ & _ & (F1 & _) & (F2 & _) & _ & _ & (Fw & _)).
  inversion Fw as [|? ? [W1 I1] Fw']; subst. inversion Fw' as [|? ? [W2 I2] _]; subst.
  exists r1, r2, (S (cdepth c)). splits; try assumption; try reflexivity; congruence.
Qed.
Lemma cut_y_cases q y c ps : wf (crect c) -> 0 <= y -> cut_y q y c = Some ps ->
  (ps = [c] /\ (fixed (crect c) = true \/ y_cuttable (crect c) y q = false)) \/
  (exists r1 r2 d, ps = [mkCell r1 (calloc c) d; mkCell r2 (calloc c) d] /\
     fixed (crect c) = false /\ wf r1 /\ wf r2 /\
     is_inside r1 (crect c) = true /\ is_inside r2 (crect c) = true /\
     fixed r1 = false /\ fixed r2 = false /\ ymax r1 = y /\ ymin r2 = y /\
     xmin r1 = xmin (crect c) /\ xmax r1 = xmax (crect c) /\ xmin r2 = xmin (crect c) /\ xmax r2 = xmax (crect c)).
Proof.
  intros W Hy. unfold cut_y. destruct (fixed (crect c)) eqn:Ef; cbn [negb andb].
  { intro H; injection H as <-. left. auto. }
  destruct (y_cuttable (crect c) y q) eqn:Ec.
  2:{ intro H; injection H as <-. left. auto. }
  destruct (split_vertical (crect c) y) as [[r1 r2]|] eqn:Hs; [|discriminate].
  intro H; injection H as <-. right.
  pose proof (split_v_tiles _ _ _ _ W Hs) as T. cbv zeta in T.
  assert (Qcltb y 0 = false) as Ny by (apply Qcltb_false; exact Hy). rewrite Ny in T.
  destruct T as (_ & _ & _ & X1 & X2 & _ & A1 & A2 & A3 & A4 & (F1 & _) & (F2 & _) & _ & _ & (Fw & _)).
  inversion Fw as [|? ? [W1 I1] Fw']; subst. inversion Fw' as [|? ? [W2 I2] _]; subst.
  exists r1, r2, (S (cdepth c)). splits; try assumption; try reflexivity; congruence.
Qed.

Lemma inside_x_strict f c x : is_inside (crect f) (crect c) = true ->
  xmin (crect f) < x -> x < xmax (crect f) -> xmin (crect c) < x /\ x < xmax (crect c).
Proof. rewrite is_inside_coords. intros (A & _ & B & _) H1 H2. split; qlra. Qed.
Lemma inside_y_strict f c y : is_inside (crect f) (crect c) = true ->
  ymin (crect f) < y -> y < ymax (crect f) -> ymin (crect c) < y /\ y < ymax (crect c).
Proof. rewrite is_inside_coords. intros (_ & A & _ & B) H1 H2. split; qlra. Qed.

(* ---- one x cut over the whole list preserves the invariant and adds the cut ---- *)
Lemma step_x q cells0 P y : 0 <= y -> forall cs new,
  inv_x q cells0 P cs -> concat_opt (map (cut_x q y) cs) = Some new ->
  inv_x q cells0 (fun x => P x \/ x = y) new.
Proof.
  intros Hy cs. induction cs as [|c cs IH]; intros new Inv H; cbn [map concat_opt] in H.
  - injection H as <-. constructor.
  - destruct (cut_x q y c) as [ps|] eqn:E; [|discriminate].
    destruct (concat_opt (map (cut_x q y) cs)) as [rest|] eqn:E'; [|discriminate]. injection H as <-.
    inversion Inv as [|? ? (Wc & Dc & Ic) Inv']; subst.
    unfold inv_x. apply Forall_app. split; [|exact (IH _ Inv' eq_refl)].
    destruct (cut_x_cases q y c ps Wc Hy E) as [[-> Hn]|(r1 & r2 & d & -> & Fc & W1 & W2 & I1 & I2 & F1 & F2 & X1 & X2)].
    + constructor; [|constructor]. split; [exact Wc|]. split; [exact Dc|].
      intros Hf x [Px| ->] L U; [apply Ic; assumption|].
      destruct Hn as [Hn|Hn]; [congruence|].
      exists c. split; [exact Dc|]. split; [apply is_inside_refl|]. auto.
    + assert (Cut : forall r, is_inside r (crect c) = true -> wf r -> fixed r = false ->
                (xmax r = y \/ xmin r = y) ->
                wf r /\ desc cells0 (mkCell r (calloc c) d) /\
                (fixed r = false -> forall x, P x \/ x = y -> xmin r < x -> x < xmax r ->
                   refused_x q x cells0 (mkCell r (calloc c) d))).
      { intros r Ir Wr Fr Hb. split; [exact Wr|]. split; [apply (desc_inside cells0 c); assumption|].
        intros _ x [Px| ->] L U.
        - destruct (inside_x_strict (mkCell r (calloc c) d) c x Ir L U) as [L' U'].
          apply (refused_x_inside q x cells0 c); [apply Ic; assumption|exact Ir].
        - exfalso. destruct Hb as [Hb|Hb]; rewrite Hb in *; qlra. }
      constructor; [apply Cut; auto|]. constructor; [apply Cut; auto|constructor].
Qed.

Lemma apply_cuts_x_inv q cells0 cuts : Forall (fun x => 0 <= x) cuts -> forall P cs new,
  inv_x q cells0 P cs -> apply_cuts (cut_x q) cuts cs = Some new ->
  inv_x q cells0 (fun x => P x \/ In x cuts) new.
Proof.
  intro Hc. unfold apply_cuts. induction Hc as [|y cuts Hy Hc IH]; intros P cs new Inv H; cbn [fold_left] in H.
  - injection H as <-. eapply Forall_impl; [|exact Inv]. cbn. intros f (A & B & C). split; [exact A|]. split; [exact B|].
    intros Hf x [Px|[]]. apply C; assumption.
  - destruct (concat_opt (map (cut_x q y) cs)) as [mid|] eqn:E.
    2:{ exfalso. clear - H. induction cuts as [|z cuts IH]; cbn [fold_left] in H; [discriminate|auto]. }
    pose proof (step_x q cells0 P y Hy cs mid Inv E) as Inv'.
    specialize (IH _ _ _ Inv' H). eapply Forall_impl; [|exact IH]. cbn. intros f (A & B & C).
    split; [exact A|]. split; [exact B|]. intros Hf x Hx. apply C; [exact Hf|].
    destruct Hx as [Px|[ ->|Hin]]; auto.
Qed.

(* ---- y phase: x facts are carried along (x extents do not change) ---- *)
Definition inv_xy (q : Qc) (cells0 : list cell) (Px Py : Qc -> Prop) (cs : list cell) : Prop :=
  Forall (fun f => wf (crect f) /\ desc cells0 f /\
    (fixed (crect f) = false ->
       (forall x, Px x -> xmin (crect f) < x -> x < xmax (crect f) -> refused_x q x cells0 f) /\
       (forall y, Py y -> ymin (crect f) < y -> y < ymax (crect f) -> refused_y q y cells0 f))) cs.

Lemma step_y q cells0 Px Py y : 0 <= y -> forall cs new,
  inv_xy q cells0 Px Py cs -> concat_opt (map (cut_y q y) cs) = Some new ->
  inv_xy q cells0 Px (fun z => Py z \/ z = y) new.
Proof.
  intros Hy cs. induction cs as [|c cs IH]; intros new Inv H; cbn [map concat_opt] in H.
  - injection H as <-. constructor.
  - destruct (cut_y q y c) as [ps|] eqn:E; [|discriminate].
    destruct (concat_opt (map (cut_y q y) cs)) as [rest|] eqn:E'; [|discriminate]. injection H as <-.
    inversion Inv as [|? ? (Wc & Dc & Ic) Inv']; subst.
    unfold inv_xy. apply Forall_app. split; [|exact (IH _ Inv' eq_refl)].
    destruct (cut_y_cases q y c ps Wc Hy E) as
      [[-> Hn]|(r1 & r2 & d & -> & Fc & W1 & W2 & I1 & I2 & F1 & F2 & Y1 & Y2 & A1 & A2 & A3 & A4)].
    + constructor; [|constructor]. split; [exact Wc|]. split; [exact Dc|].
      intros Hf. destruct (Ic Hf) as [Icx Icy]. split; [exact Icx|].
      intros z [Pz| ->] L U; [apply Icy; assumption|].
      destruct Hn as [Hn|Hn]; [congruence|].
      exists c. split; [exact Dc|]. split; [apply is_inside_refl|]. auto.
    + destruct (Ic Fc) as [Icx Icy].
      assert (Cut : forall r, is_inside r (crect c) = true -> wf r -> fixed r = false ->
                (ymax r = y \/ ymin r = y) ->
                wf r /\ desc cells0 (mkCell r (calloc c) d) /\
                (fixed r = false ->
                  (forall x, Px x -> xmin r < x -> x < xmax r -> refused_x q x cells0 (mkCell r (calloc c) d)) /\
                  (forall z, Py z \/ z = y -> ymin r < z -> z < ymax r -> refused_y q z cells0 (mkCell r (calloc c) d)))).
      { intros r Ir Wr Fr Hb. split; [exact Wr|]. split; [apply (desc_inside cells0 c); assumption|].
        intros _. split.
        - intros x Px' L U. destruct (inside_x_strict (mkCell r (calloc c) d) c x Ir L U) as [L' U'].
          apply (refused_x_inside q x cells0 c); [apply Icx; assumption|exact Ir].
        - intros z [Pz| ->] L U.
          + destruct (inside_y_strict (mkCell r (calloc c) d) c z Ir L U) as [L' U'].
            apply (refused_y_inside q z cells0 c); [apply Icy; assumption|exact Ir].
          + exfalso. destruct Hb as [Hb|Hb]; rewrite Hb in *; qlra. }
      constructor; [apply Cut; auto|]. constructor; [apply Cut; auto|constructor].
Qed.

Lemma apply_cuts_y_inv q cells0 cuts : Forall (fun y => 0 <= y) cuts -> forall Px Py cs new,
  inv_xy q cells0 Px Py cs -> apply_cuts (cut_y q) cuts cs = Some new ->
  inv_xy q cells0 Px (fun y => Py y \/ In y cuts) new.
Proof.
  intro Hc. unfold apply_cuts. induction Hc as [|y cuts Hy Hc IH]; intros Px Py cs new Inv H; cbn [fold_left] in H.
  - injection H as <-. eapply Forall_impl; [|exact Inv]. cbn. intros f (A & B & C). split; [exact A|]. split; [exact B|].
    intros Hf. destruct (C Hf) as [Cx Cy]. split; [exact Cx|]. intros z [Pz|[]]. apply Cy; assumption.
  - destruct (concat_opt (map (cut_y q y) cs)) as [mid|] eqn:E.
    2:{ exfalso. clear - H. induction cuts as [|z cuts IH]; cbn [fold_left] in H; [discriminate|auto]. }
    pose proof (step_y q cells0 Px Py y Hy cs mid Inv E) as Inv'.
    specialize (IH _ _ _ _ Inv' H). eapply Forall_impl; [|exact IH]. cbn. intros f (A & B & C).
    split; [exact A|]. split; [exact B|]. intros Hf. destruct (C Hf) as [Cx Cy]. split; [exact Cx|].
    intros z Hz. apply Cy. destruct Hz as [Pz|[ ->|Hin]]; auto.
Qed.

(* ---- boundaries are coordinates of the cells, hence non-negative in the positive quadrant ---- *)
Lemma insert_sorted_in x l z : In z (insert_sorted x l) -> z = x \/ In z l.
Proof.
  induction l as [|y l IH]; cbn [insert_sorted]; [intros [<-|[]]; auto|].
  destruct (Qcleb x y); cbn [In]; intros [H|H]; auto. destruct (IH H); auto.
Qed.
Lemma sortq_in l z : In z (sortq l) -> In z l.
Proof.
  induction l as [|x l IH]; cbn [sortq fold_right]; [auto|]. intro H. apply insert_sorted_in in H.
  destruct H as [->|H]; [left; reflexivity|right; apply IH; exact H].
Qed.
Lemma dedup_in eps last l z : In z (dedup eps last l) -> In z l.
Proof.
  revert last. induction l as [|v l IH]; intro last; cbn [dedup]; [auto|].
  destruct (Qcltb (last + eps) v); cbn [In]; [intros [H|H]; [left; exact H|right; eapply IH; exact H]|].
  intro H. right. eapply IH; exact H.
Qed.
Lemma uniq_in eps l z : In z (uniq eps l) -> In z l.
Proof.
  unfold uniq. destruct (sortq l) as [|v r] eqn:E; [intros []|]. intro H. apply sortq_in. rewrite E.
  destruct H as [H|H]; [left; exact H|right; eapply dedup_in; exact H].
Qed.
Lemma interior_in {A} (l : list A) z : In z (interior l) -> In z l.
Proof.
  unfold interior. destruct l as [|a l]; cbn [tl]; [intros []|]. intro H. right.
  clear a. induction l as [|b l IH]; [destruct H|]. cbn [removelast] in H. destruct l as [|c l]; [destruct H|].
  destruct H as [H|H]; [left; exact H|right; apply IH; exact H].
Qed.

Lemma boundaries_nonneg eps cells : Forall (fun c => wf (crect c)) cells -> in_quadrant cells = true ->
  let (xc, yc) := gather_boundaries eps (map crect cells) in
  Forall (fun x => 0 <= x) (interior xc) /\ Forall (fun y => 0 <= y) (interior yc).
Proof.
  intros W Q. unfold gather_boundaries. unfold in_quadrant in Q. rewrite forallb_forall in Q.
  split; apply Forall_forall; intros z Hz; apply interior_in in Hz; apply uniq_in in Hz;
    apply in_flat_map in Hz; destruct Hz as (r & Hr & Hz); apply in_map_iff in Hr; destruct Hr as (c & <- & Hc);
    specialize (Q c Hc); apply andb_true_iff in Q; destruct Q as [Q1 Q2]; qb2p;
    rewrite Forall_forall in W; destruct (W c Hc) as [Ww Wh].
  - destruct Hz as [<-|[<-|[]]]; [exact Q1|]. unfold xmin, xmax in *. qlra.
  - destruct Hz as [<-|[<-|[]]]; [exact Q2|]. unfold ymin, ymax in *. qlra.
Qed.

(* ---- the theorem ---- *)
Theorem griddify_aligned eps q cells new : Forall (fun c => wf (crect c)) cells -> in_quadrant cells = true ->
  griddify_cells eps q cells = Some new ->
  let xc := fst (gather_boundaries eps (map crect cells)) in
  let yc := snd (gather_boundaries eps (map crect cells)) in
  Forall (fun f => fixed (crect f) = false ->
     (forall x, In x (interior xc) -> xmin (crect f) < x -> x < xmax (crect f) -> refused_x q x cells f) /\
     (forall y, In y (interior yc) -> ymin (crect f) < y -> y < ymax (crect f) -> refused_y q y cells f)) new.
Proof.
  intros W Q H. cbv zeta. pose proof (boundaries_nonneg eps cells W Q) as B.
  unfold griddify_cells in H. destruct (gather_boundaries eps (map crect cells)) as [xc yc]. cbn [fst snd].
  destruct B as [Bx By].
  destruct (apply_cuts (cut_x q) (interior xc) cells) as [mid|] eqn:E; [|discriminate].
  assert (I0 : inv_x q cells (fun _ => False) cells).
  { apply Forall_forall. intros f Hf. rewrite Forall_forall in W. split; [apply W; exact Hf|].
    split; [exists f; split; [exact Hf|apply is_inside_refl]|]. intros _ x []. }
  pose proof (apply_cuts_x_inv q cells (interior xc) Bx _ _ _ I0 E) as I1.
  assert (I1' : inv_xy q cells (fun x => In x (interior xc)) (fun _ => False) mid).
  { eapply Forall_impl; [|exact I1]. cbn. intros f (A & B & C). split; [exact A|]. split; [exact B|].
    intro Hf. split; [intros x Hx; apply C; auto|intros y []]. }
  pose proof (apply_cuts_y_inv q cells (interior yc) By _ _ _ _ I1' H) as I2.
  eapply Forall_impl; [|exact I2]. cbn. intros f (_ & _ & C) Hf. destruct (C Hf) as [Cx Cy].
  split; [exact Cx|]. intros y Hy. apply Cy. right. exact Hy.
Qed.

(* what "refused" means in coordinates: a piece would be thinner than q times the other side *)
Lemma refused_is_sliver_x r x q : xmin r < x -> x < xmax r -> x_cuttable r x q = false ->
  x - xmin r <= q * rh r \/ xmax r - x <= q * rh r.
Proof.
  intros A B C. destruct (Qcleb (x - xmin r) (q * rh r)) eqn:E1; qb2p; [left; exact E1|].
  destruct (Qcleb (xmax r - x) (q * rh r)) eqn:E2; qb2p; [right; exact E2|].
  rewrite (x_cuttable_no_sliver r x q A B E1 E2) in C. discriminate.
Qed.
Lemma refused_is_sliver_y r y q : ymin r < y -> y < ymax r -> y_cuttable r y q = false ->
  y - ymin r <= q * rw r \/ ymax r - y <= q * rw r.
Proof.
  intros A B C. destruct (Qcleb (y - ymin r) (q * rw r)) eqn:E1; qb2p; [left; exact E1|].
  destruct (Qcleb (ymax r - y) (q * rw r)) eqn:E2; qb2p; [right; exact E2|].
  rewrite (y_cuttable_no_sliver r y q A B E1 E2) in C. discriminate.
Qed.
