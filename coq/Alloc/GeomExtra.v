(* Extra geometric lemmas used by the allocation proofs (kept out of the
   shared Geometry files). *)
From FrameModel Require Import Num.QcTac Geometry.Rect Geometry.RectFacts Geometry.SplitFacts.
Open Scope list_scope.
Open Scope Qc_scope.

Ltac qring := qc_norm; ring.

Lemma cx_mid r : cx r = (xmin r + xmax r) * half.
Proof. unfold xmin, xmax. qlra. Qed.
Lemma cy_mid r : cy r = (ymin r + ymax r) * half.
Proof. unfold ymin, ymax. qlra. Qed.
Lemma rw_diff r : rw r = xmax r - xmin r.
Proof. unfold xmin, xmax. qlra. Qed.
Lemma rh_diff r : rh r = ymax r - ymin r.
Proof. unfold ymin, ymax. qlra. Qed.

Lemma is_inside_refl r : is_inside r r = true.
Proof. apply is_inside_coords. repeat split; apply Qcle_refl. Qed.
Lemma is_inside_trans a b c : is_inside a b = true -> is_inside b c = true -> is_inside a c = true.
Proof.
  rewrite !is_inside_coords. intros (A1 & A2 & A3 & A4) (B1 & B2 & B3 & B4).
  repeat split; eapply Qcle_trans; eauto.
Qed.

(* overlap area as a product of clipped extents *)
Definition ovw r s := Qcmax 0 (bx1 r s - bx0 r s).
Definition ovh r s := Qcmax 0 (by1 r s - by0 r s).
Lemma ov_prod r s : area_overlap r s = ovw r s * ovh r s.
Proof.
  unfold area_overlap, ovw, ovh. fold (bx0 r s) (bx1 r s) (by0 r s) (by1 r s).
  generalize (bx0 r s) (bx1 r s) (by0 r s) (by1 r s). intros a b c d.
  destruct (Qcleb b a) eqn:E1; qb2p.
  - assert (Qcmax 0 (b - a) = 0) as -> by (qcases; qlra). qlra.
  - destruct (Qcleb d c) eqn:E2; qb2p.
    + assert (Qcmax 0 (d - c) = 0) as -> by (qcases; qlra). qlra.
    + assert (Qcmax 0 (b - a) = b - a) as -> by (qcases; qlra).
      assert (Qcmax 0 (d - c) = d - c) as -> by (qcases; qlra). reflexivity.
Qed.
Lemma ovw_nonneg r s : 0 <= ovw r s.
Proof. unfold ovw. qcases; qlra. Qed.
Lemma ovh_nonneg r s : 0 <= ovh r s.
Proof. unfold ovh. qcases; qlra. Qed.

Lemma ovw_mono a b p q : is_inside a p = true -> is_inside b q = true -> ovw a b <= ovw p q.
Proof.
  rewrite !is_inside_coords. intros (A1 & _ & A3 & _) (B1 & _ & B3 & _).
  unfold ovw, bx0, bx1. revert A1 A3 B1 B3.
  generalize (xmin a) (xmax a) (xmin b) (xmax b) (xmin p) (xmax p) (xmin q) (xmax q).
  intros. qmlra.
Qed.
Lemma ovh_mono a b p q : is_inside a p = true -> is_inside b q = true -> ovh a b <= ovh p q.
Proof.
  rewrite !is_inside_coords. intros (_ & A2 & _ & A4) (_ & B2 & _ & B4).
  unfold ovh, by0, by1. revert A2 A4 B2 B4.
  generalize (ymin a) (ymax a) (ymin b) (ymax b) (ymin p) (ymax p) (ymin q) (ymax q).
  intros. qmlra.
Qed.
Lemma ov_mono a b p q : is_inside a p = true -> is_inside b q = true ->
  area_overlap a b <= area_overlap p q.
Proof.
  intros Ha Hb. rewrite !ov_prod.
  pose proof (ovw_mono a b p q Ha Hb). pose proof (ovh_mono a b p q Ha Hb).
  pose proof (ovw_nonneg a b). pose proof (ovh_nonneg a b).
  generalize dependent (ovw a b). generalize dependent (ovh a b).
  generalize (ovw p q) (ovh p q). intros. qnra.
Qed.
Lemma ov_zero_inside a b p q : is_inside a p = true -> is_inside b q = true ->
  area_overlap p q = 0 -> area_overlap a b = 0.
Proof.
  intros Ha Hb Hz. pose proof (ov_mono a b p q Ha Hb). pose proof (ov_nonneg a b).
  rewrite Hz in *. qlra.
Qed.

(* first moments are conserved by every axis-parallel cut *)
Lemma split_h_moments r x0 r1 r2 : split_horizontal r x0 = Some (r1, r2) ->
  area r1 + area r2 = area r /\
  area r1 * cx r1 + area r2 * cx r2 = area r * cx r /\
  area r1 * cy r1 + area r2 * cy r2 = area r * cy r.
Proof.
  unfold split_horizontal. set (x := if Qcltb x0 0 then cx r else x0).
  destruct (Qcltb (xmin r) x && Qcltb x (xmax r)); [|discriminate].
  intro H; injection H as <- <-. unfold area, xmin, xmax; cbn [cx cy rw rh with_geom].
  generalize (cx r) (cy r) (rw r) (rh r). intros a b w h. repeat split; qring.
Qed.
Lemma split_v_moments r y0 r1 r2 : split_vertical r y0 = Some (r1, r2) ->
  area r1 + area r2 = area r /\
  area r1 * cx r1 + area r2 * cx r2 = area r * cx r /\
  area r1 * cy r1 + area r2 * cy r2 = area r * cy r.
Proof.
  unfold split_vertical. set (y := if Qcltb y0 0 then cy r else y0).
  destruct (Qcltb (ymin r) y && Qcltb y (ymax r)); [|discriminate].
  intro H; injection H as <- <-. unfold area, ymin, ymax; cbn [cx cy rw rh with_geom].
  generalize (cx r) (cy r) (rw r) (rh r). intros a b w h. repeat split; qring.
Qed.
