(* Histories on shared objects (C02 / C12).

   frame/allocation/allocation.py keeps, in every Allocation, a list of
   RectAlloc(rect, alloc, depth) whose [rect] is a mutable Rectangle OBJECT.
   The three refinement operations build a new Allocation and hand over the
   very same Rectangle object for every cell they do not cut
   (_split_allocation with levels = 0 returns [rect] itself; griddify appends
   the RectAlloc it popped; uniform_refinement_depth returns [self] when all
   depths are equal), and fresh objects (Rectangle.duplicate) for the pieces of
   a cell they cut.  [rect.fixed] has a public setter which the repository uses
   in place (Allocation._detect_fixed_rectangles, tests/.../test_griddify).
   So a program can hold several allocations, derived from one another, call
   them repeatedly, and flip the fixed flag of a cell in between: the flag is
   then seen by every allocation that shares the Rectangle object.

   The model makes this explicit and stays a pure function of values:
   a cell of a history carries the identity (a number) of its Rectangle object;
   the state is the list of all allocations built so far; every step is one
   call of the public API on one of them.  Definitions only (facts in
   HistFacts.v).  The value functions are those of Alloc.v - nothing is
   remembered between two calls, which is exactly the claim the correspondence
   tests against the implementation run on the shared mutable objects. *)
From FrameModel Require Import Num.QcTac Geometry.Rect Alloc.Alloc.
From Coq Require Import Arith.
Open Scope list_scope.
Open Scope Qc_scope.

Definition hcell := (nat * cell)%type.            (* identity of the Rectangle object, value of the cell *)
Definition hvals (l : list hcell) : list cell := map snd l.

Record hstate := mkH { hnext : nat;                  (* first unused object identity *)
                       hallocs : list (list hcell) }. (* the allocations built so far, oldest first *)

(* rect.fixed = b : nothing else of the rectangle changes *)
Definition set_fixed (b : bool) (r : Rect) : Rect :=
  mkRect (cx r) (cy r) (rw r) (rh r) b (hard r) (region r) (rloc r).
Definition cset_fixed (b : bool) (c : cell) : cell := mkCell (set_fixed b (crect c)) (calloc c) (cdepth c).

(* the pieces a cell-wise step returns for the cell whose rectangle is object [id]:
   a single piece is the cell itself (same object), several pieces are new objects *)
Definition tag_pieces (id next : nat) (ps : list cell) : nat * list hcell :=
  match ps with
  | [p] => (next, [(id, p)])
  | _ => ((next + List.length ps)%nat, combine (seq next (List.length ps)) ps)
  end.
Fixpoint hmap_step (f : cell -> option (list cell)) (next : nat) (l : list hcell)
  : option (nat * list hcell) :=
  match l with
  | [] => Some (next, [])
  | (id, c) :: r =>
      match f c with
      | None => None
      | Some ps =>
          match hmap_step f (fst (tag_pieces id next ps)) r with
          | Some (n2, rest) => Some (n2, snd (tag_pieces id next ps) ++ rest)
          | None => None
          end
      end
  end.

Definition hrefine_cells (t : Qc) (levels next : nat) (l : list hcell) :=
  hmap_step (fun c => split_alloc (crect c) (calloc c) (cdepth c)
                        (if splittable t c then levels else 0)) next l.
Definition huniform_cells (next : nat) (l : list hcell) :=
  let md := max_depth (hvals l) in
  hmap_step (fun c => split_alloc (crect c) (calloc c) (cdepth c)
                        (if fixed (crect c) then 0 else md - cdepth c)%nat) next l.
Definition happly_cuts (f : Qc -> cell -> option (list cell)) (cuts : list Qc) (next : nat) (l : list hcell)
  : option (nat * list hcell) :=
  fold_left (fun acc x => match acc with
                          | Some (n, cs) => hmap_step (f x) n cs
                          | None => None end) cuts (Some (next, l)).
Definition hgriddify_cells (eps q : Qc) (next : nat) (l : list hcell) :=
  let (xc, yc) := gather_boundaries eps (map crect (hvals l)) in
  match happly_cuts (cut_x q) (interior xc) next l with
  | Some (n, cs) => happly_cuts (cut_y q) (interior yc) n cs
  | None => None
  end.

(* Allocation(new_alloc): the constructor checks the values and keeps the objects *)
Definition hmk (aeps : Qc) (r : option (nat * list hcell)) : option (nat * list hcell) :=
  match r with
  | Some (n, hl) => match mk_allocation aeps (hvals hl) with Some _ => Some (n, hl) | None => None end
  | None => None
  end.

(* one refinement operation applied to the allocation whose cells are [l] *)
Definition htrans (eps aeps q : Qc) (o : op) (next : nat) (l : list hcell) : option (nat * list hcell) :=
  match o with
  | OpRefine t levels =>
      match levels with
      | O => None
      | _ => hmk aeps (hrefine_cells t levels next l)
      end
  | OpUniform =>
      if Nat.eqb (max_depth (hvals l)) (min_depth (hvals l)) then Some (next, l)     (* return self *)
      else hmk aeps (huniform_cells next l)
  | OpGriddify => hmk aeps (hgriddify_cells eps q next l)
  end.

(* ---- steps of a history: one call of the public API on the k-th allocation built so far ---- *)
Inductive hop :=
| HApply (k : nat) (o : op)            (* b = A[k].refine(t, levels) / .uniform_refinement_depth() / .griddify(); b is kept *)
| HCopy (k : nat)                      (* b = Allocation([(c.rect, c.alloc, c.depth) for c in A[k].allocations]); kept *)
| HSetFixed (k : nat) (x y : Qc) (b : bool)   (* c.rect.fixed = b for the cell c of A[k] whose centre is (x, y) *)
| HMbr (k : nat) (t : Qc)              (* A[k].must_be_refined(t) *)
| HMaxDepth (k : nat)                  (* A[k].max_refinement_depth() *)
| HNumRect (k : nat)                   (* A[k].num_rectangles *)
| HAreas (k : nat).                    (* A[k].area(m), A[k].center(m) for every module m *)

Inductive hobs :=
| ONew (r : option (list cell))                      (* the cells of the new allocation; None = the call raised *)
| OFixed (fl : list (list (Qc * Qc)))                (* the centres of the fixed cells of every allocation *)
| OBool (b : bool)
| ONat (n : nat)
| OAreas (l : list (string * Qc * (Qc * Qc))).

(* The position of a cell in the list of an allocation is not part of what C02 / C12 state, so a cell is addressed
   by its centre (cells of an accepted allocation do not overlap: the centre identifies the cell); an allocation by
   its index in the history, taken modulo the number of allocations built so far.  Every step is defined. *)
Definition hget (s : hstate) (k : nat) : list hcell :=
  nth (k mod List.length (hallocs s)) (hallocs s) [].
Definition centre_of (c : cell) : Qc * Qc := (cx (crect c), cy (crect c)).
Definition at_centre (x y : Qc) (hc : hcell) : bool :=
  Qceqb (cx (crect (snd hc))) x && Qceqb (cy (crect (snd hc))) y.
Definition hfixed (s : hstate) : list (list (Qc * Qc)) :=
  map (fun l => map centre_of (filter (fun c => fixed (crect c)) (hvals l))) (hallocs s).
Definition hset_cell (id : nat) (b : bool) (hc : hcell) : hcell :=
  if Nat.eqb (fst hc) id then (fst hc, cset_fixed b (snd hc)) else hc.
Definition hset_fixed (id : nat) (b : bool) (s : hstate) : hstate :=
  mkH (hnext s) (map (map (hset_cell id b)) (hallocs s)).
Definition areas_of (cells : list cell) : list (string * Qc * (Qc * Qc)) :=
  map (fun m => (m, area_of m cells, center_of m cells)) (module_names cells).

Definition hstep (eps aeps q : Qc) (o : hop) (s : hstate) : hstate * hobs :=
  match o with
  | HApply k o' =>
      match htrans eps aeps q o' (hnext s) (hget s k) with
      | Some (n, hl) => (mkH n (hallocs s ++ [hl]), ONew (Some (hvals hl)))
      | None => (s, ONew None)
      end
  | HCopy k =>
      match mk_allocation aeps (hvals (hget s k)) with
      | Some _ => (mkH (hnext s) (hallocs s ++ [hget s k]), ONew (Some (hvals (hget s k))))
      | None => (s, ONew None)
      end
  | HSetFixed k x y b =>
      match find (at_centre x y) (hget s k) with
      | Some hc => let s' := hset_fixed (fst hc) b s in (s', OFixed (hfixed s'))
      | None => (s, OFixed (hfixed s))
      end
  | HMbr k t => (s, OBool (must_be_refined t (hvals (hget s k))))
  | HMaxDepth k => (s, ONat (max_depth (hvals (hget s k))))
  | HNumRect k => (s, ONat (List.length (hget s k)))
  | HAreas k => (s, OAreas (areas_of (hvals (hget s k))))
  end.

Definition hop_target (o : hop) : nat :=
  match o with
  | HApply k _ | HCopy k | HSetFixed k _ _ _ | HMbr k _ | HMaxDepth k | HNumRect k | HAreas k => k
  end.

(* an event: the call, the values of the allocation it was applied to at that moment, what it returned *)
Definition hevent := (hop * list cell * hobs)%type.
Fixpoint run_hist (eps aeps q : Qc) (ops : list hop) (s : hstate) : hstate * list hevent :=
  match ops with
  | [] => (s, [])
  | o :: r =>
      let src := hvals (hget s (hop_target o)) in
      let (s1, ob) := hstep eps aeps q o s in
      let (s2, evs) := run_hist eps aeps q r s1 in
      (s2, (o, src, ob) :: evs)
  end.

Definition hinit (cells : list cell) : hstate :=
  mkH (List.length cells) [combine (seq 0 (List.length cells)) cells].

(* Allocation(cells) followed by the calls [ops]: None = the constructor raises *)
Definition hist (eps aeps q : Qc) (cells : list cell) (ops : list hop) : option (list hobs) :=
  match mk_allocation aeps cells with
  | Some _ => Some (map snd (snd (run_hist eps aeps q ops (hinit cells))))
  | None => None
  end.
