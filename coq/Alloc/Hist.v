(* Histories on shared objects (C02 / C12).

   frame/allocation/allocation.py keeps, in every Allocation, a list of
   RectAlloc(rect, alloc, depth) whose [rect] is a mutable Rectangle OBJECT.
   The refinement operations build a new Allocation and (as the code stands)
   hand over the very same Rectangle object for every cell they do not cut;
   uniform_refinement_depth returns [self] when all depths are equal.
   [rect.fixed] has a public setter which the repository uses in place
   (Allocation._detect_fixed_rectangles, tests/.../test_griddify).  So a
   program can hold several allocations, derived from one another, call them
   repeatedly, and flip the fixed flag of a cell in between; the flag may then
   be seen by other allocations that hold the same Rectangle object.

   The model makes this explicit and stays a pure function of values: the state
   is the list of all allocations built so far (their current cells); every
   step is one call of the public API on one of them, computed by the value
   functions of Alloc.v on the CURRENT values - nothing is remembered between
   two calls, which is exactly the claim the correspondence tests against the
   implementation run on the shared mutable objects.

   Which allocations share a Rectangle object is NOT part of C02 / C12 (a
   refinement that copied the rectangles of the cells it keeps would satisfy
   both), so the model does not predict it: the step [HSetFixed] carries the
   flags observed after the assignment and the model checks that they are a
   possible outcome - the addressed cell carries the new flag, and a cell
   whose flag changed has the geometry of the addressed cell (an object has one
   geometry) and carries the new flag - and goes on from these flags.
   The position of a cell in the list of an allocation is no part of the
   properties either: a cell is addressed by its centre (cells of an accepted
   allocation do not overlap, so the centre identifies the cell).
   Definitions only (facts in HistFacts.v). *)
From FrameModel Require Import Num.QcTac Geometry.Rect Alloc.Alloc Alloc.Thr.
From Coq Require Import Arith.
Open Scope list_scope.
Open Scope Qc_scope.

Definition hstate := list (list cell).       (* the allocations built so far, oldest first *)

(* rect.fixed = b : nothing else of the rectangle changes *)
Definition set_fixed (b : bool) (r : Rect) : Rect :=
  mkRect (cx r) (cy r) (rw r) (rh r) b (hard r) (region r) (rloc r).
Definition cset_fixed (b : bool) (c : cell) : cell := mkCell (set_fixed b (crect c)) (calloc c) (cdepth c).

Definition centre_of (c : cell) : Qc * Qc := (cx (crect c), cy (crect c)).
Definition at_centre (x y : Qc) (c : cell) : bool := Qceqb (cx (crect c)) x && Qceqb (cy (crect c)) y.
Definition same_geom (a b : cell) : bool :=
  Qceqb (cx (crect a)) (cx (crect b)) && Qceqb (cy (crect a)) (cy (crect b)) &&
  Qceqb (rw (crect a)) (rw (crect b)) && Qceqb (rh (crect a)) (rh (crect b)).

(* ---- steps of a history: one call of the public API on the k-th allocation built so far ---- *)
Inductive hop :=
| HApply (k : nat) (o : xop)           (* b = A[k].refine(t, levels) / .uniform_refinement_depth() / .griddify(); b is kept *)
| HCopy (k : nat)                      (* b = Allocation([(c.rect, c.alloc, c.depth) for c in A[k].allocations]); kept *)
| HSetFixed (k : nat) (x y : Qc) (b : bool) (after : list (list (Qc * Qc)))
      (* c.rect.fixed = b for the cell c of A[k] whose centre is (x, y);
         after = the centres of the fixed cells of every allocation, observed after the assignment *)
| HMbr (k : nat) (t : thr)             (* A[k].must_be_refined(t), t a finite value, +inf, -inf or NaN (Alloc/Thr.v) *)
| HMaxDepth (k : nat)                  (* A[k].max_refinement_depth() *)
| HNumRect (k : nat)                   (* A[k].num_rectangles *)
| HAreas (k : nat).                    (* A[k].area(m), A[k].center(m) for every module m *)

Inductive hobs :=
| ONew (r : option (list cell))                      (* the cells of the new allocation; None = the call raised *)
| OFixed (fl : list (list (Qc * Qc)))                (* the centres of the fixed cells of every allocation *)
| OImpossible                                        (* the observed flags are no possible outcome of the assignment *)
| OBool (b : bool)
| ONat (n : nat)
| OAreas (l : list (string * Qc * (Qc * Qc))).

(* the index of an allocation is taken modulo the number of allocations built so far: every step is defined *)
Definition hget (s : hstate) (k : nat) : list cell := nth (k mod List.length s) s [].
Definition hfixed (s : hstate) : list (list (Qc * Qc)) :=
  map (fun l => map centre_of (filter (fun c => fixed (crect c)) l)) s.
Definition areas_of (cells : list cell) : list (string * Qc * (Qc * Qc)) :=
  map (fun m => (m, area_of m cells, center_of m cells)) (module_names cells).

(* the state with the flags [after] *)
Definition mem_centre (p : Qc * Qc) (l : list (Qc * Qc)) : bool :=
  existsb (fun q => Qceqb (fst q) (fst p) && Qceqb (snd q) (snd p)) l.
Definition reflag_alloc (fl : list (Qc * Qc)) (l : list cell) : list cell :=
  map (fun c => cset_fixed (mem_centre (centre_of c) fl) c) l.
Fixpoint reflag (after : list (list (Qc * Qc))) (s : hstate) : hstate :=
  match after, s with
  | fl :: after', l :: s' => reflag_alloc fl l :: reflag after' s'
  | _, _ => []
  end.
(* a possible outcome of  c0.rect.fixed = b : a flag that changed belongs to a cell with the geometry of c0 and is b *)
Definition flag_ok (c0 : cell) (b : bool) (c c' : cell) : bool :=
  Bool.eqb (fixed (crect c')) (fixed (crect c)) || (same_geom c0 c && Bool.eqb (fixed (crect c')) b).
Fixpoint flags_ok (c0 : cell) (b : bool) (s s' : hstate) : bool :=
  match s, s' with
  | [], [] => true
  | l :: r, l' :: r' =>
      Nat.eqb (List.length l) (List.length l') &&
      forallb (fun p => flag_ok c0 b (fst p) (snd p)) (combine l l') && flags_ok c0 b r r'
  | _, _ => false
  end.

Definition hstep (eps aeps q : Qc) (o : hop) (s : hstate) : hstate * hobs :=
  match o with
  | HApply k o' =>
      match run_xop eps aeps q o' (hget s k) with
      | Some new => (s ++ [new], ONew (Some new))
      | None => (s, ONew None)
      end
  | HCopy k =>
      match mk_allocation aeps (hget s k) with
      | Some new => (s ++ [new], ONew (Some new))
      | None => (s, ONew None)
      end
  | HSetFixed k x y b after =>
      match find (at_centre x y) (hget s k) with
      | Some c0 =>
          let s' := reflag after s in
          if flags_ok c0 b s s' &&
             match find (at_centre x y) (hget s' k) with Some c1 => Bool.eqb (fixed (crect c1)) b | None => false end
          then (s', OFixed (hfixed s')) else (s, OImpossible)
      | None => (s, OImpossible)
      end
  | HMbr k t => (s, OBool (must_be_refined_x t (hget s k)))
  | HMaxDepth k => (s, ONat (max_depth (hget s k)))
  | HNumRect k => (s, ONat (List.length (hget s k)))
  | HAreas k => (s, OAreas (areas_of (hget s k)))
  end.

Definition hop_target (o : hop) : nat :=
  match o with
  | HApply k _ | HCopy k | HSetFixed k _ _ _ _ | HMbr k _ | HMaxDepth k | HNumRect k | HAreas k => k
  end.

(* an event: the call, the values of the allocation it was applied to at that moment, what it returned *)
Definition hevent := (hop * list cell * hobs)%type.
Fixpoint run_hist (eps aeps q : Qc) (ops : list hop) (s : hstate) : hstate * list hevent :=
  match ops with
  | [] => (s, [])
  | o :: r =>
      let src := hget s (hop_target o) in
      let (s1, ob) := hstep eps aeps q o s in
      let (s2, evs) := run_hist eps aeps q r s1 in
      (s2, (o, src, ob) :: evs)
  end.

Definition hinit (cells : list cell) : hstate := [cells].

(* Allocation(cells) followed by the calls [ops]: None = the constructor raises *)
Definition hist (eps aeps q : Qc) (cells : list cell) (ops : list hop) : option (list hobs) :=
  match mk_allocation aeps cells with
  | Some _ => Some (map snd (snd (run_hist eps aeps q ops (hinit cells))))
  | None => None
  end.
