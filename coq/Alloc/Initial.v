(* Model of frame/allocation/allocation.py: create_initial_allocation,
   Allocation.initial_allocation, Allocation._detect_fixed_rectangles, and of
   Netlist.create_squares / Module.create_square.  Definitions only.

   Input: the two lists die.floorplanning_rectangles() returns (refinable =
   specialised + ground regions, fixed = the fixed modules' rectangles; the die
   decomposition itself is property C01) and the modules of the netlist as the
   Netlist object holds them when the call is made.  math.sqrt is the section
   variable [sqrt_o]; the tolerance 1e-6 of _detect_fixed_rectangles, the rounding
   allowance 1e-9 of the ratios and the class-wide area epsilon are the parameters
   [feps], [ceps], [aeps].  The model mirrors the code repaired by
   fixes/C03-ratio-rounding.diff. *)
From FrameModel Require Import Num.QcTac Geometry.Rect Alloc.Alloc.
Open Scope list_scope.
Open Scope Qc_scope.

(* a module of the netlist: name, fixed, hard, Module.area(), Module.center, rectangles *)
Record nmod := mkMod {
  mname : string; mfixed : bool; mhard : bool; marea : Qc;
  mcenter : option (Qc * Qc); mrects : list Rect }.
Definition set_rects (m : nmod) (rs : list Rect) : nmod :=
  mkMod (mname m) (mfixed m) (mhard m) (marea m) (mcenter m) rs.

(* which statement raised *)
Inductive reject :=
  | RCells        (* Allocation(refinable + fixed) : constructor assertion *)
  | RSquare       (* Module.create_square : no centre / negative area / Rectangle of side 0 *)
  | RFixedRatio   (* "Incorrect fixed rectangle" *)
  | RFixedCount   (* "Incorrect number of fixed rectangles for module" *)
  | RAlloc        (* Allocation(new_alloc) : constructor assertion *)
  | RZeroArea.    (* Allocation(new_alloc) : ZeroDivisionError, a listed module has total area 0 *)
Inductive result := Accept (cells : list cell) | Reject (why : reject).

(* a.rect.fixed = True *)
Definition set_fixed (r : Rect) : Rect :=
  mkRect (cx r) (cy r) (rw r) (rh r) true (hard r) (region r) (rloc r).

(* sum(a.rect.area_overlap(r_mod) / a.rect.area for r_mod in m.rectangles) *)
Definition cov_ratio (c : Rect) (rs : list Rect) : Qc :=
  Qcsum (map (fun r => area_overlap c r / area c) rs).

Definition count_name (n : string) (l : list string) : nat :=
  List.length (filter (String.eqb n) l).

(* [(rect, {}, 0) for rect in refinable + fixed] *)
Definition init_cells (refinable fixed_rs : list Rect) : list cell :=
  map (fun r => mkCell r [] 0%nat) (refinable ++ fixed_rs).

(* ---- _detect_fixed_rectangles ---- *)
(* one cell against the fixed modules, in order: the names of the modules whose
   ratio exceeds 1 - eps; None = the assertion on the ratio fails *)
Fixpoint detect_cell (feps : Qc) (c : Rect) (fms : list nmod) : option (list string) :=
  match fms with
  | [] => Some []
  | m :: rest =>
      let a := cov_ratio c (mrects m) in
      if Qcltb a feps || (Qcltb (1 - feps) a && Qcltb a (1 + feps)) then
        match detect_cell feps c rest with
        | Some l => Some (if Qcltb (1 - feps) a then mname m :: l else l)
        | None => None
        end
      else None
  end.

(* all cells, in order: the cells with their fixed flag updated and the list
   fixed_rects of (rectangle, module name) *)
Fixpoint detect (feps : Qc) (cells : list cell) (fms : list nmod)
  : option (list cell * list (Rect * string)) :=
  match cells with
  | [] => Some ([], [])
  | c :: rest =>
      match detect_cell feps (crect c) fms with
      | None => None
      | Some owners =>
          match detect feps rest fms with
          | None => None
          | Some (cs, fr) =>
              let r' := if is_empty owners then crect c else set_fixed (crect c) in
              Some (mkCell r' (calloc c) (cdepth c) :: cs, map (fun n => (r', n)) owners ++ fr)
          end
      end
  end.

Definition counts_ok (fms : list nmod) (fr : list (Rect * string)) : bool :=
  forallb (fun m => Nat.eqb (List.length (mrects m)) (count_name (mname m) (map snd fr))) fms.

(* ---- the map of a non-fixed cell ---- *)
(* (repaired code, fixes/C03-ratio-rounding.diff) a sum of quotients that exceeds 1 by rounding
   noise only - at most [ceps] - is 1: the cell is fully covered *)
Definition clamp1 (ceps a : Qc) : Qc := if Qcltb 1 a && Qcleb a (1 + ceps) then 1 else a.

Definition alloc_of (ceps : Qc) (inc0 : bool) (ms : list nmod) (c : Rect) : alloc :=
  flat_map (fun m => let a := clamp1 ceps (cov_ratio c (mrects m)) in
                     if inc0 || Qcltb 0 a then [(mname m, a)] else []) ms.

Definition prealloc (fr : list (Rect * string)) : list cell :=
  map (fun p => mkCell (fst p) [(snd p, 1)] 0%nat) fr.
Definition rest_alloc (ceps : Qc) (inc0 : bool) (ms : list nmod) (cells : list cell) : list cell :=
  flat_map (fun c => if fixed (crect c) then []
                     else [mkCell (crect c) (alloc_of ceps inc0 ms (crect c)) (cdepth c)]) cells.

(* Allocation(new_alloc): the assertions come first, the division by the module's area last *)
Definition finalize (aeps : Qc) (new : list cell) : result :=
  match mk_allocation aeps new with
  | Some cs => Accept cs
  | None =>
      match new with
      | [] => Reject RAlloc
      | _ => if forallb cell_ok new && in_quadrant new && no_overlap aeps new
             then Reject RZeroArea else Reject RAlloc
      end
  end.

Section Initial.
  (* math.sqrt; contract used by the facts: 0 <= sqrt_o a /\ sqrt_o a * sqrt_o a = a *)
  Variable sqrt_o : Qc -> Qc.

  (* Module.create_square *)
  Definition create_square (m : nmod) : option Rect :=
    match mcenter m with
    | None => None                                        (* assert self.center is not None *)
    | Some (x, y) =>
        if Qcltb (marea m) 0 then None                    (* assert area >= 0 *)
        else let s := sqrt_o (marea m) in
             if Qcltb 0 s then Some (mkRect x y s s false false "_" NOPOLY)
             else None                                    (* Rectangle: assert w > 0 *)
    end.

  (* Netlist.create_squares: only the modules without rectangles *)
  Definition with_square (m : nmod) : option nmod :=
    match mrects m with
    | [] => match create_square m with
            | Some r => Some (set_rects m [r])
            | None => None
            end
    | _ => Some m
    end.
  Fixpoint create_squares (ms : list nmod) : option (list nmod) :=
    match ms with
    | [] => Some []
    | m :: rest =>
        match with_square m with
        | None => None
        | Some m' => match create_squares rest with
                     | Some l => Some (m' :: l)
                     | None => None
                     end
        end
    end.

  (* create_initial_allocation(die, include_area_zero) *)
  Definition initial_allocation (feps ceps aeps : Qc) (inc0 : bool)
             (refinable fixed_rs : list Rect) (mods : list nmod) : result :=
    match mk_allocation aeps (init_cells refinable fixed_rs) with
    | None => Reject RCells
    | Some cells =>
        match create_squares mods with
        | None => Reject RSquare
        | Some ms =>
            let fms := filter mfixed ms in
            match detect feps cells fms with
            | None => Reject RFixedRatio
            | Some (cells', fr) =>
                if counts_ok fms fr
                then finalize aeps (prealloc fr ++ rest_alloc ceps inc0 ms cells')
                else Reject RFixedCount
            end
        end
    end.
End Initial.

(* a finite table for sqrt_o (the harness: exact roots of the perfect-square areas it generates) *)
Fixpoint table_sqrt (t : list (Qc * Qc)) (a : Qc) : Qc :=
  match t with
  | [] => 0
  | (k, v) :: r => if Qceqb a k then v else table_sqrt r a
  end.
