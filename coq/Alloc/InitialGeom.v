(* Geometry and sums used by the facts about create_initial_allocation (property C03):
   the overlap of a cell with pairwise disjoint rectangles is at most its area. *)
From FrameModel Require Import Num.QcTac Geometry.Rect Geometry.RectFacts Alloc.Alloc Alloc.Initial.
Open Scope list_scope.
Open Scope Qc_scope.

(* ------------------------------------------------------------------ *)
(* sums                                                               *)
(* ------------------------------------------------------------------ *)
Lemma Qcsum_nonneg l : Forall (fun x => 0 <= x) l -> 0 <= Qcsum l.
Proof. induction 1; cbn [Qcsum]; qlra. Qed.

Lemma Qcsum_map_nonneg {A} (f : A -> Qc) l : (forall x, In x l -> 0 <= f x) -> 0 <= Qcsum (map f l).
Proof.
  intro H. apply Qcsum_nonneg. apply Forall_forall. intros y Hy.
  apply in_map_iff in Hy. destruct Hy as (x & <- & Hx). auto.
Qed.

Lemma Qcsum_map_ext {A} (f g : A -> Qc) l : (forall x, In x l -> f x = g x) -> Qcsum (map f l) = Qcsum (map g l).
Proof.
  induction l as [|a l IH]; intro H; cbn [map Qcsum]; [reflexivity|].
  rewrite (H a (or_introl eq_refl)), IH; [reflexivity|]. intros x Hx. apply H. right. exact Hx.
Qed.

Lemma Qcsum_map_zero {A} (f : A -> Qc) l : (forall x, In x l -> f x = 0) -> Qcsum (map f l) = 0.
Proof.
  induction l as [|a l IH]; intro H; cbn [map Qcsum]; [reflexivity|].
  rewrite (H a (or_introl eq_refl)), IH; [ring|]. intros x Hx. apply H. right. exact Hx.
Qed.

Lemma Qcsum_map_scale {A} (f : A -> Qc) (k : Qc) l : Qcsum (map (fun x => f x * k) l) = Qcsum (map f l) * k.
Proof. induction l as [|a l IH]; cbn [map Qcsum]; [ring|]. rewrite IH. ring. Qed.

Lemma Qcsum_map_plus {A} (f g : A -> Qc) l :
  Qcsum (map (fun x => f x + g x) l) = Qcsum (map f l) + Qcsum (map g l).
Proof. induction l as [|a l IH]; cbn [map Qcsum]; [ring|]. rewrite IH. ring. Qed.

Lemma Qcsum_swap {A B} (f : A -> B -> Qc) la lb :
  Qcsum (map (fun a => Qcsum (map (fun b => f a b) lb)) la) =
  Qcsum (map (fun b => Qcsum (map (fun a => f a b) la)) lb).
Proof.
  induction la as [|a la IH]; cbn [map Qcsum].
  - symmetry. apply Qcsum_map_zero. reflexivity.
  - rewrite IH, <- Qcsum_map_plus. reflexivity.
Qed.

Lemma Qcsum_pos_in {A} (f : A -> Qc) l x :
  (forall y, In y l -> 0 <= f y) -> In x l -> 0 < f x -> 0 < Qcsum (map f l).
Proof.
  induction l as [|a l IH]; intros Hn Hin Hp; [destruct Hin|]. cbn [map Qcsum].
  assert (Ha : 0 <= f a) by (apply Hn; left; reflexivity).
  assert (Hl : 0 <= Qcsum (map f l)) by (apply Qcsum_map_nonneg; intros; apply Hn; right; assumption).
  destruct Hin as [->|Hin]; [qlra|].
  assert (0 < Qcsum (map f l)) by (apply IH; auto; intros; apply Hn; right; assumption). qlra.
Qed.

(* ------------------------------------------------------------------ *)
(* the area of a cell covered by a list of rectangles                  *)
(* ------------------------------------------------------------------ *)
Definition covered (c : Rect) (rs : list Rect) : Qc := Qcsum (map (area_overlap c) rs).

Lemma cov_ratio_eq c rs : cov_ratio c rs = covered c rs / area c.
Proof.
  unfold cov_ratio, covered, Qcdiv. apply (Qcsum_map_scale (area_overlap c) (/ area c)).
Qed.

Lemma covered_nonneg c rs : 0 <= covered c rs.
Proof. apply Qcsum_map_nonneg. intros. apply ov_nonneg. Qed.

Lemma wf_area_pos r : wf r -> 0 < area r.
Proof. unfold wf, area. intros [A B]. qnra. Qed.

Lemma ov_self r : wf r -> area_overlap r r = area r.
Proof.
  intros [Hw Hh]. unfold area_overlap.
  assert (Ex : Qcmax (xmin r) (xmin r) = xmin r) by (unfold Qcmax; destruct (Qcleb _ _); reflexivity).
  assert (Ex' : Qcmin (xmax r) (xmax r) = xmax r) by (unfold Qcmin; destruct (Qcleb _ _); reflexivity).
  assert (Ey : Qcmax (ymin r) (ymin r) = ymin r) by (unfold Qcmax; destruct (Qcleb _ _); reflexivity).
  assert (Ey' : Qcmin (ymax r) (ymax r) = ymax r) by (unfold Qcmin; destruct (Qcleb _ _); reflexivity).
  rewrite Ex, Ex', Ey, Ey'.
  destruct (Qcleb (xmax r) (xmin r)) eqn:E1; qb2p; [exfalso; runfold; qlra|].
  destruct (Qcleb (ymax r) (ymin r)) eqn:E2; qb2p; [exfalso; runfold; qlra|].
  runfold. qlra.
Qed.

Lemma div_mul_cancel a b : b <> 0 -> a / b * b = a.
Proof. intro H. field. exact H. Qed.

Lemma pos_neq0 b : 0 < b -> b <> 0.
Proof. intros H Z. qlra. Qed.

Lemma div_pos_nonneg a b : 0 <= a -> 0 < b -> 0 <= a / b.
Proof.
  intros Ha Hb. pose proof (div_mul_cancel a b (pos_neq0 b Hb)) as E.
  revert E. generalize (a / b). intros q E. qnra.
Qed.

Lemma div_le_1 a b : a <= b -> 0 < b -> a / b <= 1.
Proof.
  intros Ha Hb. pose proof (div_mul_cancel a b (pos_neq0 b Hb)) as E.
  revert E. generalize (a / b). intros q E. qnra.
Qed.

Lemma div_pos_iff a b : 0 < b -> (0 < a / b <-> 0 < a).
Proof.
  intros Hb. pose proof (div_mul_cancel a b (pos_neq0 b Hb)) as E.
  revert E. generalize (a / b). intros q E. split; intro H; qnra.
Qed.

(* ------------------------------------------------------------------ *)
(* pairwise disjoint rectangles cover at most the area of a cell        *)
(* ------------------------------------------------------------------ *)
(* length of the common part of the intervals [a,b] and [p,q] *)
Definition olen (a b p q : Qc) : Qc := Qcmax 0 (Qcmin b q - Qcmax a p).
Definition clamp (a b v : Qc) : Qc := Qcmax a (Qcmin b v).
Definition bov (x0 x1 y0 y1 : Qc) (s : Rect) : Qc :=
  olen x0 x1 (xmin s) (xmax s) * olen y0 y1 (ymin s) (ymax s).

Lemma max0_nonpos x : x <= 0 -> Qcmax 0 x = 0.
Proof. intro H. qmlra. Qed.
Lemma max0_pos x : 0 < x -> Qcmax 0 x = x.
Proof. intro H. qmlra. Qed.

Lemma ov_prod r s :
  area_overlap r s = olen (xmin r) (xmax r) (xmin s) (xmax s) * olen (ymin r) (ymax r) (ymin s) (ymax s).
Proof.
  unfold area_overlap, olen.
  generalize (xmin r) (xmax r) (xmin s) (xmax s) (ymin r) (ymax r) (ymin s) (ymax s).
  intros a b p q c d u v.
  generalize (Qcmin b q) (Qcmax a p) (Qcmin d v) (Qcmax c u). intros X1 X0 Y1 Y0.
  destruct (Qcleb X1 X0) eqn:E1; qb2p.
  - rewrite (max0_nonpos (X1 - X0)) by qlra. ring.
  - destruct (Qcleb Y1 Y0) eqn:E2; qb2p.
    + rewrite (max0_nonpos (Y1 - Y0)) by qlra. ring.
    + rewrite (max0_pos (X1 - X0)) by qlra. rewrite (max0_pos (Y1 - Y0)) by qlra. reflexivity.
Qed.

Lemma olen_nonneg a b p q : 0 <= olen a b p q.
Proof. unfold olen. generalize (Qcmin b q - Qcmax a p). intro x. qmlra. Qed.

Lemma olen_split a m b p q : a <= m -> m <= b -> olen a b p q = olen a m p q + olen m b p q.
Proof. intros H1 H2. unfold olen. qmlra. Qed.

Lemma olen_mid a b p q : a <= b -> p <= q -> olen a b p q = clamp a b q - clamp a b p.
Proof. intros H1 H2. unfold olen, clamp. qmlra. Qed.

Lemma clamp_range a b v : a <= b -> a <= clamp a b v /\ clamp a b v <= b.
Proof. intro H. unfold clamp. split; qmlra. Qed.
Lemma clamp_mono a b p q : p <= q -> clamp a b p <= clamp a b q.
Proof. intro H. unfold clamp. qmlra. Qed.

Lemma olen_sub_zero a b p q u v : a <= b -> p <= q ->
  olen p q u v = 0 -> olen (clamp a b p) (clamp a b q) u v = 0.
Proof. intros H1 H2. unfold olen, clamp. intro H. qmlra. Qed.

Definition wwf (r : Rect) : Prop := xmin r <= xmax r /\ ymin r <= ymax r.
Lemma wf_wwf r : wf r -> wwf r.
Proof. intros [A B]. unfold wwf. runfold. split; qlra. Qed.

Lemma mul_zero_cases (x y : Qc) : x * y = 0 -> x = 0 \/ y = 0.
Proof.
  intro H. destruct (Qceqb x 0) eqn:E; qb2p; [left; exact E|right].
  assert (y = (x * y) / x) as -> by (field; exact E). rewrite H. field. exact E.
Qed.

Lemma bov_split x0 x1 y0 y1 r s : x0 <= x1 -> y0 <= y1 -> wwf r -> area_overlap r s = 0 ->
  let a := clamp x0 x1 (xmin r) in let b := clamp x0 x1 (xmax r) in
  let c := clamp y0 y1 (ymin r) in let d := clamp y0 y1 (ymax r) in
  bov x0 x1 y0 y1 s = bov x0 a y0 y1 s + bov b x1 y0 y1 s + bov a b y0 c s + bov a b d y1 s.
Proof.
  intros Hx Hy [Wx Wy] Hov a b c d.
  destruct (clamp_range x0 x1 (xmin r) Hx) as [A0 A1]. destruct (clamp_range x0 x1 (xmax r) Hx) as [B0 B1].
  destruct (clamp_range y0 y1 (ymin r) Hy) as [C0 C1]. destruct (clamp_range y0 y1 (ymax r) Hy) as [D0 D1].
  pose proof (clamp_mono x0 x1 _ _ Wx) as AB. pose proof (clamp_mono y0 y1 _ _ Wy) as CD.
  fold a in A0, A1, AB. fold b in B0, B1, AB. fold c in C0, C1, CD. fold d in D0, D1, CD.
  unfold bov.
  rewrite (olen_split x0 a x1 (xmin s) (xmax s) A0 A1).
  rewrite (olen_split a b x1 (xmin s) (xmax s) AB B1).
  rewrite (olen_split y0 c y1 (ymin s) (ymax s) C0 C1).
  rewrite (olen_split c d y1 (ymin s) (ymax s) CD D1).
  assert (Z : olen a b (xmin s) (xmax s) * olen c d (ymin s) (ymax s) = 0).
  { rewrite ov_prod in Hov. apply mul_zero_cases in Hov. destruct Hov as [H|H].
    - unfold a, b. rewrite (olen_sub_zero x0 x1 _ _ _ _ Hx Wx H). ring.
    - unfold c, d. rewrite (olen_sub_zero y0 y1 _ _ _ _ Hy Wy H). ring. }
  revert Z.
  generalize (olen x0 a (xmin s) (xmax s)) (olen a b (xmin s) (xmax s)) (olen b x1 (xmin s) (xmax s))
             (olen y0 c (ymin s) (ymax s)) (olen c d (ymin s) (ymax s)) (olen d y1 (ymin s) (ymax s)).
  intros A1' A2 A3 B1' B2 B3 Z.
  transitivity (A1' * (B1' + (B2 + B3)) + A3 * (B1' + (B2 + B3)) + A2 * B1' + A2 * B3 + A2 * B2); [ring|].
  rewrite Z. ring.
Qed.

Lemma box_cover rs : pairwise_no_ov rs -> Forall wwf rs ->
  forall x0 x1 y0 y1, x0 <= x1 -> y0 <= y1 ->
  Qcsum (map (bov x0 x1 y0 y1) rs) <= (x1 - x0) * (y1 - y0).
Proof.
  induction rs as [|r rs IH]; intros Hp Hw x0 x1 y0 y1 Hx Hy.
  - cbn [map Qcsum]. qnra.
  - destruct Hp as [Hr Hp]. inversion Hw as [|? ? Wr Wrs]; subst.
    specialize (IH Hp Wrs).
    set (a := clamp x0 x1 (xmin r)). set (b := clamp x0 x1 (xmax r)).
    set (c := clamp y0 y1 (ymin r)). set (d := clamp y0 y1 (ymax r)).
    destruct Wr as [Wx Wy].
    destruct (clamp_range x0 x1 (xmin r) Hx) as [A0 A1]. destruct (clamp_range x0 x1 (xmax r) Hx) as [B0 B1].
    destruct (clamp_range y0 y1 (ymin r) Hy) as [C0 C1]. destruct (clamp_range y0 y1 (ymax r) Hy) as [D0 D1].
    pose proof (clamp_mono x0 x1 _ _ Wx) as AB. pose proof (clamp_mono y0 y1 _ _ Wy) as CD.
    fold a in A0, A1, AB. fold b in B0, B1, AB. fold c in C0, C1, CD. fold d in D0, D1, CD.
    cbn [map Qcsum].
    assert (E1 : bov x0 x1 y0 y1 r = (b - a) * (d - c)).
    { unfold bov. rewrite (olen_mid x0 x1 _ _ Hx Wx), (olen_mid y0 y1 _ _ Hy Wy). reflexivity. }
    assert (E2 : Qcsum (map (bov x0 x1 y0 y1) rs) =
                 Qcsum (map (bov x0 a y0 y1) rs) + Qcsum (map (bov b x1 y0 y1) rs) +
                 Qcsum (map (bov a b y0 c) rs) + Qcsum (map (bov a b d y1) rs)).
    { rewrite <- !Qcsum_map_plus. apply Qcsum_map_ext. intros s Hs.
      rewrite Forall_forall in Hr.
      apply (bov_split x0 x1 y0 y1 r s Hx Hy (conj Wx Wy) (Hr s Hs)). }
    pose proof (IH x0 a y0 y1 A0 Hy) as I1. pose proof (IH b x1 y0 y1 B1 Hy) as I2.
    pose proof (IH a b y0 c AB C0) as I3. pose proof (IH a b d y1 AB D1) as I4.
    rewrite E1, E2. revert I1 I2 I3 I4.
    generalize (Qcsum (map (bov x0 a y0 y1) rs)) (Qcsum (map (bov b x1 y0 y1) rs))
               (Qcsum (map (bov a b y0 c) rs)) (Qcsum (map (bov a b d y1) rs)).
    clearbody a b c d. clear - a. intros S1 S2 S3 S4 I1 I2 I3 I4. qnra.
Qed.

Theorem covered_le_area c rs : wf c -> pairwise_no_ov rs -> Forall wf rs -> covered c rs <= area c.
Proof.
  intros Hc Hp Hw. unfold covered.
  rewrite (Qcsum_map_ext (area_overlap c) (bov (xmin c) (xmax c) (ymin c) (ymax c))).
  2:{ intros s _. apply ov_prod. }
  destruct (wf_wwf c Hc) as [Wx Wy].
  assert (Hw' : Forall wwf rs) by (eapply Forall_impl; [|exact Hw]; apply wf_wwf).
  pose proof (box_cover rs Hp Hw' _ _ _ _ Wx Wy) as B.
  revert B. generalize (Qcsum (map (bov (xmin c) (xmax c) (ymin c) (ymax c)) rs)). intros S B.
  assert (E : (xmax c - xmin c) * (ymax c - ymin c) = area c) by (runfold; qnra).
  rewrite E in B. exact B.
Qed.

(* ------------------------------------------------------------------ *)
(* pairwise disjoint lists                                              *)
(* ------------------------------------------------------------------ *)
Lemma pairwise_app l1 l2 : pairwise_no_ov (l1 ++ l2) ->
  pairwise_no_ov l1 /\ pairwise_no_ov l2 /\ forall a b, In a l1 -> In b l2 -> area_overlap a b = 0.
Proof.
  induction l1 as [|x l1 IH]; cbn [app pairwise_no_ov].
  - intro H. split; [exact I|]. split; [exact H|]. intros a b [].
  - intros [Hx Hp]. destruct (IH Hp) as (P1 & P2 & P3).
    apply Forall_app in Hx. destruct Hx as [Hx1 Hx2].
    split; [split; assumption|]. split; [exact P2|].
    intros a b [<-|Ha] Hb.
    + rewrite Forall_forall in Hx2. apply Hx2. exact Hb.
    + apply P3; assumption.
Qed.

(* a member of a pairwise disjoint list is covered exactly once by the list *)
Lemma covered_self l c : pairwise_no_ov l -> Forall wf l -> In c l -> covered c l = area c.
Proof.
  unfold covered. induction l as [|b l IH]; intros Hp Hw Hin; [destruct Hin|].
  destruct Hp as [Hb Hp]. inversion Hw as [|? ? Wb Wl]; subst. cbn [map Qcsum].
  rewrite Forall_forall in Hb.
  destruct Hin as [->|Hin].
  - rewrite (ov_self c Wb). rewrite Qcsum_map_zero; [ring|]. exact Hb.
  - rewrite (ov_sym c b), (Hb c Hin), (IH Hp Wl Hin). ring.
Qed.

Lemma covered_zero c l : (forall r, In r l -> area_overlap c r = 0) -> covered c l = 0.
Proof. intro H. apply Qcsum_map_zero. exact H. Qed.

Lemma covered_app c l1 l2 : covered c (l1 ++ l2) = covered c l1 + covered c l2.
Proof. unfold covered. rewrite map_app. apply Qcsum_app. Qed.

