(* Model of frame/allocation/allocation.py: the Allocation constructor checks,
   areas / centres, refine, must_be_refined, uniform_refinement_depth, griddify
   and gather_boundaries.  Definitions only.  The model mirrors the repaired
   code: fixed cells are never cut, an empty cell never asks for refinement,
   and griddify's y loop ranges over the y boundaries. *)
From FrameModel Require Import Num.QcTac Geometry.Rect.
From Coq Require Import Ascii.
Open Scope list_scope.
Open Scope Qc_scope.

Definition alloc := list (string * Qc).     (* dict in insertion order *)
Record cell := mkCell { crect : Rect; calloc : alloc; cdepth : nat }.

(* ---- valid_identifier: ^[A-Za-z_][A-Za-z0-9_]* ---- *)
Definition is_alpha_ (c : ascii) : bool :=
  let n := nat_of_ascii c in
  ((65 <=? n) && (n <=? 90) || (97 <=? n) && (n <=? 122) || (n =? 95))%nat.
Definition is_alnum_ (c : ascii) : bool :=
  let n := nat_of_ascii c in (is_alpha_ c || (48 <=? n) && (n <=? 57))%nat.
Fixpoint all_alnum_ (s : string) : bool :=
  match s with EmptyString => true | String c r => is_alnum_ c && all_alnum_ r end.
Definition valid_identifier (s : string) : bool :=
  match s with EmptyString => false | String c r => is_alpha_ c && all_alnum_ r end.

(* ---- constructor checks ---- *)
Fixpoint lookup (m : string) (a : alloc) : option Qc :=
  match a with
  | [] => None
  | (k, v) :: r => if String.eqb k m then Some v else lookup m r
  end.
Definition ratio (m : string) (c : cell) : Qc :=
  match lookup m (calloc c) with Some q => q | None => 0 end.

Fixpoint nodup_keys (a : alloc) : bool :=
  match a with
  | [] => true
  | (k, _) :: r => match lookup k r with Some _ => false | None => nodup_keys r end
  end.
Definition alloc_ok (a : alloc) : bool :=
  forallb (fun p => valid_identifier (fst p) && Qcleb 0 (snd p) && Qcleb (snd p) 1) a && nodup_keys a.
Definition cell_ok (c : cell) : bool := wfb (crect c) && alloc_ok (calloc c).

Fixpoint no_overlap_with (aeps : Qc) (r : Rect) (l : list cell) : bool :=
  match l with
  | [] => true
  | c :: rest => negb (overlap aeps r (crect c)) && no_overlap_with aeps r rest
  end.
Fixpoint no_overlap (aeps : Qc) (l : list cell) : bool :=
  match l with
  | [] => true
  | c :: rest => no_overlap_with aeps (crect c) rest && no_overlap aeps rest
  end.

(* module names in order of first appearance *)
Fixpoint add_names (a : alloc) (acc : list string) : list string :=
  match a with
  | [] => acc
  | (k, _) :: r => add_names r (if existsb (String.eqb k) acc then acc else acc ++ [k])
  end.
Definition module_names (cells : list cell) : list string :=
  fold_left (fun acc c => add_names (calloc c) acc) cells [].

Definition area_of (m : string) (cells : list cell) : Qc :=
  Qcsum (map (fun c => ratio m c * area (crect c)) cells).
Definition momx_of (m : string) (cells : list cell) : Qc :=
  Qcsum (map (fun c => ratio m c * area (crect c) * cx (crect c)) cells).
Definition momy_of (m : string) (cells : list cell) : Qc :=
  Qcsum (map (fun c => ratio m c * area (crect c) * cy (crect c)) cells).
Definition center_of (m : string) (cells : list cell) : Qc * Qc :=
  (momx_of m cells / area_of m cells, momy_of m cells / area_of m cells).

Definition in_quadrant (cells : list cell) : bool :=
  forallb (fun c => Qcleb 0 (xmin (crect c)) && Qcleb 0 (ymin (crect c))) cells.

(* Allocation(list): None = the constructor raises *)
Definition mk_allocation (aeps : Qc) (cells : list cell) : option (list cell) :=
  match cells with
  | [] => None
  | _ =>
    if forallb cell_ok cells && in_quadrant cells && no_overlap aeps cells &&
       forallb (fun m => negb (Qceqb (area_of m cells) 0)) (module_names cells)
    then Some cells else None
  end.
Definition accepted (aeps : Qc) (cells : list cell) : Prop := mk_allocation aeps cells = Some cells.

(* ---- _split_allocation ---- *)
Fixpoint split_alloc (r : Rect) (al : alloc) (depth levels : nat) : option (list cell) :=
  match levels with
  | O => Some [mkCell r al depth]
  | S l =>
      match split r with
      | Some (r1, r2) =>
          match split_alloc r1 al (S depth) l, split_alloc r2 al (S depth) l with
          | Some a, Some b => Some (a ++ b)
          | _, _ => None
          end
      | None => None
      end
  end.

Fixpoint concat_opt {A} (l : list (option (list A))) : option (list A) :=
  match l with
  | [] => Some []
  | None :: _ => None
  | Some x :: r => match concat_opt r with Some y => Some (x ++ y) | None => None end
  end.

Definition is_empty {A} (l : list A) : bool := match l with [] => true | _ => false end.
(* a cell is split by refine(t) iff it is not fixed, its map is non-empty and no ratio exceeds t *)
Definition splittable (t : Qc) (c : cell) : bool :=
  negb (fixed (crect c)) && negb (is_empty (calloc c)) && forallb (fun p => Qcleb (snd p) t) (calloc c).

Definition refine_cells (t : Qc) (levels : nat) (cells : list cell) : option (list cell) :=
  concat_opt (map (fun c => split_alloc (crect c) (calloc c) (cdepth c)
                              (if splittable t c then levels else 0)) cells).
Definition refine (aeps t : Qc) (levels : nat) (cells : list cell) : option (list cell) :=
  match levels with
  | O => None                                   (* assert levels > 0 *)
  | _ => match refine_cells t levels cells with
         | Some new => mk_allocation aeps new
         | None => None
         end
  end.
Definition must_be_refined (t : Qc) (cells : list cell) : bool := existsb (splittable t) cells.

Definition max_depth (cells : list cell) : nat := fold_right (fun c m => Nat.max (cdepth c) m) 0%nat cells.
Definition min_depth (cells : list cell) : nat :=
  match cells with
  | [] => 0%nat
  | c :: r => fold_right (fun c m => Nat.min (cdepth c) m) (cdepth c) r
  end.
Definition uniform_cells (cells : list cell) : option (list cell) :=
  let md := max_depth cells in
  concat_opt (map (fun c => split_alloc (crect c) (calloc c) (cdepth c)
                              (if fixed (crect c) then 0 else md - cdepth c)%nat) cells).
Definition uniform_refinement_depth (aeps : Qc) (cells : list cell) : option (list cell) :=
  if Nat.eqb (max_depth cells) (min_depth cells) then Some cells
  else match uniform_cells cells with
       | Some new => mk_allocation aeps new
       | None => None
       end.

(* ---- gather_boundaries ---- *)
Fixpoint insert_sorted (x : Qc) (l : list Qc) : list Qc :=
  match l with
  | [] => [x]
  | y :: r => if Qcleb x y then x :: l else y :: insert_sorted x r
  end.
Definition sortq (l : list Qc) : list Qc := fold_right insert_sorted [] l.
Fixpoint dedup (eps last : Qc) (l : list Qc) : list Qc :=
  match l with
  | [] => []
  | v :: r => if Qcltb (last + eps) v then v :: dedup eps v r else dedup eps last r
  end.
Definition uniq (eps : Qc) (l : list Qc) : list Qc :=
  match sortq l with [] => [] | v :: r => v :: dedup eps v r end.
Definition gather_boundaries (eps : Qc) (rs : list Rect) : list Qc * list Qc :=
  (uniq eps (flat_map (fun r => [xmin r; xmax r]) rs),
   uniq eps (flat_map (fun r => [ymin r; ymax r]) rs)).

(* ---- griddify ---- *)
Definition interior {A} (l : list A) : list A := removelast (tl l).   (* cuts[1 .. len-2] *)

Definition cut_x (q x : Qc) (c : cell) : option (list cell) :=
  if negb (fixed (crect c)) && x_cuttable (crect c) x q then
    match split_horizontal (crect c) x with
    | Some (r1, r2) => Some [mkCell r1 (calloc c) (S (cdepth c)); mkCell r2 (calloc c) (S (cdepth c))]
    | None => None
    end
  else Some [c].
Definition cut_y (q y : Qc) (c : cell) : option (list cell) :=
  if negb (fixed (crect c)) && y_cuttable (crect c) y q then
    match split_vertical (crect c) y with
    | Some (r1, r2) => Some [mkCell r1 (calloc c) (S (cdepth c)); mkCell r2 (calloc c) (S (cdepth c))]
    | None => None
    end
  else Some [c].
Definition apply_cuts (f : Qc -> cell -> option (list cell)) (cuts : list Qc) (cells : list cell)
  : option (list cell) :=
  fold_left (fun acc x => match acc with
                          | Some cs => concat_opt (map (f x) cs)
                          | None => None end) cuts (Some cells).
Definition griddify_cells (eps q : Qc) (cells : list cell) : option (list cell) :=
  let (xc, yc) := gather_boundaries eps (map crect cells) in
  match apply_cuts (cut_x q) (interior xc) cells with
  | Some cs => apply_cuts (cut_y q) (interior yc) cs
  | None => None
  end.
Definition griddify (eps aeps q : Qc) (cells : list cell) : option (list cell) :=
  match griddify_cells eps q cells with
  | Some new => mk_allocation aeps new
  | None => None
  end.

(* any composition of the three operations *)
Inductive op := OpRefine (t : Qc) (levels : nat) | OpUniform | OpGriddify.
Definition run_op (eps aeps q : Qc) (o : op) (cells : list cell) : option (list cell) :=
  match o with
  | OpRefine t l => refine aeps t l cells
  | OpUniform => uniform_refinement_depth aeps cells
  | OpGriddify => griddify eps aeps q cells
  end.
Definition run_ops (eps aeps q : Qc) (ops : list op) (cells : list cell) : option (list cell) :=
  fold_left (fun acc o => match acc with Some cs => run_op eps aeps q o cs | None => None end)
            ops (Some cells).
