(* A refinement of an accepted allocation is accepted by the constructor:
   the refinement operations never fail on a valid allocation (C02). *)
From FrameModel Require Import Num.QcTac Geometry.Rect Geometry.RectFacts Geometry.SplitFacts
  Alloc.Alloc Alloc.GeomExtra Alloc.RefinesFacts.
Open Scope list_scope.
Open Scope Qc_scope.
Local Notation concat := List.concat.

(* ---- generic pairwise predicate ---- *)
Fixpoint pairwiseP {A} (R : A -> A -> Prop) (l : list A) : Prop :=
  match l with [] => True | x :: r => Forall (R x) r /\ pairwiseP R r end.
Lemma pairwiseP_app {A} (R : A -> A -> Prop) l1 l2 :
  pairwiseP R l1 -> pairwiseP R l2 -> (forall a b, In a l1 -> In b l2 -> R a b) -> pairwiseP R (l1 ++ l2).
Proof.
  induction l1 as [|x l1 IH]; intros H1 H2 H; cbn [app]; [exact H2|].
  destruct H1 as [Hx H1]. split.
  - apply Forall_app. split; [exact Hx|]. apply Forall_forall. intros b Hb. apply H; [left; reflexivity|exact Hb].
  - apply IH; auto. intros a b Ha Hb. apply H; [right; exact Ha|exact Hb].
Qed.

Definition ov_le (aeps : Qc) (a b : cell) : Prop := area_overlap (crect a) (crect b) <= aeps.

Lemma no_overlap_with_spec aeps r l :
  no_overlap_with aeps r l = true <-> Forall (fun c => area_overlap r (crect c) <= aeps) l.
Proof.
  induction l as [|c l IH]; cbn [no_overlap_with]; [split; auto|].
  rewrite andb_true_iff, negb_true_iff, IH. unfold overlap. rewrite Qcltb_false. split.
  - intros [A B]. constructor; assumption.
  - intro H. inversion H; subst. split; assumption.
Qed.
Lemma no_overlap_spec aeps l : no_overlap aeps l = true <-> pairwiseP (ov_le aeps) l.
Proof.
  induction l as [|c l IH]; cbn [no_overlap pairwiseP]; [split; auto|].
  rewrite andb_true_iff, no_overlap_with_spec, IH. unfold ov_le. tauto.
Qed.

Lemma pairwise_no_ov_le aeps ps : 0 <= aeps -> pairwise_no_ov (map crect ps) -> pairwiseP (ov_le aeps) ps.
Proof.
  intro Ha. induction ps as [|p ps IH]; cbn [map pairwise_no_ov pairwiseP]; [auto|].
  intros [H1 H2]. split; [|apply IH; exact H2].
  rewrite Forall_map in H1. eapply Forall_impl; [|exact H1]. cbn. intros q Hq. unfold ov_le. rewrite Hq. exact Ha.
Qed.

Lemma refines_no_overlap aeps cells parts : 0 <= aeps ->
  Forall2 cell_refines cells parts -> pairwiseP (ov_le aeps) cells -> pairwiseP (ov_le aeps) (concat parts).
Proof.
  intros Ha F. induction F as [|c ps cells parts Hc F IH]; intro P; cbn [concat]; [exact I|].
  destruct P as [Pc P]. apply pairwiseP_app.
  - apply pairwise_no_ov_le; [exact Ha|apply (cr_disj _ _ Hc)].
  - apply IH. exact P.
  - intros a b Ha' Hb. apply in_concat in Hb. destruct Hb as (grp & Hgrp & Hb).
    destruct (Forall2_In_r_ex _ _ _ F grp Hgrp) as (c' & Hc' & Hr').
    rewrite Forall_forall in Pc. specialize (Pc c' Hc'). unfold ov_le in *.
    pose proof (cr_inside _ _ Hc) as I1. rewrite Forall_forall in I1.
    pose proof (cr_inside _ _ Hr') as I2. rewrite Forall_forall in I2.
    eapply Qcle_trans; [apply ov_mono; [apply I1; exact Ha'|apply I2; exact Hb]|exact Pc].
Qed.

(* ---- module names ---- *)
Definition has_key (m : string) (a : alloc) : Prop := exists q, In (m, q) a.
Lemma add_names_in m a : forall acc, In m (add_names a acc) <-> (In m acc \/ has_key m a).
Proof.
  induction a as [|[k v] a IH]; intro acc; cbn [add_names].
  - split; [auto|]. intros [H|[q []]]. exact H.
  - rewrite IH. unfold has_key. split.
    + intros [H|[q H]].
      * destruct (existsb (String.eqb k) acc) eqn:E; [left; exact H|].
        apply in_app_or in H. destruct H as [H|[<-|[]]]; [left; exact H|right; exists v; left; reflexivity].
      * right. exists q. right. exact H.
    + intros [H|[q [H|H]]].
      * left. destruct (existsb (String.eqb k) acc); [exact H|apply in_or_app; left; exact H].
      * injection H as -> ->. left. destruct (existsb (String.eqb m) acc) eqn:E.
        { apply existsb_exists in E. destruct E as (x & Hx & E). apply String.eqb_eq in E. subst x. exact Hx. }
        apply in_or_app. right. left. reflexivity.
      * right. exists q. exact H.
Qed.
Lemma module_names_in m cells : In m (module_names cells) <-> exists c, In c cells /\ has_key m (calloc c).
Proof.
  unfold module_names.
  assert (G : forall acc, In m (fold_left (fun acc c => add_names (calloc c) acc) cells acc) <->
                          (In m acc \/ exists c, In c cells /\ has_key m (calloc c))).
  { induction cells as [|c cells IH]; intro acc; cbn [fold_left].
    - split; [auto|]. intros [H|(c & [] & _)]. exact H.
    - rewrite IH, add_names_in. split.
      + intros [[H|H]|(c' & Hc' & H)]; [left; exact H|right; exists c; split; [left; reflexivity|exact H]|
                                          right; exists c'; split; [right; exact Hc'|exact H]].
      + intros [H|(c' & [<-|Hc'] & H)]; [left; left; exact H|left; right; exact H|right; exists c'; split; assumption]. }
  rewrite G. split; [intros [[]|H]; exact H|intro H; right; exact H].
Qed.

(* ---- the constructor's conjunction as a Prop ---- *)
Lemma accepted_iff aeps cells :
  accepted aeps cells <->
  (cells <> [] /\ Forall (fun c => cell_ok c = true) cells /\ in_quadrant cells = true /\
   pairwiseP (ov_le aeps) cells /\ forall m, In m (module_names cells) -> area_of m cells <> 0).
Proof.
  unfold accepted, mk_allocation. destruct cells as [|c0 cells0]; [split; [discriminate|intros [H _]; congruence]|].
  set (cells := c0 :: cells0).
  destruct (forallb cell_ok cells && in_quadrant cells && no_overlap aeps cells &&
            forallb (fun m => negb (Qceqb (area_of m cells) 0)) (module_names cells)) eqn:E.
  - split; [intros _|reflexivity].
    apply andb_true_iff in E. destruct E as [E E4]. apply andb_true_iff in E. destruct E as [E E3].
    apply andb_true_iff in E. destruct E as [E1 E2].
    split; [discriminate|]. split; [apply Forall_forall; apply forallb_forall; exact E1|].
    split; [exact E2|]. split; [apply no_overlap_spec; exact E3|].
    intros m Hm. rewrite forallb_forall in E4. specialize (E4 m Hm).
    apply negb_true_iff in E4. apply Qceqb_false in E4. exact E4.
  - split; [discriminate|]. intros (_ & A & B & C & D). exfalso.
    assert (forallb cell_ok cells = true) as E1 by (apply forallb_forall; rewrite Forall_forall in A; exact A).
    assert (no_overlap aeps cells = true) as E3 by (apply no_overlap_spec; exact C).
    assert (forallb (fun m => negb (Qceqb (area_of m cells) 0)) (module_names cells) = true) as E4.
    { apply forallb_forall. intros m Hm. apply negb_true_iff. apply Qceqb_false. apply D. exact Hm. }
    rewrite E1, B, E3, E4 in E. discriminate.
Qed.

Lemma cell_ok_wf c : cell_ok c = true -> wf (crect c).
Proof.
  unfold cell_ok, wfb, wf. intro H. apply andb_true_iff in H. destruct H as [H _].
  apply andb_true_iff in H. destruct H as [A B]. qb2p. auto.
Qed.
Lemma accepted_wf aeps cells : accepted aeps cells -> Forall (fun c => wf (crect c)) cells.
Proof.
  intro H. apply accepted_iff in H. destruct H as (_ & H & _).
  eapply Forall_impl; [|exact H]. apply cell_ok_wf.
Qed.

Lemma pieces_nonempty c ps : wf (crect c) -> cell_refines c ps -> ps <> [].
Proof.
  intros [W H] R E. subst ps. pose proof (cr_area _ _ R) as A. cbn in A. unfold carea, area in A.
  assert (0 < rw (crect c) * rh (crect c)) by qnra. rewrite <- A in H0. qlra.
Qed.

Theorem refines_accepted aeps cells cells' : 0 <= aeps ->
  accepted aeps cells -> refines cells cells' -> accepted aeps cells'.
Proof.
  intros Ha Acc Ref. pose proof Ref as (parts & F & ->).
  apply accepted_iff in Acc. destruct Acc as (Hne & Hok & Hq & Hov & Hm).
  apply accepted_iff. split; [|split; [|split; [|split]]].
  - (* non-empty *)
    destruct cells as [|c cells]; [congruence|]. inversion F as [|? ps ? parts' Hc F']; subst. cbn [concat].
    intro E. apply app_eq_nil in E. destruct E as [E _].
    inversion Hok as [|c1 l1 Hokc Hokr]. apply (pieces_nonempty c ps (cell_ok_wf _ Hokc) Hc E).
  - (* every cell well formed *)
    apply Forall_forall. intros p Hp. apply in_concat in Hp. destruct Hp as (grp & Hgrp & Hp).
    destruct (Forall2_In_r_ex _ _ _ F grp Hgrp) as (c & Hc & Hr).
    rewrite Forall_forall in Hok. specialize (Hok c Hc). unfold cell_ok in *.
    apply andb_true_iff in Hok. destruct Hok as [_ Hal]. apply andb_true_iff. split.
    + pose proof (cr_wf _ _ Hr) as W. rewrite Forall_forall in W. destruct (W p Hp) as [W1 W2].
      unfold wfb. apply andb_true_iff. split; qb2p; assumption.
    + pose proof (cr_alloc _ _ Hr) as A. rewrite Forall_forall in A. rewrite (A p Hp). exact Hal.
  - (* positive quadrant *)
    unfold in_quadrant in *. apply forallb_forall. intros p Hp. apply in_concat in Hp. destruct Hp as (grp & Hgrp & Hp).
    destruct (Forall2_In_r_ex _ _ _ F grp Hgrp) as (c & Hc & Hr).
    rewrite forallb_forall in Hq. specialize (Hq c Hc). apply andb_true_iff in Hq. destruct Hq as [Q1 Q2]. qb2p.
    pose proof (cr_inside _ _ Hr) as I1. rewrite Forall_forall in I1. specialize (I1 p Hp).
    apply is_inside_coords in I1. destruct I1 as (I1 & I2 & _).
    apply andb_true_iff. split; qb2p; [exact (Qcle_trans _ _ _ Q1 I1)|exact (Qcle_trans _ _ _ Q2 I2)].
  - apply (refines_no_overlap aeps cells parts Ha F Hov).
  - intros m Hin. rewrite (refines_area m _ _ Ref). apply Hm.
    apply module_names_in in Hin. destruct Hin as (p & Hp & Hk). apply in_concat in Hp. destruct Hp as (grp & Hgrp & Hp).
    destruct (Forall2_In_r_ex _ _ _ F grp Hgrp) as (c & Hc & Hr).
    apply module_names_in. exists c. split; [exact Hc|].
    pose proof (cr_alloc _ _ Hr) as A. rewrite Forall_forall in A. rewrite <- (A p Hp). exact Hk.
Qed.
