(* Facts about histories on shared objects (Alloc/Hist.v):
   - forgetting the object identities, a step of a history is the value function of Alloc.v applied to the
     CURRENT values of the allocation it is called on (htrans_erase);
   - setting a fixed flag in place keeps every allocation of the history accepted (flag_rel_accepted);
   - hence every call of every admissible history succeeds, returns an accepted refinement of the values its
     target had at that moment (run_hist_ok), a cell flagged fixed is handed over whole by the next call
     (set_fixed_true_not_cut), and the decisions of C12 hold at every reachable state. *)
From FrameModel Require Import Num.QcTac Geometry.Rect Geometry.RectFacts Geometry.SplitFacts
  Alloc.Alloc Alloc.GeomExtra Alloc.RefinesFacts Alloc.AcceptFacts Alloc.OpsFacts Alloc.DecisionFacts
  Alloc.GriddifyFacts Alloc.Hist.
From Coq Require Import Arith Lia.
Open Scope list_scope.
Open Scope Qc_scope.
Local Notation concat := List.concat.

(* ------------------------------------------------------------------ *)
(* 1. erasing the identities                                           *)
(* ------------------------------------------------------------------ *)
Definition erase (r : option (nat * list hcell)) : option (list cell) :=
  option_map (fun p => hvals (snd p)) r.

Lemma map_snd_combine_seq {A} (l : list A) : forall n, map snd (combine (seq n (List.length l)) l) = l.
Proof. induction l as [|x l IH]; intro n; cbn; [reflexivity|]. f_equal. apply IH. Qed.

Lemma tag_pieces_vals id next ps : hvals (snd (tag_pieces id next ps)) = ps.
Proof.
  unfold tag_pieces, hvals. destruct ps as [|p [|p' ps]]; cbn [snd]; try reflexivity.
  apply map_snd_combine_seq.
Qed.

Lemma hmap_step_erase f : forall l next, erase (hmap_step f next l) = concat_opt (map f (hvals l)).
Proof.
  induction l as [|[id c] l IH]; intro next; cbn [hmap_step hvals map concat_opt snd]; [reflexivity|].
  destruct (f c) as [ps|]; [|reflexivity].
  specialize (IH (fst (tag_pieces id next ps))). fold (hvals l).
  destruct (hmap_step f (fst (tag_pieces id next ps)) l) as [[n2 rest]|]; cbn in IH; rewrite <- IH; cbn; [|reflexivity].
  unfold hvals. rewrite map_app. fold (hvals (snd (tag_pieces id next ps))). rewrite tag_pieces_vals. reflexivity.
Qed.

Lemma hrefine_cells_erase t levels next l :
  erase (hrefine_cells t levels next l) = refine_cells t levels (hvals l).
Proof. unfold hrefine_cells, refine_cells. apply hmap_step_erase. Qed.
Lemma huniform_cells_erase next l : erase (huniform_cells next l) = uniform_cells (hvals l).
Proof. unfold huniform_cells, uniform_cells. apply hmap_step_erase. Qed.

Lemma happly_cuts_erase f cuts : forall next l,
  erase (happly_cuts f cuts next l) = apply_cuts f cuts (hvals l).
Proof.
  unfold happly_cuts, apply_cuts.
  assert (G : forall acc,
    erase (fold_left (fun acc x => match acc with Some (n, cs) => hmap_step (f x) n cs | None => None end) cuts acc) =
    fold_left (fun acc x => match acc with Some cs => concat_opt (map (f x) cs) | None => None end) cuts (erase acc)).
  { induction cuts as [|x cuts IH]; intro acc; cbn [fold_left]; [reflexivity|].
    rewrite IH. f_equal. destruct acc as [[n cs]|]; cbn; [apply hmap_step_erase|reflexivity]. }
  intros next l. rewrite G. reflexivity.
Qed.

Lemma hgriddify_cells_erase eps q next l :
  erase (hgriddify_cells eps q next l) = griddify_cells eps q (hvals l).
Proof.
  unfold hgriddify_cells, griddify_cells. destruct (gather_boundaries eps (map crect (hvals l))) as [xc yc].
  pose proof (happly_cuts_erase (cut_x q) (interior xc) next l) as E.
  destruct (happly_cuts (cut_x q) (interior xc) next l) as [[n cs]|]; cbn in E; rewrite <- E; [|reflexivity].
  apply happly_cuts_erase.
Qed.

Lemma mk_allocation_some aeps cells x : mk_allocation aeps cells = Some x -> x = cells.
Proof.
  unfold mk_allocation. destruct cells as [|c cells]; [discriminate|].
  match goal with |- (if ?b then _ else _) = _ -> _ => destruct b end; [|discriminate].
  intro H. injection H as <-. reflexivity.
Qed.

Lemma hmk_erase aeps r :
  erase (hmk aeps r) = match erase r with Some new => mk_allocation aeps new | None => None end.
Proof.
  destruct r as [[n hl]|]; [|reflexivity]. unfold erase, hmk. cbn [option_map snd].
  destruct (mk_allocation aeps (hvals hl)) as [x|] eqn:E; cbn [option_map snd]; [|reflexivity].
  apply mk_allocation_some in E. subst x. reflexivity.
Qed.

(* one call on identified cells = the value function on the values *)
Theorem htrans_erase eps aeps q o next l :
  erase (htrans eps aeps q o next l) = run_op eps aeps q o (hvals l).
Proof.
  destruct o as [t levels| |]; cbn [htrans run_op].
  - unfold refine. destruct levels as [|lv]; [reflexivity|].
    rewrite hmk_erase, hrefine_cells_erase. reflexivity.
  - unfold uniform_refinement_depth. destruct (Nat.eqb (max_depth (hvals l)) (min_depth (hvals l))); [reflexivity|].
    rewrite hmk_erase, huniform_cells_erase. reflexivity.
  - unfold griddify. rewrite hmk_erase, hgriddify_cells_erase. reflexivity.
Qed.

(* ------------------------------------------------------------------ *)
(* 2. flags do not matter to the constructor                           *)
(* ------------------------------------------------------------------ *)
(* same geometry and occupancy map (only fixed / hard / region / location may differ) *)
Definition geom_rel (c c' : cell) : Prop :=
  cx (crect c') = cx (crect c) /\ cy (crect c') = cy (crect c) /\
  rw (crect c') = rw (crect c) /\ rh (crect c') = rh (crect c) /\ calloc c' = calloc c.
(* the cell itself, or the cell with its fixed flag set *)
Definition flag_rel (c c' : cell) : Prop := c' = c \/ exists b, c' = cset_fixed b c.

Lemma flag_geom c c' : flag_rel c c' -> geom_rel c c'.
Proof. intros [->|(b & ->)]; unfold geom_rel; cbn; repeat split; reflexivity. Qed.

Lemma geom_rel_ov a a' b b' : geom_rel a a' -> geom_rel b b' ->
  area_overlap (crect a') (crect b') = area_overlap (crect a) (crect b).
Proof.
  intros (A1 & A2 & A3 & A4 & _) (B1 & B2 & B3 & B4 & _).
  unfold area_overlap, xmin, xmax, ymin, ymax. rewrite A1, A2, A3, A4, B1, B2, B3, B4. reflexivity.
Qed.

Lemma geom_rel_cell_ok c c' : geom_rel c c' -> cell_ok c = true -> cell_ok c' = true.
Proof. intros (_ & _ & A3 & A4 & A5). unfold cell_ok, wfb. rewrite A3, A4, A5. auto. Qed.

Lemma geom_rel_area_of m l l' : Forall2 geom_rel l l' -> area_of m l' = area_of m l.
Proof.
  unfold area_of. induction 1 as [|c c' l l' H F IH]; cbn [map Qcsum]; [reflexivity|].
  rewrite IH. destruct H as (_ & _ & A3 & A4 & A5). unfold ratio, area. rewrite A3, A4, A5. reflexivity.
Qed.

Lemma geom_rel_accepted aeps l l' : Forall2 geom_rel l l' -> accepted aeps l -> accepted aeps l'.
Proof.
  intros F Acc. apply accepted_iff in Acc. destruct Acc as (Hne & Hok & Hq & Hov & Hm).
  apply accepted_iff. split; [|split; [|split; [|split]]].
  - destruct F; [congruence|discriminate].
  - clear - F Hok. induction F as [|c c' l l' H F IH]; [constructor|]. inversion Hok; subst.
    constructor; [eapply geom_rel_cell_ok; eauto|auto].
  - clear - F Hq. unfold in_quadrant in *. induction F as [|c c' l l' H F IH]; [reflexivity|].
    cbn [forallb] in *. apply andb_true_iff in Hq. destruct Hq as [Hc Hq]. rewrite (IH Hq), andb_true_r.
    destruct H as (A1 & A2 & A3 & A4 & _). unfold xmin, ymin in *. rewrite A1, A2, A3, A4. exact Hc.
  - clear - F Hov. induction F as [|c c' l l' H F IH]; [exact I|]. cbn [pairwiseP] in *. destruct Hov as [Hc Hov].
    split; [|apply IH; exact Hov]. clear IH Hov. induction F as [|d d' l l' Hd F IH]; [constructor|].
    inversion Hc; subst. constructor; [|apply IH; assumption].
    unfold ov_le in *. rewrite (geom_rel_ov _ _ _ _ H Hd). assumption.
  - intros m Hin. rewrite (geom_rel_area_of m _ _ F). apply Hm.
    apply module_names_in in Hin. destruct Hin as (c' & Hc' & Hk).
    destruct (Forall2_In_r_ex _ _ _ F c' Hc') as (c & Hc & Hr).
    apply module_names_in. exists c. split; [exact Hc|]. destruct Hr as (_ & _ & _ & _ & A5). rewrite <- A5. exact Hk.
Qed.

(* setting fixed flags in place keeps an allocation accepted *)
Theorem flag_rel_accepted aeps l l' : Forall2 flag_rel l l' -> accepted aeps l -> accepted aeps l'.
Proof.
  intro F. apply geom_rel_accepted. eapply Forall2_impl_in; [exact F|]. intros a b _. apply flag_geom.
Qed.

(* what the flag changes about which cells may be cut *)
Lemma splittable_set_fixed_true t c : splittable t (cset_fixed true c) = false.
Proof. reflexivity. Qed.
Lemma splittable_set_fixed_false t c :
  splittable t (cset_fixed false c) = negb (is_empty (calloc c)) && forallb (fun p => Qcleb (snd p) t) (calloc c).
Proof. reflexivity. Qed.

(* ------------------------------------------------------------------ *)
(* 3. the invariant of a history                                       *)
(* ------------------------------------------------------------------ *)
Definition hvalid (aeps : Qc) (s : hstate) : Prop :=
  hallocs s <> [] /\ Forall (fun l => accepted aeps (hvals l)) (hallocs s).

Lemma hget_in s k : hallocs s <> [] -> In (hget s k) (hallocs s).
Proof.
  intro H. unfold hget. apply nth_In. apply Nat.mod_upper_bound.
  destruct (hallocs s); [congruence|discriminate].
Qed.
Lemma hget_accepted aeps s k : hvalid aeps s -> accepted aeps (hvals (hget s k)).
Proof. intros [Hne Hall]. rewrite Forall_forall in Hall. apply Hall. apply hget_in. exact Hne. Qed.

Lemma hinit_valid aeps cells : accepted aeps cells -> hvalid aeps (hinit cells).
Proof.
  intro A. unfold hvalid, hinit; cbn [hallocs]. split; [discriminate|]. constructor; [|constructor].
  unfold hvals. rewrite map_snd_combine_seq. exact A.
Qed.

Definition op_ok_on (eps aeps q : Qc) (o : op) (src new : list cell) : Prop :=
  run_op eps aeps q o src = Some new /\ refines src new /\ accepted aeps new.

Lemma run_op_ok eps aeps q o cells : 0 <= aeps -> op_admissible o -> accepted aeps cells ->
  exists new, op_ok_on eps aeps q o cells new.
Proof.
  intros Ha Ho Acc. unfold op_ok_on. destruct o as [t l| |]; cbn [run_op].
  - apply refine_ok; assumption.
  - apply uniform_ok; assumption.
  - apply griddify_ok; assumption.
Qed.

Lemma htrans_ok eps aeps q o next l : 0 <= aeps -> op_admissible o -> accepted aeps (hvals l) ->
  exists n hl, htrans eps aeps q o next l = Some (n, hl) /\ op_ok_on eps aeps q o (hvals l) (hvals hl).
Proof.
  intros Ha Ho Acc. destruct (run_op_ok eps aeps q o _ Ha Ho Acc) as (new & E & R & A).
  pose proof (htrans_erase eps aeps q o next l) as Er. rewrite E in Er.
  destruct (htrans eps aeps q o next l) as [[n hl]|]; cbn in Er; [|discriminate].
  injection Er as <-. exists n, hl. split; [reflexivity|]. split; [exact E|]. split; assumption.
Qed.

Definition hop_admissible (o : hop) : Prop :=
  match o with HApply _ o' => op_admissible o' | _ => True end.

(* what an event of an admissible history looks like: [src] = the values of the target when the call was made *)
Definition event_ok (eps aeps q : Qc) (e : hevent) : Prop :=
  let '(o, src, ob) := e in
  accepted aeps src /\
  match o with
  | HApply _ o' => exists new, ob = ONew (Some new) /\ op_ok_on eps aeps q o' src new
  | HCopy _ => ob = ONew (Some src)
  | HSetFixed _ _ _ _ => exists fl, ob = OFixed fl
  | HMbr _ t => ob = OBool (must_be_refined t src)
  | HMaxDepth _ => ob = ONat (max_depth src)
  | HNumRect _ => ob = ONat (List.length src)
  | HAreas _ => ob = OAreas (areas_of src)
  end.

Lemma Forall2_map_r {A} (R : A -> A -> Prop) (f : A -> A) l : (forall x, R x (f x)) -> Forall2 R l (map f l).
Proof. intro H. induction l as [|x l IH]; cbn; constructor; auto. Qed.

Lemma hset_cell_flag id b hc : flag_rel (snd hc) (snd (hset_cell id b hc)).
Proof.
  unfold hset_cell. destruct (Nat.eqb (fst hc) id); cbn [snd]; [right; exists b; reflexivity|left; reflexivity].
Qed.
Lemma hset_vals_flag id b l : Forall2 flag_rel (hvals l) (hvals (map (hset_cell id b) l)).
Proof.
  unfold hvals. induction l as [|hc l IH]; cbn [map]; constructor; [apply hset_cell_flag|exact IH].
Qed.

Lemma hset_fixed_valid aeps id b s : hvalid aeps s -> hvalid aeps (hset_fixed id b s).
Proof.
  intros [Hne Hall]. unfold hvalid, hset_fixed; cbn [hallocs]. split.
  - destruct (hallocs s); [congruence|discriminate].
  - rewrite Forall_map. eapply Forall_impl; [|exact Hall]. cbn. intros l Hl.
    eapply flag_rel_accepted; [apply hset_vals_flag|exact Hl].
Qed.

Lemma hvalid_snoc aeps s n hl : hvalid aeps s -> accepted aeps (hvals hl) -> hvalid aeps (mkH n (hallocs s ++ [hl])).
Proof.
  intros [Hne Hall] A. unfold hvalid; cbn [hallocs]. split.
  - intro E. apply app_eq_nil in E. destruct E as [_ E]. discriminate.
  - apply Forall_app. split; [exact Hall|]. constructor; [exact A|constructor].
Qed.

Theorem hstep_ok eps aeps q o s : 0 <= aeps -> hop_admissible o -> hvalid aeps s ->
  hvalid aeps (fst (hstep eps aeps q o s)) /\
  event_ok eps aeps q (o, hvals (hget s (hop_target o)), snd (hstep eps aeps q o s)).
Proof.
  intros Ha Ho V. destruct o as [k o'|k|k x y b|k t|k|k|k]; cbn [hop_target hstep event_ok];
    pose proof (hget_accepted aeps s k V) as Acc.
  - cbn in Ho. destruct (htrans_ok eps aeps q o' (hnext s) (hget s k) Ha Ho Acc) as (n & hl & E & Ok).
    rewrite E. cbn [fst snd]. split; [apply hvalid_snoc; [exact V|apply Ok]|].
    split; [exact Acc|]. exists (hvals hl). split; [reflexivity|exact Ok].
  - unfold accepted in Acc. rewrite Acc. cbn [fst snd]. split; [apply hvalid_snoc; [exact V|exact Acc]|].
    split; [exact Acc|reflexivity].
  - destruct (find (at_centre x y) (hget s k)) as [hc|]; cbn [fst snd].
    + split; [apply hset_fixed_valid; exact V|]. split; [exact Acc|]. eexists; reflexivity.
    + split; [exact V|]. split; [exact Acc|]. eexists; reflexivity.
  - cbn [fst snd]. auto.
  - cbn [fst snd]. auto.
  - cbn [fst snd]. split; [exact V|]. split; [exact Acc|]. unfold hvals. rewrite map_length. reflexivity.
  - cbn [fst snd]. auto.
Qed.

(* every call of an admissible history succeeds on the values its target has at that moment *)
Theorem run_hist_ok eps aeps q ops : 0 <= aeps -> Forall hop_admissible ops ->
  forall s, hvalid aeps s ->
  hvalid aeps (fst (run_hist eps aeps q ops s)) /\ Forall (event_ok eps aeps q) (snd (run_hist eps aeps q ops s)).
Proof.
  intros Ha Hops. induction Hops as [|o ops Ho Hops IH]; intros s V; cbn [run_hist].
  - cbn. split; [exact V|constructor].
  - destruct (hstep_ok eps aeps q o s Ha Ho V) as [V1 E1].
    destruct (hstep eps aeps q o s) as [s1 ob]. cbn [fst snd] in V1, E1.
    destruct (IH s1 V1) as [V2 E2]. destruct (run_hist eps aeps q ops s1) as [s2 evs]. cbn [fst snd] in *.
    split; [exact V2|]. constructor; assumption.
Qed.

Theorem hist_ok eps aeps q cells ops : 0 <= aeps -> accepted aeps cells -> Forall hop_admissible ops ->
  hist eps aeps q cells ops = Some (map snd (snd (run_hist eps aeps q ops (hinit cells)))) /\
  hvalid aeps (fst (run_hist eps aeps q ops (hinit cells))) /\
  Forall (event_ok eps aeps q) (snd (run_hist eps aeps q ops (hinit cells))).
Proof.
  intros Ha Acc Hops. split.
  - unfold hist. unfold accepted in Acc. rewrite Acc. reflexivity.
  - apply run_hist_ok; [exact Ha|exact Hops|apply hinit_valid; exact Acc].
Qed.

(* ------------------------------------------------------------------ *)
(* 4. what setting a flag does, and what it means for the next call    *)
(* ------------------------------------------------------------------ *)
Lemma hget_hset id b s k : hget (hset_fixed id b s) k = map (hset_cell id b) (hget s k).
Proof.
  unfold hget, hset_fixed; cbn [hallocs]. rewrite map_length.
  change (@nil hcell) with (map (hset_cell id b) []) at 1. apply map_nth.
Qed.

Lemma accepted_nonempty aeps cells : accepted aeps cells -> cells <> [].
Proof. intro H. apply accepted_iff in H. apply H. Qed.

(* c.rect.fixed = b for the cell c of A[k] with centre (x, y): the state afterwards is the state before with the
   flag of every cell that shares the Rectangle object set to b - nothing else changes, in any allocation *)
Theorem hset_fixed_spec eps aeps q s k x y b hc : find (at_centre x y) (hget s k) = Some hc ->
  fst (hstep eps aeps q (HSetFixed k x y b) s) = hset_fixed (fst hc) b s /\
  In hc (hget s k) /\ centre_of (snd hc) = (x, y) /\
  In (fst hc, cset_fixed b (snd hc)) (hget (hset_fixed (fst hc) b s) k) /\
  Forall2 (Forall2 (fun c c' : hcell => fst c' = fst c /\
                      (if Nat.eqb (fst c) (fst hc) then snd c' = cset_fixed b (snd c) else snd c' = snd c)))
          (hallocs s) (hallocs (hset_fixed (fst hc) b s)).
Proof.
  intro E. pose proof (find_some _ _ E) as [Hin Hat]. split; [|split; [exact Hin|split; [|split]]].
  - cbn [hstep]. rewrite E. reflexivity.
  - unfold at_centre in Hat. apply andb_true_iff in Hat. destruct Hat as [A B]. qb2p. unfold centre_of. congruence.
  - rewrite hget_hset. apply in_map_iff. exists hc. split; [|exact Hin].
    unfold hset_cell. rewrite Nat.eqb_refl. reflexivity.
  - unfold hset_fixed; cbn [hallocs]. apply Forall2_map_r. intro l. apply Forall2_map_r. intro c.
    unfold hset_cell. destruct (Nat.eqb (fst c) (fst hc)); cbn [fst snd]; split; reflexivity.
Qed.

Lemma Forall2_nth_error_l {A B} (R : A -> B -> Prop) l1 l2 : Forall2 R l1 l2 ->
  forall n a, nth_error l1 n = Some a -> exists b, nth_error l2 n = Some b /\ R a b.
Proof.
  induction 1 as [|x y l1 l2 H F IH]; intros n a Hn; [destruct n; discriminate|].
  destruct n as [|n]; cbn in *.
  - injection Hn as <-. exists y. split; [reflexivity|exact H].
  - apply IH. exact Hn.
Qed.

(* after c.rect.fixed = True for a cell c of A[k], whatever refinement operation is applied to A[k] next succeeds
   and hands that cell over whole (its pieces are the cell itself), whatever was asked of A[k] before *)
Theorem set_fixed_true_not_cut eps aeps q s k x y o' hc : 0 <= aeps -> hvalid aeps s -> op_admissible o' ->
  find (at_centre x y) (hget s k) = Some hc ->
  let s1 := fst (hstep eps aeps q (HSetFixed k x y true) s) in
  let src := hvals (hget s1 k) in
  let c := cset_fixed true (snd hc) in
  fixed (crect c) = true /\
  exists j new parts, nth_error src j = Some c /\
    snd (hstep eps aeps q (HApply k o') s1) = ONew (Some new) /\
    new = concat parts /\ Forall2 cell_refines src parts /\ nth_error parts j = Some [c].
Proof.
  intros Ha V Ho E s1 src c. split; [reflexivity|].
  destruct (hset_fixed_spec eps aeps q s k x y true hc E) as (Hs & _ & _ & Hin & _).
  assert (V1 : hvalid aeps s1).
  { unfold s1. apply (hstep_ok eps aeps q (HSetFixed k x y true) s Ha I V). }
  pose proof (hget_accepted aeps s1 k V1) as Acc. fold src in Acc.
  destruct (htrans_ok eps aeps q o' (hnext s1) (hget s1 k) Ha Ho Acc) as (n & hl & Et & (Er & (parts & F & Ec) & A)).
  assert (Hc : In c src).
  { unfold src, s1. rewrite Hs. unfold hvals. apply in_map_iff. exists (fst hc, c). split; [reflexivity|exact Hin]. }
  apply In_nth_error in Hc. destruct Hc as (j & Hj).
  exists j, (hvals hl), parts. split; [exact Hj|]. split; [cbn [hstep]; rewrite Et; reflexivity|].
  split; [exact Ec|]. split; [exact F|].
  destruct (Forall2_nth_error_l _ _ _ F j _ Hj) as (ps & Hps & R). rewrite Hps. f_equal.
  apply (cr_fixed _ _ R). reflexivity.
Qed.

(* ------------------------------------------------------------------ *)
(* 5. the decisions of C12 at every state of a history                 *)
(* ------------------------------------------------------------------ *)
Lemma refine_some_cells aeps t levels cells new : refine aeps t levels cells = Some new ->
  (0 < levels)%nat /\ refine_cells t levels cells = Some new.
Proof.
  unfold refine. destruct levels as [|lv]; [discriminate|]. intro H. split; [lia|].
  destruct (refine_cells t (S lv) cells) as [x|]; [|discriminate].
  apply mk_allocation_some in H. subst. reflexivity.
Qed.

Theorem hist_mbr_iff_changes eps aeps q s k t levels : 0 <= aeps -> hvalid aeps s -> (0 < levels)%nat ->
  exists new, snd (hstep eps aeps q (HApply k (OpRefine t levels)) s) = ONew (Some new) /\
    (snd (hstep eps aeps q (HMbr k t) s) = OBool true <-> new <> hvals (hget s k)).
Proof.
  intros Ha V Hl. pose proof (hget_accepted aeps s k V) as Acc.
  destruct (htrans_ok eps aeps q (OpRefine t levels) (hnext s) (hget s k) Ha Hl Acc) as (n & hl & E & (Er & _ & _)).
  exists (hvals hl). split; [cbn [hstep]; rewrite E; reflexivity|].
  cbn [run_op] in Er. apply refine_some_cells in Er. destruct Er as [_ Er].
  pose proof (mbr_iff_changes t levels _ _ (accepted_wf _ _ Acc) Hl Er) as M.
  cbn [hstep snd]. split.
  - intro H. injection H as H. apply M. exact H.
  - intro H. f_equal. apply M. exact H.
Qed.

Theorem hist_refine_exact eps aeps q s k t levels : 0 <= aeps -> hvalid aeps s -> (0 < levels)%nat ->
  exists new parts, snd (hstep eps aeps q (HApply k (OpRefine t levels)) s) = ONew (Some new) /\
    new = concat parts /\ Forall2 (refine_cell_spec t levels) (hvals (hget s k)) parts.
Proof.
  intros Ha V Hl. pose proof (hget_accepted aeps s k V) as Acc.
  destruct (htrans_ok eps aeps q (OpRefine t levels) (hnext s) (hget s k) Ha Hl Acc) as (n & hl & E & (Er & _ & _)).
  cbn [run_op] in Er. apply refine_some_cells in Er. destruct Er as [_ Er].
  destruct (refine_exact t levels _ _ (accepted_wf _ _ Acc) Er) as (parts & Ec & F).
  exists (hvals hl), parts. split; [cbn [hstep]; rewrite E; reflexivity|]. split; assumption.
Qed.

Lemma min_depth_le cells c : In c cells -> (min_depth cells <= cdepth c)%nat.
Proof.
  destruct cells as [|c0 cells]; [intros []|]. cbn [min_depth].
  assert (G : forall d l, (fold_right (fun c m => Nat.min (cdepth c) m) d l <= d)%nat /\
                          forall x, In x l -> (fold_right (fun c m => Nat.min (cdepth c) m) d l <= cdepth x)%nat).
  { intros d l. induction l as [|y l [IH1 IH2]]; cbn [fold_right]; [split; [lia|intros x []]|].
    split; [lia|]. intros x [<-|Hx]; [lia|]. specialize (IH2 x Hx). lia. }
  destruct (G (cdepth c0) cells) as [G1 G2].
  intros [<-|H]; [exact G1|apply G2; exact H].
Qed.

Theorem hist_uniform_all_at_max eps aeps q s k : 0 <= aeps -> hvalid aeps s ->
  exists new, snd (hstep eps aeps q (HApply k OpUniform) s) = ONew (Some new) /\
    Forall (fun p => fixed (crect p) = false -> cdepth p = max_depth (hvals (hget s k))) new.
Proof.
  intros Ha V. pose proof (hget_accepted aeps s k V) as Acc.
  destruct (htrans_ok eps aeps q OpUniform (hnext s) (hget s k) Ha I Acc) as (n & hl & E & (Er & _ & _)).
  exists (hvals hl). split; [cbn [hstep]; rewrite E; reflexivity|].
  cbn [run_op] in Er. unfold uniform_refinement_depth in Er.
  destruct (Nat.eqb (max_depth (hvals (hget s k))) (min_depth (hvals (hget s k)))) eqn:D.
  - injection Er as <-. apply Nat.eqb_eq in D. apply Forall_forall. intros p Hp _.
    pose proof (max_depth_ge _ _ Hp). pose proof (min_depth_le _ _ Hp). lia.
  - destruct (uniform_cells (hvals (hget s k))) as [x|] eqn:U; [|discriminate].
    apply mk_allocation_some in Er. subst x.
    apply (uniform_all_at_max _ _ (accepted_wf _ _ Acc) U).
Qed.

Lemma accepted_in_quadrant aeps cells : accepted aeps cells -> in_quadrant cells = true.
Proof. intro H. apply accepted_iff in H. apply H. Qed.

Theorem hist_griddify_aligned eps aeps q s k : 0 <= aeps -> hvalid aeps s ->
  let cells := hvals (hget s k) in
  let xc := fst (gather_boundaries eps (map crect cells)) in
  let yc := snd (gather_boundaries eps (map crect cells)) in
  exists new, snd (hstep eps aeps q (HApply k OpGriddify) s) = ONew (Some new) /\
    Forall (fun f => fixed (crect f) = false ->
      (forall x, In x (interior xc) -> xmin (crect f) < x -> x < xmax (crect f) -> refused_x q x cells f) /\
      (forall y, In y (interior yc) -> ymin (crect f) < y -> y < ymax (crect f) -> refused_y q y cells f)) new.
Proof.
  intros Ha V cells xc yc. pose proof (hget_accepted aeps s k V) as Acc. fold cells in Acc.
  destruct (htrans_ok eps aeps q OpGriddify (hnext s) (hget s k) Ha I Acc) as (n & hl & E & (Er & _ & _)).
  exists (hvals hl). split; [cbn [hstep]; rewrite E; reflexivity|].
  cbn [run_op] in Er. unfold griddify in Er. fold cells in Er.
  destruct (griddify_cells eps q cells) as [x|] eqn:G; [|discriminate].
  apply mk_allocation_some in Er. subst x.
  apply (griddify_aligned eps q cells _ (accepted_wf _ _ Acc) (accepted_in_quadrant _ _ Acc) G).
Qed.

(* the states reached by admissible histories from an accepted allocation are valid, so all of the above
   holds after any such history *)
Theorem reach_valid eps aeps q cells ops : 0 <= aeps -> accepted aeps cells -> Forall hop_admissible ops ->
  hvalid aeps (fst (run_hist eps aeps q ops (hinit cells))).
Proof. intros Ha Acc Hops. apply (hist_ok eps aeps q cells ops Ha Acc Hops). Qed.

Theorem reach_mbr_iff_changes eps aeps q cells ops k t levels :
  0 <= aeps -> accepted aeps cells -> Forall hop_admissible ops -> (0 < levels)%nat ->
  let s := fst (run_hist eps aeps q ops (hinit cells)) in
  exists new, snd (hstep eps aeps q (HApply k (OpRefine t levels)) s) = ONew (Some new) /\
    (snd (hstep eps aeps q (HMbr k t) s) = OBool true <-> new <> hvals (hget s k)).
Proof.
  intros Ha Acc Hops Hl s. apply hist_mbr_iff_changes; [exact Ha| |exact Hl].
  apply reach_valid; assumption.
Qed.

(* non-vacuity: the history of the two seeded memo patches, on the model *)
Example ex_history :
  hist (qc 1 1048576) (qc 1 1024) (qc 1 100) ex_cells
       [HMbr 0 (qc 1 2); HSetFixed 0 (qc 1 1) (qc 1 1) true; HApply 0 (OpRefine (qc 1 2) 1); HMbr 0 (qc 1 2);
        HSetFixed 1 (qc 1 1) (qc 1 1) false; HMbr 0 (qc 1 2)] =
  Some [OBool true; OFixed [[(qc 1 1, qc 1 1); (qc 3 1, qc 1 1)]];
        ONew (Some (map (fun c => cset_fixed true c) ex_cells)); OBool false;
        OFixed [[(qc 3 1, qc 1 1)]; [(qc 3 1, qc 1 1)]]; OBool true].
Proof. vm_compute. reflexivity. Qed.
