(* Facts about histories on shared objects (Alloc/Hist.v):
   - setting fixed flags in place keeps every allocation of the history accepted (flag_rel_accepted);
   - hence every call of every admissible history succeeds, returns an accepted refinement of the values its
     target had at that moment (run_hist_ok), a cell flagged fixed is handed over whole by the next call
     (set_fixed_true_not_cut), and the decisions of C12 hold at every reachable state. *)
From FrameModel Require Import Num.QcTac Geometry.Rect Geometry.RectFacts Geometry.SplitFacts
  Alloc.Alloc Alloc.GeomExtra Alloc.RefinesFacts Alloc.AcceptFacts Alloc.OpsFacts Alloc.DecisionFacts
  Alloc.GriddifyFacts Alloc.Thr Alloc.ThrFacts Alloc.Hist.
From Coq Require Import Arith Lia.
Open Scope list_scope.
Open Scope Qc_scope.
Local Notation concat := List.concat.

Lemma mk_allocation_some aeps cells x : mk_allocation aeps cells = Some x -> x = cells.
Proof.
  unfold mk_allocation. destruct cells as [|c cells]; [discriminate|].
  match goal with |- (if ?b then _ else _) = _ -> _ => destruct b end; [|discriminate].
  intro H. injection H as <-. reflexivity.
Qed.

(* ------------------------------------------------------------------ *)
(* 1. flags do not matter to the constructor                           *)
(* ------------------------------------------------------------------ *)
(* same geometry and occupancy map (only fixed / hard / region / location may differ) *)
Definition geom_rel (c c' : cell) : Prop :=
  cx (crect c') = cx (crect c) /\ cy (crect c') = cy (crect c) /\
  rw (crect c') = rw (crect c) /\ rh (crect c') = rh (crect c) /\ calloc c' = calloc c.
(* the cell itself, or the cell with its fixed flag set *)
Definition flag_rel (c c' : cell) : Prop := c' = c \/ exists b, c' = cset_fixed b c.

Lemma flag_geom c c' : flag_rel c c' -> geom_rel c c'.
Proof. intros [->|(b & ->)]; unfold geom_rel; cbn; repeat split; reflexivity. Qed.

Lemma geom_rel_ov a a' b b' : geom_rel a a' -> geom_rel b b' ->
  area_overlap (crect a') (crect b') = area_overlap (crect a) (crect b).
Proof.
  intros (A1 & A2 & A3 & A4 & _) (B1 & B2 & B3 & B4 & _).
  unfold area_overlap, xmin, xmax, ymin, ymax. rewrite A1, A2, A3, A4, B1, B2, B3, B4. reflexivity.
Qed.

Lemma geom_rel_cell_ok c c' : geom_rel c c' -> cell_ok c = true -> cell_ok c' = true.
Proof. intros (_ & _ & A3 & A4 & A5). unfold cell_ok, wfb. rewrite A3, A4, A5. auto. Qed.

Lemma geom_rel_area_of m l l' : Forall2 geom_rel l l' -> area_of m l' = area_of m l.
Proof.
  unfold area_of. induction 1 as [|c c' l l' H F IH]; cbn [map Qcsum]; [reflexivity|].
  rewrite IH. destruct H as (_ & _ & A3 & A4 & A5). unfold ratio, area. rewrite A3, A4, A5. reflexivity.
Qed.

Lemma geom_rel_accepted aeps l l' : Forall2 geom_rel l l' -> accepted aeps l -> accepted aeps l'.
Proof.
  intros F Acc. apply accepted_iff in Acc. destruct Acc as (Hne & Hok & Hq & Hov & Hm).
  apply accepted_iff. split; [|split; [|split; [|split]]].
  - destruct F; [congruence|discriminate].
  - clear - F Hok. induction F as [|c c' l l' H F IH]; [constructor|]. inversion Hok; subst.
    constructor; [eapply geom_rel_cell_ok; eauto|auto].
  - clear - F Hq. unfold in_quadrant in *. induction F as [|c c' l l' H F IH]; [reflexivity|].
    cbn [forallb] in *. apply andb_true_iff in Hq. destruct Hq as [Hc Hq]. rewrite (IH Hq), andb_true_r.
    destruct H as (A1 & A2 & A3 & A4 & _). unfold xmin, ymin in *. rewrite A1, A2, A3, A4. exact Hc.
  - clear - F Hov. induction F as [|c c' l l' H F IH]; [exact I|]. cbn [pairwiseP] in *. destruct Hov as [Hc Hov].
    split; [|apply IH; exact Hov]. clear IH Hov. induction F as [|d d' l l' Hd F IH]; [constructor|].
    inversion Hc; subst. constructor; [|apply IH; assumption].
    unfold ov_le in *. rewrite (geom_rel_ov _ _ _ _ H Hd). assumption.
  - intros m Hin. rewrite (geom_rel_area_of m _ _ F). apply Hm.
    apply module_names_in in Hin. destruct Hin as (c' & Hc' & Hk).
    destruct (Forall2_In_r_ex _ _ _ F c' Hc') as (c & Hc & Hr).
    apply module_names_in. exists c. split; [exact Hc|]. destruct Hr as (_ & _ & _ & _ & A5). rewrite <- A5. exact Hk.
Qed.

(* setting fixed flags in place keeps an allocation accepted *)
Theorem flag_rel_accepted aeps l l' : Forall2 flag_rel l l' -> accepted aeps l -> accepted aeps l'.
Proof.
  intro F. apply geom_rel_accepted. eapply Forall2_impl_in; [exact F|]. intros a b _. apply flag_geom.
Qed.

(* what the flag changes about which cells may be cut *)
Lemma splittable_set_fixed_true t c : splittable_x t (cset_fixed true c) = false.
Proof. reflexivity. Qed.
Lemma splittable_set_fixed_false t c :
  splittable_x t (cset_fixed false c) = negb (is_empty (calloc c)) && forallb (fun p => le_thr (snd p) t) (calloc c).
Proof. reflexivity. Qed.

(* ------------------------------------------------------------------ *)
(* 2. the invariant of a history                                       *)
(* ------------------------------------------------------------------ *)
Definition hvalid (aeps : Qc) (s : hstate) : Prop := s <> [] /\ Forall (accepted aeps) s.

Lemma hget_in (s : hstate) k : s <> [] -> In (hget s k) s.
Proof.
  intro H. unfold hget. apply nth_In. apply Nat.mod_upper_bound. destruct s; [congruence|discriminate].
Qed.
Lemma hget_accepted aeps s k : hvalid aeps s -> accepted aeps (hget s k).
Proof. intros [Hne Hall]. rewrite Forall_forall in Hall. apply Hall. apply hget_in. exact Hne. Qed.

Lemma hinit_valid aeps cells : accepted aeps cells -> hvalid aeps (hinit cells).
Proof. intro A. split; [discriminate|]. constructor; [exact A|constructor]. Qed.

Definition op_ok_on (eps aeps q : Qc) (o : xop) (src new : list cell) : Prop :=
  run_xop eps aeps q o src = Some new /\ refines src new /\ accepted aeps new.

Lemma run_op_ok eps aeps q o cells : 0 <= aeps -> xop_admissible o -> accepted aeps cells ->
  exists new, op_ok_on eps aeps q o cells new.
Proof. intros Ha Ho Acc. unfold op_ok_on. apply run_xop_ok; assumption. Qed.

Definition hop_admissible (o : hop) : Prop :=
  match o with HApply _ o' => xop_admissible o' | _ => True end.

(* what an event of an admissible history looks like: [src] = the values of the target when the call was made *)
Definition event_ok (eps aeps q : Qc) (e : hevent) : Prop :=
  let '(o, src, ob) := e in
  accepted aeps src /\
  match o with
  | HApply _ o' => exists new, ob = ONew (Some new) /\ op_ok_on eps aeps q o' src new
  | HCopy _ => ob = ONew (Some src)
  | HSetFixed _ _ _ _ _ => (exists fl, ob = OFixed fl) \/ ob = OImpossible
  | HMbr _ t => ob = OBool (must_be_refined_x t src)
  | HMaxDepth _ => ob = ONat (max_depth src)
  | HNumRect _ => ob = ONat (List.length src)
  | HAreas _ => ob = OAreas (areas_of src)
  end.

Lemma reflag_alloc_flag fl l : Forall2 flag_rel l (reflag_alloc fl l).
Proof.
  unfold reflag_alloc. induction l as [|c l IH]; cbn [map]; constructor; [|exact IH].
  right. eexists. reflexivity.
Qed.

Lemma flags_ok_reflag c0 b : forall s after, flags_ok c0 b s (reflag after s) = true ->
  Forall2 (Forall2 flag_rel) s (reflag after s).
Proof.
  induction s as [|l r IH]; intros after H.
  - destruct after; cbn; constructor.
  - destruct after as [|fl after]; cbn [reflag] in *; [discriminate|]. cbn [flags_ok] in H.
    apply andb_true_iff in H. destruct H as [_ H]. constructor; [apply reflag_alloc_flag|apply IH; exact H].
Qed.

Lemma flag_rel_valid aeps s s' : Forall2 (Forall2 flag_rel) s s' -> hvalid aeps s -> hvalid aeps s'.
Proof.
  intros F [Hne Hall]. split.
  - destruct F; [congruence|discriminate].
  - clear Hne. induction F as [|l l' s s' Hl F IH]; [constructor|]. inversion Hall; subst.
    constructor; [eapply flag_rel_accepted; eauto|auto].
Qed.

Lemma hvalid_snoc aeps s new : hvalid aeps s -> accepted aeps new -> hvalid aeps (s ++ [new]).
Proof.
  intros [Hne Hall] A. split.
  - intro E. apply app_eq_nil in E. destruct E as [_ E]. discriminate.
  - apply Forall_app. split; [exact Hall|]. constructor; [exact A|constructor].
Qed.

Theorem hstep_ok eps aeps q o s : 0 <= aeps -> hop_admissible o -> hvalid aeps s ->
  hvalid aeps (fst (hstep eps aeps q o s)) /\
  event_ok eps aeps q (o, hget s (hop_target o), snd (hstep eps aeps q o s)).
Proof.
  intros Ha Ho V. destruct o as [k o'|k|k x y b after|k t|k|k|k]; cbn [hop_target hstep event_ok];
    pose proof (hget_accepted aeps s k V) as Acc.
  - cbn in Ho. destruct (run_op_ok eps aeps q o' (hget s k) Ha Ho Acc) as (new & Ok). pose proof Ok as (E & _ & A).
    rewrite E. cbn [fst snd]. split; [apply hvalid_snoc; assumption|].
    split; [exact Acc|]. exists new. split; [reflexivity|exact Ok].
  - unfold accepted in Acc. rewrite Acc. cbn [fst snd]. split; [apply hvalid_snoc; assumption|].
    split; [exact Acc|reflexivity].
  - destruct (find (at_centre x y) (hget s k)) as [c0|]; cbn [fst snd]; [|auto].
    destruct (flags_ok c0 b s (reflag after s)) eqn:F; cbn [andb fst snd]; [|auto].
    match goal with |- context [if ?c then _ else _] => destruct c end; cbn [fst snd]; [|auto].
    split; [|split; [exact Acc|left; eexists; reflexivity]].
    eapply flag_rel_valid; [apply (flags_ok_reflag c0 b); exact F|exact V].
  - cbn [fst snd]. auto.
  - cbn [fst snd]. auto.
  - cbn [fst snd]. auto.
  - cbn [fst snd]. auto.
Qed.

(* every call of an admissible history succeeds on the values its target has at that moment *)
Theorem run_hist_ok eps aeps q ops : 0 <= aeps -> Forall hop_admissible ops ->
  forall s, hvalid aeps s ->
  hvalid aeps (fst (run_hist eps aeps q ops s)) /\ Forall (event_ok eps aeps q) (snd (run_hist eps aeps q ops s)).
Proof.
  intros Ha Hops. induction Hops as [|o ops Ho Hops IH]; intros s V; cbn [run_hist].
  - cbn. split; [exact V|constructor].
  - destruct (hstep_ok eps aeps q o s Ha Ho V) as [V1 E1].
    destruct (hstep eps aeps q o s) as [s1 ob]. cbn [fst snd] in V1, E1.
    destruct (IH s1 V1) as [V2 E2]. destruct (run_hist eps aeps q ops s1) as [s2 evs]. cbn [fst snd] in *.
    split; [exact V2|]. constructor; assumption.
Qed.

Theorem hist_ok eps aeps q cells ops : 0 <= aeps -> accepted aeps cells -> Forall hop_admissible ops ->
  hist eps aeps q cells ops = Some (map snd (snd (run_hist eps aeps q ops (hinit cells)))) /\
  hvalid aeps (fst (run_hist eps aeps q ops (hinit cells))) /\
  Forall (event_ok eps aeps q) (snd (run_hist eps aeps q ops (hinit cells))).
Proof.
  intros Ha Acc Hops. split.
  - unfold hist. unfold accepted in Acc. rewrite Acc. reflexivity.
  - apply run_hist_ok; [exact Ha|exact Hops|apply hinit_valid; exact Acc].
Qed.

(* ------------------------------------------------------------------ *)
(* 3. what setting a flag does, and what it means for the next call    *)
(* ------------------------------------------------------------------ *)
Lemma cset_fixed_same c : cset_fixed (fixed (crect c)) c = c.
Proof. destruct c as [[] ? ?]. reflexivity. Qed.

(* the relation between a cell before and after  c0.rect.fixed = b : untouched, or - possibly, if it has the geometry
   of c0 - flagged b *)
Definition set_rel (c0 : cell) (b : bool) (c c' : cell) : Prop :=
  c' = c \/ (c' = cset_fixed b c /\ same_geom c0 c = true).

Lemma flags_ok_rel c0 b : forall s after, flags_ok c0 b s (reflag after s) = true ->
  Forall2 (Forall2 (set_rel c0 b)) s (reflag after s).
Proof.
  induction s as [|l r IH]; intros after H.
  - destruct after; cbn; constructor.
  - destruct after as [|fl after]; cbn [reflag] in *; [discriminate|]. cbn [flags_ok] in H.
    apply andb_true_iff in H. destruct H as [H H2]. apply andb_true_iff in H. destruct H as [_ H1].
    constructor; [|apply IH; exact H2]. clear IH H2. unfold reflag_alloc in *.
    induction l as [|c l IHl]; cbn [map combine forallb] in *; [constructor|].
    apply andb_true_iff in H1. destruct H1 as [Hc H1]. constructor; [|apply IHl; exact H1].
    cbn [fst snd] in Hc. unfold flag_ok in Hc. cbn [cset_fixed set_fixed crect fixed] in Hc.
    apply orb_true_iff in Hc. destruct Hc as [Hc|Hc].
    + left. apply Bool.eqb_prop in Hc. rewrite Hc. apply cset_fixed_same.
    + right. apply andb_true_iff in Hc. destruct Hc as [G Hb]. apply Bool.eqb_prop in Hb. rewrite Hb. split; [reflexivity|exact G].
Qed.

(* c.rect.fixed = b for the cell c of A[k] with centre (x, y): whichever allocations share that Rectangle object,
   afterwards that cell of A[k] carries the flag b, and every cell of every allocation is as it was or - possibly,
   if it has the geometry of c - carries the flag b too; nothing else changes *)
Theorem hset_fixed_spec eps aeps q s k x y b after s' fl :
  hstep eps aeps q (HSetFixed k x y b after) s = (s', OFixed fl) ->
  fl = hfixed s' /\
  exists c0 c1, find (at_centre x y) (hget s k) = Some c0 /\
    find (at_centre x y) (hget s' k) = Some c1 /\ fixed (crect c1) = b /\
    Forall2 (Forall2 (set_rel c0 b)) s s'.
Proof.
  cbn [hstep]. destruct (find (at_centre x y) (hget s k)) as [c0|]; [|discriminate].
  destruct (flags_ok c0 b s (reflag after s)) eqn:F; cbn [andb]; [|discriminate].
  destruct (find (at_centre x y) (hget (reflag after s) k)) as [c1|] eqn:E1; [|discriminate].
  destruct (Bool.eqb (fixed (crect c1)) b) eqn:B; [|discriminate].
  intro H. injection H as <- <-. split; [reflexivity|]. exists c0, c1.
  split; [reflexivity|]. split; [exact E1|]. split; [apply Bool.eqb_prop; exact B|].
  apply flags_ok_rel. exact F.
Qed.

Lemma Forall2_nth_error_l {A B} (R : A -> B -> Prop) l1 l2 : Forall2 R l1 l2 ->
  forall n a, nth_error l1 n = Some a -> exists b, nth_error l2 n = Some b /\ R a b.
Proof.
  induction 1 as [|x y l1 l2 H F IH]; intros n a Hn; [destruct n; discriminate|].
  destruct n as [|n]; cbn in *.
  - injection Hn as <-. exists y. split; [reflexivity|exact H].
  - apply IH. exact Hn.
Qed.

(* after c.rect.fixed = True for the cell c of A[k] at (x, y), whatever refinement operation is applied to A[k] next
   succeeds and hands that cell over whole (its pieces are the cell itself), whatever was asked of A[k] before *)
Theorem set_fixed_true_not_cut eps aeps q s k x y after o' s1 fl : 0 <= aeps -> hvalid aeps s -> xop_admissible o' ->
  hstep eps aeps q (HSetFixed k x y true after) s = (s1, OFixed fl) ->
  exists c j new parts, nth_error (hget s1 k) j = Some c /\ at_centre x y c = true /\ fixed (crect c) = true /\
    snd (hstep eps aeps q (HApply k o') s1) = ONew (Some new) /\
    new = concat parts /\ Forall2 cell_refines (hget s1 k) parts /\ nth_error parts j = Some [c].
Proof.
  intros Ha V Ho E.
  assert (V1 : hvalid aeps s1).
  { pose proof (hstep_ok eps aeps q (HSetFixed k x y true after) s Ha I V) as [V1 _]. rewrite E in V1. exact V1. }
  destruct (hset_fixed_spec _ _ _ _ _ _ _ _ _ _ _ E) as (_ & c0 & c1 & _ & E1 & Hf & _).
  pose proof (find_some _ _ E1) as [Hin Hat]. apply In_nth_error in Hin. destruct Hin as (j & Hj).
  pose proof (hget_accepted aeps s1 k V1) as Acc.
  destruct (run_op_ok eps aeps q o' (hget s1 k) Ha Ho Acc) as (new & Er & (parts & F & Ec) & A).
  exists c1, j, new, parts. split; [exact Hj|]. split; [exact Hat|]. split; [exact Hf|].
  split; [cbn [hstep]; rewrite Er; reflexivity|]. split; [exact Ec|]. split; [exact F|].
  destruct (Forall2_nth_error_l _ _ _ F j _ Hj) as (ps & Hps & R). rewrite Hps. f_equal.
  apply (cr_fixed _ _ R). exact Hf.
Qed.

(* ------------------------------------------------------------------ *)
(* 4. the decisions of C12 at every state of a history                 *)
(* ------------------------------------------------------------------ *)

Theorem hist_mbr_iff_changes eps aeps q s k t levels : 0 <= aeps -> hvalid aeps s -> (0 < levels)%nat ->
  exists new, snd (hstep eps aeps q (HApply k (XRefine t levels)) s) = ONew (Some new) /\
    (snd (hstep eps aeps q (HMbr k t) s) = OBool true <-> new <> hget s k).
Proof.
  intros Ha V Hl. pose proof (hget_accepted aeps s k V) as Acc.
  destruct (run_op_ok eps aeps q (XRefine t levels) (hget s k) Ha Hl Acc) as (new & Er & _ & _).
  exists new. split; [cbn [hstep]; rewrite Er; reflexivity|].
  cbn [run_xop] in Er. apply refine_x_some_cells in Er. destruct Er as [_ Er].
  pose proof (mbr_x_iff_changes t levels _ _ (accepted_wf _ _ Acc) Hl Er) as M.
  cbn [hstep snd]. split.
  - intro H. injection H as H. apply M. exact H.
  - intro H. f_equal. apply M. exact H.
Qed.

Theorem hist_refine_exact eps aeps q s k t levels : 0 <= aeps -> hvalid aeps s -> (0 < levels)%nat ->
  exists new parts, snd (hstep eps aeps q (HApply k (XRefine t levels)) s) = ONew (Some new) /\
    new = concat parts /\ Forall2 (refine_cell_spec_x t levels) (hget s k) parts.
Proof.
  intros Ha V Hl. pose proof (hget_accepted aeps s k V) as Acc.
  destruct (run_op_ok eps aeps q (XRefine t levels) (hget s k) Ha Hl Acc) as (new & Er & _ & _).
  pose proof Er as Er'. cbn [run_xop] in Er'. apply refine_x_some_cells in Er'. destruct Er' as [_ Er'].
  destruct (refine_x_exact t levels _ _ (accepted_wf _ _ Acc) Er') as (parts & Ec & F).
  exists new, parts. split; [cbn [hstep]; rewrite Er; reflexivity|]. split; assumption.
Qed.

Lemma min_depth_le cells c : In c cells -> (min_depth cells <= cdepth c)%nat.
Proof.
  destruct cells as [|c0 cells]; [intros []|]. cbn [min_depth].
  assert (G : forall d l, (fold_right (fun c m => Nat.min (cdepth c) m) d l <= d)%nat /\
                          forall x, In x l -> (fold_right (fun c m => Nat.min (cdepth c) m) d l <= cdepth x)%nat).
  { intros d l. induction l as [|y l [IH1 IH2]]; cbn [fold_right]; [split; [lia|intros x []]|].
    split; [lia|]. intros x [<-|Hx]; [lia|]. specialize (IH2 x Hx). lia. }
  destruct (G (cdepth c0) cells) as [G1 G2].
  intros [<-|H]; [exact G1|apply G2; exact H].
Qed.

Theorem hist_uniform_all_at_max eps aeps q s k : 0 <= aeps -> hvalid aeps s ->
  exists new, snd (hstep eps aeps q (HApply k XUniform) s) = ONew (Some new) /\
    Forall (fun p => fixed (crect p) = false -> cdepth p = max_depth (hget s k)) new.
Proof.
  intros Ha V. pose proof (hget_accepted aeps s k V) as Acc.
  destruct (run_op_ok eps aeps q XUniform (hget s k) Ha I Acc) as (new & Er & _ & _).
  exists new. split; [cbn [hstep]; rewrite Er; reflexivity|].
  cbn [run_xop] in Er. unfold uniform_refinement_depth in Er.
  destruct (Nat.eqb (max_depth (hget s k)) (min_depth (hget s k))) eqn:D.
  - injection Er as <-. apply Nat.eqb_eq in D. apply Forall_forall. intros p Hp _.
    pose proof (max_depth_ge _ _ Hp). pose proof (min_depth_le _ _ Hp). lia.
  - destruct (uniform_cells (hget s k)) as [x|] eqn:U; [|discriminate].
    apply mk_allocation_some in Er. subst x.
    apply (uniform_all_at_max _ _ (accepted_wf _ _ Acc) U).
Qed.

Lemma accepted_in_quadrant aeps cells : accepted aeps cells -> in_quadrant cells = true.
Proof. intro H. apply accepted_iff in H. apply H. Qed.

Theorem hist_griddify_aligned eps aeps q s k : 0 <= aeps -> hvalid aeps s ->
  let cells := hget s k in
  let xc := fst (gather_boundaries eps (map crect cells)) in
  let yc := snd (gather_boundaries eps (map crect cells)) in
  exists new, snd (hstep eps aeps q (HApply k XGriddify) s) = ONew (Some new) /\
    Forall (fun f => fixed (crect f) = false ->
      (forall x, In x (interior xc) -> xmin (crect f) < x -> x < xmax (crect f) -> refused_x q x cells f) /\
      (forall y, In y (interior yc) -> ymin (crect f) < y -> y < ymax (crect f) -> refused_y q y cells f)) new.
Proof.
  intros Ha V cells xc yc. pose proof (hget_accepted aeps s k V) as Acc. fold cells in Acc.
  destruct (run_op_ok eps aeps q XGriddify cells Ha I Acc) as (new & Er & _ & _).
  exists new. split; [cbn [hstep]; fold cells; rewrite Er; reflexivity|].
  cbn [run_xop] in Er. unfold griddify in Er.
  destruct (griddify_cells eps q cells) as [x|] eqn:G; [|discriminate].
  apply mk_allocation_some in Er. subst x.
  apply (griddify_aligned eps q cells _ (accepted_wf _ _ Acc) (accepted_in_quadrant _ _ Acc) G).
Qed.

(* the states reached by admissible histories from an accepted allocation are valid, so all of the above
   holds after any such history *)
Theorem reach_valid eps aeps q cells ops : 0 <= aeps -> accepted aeps cells -> Forall hop_admissible ops ->
  hvalid aeps (fst (run_hist eps aeps q ops (hinit cells))).
Proof. intros Ha Acc Hops. apply (hist_ok eps aeps q cells ops Ha Acc Hops). Qed.

Theorem reach_mbr_iff_changes eps aeps q cells ops k t levels :
  0 <= aeps -> accepted aeps cells -> Forall hop_admissible ops -> (0 < levels)%nat ->
  let s := fst (run_hist eps aeps q ops (hinit cells)) in
  exists new, snd (hstep eps aeps q (HApply k (XRefine t levels)) s) = ONew (Some new) /\
    (snd (hstep eps aeps q (HMbr k t) s) = OBool true <-> new <> hget s k).
Proof.
  intros Ha Acc Hops Hl s. apply hist_mbr_iff_changes; [exact Ha| |exact Hl].
  apply reach_valid; assumption.
Qed.

(* non-vacuity: the history of the two seeded memo patches, on the model; the last assignment is made through the
   derived allocation and is observed in both (shared Rectangle object) *)
Example ex_history :
  hist (qc 1 1048576) (qc 1 1024) (qc 1 100) ex_cells
       [HMbr 0 (qc 1 2); HSetFixed 0 (qc 1 1) (qc 1 1) true [[(qc 1 1, qc 1 1); (qc 3 1, qc 1 1)]];
        HApply 0 (XRefine (qc 1 2) 1); HMbr 0 (qc 1 2);
        HSetFixed 1 (qc 1 1) (qc 1 1) false [[(qc 3 1, qc 1 1)]; [(qc 3 1, qc 1 1)]]; HMbr 0 (qc 1 2);
        HSetFixed 1 (qc 1 1) (qc 1 1) true [[(qc 3 1, qc 1 1)]; [(qc 1 1, qc 1 1); (qc 3 1, qc 1 1)]]; HMbr 0 (qc 1 2);
        HSetFixed 1 (qc 1 1) (qc 1 1) true [[(qc 1 1, qc 1 1)]; [(qc 1 1, qc 1 1); (qc 3 1, qc 1 1)]]] =
  Some [OBool true; OFixed [[(qc 1 1, qc 1 1); (qc 3 1, qc 1 1)]];
        ONew (Some (map (fun c => cset_fixed true c) ex_cells)); OBool false;
        OFixed [[(qc 3 1, qc 1 1)]; [(qc 3 1, qc 1 1)]]; OBool true;
        OFixed [[(qc 3 1, qc 1 1)]; [(qc 1 1, qc 1 1); (qc 3 1, qc 1 1)]]; OBool true;
        OImpossible].
Proof. vm_compute. reflexivity. Qed.
