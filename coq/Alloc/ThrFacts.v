(* Facts about refinement at an extended threshold (Alloc/Thr.v): a finite value, +inf, -inf or NaN.
   - on finite thresholds the extended functions ARE the functions of Alloc.v (by computation);
   - C02: refine_x at any threshold is a refinement accepted by the constructor; compositions;
   - C12: must_be_refined_x t <-> refine_x t changes the allocation, exact selection of the cells, for EVERY
     extended threshold; the refine-while-needed loop never stalls;
   - the extreme thresholds on an accepted allocation: +inf (and any t >= 1) selects every occupied refinable cell;
     -inf, NaN (and any t < 0) select nothing. *)
From FrameModel Require Import Num.QcTac Geometry.Rect Geometry.RectFacts Geometry.SplitFacts
  Alloc.Alloc Alloc.GeomExtra Alloc.RefinesFacts Alloc.AcceptFacts Alloc.OpsFacts Alloc.DecisionFacts Alloc.Thr.
From Coq Require Import Arith Lia.
Open Scope list_scope.
Open Scope Qc_scope.
Local Notation concat := List.concat.

(* ---- finite thresholds: nothing new ---- *)
Lemma le_thr_fin x t : le_thr x (TFin t) = Qcleb x t.
Proof. reflexivity. Qed.
Lemma splittable_x_fin t c : splittable_x (TFin t) c = splittable t c.
Proof. reflexivity. Qed.
Lemma refine_cells_x_fin t levels cells : refine_cells_x (TFin t) levels cells = refine_cells t levels cells.
Proof. reflexivity. Qed.
Lemma refine_x_fin aeps t levels cells : refine_x aeps (TFin t) levels cells = refine aeps t levels cells.
Proof. reflexivity. Qed.
Lemma must_be_refined_x_fin t cells : must_be_refined_x (TFin t) cells = must_be_refined t cells.
Proof. reflexivity. Qed.
Lemma run_xop_of_op eps aeps q o cells : run_xop eps aeps q (xop_of_op o) cells = run_op eps aeps q o cells.
Proof. destruct o; reflexivity. Qed.
Lemma run_xops_of_ops eps aeps q ops cells :
  run_xops eps aeps q (map xop_of_op ops) cells = run_ops eps aeps q ops cells.
Proof.
  unfold run_xops, run_ops. generalize (Some cells). induction ops as [|o ops IH]; intro acc; cbn [map fold_left]; [reflexivity|].
  rewrite IH. f_equal. destruct acc; [apply run_xop_of_op|reflexivity].
Qed.

(* ---- C02: refine at any extended threshold ---- *)
Lemma splittable_x_not_fixed t c : splittable_x t c = true -> fixed (crect c) = false.
Proof.
  unfold splittable_x. intro H. apply andb_true_iff in H. destruct H as [H _]. apply andb_true_iff in H.
  destruct H as [H _]. apply negb_true_iff in H. exact H.
Qed.

Lemma refine_cells_x_refines t levels cells : Forall (fun c => wf (crect c)) cells ->
  exists new, refine_cells_x t levels cells = Some new /\ refines cells new.
Proof.
  intro W. unfold refine_cells_x. apply map_step_refines; [|exact W].
  intros c Wc. destruct (splittable_x t c) eqn:E.
  - destruct (split_alloc_refines levels (crect c) (calloc c) (cdepth c) Wc (or_intror (splittable_x_not_fixed _ _ E)))
      as (ps & S & R & _). exists ps. rewrite cell_eta in R. auto.
  - destruct (split_alloc_refines 0 (crect c) (calloc c) (cdepth c) Wc (or_introl eq_refl)) as (ps & S & R & _).
    exists ps. rewrite cell_eta in R. auto.
Qed.

Theorem refine_x_ok aeps t levels cells : 0 <= aeps -> (0 < levels)%nat -> accepted aeps cells ->
  exists new, refine_x aeps t levels cells = Some new /\ refines cells new /\ accepted aeps new.
Proof.
  intros Ha Hl Acc. destruct (refine_cells_x_refines t levels cells (accepted_wf _ _ Acc)) as (new & E & R).
  exists new. unfold refine_x. destruct levels; [lia|]. rewrite E.
  pose proof (refines_accepted aeps cells new Ha Acc R) as A. split; [exact A|]. split; assumption.
Qed.

Definition xop_admissible (o : xop) : Prop :=
  match o with XRefine _ l => (0 < l)%nat | _ => True end.

Lemma run_xop_ok eps aeps q o cells : 0 <= aeps -> xop_admissible o -> accepted aeps cells ->
  exists new, run_xop eps aeps q o cells = Some new /\ refines cells new /\ accepted aeps new.
Proof.
  intros Ha Ho Acc. destruct o as [t l| |]; cbn [run_xop].
  - apply refine_x_ok; assumption.
  - apply uniform_ok; assumption.
  - apply griddify_ok; assumption.
Qed.

Theorem run_xops_ok eps aeps q ops : 0 <= aeps -> Forall xop_admissible ops ->
  forall cells, accepted aeps cells ->
  exists new, run_xops eps aeps q ops cells = Some new /\ refines cells new /\ accepted aeps new.
Proof.
  intros Ha Hops. unfold run_xops. induction Hops as [|o ops Ho Hops IH]; intros cells Acc; cbn [fold_left].
  - exists cells. split; [reflexivity|]. split; [apply refines_refl; apply (accepted_wf _ _ Acc)|exact Acc].
  - destruct (run_xop_ok eps aeps q o cells Ha Ho Acc) as (mid & E & R & A). rewrite E.
    destruct (IH mid A) as (new & E' & R' & A').
    exists new. split; [exact E'|]. split; [eapply refines_trans; eauto|exact A'].
Qed.

(* ---- C12: decisions at any extended threshold ---- *)
Definition refine_cell_spec_x (t : thr) (levels : nat) (c : cell) (ps : list cell) : Prop :=
  if splittable_x t c then
    List.length ps = (2 ^ levels)%nat /\ cell_refines c ps /\
    Forall (fun p => cdepth p = (cdepth c + levels)%nat /\ carea p = carea c * hpow levels /\
                     calloc p = calloc c) ps /\
    split_alloc (crect c) (calloc c) (cdepth c) levels = Some ps
  else ps = [c].

Theorem refine_x_exact t levels cells new : Forall (fun c => wf (crect c)) cells ->
  refine_cells_x t levels cells = Some new ->
  exists parts, new = concat parts /\ Forall2 (refine_cell_spec_x t levels) cells parts.
Proof.
  intros W H. unfold refine_cells_x in H. apply concat_opt_map_inv in H. destruct H as (parts & F & ->).
  exists parts. split; [reflexivity|]. revert W. induction F as [|c ps cells parts Hc F IH]; intro W; constructor.
  - inversion W as [|? ? Wc W']; subst. unfold refine_cell_spec_x. destruct (splittable_x t c) eqn:E.
    + destruct (split_alloc_refines levels (crect c) (calloc c) (cdepth c) Wc (or_intror (splittable_x_not_fixed _ _ E)))
        as (ps' & S' & R & L & P). rewrite S' in Hc. injection Hc as <-. rewrite cell_eta in R.
      split; [exact L|]. split; [exact R|]. split; [|exact S'].
      pose proof (cr_alloc _ _ R) as Al. rewrite Forall_forall in *. intros p Hp. destruct (P p Hp) as [P1 P2].
      split; [exact P1|]. split; [exact P2|]. apply Al. exact Hp.
    + cbn [split_alloc] in Hc. injection Hc as <-. rewrite cell_eta. reflexivity.
  - apply IH. inversion W; assumption.
Qed.

Theorem mbr_x_false_identity t levels cells :
  must_be_refined_x t cells = false -> refine_cells_x t levels cells = Some cells.
Proof.
  unfold must_be_refined_x, refine_cells_x. induction cells as [|c cells IH]; cbn [existsb map concat_opt]; [reflexivity|].
  intro H. apply orb_false_iff in H. destruct H as [Hc H]. rewrite Hc. cbn [split_alloc]. rewrite (IH H), cell_eta. reflexivity.
Qed.

Theorem mbr_x_true_progress t levels cells new : Forall (fun c => wf (crect c)) cells -> (0 < levels)%nat ->
  must_be_refined_x t cells = true -> refine_cells_x t levels cells = Some new ->
  (List.length cells < List.length new)%nat.
Proof.
  intros W Hl M H. destruct (refine_x_exact t levels cells new W H) as (parts & -> & F).
  unfold must_be_refined_x in M. clear H W.
  assert (G : (List.length cells <= List.length (concat parts))%nat /\
              (existsb (splittable_x t) cells = true -> (List.length cells < List.length (concat parts))%nat)).
  { clear M. induction F as [|c ps cells parts Hc F [IH1 IH2]]; cbn [concat List.length existsb]; [split; [lia|discriminate]|].
    rewrite app_length. unfold refine_cell_spec_x in Hc. destruct (splittable_x t c) eqn:E.
    - destruct Hc as (L & _). pose proof (pow2_ge2 levels Hl). cbn [orb]. split; [lia|intros _; lia].
    - subst ps. cbn [List.length orb]. split; [lia|]. intro H. specialize (IH2 H). lia. }
  apply G. exact M.
Qed.

(* must_be_refined is exactly "refining changes the allocation", whatever the threshold is *)
Theorem mbr_x_iff_changes t levels cells new : Forall (fun c => wf (crect c)) cells -> (0 < levels)%nat ->
  refine_cells_x t levels cells = Some new ->
  (must_be_refined_x t cells = true <-> new <> cells).
Proof.
  intros W Hl H. split.
  - intros M E. subst new. pose proof (mbr_x_true_progress t levels cells cells W Hl M H). lia.
  - intro Hne. destruct (must_be_refined_x t cells) eqn:M; [reflexivity|].
    rewrite (mbr_x_false_identity t levels cells M) in H. congruence.
Qed.

(* the public calls on an accepted allocation *)
Lemma mk_allocation_some' aeps cells x : mk_allocation aeps cells = Some x -> x = cells.
Proof.
  unfold mk_allocation. destruct cells as [|c cells]; [discriminate|].
  match goal with |- (if ?b then _ else _) = _ -> _ => destruct b end; [|discriminate].
  intro H. injection H as <-. reflexivity.
Qed.
Lemma refine_x_some_cells aeps t levels cells new : refine_x aeps t levels cells = Some new ->
  (0 < levels)%nat /\ refine_cells_x t levels cells = Some new.
Proof.
  unfold refine_x. destruct levels as [|lv]; [discriminate|]. intro H. split; [lia|].
  destruct (refine_cells_x t (S lv) cells) as [x|]; [|discriminate].
  apply mk_allocation_some' in H. subst. reflexivity.
Qed.

Theorem refine_x_mbr_iff_changes aeps t levels cells : 0 <= aeps -> (0 < levels)%nat -> accepted aeps cells ->
  exists new, refine_x aeps t levels cells = Some new /\ (must_be_refined_x t cells = true <-> new <> cells).
Proof.
  intros Ha Hl Acc. destruct (refine_x_ok aeps t levels cells Ha Hl Acc) as (new & E & _ & _).
  exists new. split; [exact E|]. apply refine_x_some_cells in E. destruct E as [_ E].
  apply (mbr_x_iff_changes t levels cells new (accepted_wf _ _ Acc) Hl E).
Qed.

(* ---- the refine-while-needed loop never stalls: it stops exactly when nothing must be refined, never raises,
   and every round it makes adds at least one cell ---- *)
Theorem refine_loop_progress aeps t levels : 0 <= aeps -> (0 < levels)%nat -> forall fuel cells, accepted aeps cells ->
  match refine_loop fuel aeps t levels cells with
  | LoopDone out => accepted aeps out /\ must_be_refined_x t out = false /\ refines cells out /\
                    refine_x aeps t levels out = Some out
  | LoopRaised => False
  | LoopOutOfFuel out => accepted aeps out /\ refines cells out /\ (List.length cells + fuel <= List.length out)%nat
  end.
Proof.
  intros Ha Hl. induction fuel as [|f IH]; intros cells Acc; cbn [refine_loop].
  - split; [exact Acc|]. split; [apply refines_refl; apply (accepted_wf _ _ Acc)|lia].
  - destruct (must_be_refined_x t cells) eqn:M.
    + destruct (refine_x_ok aeps t levels cells Ha Hl Acc) as (new & E & R & A). rewrite E.
      pose proof E as E'. apply refine_x_some_cells in E'. destruct E' as [_ E'].
      pose proof (mbr_x_true_progress t levels cells new (accepted_wf _ _ Acc) Hl M E') as P.
      specialize (IH new A). destruct (refine_loop f aeps t levels new) as [out| |out].
      * destruct IH as (A1 & M1 & R1 & I1). split; [exact A1|]. split; [exact M1|]. split; [eapply refines_trans; eauto|exact I1].
      * exact IH.
      * destruct IH as (A1 & R1 & L1). split; [exact A1|]. split; [eapply refines_trans; eauto|lia].
    + split; [exact Acc|]. split; [exact M|]. split; [apply refines_refl; apply (accepted_wf _ _ Acc)|].
      unfold refine_x. destruct levels; [lia|]. rewrite (mbr_x_false_identity t (S levels) cells M). exact Acc.
Qed.

(* ---- the extreme thresholds on an accepted allocation (every ratio is in [0, 1]) ---- *)
Lemma accepted_ratios aeps cells c p : accepted aeps cells -> In c cells -> In p (calloc c) -> 0 <= snd p /\ snd p <= 1.
Proof.
  intros Acc Hc Hp. apply accepted_iff in Acc. destruct Acc as (_ & CK & _). rewrite Forall_forall in CK.
  specialize (CK c Hc). unfold cell_ok in CK. apply andb_true_iff in CK. destruct CK as [_ AK].
  unfold alloc_ok in AK. apply andb_true_iff in AK. destruct AK as [AK _]. rewrite forallb_forall in AK.
  specialize (AK p Hp). apply andb_true_iff in AK. destruct AK as [AK H1]. apply andb_true_iff in AK. destruct AK as [_ H0].
  qb2p. split; assumption.
Qed.

(* what is selected at a threshold that no ratio can exceed: every refinable occupied cell *)
Definition occupied_refinable (c : cell) : bool := negb (fixed (crect c)) && negb (is_empty (calloc c)).

Lemma forallb_ext_in {A} (f g : A -> bool) l : (forall x, In x l -> f x = g x) -> forallb f l = forallb g l.
Proof.
  induction l as [|a l IH]; intro H; cbn [forallb]; [reflexivity|].
  rewrite (H a (or_introl eq_refl)), IH; [reflexivity|]. intros x Hx. apply H. right. exact Hx.
Qed.

Theorem splittable_x_top aeps cells c t : accepted aeps cells -> In c cells ->
  t = TPosInf \/ (exists q, t = TFin q /\ 1 <= q) -> splittable_x t c = occupied_refinable c.
Proof.
  intros Acc Hc Ht. unfold splittable_x, occupied_refinable.
  replace (forallb (fun p => le_thr (snd p) t) (calloc c)) with true; [apply andb_true_r|].
  symmetry. apply forallb_forall. intros p Hp. destruct (accepted_ratios aeps cells c p Acc Hc Hp) as [_ H1].
  destruct Ht as [->|(q & -> & Hq)]; cbn [le_thr]; [reflexivity|]. qb2p. qlra.
Qed.

(* ... and at a threshold below every ratio: nothing *)
Theorem splittable_x_bottom aeps cells c t : accepted aeps cells -> In c cells ->
  t = TNegInf \/ t = TNan \/ (exists q, t = TFin q /\ q < 0) -> splittable_x t c = false.
Proof.
  intros Acc Hc Ht. unfold splittable_x. destruct (calloc c) as [|p al] eqn:Eal.
  - destruct (fixed (crect c)); reflexivity.
  - cbn [forallb]. replace (le_thr (snd p) t) with false; [cbn [andb]; apply andb_false_r|].
    assert (Hp : In p (calloc c)) by (rewrite Eal; left; reflexivity).
    destruct (accepted_ratios aeps cells c p Acc Hc Hp) as [H0 _].
    destruct Ht as [->|[->|(q & -> & Hq)]]; cbn [le_thr]; try reflexivity.
    symmetry. destruct (Qcleb (snd p) q) eqn:E; [|reflexivity]. qb2p. exfalso. qlra.
Qed.

Lemma existsb_false_in {A} (f : A -> bool) l : (forall x, In x l -> f x = false) -> existsb f l = false.
Proof.
  induction l as [|a l IH]; intro H; cbn [existsb]; [reflexivity|].
  rewrite (H a (or_introl eq_refl)), IH; [reflexivity|]. intros x Hx. apply H. right. exact Hx.
Qed.
Lemma existsb_ext_in {A} (f g : A -> bool) l : (forall x, In x l -> f x = g x) -> existsb f l = existsb g l.
Proof.
  induction l as [|a l IH]; intro H; cbn [existsb]; [reflexivity|].
  rewrite (H a (or_introl eq_refl)), IH; [reflexivity|]. intros x Hx. apply H. right. exact Hx.
Qed.

(* must_be_refined(+inf) (or any threshold >= 1) asks for refinement exactly when some refinable cell is occupied:
   an EMPTY cell never makes it true *)
Theorem mbr_x_top aeps cells t : accepted aeps cells -> t = TPosInf \/ (exists q, t = TFin q /\ 1 <= q) ->
  must_be_refined_x t cells = existsb occupied_refinable cells.
Proof.
  intros Acc Ht. unfold must_be_refined_x. apply existsb_ext_in. intros c Hc. apply (splittable_x_top aeps cells c t Acc Hc Ht).
Qed.

(* must_be_refined(-inf), must_be_refined(nan), must_be_refined(t < 0) are False and refining there is the identity *)
Theorem mbr_x_bottom aeps cells t levels : accepted aeps cells ->
  t = TNegInf \/ t = TNan \/ (exists q, t = TFin q /\ q < 0) ->
  must_be_refined_x t cells = false /\ refine_cells_x t levels cells = Some cells.
Proof.
  intros Acc Ht.
  assert (M : must_be_refined_x t cells = false).
  { unfold must_be_refined_x. apply existsb_false_in. intros c Hc. apply (splittable_x_bottom aeps cells c t Acc Hc Ht). }
  split; [exact M|apply mbr_x_false_identity; exact M].
Qed.

(* non-vacuity, and the configuration of the seeded change C12/r3-1: an allocation whose only refinable cell is empty;
   at +inf nothing must be refined, refining is the identity and the loop stops at once *)
Definition ex_empty_cells : list cell :=
  [mkCell (mkRect (qc 2 1) (qc 2 1) (qc 4 1) (qc 4 1) false false "_" NOPOLY) [] 0;
   mkCell (mkRect (qc 6 1) (qc 2 1) (qc 4 1) (qc 4 1) true true "_" NOPOLY) [("FX"%string, qc 1 1)] 0].
Example ex_empty_inf : accepted (qc 1 1024) ex_empty_cells /\
  must_be_refined_x TPosInf ex_empty_cells = false /\
  refine_x (qc 1 1024) TPosInf 16 ex_empty_cells = Some ex_empty_cells /\
  refine_loop 3 (qc 1 1024) TPosInf 1 ex_empty_cells = LoopDone ex_empty_cells /\
  must_be_refined_x TPosInf ex_cells = true /\ must_be_refined_x TNegInf ex_cells = false /\
  must_be_refined_x TNan ex_cells = false /\
  match refine_x (qc 1 1024) TPosInf 2 ex_cells with Some new => List.length new = 5%nat | None => False end.
Proof. repeat split; vm_compute; reflexivity. Qed.
