(* Facts about Die/NetHistory.v: a construction is handed the fixed rectangles the modules have NOW. *)
From FrameModel Require Import Num.QcTac Geometry.Rect Die.DieInput Die.DieInputFacts Die.NetHistory.
From Coq Require Import String List Bool.
Import ListNotations.
Open Scope Qc_scope.

(* reads leave the netlist as it is *)
Lemma apply_read op st : is_read op = true -> apply_op op st = Some st.
Proof. destruct op; cbn; try discriminate; reflexivity. Qed.

Lemma run_ops_app a b st :
  run_ops (a ++ b) st = match run_ops a st with Some st' => run_ops b st' | None => None end.
Proof.
  revert st. induction a as [|op a IH]; intro st; cbn [app run_ops]; [reflexivity|].
  destruct (apply_op op st) as [st'|]; [apply IH | reflexivity].
Qed.

Lemma run_ops_reads ops st : forallb is_read ops = true -> run_ops ops st = Some st.
Proof.
  revert st. induction ops as [|op ops IH]; intros st H; cbn [run_ops]; [reflexivity|].
  cbn [forallb] in H. apply andb_true_iff in H. destruct H as [H1 H2].
  rewrite (apply_read _ _ H1). apply IH. exact H2.
Qed.

(* a history splits anywhere: the later part runs on the netlist the earlier part left *)
Theorem nsession_app A (f : die_input -> list Rect -> A) d a b st :
  nsession f d st (a ++ b) =
  match nsession f d st a, run_ops a st with
  | Some xs, Some st' => option_map (app xs) (nsession f d st' b)
  | _, _ => None
  end.
Proof.
  revert st. induction a as [|op a IH]; intro st; cbn [app nsession run_ops].
  - destruct (nsession f d st b); reflexivity.
  - destruct (apply_op op st) as [st'|]; [|reflexivity].
    specialize (IH st').
    destruct op; try exact IH.
    rewrite IH. destruct (nsession f d st' a) as [xs|]; cbn [option_map]; [|reflexivity].
    destruct (run_ops a st') as [st''|]; [|reflexivity].
    destruct (nsession f d st'' b); reflexivity.
Qed.

(* THE point: whatever happened to the netlist before, a construction is handed the fixed rectangles of the
   modules as they are at that moment *)
Theorem nsession_die_current A (f : die_input -> list Rect -> A) d st pre st' outs b :
  run_ops pre st = Some st' -> nsession f d st pre = Some outs ->
  nsession f d st (pre ++ [ODie b]) = Some (outs ++ [f d (seen_fixed st' b)]).
Proof.
  intros H1 H2. rewrite nsession_app, H1, H2. reflexivity.
Qed.

(* a history of reads only (constructions, netlist.rectangles, ...) is DieInput.session on the netlist's fixed rectangles *)
Theorem nsession_reads_only A (f : die_input -> list Rect -> A) d st ops :
  forallb is_read ops = true ->
  nsession f d st ops = Some (session f (mkObjs d (net_fixed st)) (dies_of ops)).
Proof.
  induction ops as [|op ops IH]; intro H; cbn [nsession]; [reflexivity|].
  cbn [forallb] in H. apply andb_true_iff in H. destruct H as [H1 H2].
  rewrite (apply_read _ _ H1). destruct op; try discriminate; cbn [dies_of flat_map app].
  - apply IH. exact H2.
  - fold (dies_of ops). rewrite (IH H2). reflexivity.
Qed.

(* ---- what each mutator does to the fixed rectangles ---- *)
Lemma net_fixed_on_module n f st :
  net_fixed (on_module n f st) =
  flat_map (fun m => let m' := if named n m then f m else m in
                     if m_fixed m' then map fixed_rect (m_rects m') else []) st.
Proof.
  unfold net_fixed, on_module. induction st as [|m st IH]; cbn [map flat_map]; [reflexivity|].
  rewrite IH. reflexivity.
Qed.

Theorem net_fixed_assign n rs st st' :
  apply_op (OAssign n rs) st = Some st' ->
  net_fixed st' = flat_map (fun m => if m_fixed m then map fixed_rect (if named n m then rs else m_rects m) else []) st.
Proof.
  cbn [apply_op]. destruct (has_module n st && forallb geom_ok rs); [|discriminate].
  intro H. injection H as <-. rewrite net_fixed_on_module. apply flat_map_ext. intro m.
  cbv zeta. destruct (named n m); reflexivity.
Qed.

Lemma net_fixed_others n st :
  net_fixed (others n st) = flat_map (fun m => if named n m then [] else if m_fixed m then map fixed_rect (m_rects m) else []) st.
Proof.
  unfold net_fixed, others. induction st as [|m st IH]; cbn [filter flat_map]; [reflexivity|].
  destruct (named n m); cbn [negb flat_map]; rewrite IH; reflexivity.
Qed.

(* module.is_fixed = False: none of its rectangles is fixed any more, the others are untouched *)
Theorem net_fixed_release n st st' :
  apply_op (OSetFixed n false) st = Some st' -> net_fixed st' = net_fixed (others n st).
Proof.
  cbn [apply_op]. destruct (has_module n st); [|discriminate].
  intro H. injection H as <-. rewrite net_fixed_on_module, net_fixed_others. apply flat_map_ext. intro m.
  cbv zeta. destruct (named n m); reflexivity.
Qed.

(* module.is_fixed = True: its rectangles, as they are now, are fixed *)
Theorem net_fixed_fix n st st' :
  apply_op (OSetFixed n true) st = Some st' ->
  net_fixed st' = flat_map (fun m => if named n m || m_fixed m then map fixed_rect (m_rects m) else []) st.
Proof.
  cbn [apply_op]. destruct (has_module n st); [|discriminate].
  intro H. injection H as <-. rewrite net_fixed_on_module. apply flat_map_ext. intro m.
  cbv zeta. destruct (named n m); reflexivity.
Qed.

Theorem net_fixed_sethard n b st st' :
  apply_op (OSetHard n b) st = Some st' -> net_fixed st' = net_fixed st.
Proof.
  cbn [apply_op]. destruct (has_module n st); [|discriminate].
  intro H. injection H as <-. rewrite net_fixed_on_module. unfold net_fixed. apply flat_map_ext. intro m.
  cbv zeta. destruct (named n m); reflexivity.
Qed.

(* after assign_rectangles on a fixed module the die is told the NEW rectangles ... *)
Theorem assign_new_seen n rs st st' m g :
  apply_op (OAssign n rs) st = Some st' ->
  In m st -> named n m = true -> m_fixed m = true -> In g rs ->
  In (fixed_rect g) (net_fixed st').
Proof.
  intros H Hm Hn Hf Hg. rewrite (net_fixed_assign _ _ _ _ H). apply in_flat_map. exists m. split; [exact Hm|].
  rewrite Hf, Hn. apply in_map. exact Hg.
Qed.

(* ... and nothing of the module's OLD rectangles: every fixed rectangle is one of the new ones or belongs to another module *)
Theorem assign_old_forgotten n rs st st' r :
  apply_op (OAssign n rs) st = Some st' ->
  In r (net_fixed st') -> In r (map fixed_rect rs) \/ In r (net_fixed (others n st)).
Proof.
  intros H Hr. rewrite (net_fixed_assign _ _ _ _ H) in Hr. apply in_flat_map in Hr. destruct Hr as [m [Hm Hr]].
  destruct (named n m) eqn:Hn.
  - destruct (m_fixed m); [left; exact Hr | destruct Hr].
  - right. rewrite net_fixed_others. apply in_flat_map. exists m. split; [exact Hm|]. rewrite Hn. exact Hr.
Qed.

(* a released module contributes nothing: every rectangle still fixed belongs to another, fixed, module *)
Theorem release_forgotten n st st' r :
  apply_op (OSetFixed n false) st = Some st' -> In r (net_fixed st') ->
  exists m2 g2, In m2 st /\ named n m2 = false /\ m_fixed m2 = true /\ In g2 (m_rects m2) /\ fixed_rect g2 = r.
Proof.
  intros H Hr. rewrite (net_fixed_release _ _ _ H), net_fixed_others in Hr.
  apply in_flat_map in Hr. destruct Hr as [m2 [Hm2 Hr]].
  destruct (named n m2) eqn:Hn; [destruct Hr|].
  destruct (m_fixed m2) eqn:Hf; [|destruct Hr].
  apply in_map_iff in Hr. destruct Hr as [g2 [E Hg2]].
  exists m2, g2. repeat split; assumption.
Qed.

(* non-vacuity: the history of the seeded example (a fixed module relocated, another released) *)
Open Scope string_scope.
Definition ex_net : netlist_state :=
  [mkMod "M1" true true None [mkGeom (qc 2 1) (qc 7 1) (qc 2 1) (qc 2 1)];
   mkMod "M2" true true None [mkGeom (qc 8 1) (qc 11 2) (qc 2 1) (qc 1 1)];
   mkMod "M3" false false None []].
Example history_example :
  nsession (fun _ fx => fx) (InStr "10x9") ex_net
    [ODie true; OAssign "M1" [mkGeom (qc 7 1) (qc 2 1) (qc 2 1) (qc 2 1)]; ODie true; OSetFixed "M2" false; ORead; ODie true; ODie false]
  = Some [ [fixed_rect (mkGeom (qc 2 1) (qc 7 1) (qc 2 1) (qc 2 1)); fixed_rect (mkGeom (qc 8 1) (qc 11 2) (qc 2 1) (qc 1 1))];
           [fixed_rect (mkGeom (qc 7 1) (qc 2 1) (qc 2 1) (qc 2 1)); fixed_rect (mkGeom (qc 8 1) (qc 11 2) (qc 2 1) (qc 1 1))];
           [fixed_rect (mkGeom (qc 7 1) (qc 2 1) (qc 2 1) (qc 2 1))];
           [] ].
Proof. reflexivity. Qed.
(* recentring: a hard module of two equal squares moved so that its centroid is (5, 5) *)
Example recenter_example :
  apply_op (ORecenter "H" (qc 5 1) (qc 5 1))
    [mkMod "H" false true None [mkGeom (qc 1 1) (qc 1 1) (qc 2 1) (qc 2 1); mkGeom (qc 3 1) (qc 1 1) (qc 2 1) (qc 2 1)]]
  = Some [mkMod "H" false true None [mkGeom (qc 4 1) (qc 5 1) (qc 2 1) (qc 2 1); mkGeom (qc 6 1) (qc 5 1) (qc 2 1) (qc 2 1)]].
Proof.
  vm_compute. repeat (f_equal; try (apply Qc_is_canon; vm_compute; reflexivity)).
Qed.
