(* Model of frame/die/die.py: _calculate_ground_rectangles, _find_all_ground_rectangles,
   _expand_rectangle, _find_best_rectangle - the cover of the free cells by rectangles.

   The code builds the set of ALL rectangles of free cells, then repeatedly takes the one
   of largest area, marks its cells and drops every candidate touching a marked cell.
   Which of several largest candidates is taken depends on the iteration order of a Python
   `set` (unspecified), and the source says the criterion may change.  The model is
   therefore RELATIONAL: [is_cover] is a checker that replays a list of index-rectangles
   (each must consist of currently free cells; at the end no free cell may remain), and
   [greedy_cover] is the model's own largest-first cover (first candidate in row-major
   enumeration wins ties) showing that an accepted cover always exists.

   An occupancy matrix is a function row -> column -> bool (true = occupied) together
   with its dimensions nr x nc.  Definitions only; facts in CoverFacts.v. *)
From FrameModel Require Import Num.QcTac.
Open Scope nat_scope.

(* GroundRegion(rmin, rmax, cmin, cmax): inclusive index ranges *)
Record irect := mkIR { rlo : nat; rhi : nat; clo : nat; chi : nat }.

Definition in_ir (g : irect) (r c : nat) : bool :=
  (rlo g <=? r) && (r <=? rhi g) && (clo g <=? c) && (c <=? chi g).
Definition ir_ok (nr nc : nat) (g : irect) : bool :=
  (rlo g <=? rhi g) && (rhi g <? nr) && (clo g <=? chi g) && (chi g <? nc).

Definition range (lo hi : nat) : list nat := seq lo (S hi - lo).
Definition ir_cells (g : irect) : list (nat * nat) :=
  list_prod (range (rlo g) (rhi g)) (range (clo g) (chi g)).
Definition grid (nr nc : nat) : list (nat * nat) := list_prod (seq 0 nr) (seq 0 nc).

Definition occ_t := nat -> nat -> bool.
Definition all_free (occ : occ_t) (g : irect) : bool :=
  forallb (fun p => negb (occ (fst p) (snd p))) (ir_cells g).
(* "Occupy the cells" *)
Definition mark (occ : occ_t) (g : irect) : occ_t := fun r c => in_ir g r c || occ r c.
Definition full (nr nc : nat) (occ : occ_t) : bool :=
  forallb (fun p => occ (fst p) (snd p)) (grid nr nc).

(* the verified checker *)
Fixpoint is_cover (nr nc : nat) (occ : occ_t) (gs : list irect) : bool :=
  match gs with
  | [] => full nr nc occ
  | g :: rest => ir_ok nr nc g && all_free occ g && is_cover nr nc (mark occ g) rest
  end.

(* ---- the model's own cover ---- *)
(* every index-rectangle of the matrix, row-major in (rlo, rhi, clo, chi) *)
Definition all_irects (nr nc : nat) : list irect :=
  flat_map (fun rl => flat_map (fun rh => flat_map (fun cl =>
    map (fun ch => mkIR rl rh cl ch) (seq cl (nc - cl))) (seq 0 nc)) (seq rl (nr - rl))) (seq 0 nr).
(* the candidates still alive: rectangles of free cells only (the code keeps this set
   incrementally: a candidate is dropped as soon as it touches a marked cell) *)
Definition candidates (nr nc : nat) (occ : occ_t) : list irect :=
  filter (all_free occ) (all_irects nr nc).
(* `if reg.area > max_value`: strictly larger replaces, so the first largest wins *)
Fixpoint best (w : irect -> Qc) (cur : irect) (l : list irect) : irect :=
  match l with
  | [] => cur
  | g :: r => if Qcltb (w cur) (w g) then best w g r else best w cur r
  end.
Fixpoint greedy (w : irect -> Qc) (nr nc : nat) (occ : occ_t) (fuel : nat) : list irect :=
  match fuel with
  | O => []
  | S f =>
      match candidates nr nc occ with
      | [] => []
      | g0 :: rest => let g := best w g0 rest in g :: greedy w nr nc (mark occ g) f
      end
  end.
Definition greedy_cover (w : irect -> Qc) (nr nc : nat) (occ : occ_t) : list irect :=
  greedy w nr nc occ (nr * nc).

(* the trivial cover by single cells (used by the correspondence to obtain the model's
   verdict on rejected descriptions without running the quadratic enumeration) *)
Definition cell_cover (nr nc : nat) (occ : occ_t) : list irect :=
  map (fun p => mkIR (fst p) (fst p) (snd p) (snd p))
      (filter (fun p => negb (occ (fst p) (snd p))) (grid nr nc)).

(* ---- specification vocabulary ---- *)
Definition count_in (r c : nat) (gs : list irect) : nat :=
  List.length (filter (fun g => in_ir g r c) gs).
Definition is_free (nr nc : nat) (occ : occ_t) (r c : nat) : bool :=
  (r <? nr) && (c <? nc) && negb (occ r c).
Definition ir_disjoint (g h : irect) : Prop := forall r c, ~ (in_ir g r c = true /\ in_ir h r c = true).
