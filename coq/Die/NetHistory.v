(* Model of the HISTORY of the Netlist object that is handed to Die(description, netlist).

   Die.__init__ takes "the fixed rectangles of the attached netlist" at the moment it runs
   (frame/die/die.py: `self._fixed = [] if netlist is None else netlist.fixed_rectangles()`).
   Between being read and being attached the Netlist object is an ordinary mutable object with
   public mutators (frame/netlist/netlist.py, module.py, frame/geometry/geometry.py):

     netlist.assign_rectangles({name: [[x, y, w, h], ...]})   OAssign    (clear_rectangles + add_rectangle of
                                                                          parse_yaml_rectangle(r, m.is_fixed, m.is_hard))
     module.is_fixed = b                                       OSetFixed  (the flag, and that of every rectangle of the module)
     module.is_hard = b                                        OSetHard   (no effect on what is fixed)
     rectangle.center = Point(..) / .center.x = .. / rectangle.shape = Shape(..) / .shape.w = ..
                                                               OMove      (the rectangle of the module that had the value [old])
     module.center = Point(x, y); module.recenter_rectangles() ORecenter  (hard, not fixed; every rectangle is translated by
                                                                          centre minus area-weighted centroid)
     netlist.create_squares()                                  OSquares   (every module without rectangles gets its square:
                                                                          centre = module centre, side = sqrt(area); sqrt is external,
                                                                          the square is a field of the module handed over by the harness)
     netlist.rectangles / num_rectangles / fixed_rectangles()  ORead      (reads)
     Die(description, netlist) / Die(description)              ODie b     (reads: DieInput.session)

   The model is a pure function of VALUES: a netlist is the list of its modules, a module is (name, fixed, hard,
   square, rectangles), and the fixed rectangles of the netlist are the rectangles of its fixed modules as they are
   now ([net_fixed]) - there is no list kept beside the modules that could go stale.  [nsession f d st ops] is what
   the constructions of a history return, f being the constructor applied to (description, fixed rectangles).
   An operation the code refuses (unknown module name, a rectangle with a negative coordinate or an empty side,
   recentring a fixed / soft / empty module, a square for a module without centre) is [None]. *)
From FrameModel Require Import Num.QcTac Geometry.Rect Die.DieInput.
From Coq Require Import String List Bool.
Import ListNotations.
Open Scope Qc_scope.

Record geom := mkGeom { g_x : Qc; g_y : Qc; g_w : Qc; g_h : Qc }.
Definition geom_eqb (a b : geom) : bool :=
  Qceqb (g_x a) (g_x b) && Qceqb (g_y a) (g_y b) && Qceqb (g_w a) (g_w b) && Qceqb (g_h a) (g_h b).
(* parse_yaml_rectangle: the four numbers >= 0; Rectangle.__init__: w > 0 and h > 0 *)
Definition geom_ok (g : geom) : bool :=
  Qcleb 0 (g_x g) && Qcleb 0 (g_y g) && Qcltb 0 (g_w g) && Qcltb 0 (g_h g).
(* what the die is told about a fixed rectangle: its geometry (flags and STOG location are not the die's subject) *)
Definition fixed_rect (g : geom) : Rect :=
  mkRect (g_x g) (g_y g) (g_w g) (g_h g) true false "_"%string NOPOLY.

Record nmodule := mkMod {
  m_name : string; m_fixed : bool; m_hard : bool;
  m_square : option geom;        (* the square create_square() would make; None: the module has no centre *)
  m_rects : list geom }.
Definition netlist_state := list nmodule.

Definition net_fixed (st : netlist_state) : list Rect :=
  flat_map (fun m => if m_fixed m then map fixed_rect (m_rects m) else []) st.

Inductive net_op :=
| OAssign (n : string) (rs : list geom)
| OSetFixed (n : string) (b : bool)
| OSetHard (n : string) (b : bool)
| OMove (n : string) (old new : geom)
| ORecenter (n : string) (x y : Qc)
| OSquares
| ORead
| ODie (with_netlist : bool).

Definition named (n : string) (m : nmodule) : bool := String.eqb (m_name m) n.
Definition has_module (n : string) (st : netlist_state) : bool := existsb (named n) st.
Definition on_module (n : string) (f : nmodule -> nmodule) (st : netlist_state) : netlist_state :=
  map (fun m => if named n m then f m else m) st.

Definition set_rects (rs : list geom) (m : nmodule) : nmodule :=
  mkMod (m_name m) (m_fixed m) (m_hard m) (m_square m) rs.
Definition set_fixed (b : bool) (m : nmodule) : nmodule :=
  mkMod (m_name m) b (m_hard m) (m_square m) (m_rects m).
Definition set_hard (b : bool) (m : nmodule) : nmodule :=
  mkMod (m_name m) (m_fixed m) b (m_square m) (m_rects m).

Fixpoint replace_geom (old new : geom) (l : list geom) : option (list geom) :=
  match l with
  | [] => None
  | g :: r => if geom_eqb g old then Some (new :: r) else option_map (cons g) (replace_geom old new r)
  end.

Definition garea (g : geom) : Qc := g_w g * g_h g.
Definition shift (dx dy : Qc) (g : geom) : geom := mkGeom (g_x g + dx) (g_y g + dy) (g_w g) (g_h g).
(* Module.recenter_rectangles with the centre (x, y) *)
Definition recentered (x y : Qc) (rs : list geom) : option (list geom) :=
  let a := Qcsum (map garea rs) in
  if Qceqb a 0 then None else
  let mx := Qcsum (map (fun g => g_x g * garea g) rs) / a in
  let my := Qcsum (map (fun g => g_y g * garea g) rs) / a in
  Some (map (shift (x - mx) (y - my)) rs).

Definition square_of (m : nmodule) : option nmodule :=
  match m_rects m with
  | [] => match m_square m with Some g => Some (set_rects [g] m) | None => None end
  | _ => Some m
  end.
Fixpoint all_squares (st : netlist_state) : option netlist_state :=
  match st with
  | [] => Some []
  | m :: r => match square_of m, all_squares r with
              | Some m', Some r' => Some (m' :: r')
              | _, _ => None
              end
  end.

Definition apply_op (op : net_op) (st : netlist_state) : option netlist_state :=
  match op with
  | OAssign n rs =>
      if has_module n st && forallb geom_ok rs then Some (on_module n (set_rects rs) st) else None
  | OSetFixed n b => if has_module n st then Some (on_module n (set_fixed b) st) else None
  | OSetHard n b => if has_module n st then Some (on_module n (set_hard b) st) else None
  | OMove n old new =>
      match find (named n) st with
      | Some m => match replace_geom old new (m_rects m) with
                  | Some rs => Some (on_module n (set_rects rs) st)
                  | None => None
                  end
      | None => None
      end
  | ORecenter n x y =>
      match find (named n) st with
      | Some m => if m_hard m && negb (m_fixed m) then
                    match recentered x y (m_rects m) with
                    | Some rs => Some (on_module n (set_rects rs) st)
                    | None => None
                    end
                  else None
      | None => None
      end
  | OSquares => all_squares st
  | ORead => Some st
  | ODie _ => Some st
  end.

Fixpoint run_ops (ops : list net_op) (st : netlist_state) : option netlist_state :=
  match ops with
  | [] => Some st
  | op :: rest => match apply_op op st with Some st' => run_ops rest st' | None => None end
  end.

(* what a construction at this point of the history is handed *)
Definition seen_fixed (st : netlist_state) (with_netlist : bool) : list Rect :=
  if with_netlist then net_fixed st else [].

Fixpoint nsession {A} (f : die_input -> list Rect -> A) (d : die_input) (st : netlist_state) (ops : list net_op)
  : option (list A) :=
  match ops with
  | [] => Some []
  | op :: rest =>
      match apply_op op st with
      | None => None
      | Some st' =>
          match op with
          | ODie b => option_map (cons (f d (seen_fixed st b))) (nsession f d st' rest)
          | _ => nsession f d st' rest
          end
      end
  end.

Definition is_read (op : net_op) : bool := match op with ORead | ODie _ => true | _ => false end.
Definition dies_of (ops : list net_op) : list bool :=
  flat_map (fun op => match op with ODie b => [b] | _ => [] end) ops.
Definition others (n : string) (st : netlist_state) : netlist_state := filter (fun m => negb (named n m)) st.
