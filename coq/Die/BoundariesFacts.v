(* Facts about gather_boundaries (C01): for eps-separated coordinates the result is the
   strictly increasing list of the distinct coordinates. *)
From FrameModel Require Import Num.QcTac Geometry.Rect Die.Boundaries.
Open Scope Qc_scope.

Fixpoint sorted_le (l : list Qc) : Prop :=
  match l with
  | [] => True
  | x :: r => match r with [] => True | y :: _ => x <= y end /\ sorted_le r
  end.

Lemma insert_in x l v : In v (insert x l) <-> v = x \/ In v l.
Proof.
  induction l as [|y r IH]; cbn [insert].
  - cbn. intuition.
  - destruct (Qcleb x y); cbn [In]; [intuition|]. rewrite IH. intuition.
Qed.

Lemma sort_in l v : In v (sort l) <-> In v l.
Proof.
  induction l as [|x r IH]; cbn [sort]; [tauto|]. rewrite insert_in, IH. cbn. intuition.
Qed.

Lemma insert_sorted x l : sorted_le l -> sorted_le (insert x l).
Proof.
  induction l as [|y r IH]; intro H; cbn [insert].
  - cbn. auto.
  - destruct (Qcleb x y) eqn:E; qb2p.
    + cbn [sorted_le]. split; [exact E|exact H].
    + destruct H as [Hy Hr]. specialize (IH Hr). cbn [sorted_le]. split; [|exact IH].
      destruct r as [|z r']; cbn [insert].
      * apply Qclt_le_weak; exact E.
      * destruct (Qcleb x z); [apply Qclt_le_weak; exact E|exact Hy].
Qed.

Lemma sort_sorted l : sorted_le (sort l).
Proof. induction l as [|x r IH]; cbn [sort]; [exact I|]. apply insert_sorted. exact IH. Qed.

Lemma sorted_head_le l : forall x v, sorted_le (x :: l) -> In v l -> x <= v.
Proof.
  induction l as [|y r IH]; intros x v H Hin; [destruct Hin|].
  destruct H as [Hxy Hr]. destruct Hin as [<-|Hin]; [exact Hxy|].
  specialize (IH y v Hr Hin). qlra.
Qed.

Lemma sep_tail eps a l : sep eps (a :: l) -> sep eps l.
Proof. intros H x y Hx Hy. apply H; right; assumption. Qed.

Lemma dedup_from_spec eps : 0 <= eps -> forall l last, sorted_le (last :: l) -> sep eps (last :: l) ->
  (forall v, In v (last :: dedup_from eps last l) <-> In v (last :: l)) /\
  incr (last :: dedup_from eps last l).
Proof.
  intro He. induction l as [|v r IH]; intros last Hs Hp; cbn [dedup_from].
  - split; [tauto|]. cbn. auto.
  - destruct (Qcltb (last + eps) v) eqn:E; qb2p.
    + destruct Hs as [_ Hs']. destruct (IH v Hs' (sep_tail _ _ _ Hp)) as [I1 I2].
      split.
      * intro u. cbn [In] in *. rewrite <- (I1 u). tauto.
      * cbn [incr]. split; [qlra|exact I2].
    + assert (v = last).
      { destruct (Hp last v (or_introl eq_refl) (or_intror (or_introl eq_refl))) as [H|[H|H]]; auto.
        - exfalso. qlra.
        - exfalso. destruct Hs as [Hle _]. qlra. }
      subst v. destruct Hs as [_ Hs']. destruct (IH last Hs' (sep_tail _ _ _ Hp)) as [I1 I2].
      split; [|exact I2]. intro u. rewrite (I1 u). cbn [In]. tauto.
Qed.

Theorem bounds_spec eps coords : 0 <= eps -> sep eps coords ->
  incr (dedup eps (sort coords)) /\ forall v, In v (dedup eps (sort coords)) <-> In v coords.
Proof.
  intros He Hp.
  assert (Hp' : sep eps (sort coords)).
  { intros a b Ha Hb. apply Hp; apply sort_in; assumption. }
  pose proof (sort_sorted coords) as Hs.
  assert (Hin : forall v, In v (sort coords) <-> In v coords) by (intro; apply sort_in).
  destruct (sort coords) as [|x l]; cbn [dedup].
  - split; [exact I|]. intro v. rewrite <- Hin. tauto.
  - destruct (dedup_from_spec eps He l x Hs Hp') as [I1 I2]. split; [exact I2|].
    intro v. rewrite (I1 v). apply Hin.
Qed.

(* the duplicate removal never keeps two values closer than eps, whatever the input *)
Lemma dedup_from_gap eps : 0 <= eps -> forall l last, incr (last :: dedup_from eps last l).
Proof.
  intro He. induction l as [|v r IH]; intro last; cbn [dedup_from]; [cbn; auto|].
  destruct (Qcltb (last + eps) v) eqn:E; qb2p; [|apply IH].
  cbn [incr]. split; [qlra|apply IH].
Qed.
Theorem bounds_incr eps coords : 0 <= eps -> incr (dedup eps (sort coords)).
Proof.
  intro He. destruct (sort coords) as [|x l]; cbn [dedup]; [exact I|]. apply dedup_from_gap. exact He.
Qed.

Theorem boundaries_spec eps coords : 0 <= eps ->
  incr (dedup eps (sort coords)) /\
  (sep eps coords -> forall v, In v (dedup eps (sort coords)) <-> In v coords).
Proof. intro He. split; [apply bounds_incr; exact He|]. intro Hs. apply bounds_spec; assumption. Qed.
