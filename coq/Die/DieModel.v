(* Model of frame/die/die.py (class Die: constructor and _check_rectangles) and
   frame/die/yaml_parse_die.py (parse_yaml_die, parse_die_rectangle).

   The description is the YAML tree handed to Die(...) (a mapping at top level) plus the
   fixed rectangles of the attached netlist (what Netlist.fixed_rectangles() returns; the
   netlist reader itself belongs to C04/C05).  Tolerances are explicit:
     eps  = Rectangle.distance_epsilon()  (gather_boundaries)
     aeps = Rectangle.area_epsilon()      (Rectangle.overlap)
     deps = Die._epsilon = min(width, height) * 10e-12  (self-check: area sum)
     tin  = max(width, height) * 10e-12                 (self-check: inside test, after the repair)
   (eps = deps when the die is the first to define the class-wide epsilon; a netlist built
   before the die defines it from its own smallest rectangle).

   _check_rectangles is modelled AFTER the two repairs fixes/C01-inside-die-tolerance.diff
   and fixes/C01-area-sum-tolerance.diff: corners are compared with the die's bounds within
   tin, the area sum within deps * max(width, height).
   Definitions only; facts in DieFacts.v. *)
From FrameModel Require Import Num.QcTac Geometry.Rect Die.Boundaries Die.Cells Die.Cover.
From Coq Require Import Ascii.
Open Scope Qc_scope.

(* ---- the YAML tree ---- *)
Inductive ytree := YNum (q : Qc) | YStr (s : string) | YList (l : list ytree) | YOther.
Record desc := mkDesc { d_tree : list (string * ytree); d_fixed : list Rect }.

Inductive reason := RParse | ROutside | ROverlap | RArea | RCover.
Inductive result :=
  | Reject (why : reason)
  | Accept (ground specialised blockages fixed_rects : list Rect).

(* utils.valid_identifier: ^[A-Za-z_][A-Za-z0-9_]* (full match) *)
Definition is_letter (c : ascii) : bool :=
  let n := nat_of_ascii c in
  ((65 <=? n) && (n <=? 90) || (97 <=? n) && (n <=? 122) || (n =? 95))%nat.
Definition is_idchar (c : ascii) : bool :=
  let n := nat_of_ascii c in (is_letter c || (48 <=? n) && (n <=? 57))%nat.
Fixpoint all_idchars (s : string) : bool :=
  match s with EmptyString => true | String c r => is_idchar c && all_idchars r end.
Definition valid_identifier (s : string) : bool :=
  match s with EmptyString => false | String c r => is_letter c && all_idchars r end.

Definition KW_GROUND : string := "_".
Definition KW_BLOCKAGE : string := "#".

Fixpoint lookup (k : string) (t : list (string * ytree)) : option ytree :=
  match t with
  | [] => None
  | (k', v) :: r => if String.eqb k k' then Some v else lookup k r
  end.

(* parse_die_rectangle + the assertions of Shape/Rectangle's constructor *)
Definition parse_region (t : ytree) : option Rect :=
  match t with
  | YList [YNum x; YNum y; YNum w; YNum h; YStr tag] =>
      if Qcleb 0 x && Qcleb 0 y && Qcleb 0 w && Qcleb 0 h &&
         (valid_identifier tag || String.eqb tag KW_GROUND || String.eqb tag KW_BLOCKAGE) &&
         negb (String.eqb tag KW_GROUND) &&
         Qcltb 0 w && Qcltb 0 h
      then Some (mkRect x y w h false false tag NOPOLY) else None
  | _ => None
  end.

Fixpoint parse_regions (l : list ytree) : option (list Rect) :=
  match l with
  | [] => Some []
  | t :: r =>
      match parse_region t, parse_regions r with
      | Some x, Some xs => Some (x :: xs)
      | _, _ => None
      end
  end.

Definition known_key (k : string) : bool :=
  String.eqb k "width" || String.eqb k "height" || String.eqb k "regions".

(* parse_yaml_die: (width, height, regions) *)
Definition parse (d : desc) : option (Qc * Qc * list Rect) :=
  let t := d_tree d in
  if negb (forallb (fun kv => known_key (fst kv)) t) then None else
  match lookup "width" t, lookup "height" t with
  | Some (YNum w), Some (YNum h) =>
      if Qcltb 0 w && Qcltb 0 h then
        match lookup "regions" t with
        | None => Some (w, h, [])
        | Some (YList []) => None
        | Some (YList (YNum q :: rest)) =>          (* a single rectangle, not nested *)
            match parse_region (YList (YNum q :: rest)) with
            | Some r => Some (w, h, [r])
            | None => None
            end
        | Some (YList l) =>
            match parse_regions l with Some rs => Some (w, h, rs) | None => None end
        | Some _ => None
        end
      else None
  | _, _ => None
  end.

(* Rectangle(center=Point(w/2, h/2), shape=Shape(w, h)) *)
Definition die_rect (w h : Qc) : Rect := mkRect (w * half) (h * half) w h false false KW_GROUND NOPOLY.

Definition is_blockage (r : Rect) : bool := String.eqb (region r) KW_BLOCKAGE.
Definition specialised (regions : list Rect) : list Rect := filter (fun r => negb (is_blockage r)) regions.
Definition blockages (regions : list Rect) : list Rect := filter is_blockage regions.
(* specialized_regions + blockages + fixed_regions: the order of the occupancy loop *)
Definition inputs (regions fx : list Rect) : list Rect := specialised regions ++ blockages regions ++ fx.

(* ---- the grid ---- *)
Definition die_xs (eps w h : Qc) (ins : list Rect) : list Qc := xbounds eps (ins ++ [die_rect w h]).
Definition die_ys (eps w h : Qc) (ins : list Rect) : list Qc := ybounds eps (ins ++ [die_rect w h]).
Definition ground_of (xs ys : list Qc) (g : irect) : Rect :=
  span_rect xs ys (rlo g) (rhi g) (clo g) (chi g) KW_GROUND.

(* ---- _check_rectangles (repaired) ---- *)
Definition inside_tol (tin w h : Qc) (r : Rect) : bool :=
  Qcleb (- tin) (xmin r) && Qcleb (- tin) (ymin r) &&
  Qcleb (xmax r) (w + tin) && Qcleb (ymax r) (h + tin).
Fixpoint no_overlaps (aeps : Qc) (l : list Rect) : bool :=
  match l with
  | [] => true
  | r :: rest => forallb (fun s => negb (overlap aeps r s)) rest && no_overlaps aeps rest
  end.
Definition check_rectangles (deps tin aeps w h : Qc) (all : list Rect) : option reason :=
  if negb (forallb (inside_tol tin w h) all) then Some ROutside else
  if negb (no_overlaps aeps all) then Some ROverlap else
  if Qcltb (Qcabs (Qcsum (map area all) - w * h)) (deps * Qcmax w h) then None else Some RArea.

(* ---- the constructor, for a given cover of the free cells ---- *)
Definition die_with_cover (eps aeps deps tin : Qc) (d : desc) (gs : list irect) : result :=
  match parse d with
  | None => Reject RParse
  | Some (w, h, regions) =>
      let ins := inputs regions (d_fixed d) in
      let xs := die_xs eps w h ins in
      let ys := die_ys eps w h ins in
      let nr := (List.length ys - 1)%nat in
      let nc := (List.length xs - 1)%nat in
      if negb (is_cover nr nc (occupied xs ys ins) gs) then Reject RCover else
      let ground := map (ground_of xs ys) gs in
      match check_rectangles deps tin aeps w h
              (specialised regions ++ ground ++ blockages regions ++ d_fixed d) with
      | Some why => Reject why
      | None => Accept ground (specialised regions) (blockages regions) (d_fixed d)
      end
  end.

(* the model's own covers *)
Definition die_cover (eps : Qc) (d : desc) (cover : (irect -> Qc) -> nat -> nat -> occ_t -> list irect)
  : list irect :=
  match parse d with
  | None => []
  | Some (w, h, regions) =>
      let ins := inputs regions (d_fixed d) in
      let xs := die_xs eps w h ins in
      let ys := die_ys eps w h ins in
      cover (fun g => area (ground_of xs ys g)) (List.length ys - 1)%nat (List.length xs - 1)%nat
            (occupied xs ys ins)
  end.
Definition die_model (eps aeps deps tin : Qc) (d : desc) : result :=
  die_with_cover eps aeps deps tin d (die_cover eps d greedy_cover).
(* same, with the cover by single cells (cheap to evaluate) *)
Definition die_model_cells (eps aeps deps tin : Qc) (d : desc) : result :=
  die_with_cover eps aeps deps tin d (die_cover eps d (fun _ => cell_cover)).

(* ---- specification vocabulary ---- *)
(* what the theorems assume of a description that parsed to (w, h, regions) with fixed rectangles fx *)
Definition all_coords_x (w h : Qc) (ins : list Rect) := xcoords (ins ++ [die_rect w h]).
Definition all_coords_y (w h : Qc) (ins : list Rect) := ycoords (ins ++ [die_rect w h]).
Definition separated (eps w h : Qc) (ins : list Rect) : Prop :=
  sep eps (all_coords_x w h ins) /\ sep eps (all_coords_y w h ins).
Definition valid (w h : Qc) (ins : list Rect) : Prop :=
  Forall (fun r => wf r /\ is_inside r (die_rect w h) = true) ins /\ pairwise_no_ov ins.
