(* Geometry of the grid spanned by two strictly increasing boundary lists (C01):
   monotonicity, telescoping sums, the area of a range of cells is the sum of its cells,
   and the double-counting lemma: index-rectangles that contain every cell exactly once
   have areas adding up to the area of the whole grid and pairwise zero overlap. *)
From FrameModel Require Import Num.QcTac Geometry.Rect Geometry.RectFacts Geometry.SplitFacts
  Die.Boundaries Die.Cells Die.Cover Die.CoverFacts.
Open Scope Qc_scope.

(* ---------------- strictly increasing lists ---------------- *)
Lemma incr_tail x l : incr (x :: l) -> incr l.
Proof. cbn. tauto. Qed.

Lemma incr_head_lt l : forall x v, incr (x :: l) -> In v l -> x < v.
Proof.
  induction l as [|y r IH]; intros x v H Hin; [destruct Hin|].
  destruct H as [Hxy Hr]. destruct Hin as [<-|Hin]; [exact Hxy|].
  specialize (IH y v Hr Hin). qlra.
Qed.

Lemma incr_nth_lt l : incr l -> forall i j, (i < j < List.length l)%nat -> nthq l i < nthq l j.
Proof.
  induction l as [|a l IH]; intros H i j Hij; [cbn in Hij; lia|].
  destruct j as [|j]; [lia|]. destruct i as [|i].
  - unfold nthq. cbn [nth]. apply (incr_head_lt l); [exact H|]. apply nth_In. cbn in Hij. lia.
  - unfold nthq. cbn [nth]. apply IH; [eapply incr_tail; eauto|]. cbn in Hij. lia.
Qed.

Lemma incr_nth_le l : incr l -> forall i j, (i <= j < List.length l)%nat -> nthq l i <= nthq l j.
Proof.
  intros H i j Hij. destruct (Nat.eq_dec i j) as [->|N]; [apply Qcle_refl|].
  apply Qclt_le_weak. apply incr_nth_lt; [exact H|lia].
Qed.

Lemma incr_nth_lt_inv l : incr l -> forall i j, (i < List.length l)%nat -> (j < List.length l)%nat ->
  nthq l i < nthq l j -> (i < j)%nat.
Proof.
  intros H i j Hi Hj L. destruct (Nat.lt_ge_cases i j) as [?|G]; [assumption|]. exfalso.
  assert (nthq l j <= nthq l i) by (apply incr_nth_le; [exact H|lia]). qlra.
Qed.

Lemma incr_nth_le_inv l : incr l -> forall i j, (i < List.length l)%nat -> (j < List.length l)%nat ->
  nthq l i <= nthq l j -> (i <= j)%nat.
Proof.
  intros H i j Hi Hj L. destruct (Nat.le_gt_cases i j) as [?|G]; [assumption|]. exfalso.
  assert (nthq l j < nthq l i) by (apply incr_nth_lt; [exact H|lia]). qlra.
Qed.

(* ---------------- sums ---------------- *)
Definition cellw (l : list Qc) (i : nat) : Qc := nthq l (S i) - nthq l i.
Definition cell_area (xs ys : list Qc) (p : nat * nat) : Qc := cellw ys (fst p) * cellw xs (snd p).

Lemma telescope l : forall n a, Qcsum (map (cellw l) (seq a n)) = nthq l (a + n) - nthq l a.
Proof.
  induction n as [|n IH]; intro a; cbn [seq map Qcsum].
  - rewrite Nat.add_0_r. ring.
  - rewrite IH. unfold cellw. rewrite Nat.add_succ_r. cbn [plus]. ring.
Qed.

Lemma Qcsum_scale {A} (k : Qc) (g : A -> Qc) l :
  Qcsum (map (fun c => k * g c) l) = k * Qcsum (map g l).
Proof. induction l as [|x l IH]; cbn [map Qcsum]; [ring|]. rewrite IH. ring. Qed.

Lemma Qcsum_prod (f g : nat -> Qc) R C :
  Qcsum (map (fun p => f (fst p) * g (snd p)) (list_prod R C)) = Qcsum (map f R) * Qcsum (map g C).
Proof.
  induction R as [|r R IH]; cbn [list_prod map Qcsum]; [ring|].
  rewrite map_app, Qcsum_app, IH, map_map. cbn [fst snd]. rewrite Qcsum_scale. ring.
Qed.

Lemma Qcsum_map_add {A} (f g : A -> Qc) l :
  Qcsum (map (fun x => f x + g x) l) = Qcsum (map f l) + Qcsum (map g l).
Proof. induction l as [|x l IH]; cbn [map Qcsum]; [ring|]. rewrite IH. ring. Qed.

Lemma Qcsum_filter {A} (p : A -> bool) (f : A -> Qc) l :
  Qcsum (map f (filter p l)) = Qcsum (map (fun x => if p x then f x else 0) l).
Proof.
  induction l as [|x l IH]; cbn [filter map Qcsum]; [reflexivity|].
  destruct (p x); cbn [map Qcsum]; rewrite IH; ring.
Qed.

(* ---------------- filters of ranges and products ---------------- *)
Lemma filter_all {A} (p : A -> bool) l : (forall x, In x l -> p x = true) -> filter p l = l.
Proof.
  induction l as [|x l IH]; intro H; cbn; [reflexivity|].
  rewrite (H x (or_introl eq_refl)). f_equal. apply IH. intros y Hy. apply H. right. exact Hy.
Qed.
Lemma filter_none {A} (p : A -> bool) l : (forall x, In x l -> p x = false) -> filter p l = [].
Proof.
  induction l as [|x l IH]; intro H; cbn; [reflexivity|].
  rewrite (H x (or_introl eq_refl)). apply IH. intros y Hy. apply H. right. exact Hy.
Qed.

Lemma filter_seq_range n lo hi : (lo <= hi)%nat -> (hi < n)%nat ->
  filter (fun i => (lo <=? i)%nat && (i <=? hi)%nat) (seq 0 n) = range lo hi.
Proof.
  intros L Hn. unfold range.
  replace n with (lo + ((S hi - lo) + (n - S hi)))%nat by lia.
  rewrite seq_app, seq_app, !filter_app. cbn [plus].
  rewrite filter_none, filter_all, filter_none.
  - rewrite app_nil_r. reflexivity.
  - intros x Hx. apply in_seq in Hx. apply andb_false_iff. right. apply Nat.leb_gt. lia.
  - intros x Hx. apply in_seq in Hx. apply andb_true_iff. split; apply Nat.leb_le; lia.
  - intros x Hx. apply in_seq in Hx. apply andb_false_iff. left. apply Nat.leb_gt. lia.
Qed.

Lemma filter_prod (f g : nat -> bool) A B :
  filter (fun p => f (fst p) && g (snd p)) (list_prod A B) = list_prod (filter f A) (filter g B).
Proof.
  induction A as [|a A IH]; cbn [list_prod filter]; [reflexivity|].
  rewrite filter_app, IH. destruct (f a) eqn:E.
  - cbn [list_prod]. f_equal. clear IH. induction B as [|b B IHB]; cbn; [reflexivity|].
    rewrite E. cbn. destruct (g b); cbn; rewrite IHB; reflexivity.
  - replace (filter _ (map (fun y => (a, y)) B)) with (@nil (nat * nat)); [reflexivity|].
    symmetry. apply filter_none. intros [x y] H. apply in_map_iff in H. destruct H as (z & Ez & _).
    injection Ez as <- <-. cbn. rewrite E. reflexivity.
Qed.

Lemma filter_grid_ir nr nc g : ir_ok nr nc g = true ->
  filter (fun p => in_ir g (fst p) (snd p)) (grid nr nc) = ir_cells g.
Proof.
  intro H. apply ir_ok_iff in H. unfold grid, ir_cells.
  rewrite <- (filter_seq_range nr (rlo g) (rhi g)), <- (filter_seq_range nc (clo g) (chi g)) by lia.
  rewrite <- filter_prod. apply filter_ext. intros [r c]. cbn. unfold in_ir.
  rewrite <- !andb_assoc. reflexivity.
Qed.

(* ---------------- area of a range of cells ---------------- *)
Lemma span_area xs ys g : (rlo g <= rhi g)%nat -> (clo g <= chi g)%nat ->
  (nthq ys (S (rhi g)) - nthq ys (rlo g)) * (nthq xs (S (chi g)) - nthq xs (clo g)) =
  Qcsum (map (cell_area xs ys) (ir_cells g)).
Proof.
  intros Hr Hc. unfold ir_cells, cell_area.
  rewrite (Qcsum_prod (cellw ys) (cellw xs)). unfold range. rewrite !telescope.
  replace (rlo g + (S (rhi g) - rlo g))%nat with (S (rhi g)) by lia.
  replace (clo g + (S (chi g) - clo g))%nat with (S (chi g)) by lia. reflexivity.
Qed.

(* ---------------- double counting ---------------- *)
Definition in_grid_b (nr nc r c : nat) : bool := (r <? nr)%nat && (c <? nc)%nat.

Lemma count_in_cons r c g L :
  count_in r c (g :: L) = ((if in_ir g r c then 1 else 0) + count_in r c L)%nat.
Proof. unfold count_in. cbn [filter]. destruct (in_ir g r c); reflexivity. Qed.

Lemma count_in_app r c L1 L2 : count_in r c (L1 ++ L2) = (count_in r c L1 + count_in r c L2)%nat.
Proof. unfold count_in. rewrite filter_app, app_length. reflexivity. Qed.

(* sum over the rectangles of the weight of a cell *)
Fixpoint cw (a : nat * nat -> Qc) (L : list irect) (p : nat * nat) : Qc :=
  match L with
  | [] => 0
  | g :: L' => (if in_ir g (fst p) (snd p) then a p else 0) + cw a L' p
  end.

Lemma cw_count a L p :
  (count_in (fst p) (snd p) L = 0%nat -> cw a L p = 0) /\
  (count_in (fst p) (snd p) L = 1%nat -> cw a L p = a p).
Proof.
  induction L as [|g L IH]; cbn [cw].
  - split; [reflexivity|]. unfold count_in. cbn. discriminate.
  - rewrite count_in_cons. destruct IH as [I0 I1]. destruct (in_ir g (fst p) (snd p)).
    + split; [lia|]. intro H. rewrite I0 by lia. ring.
    + split; intro H; [rewrite I0 by lia|rewrite I1 by lia]; ring.
Qed.

Lemma sum_swap a nr nc L : Forall (fun g => ir_ok nr nc g = true) L ->
  Qcsum (map (fun g => Qcsum (map a (ir_cells g))) L) = Qcsum (map (cw a L) (grid nr nc)).
Proof.
  induction L as [|g L IH]; intro H; cbn [map Qcsum cw].
  - induction (grid nr nc) as [|p l IHl]; cbn [map Qcsum]; [reflexivity|]. rewrite <- IHl. ring.
  - inversion H as [|? ? Hg HL]; subst. rewrite (IH HL).
    rewrite (Qcsum_map_add (fun p => if in_ir g (fst p) (snd p) then a p else 0) (cw a L)).
    f_equal. rewrite <- (filter_grid_ir nr nc g Hg). apply Qcsum_filter.
Qed.

Theorem double_count a nr nc L : Forall (fun g => ir_ok nr nc g = true) L ->
  (forall r c, (r < nr)%nat -> (c < nc)%nat -> count_in r c L = 1%nat) ->
  Qcsum (map (fun g => Qcsum (map a (ir_cells g))) L) = Qcsum (map a (grid nr nc)).
Proof.
  intros Hok Hc. rewrite (sum_swap a nr nc L Hok). f_equal. apply map_ext_in.
  intros [r c] Hin. apply in_grid in Hin. apply (cw_count a L (r, c)). cbn. apply Hc; tauto.
Qed.

Lemma grid_area xs ys nr nc :
  Qcsum (map (cell_area xs ys) (grid nr nc)) = (nthq ys nr - nthq ys 0) * (nthq xs nc - nthq xs 0).
Proof. unfold grid, cell_area. rewrite (Qcsum_prod (cellw ys) (cellw xs)), !telescope. reflexivity. Qed.

(* ---------------- the rectangle of a range of cells ---------------- *)
Definition sp (xs ys : list Qc) (g : irect) (t : string) : Rect :=
  span_rect xs ys (rlo g) (rhi g) (clo g) (chi g) t.

Lemma span_coords xs ys a b c d t :
  xmin (span_rect xs ys a b c d t) = nthq xs c /\ xmax (span_rect xs ys a b c d t) = nthq xs (S d) /\
  ymin (span_rect xs ys a b c d t) = nthq ys a /\ ymax (span_rect xs ys a b c d t) = nthq ys (S b).
Proof.
  unfold xmin, xmax, ymin, ymax, span_rect; cbn [cx cy rw rh].
  generalize (nthq xs c) (nthq xs (S d)) (nthq ys a) (nthq ys (S b)). intros p q r s.
  repeat split; qlra.
Qed.

Lemma sp_area xs ys g t : (rlo g <= rhi g)%nat -> (clo g <= chi g)%nat ->
  area (sp xs ys g t) = Qcsum (map (cell_area xs ys) (ir_cells g)).
Proof.
  intros Hr Hc. rewrite <- span_area by assumption. unfold area, sp, span_rect; cbn [rw rh]. ring.
Qed.

Section Grid.
  Variables (xs ys : list Qc) (nr nc : nat).
  Hypothesis Hx : incr xs.
  Hypothesis Hy : incr ys.
  Hypothesis Hnc : nc = (List.length xs - 1)%nat.
  Hypothesis Hnr : nr = (List.length ys - 1)%nat.

  Lemma sp_wf g t : ir_ok nr nc g = true -> wf (sp xs ys g t).
  Proof.
    intro H. apply ir_ok_iff in H. unfold wf, sp, span_rect; cbn [rw rh].
    assert (nthq xs (clo g) < nthq xs (S (chi g))) by (apply incr_nth_lt; [exact Hx|lia]).
    assert (nthq ys (rlo g) < nthq ys (S (rhi g))) by (apply incr_nth_lt; [exact Hy|lia]).
    split; qlra.
  Qed.

  Lemma ir_disjoint_sep g h : ir_ok nr nc g = true -> ir_ok nr nc h = true -> ir_disjoint g h ->
    (rhi g < rlo h \/ rhi h < rlo g \/ chi g < clo h \/ chi h < clo g)%nat.
  Proof.
    intros Hg Hh D. apply ir_ok_iff in Hg, Hh.
    destruct (le_lt_dec (rlo h) (rhi g)), (le_lt_dec (rlo g) (rhi h)),
             (le_lt_dec (clo h) (chi g)), (le_lt_dec (clo g) (chi h)); try lia.
    exfalso. apply (D (Nat.max (rlo g) (rlo h)) (Nat.max (clo g) (clo h))).
    split; apply in_ir_iff; lia.
  Qed.

  Lemma sp_ov_zero g h t u : ir_ok nr nc g = true -> ir_ok nr nc h = true -> ir_disjoint g h ->
    area_overlap (sp xs ys g t) (sp xs ys h u) = 0.
  Proof.
    intros Hg Hh D. destruct (ir_disjoint_sep g h Hg Hh D) as [S|[S|[S|S]]];
      apply ir_ok_iff in Hg, Hh; unfold sp;
      destruct (span_coords xs ys (rlo g) (rhi g) (clo g) (chi g) t) as (X0 & X1 & Y0 & Y1);
      destruct (span_coords xs ys (rlo h) (rhi h) (clo h) (chi h) u) as (X0' & X1' & Y0' & Y1').
    - apply ov_zero_y. rewrite Y1, Y0'. apply incr_nth_le; [exact Hy|lia].
    - rewrite ov_sym. apply ov_zero_y. rewrite Y1', Y0. apply incr_nth_le; [exact Hy|lia].
    - apply ov_zero_x. rewrite X1, X0'. apply incr_nth_le; [exact Hx|lia].
    - rewrite ov_sym. apply ov_zero_x. rewrite X1', X0. apply incr_nth_le; [exact Hx|lia].
  Qed.
End Grid.

Lemma count_in_ge1 r c L g : In g L -> in_ir g r c = true -> (1 <= count_in r c L)%nat.
Proof.
  induction L as [|h L IH]; intros Hin E; [destruct Hin|]. rewrite count_in_cons.
  destruct Hin as [->|Hin]; [rewrite E; lia|]. specialize (IH Hin E). lia.
Qed.

Lemma count_le1_disjoint L : (forall r c, (count_in r c L <= 1)%nat) -> ForallOrdPairs ir_disjoint L.
Proof.
  induction L as [|g L IH]; intro H; [constructor|]. constructor.
  - apply Forall_forall. intros h Hin r c [E1 E2]. specialize (H r c). rewrite count_in_cons, E1 in H.
    pose proof (count_in_ge1 r c L h Hin E2). lia.
  - apply IH. intros r c. specialize (H r c). rewrite count_in_cons in H. lia.
Qed.

(* index-rectangles containing every cell of the matrix exactly once tile the whole grid *)
Theorem irects_tile xs ys nr nc (L : list irect) (tag : irect -> string) (t0 : string) :
  incr xs -> incr ys -> nc = (List.length xs - 1)%nat -> nr = (List.length ys - 1)%nat ->
  (1 <= nr)%nat -> (1 <= nc)%nat ->
  Forall (fun g => ir_ok nr nc g = true) L ->
  (forall r c, count_in r c L = if in_grid_b nr nc r c then 1%nat else 0%nat) ->
  tiles (map (fun g => sp xs ys g (tag g)) L) (span_rect xs ys 0 (nr - 1) 0 (nc - 1) t0).
Proof.
  intros Hx Hy Hnc Hnr Nr Nc Hok Hcnt. unfold tiles. split; [|split].
  - apply Forall_forall. intros r Hr. apply in_map_iff in Hr. destruct Hr as (g & <- & Hg).
    rewrite Forall_forall in Hok. specialize (Hok g Hg). split; [eapply sp_wf; eauto|].
    apply is_inside_coords. unfold sp.
    destruct (span_coords xs ys (rlo g) (rhi g) (clo g) (chi g) (tag g)) as (X0 & X1 & Y0 & Y1).
    destruct (span_coords xs ys 0 (nr - 1) 0 (nc - 1) t0) as (X0' & X1' & Y0' & Y1').
    rewrite X0, X1, Y0, Y1, X0', X1', Y0', Y1'. apply ir_ok_iff in Hok.
    repeat split; apply incr_nth_le; try assumption; lia.
  - assert (D : ForallOrdPairs ir_disjoint L).
    { apply count_le1_disjoint. intros r c. rewrite Hcnt. destruct (in_grid_b nr nc r c); lia. }
    clear Hcnt. induction D as [|g L Hg D IH]; cbn [map pairwise_no_ov]; [exact I|].
    inversion Hok as [|? ? Og OL]; subst. split; [|apply IH; exact OL].
    apply Forall_forall. intros s Hs. apply in_map_iff in Hs. destruct Hs as (h & <- & Hh).
    rewrite Forall_forall in Hg, OL. eapply sp_ov_zero; eauto.
  - rewrite map_map.
    assert (E : map (fun g => area (sp xs ys g (tag g))) L =
                map (fun g => Qcsum (map (cell_area xs ys) (ir_cells g))) L).
    { apply map_ext_in. intros g Hg. rewrite Forall_forall in Hok. specialize (Hok g Hg).
      apply ir_ok_iff in Hok. apply sp_area; lia. }
    rewrite E, (double_count _ nr nc L Hok).
    + rewrite grid_area. unfold area, span_rect; cbn [rw rh].
      replace (S (nr - 1)) with nr by lia. replace (S (nc - 1)) with nc by lia. ring.
    + intros r c Hr Hc. rewrite Hcnt. unfold in_grid_b.
      rewrite (proj2 (Nat.ltb_lt r nr) Hr), (proj2 (Nat.ltb_lt c nc) Hc). reflexivity.
Qed.

(* (iii) in particular the cells of two strictly increasing boundary lists tile the grid,
   and so does every list of index-rectangles accepted by the checker on the empty matrix *)
Theorem cover_tiles_grid xs ys nr nc gs t :
  incr xs -> incr ys -> nc = (List.length xs - 1)%nat -> nr = (List.length ys - 1)%nat ->
  (1 <= nr)%nat -> (1 <= nc)%nat ->
  is_cover nr nc (fun _ _ => false) gs = true ->
  tiles (map (fun g => sp xs ys g t) gs) (span_rect xs ys 0 (nr - 1) 0 (nc - 1) t).
Proof.
  intros Hx Hy Hnc Hnr Nr Nc C.
  apply (irects_tile xs ys nr nc gs (fun _ => t) t); auto.
  - eapply cover_ok; eauto.
  - intros r c. rewrite (cover_count _ _ _ _ C). unfold is_free, in_grid_b. cbn. rewrite andb_true_r. reflexivity.
Qed.

Theorem cells_tile_grid xs ys nr nc t :
  incr xs -> incr ys -> nc = (List.length xs - 1)%nat -> nr = (List.length ys - 1)%nat ->
  (1 <= nr)%nat -> (1 <= nc)%nat ->
  tiles (map (fun g => sp xs ys g t) (cell_cover nr nc (fun _ _ => false)))
        (span_rect xs ys 0 (nr - 1) 0 (nc - 1) t).
Proof. intros. apply cover_tiles_grid; auto. apply cell_cover_is_cover. Qed.
