(* Facts about the cover checker and the model's greedy cover (C01). *)
From Coq Require Import FinFun.
From FrameModel Require Import Num.QcTac Die.Cover.
Open Scope nat_scope.

Lemma in_range lo hi i : In i (range lo hi) <-> lo <= i <= hi.
Proof. unfold range. rewrite in_seq. lia. Qed.

Lemma in_ir_iff g r c : in_ir g r c = true <-> rlo g <= r <= rhi g /\ clo g <= c <= chi g.
Proof. unfold in_ir. rewrite !andb_true_iff, !Nat.leb_le. tauto. Qed.

Lemma in_ir_cells g r c : In (r, c) (ir_cells g) <-> in_ir g r c = true.
Proof. unfold ir_cells. rewrite in_prod_iff, !in_range, in_ir_iff. tauto. Qed.

Lemma in_grid nr nc r c : In (r, c) (grid nr nc) <-> r < nr /\ c < nc.
Proof. unfold grid. rewrite in_prod_iff, !in_seq. lia. Qed.

Lemma all_free_iff occ g :
  all_free occ g = true <-> forall r c, in_ir g r c = true -> occ r c = false.
Proof.
  unfold all_free. rewrite forallb_forall. split.
  - intros H r c Hin. apply in_ir_cells in Hin. specialize (H _ Hin). cbn in H.
    destruct (occ r c); [discriminate|reflexivity].
  - intros H [r c] Hin. cbn. apply in_ir_cells in Hin. rewrite (H _ _ Hin). reflexivity.
Qed.

Lemma full_iff nr nc occ :
  full nr nc occ = true <-> forall r c, r < nr -> c < nc -> occ r c = true.
Proof.
  unfold full. rewrite forallb_forall. split.
  - intros H r c Hr Hc. apply (H (r, c)). apply in_grid. auto.
  - intros H [r c] Hin. apply in_grid in Hin. cbn. apply H; tauto.
Qed.

Lemma ir_ok_iff nr nc g :
  ir_ok nr nc g = true <-> rlo g <= rhi g /\ rhi g < nr /\ clo g <= chi g /\ chi g < nc.
Proof. unfold ir_ok. rewrite !andb_true_iff, !Nat.leb_le, !Nat.ltb_lt. tauto. Qed.

Lemma ir_ok_in nr nc g r c : ir_ok nr nc g = true -> in_ir g r c = true -> r < nr /\ c < nc.
Proof. rewrite ir_ok_iff, in_ir_iff. lia. Qed.

Lemma is_free_iff nr nc occ r c :
  is_free nr nc occ r c = true <-> r < nr /\ c < nc /\ occ r c = false.
Proof.
  unfold is_free. rewrite !andb_true_iff, !Nat.ltb_lt, negb_true_iff. tauto.
Qed.

(* ---- the checker is sound ---- *)
(* the central invariant: after a successful replay every cell of the matrix is in exactly
   one rectangle if it was free and in none otherwise; cells outside the matrix in none *)
Theorem cover_count nr nc gs : forall occ, is_cover nr nc occ gs = true ->
  forall r c, count_in r c gs = if is_free nr nc occ r c then 1 else 0.
Proof.
  induction gs as [|g rest IH]; intros occ H r c; cbn [is_cover] in H.
  - cbn. destruct (is_free nr nc occ r c) eqn:E; [|reflexivity].
    apply is_free_iff in E. destruct E as (Hr & Hc & E).
    rewrite (proj1 (full_iff nr nc occ) H r c Hr Hc) in E. discriminate.
  - apply andb_true_iff in H. destruct H as [H Hrest]. apply andb_true_iff in H. destruct H as [Hok Hfree].
    specialize (IH _ Hrest r c). unfold count_in in *. cbn [filter].
    destruct (in_ir g r c) eqn:E.
    + cbn [List.length]. rewrite IH.
      assert (F : is_free nr nc (mark occ g) r c = false).
      { unfold is_free, mark. rewrite E. cbn. apply andb_false_r. }
      rewrite F.
      assert (T : is_free nr nc occ r c = true).
      { apply is_free_iff. destruct (ir_ok_in _ _ _ _ _ Hok E). split; [|split]; auto.
        apply (proj1 (all_free_iff occ g) Hfree); exact E. }
      rewrite T. reflexivity.
    + rewrite IH. unfold is_free, mark. rewrite E. reflexivity.
Qed.

Lemma cover_free nr nc gs : forall occ, is_cover nr nc occ gs = true ->
  forall g r c, In g gs -> in_ir g r c = true -> r < nr /\ c < nc /\ occ r c = false.
Proof.
  induction gs as [|g0 rest IH]; intros occ H g r c Hin E; [destruct Hin|]. cbn [is_cover] in H.
  apply andb_true_iff in H. destruct H as [H Hrest]. apply andb_true_iff in H. destruct H as [Hok Hfree].
  destruct Hin as [<-|Hin].
  - destruct (ir_ok_in _ _ _ _ _ Hok E). split; [|split]; auto.
    apply (proj1 (all_free_iff occ g0) Hfree); exact E.
  - destruct (IH _ Hrest g r c Hin E) as (Hr & Hc & M). split; [|split]; auto.
    unfold mark in M. apply orb_false_iff in M. tauto.
Qed.

Lemma cover_ok nr nc gs : forall occ, is_cover nr nc occ gs = true ->
  Forall (fun g => ir_ok nr nc g = true) gs.
Proof.
  induction gs as [|g0 rest IH]; intros occ H; [constructor|]. cbn [is_cover] in H.
  apply andb_true_iff in H. destruct H as [H Hrest]. apply andb_true_iff in H. destruct H as [Hok Hfree].
  constructor; [exact Hok|]. eapply IH; eauto.
Qed.

Lemma cover_disjoint nr nc gs : forall occ, is_cover nr nc occ gs = true ->
  ForallOrdPairs ir_disjoint gs.
Proof.
  induction gs as [|g0 rest IH]; intros occ H; [constructor|]. cbn [is_cover] in H.
  apply andb_true_iff in H. destruct H as [H Hrest]. apply andb_true_iff in H. destruct H as [Hok Hfree].
  constructor; [|eapply IH; eauto].
  apply Forall_forall. intros h Hin r c [E1 E2].
  destruct (cover_free _ _ _ _ Hrest h r c Hin E2) as (_ & _ & M).
  unfold mark in M. rewrite E1 in M. discriminate.
Qed.

Lemma filter_nonempty {A} (p : A -> bool) l : 0 < List.length (filter p l) -> exists x, In x l /\ p x = true.
Proof.
  induction l as [|x l IH]; cbn; [lia|]. destruct (p x) eqn:E.
  - intros _. exists x. auto.
  - intro H. destruct (IH H) as (y & ? & ?). exists y. auto.
Qed.

Theorem cover_sound nr nc occ gs : is_cover nr nc occ gs = true ->
  Forall (fun g => ir_ok nr nc g = true) gs /\
  (forall g r c, In g gs -> in_ir g r c = true -> r < nr /\ c < nc /\ occ r c = false) /\
  ForallOrdPairs ir_disjoint gs /\
  (forall r c, r < nr -> c < nc -> occ r c = false -> exists g, In g gs /\ in_ir g r c = true) /\
  (forall r c, count_in r c gs = if is_free nr nc occ r c then 1 else 0).
Proof.
  intro H. split; [eapply cover_ok; eauto|]. split; [eapply cover_free; eauto|].
  split; [eapply cover_disjoint; eauto|]. split; [|apply cover_count; exact H].
  intros r c Hr Hc E. pose proof (cover_count _ _ _ _ H r c) as C.
  assert (T : is_free nr nc occ r c = true) by (apply is_free_iff; auto). rewrite T in C.
  unfold count_in in C. apply (filter_nonempty (fun g => in_ir g r c)). lia.
Qed.

(* ---- a cover always exists: the greedy cover passes the checker ---- *)
Definition nfree (nr nc : nat) (occ : occ_t) : nat :=
  List.length (filter (fun p => negb (occ (fst p) (snd p))) (grid nr nc)).

Lemma nfree_zero_full nr nc occ : nfree nr nc occ = 0 -> full nr nc occ = true.
Proof.
  unfold nfree. intro H. apply full_iff. intros r c Hr Hc.
  destruct (occ r c) eqn:E; [reflexivity|]. exfalso.
  assert (In (r, c) (filter (fun p => negb (occ (fst p) (snd p))) (grid nr nc))).
  { apply filter_In. split; [apply in_grid; auto|]. cbn. rewrite E. reflexivity. }
  destruct (filter _ _); [contradiction|discriminate].
Qed.

Lemma filter_length_lt {A} (p q : A -> bool) l x :
  (forall y, q y = true -> p y = true) -> In x l -> p x = true -> q x = false ->
  List.length (filter q l) < List.length (filter p l).
Proof.
  intros Hqp. induction l as [|y l IH]; intros Hin Hp Hq; [destruct Hin|].
  assert (Le : forall l', List.length (filter q l') <= List.length (filter p l')).
  { induction l' as [|z l' IH']; cbn; [lia|]. destruct (q z) eqn:Eq.
    - rewrite (Hqp _ Eq). cbn. lia.
    - destruct (p z); cbn; lia. }
  cbn. destruct Hin as [->|Hin].
  - rewrite Hp, Hq. cbn. specialize (Le l). lia.
  - specialize (IH Hin Hp Hq). destruct (q y) eqn:Eq.
    + rewrite (Hqp _ Eq). cbn. lia.
    + destruct (p y); cbn; lia.
Qed.

Lemma nfree_mark nr nc occ g :
  ir_ok nr nc g = true -> all_free occ g = true -> nfree nr nc (mark occ g) < nfree nr nc occ.
Proof.
  intros Hok Hfree. unfold nfree.
  apply ir_ok_iff in Hok.
  assert (E : in_ir g (rlo g) (clo g) = true) by (apply in_ir_iff; lia).
  apply (filter_length_lt _ _ _ (rlo g, clo g)).
  - intros [r c]; cbn. unfold mark. rewrite negb_true_iff, orb_false_iff. intros [_ ->]. reflexivity.
  - apply in_grid. lia.
  - cbn. rewrite (proj1 (all_free_iff occ g) Hfree _ _ E). reflexivity.
  - cbn. unfold mark. rewrite E. reflexivity.
Qed.

Lemma filter_len_le {A} (p : A -> bool) l : List.length (filter p l) <= List.length l.
Proof. induction l as [|x l IH]; cbn; [lia|]. destruct (p x); cbn; lia. Qed.

Lemma nfree_le nr nc occ : nfree nr nc occ <= nr * nc.
Proof.
  unfold nfree. etransitivity; [apply filter_len_le|].
  unfold grid. rewrite prod_length, !seq_length. lia.
Qed.

Lemma in_all_irects nr nc g : In g (all_irects nr nc) <-> ir_ok nr nc g = true.
Proof.
  unfold all_irects. rewrite ir_ok_iff. split.
  - intro H. apply in_flat_map in H. destruct H as (rl & H1 & H).
    apply in_flat_map in H. destruct H as (rh & H2 & H).
    apply in_flat_map in H. destruct H as (cl & H3 & H).
    apply in_map_iff in H. destruct H as (ch & <- & H4).
    apply in_seq in H1, H2, H3, H4. cbn. lia.
  - intros (A & B & C & D). destruct g as [rl rh cl ch]. cbn in *.
    apply in_flat_map. exists rl. split; [apply in_seq; lia|].
    apply in_flat_map. exists rh. split; [apply in_seq; lia|].
    apply in_flat_map. exists cl. split; [apply in_seq; lia|].
    apply in_map_iff. exists ch. split; [reflexivity|apply in_seq; lia].
Qed.

Lemma in_candidates nr nc occ g :
  In g (candidates nr nc occ) <-> ir_ok nr nc g = true /\ all_free occ g = true.
Proof. unfold candidates. rewrite filter_In, in_all_irects. tauto. Qed.

Lemma no_candidates_full nr nc occ : candidates nr nc occ = [] -> full nr nc occ = true.
Proof.
  intro H. apply full_iff. intros r c Hr Hc. destruct (occ r c) eqn:E; [reflexivity|]. exfalso.
  assert (In (mkIR r r c c) (candidates nr nc occ)).
  { apply in_candidates. split.
    - apply ir_ok_iff. cbn. lia.
    - apply all_free_iff. intros r' c' I. apply in_ir_iff in I. cbn in I.
      assert (r' = r) by lia. assert (c' = c) by lia. subst. exact E. }
  rewrite H in H0. destruct H0.
Qed.

Lemma best_in w l : forall cur, In (best w cur l) (cur :: l).
Proof.
  induction l as [|g r IH]; intro cur; cbn [best]; [left; reflexivity|].
  destruct (Qcltb (w cur) (w g)).
  - right. apply IH.
  - destruct (IH cur) as [H|H]; [left; exact H|right; right; exact H].
Qed.

(* the selected rectangle is a largest candidate *)
Lemma best_max w l : forall cur g, In g (cur :: l) -> (w g <= w (best w cur l))%Qc.
Proof.
  induction l as [|h r IH]; intros cur g Hin; cbn [best].
  - destruct Hin as [<-|[]]. apply Qcle_refl.
  - destruct (Qcltb (w cur) (w h)) eqn:E; qb2p.
    + destruct Hin as [<-|[<-|Hin]].
      * eapply Qcle_trans; [apply Qclt_le_weak; exact E|]. apply IH. left. reflexivity.
      * apply IH. left. reflexivity.
      * apply IH. right. exact Hin.
    + destruct Hin as [<-|[<-|Hin]].
      * apply IH. left. reflexivity.
      * eapply Qcle_trans; [exact E|]. apply IH. left. reflexivity.
      * apply IH. right. exact Hin.
Qed.

Lemma greedy_is_cover_fuel w nr nc : forall fuel occ, nfree nr nc occ <= fuel ->
  is_cover nr nc occ (greedy w nr nc occ fuel) = true.
Proof.
  induction fuel as [|f IH]; intros occ Hn; cbn [greedy].
  - cbn. apply nfree_zero_full. lia.
  - destruct (candidates nr nc occ) as [|g0 rest] eqn:C.
    + cbn. apply no_candidates_full. exact C.
    + cbn zeta. cbn [is_cover].
      assert (Hin : In (best w g0 rest) (candidates nr nc occ)) by (rewrite C; apply best_in).
      apply in_candidates in Hin. destruct Hin as [Hok Hfree].
      rewrite Hok, Hfree. cbn. apply IH.
      pose proof (nfree_mark _ _ _ _ Hok Hfree). lia.
Qed.

Theorem greedy_is_cover w nr nc occ : is_cover nr nc occ (greedy_cover w nr nc occ) = true.
Proof. apply greedy_is_cover_fuel. apply nfree_le. Qed.

(* every step of the greedy cover takes a rectangle of free cells of largest weight *)
Theorem greedy_takes_largest w nr nc fuel occ g rest :
  greedy w nr nc occ fuel = g :: rest ->
  ir_ok nr nc g = true /\ all_free occ g = true /\
  forall h, ir_ok nr nc h = true -> all_free occ h = true -> (w h <= w g)%Qc.
Proof.
  destruct fuel as [|f]; cbn [greedy]; [discriminate|].
  destruct (candidates nr nc occ) as [|g0 l] eqn:C; [discriminate|].
  cbn zeta. intro H. injection H as <- _.
  assert (Hin : In (best w g0 l) (candidates nr nc occ)) by (rewrite C; apply best_in).
  apply in_candidates in Hin. destruct Hin as [Hok Hfree]. split; [exact Hok|]. split; [exact Hfree|].
  intros h Hok' Hfree'. apply best_max. rewrite <- C. apply in_candidates. auto.
Qed.

Lemma NoDup_app_intro {A} (l1 l2 : list A) :
  NoDup l1 -> NoDup l2 -> (forall x, In x l1 -> ~ In x l2) -> NoDup (l1 ++ l2).
Proof.
  induction l1 as [|a l1 IH]; intros N1 N2 D; cbn; [exact N2|].
  inversion N1; subst. constructor.
  - rewrite in_app_iff. intros [H|H]; [contradiction|]. apply (D a); [left; reflexivity|exact H].
  - apply IH; auto. intros x Hx. apply D. right. exact Hx.
Qed.

(* the single-cell cover passes the checker as well *)
Lemma cell_cover_aux nr nc : forall (l : list (nat * nat)) occ, NoDup l ->
  (forall p, In p l -> fst p < nr /\ snd p < nc /\ occ (fst p) (snd p) = false) ->
  (forall r c, r < nr -> c < nc -> occ r c = false -> In (r, c) l) ->
  is_cover nr nc occ (map (fun p => mkIR (fst p) (fst p) (snd p) (snd p)) l) = true.
Proof.
  induction l as [|[r0 c0] l IH]; intros occ ND Hl Hall; cbn [map is_cover].
  - apply full_iff. intros r c Hr Hc. destruct (occ r c) eqn:E; [reflexivity|].
    destruct (Hall r c Hr Hc E).
  - destruct (Hl (r0, c0) (or_introl eq_refl)) as (A & B & C). cbn [fst snd] in *.
    assert (Hok : ir_ok nr nc (mkIR r0 r0 c0 c0) = true) by (apply ir_ok_iff; cbn; lia).
    assert (Hfree : all_free occ (mkIR r0 r0 c0 c0) = true).
    { apply all_free_iff. intros r c I. apply in_ir_iff in I. cbn in I.
      assert (r = r0) by lia. assert (c = c0) by lia. subst. exact C. }
    rewrite Hok, Hfree. cbn. inversion ND as [|? ? Hnin ND']; subst. apply IH; [exact ND'| |].
    + intros p Hp. destruct (Hl p (or_intror Hp)) as (A' & B' & C'). split; [|split]; auto.
      unfold mark. rewrite C'. rewrite orb_false_r.
      destruct (in_ir (mkIR r0 r0 c0 c0) (fst p) (snd p)) eqn:I; [|reflexivity].
      apply in_ir_iff in I. cbn in I. exfalso. apply Hnin.
      destruct p as [a b]. cbn in *. assert (a = r0) by lia. assert (b = c0) by lia. subst. exact Hp.
    + intros r c Hr Hc M. unfold mark in M. apply orb_false_iff in M. destruct M as [I M].
      destruct (Hall r c Hr Hc M) as [E|Hin]; [|exact Hin].
      injection E as -> ->. exfalso.
      assert (in_ir (mkIR r r c c) r c = true) by (apply in_ir_iff; cbn; lia). congruence.
Qed.

Theorem cell_cover_is_cover nr nc occ : is_cover nr nc occ (cell_cover nr nc occ) = true.
Proof.
  unfold cell_cover. apply cell_cover_aux.
  - apply NoDup_filter. unfold grid.
    assert (P : forall (l1 l2 : list nat), NoDup l1 -> NoDup l2 -> NoDup (list_prod l1 l2)).
    { induction l1 as [|a l1 IH]; intros l2 N1 N2; cbn; [constructor|].
      inversion N1; subst. apply NoDup_app_intro.
      - apply FinFun.Injective_map_NoDup; [|exact N2]. intros x y E. congruence.
      - apply IH; auto.
      - intros [x y] I1 I2. apply in_map_iff in I1. destruct I1 as (z & E & _). injection E as <- <-.
        apply in_prod_iff in I2. tauto. }
    apply P; apply seq_NoDup.
  - intros [r c] H. apply filter_In in H. destruct H as [H E]. apply in_grid in H. cbn in *.
    apply negb_true_iff in E. tauto.
  - intros r c Hr Hc E. apply filter_In. split; [apply in_grid; auto|]. cbn. rewrite E. reflexivity.
Qed.
