(* The Hanan-grid property (C01): a rectangle whose four sides are grid lines is exactly a
   range of cells - a cell centre is point_inside it iff the whole cell is inside it, and
   its area is the sum of the areas of those cells. *)
From FrameModel Require Import Num.QcTac Geometry.Rect Geometry.RectFacts
  Die.Boundaries Die.Cells Die.Cover Die.CoverFacts Die.GridFacts.
Open Scope Qc_scope.

Fixpoint idx (v : Qc) (l : list Qc) : nat :=
  match l with [] => O | x :: r => if Qceqb v x then O else S (idx v r) end.

Lemma idx_spec v l : In v l -> (idx v l < List.length l)%nat /\ nthq l (idx v l) = v.
Proof.
  induction l as [|x r IH]; intro H; [destruct H|]. cbn [idx].
  destruct (Qceqb v x) eqn:E; qb2p.
  - split; [cbn; lia|]. unfold nthq. cbn. congruence.
  - destruct H as [H|H]; [congruence|]. destruct (IH H) as [A B]. split; [cbn; lia|].
    unfold nthq in *. cbn [nth]. exact B.
Qed.

(* ---------------- one axis ---------------- *)
Section Axis.
  Variable l : list Qc.
  Hypothesis Hl : incr l.

  Lemma centre_between j : (S j < List.length l)%nat -> nthq l j < centre l j /\ centre l j < nthq l (S j).
  Proof.
    intro H. assert (L : nthq l j < nthq l (S j)) by (apply incr_nth_lt; [exact Hl|lia]).
    unfold centre. revert L. generalize (nthq l (S j)). generalize (nthq l j). intros p q L. split; qlra.
  Qed.

  Lemma centre_in_iff a b j : (a < List.length l)%nat -> (b < List.length l)%nat -> (S j < List.length l)%nat ->
    (nthq l a <= centre l j /\ centre l j <= nthq l b) <-> (a <= j /\ S j <= b)%nat.
  Proof.
    intros Ha Hb Hj. destruct (centre_between j Hj) as [C1 C2]. split.
    - intros [L1 L2]. split.
      + destruct (Nat.le_gt_cases a j) as [?|G]; [assumption|]. exfalso.
        assert (nthq l (S j) <= nthq l a) by (apply incr_nth_le; [exact Hl|lia]). qlra.
      + destruct (Nat.le_gt_cases (S j) b) as [?|G]; [assumption|]. exfalso.
        assert (nthq l b <= nthq l j) by (apply incr_nth_le; [exact Hl|lia]). qlra.
    - intros [L1 L2].
      assert (nthq l a <= nthq l j) by (apply incr_nth_le; [exact Hl|lia]).
      assert (nthq l (S j) <= nthq l b) by (apply incr_nth_le; [exact Hl|lia]). split; qlra.
  Qed.

  Lemma centre_in_strict a b j : (a < List.length l)%nat -> (b < List.length l)%nat -> (S j < List.length l)%nat ->
    nthq l a <= centre l j -> centre l j <= nthq l b -> nthq l a < centre l j /\ centre l j < nthq l b.
  Proof.
    intros Ha Hb Hj L1 L2. destruct (proj1 (centre_in_iff a b j Ha Hb Hj) (conj L1 L2)) as [A B].
    destruct (centre_between j Hj) as [C1 C2].
    assert (nthq l a <= nthq l j) by (apply incr_nth_le; [exact Hl|lia]).
    assert (nthq l (S j) <= nthq l b) by (apply incr_nth_le; [exact Hl|lia]). split; qlra.
  Qed.

  Lemma cell_in_iff a b j : (a < List.length l)%nat -> (b < List.length l)%nat -> (S j < List.length l)%nat ->
    (nthq l a <= nthq l j /\ nthq l (S j) <= nthq l b) <-> (a <= j /\ S j <= b)%nat.
  Proof.
    intros Ha Hb Hj. split.
    - intros [L1 L2]. split; apply (incr_nth_le_inv l Hl); auto; lia.
    - intros [A B]. split; apply incr_nth_le; auto; lia.
  Qed.
End Axis.

(* ---------------- a rectangle on the grid ---------------- *)
Definition input_ir (xs ys : list Qc) (r : Rect) : irect :=
  mkIR (idx (ymin r) ys) (idx (ymax r) ys - 1) (idx (xmin r) xs) (idx (xmax r) xs - 1).

(* all four sides are grid lines *)
Definition on_grid (xs ys : list Qc) (r : Rect) : Prop :=
  In (xmin r) xs /\ In (xmax r) xs /\ In (ymin r) ys /\ In (ymax r) ys.

Section OnGrid.
  Variables (xs ys : list Qc) (nr nc : nat).
  Hypothesis Hx : incr xs.
  Hypothesis Hy : incr ys.
  Hypothesis Hnc : nc = (List.length xs - 1)%nat.
  Hypothesis Hnr : nr = (List.length ys - 1)%nat.
  Variable r : Rect.
  Hypothesis Hwf : wf r.
  Hypothesis Hg : on_grid xs ys r.

  Lemma rect_bounds : xmin r < xmax r /\ ymin r < ymax r.
  Proof. destruct Hwf. unfold xmin, xmax, ymin, ymax. split; qlra. Qed.

  (* the indices of the four sides *)
  Lemma input_ir_facts :
    let g := input_ir xs ys r in
    ir_ok nr nc g = true /\
    nthq xs (clo g) = xmin r /\ nthq xs (S (chi g)) = xmax r /\
    nthq ys (rlo g) = ymin r /\ nthq ys (S (rhi g)) = ymax r.
  Proof.
    destruct Hg as (G1 & G2 & G3 & G4). destruct rect_bounds as [Bx By].
    destruct (idx_spec _ _ G1) as [A1 E1]. destruct (idx_spec _ _ G2) as [A2 E2].
    destruct (idx_spec _ _ G3) as [A3 E3]. destruct (idx_spec _ _ G4) as [A4 E4].
    assert (Lx : (idx (xmin r) xs < idx (xmax r) xs)%nat).
    { apply (incr_nth_lt_inv xs Hx); auto. rewrite E1, E2. exact Bx. }
    assert (Ly : (idx (ymin r) ys < idx (ymax r) ys)%nat).
    { apply (incr_nth_lt_inv ys Hy); auto. rewrite E3, E4. exact By. }
    cbn zeta. unfold input_ir. cbn [rlo rhi clo chi].
    replace (S (idx (xmax r) xs - 1)) with (idx (xmax r) xs) by lia.
    replace (S (idx (ymax r) ys - 1)) with (idx (ymax r) ys) by lia.
    split; [|auto]. apply ir_ok_iff. cbn [rlo rhi clo chi]. lia.
  Qed.

  (* (iv) the occupancy test at a cell centre decides membership of the whole cell *)
  Lemma centre_inside_iff i j : (i < nr)%nat -> (j < nc)%nat ->
    point_inside r (centre xs j) (centre ys i) = in_ir (input_ir xs ys r) i j.
  Proof.
    intros Hi Hj. destruct input_ir_facts as (Ok & X0 & X1 & Y0 & Y1). apply ir_ok_iff in Ok.
    apply Bool.eq_iff_eq_true. rewrite point_inside_iff, in_ir_iff. unfold Pt.
    rewrite <- X0, <- X1, <- Y0, <- Y1.
    pose proof (centre_in_iff xs Hx (clo (input_ir xs ys r)) (S (chi (input_ir xs ys r))) j) as Cx.
    pose proof (centre_in_iff ys Hy (rlo (input_ir xs ys r)) (S (rhi (input_ir xs ys r))) i) as Cy.
    split.
    - intros (A & B & C & D). destruct (proj1 (Cx ltac:(lia) ltac:(lia) ltac:(lia)) (conj A B)).
      destruct (proj1 (Cy ltac:(lia) ltac:(lia) ltac:(lia)) (conj C D)). lia.
    - intros [A B].
      destruct (proj2 (Cx ltac:(lia) ltac:(lia) ltac:(lia)) ltac:(lia)).
      destruct (proj2 (Cy ltac:(lia) ltac:(lia) ltac:(lia)) ltac:(lia)). tauto.
  Qed.

  Lemma centre_inside_strict i j : (i < nr)%nat -> (j < nc)%nat ->
    point_inside r (centre xs j) (centre ys i) = true -> IntPt r (centre xs j) (centre ys i).
  Proof.
    intros Hi Hj P. destruct input_ir_facts as (Ok & X0 & X1 & Y0 & Y1). apply ir_ok_iff in Ok.
    apply point_inside_iff in P. destruct P as (A & B & C & D). unfold IntPt.
    rewrite <- X0, <- X1, <- Y0, <- Y1 in *.
    destruct (centre_in_strict xs Hx (clo (input_ir xs ys r)) (S (chi (input_ir xs ys r))) j ltac:(lia) ltac:(lia) ltac:(lia) A B).
    destruct (centre_in_strict ys Hy (rlo (input_ir xs ys r)) (S (rhi (input_ir xs ys r))) i ltac:(lia) ltac:(lia) ltac:(lia) C D). tauto.
  Qed.

  Theorem hanan_cell i j t : (i < nr)%nat -> (j < nc)%nat ->
    (point_inside r (centre xs j) (centre ys i) = true <->
     is_inside (sp xs ys (mkIR i i j j) t) r = true).
  Proof.
    intros Hi Hj. rewrite centre_inside_iff by assumption.
    destruct input_ir_facts as (Ok & X0 & X1 & Y0 & Y1). apply ir_ok_iff in Ok.
    rewrite is_inside_coords, in_ir_iff. unfold sp. cbn [rlo rhi clo chi].
    destruct (span_coords xs ys i i j j t) as (S0 & S1 & S2 & S3). rewrite S0, S1, S2, S3.
    rewrite <- X0, <- X1, <- Y0, <- Y1.
    pose proof (cell_in_iff xs Hx (clo (input_ir xs ys r)) (S (chi (input_ir xs ys r))) j) as Cx.
    pose proof (cell_in_iff ys Hy (rlo (input_ir xs ys r)) (S (rhi (input_ir xs ys r))) i) as Cy.
    split.
    - intros [A B].
      destruct (proj2 (Cx ltac:(lia) ltac:(lia) ltac:(lia)) ltac:(lia)).
      destruct (proj2 (Cy ltac:(lia) ltac:(lia) ltac:(lia)) ltac:(lia)). tauto.
    - intros (A & B & C & D). destruct (proj1 (Cx ltac:(lia) ltac:(lia) ltac:(lia)) (conj A C)).
      destruct (proj1 (Cy ltac:(lia) ltac:(lia) ltac:(lia)) (conj B D)). lia.
  Qed.

  (* same geometry as the span of its index-rectangle, hence area = sum of its cells *)
  Lemma input_geom t :
    let s := sp xs ys (input_ir xs ys r) t in
    cx s = cx r /\ cy s = cy r /\ rw s = rw r /\ rh s = rh r.
  Proof.
    destruct input_ir_facts as (Ok & X0 & X1 & Y0 & Y1). cbn zeta.
    unfold sp, span_rect. cbn [cx cy rw rh]. rewrite X0, X1, Y0, Y1.
    unfold xmin, xmax, ymin, ymax. generalize (cx r) (cy r) (rw r) (rh r). intros a b c d.
    repeat split; qlra.
  Qed.

  Theorem hanan_area : area r = Qcsum (map (cell_area xs ys) (ir_cells (input_ir xs ys r))).
  Proof.
    destruct input_ir_facts as (Ok & _). apply ir_ok_iff in Ok.
    rewrite <- (sp_area xs ys _ "_"%string) by lia.
    destruct (input_geom "_"%string) as (_ & _ & W & H). unfold area. rewrite W, H. reflexivity.
  Qed.
End OnGrid.
