(* Model of frame/geometry/geometry.py: gather_boundaries.
   Collects the x (y) coordinates of both sides of every rectangle, sorts them
   ascending and keeps a value only if it exceeds the last KEPT value by more
   than eps (`val > uniq[-1] + epsilon`).  Definitions only. *)
From FrameModel Require Import Num.QcTac Geometry.Rect.
Open Scope Qc_scope.

(* list.sort(): any stable sort gives the same list of numbers *)
Fixpoint insert (x : Qc) (l : list Qc) : list Qc :=
  match l with
  | [] => [x]
  | y :: r => if Qcleb x y then x :: l else y :: insert x r
  end.
Fixpoint sort (l : list Qc) : list Qc :=
  match l with [] => [] | x :: r => insert x (sort r) end.

(* the "remove duplicates" loop; [last] is uniq[-1] *)
Fixpoint dedup_from (eps last : Qc) (l : list Qc) : list Qc :=
  match l with
  | [] => []
  | v :: r => if Qcltb (last + eps) v then v :: dedup_from eps v r else dedup_from eps last r
  end.
Definition dedup (eps : Qc) (l : list Qc) : list Qc :=
  match l with [] => [] | v :: r => v :: dedup_from eps v r end.

Definition xcoords (rs : list Rect) : list Qc := flat_map (fun r => [xmin r; xmax r]) rs.
Definition ycoords (rs : list Rect) : list Qc := flat_map (fun r => [ymin r; ymax r]) rs.

Definition xbounds (eps : Qc) (rs : list Rect) : list Qc := dedup eps (sort (xcoords rs)).
Definition ybounds (eps : Qc) (rs : list Rect) : list Qc := dedup eps (sort (ycoords rs)).
Definition gather_boundaries (eps : Qc) (rs : list Rect) : list Qc * list Qc :=
  (xbounds eps rs, ybounds eps rs).

(* ---- specification vocabulary ---- *)
(* strictly increasing list *)
Fixpoint incr (l : list Qc) : Prop :=
  match l with
  | [] => True
  | x :: r => match r with [] => True | y :: _ => x < y end /\ incr r
  end.
(* every two values are equal or more than eps apart: the regime in which a tolerance is meaningful *)
Definition sep (eps : Qc) (l : list Qc) : Prop :=
  forall a b, In a l -> In b l -> a = b \/ a + eps < b \/ b + eps < a.
