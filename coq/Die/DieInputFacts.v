(* Facts about the input forms of a die description (Die/DieInput.v): the short string form
   '<W>x<H>' means exactly the dict {width: W, height: H}; every form that resolves to a tree
   is constructed exactly like that tree, so the theorems of DieFacts.v (die_tiles,
   die_accepts_valid, die_rejects_invalid) hold of every input form, with the fixed
   rectangles of the netlist taking part whatever the form. *)
From Coq Require Import Permutation Ascii String.
From FrameModel Require Import Num.QcTac Geometry.Rect Die.Boundaries Die.Cells Die.Cover
  Die.DieModel Die.DieFacts Die.DieInput.
Open Scope Qc_scope.

(* ---------------- str.rsplit('x') ---------------- *)
Definition no_x (l : list ascii) : Prop := Forall (fun c => is_char 120 c = false) l.
Definition char_x : ascii := ascii_of_nat 120.

Lemma split_x_no_x : forall l cur, no_x l -> split_x l cur = [(rev cur ++ l)%list].
Proof.
  induction l as [|c r IH]; intros cur H; cbn.
  - rewrite app_nil_r. reflexivity.
  - inversion H as [|? ? Hc Hr]; subst. rewrite Hc. rewrite (IH (c :: cur) Hr). cbn.
    rewrite <- app_assoc. reflexivity.
Qed.

Lemma split_x_one : forall a cur b, no_x a -> no_x b ->
  split_x (a ++ char_x :: b) cur = [(rev cur ++ a)%list; b].
Proof.
  induction a as [|c r IH]; intros cur b Ha Hb; cbn [app split_x].
  - replace (is_char 120 char_x) with true by reflexivity. rewrite (split_x_no_x b [] Hb).
    cbn. rewrite app_nil_r. reflexivity.
  - inversion Ha as [|? ? Hc Hr]; subst. rewrite Hc. rewrite (IH (c :: cur) b Hr Hb). cbn.
    rewrite <- app_assoc. reflexivity.
Qed.

Lemma is_char_eq n c : (n < 256)%nat -> is_char n c = true -> c = ascii_of_nat n.
Proof.
  unfold is_char, code. intros Hn H. apply Nat.eqb_eq in H. rewrite <- H. symmetry. apply ascii_nat_embedding.
Qed.

Lemma split_x_nonempty : forall l cur, split_x l cur <> [].
Proof. induction l as [|c r IH]; intros cur; cbn; [discriminate|]. destruct (is_char 120 c); [discriminate|apply IH]. Qed.

Lemma split_x_single_inv : forall l cur q, split_x l cur = [q] -> no_x l /\ q = (rev cur ++ l)%list.
Proof.
  induction l as [|c r IH]; intros cur q H; cbn in H.
  - injection H as H. subst. split; [constructor|]. rewrite app_nil_r. reflexivity.
  - destruct (is_char 120 c) eqn:Hc.
    + injection H as _ H. exfalso. exact (split_x_nonempty r [] H).
    + destruct (IH (c :: cur) q H) as [Hr Hq]. split; [constructor; assumption|].
      rewrite Hq. cbn. rewrite <- app_assoc. reflexivity.
Qed.

(* the converse: exactly two parts = exactly one 'x' *)
Lemma split_x_two_inv : forall l cur p q, split_x l cur = [p; q] ->
  exists a, l = (a ++ char_x :: q)%list /\ p = (rev cur ++ a)%list /\ no_x a /\ no_x q.
Proof.
  induction l as [|c r IH]; intros cur p q H; cbn in H.
  - discriminate.
  - destruct (is_char 120 c) eqn:Hc.
    + injection H as Hp Hq. destruct (split_x_single_inv r [] q Hq) as [Hr Hqr]. cbn in Hqr. subst q.
      assert (Hx : c = char_x) by (apply is_char_eq; [repeat constructor | exact Hc]).
      exists []. subst c. cbn. rewrite app_nil_r. repeat split; auto. constructor.
    + destruct (IH (c :: cur) p q H) as (a & Hl & Hp & Ha & Hq). exists (c :: a). repeat split.
      * cbn. rewrite Hl. reflexivity.
      * rewrite Hp. cbn. rewrite <- app_assoc. reflexivity.
      * constructor; assumption.
      * exact Hq.
Qed.

(* ---------------- string_die ---------------- *)
(* '<a>x<b>' with float(a) = w > 0, float(b) = h > 0, both finite, is the shape (w, h) *)
Theorem string_die_intro : forall a b w h, no_x a -> no_x b ->
  py_float a = Some (PFin w) -> py_float b = Some (PFin h) -> 0 < w -> 0 < h ->
  string_die_chars (a ++ char_x :: b) = SDShape w h.
Proof.
  intros a b w h Ha Hb Fa Fb Hw Hh. unfold string_die_chars.
  rewrite (split_x_one a [] b Ha Hb). cbn [rev app]. rewrite Fa, Fb. cbn [is_positive].
  apply Qcltb_true in Hw. apply Qcltb_true in Hh. rewrite Hw, Hh. reflexivity.
Qed.

(* and nothing else is *)
Theorem string_die_inv : forall l w h, string_die_chars l = SDShape w h ->
  exists a b, l = (a ++ char_x :: b)%list /\ no_x a /\ no_x b /\
    py_float a = Some (PFin w) /\ py_float b = Some (PFin h) /\ 0 < w /\ 0 < h.
Proof.
  intros l w h H. unfold string_die_chars in H.
  destruct (split_x l []) as [|p [|q [|x rest]]] eqn:Hs; try discriminate.
  destruct (split_x_two_inv l [] p q Hs) as (a & Hl & Hp & Ha & Hq). cbn in Hp. subst p.
  destruct (py_float a) as [fa|] eqn:Fa; [|discriminate].
  destruct (py_float q) as [fb|] eqn:Fb; [|discriminate].
  destruct (is_positive fa && is_positive fb) eqn:Hpos; [|discriminate].
  destruct fa as [wa| |]; destruct fb as [hb| |]; try discriminate.
  injection H as Hw Hh. subst wa hb.
  apply andb_true_iff in Hpos. destruct Hpos as [P1 P2]. cbn in P1, P2.
  apply Qcltb_true in P1. apply Qcltb_true in P2.
  exists a, q. repeat split; assumption.
Qed.

(* the dict the string form stands for parses to (w, h, no regions) *)
Lemma parse_shape_tree w h fx : 0 < w -> 0 < h -> parse (mkDesc (shape_tree w h) fx) = Some (w, h, []).
Proof.
  intros Hw Hh. unfold parse, shape_tree. cbn.
  apply Qcltb_true in Hw. apply Qcltb_true in Hh. rewrite Hw, Hh. reflexivity.
Qed.

Lemma string_die_pos s w h : string_die s = SDShape w h -> 0 < w /\ 0 < h.
Proof. intro H. destruct (string_die_inv _ _ _ H) as (a & b & _ & _ & _ & _ & _ & Hw & Hh). split; assumption. Qed.

Section World.
  Variable file_of : string -> option string.
  Variable yaml_load : string -> yload.
  Notation resolve := (resolve file_of yaml_load).
  Notation die_in_with_cover := (die_in_with_cover file_of yaml_load).

  (* (i) the string form means the same as the dict form {width, height}: same result for
     every netlist and every cover, whatever the file system and the loader *)
  Theorem string_same_as_dict : forall eps aeps deps tin s w h fx gs,
    string_die s = SDShape w h ->
    die_in_with_cover eps aeps deps tin (InStr s) fx gs =
    die_in_with_cover eps aeps deps tin (InMap (shape_tree w h)) fx gs /\
    die_in_with_cover eps aeps deps tin (InStr s) fx gs =
    IRes (die_with_cover eps aeps deps tin (mkDesc (shape_tree w h) fx) gs) /\
    parse (mkDesc (shape_tree w h) fx) = Some (w, h, []).
  Proof.
    intros eps aeps deps tin s w h fx gs H. destruct (string_die_pos s w h H) as [Hw Hh].
    unfold DieInput.die_in_with_cover, DieInput.resolve. rewrite H.
    repeat split; try reflexivity. apply parse_shape_tree; assumption.
  Qed.

  (* (ii) every form that resolves to a tree is constructed like that tree *)
  Theorem resolved_same_as_dict : forall eps aeps deps tin i t fx gs, resolve i = RTree t ->
    die_in_with_cover eps aeps deps tin i fx gs = IRes (die_with_cover eps aeps deps tin (mkDesc t fx) gs).
  Proof. intros. unfold DieInput.die_in_with_cover. rewrite H. reflexivity. Qed.

  (* (iii) so a valid description is never rejected and its regions tile the die, in every
     form; the fixed rectangles of the netlist are among the regions reported *)
  Theorem input_accepts_valid : forall eps aeps deps tin i t fx w h regions gs,
    0 <= eps -> 0 <= aeps -> 0 < deps -> 0 <= tin ->
    resolve i = RTree t -> parse (mkDesc t fx) = Some (w, h, regions) ->
    let ins := inputs regions fx in
    let xs := die_xs eps w h ins in
    let ys := die_ys eps w h ins in
    separated eps w h ins -> valid w h ins -> accepted_cover eps w h ins gs ->
    die_in_with_cover eps aeps deps tin i fx gs =
      IRes (Accept (map (ground_of xs ys) gs) (specialised regions) (blockages regions) fx) /\
    tiles (ins ++ map (ground_of xs ys) gs) (die_rect w h) /\
    (forall r, In r fx -> In r (ins ++ map (ground_of xs ys) gs)).
  Proof.
    intros eps aeps deps tin i t fx w h regions gs He Ha Hd Ht Hr Hp ins xs ys Hsep Hval Hcov.
    rewrite (resolved_same_as_dict eps aeps deps tin i t fx gs Hr).
    pose proof (die_accepts_valid eps aeps deps tin (mkDesc t fx) w h regions gs He Ha Hd Ht Hp Hsep Hval Hcov) as HA.
    pose proof (die_tiles eps (mkDesc t fx) w h regions gs He Hp Hsep Hval Hcov) as HT.
    cbn [d_fixed] in HA, HT. destruct HT as (T1 & T2 & _).
    split; [rewrite HA; reflexivity|]. split; [exact T1|].
    intros r Hin. apply T2. unfold inputs. rewrite !in_app_iff. right. right. exact Hin.
  Qed.

  (* the short string form with a netlist: the fixed rectangles are carved out of the die *)
  Theorem string_die_tiles : forall eps aeps deps tin s w h fx gs,
    0 <= eps -> 0 <= aeps -> 0 < deps -> 0 <= tin ->
    string_die s = SDShape w h ->
    let xs := die_xs eps w h fx in
    let ys := die_ys eps w h fx in
    separated eps w h fx -> valid w h fx -> accepted_cover eps w h fx gs ->
    die_in_with_cover eps aeps deps tin (InStr s) fx gs = IRes (Accept (map (ground_of xs ys) gs) [] [] fx) /\
    tiles (fx ++ map (ground_of xs ys) gs) (die_rect w h).
  Proof.
    intros eps aeps deps tin s w h fx gs He Ha Hd Ht Hs xs ys Hsep Hval Hcov.
    destruct (string_die_pos s w h Hs) as [Hw Hh].
    assert (Hr : resolve (InStr s) = RTree (shape_tree w h)) by (unfold DieInput.resolve; rewrite Hs; reflexivity).
    destruct (input_accepts_valid eps aeps deps tin (InStr s) (shape_tree w h) fx w h [] gs He Ha Hd Ht Hr
                (parse_shape_tree w h fx Hw Hh) Hsep Hval Hcov) as (A & T & _).
    split; [exact A | exact T].
  Qed.

  (* (iv) invalid descriptions are rejected in every form *)
  Theorem input_rejects_invalid : forall eps aeps deps tin i t fx gs, resolve i = RTree t ->
    malformed (mkDesc t fx) \/ leaves_die tin (mkDesc t fx) \/ overlapping aeps (mkDesc t fx) ->
    exists why, die_in_with_cover eps aeps deps tin i fx gs = IRes (Reject why).
  Proof.
    intros eps aeps deps tin i t fx gs Hr H. rewrite (resolved_same_as_dict eps aeps deps tin i t fx gs Hr).
    destruct (die_rejects_invalid eps aeps deps tin (mkDesc t fx) gs H) as [why Hw]. exists why. rewrite Hw. reflexivity.
  Qed.

  (* a form that does not resolve to a tree is never accepted *)
  Theorem unresolved_not_accepted : forall eps aeps deps tin i fx gs,
    (forall t, resolve i <> RTree t) ->
    forall g s b f, die_in_with_cover eps aeps deps tin i fx gs <> IRes (Accept g s b f).
  Proof.
    intros eps aeps deps tin i fx gs H g s b f. unfold DieInput.die_in_with_cover.
    destruct (resolve i) eqn:E; try discriminate. exfalso. apply (H t). reflexivity.
  Qed.
  (* what was constructed before does not matter *)
  Theorem construction_independent : forall before c after,
    nth_error (construct_all file_of yaml_load (before ++ c :: after)) (List.length before) =
    Some (construct file_of yaml_load c).
  Proof.
    intros before c after. unfold construct_all. rewrite map_app. cbn [map].
    rewrite nth_error_app2; rewrite map_length; [|lia]. rewrite Nat.sub_diag. reflexivity.
  Qed.
End World.

(* the same objects handed to several constructions: every construction returns what a fresh
   construction on the objects as the user made them returns, and the objects are left as they were *)
Theorem session_fresh : forall A (f : die_input -> list Rect -> A) o steps,
  session f o steps = map (fun b => f (o_desc o) (call_fixed o b)) steps.
Proof.
  intros A f o steps. revert o. induction steps as [|b rest IH]; intro o; cbn [session map]; [reflexivity|].
  unfold after_call. rewrite IH. reflexivity.
Qed.
Theorem session_objects_unchanged : forall o steps, objects_after o steps = o.
Proof.
  intros o steps. unfold objects_after. revert o. induction steps as [|b rest IH]; intro o; cbn [fold_left]; [reflexivity|].
  unfold after_call at 2. apply IH.
Qed.
(* in particular Die(d) followed by Die(d, netlist) on the same d: the second result is that of a first use *)
Corollary session_second_use : forall A (f : die_input -> list Rect -> A) o b1 b2,
  nth_error (session f o [b1; b2]) 1 = Some (f (o_desc o) (call_fixed o b2)).
Proof. intros. rewrite session_fresh. reflexivity. Qed.

(* the dispatch of a str: what each of the three readings needs *)
Theorem read_order : forall file_of yaml_load s,
  match string_die s with
  | SDShape w h => resolve file_of yaml_load (InStr s) = RTree (shape_tree w h)
  | SDNotPositive => resolve file_of yaml_load (InStr s) = RAssert
  | SDInfinite => resolve file_of yaml_load (InStr s) = RInfinite
  | SDNone =>
      if is_text (chars s) then resolve file_of yaml_load (InStr s) = from_text yaml_load s
      else resolve file_of yaml_load (InStr s) =
           match file_of s with Some txt => from_text yaml_load txt | None => RRaise end
  end.
Proof.
  intros. unfold resolve, read_str. destruct (string_die s); try reflexivity.
  destruct (is_text (chars s)); reflexivity.
Qed.

(* non-vacuity: concrete spellings *)
Open Scope string_scope.
Example string_die_examples :
  string_die "10x9" = SDShape (qc 10 1) (qc 9 1) /\
  string_die " 1.25e1 x 1_0 " = SDShape (qc 25 2) (qc 10 1) /\
  string_die "+5.x.5" = SDShape (qc 5 1) (qc 1 2) /\
  string_die "125E-1x1e+1" = SDShape (qc 25 2) (qc 10 1) /\
  string_die "0x10" = SDNotPositive /\ string_die "nanx5" = SDNotPositive /\ string_die "10x-9" = SDNotPositive /\
  string_die "infx5" = SDInfinite /\
  string_die "10x9x8" = SDNone /\ string_die "10X9" = SDNone /\ string_die "1__0x9" = SDNone /\
  string_die "1e_1x2" = SDNone /\ string_die ".x2" = SDNone /\ string_die "+ 1x2" = SDNone /\
  string_die "width: 10" = SDNone.
Proof. repeat split; vm_compute; try reflexivity; f_equal; apply Qc_is_canon; vm_compute; reflexivity. Qed.
