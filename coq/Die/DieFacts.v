(* C01: the die model tiles the die, accepts every valid description and rejects the
   invalid ones (exact arithmetic, eps-separated coordinates). *)
From Coq Require Import Permutation.
From FrameModel Require Import Num.QcTac Geometry.Rect Geometry.RectFacts
  Die.Boundaries Die.BoundariesFacts Die.Cells Die.Cover Die.CoverFacts Die.GridFacts Die.HananFacts
  Die.DieModel.
Open Scope Qc_scope.

(* ---------------- tiles depends on the geometry only ---------------- *)
Definition geq (a b : Rect) : Prop := cx a = cx b /\ cy a = cy b /\ rw a = rw b /\ rh a = rh b.

Lemma geq_coords a b : geq a b -> xmin a = xmin b /\ xmax a = xmax b /\ ymin a = ymin b /\ ymax a = ymax b.
Proof. intros (A & B & C & D). unfold xmin, xmax, ymin, ymax. rewrite A, B, C, D. auto. Qed.
Lemma geq_ov a b c d : geq a b -> geq c d -> area_overlap a c = area_overlap b d.
Proof.
  intros H1 H2. apply geq_coords in H1, H2. destruct H1 as (A1 & A2 & A3 & A4), H2 as (B1 & B2 & B3 & B4).
  unfold area_overlap. rewrite A1, A2, A3, A4, B1, B2, B3, B4. reflexivity.
Qed.
Lemma geq_inside a b c d : geq a b -> geq c d -> is_inside a c = is_inside b d.
Proof.
  intros H1 H2. apply geq_coords in H1, H2. destruct H1 as (A1 & A2 & A3 & A4), H2 as (B1 & B2 & B3 & B4).
  unfold is_inside. rewrite A1, A2, A3, A4, B1, B2, B3, B4. reflexivity.
Qed.

Lemma tiles_geq l l' d d' : Forall2 geq l l' -> geq d d' -> tiles l d -> tiles l' d'.
Proof.
  intros F G (T1 & T2 & T3). unfold tiles. split; [|split].
  - clear T2 T3. induction F as [|a b l l' Hab F IH]; [constructor|].
    inversion T1 as [|? ? [Wa Ia] T1']; subst. constructor; [|apply IH; exact T1'].
    split.
    + destruct Hab as (_ & _ & C & D). unfold wf in *. rewrite <- C, <- D. exact Wa.
    + rewrite <- (geq_inside a b d d' Hab G). exact Ia.
  - clear T1 T3. induction F as [|a b l l' Hab F IH]; [exact I|]. destruct T2 as [Ta T2'].
    cbn [pairwise_no_ov]. split; [|apply IH; exact T2'].
    clear IH T2'. induction F as [|c e l l' Hce F IH']; [constructor|].
    inversion Ta; subst. constructor; [|apply IH'; assumption].
    rewrite <- (geq_ov a b c e Hab Hce). assumption.
  - assert (E : map area l = map area l').
    { clear T1 T2 T3. induction F as [|a b l l' Hab F IH]; [reflexivity|]. cbn [map]. rewrite IH.
      destruct Hab as (_ & _ & C & D). unfold area. rewrite C, D. reflexivity. }
    rewrite <- E, T3. destruct G as (_ & _ & C & D). unfold area. rewrite C, D. reflexivity.
Qed.

(* ---------------- ... and not on the order ---------------- *)
Lemma pairwise_perm l l' : Permutation l l' -> pairwise_no_ov l -> pairwise_no_ov l'.
Proof.
  induction 1 as [|x l l' P IH|x y l|l l' l'' P1 IH1 P2 IH2]; intro H.
  - exact I.
  - destruct H as [H1 H2]. split; [|apply IH; exact H2]. eapply Permutation_Forall; eauto.
  - destruct H as [H1 [H2 H3]]. inversion H1 as [|? ? Hyx H1']; subst.
    split; [constructor; [rewrite ov_sym; exact Hyx|exact H2]|]. split; [exact H1'|exact H3].
  - auto.
Qed.
Lemma Qcsum_perm l l' : Permutation l l' -> Qcsum l = Qcsum l'.
Proof.
  induction 1 as [|x l l' P IH|x y l|l l' l'' P1 IH1 P2 IH2]; cbn [Qcsum]; try congruence; ring.
Qed.
Lemma tiles_perm l l' d : Permutation l l' -> tiles l d -> tiles l' d.
Proof.
  intros P (T1 & T2 & T3). split; [|split].
  - eapply Permutation_Forall; eauto.
  - eapply pairwise_perm; eauto.
  - rewrite <- T3. symmetry. apply Qcsum_perm. apply Permutation_map. exact P.
Qed.

(* ---------------- coordinates ---------------- *)
Lemma die_coords w h :
  xmin (die_rect w h) = 0 /\ xmax (die_rect w h) = w /\ ymin (die_rect w h) = 0 /\ ymax (die_rect w h) = h.
Proof. unfold xmin, xmax, ymin, ymax, die_rect; cbn [cx cy rw rh]. repeat split; qlra. Qed.

Lemma in_xcoords l r : In r l -> In (xmin r) (xcoords l) /\ In (xmax r) (xcoords l).
Proof. intro H. unfold xcoords. split; apply in_flat_map; exists r; cbn; auto. Qed.
Lemma in_ycoords l r : In r l -> In (ymin r) (ycoords l) /\ In (ymax r) (ycoords l).
Proof. intro H. unfold ycoords. split; apply in_flat_map; exists r; cbn; auto. Qed.
Lemma xcoords_inv l v : In v (xcoords l) -> exists r, In r l /\ (v = xmin r \/ v = xmax r).
Proof.
  unfold xcoords. intro H. apply in_flat_map in H. destruct H as (r & Hr & Hv). exists r. split; [exact Hr|].
  cbn in Hv. intuition.
Qed.
Lemma ycoords_inv l v : In v (ycoords l) -> exists r, In r l /\ (v = ymin r \/ v = ymax r).
Proof.
  unfold ycoords. intro H. apply in_flat_map in H. destruct H as (r & Hr & Hv). exists r. split; [exact Hr|].
  cbn in Hv. intuition.
Qed.

(* a strictly increasing list within [0, m] containing 0 and m starts at 0 and ends at m *)
Lemma ends_of_incr l m : incr l -> 0 < m -> In 0 l -> In m l -> (forall v, In v l -> 0 <= v /\ v <= m) ->
  (1 <= List.length l - 1)%nat /\ nthq l 0 = 0 /\ nthq l (List.length l - 1) = m.
Proof.
  intros Hl Hm H0 Hm' Hr.
  destruct (idx_spec _ _ H0) as [A0 E0]. destruct (idx_spec _ _ Hm') as [A1 E1].
  assert (L01 : (idx 0 l < idx m l)%nat).
  { apply (incr_nth_lt_inv l Hl); auto. rewrite E0, E1. exact Hm. }
  split; [lia|]. split.
  - destruct (Nat.eq_dec (idx 0 l) 0) as [Z|N]; [rewrite Z in E0; exact E0|]. exfalso.
    assert (nthq l 0 < nthq l (idx 0 l)) by (apply incr_nth_lt; [exact Hl|lia]).
    assert (In (nthq l 0) l) by (apply nth_In; lia). destruct (Hr _ H1). rewrite E0 in H. qlra.
  - destruct (Nat.eq_dec (idx m l) (List.length l - 1)) as [Z|N]; [rewrite Z in E1; exact E1|]. exfalso.
    assert (nthq l (idx m l) < nthq l (List.length l - 1)) by (apply incr_nth_lt; [exact Hl|lia]).
    assert (In (nthq l (List.length l - 1)) l) by (apply nth_In; lia). destruct (Hr _ H1). rewrite E1 in H. qlra.
Qed.

(* ---------------- the grid of a valid, separated description ---------------- *)
Section Die.
  Variables (eps w h : Qc) (ins : list Rect).
  Hypothesis He : 0 <= eps.
  Hypothesis Hw : 0 < w.
  Hypothesis Hh : 0 < h.
  Hypothesis Hsep : separated eps w h ins.
  Hypothesis Hval : valid w h ins.

  Let xs := die_xs eps w h ins.
  Let ys := die_ys eps w h ins.
  Let nr := (List.length ys - 1)%nat.
  Let nc := (List.length xs - 1)%nat.

  Lemma xs_incr : incr xs.
  Proof. apply bounds_incr. exact He. Qed.
  Lemma ys_incr : incr ys.
  Proof. apply bounds_incr. exact He. Qed.
  Lemma xs_in v : In v xs <-> In v (all_coords_x w h ins).
  Proof. apply bounds_spec; [exact He|apply Hsep]. Qed.
  Lemma ys_in v : In v ys <-> In v (all_coords_y w h ins).
  Proof. apply bounds_spec; [exact He|apply Hsep]. Qed.

  Lemma input_box r : In r ins -> wf r /\ 0 <= xmin r /\ xmax r <= w /\ 0 <= ymin r /\ ymax r <= h.
  Proof.
    intro H. destruct Hval as [V _]. rewrite Forall_forall in V. destruct (V r H) as [W I].
    apply is_inside_coords in I. destruct (die_coords w h) as (D0 & D1 & D2 & D3).
    rewrite D0, D1, D2, D3 in I. tauto.
  Qed.

  Lemma xs_range v : In v xs -> 0 <= v /\ v <= w.
  Proof.
    intro H. apply xs_in in H. apply xcoords_inv in H. destruct H as (r & Hr & Hv).
    apply in_app_or in Hr. destruct Hr as [Hr|[<-|[]]].
    - destruct (input_box r Hr) as ([Ww Wh] & A & B & _). unfold xmin, xmax in *. destruct Hv as [-> | ->]; split; qlra.
    - destruct (die_coords w h) as (D0 & D1 & _). rewrite D0, D1 in Hv. destruct Hv as [-> | ->]; split; qlra.
  Qed.
  Lemma ys_range v : In v ys -> 0 <= v /\ v <= h.
  Proof.
    intro H. apply ys_in in H. apply ycoords_inv in H. destruct H as (r & Hr & Hv).
    apply in_app_or in Hr. destruct Hr as [Hr|[<-|[]]].
    - destruct (input_box r Hr) as ([Ww Wh] & _ & _ & A & B). unfold ymin, ymax in *. destruct Hv as [-> | ->]; split; qlra.
    - destruct (die_coords w h) as (_ & _ & D2 & D3). rewrite D2, D3 in Hv. destruct Hv as [-> | ->]; split; qlra.
  Qed.

  Lemma die_on_grid : In 0 xs /\ In w xs /\ In 0 ys /\ In h ys.
  Proof.
    destruct (die_coords w h) as (D0 & D1 & D2 & D3).
    assert (I : In (die_rect w h) (ins ++ [die_rect w h])) by (apply in_or_app; right; left; reflexivity).
    destruct (in_xcoords _ _ I) as [X0 X1]. destruct (in_ycoords _ _ I) as [Y0 Y1].
    rewrite D0 in X0. rewrite D1 in X1. rewrite D2 in Y0. rewrite D3 in Y1.
    repeat split; [apply xs_in|apply xs_in|apply ys_in|apply ys_in]; assumption.
  Qed.

  Lemma xs_ends : (1 <= nc)%nat /\ nthq xs 0 = 0 /\ nthq xs nc = w.
  Proof. destruct die_on_grid as (A & B & _). apply ends_of_incr; auto using xs_incr, xs_range. Qed.
  Lemma ys_ends : (1 <= nr)%nat /\ nthq ys 0 = 0 /\ nthq ys nr = h.
  Proof. destruct die_on_grid as (_ & _ & A & B). apply ends_of_incr; auto using ys_incr, ys_range. Qed.

  Lemma input_on_grid r : In r ins -> on_grid xs ys r.
  Proof.
    intro H. assert (I : In r (ins ++ [die_rect w h])) by (apply in_or_app; left; exact H).
    destruct (in_xcoords _ _ I). destruct (in_ycoords _ _ I).
    repeat split; [apply xs_in|apply xs_in|apply ys_in|apply ys_in]; assumption.
  Qed.

  (* every cell is in at most one input rectangle, exactly when it is occupied *)
  Lemma count_inputs i j : forall l, (forall r, In r l -> In r ins) -> pairwise_no_ov l ->
    count_in i j (map (input_ir xs ys) l) =
    if in_grid_b nr nc i j && existsb (fun r => point_inside r (centre xs j) (centre ys i)) l then 1%nat else 0%nat.
  Proof.
    induction l as [|r l IH]; intros Hsub Hp; cbn [map existsb].
    - rewrite andb_false_r. reflexivity.
    - rewrite count_in_cons. destruct Hp as [Hr Hp]. rewrite (IH (fun s Hs => Hsub s (or_intror Hs)) Hp).
      assert (Rin : In r ins) by (apply Hsub; left; reflexivity).
      destruct (input_box r Rin) as (Wr & _). pose proof (input_on_grid r Rin) as Gr.
      destruct (input_ir_facts xs ys nr nc xs_incr ys_incr eq_refl eq_refl r Wr Gr) as (Ok & _).
      destruct (in_grid_b nr nc i j) eqn:G; cbn [andb].
      + unfold in_grid_b in G. apply andb_true_iff in G. destruct G as [Gi Gj].
        apply Nat.ltb_lt in Gi, Gj.
        rewrite <- (centre_inside_iff xs ys nr nc xs_incr ys_incr eq_refl eq_refl r Wr Gr i j Gi Gj).
        destruct (point_inside r (centre xs j) (centre ys i)) eqn:P; cbn [orb]; [|reflexivity].
        destruct (existsb _ l) eqn:E; [|reflexivity]. exfalso.
        apply existsb_exists in E. destruct E as (s & Hs & Ps).
        assert (Sin : In s ins) by (apply Hsub; right; exact Hs).
        destruct (input_box s Sin) as (Ws & _). pose proof (input_on_grid s Sin) as Gs.
        rewrite Forall_forall in Hr. specialize (Hr s Hs).
        apply (ov_zero_no_interior r s Hr (centre xs j) (centre ys i)). split.
        * eapply centre_inside_strict; eauto using xs_incr, ys_incr.
        * eapply centre_inside_strict; eauto using xs_incr, ys_incr.
      + destruct (in_ir (input_ir xs ys r) i j) eqn:E; [|reflexivity]. exfalso.
        destruct (ir_ok_in _ _ _ _ _ Ok E) as [Gi Gj]. unfold in_grid_b in G.
        apply Nat.ltb_lt in Gi, Gj. rewrite Gi, Gj in G. discriminate.
  Qed.

  Lemma inputs_geq l : (forall r, In r l -> In r ins) ->
    Forall2 geq (map (fun r => sp xs ys (input_ir xs ys r) KW_GROUND) l) l.
  Proof.
    induction l as [|r l IH]; intro S; cbn [map]; constructor.
    - assert (Rin : In r ins) by (apply S; left; reflexivity).
      destruct (input_box r Rin) as (Wr & _).
      apply (input_geom xs ys nr nc xs_incr ys_incr eq_refl eq_refl r Wr (input_on_grid r Rin)).
    - apply IH. intros s Hs. apply S. right. exact Hs.
  Qed.

  (* (v) inputs + any accepted cover of the free cells tile the die *)
  Theorem grid_tiles gs : is_cover nr nc (occupied xs ys ins) gs = true ->
    tiles (ins ++ map (ground_of xs ys) gs) (die_rect w h).
  Proof.
    intro C. destruct xs_ends as (Nc & X0 & X1). destruct ys_ends as (Nr & Y0 & Y1).
    set (L := map (input_ir xs ys) ins ++ gs).
    assert (Ok : Forall (fun g => ir_ok nr nc g = true) L).
    { apply Forall_app. split; [|eapply cover_ok; eauto]. apply Forall_forall. intros g Hg.
      apply in_map_iff in Hg. destruct Hg as (r & <- & Hr). destruct (input_box r Hr) as (Wr & _).
      apply (input_ir_facts xs ys nr nc xs_incr ys_incr eq_refl eq_refl r Wr (input_on_grid r Hr)). }
    assert (Cnt : forall i j, count_in i j L = if in_grid_b nr nc i j then 1%nat else 0%nat).
    { intros i j. unfold L. rewrite count_in_app, (cover_count _ _ _ _ C).
      rewrite (count_inputs i j ins (fun r H => H) (proj2 Hval)).
      unfold is_free, occupied, in_grid_b.
      destruct ((i <? nr)%nat && (j <? nc)%nat); cbn [andb]; [|reflexivity].
      destruct (existsb _ ins); reflexivity. }
    pose proof (irects_tile xs ys nr nc L (fun _ => KW_GROUND) KW_GROUND xs_incr ys_incr eq_refl eq_refl Nr Nc Ok Cnt) as T.
    eapply tiles_geq; [| |exact T].
    - unfold L. rewrite map_app. apply Forall2_app.
      + rewrite map_map. apply inputs_geq. auto.
      + clear. induction gs as [|g l IH]; cbn [map]; constructor; [|exact IH].
        unfold geq, ground_of, sp. auto.
    - unfold geq, span_rect, die_rect. cbn [cx cy rw rh].
      replace (S (nc - 1)) with nc by lia. replace (S (nr - 1)) with nr by lia.
      rewrite X0, X1, Y0, Y1. repeat split; qlra.
  Qed.
End Die.

(* ---------------- the self-check ---------------- *)
Lemma no_overlaps_of_pairwise aeps l : 0 <= aeps -> pairwise_no_ov l -> no_overlaps aeps l = true.
Proof.
  intro Ha. induction l as [|r l IH]; intro H; cbn [no_overlaps]; [reflexivity|].
  destruct H as [H1 H2]. rewrite (IH H2), andb_true_r. apply forallb_forall. intros s Hs.
  rewrite Forall_forall in H1. unfold overlap. rewrite (H1 s Hs). apply negb_true_iff. qb2p. exact Ha.
Qed.

Lemma check_ok deps tin aeps w h l : 0 < w -> 0 < h -> 0 < deps -> 0 <= tin -> 0 <= aeps ->
  tiles l (die_rect w h) -> check_rectangles deps tin aeps w h l = None.
Proof.
  intros Hw Hh Hd Ht Ha (T1 & T2 & T3). unfold check_rectangles.
  assert (A : forallb (inside_tol tin w h) l = true).
  { apply forallb_forall. intros r Hr. rewrite Forall_forall in T1. destruct (T1 r Hr) as [_ I].
    apply is_inside_coords in I. destruct (die_coords w h) as (D0 & D1 & D2 & D3).
    rewrite D0, D1, D2, D3 in I. destruct I as (I1 & I2 & I3 & I4).
    unfold inside_tol. rewrite !andb_true_iff. repeat split; qb2p; qlra. }
  rewrite A, (no_overlaps_of_pairwise aeps l Ha T2). cbn [negb].
  rewrite T3. unfold area, die_rect; cbn [rw rh].
  replace (w * h - w * h) with 0 by ring.
  assert (P : Qcltb (Qcabs 0) (deps * Qcmax w h) = true).
  { qb2p. assert (Qcabs 0 = 0) by (unfold Qcabs; destruct (Qcleb 0 0); qlra). rewrite H.
    assert (0 < Qcmax w h) by qmlra. qnra. }
  rewrite P. reflexivity.
Qed.

Lemma forallb_perm {A} (p : A -> bool) l l' : Permutation l l' -> forallb p l = forallb p l'.
Proof.
  intro P. apply Bool.eq_iff_eq_true. rewrite !forallb_forall. split; intros H x Hx; apply H.
  - eapply Permutation_in; [apply Permutation_sym|]; eauto.
  - eapply Permutation_in; eauto.
Qed.

Lemma no_overlaps_perm aeps l l' : Permutation l l' -> no_overlaps aeps l = no_overlaps aeps l'.
Proof.
  induction 1 as [|x l l' P IH|x y l|l l' l'' P1 IH1 P2 IH2]; cbn [no_overlaps forallb].
  - reflexivity.
  - rewrite IH, (forallb_perm _ l l' P). reflexivity.
  - unfold overlap. rewrite (ov_sym y x).
    destruct (negb (Qcltb aeps (area_overlap x y))), (forallb _ l), (forallb _ l), (no_overlaps aeps l); reflexivity.
  - congruence.
Qed.

Lemma no_overlaps_app_l aeps l1 l2 : no_overlaps aeps (l1 ++ l2) = true -> no_overlaps aeps l1 = true.
Proof.
  induction l1 as [|r l IH]; cbn [app no_overlaps]; [reflexivity|]. intro H.
  apply andb_true_iff in H. destruct H as [H1 H2]. rewrite (IH H2), andb_true_r.
  rewrite forallb_app in H1. apply andb_true_iff in H1. tauto.
Qed.

(* two input rectangles, at different positions, overlapping by more than aeps *)
Lemma no_overlaps_false aeps l1 r l2 s l3 : aeps < area_overlap r s ->
  no_overlaps aeps (l1 ++ r :: l2 ++ s :: l3) = false.
Proof.
  intro H. induction l1 as [|a l IH]; cbn [app no_overlaps].
  - apply andb_false_iff. left. rewrite forallb_app. apply andb_false_iff. right. cbn [forallb].
    apply andb_false_iff. left. unfold overlap. apply negb_false_iff. qb2p. exact H.
  - rewrite IH. apply andb_false_r.
Qed.

(* ---------------- parsing ---------------- *)
Lemma parse_pos d w h rs : parse d = Some (w, h, rs) -> 0 < w /\ 0 < h.
Proof.
  unfold parse. destruct (negb _); [discriminate|].
  destruct (lookup "width" (d_tree d)) as [[qw| | |]|]; try discriminate.
  destruct (lookup "height" (d_tree d)) as [[qh| | |]|]; try discriminate.
  destruct (Qcltb 0 qw && Qcltb 0 qh) eqn:E; [|discriminate]. qb2p.
  destruct (lookup "regions" (d_tree d)) as [[?|?|l|]|]; try discriminate.
  - destruct l as [|[q| | |] rest]; try discriminate;
      match goal with |- context [match ?e with _ => _ end] => destruct e end; try discriminate;
      intro X; injection X as <- <- _; auto.
  - intro X; injection X as <- <- _. auto.
Qed.

(* malformed entries are refused: examples of the clauses of parse_die_rectangle *)
Lemma parse_region_tag x y w h tag :
  parse_region (YList [YNum x; YNum y; YNum w; YNum h; YStr tag]) <> None ->
  tag <> KW_GROUND /\ (valid_identifier tag = true \/ tag = KW_BLOCKAGE) /\ 0 < w /\ 0 < h /\ 0 <= x /\ 0 <= y.
Proof.
  cbn [parse_region]. destruct (_ && _) eqn:E; [|intro H; exfalso; apply H; reflexivity]. intros _.
  apply andb_true_iff in E. destruct E as [E Ph]. apply andb_true_iff in E. destruct E as [E Pw].
  apply andb_true_iff in E. destruct E as [E Ng]. apply andb_true_iff in E. destruct E as [E Tg].
  apply andb_true_iff in E. destruct E as [E Nh]. apply andb_true_iff in E. destruct E as [E Nw].
  apply andb_true_iff in E. destruct E as [Nx Ny]. qb2p.
  apply String.eqb_neq in Ng.
  split; [exact Ng|]. split; [|auto].
  apply orb_true_iff in Tg. destruct Tg as [Tg|Tg]; [|right; apply String.eqb_eq; exact Tg].
  apply orb_true_iff in Tg. destruct Tg as [Tg|Tg]; [left; exact Tg|].
  apply String.eqb_eq in Tg. contradiction.
Qed.

(* ---------------- the three theorems about the constructor ---------------- *)
Definition grid_dims (eps w h : Qc) (ins : list Rect) : nat * nat :=
  ((List.length (die_ys eps w h ins) - 1)%nat, (List.length (die_xs eps w h ins) - 1)%nat).

Definition accepted_cover (eps w h : Qc) (ins : list Rect) (gs : list irect) : Prop :=
  is_cover (fst (grid_dims eps w h ins)) (snd (grid_dims eps w h ins))
           (occupied (die_xs eps w h ins) (die_ys eps w h ins) ins) gs = true.

Lemma inputs_perm regions fx g :
  Permutation (specialised regions ++ g ++ blockages regions ++ fx) (inputs regions fx ++ g).
Proof.
  unfold inputs. rewrite <- !app_assoc. apply Permutation_app_head.
  rewrite (app_assoc (blockages regions) fx g). apply Permutation_app_comm.
Qed.

Theorem die_tiles eps d w h regions gs :
  0 <= eps -> parse d = Some (w, h, regions) ->
  let ins := inputs regions (d_fixed d) in
  let xs := die_xs eps w h ins in
  let ys := die_ys eps w h ins in
  separated eps w h ins -> valid w h ins -> accepted_cover eps w h ins gs ->
  let out := ins ++ map (ground_of xs ys) gs in
  tiles out (die_rect w h) /\
  (forall r, In r ins -> In r out) /\
  Forall (fun g => region g = KW_GROUND /\ fixed g = false) (map (ground_of xs ys) gs).
Proof.
  intros He P ins xs ys Hs Hv C out. destruct (parse_pos _ _ _ _ P) as [Hw Hh].
  split; [|split].
  - apply (grid_tiles eps w h ins He Hw Hh Hs Hv gs C).
  - intros r Hr. apply in_or_app. left. exact Hr.
  - apply Forall_forall. intros g Hg. apply in_map_iff in Hg. destruct Hg as (x & <- & _). cbn. auto.
Qed.

Theorem die_accepts_valid eps aeps deps tin d w h regions gs :
  0 <= eps -> 0 <= aeps -> 0 < deps -> 0 <= tin -> parse d = Some (w, h, regions) ->
  let ins := inputs regions (d_fixed d) in
  separated eps w h ins -> valid w h ins -> accepted_cover eps w h ins gs ->
  die_with_cover eps aeps deps tin d gs =
    Accept (map (ground_of (die_xs eps w h ins) (die_ys eps w h ins)) gs)
           (specialised regions) (blockages regions) (d_fixed d).
Proof.
  intros He Ha Hd Ht P ins Hs Hv C. destruct (parse_pos _ _ _ _ P) as [Hw Hh].
  unfold die_with_cover. rewrite P. fold ins. unfold accepted_cover, grid_dims in C. cbn [fst snd] in C.
  rewrite C. cbn [negb].
  rewrite (check_ok deps tin aeps w h); auto.
  eapply tiles_perm; [apply Permutation_sym; apply inputs_perm|].
  apply (grid_tiles eps w h ins He Hw Hh Hs Hv gs C).
Qed.

(* in particular the model's own greedy cover is accepted: the self-check can never fire *)
Theorem die_model_accepts_valid eps aeps deps tin d w h regions :
  0 <= eps -> 0 <= aeps -> 0 < deps -> 0 <= tin -> parse d = Some (w, h, regions) ->
  let ins := inputs regions (d_fixed d) in
  separated eps w h ins -> valid w h ins ->
  exists ground, die_model eps aeps deps tin d =
    Accept ground (specialised regions) (blockages regions) (d_fixed d).
Proof.
  intros He Ha Hd Ht P ins Hs Hv. eexists. unfold die_model.
  apply (die_accepts_valid eps aeps deps tin d w h regions); auto.
  unfold accepted_cover, grid_dims, die_cover. rewrite P. cbn [fst snd]. apply greedy_is_cover.
Qed.

Definition malformed (d : desc) : Prop := parse d = None.
Definition leaves_die (tin : Qc) (d : desc) : Prop :=
  exists w h regions r, parse d = Some (w, h, regions) /\ In r (inputs regions (d_fixed d)) /\
    (xmin r < - tin \/ ymin r < - tin \/ w + tin < xmax r \/ h + tin < ymax r).
Definition overlapping (aeps : Qc) (d : desc) : Prop :=
  exists w h regions l1 r l2 s l3, parse d = Some (w, h, regions) /\
    inputs regions (d_fixed d) = l1 ++ r :: l2 ++ s :: l3 /\ aeps < area_overlap r s.

Theorem die_rejects_invalid eps aeps deps tin d gs :
  malformed d \/ leaves_die tin d \/ overlapping aeps d ->
  exists why, die_with_cover eps aeps deps tin d gs = Reject why.
Proof.
  intros [M|[L|O]]; unfold die_with_cover.
  - rewrite M. eauto.
  - destruct L as (w & h & regions & r & P & Hr & Out). rewrite P.
    destruct (negb (is_cover _ _ _ gs)); [eauto|].
    unfold check_rectangles.
    assert (F : forallb (inside_tol tin w h)
                  (specialised regions ++ map (ground_of (die_xs eps w h (inputs regions (d_fixed d)))
                     (die_ys eps w h (inputs regions (d_fixed d)))) gs ++ blockages regions ++ d_fixed d) = false).
    { rewrite (forallb_perm _ _ _ (inputs_perm regions (d_fixed d) _)).
      destruct (forallb _ _) eqn:E; [|reflexivity]. exfalso. rewrite forallb_forall in E.
      specialize (E r (in_or_app _ _ _ (or_introl Hr))). unfold inside_tol in E.
      repeat (apply andb_true_iff in E; destruct E as [E ?]). qb2p. destruct Out as [?|[?|[?|?]]]; qlra. }
    rewrite F. cbn. eauto.
  - destruct O as (w & h & regions & l1 & r & l2 & s & l3 & P & E & Ov). rewrite P.
    destruct (negb (is_cover _ _ _ gs)); [eauto|].
    unfold check_rectangles. destruct (negb (forallb _ _)); [eauto|].
    assert (F : no_overlaps aeps
                  (specialised regions ++ map (ground_of (die_xs eps w h (inputs regions (d_fixed d)))
                     (die_ys eps w h (inputs regions (d_fixed d)))) gs ++ blockages regions ++ d_fixed d) = false).
    { rewrite (no_overlaps_perm aeps _ _ (inputs_perm regions (d_fixed d) _)).
      destruct (no_overlaps aeps _) eqn:N; [|reflexivity]. exfalso.
      apply no_overlaps_app_l in N. rewrite E, (no_overlaps_false aeps l1 r l2 s l3 Ov) in N. discriminate. }
    rewrite F. cbn. eauto.
Qed.
