(* C01: the hypotheses of die_tiles / die_accepts_valid are satisfiable by non-trivial dies
   (decided by the boolean versions and reflected). *)
From FrameModel Require Import Num.QcTac Geometry.Rect Cases.Cmp Cases.CmpC01
  Die.Boundaries Die.Cells Die.Cover Die.CoverFacts Die.DieModel Die.DieFacts.
Open Scope Qc_scope.

Lemma sep_b_sound eps l : sep_b eps l = true -> sep eps l.
Proof.
  unfold sep_b, sep. intros H a b Ha Hb. rewrite forallb_forall in H. specialize (H a Ha).
  rewrite forallb_forall in H. specialize (H b Hb).
  apply orb_true_iff in H. destruct H as [H|H]; [|qb2p; auto].
  apply orb_true_iff in H. destruct H as [H|H]; qb2p; auto.
Qed.

Theorem strict_b_sound eps w h ins : strict_b eps w h ins = true -> separated eps w h ins /\ valid w h ins.
Proof.
  unfold strict_b. intro H. apply andb_true_iff in H. destruct H as [H Sy].
  apply andb_true_iff in H. destruct H as [H Sx]. apply andb_true_iff in H. destruct H as [Hin Hp].
  split; [split; apply sep_b_sound; assumption|]. split; [|apply pairwise_zero_sound; exact Hp].
  apply Forall_forall. intros r Hr. rewrite forallb_forall in Hin. specialize (Hin r Hr).
  apply andb_true_iff in Hin. destruct Hin. split; [apply wfb_wf|]; assumption.
Qed.

Definition num (n : Z) (d : positive) : ytree := YNum (qc n d).
Definition entry (x y w h : ytree) (tag : string) : ytree := YList [x; y; w; h; YStr tag].

(* 4 x 3 die, three regions: a strip along the top border (T-junction with the corner of the
   left block), a left block and a right blockage; the free pocket [1,2] x [0,2] is enclosed
   by the three regions and the bottom border *)
Definition ex3 : desc := mkDesc
  [("width"%string, num 4 1); ("height"%string, num 3 1);
   ("regions"%string, YList [entry (num 2 1) (num 5 2) (num 4 1) (num 1 1) "BRAM";
                             entry (num 1 2) (num 1 1) (num 1 1) (num 2 1) "DSP";
                             entry (num 3 1) (num 1 1) (num 2 1) (num 2 1) "#"])] [].

(* 3 x 3 pinwheel: four regions on the border around a hole enclosed by regions only,
   one of them a fixed rectangle of the netlist *)
Definition ex4 : desc := mkDesc
  [("width"%string, num 3 1); ("height"%string, num 3 1);
   ("regions"%string, YList [entry (num 1 1) (num 1 2) (num 2 1) (num 1 1) "a";
                             entry (num 5 2) (num 1 1) (num 1 1) (num 2 1) "#";
                             entry (num 2 1) (num 5 2) (num 2 1) (num 1 1) "b_1"])]
  [mkRect (qc 1 2) (qc 2 1) (qc 1 1) (qc 2 1) true true "_" TRUNK].

Definition eps_ex : Qc := qc 1 1000000.

Definition parsed (d : desc) : Qc * Qc * list Rect :=
  match parse d with Some x => x | None => (0, 0, []) end.
Definition ex_ok (d : desc) (gs : list irect) : bool :=
  match parse d with
  | None => false
  | Some (w, h, regions) =>
      let ins := inputs regions (d_fixed d) in
      strict_b eps_ex w h ins &&
      is_cover (fst (grid_dims eps_ex w h ins)) (snd (grid_dims eps_ex w h ins))
               (occupied (die_xs eps_ex w h ins) (die_ys eps_ex w h ins) ins) gs
  end.

Example ex3_hyps : ex_ok ex3 [mkIR 0 0 1 1] = true.
Proof. vm_compute. reflexivity. Qed.
Example ex4_hyps : ex_ok ex4 [mkIR 1 1 1 1] = true.
Proof. vm_compute. reflexivity. Qed.

Lemma ex_ok_sound d gs : ex_ok d gs = true ->
  exists w h regions, parse d = Some (w, h, regions) /\
    separated eps_ex w h (inputs regions (d_fixed d)) /\ valid w h (inputs regions (d_fixed d)) /\
    accepted_cover eps_ex w h (inputs regions (d_fixed d)) gs.
Proof.
  unfold ex_ok. destruct (parse d) as [[[w h] regions]|]; [|discriminate]. intro H.
  apply andb_true_iff in H. destruct H as [S C]. apply strict_b_sound in S. destruct S.
  exists w, h, regions. auto.
Qed.

(* the hypotheses of die_tiles and die_accepts_valid hold of both examples *)
Example ex3_satisfies : exists w h regions, parse ex3 = Some (w, h, regions) /\
    separated eps_ex w h (inputs regions (d_fixed ex3)) /\ valid w h (inputs regions (d_fixed ex3)) /\
    accepted_cover eps_ex w h (inputs regions (d_fixed ex3)) [mkIR 0 0 1 1].
Proof. apply ex_ok_sound. exact ex3_hyps. Qed.
Example ex4_satisfies : exists w h regions, parse ex4 = Some (w, h, regions) /\
    separated eps_ex w h (inputs regions (d_fixed ex4)) /\ valid w h (inputs regions (d_fixed ex4)) /\
    accepted_cover eps_ex w h (inputs regions (d_fixed ex4)) [mkIR 1 1 1 1].
Proof. apply ex_ok_sound. exact ex4_hyps. Qed.

(* and the model's own greedy cover finds exactly that pocket / hole *)
Example ex3_greedy : die_cover eps_ex ex3 greedy_cover = [mkIR 0 0 1 1].
Proof. vm_compute. reflexivity. Qed.
Example ex4_model : match die_model eps_ex (qc 1 1000) (qc 1 1000000) (qc 1 1000000) ex4 with
                    | Accept [g] [_; _] [_] [_] => Qceqb (area g) 1 && String.eqb (region g) "_"
                    | _ => false end = true.
Proof. vm_compute. reflexivity. Qed.

(* the hypotheses of die_rejects_invalid: a blockage leaving a 2 x 2 die, and a malformed tag *)
Definition ex_out : desc := mkDesc
  [("width"%string, num 2 1); ("height"%string, num 2 1);
   ("regions"%string, YList [entry (num 3 2) (num 1 1) (num 2 1) (num 1 1) "#"])] [].
Example ex_out_leaves : leaves_die (qc 1 1000000) ex_out.
Proof.
  exists (qc 2 1), (qc 2 1), [mkRect (qc 3 2) (qc 1 1) (qc 2 1) (qc 1 1) false false "#" NOPOLY],
         (mkRect (qc 3 2) (qc 1 1) (qc 2 1) (qc 1 1) false false "#" NOPOLY).
  split; [vm_compute; reflexivity|]. split; [left; reflexivity|].
  right. right. left. apply Qcltb_true. vm_compute. reflexivity.
Qed.
Definition ex_bad : desc := mkDesc
  [("width"%string, num 2 1); ("height"%string, num 2 1);
   ("regions"%string, YList [entry (num 1 1) (num 1 1) (num 1 1) (num 1 1) "_"])] [].
Example ex_bad_malformed : malformed ex_bad.
Proof. vm_compute. reflexivity. Qed.

Example ex_invalid : leaves_die (qc 1 1000000) ex_out /\ malformed ex_bad.
Proof. exact (conj ex_out_leaves ex_bad_malformed). Qed.
