(* Model of frame/die/die.py: _cell_center, _calculate_cell_matrix.
   The cell matrix is indexed [row = y index][column = x index]; a cell is
   occupied iff its centre is point_inside (closed) some specialised region,
   blockage or fixed rectangle.  Definitions only. *)
From FrameModel Require Import Num.QcTac Geometry.Rect.
Open Scope Qc_scope.

Definition nthq (l : list Qc) (i : nat) : Qc := nth i l 0.

(* (self._x[i] + self._x[i+1]) / 2 *)
Definition centre (l : list Qc) (i : nat) : Qc := (nthq l i + nthq l (S i)) * half.

Definition occupied (xs ys : list Qc) (rs : list Rect) (row col : nat) : bool :=
  existsb (fun r => point_inside r (centre xs col) (centre ys row)) rs.

(* the matrix itself, for display and for the correspondence *)
Definition cell_matrix (xs ys : list Qc) (rs : list Rect) : list (list bool) :=
  map (fun row => map (fun col => occupied xs ys rs row col) (seq 0 (List.length xs - 1)))
      (seq 0 (List.length ys - 1)).

(* the rectangle of a range of cells: columns clo..chi, rows rlo..rhi (inclusive), as
   _find_best_rectangle builds it: centre = (x[cmin] + x[cmax+1]) / 2, width = x[cmax+1] - x[cmin] *)
Definition span_rect (xs ys : list Qc) (rlo rhi clo chi : nat) (tag : string) : Rect :=
  mkRect ((nthq xs clo + nthq xs (S chi)) * half) ((nthq ys rlo + nthq ys (S rhi)) * half)
         (nthq xs (S chi) - nthq xs clo) (nthq ys (S rhi) - nthq ys rlo)
         false false tag NOPOLY.
