(* Model of the INPUT FORMS of Die(stream, netlist): what frame/die/yaml_parse_die.py
   (string_die, the head of parse_yaml_die) and frame/utils/utils.py (read_yaml,
   string_is_number) do before the description is a tree.

   Die(stream, netlist) accepts
     - a dict                       -> the tree itself                        (InMap)
     - a list                       -> read_yaml returns it: "not a dictionary" (InSeq)
     - a str, tried in this order:
         1. '<W>x<H>'  (string_die: rsplit('x') gives exactly two parts, both accepted by
            float())                -> the die {width: W, height: H}, no regions
         2. a text containing ': ' or a line break  -> YAML text, loaded
         3. anything else           -> a file name: open(name).read(), loaded
     - an open text stream          -> stream.read(), loaded                   (InStream)
   The third component of the description, the fixed rectangles of the attached netlist,
   is independent of the form (d_fixed).

   float() is modelled on ASCII strings exactly (CPython: PyFloat_FromString ->
   _Py_string_to_number_with_underscores -> _PyOS_ascii_strtod / _Py_parse_inf_or_nan):
   surrounding white space, one optional sign, inf / infinity / nan in any case, decimal
   digits with an optional point and an optional exponent, '_' only between two digits.
   Values are exact rationals (the harness hands binary64-exact spellings to the
   correspondence; decimal spellings such as 0.1 go to the direct oracle).  Non-ASCII
   digits and spaces (which float() also accepts) are outside the model.

   The file system and the YAML loader (ruamel) are external: Section variables
   [file_of] and [yaml_load].

   read_yaml is modelled as repaired by fixes/C19-read-yaml-stream.diff (the original tested
   isinstance(stream, typing.TextIO), which no object returned by open() or io.StringIO
   satisfies, so every description handed over as an open stream was refused) and by
   fixes/C19-read-yaml-text.diff (a str with a line break is a text even without ': ').
   Definitions only; facts in DieInputFacts.v. *)
From FrameModel Require Import Num.QcTac Geometry.Rect Die.Boundaries Die.Cells Die.Cover Die.DieModel.
From Coq Require Import Ascii String.
Open Scope Qc_scope.

(* ------------------------------------------------------------------ *)
(* float(s)                                                            *)
(* ------------------------------------------------------------------ *)
Inductive pyfloat := PFin (q : Qc) | PInf (negative : bool) | PNan.

Definition chars (s : string) : list ascii := list_ascii_of_string s.

Definition code (c : ascii) : nat := nat_of_ascii c.
Definition is_digit (c : ascii) : bool := ((48 <=? code c) && (code c <=? 57))%nat.
Definition digit_val (c : ascii) : Z := Z.of_nat (code c - 48).
(* Py_UNICODE_ISSPACE on ASCII: \t \n \v \f \r, 0x1c-0x1f, ' ' *)
Definition is_space (c : ascii) : bool :=
  (((9 <=? code c) && (code c <=? 13)) || ((28 <=? code c) && (code c <=? 32)))%nat.
Definition is_char (n : nat) (c : ascii) : bool := (code c =? n)%nat.
(* case-insensitive comparison with a lower-case letter *)
Definition is_letter_ci (lower : nat) (c : ascii) : bool :=
  ((code c =? lower) || (code c =? lower - 32))%nat.

Fixpoint strip_left (l : list ascii) : list ascii :=
  match l with
  | c :: r => if is_space c then strip_left r else l
  | [] => []
  end.
Definition strip (l : list ascii) : list ascii := rev (strip_left (rev (strip_left l))).

(* _Py_string_to_number_with_underscores: an underscore must follow a digit and precede a
   digit; [prev_digit]/[prev_us]: what the previous character was *)
Fixpoint underscores_ok (prev_digit prev_us : bool) (l : list ascii) : bool :=
  match l with
  | [] => negb prev_us
  | c :: r =>
      if is_char 95 c then prev_digit && underscores_ok false true r
      else (if prev_us then is_digit c else true) && underscores_ok (is_digit c) false r
  end.
Definition drop_underscores (l : list ascii) : list ascii := filter (fun c => negb (is_char 95 c)) l.

(* leading decimal digits: (value so far, number of digits read, rest) *)
Fixpoint take_digits (l : list ascii) (acc : Z) (cnt : nat) : Z * nat * list ascii :=
  match l with
  | c :: r => if is_digit c then take_digits r (acc * 10 + digit_val c)%Z (S cnt) else (acc, cnt, l)
  | [] => (acc, cnt, [])
  end.

Definition pow10 (e : Z) : Qc :=
  if (0 <=? e)%Z then Q2Qc (inject_Z (10 ^ e)) else / Q2Qc (inject_Z (10 ^ (- e))).

Definition matches_ci (word : list nat) (l : list ascii) : bool :=
  (List.length word =? List.length l)%nat &&
  forallb (fun p => is_letter_ci (fst p) (snd p)) (combine word l).
Definition w_inf : list nat := [105; 110; 102]%nat.
Definition w_infinity : list nat := [105; 110; 102; 105; 110; 105; 116; 121]%nat.
Definition w_nan : list nat := [110; 97; 110]%nat.

(* the unsigned part, after white space, underscores and the sign are gone *)
Definition parse_unsigned (l : list ascii) : option pyfloat :=
  if matches_ci w_inf l || matches_ci w_infinity l then Some (PInf false) else
  if matches_ci w_nan l then Some PNan else
  let '(ip, ni, r1) := take_digits l 0%Z 0%nat in
  let '(m, nf, r2) :=
    match r1 with
    | c :: r => if is_char 46 c then take_digits r ip 0%nat else (ip, 0%nat, r1)
    | [] => (ip, 0%nat, r1)
    end in
  if (ni + nf =? 0)%nat then None else          (* no digit at all: '.', '', 'e5' *)
  match r2 with
  | [] => Some (PFin (Q2Qc (inject_Z m) * pow10 (- Z.of_nat nf)))
  | c :: r =>
      if is_letter_ci 101 c then
        let '(neg, r3) :=
          match r with
          | s :: r' => if is_char 45 s then (true, r') else if is_char 43 s then (false, r') else (false, r)
          | [] => (false, r)
          end in
        let '(e, ne, r4) := take_digits r3 0%Z 0%nat in
        if (ne =? 0)%nat then None else       (* 'e' without digits: float() stops before it *)
        match r4 with
        | [] => Some (PFin (Q2Qc (inject_Z m) * pow10 ((if neg then - e else e) - Z.of_nat nf)))
        | _ => None
        end
      else None
  end.

Definition negate (f : pyfloat) : pyfloat :=
  match f with PFin q => PFin (- q) | PInf n => PInf (negb n) | PNan => PNan end.

(* float(s): None = ValueError *)
Definition py_float (s : list ascii) : option pyfloat :=
  let t := strip s in
  if negb (underscores_ok false false t) then None else
  match drop_underscores t with
  | [] => None
  | c :: r =>
      if is_char 45 c then option_map negate (parse_unsigned r)
      else if is_char 43 c then parse_unsigned r
      else parse_unsigned (c :: r)
  end.

(* ------------------------------------------------------------------ *)
(* string_die                                                          *)
(* ------------------------------------------------------------------ *)
(* str.rsplit('x') without a limit = split at every 'x' *)
Fixpoint split_x (l cur : list ascii) : list (list ascii) :=
  match l with
  | [] => [rev cur]
  | c :: r => if is_char 120 c then rev cur :: split_x r [] else split_x r (c :: cur)
  end.

Inductive sd_result :=
  | SDNone                      (* not of the form <number>x<number>: returns None *)
  | SDNotPositive               (* the assertion w > 0 and h > 0 fails (also nan) *)
  | SDInfinite                  (* a positive shape with an infinite side *)
  | SDShape (w h : Qc).         (* Shape(w, h), 0 < w, 0 < h *)

Definition is_positive (f : pyfloat) : bool :=
  match f with PFin q => Qcltb 0 q | PInf n => negb n | PNan => false end.

Definition string_die_chars (l : list ascii) : sd_result :=
  match split_x l [] with
  | [a; b] =>
      match py_float a, py_float b with
      | Some fa, Some fb =>
          if is_positive fa && is_positive fb then
            match fa, fb with
            | PFin w, PFin h => SDShape w h
            | _, _ => SDInfinite
            end
          else SDNotPositive
      | _, _ => SDNone
      end
  | _ => SDNone
  end.
Definition string_die (s : string) : sd_result := string_die_chars (chars s).

(* ------------------------------------------------------------------ *)
(* read_yaml and the head of parse_yaml_die                            *)
(* ------------------------------------------------------------------ *)
(* s.find(": ") >= 0 *)
Fixpoint has_colon_space (l : list ascii) : bool :=
  match l with
  | c :: r => match r with
              | d :: _ => (is_char 58 c && is_char 32 d) || has_colon_space r
              | [] => false
              end
  | [] => false
  end.

Definition has_newline (l : list ascii) : bool := existsb (is_char 10) l.
(* the str is a YAML text, not a file name: s.find(": ") >= 0 or s.find("\n") >= 0 *)
Definition is_text (l : list ascii) : bool := has_colon_space l || has_newline l.

(* what the YAML loader returns for a text *)
Inductive yload :=
  | LErr                                  (* the loader raises (scanner / parser / duplicate key ...) *)
  | LMap (t : list (string * ytree))      (* a mapping *)
  | LOther.                               (* any other document: scalar, sequence, empty *)

Inductive die_input :=
  | InMap (t : list (string * ytree))     (* a dict *)
  | InSeq (l : list ytree)                (* a list *)
  | InStr (s : string)                    (* a str: '<W>x<H>', YAML text, or a file name *)
  | InStream (txt : string).              (* an open text stream with this contents *)

Inductive resolved :=
  | RTree (t : list (string * ytree))     (* the description as a mapping *)
  | RAssert                               (* an assertion of the readers fails *)
  | RInfinite                             (* '<W>x<H>' with an infinite side *)
  | RRaise.                               (* another exception: OSError, the loader's errors *)

Definition shape_tree (w h : Qc) : list (string * ytree) :=
  [("width"%string, YNum w); ("height"%string, YNum h)].

Inductive in_result :=
  | IRes (r : result)       (* the constructor returned or an assertion failed *)
  | IRaise                  (* another exception escaped *)
  | INonFinite.             (* '<W>x<H>' with an infinite side: the constructor's float arithmetic (inf - inf,
                               inf / inf) is outside the model; it ends in an assertion or a ZeroDivisionError *)

Section World.
  Variable file_of : string -> option string.   (* open(name).read(); None = OSError *)
  Variable yaml_load : string -> yload.         (* YAML(typ='safe').load(text) *)

  Definition from_text (txt : string) : resolved :=
    match yaml_load txt with
    | LErr => RRaise
    | LMap t => RTree t
    | LOther => RAssert                         (* "The die is not a dictionary" *)
    end.

  (* read_yaml on a str *)
  Definition read_str (s : string) : resolved :=
    if is_text (chars s) then from_text s else
    match file_of s with
    | Some txt => from_text txt
    | None => RRaise
    end.

  Definition resolve (i : die_input) : resolved :=
    match i with
    | InMap t => RTree t
    | InSeq _ => RAssert
    | InStr s =>
        match string_die s with
        | SDShape w h => RTree (shape_tree w h)
        | SDNotPositive => RAssert
        | SDInfinite => RInfinite
        | SDNone => read_str s
        end
    | InStream txt => from_text txt
    end.

  (* Die(stream, netlist) for a given cover of the free cells; fx = netlist.fixed_rectangles() *)
  Definition die_in_with_cover (eps aeps deps tin : Qc) (i : die_input) (fx : list Rect) (gs : list irect)
    : in_result :=
    match resolve i with
    | RTree t => IRes (die_with_cover eps aeps deps tin (mkDesc t fx) gs)
    | RAssert => IRes (Reject RParse)
    | RInfinite => INonFinite
    | RRaise => IRaise
    end.

  (* several constructions in one process (the same netlist object, the same description, any
     order): a Die keeps nothing of the constructions before it, so each result is that of a fresh
     construction with its own arguments (the class-wide tolerances, which the FIRST design of a
     process defines, are arguments here: eps, aeps; their history is C20's subject) *)
  Record construction := mkCall {
    c_eps : Qc; c_aeps : Qc; c_deps : Qc; c_tin : Qc;
    c_input : die_input; c_fixed : list Rect; c_cover : list irect }.
  Definition construct (c : construction) : in_result :=
    die_in_with_cover (c_eps c) (c_aeps c) (c_deps c) (c_tin c) (c_input c) (c_fixed c) (c_cover c).
  Definition construct_all (calls : list construction) : list in_result := map construct calls.

  (* the description an input stands for *)
  Definition desc_of (i : die_input) (fx : list Rect) : option desc :=
    match resolve i with RTree t => Some (mkDesc t fx) | _ => None end.

  (* with the model's cheap cover by single cells (used on rejected inputs) *)
  Definition die_in_cells (eps aeps deps tin : Qc) (i : die_input) (fx : list Rect) : in_result :=
    match resolve i with
    | RTree t => IRes (die_model_cells eps aeps deps tin (mkDesc t fx))
    | RAssert => IRes (Reject RParse)
    | RInfinite => INonFinite
    | RRaise => IRaise
    end.
End World.

(* ------------------------------------------------------------------ *)
(* the SAME objects handed to several constructions                    *)
(* ------------------------------------------------------------------ *)
(* A program may keep the description (a dict, a str, a rewound stream) and the Netlist object and hand
   them to Die(...) again: first alone, later with the netlist, in any order.  The constructor only
   READS its arguments (parse_yaml_die: `for key in tree`, `tree[KW_WIDTH]`; Netlist.fixed_rectangles()),
   so the objects a later construction receives are the objects as the user made them: [after_call] is
   the identity.  [session f o steps] is what the constructions of a process see and return, f being the
   constructor applied to (description, fixed rectangles); a step is [true] for Die(d, netlist) and
   [false] for Die(d). *)
Record call_objects := mkObjs { o_desc : die_input; o_fixed : list Rect }.
Definition after_call (o : call_objects) (with_netlist : bool) : call_objects := o.
Definition call_fixed (o : call_objects) (with_netlist : bool) : list Rect :=
  if with_netlist then o_fixed o else [].
Fixpoint session {A} (f : die_input -> list Rect -> A) (o : call_objects) (steps : list bool) : list A :=
  match steps with
  | [] => []
  | b :: rest => f (o_desc o) (call_fixed o b) :: session f (after_call o b) rest
  end.
Definition objects_after (o : call_objects) (steps : list bool) : call_objects := fold_left after_call steps o.

(* finite worlds for the correspondence: association lists *)
Fixpoint assoc {A} (k : string) (l : list (string * A)) : option A :=
  match l with
  | [] => None
  | (k', v) :: r => if String.eqb k k' then Some v else assoc k r
  end.
Definition files_of (l : list (string * string)) : string -> option string := fun k => assoc k l.
Definition loader_of (l : list (string * yload)) : string -> yload :=
  fun k => match assoc k l with Some v => v | None => LErr end.
