(* C17 - Disc-overlap area is total, symmetric, bounded and accurate.
   Statements only; every proof is [exact <lemma>].  Model: Disc/Lens.v
   ([lens_code] = circle_circle_intersection_area after fixes/C17-acos-clamp.diff,
   [lens_code_orig] = before it, [lens] = the value both compute over R). *)
From Coq Require Import Reals.
From FrameModel Require Import Disc.Lens Disc.LensFacts.
Open Scope R_scope.

(* totality, part 1: whenever the code reaches its middle branch (neither far
   apart nor nested) the two divisors are non-zero and both arccosine
   arguments lie in [-1, 1] *)
Theorem C17_lens_defined : forall r1 r2 d, 0 < r1 -> 0 < r2 ->
  ~ (r1 + r2 < d) -> ~ (d <= Rabs (r1 - r2)) ->
  cosden r1 d <> 0 /\ cosden r2 d <> 0 /\
  -1 <= cosarg r1 r2 d <= 1 /\ -1 <= cosarg r2 r1 d <= 1.
Proof. exact lens_defined. Qed.
Print Assumptions C17_lens_defined.

(* totality, part 2: for all centres and positive radii the repaired code
   returns a value (no ZeroDivisionError, no math domain error) and that value
   is [lens]; in real arithmetic the clamps of the repair are the identity *)
Theorem C17_overlap_code_total : forall x1 y1 r1 x2 y2 r2, 0 < r1 -> 0 < r2 ->
  overlap_code x1 y1 r1 x2 y2 r2 = Some (overlap x1 y1 r1 x2 y2 r2).
Proof. exact overlap_code_total. Qed.
Print Assumptions C17_overlap_code_total.

Theorem C17_lens_code_total : forall r1 r2 d, 0 < r1 -> 0 < r2 ->
  lens_code r1 r2 d = Some (lens r1 r2 d).
Proof. exact lens_code_total. Qed.
Print Assumptions C17_lens_code_total.

(* the unrepaired code computes the same value over R: its failures on floats
   are rounding effects, and the repair does not change the function *)
Theorem C17_lens_code_orig_total : forall r1 r2 d, 0 < r1 -> 0 < r2 ->
  lens_code_orig r1 r2 d = Some (lens r1 r2 d).
Proof. exact lens_code_orig_total. Qed.
Print Assumptions C17_lens_code_orig_total.

(* symmetric in its arguments *)
Theorem C17_lens_sym : forall r1 r2 d, 0 < r1 -> 0 < r2 -> lens r1 r2 d = lens r2 r1 d.
Proof. exact lens_sym. Qed.
Print Assumptions C17_lens_sym.

Theorem C17_overlap_sym : forall x1 y1 r1 x2 y2 r2, 0 < r1 -> 0 < r2 ->
  overlap x1 y1 r1 x2 y2 r2 = overlap x2 y2 r2 x1 y1 r1.
Proof. exact overlap_sym. Qed.
Print Assumptions C17_overlap_sym.

(* scaling radii and distance by k > 0 scales the area by k^2 *)
Theorem C17_lens_scale : forall k r1 r2 d, 0 < k -> 0 < r1 -> 0 < r2 ->
  lens (k * r1) (k * r2) (k * d) = k ^ 2 * lens r1 r2 d.
Proof. exact lens_scale. Qed.
Print Assumptions C17_lens_scale.

(* between zero ... *)
Theorem C17_lens_nonneg : forall r1 r2 d, 0 < r1 -> 0 < r2 -> 0 <= lens r1 r2 d.
Proof. exact lens_nonneg. Qed.
Print Assumptions C17_lens_nonneg.

(* ... and the area of the smaller disc *)
Theorem C17_lens_le_small_disc : forall r1 r2 d, 0 < r1 -> 0 < r2 ->
  lens r1 r2 d <= PI * (Rmin r1 r2) ^ 2.
Proof. exact lens_le_small_disc. Qed.
Print Assumptions C17_lens_le_small_disc.

(* the three cases agree where they meet: the middle formula gives 0 at
   d = r1 + r2 and the smaller disc's area at d = |r1 - r2| *)
Theorem C17_lens_continuous_cases : forall r1 r2, 0 < r1 -> 0 < r2 ->
  lens r1 r2 (r1 + r2) = 0 /\
  lens_formula r1 r2 (r1 + r2) (acos (cosarg r1 r2 (r1 + r2))) (acos (cosarg r2 r1 (r1 + r2))) = 0 /\
  (r1 <> r2 ->
   lens_formula r1 r2 (Rabs (r1 - r2)) (acos (cosarg r1 r2 (Rabs (r1 - r2))))
                                       (acos (cosarg r2 r1 (Rabs (r1 - r2)))) = small_disc r1 r2).
Proof. exact lens_continuous_cases. Qed.
Print Assumptions C17_lens_continuous_cases.

(* the hypotheses are satisfiable and the middle case is inhabited:
   r1 = 2, r2 = 3, d = 4 is neither far apart nor nested *)
Example C17_middle_case_inhabited :
  0 < 2 /\ 0 < 3 /\ ~ (2 + 3 < 4) /\ ~ (4 <= Rabs (2 - 3)).
Proof. exact middle_case_example. Qed.
