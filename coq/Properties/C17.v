(* C17 - Disc-overlap area is total, symmetric, bounded and accurate.
   Statements only; every proof is [exact <lemma>].  Model: Disc/Lens.v
   ([lens_code] = circle_circle_intersection_area after fixes/C17-acos-clamp.diff,
   [lens_code_orig] = before it, [lens] = the value both compute over R). *)
From Coq Require Import Reals.
From Coq Require Import List.
From FrameModel Require Import Disc.Lens Disc.LensFacts Disc.LensCoincide Disc.LensState.
Import ListNotations.
Open Scope R_scope.

(* totality, part 1: whenever the code reaches its middle branch (neither far
   apart nor nested) the two divisors are non-zero and both arccosine
   arguments lie in [-1, 1] *)
Theorem C17_lens_defined : forall r1 r2 d, 0 < r1 -> 0 < r2 ->
  ~ (r1 + r2 < d) -> ~ (d <= Rabs (r1 - r2)) ->
  cosden r1 d <> 0 /\ cosden r2 d <> 0 /\
  -1 <= cosarg r1 r2 d <= 1 /\ -1 <= cosarg r2 r1 d <= 1.
Proof. exact lens_defined. Qed.
Print Assumptions C17_lens_defined.

(* totality, part 2: for all centres and positive radii the repaired code
   returns a value (no ZeroDivisionError, no math domain error) and that value
   is [lens]; in real arithmetic the clamps of the repair are the identity *)
Theorem C17_overlap_code_total : forall x1 y1 r1 x2 y2 r2, 0 < r1 -> 0 < r2 ->
  overlap_code x1 y1 r1 x2 y2 r2 = Some (overlap x1 y1 r1 x2 y2 r2).
Proof. exact overlap_code_total. Qed.
Print Assumptions C17_overlap_code_total.

Theorem C17_lens_code_total : forall r1 r2 d, 0 < r1 -> 0 < r2 ->
  lens_code r1 r2 d = Some (lens r1 r2 d).
Proof. exact lens_code_total. Qed.
Print Assumptions C17_lens_code_total.

(* the unrepaired code computes the same value over R: its failures on floats
   are rounding effects, and the repair does not change the function *)
Theorem C17_lens_code_orig_total : forall r1 r2 d, 0 < r1 -> 0 < r2 ->
  lens_code_orig r1 r2 d = Some (lens r1 r2 d).
Proof. exact lens_code_orig_total. Qed.
Print Assumptions C17_lens_code_orig_total.

(* symmetric in its arguments *)
Theorem C17_lens_sym : forall r1 r2 d, 0 < r1 -> 0 < r2 -> lens r1 r2 d = lens r2 r1 d.
Proof. exact lens_sym. Qed.
Print Assumptions C17_lens_sym.

Theorem C17_overlap_sym : forall x1 y1 r1 x2 y2 r2, 0 < r1 -> 0 < r2 ->
  overlap x1 y1 r1 x2 y2 r2 = overlap x2 y2 r2 x1 y1 r1.
Proof. exact overlap_sym. Qed.
Print Assumptions C17_overlap_sym.

(* scaling radii and distance by k > 0 scales the area by k^2 *)
Theorem C17_lens_scale : forall k r1 r2 d, 0 < k -> 0 < r1 -> 0 < r2 ->
  lens (k * r1) (k * r2) (k * d) = k ^ 2 * lens r1 r2 d.
Proof. exact lens_scale. Qed.
Print Assumptions C17_lens_scale.

(* between zero ... *)
Theorem C17_lens_nonneg : forall r1 r2 d, 0 < r1 -> 0 < r2 -> 0 <= lens r1 r2 d.
Proof. exact lens_nonneg. Qed.
Print Assumptions C17_lens_nonneg.

(* ... and the area of the smaller disc *)
Theorem C17_lens_le_small_disc : forall r1 r2 d, 0 < r1 -> 0 < r2 ->
  lens r1 r2 d <= PI * (Rmin r1 r2) ^ 2.
Proof. exact lens_le_small_disc. Qed.
Print Assumptions C17_lens_le_small_disc.

(* the three cases agree where they meet: the middle formula gives 0 at
   d = r1 + r2 and the smaller disc's area at d = |r1 - r2| *)
Theorem C17_lens_continuous_cases : forall r1 r2, 0 < r1 -> 0 < r2 ->
  lens r1 r2 (r1 + r2) = 0 /\
  lens_formula r1 r2 (r1 + r2) (acos (cosarg r1 r2 (r1 + r2))) (acos (cosarg r2 r1 (r1 + r2))) = 0 /\
  (r1 <> r2 ->
   lens_formula r1 r2 (Rabs (r1 - r2)) (acos (cosarg r1 r2 (Rabs (r1 - r2))))
                                       (acos (cosarg r2 r1 (Rabs (r1 - r2)))) = small_disc r1 r2).
Proof. exact lens_continuous_cases. Qed.
Print Assumptions C17_lens_continuous_cases.

(* the hypotheses are satisfiable and the middle case is inhabited:
   r1 = 2, r2 = 3, d = 4 is neither far apart nor nested *)
Example C17_middle_case_inhabited :
  0 < 2 /\ 0 < 3 /\ ~ (2 + 3 < 4) /\ ~ (4 <= Rabs (2 - 3)).
Proof. exact middle_case_example. Qed.

(* ---------- exact coincidences (harness: coincidence stream) ----------
   radii and centre distance forming an exact right triangle.  Right angle at the
   centre of the first disc (the common chord passes through that centre; 3-4-5:
   r1 = 3, d = 4, r2 = 5): the first cosine is exactly 0, the code is in its middle
   branch, does not fail, and returns the closed form - in both argument orders. *)
Theorem C17_right_angle_at_centre : forall r1 r2 d, 0 < r1 -> 0 < r2 -> 0 < d ->
  r2 ^ 2 = r1 ^ 2 + d ^ 2 ->
  lens_code r1 r2 d = Some (r1 ^ 2 * (PI / 2) + r2 ^ 2 * acos (d / r2) - d * r1) /\
  lens_code r2 r1 d = Some (r1 ^ 2 * (PI / 2) + r2 ^ 2 * acos (d / r2) - d * r1).
Proof. exact lens_code_right_at_first. Qed.
Print Assumptions C17_right_angle_at_centre.

Theorem C17_right_angle_cosine_zero : forall r1 r2 d, 0 < r1 -> 0 < d ->
  r2 ^ 2 = r1 ^ 2 + d ^ 2 -> cosarg r1 r2 d = 0.
Proof. exact cosarg_right_at_first. Qed.
Print Assumptions C17_right_angle_cosine_zero.

(* right angle at the intersection points (orthogonal circles; r1 = 3, r2 = 4, d = 5) *)
Theorem C17_orthogonal_circles : forall r1 r2 d, 0 < r1 -> 0 < r2 -> 0 < d ->
  d ^ 2 = r1 ^ 2 + r2 ^ 2 ->
  lens r1 r2 d = r1 ^ 2 * acos (r1 / d) + r2 ^ 2 * acos (r2 / d) - r1 * r2.
Proof. exact lens_orthogonal. Qed.
Print Assumptions C17_orthogonal_circles.

Example C17_right_angle_inhabited : 0 < 3 /\ 0 < 5 /\ 0 < 4 /\ 5 ^ 2 = 3 ^ 2 + 4 ^ 2.
Proof. exact right_at_first_3_4_5. Qed.
Example C17_orthogonal_inhabited : 0 < 3 /\ 0 < 4 /\ 0 < 5 /\ 5 ^ 2 = 3 ^ 2 + 4 ^ 2.
Proof. exact orthogonal_3_4_5. Qed.
(* a non-axis offset: centres (0,0) and (1,2), radii 2 and 3: 2^2 + 5 = 3^2 *)
Example C17_right_angle_offset_1_2 : 3 ^ 2 = 2 ^ 2 + dist 0 0 1 2 ^ 2.
Proof. exact right_at_first_offset_1_2. Qed.

(* ---------- a function of its arguments (harness: state runs) ----------
   [overlap_code] has no parameter for the process state (the class-wide Rectangle
   tolerances).  Over histories of set_epsilon / undefine_epsilon / Die loading /
   calls (Disc/LensState.v) the results are those of the calls alone: the same from
   every initial state and for every interleaving of state operations. *)
Theorem C17_overlap_same_in_every_state : forall (g g' : gstate) x1 y1 r1 x2 y2 r2,
  overlap_in g x1 y1 r1 x2 y2 r2 = overlap_in g' x1 y1 r1 x2 y2 r2.
Proof. exact overlap_in_any_state. Qed.
Print Assumptions C17_overlap_same_in_every_state.

Theorem C17_history_results_are_the_calls : forall h g, run_hist g h = calls h.
Proof. exact run_hist_calls. Qed.
Print Assumptions C17_history_results_are_the_calls.

Theorem C17_history_same_from_every_state : forall h g g', run_hist g h = run_hist g' h.
Proof. exact run_hist_any_state. Qed.
Print Assumptions C17_history_same_from_every_state.

(* the value is the same for every gstate: two unit discs at distance 19/10, before and
   after a 5e10 x 2e10 die was loaded, after set_epsilon(3/10), after undefine_epsilon *)
Example C17_same_value_for_every_state :
  run_hist None [Call 0 0 1 (19/10) 0 1; LoadDie 50000000000 20000000000; Call 0 0 1 (19/10) 0 1;
                 SetEps (3/10); Call 0 0 1 (19/10) 0 1; Undefine; Call 0 0 1 (19/10) 0 1]
  = let v := overlap_code 0 0 1 (19/10) 0 1 in [v; v; v; v].
Proof. exact history_example. Qed.
