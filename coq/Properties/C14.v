(* C14 - Spectral placement keeps every module's disc inside the die.
   Statements only; every proof is [exact <lemma>].

   Proof of the LOGICAL SHELL of tools/spectral for ARBITRARY iteration vectors:
   [rnd] (the random start), [produce] (orthogonalize + calculate_centroids + the
   "more modest move": any vector of any magnitude), [niter] (how many iterations
   the convergence test lets through) and [radius_of] (sqrt(area/pi)) are arbitrary
   functions.  What carries the property is the post-condition of [normalize], the
   last operation applied to every coordinate row on every path.  [normalize] is the
   function as repaired by fixes/C14-normalize-small.diff; [normalize_orig] is the
   function as it stood (finding F16).  Exact rationals; binary64 rounding and the
   convergence of the eigen-iteration are explored by the harness, not proved. *)
From FrameModel Require Import Num.QcTac Geometry.Rect Spectral.Normalize Spectral.NormalizeFacts
  Spectral.LayoutFacts.
Open Scope Qc_scope.

(* ---- normalize as it stood ---- *)
Theorem C14_normalize_orig_bound : forall (thr : Qc), 0 <= thr ->
  forall xs spans fx ys i x s,
  normalize_orig thr xs spans fx = Ok ys -> (forall s, In s spans -> 0 <= s) ->
  nth_error xs i = Some x -> nth_error spans i = Some s -> nth_error fx i = Some false ->
  thr < Qcabs x ->
  exists y, nth_error ys i = Some y /\ Qcabs y <= s.
Proof. exact normalize_orig_bound. Qed.
Print Assumptions C14_normalize_orig_bound.

Theorem C14_normalize_orig_fixed : forall (thr : Qc) xs spans fx ys i,
  normalize_orig thr xs spans fx = Ok ys -> nth_error fx i = Some true ->
  nth_error ys i = nth_error xs i.
Proof. exact normalize_orig_fixed. Qed.
Print Assumptions C14_normalize_orig_fixed.

(* entries at or below the threshold: multiplied by a scale they had no part in choosing *)
Theorem C14_normalize_orig_small : forall (thr : Qc), 0 <= thr ->
  forall xs spans fx ys i x,
  normalize_orig thr xs spans fx = Ok ys -> (forall s, In s spans -> 0 <= s) ->
  nth_error xs i = Some x -> nth_error fx i = Some false -> Qcabs x <= thr ->
  exists sc, list_min (cands thr xs spans fx) = Some sc /\ 0 <= sc /\
             nth_error ys i = Some (x * sc) /\ Qcabs (x * sc) <= thr * sc.
Proof. exact normalize_orig_small. Qed.
Print Assumptions C14_normalize_orig_small.

(* the full bound "every movable entry ends within its span" is FALSE of the function as
   it stood: x = [1e-9, 2e-9, 0, 0], spans = [0.1, 10, 5, 5] -> entry 0 becomes 5 > 0.1 *)
Definition C14_normalize_orig_all_statement : Prop :=
  forall thr xs spans fx ys i y s,
    0 <= thr -> (forall s, In s spans -> 0 <= s) -> List.length spans = List.length xs ->
    List.length fx = List.length xs -> normalize_orig thr xs spans fx = Ok ys ->
    nth_error ys i = Some y -> nth_error spans i = Some s -> nth_error fx i = Some false -> Qcabs y <= s.
Theorem C14_normalize_orig_refuted :
  exists thr xs spans fx ys i y s,
    0 <= thr /\ (forall s, In s spans -> 0 <= s) /\ List.length spans = List.length xs /\
    List.length fx = List.length xs /\ normalize_orig thr xs spans fx = Ok ys /\
    nth_error ys i = Some y /\ nth_error spans i = Some s /\ nth_error fx i = Some false /\ s < Qcabs y.
Proof. exact normalize_orig_refuted. Qed.
Print Assumptions C14_normalize_orig_refuted.

(* ---- normalize as repaired ---- *)
(* EVERY movable entry with a non-negative span ends within its span, whatever the
   threshold and whatever the input vector *)
Theorem C14_normalize_bound : forall (thr : Qc) xs spans fx ys i y s,
  normalize thr xs spans fx = Ok ys ->
  nth_error ys i = Some y -> nth_error spans i = Some s -> nth_error fx i = Some false -> 0 <= s ->
  Qcabs y <= s.
Proof. exact normalize_bound. Qed.
Print Assumptions C14_normalize_bound.

Theorem C14_normalize_fixed : forall (thr : Qc) xs spans fx ys i,
  normalize thr xs spans fx = Ok ys -> nth_error fx i = Some true -> nth_error ys i = nth_error xs i.
Proof. exact normalize_fixed. Qed.
Print Assumptions C14_normalize_fixed.

(* the repair changes nothing where the original kept its promise *)
Theorem C14_normalize_conservative : forall (thr : Qc) xs spans fx ys,
  normalize_orig thr xs spans fx = Ok ys -> List.length spans = List.length xs ->
  (forall i y s, nth_error ys i = Some y -> nth_error spans i = Some s -> nth_error fx i = Some false ->
                 Qcabs y <= s) ->
  normalize thr xs spans fx = Ok ys.
Proof. exact normalize_conservative. Qed.
Print Assumptions C14_normalize_conservative.

Theorem C14_normalize_large_exact : forall (thr : Qc), 0 <= thr ->
  forall xs spans fx ys i x s,
  normalize thr xs spans fx = Ok ys -> (forall s, In s spans -> 0 <= s) ->
  nth_error xs i = Some x -> nth_error spans i = Some s -> nth_error fx i = Some false ->
  thr < Qcabs x ->
  exists sc, list_min (cands thr xs spans fx) = Some sc /\ nth_error ys i = Some (x * sc).
Proof. exact normalize_large_exact. Qed.
Print Assumptions C14_normalize_large_exact.

(* ---- Spectral.spectral_layout ---- *)
(* every movable module whose disc fits in the die ends with its disc in the die: the
   disc is centred at the module's position = its centre, or for a hard module (whose
   centre is dropped) the area-weighted centre of its recentred rectangles *)
Theorem C14_layout_discs : forall (thr : Qc) (rnd : nat -> nat -> nat -> Qc)
    (produce : nat -> nat -> nat -> list (list Qc) -> list Qc -> list Qc) (niter : nat -> nat -> nat)
    (A B : Type) (radius_of : smod A -> Qc) (W H : Qc) (nf : nat) (nl out : snet A B) (i : nat) (m : smod A),
  spectral_layout thr rnd produce niter radius_of W H nf nl = Ok out ->
  nth_error (s_mods nl) i = Some m -> s_fixed m = false ->
  radius_of m <= W * half -> radius_of m <= H * half ->
  exists m' c, nth_error (s_mods out) i = Some m' /\ position_is m' c /\ disc_in_die W H c (radius_of m).
Proof. exact @layout_discs. Qed.
Print Assumptions C14_layout_discs.

(* what "disc in the die" means *)
Theorem C14_disc_in_die_geom : forall (W H : Qc) (c : vec) (r : Qc), disc_in_die W H c r <->
  (0 <= fst c - r /\ fst c + r <= W /\ 0 <= snd c - r /\ snd c + r <= H).
Proof. exact disc_in_die_geom. Qed.
Print Assumptions C14_disc_in_die_geom.

Theorem C14_layout_fixed : forall (thr : Qc) (rnd : nat -> nat -> nat -> Qc)
    (produce : nat -> nat -> nat -> list (list Qc) -> list Qc -> list Qc) (niter : nat -> nat -> nat)
    (A B : Type) (radius_of : smod A -> Qc) (W H : Qc) (nf : nat) (nl out : snet A B) (i : nat) (m : smod A),
  spectral_layout thr rnd produce niter radius_of W H nf nl = Ok out ->
  nth_error (s_mods nl) i = Some m -> s_fixed m = true ->
  exists c, s_centre m = Some c /\
    nth_error (s_mods out) i =
    Some (mkSmod (if s_hard m && negb (s_terminal m) then None else Some c)
                 (s_fixed m) (s_hard m) (s_terminal m) (s_rects m) (s_other m)).
Proof. exact @layout_fixed. Qed.
Print Assumptions C14_layout_fixed.

Theorem C14_layout_rigid : forall (thr : Qc) (rnd : nat -> nat -> nat -> Qc)
    (produce : nat -> nat -> nat -> list (list Qc) -> list Qc -> list Qc) (niter : nat -> nat -> nat)
    (A B : Type) (radius_of : smod A -> Qc) (W H : Qc) (nf : nat) (nl out : snet A B) (i : nat) (m : smod A),
  spectral_layout thr rnd produce niter radius_of W H nf nl = Ok out ->
  nth_error (s_mods nl) i = Some m -> s_fixed m = false -> s_hard m = true ->
  exists m' dx dy, nth_error (s_mods out) i = Some m' /\ s_rects m' = map (shift dx dy) (s_rects m).
Proof. exact @layout_rigid. Qed.
Print Assumptions C14_layout_rigid.

Theorem C14_layout_same_nets_areas : forall (thr : Qc) (rnd : nat -> nat -> nat -> Qc)
    (produce : nat -> nat -> nat -> list (list Qc) -> list Qc -> list Qc) (niter : nat -> nat -> nat)
    (A B : Type) (radius_of : smod A -> Qc) (W H : Qc) (nf : nat) (nl out : snet A B),
  spectral_layout thr rnd produce niter radius_of W H nf nl = Ok out ->
  s_nets out = s_nets nl /\ s_adj out = s_adj nl /\
  List.length (s_mods out) = List.length (s_mods nl) /\
  forall i m, nth_error (s_mods nl) i = Some m ->
    exists m', nth_error (s_mods out) i = Some m' /\
      s_other m' = s_other m /\ s_fixed m' = s_fixed m /\ s_hard m' = s_hard m /\
      s_terminal m' = s_terminal m /\ map shape_of (s_rects m') = map shape_of (s_rects m) /\
      rects_area (s_rects m') = rects_area (s_rects m) /\
      (s_hard m && negb (s_fixed m) = false -> s_rects m' = s_rects m).
Proof. exact @layout_same_nets_areas. Qed.
Print Assumptions C14_layout_same_nets_areas.
