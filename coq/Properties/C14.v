(* C14 - Spectral placement keeps every module's disc inside the die.
   Statements only; every proof is [exact <lemma>].

   Proof of the LOGICAL SHELL of tools/spectral for ARBITRARY iteration vectors:
   [rnd] (the random start), [produce] (orthogonalize + calculate_centroids + the
   "more modest move": any vector of any magnitude), [niter] (how many iterations
   the convergence test lets through) and [radius_of] (sqrt(area/pi)) are arbitrary
   functions.  What carries the property is the post-condition of [normalize], the
   last operation applied to every coordinate row on every path.  [normalize] is the
   function as repaired by fixes/C14-normalize-small.diff; [normalize_orig] is the
   function as it stood (finding F16).  Exact rationals; binary64 rounding and the
   convergence of the eigen-iteration are explored by the harness, not proved. *)
From FrameModel Require Import Num.QcTac Geometry.Rect Spectral.Normalize Spectral.NormalizeFacts
  Spectral.LayoutFacts Spectral.Iterate Spectral.IterateFacts.
Open Scope Qc_scope.

(* ---- normalize as it stood ---- *)
Theorem C14_normalize_orig_bound : forall (thr : Qc), 0 <= thr ->
  forall xs spans fx ys i x s,
  normalize_orig thr xs spans fx = Ok ys -> (forall s, In s spans -> 0 <= s) ->
  nth_error xs i = Some x -> nth_error spans i = Some s -> nth_error fx i = Some false ->
  thr < Qcabs x ->
  exists y, nth_error ys i = Some y /\ Qcabs y <= s.
Proof. exact normalize_orig_bound. Qed.
Print Assumptions C14_normalize_orig_bound.

Theorem C14_normalize_orig_fixed : forall (thr : Qc) xs spans fx ys i,
  normalize_orig thr xs spans fx = Ok ys -> nth_error fx i = Some true ->
  nth_error ys i = nth_error xs i.
Proof. exact normalize_orig_fixed. Qed.
Print Assumptions C14_normalize_orig_fixed.

(* entries at or below the threshold: multiplied by a scale they had no part in choosing *)
Theorem C14_normalize_orig_small : forall (thr : Qc), 0 <= thr ->
  forall xs spans fx ys i x,
  normalize_orig thr xs spans fx = Ok ys -> (forall s, In s spans -> 0 <= s) ->
  nth_error xs i = Some x -> nth_error fx i = Some false -> Qcabs x <= thr ->
  exists sc, list_min (cands thr xs spans fx) = Some sc /\ 0 <= sc /\
             nth_error ys i = Some (x * sc) /\ Qcabs (x * sc) <= thr * sc.
Proof. exact normalize_orig_small. Qed.
Print Assumptions C14_normalize_orig_small.

(* the full bound "every movable entry ends within its span" is FALSE of the function as
   it stood: x = [1e-9, 2e-9, 0, 0], spans = [0.1, 10, 5, 5] -> entry 0 becomes 5 > 0.1 *)
Definition C14_normalize_orig_all_statement : Prop :=
  forall thr xs spans fx ys i y s,
    0 <= thr -> (forall s, In s spans -> 0 <= s) -> List.length spans = List.length xs ->
    List.length fx = List.length xs -> normalize_orig thr xs spans fx = Ok ys ->
    nth_error ys i = Some y -> nth_error spans i = Some s -> nth_error fx i = Some false -> Qcabs y <= s.
Theorem C14_normalize_orig_refuted :
  exists thr xs spans fx ys i y s,
    0 <= thr /\ (forall s, In s spans -> 0 <= s) /\ List.length spans = List.length xs /\
    List.length fx = List.length xs /\ normalize_orig thr xs spans fx = Ok ys /\
    nth_error ys i = Some y /\ nth_error spans i = Some s /\ nth_error fx i = Some false /\ s < Qcabs y.
Proof. exact normalize_orig_refuted. Qed.
Print Assumptions C14_normalize_orig_refuted.

(* ---- normalize as repaired ---- *)
(* EVERY movable entry with a non-negative span ends within its span, whatever the
   threshold and whatever the input vector *)
Theorem C14_normalize_bound : forall (thr : Qc) xs spans fx ys i y s,
  normalize thr xs spans fx = Ok ys ->
  nth_error ys i = Some y -> nth_error spans i = Some s -> nth_error fx i = Some false -> 0 <= s ->
  Qcabs y <= s.
Proof. exact normalize_bound. Qed.
Print Assumptions C14_normalize_bound.

Theorem C14_normalize_fixed : forall (thr : Qc) xs spans fx ys i,
  normalize thr xs spans fx = Ok ys -> nth_error fx i = Some true -> nth_error ys i = nth_error xs i.
Proof. exact normalize_fixed. Qed.
Print Assumptions C14_normalize_fixed.

(* the repair changes nothing where the original kept its promise *)
Theorem C14_normalize_conservative : forall (thr : Qc) xs spans fx ys,
  normalize_orig thr xs spans fx = Ok ys -> List.length spans = List.length xs ->
  (forall i y s, nth_error ys i = Some y -> nth_error spans i = Some s -> nth_error fx i = Some false ->
                 Qcabs y <= s) ->
  normalize thr xs spans fx = Ok ys.
Proof. exact normalize_conservative. Qed.
Print Assumptions C14_normalize_conservative.

Theorem C14_normalize_large_exact : forall (thr : Qc), 0 <= thr ->
  forall xs spans fx ys i x s,
  normalize thr xs spans fx = Ok ys -> (forall s, In s spans -> 0 <= s) ->
  nth_error xs i = Some x -> nth_error spans i = Some s -> nth_error fx i = Some false ->
  thr < Qcabs x ->
  exists sc, list_min (cands thr xs spans fx) = Some sc /\ nth_error ys i = Some (x * sc).
Proof. exact normalize_large_exact. Qed.
Print Assumptions C14_normalize_large_exact.

(* ---- Spectral.spectral_layout ---- *)
(* every movable module whose disc fits in the die ends with its disc in the die: the
   disc is centred at the module's position = its centre, or for a hard module (whose
   centre is dropped) the area-weighted centre of its recentred rectangles *)
Theorem C14_layout_discs : forall (thr : Qc) (rnd : nat -> nat -> nat -> Qc)
    (produce : nat -> nat -> nat -> list (list Qc) -> list Qc -> list Qc) (niter : nat -> nat -> nat)
    (A B : Type) (radius_of : smod A -> Qc) (W H : Qc) (nf : nat) (nl out : snet A B) (i : nat) (m : smod A),
  spectral_layout thr rnd produce niter radius_of W H nf nl = Ok out ->
  nth_error (s_mods nl) i = Some m -> s_fixed m = false ->
  radius_of m <= W * half -> radius_of m <= H * half ->
  exists m' c, nth_error (s_mods out) i = Some m' /\ position_is m' c /\ disc_in_die W H c (radius_of m).
Proof. exact @layout_discs. Qed.
Print Assumptions C14_layout_discs.

(* what "disc in the die" means *)
Theorem C14_disc_in_die_geom : forall (W H : Qc) (c : vec) (r : Qc), disc_in_die W H c r <->
  (0 <= fst c - r /\ fst c + r <= W /\ 0 <= snd c - r /\ snd c + r <= H).
Proof. exact disc_in_die_geom. Qed.
Print Assumptions C14_disc_in_die_geom.

Theorem C14_layout_fixed : forall (thr : Qc) (rnd : nat -> nat -> nat -> Qc)
    (produce : nat -> nat -> nat -> list (list Qc) -> list Qc -> list Qc) (niter : nat -> nat -> nat)
    (A B : Type) (radius_of : smod A -> Qc) (W H : Qc) (nf : nat) (nl out : snet A B) (i : nat) (m : smod A),
  spectral_layout thr rnd produce niter radius_of W H nf nl = Ok out ->
  nth_error (s_mods nl) i = Some m -> s_fixed m = true ->
  exists c, s_centre m = Some c /\
    nth_error (s_mods out) i =
    Some (mkSmod (if s_hard m && negb (s_terminal m) then None else Some c)
                 (s_fixed m) (s_hard m) (s_terminal m) (s_rects m) (s_other m)).
Proof. exact @layout_fixed. Qed.
Print Assumptions C14_layout_fixed.

Theorem C14_layout_rigid : forall (thr : Qc) (rnd : nat -> nat -> nat -> Qc)
    (produce : nat -> nat -> nat -> list (list Qc) -> list Qc -> list Qc) (niter : nat -> nat -> nat)
    (A B : Type) (radius_of : smod A -> Qc) (W H : Qc) (nf : nat) (nl out : snet A B) (i : nat) (m : smod A),
  spectral_layout thr rnd produce niter radius_of W H nf nl = Ok out ->
  nth_error (s_mods nl) i = Some m -> s_fixed m = false -> s_hard m = true ->
  exists m' dx dy, nth_error (s_mods out) i = Some m' /\ s_rects m' = map (shift dx dy) (s_rects m).
Proof. exact @layout_rigid. Qed.
Print Assumptions C14_layout_rigid.

Theorem C14_layout_same_nets_areas : forall (thr : Qc) (rnd : nat -> nat -> nat -> Qc)
    (produce : nat -> nat -> nat -> list (list Qc) -> list Qc -> list Qc) (niter : nat -> nat -> nat)
    (A B : Type) (radius_of : smod A -> Qc) (W H : Qc) (nf : nat) (nl out : snet A B),
  spectral_layout thr rnd produce niter radius_of W H nf nl = Ok out ->
  s_nets out = s_nets nl /\ s_adj out = s_adj nl /\
  List.length (s_mods out) = List.length (s_mods nl) /\
  forall i m, nth_error (s_mods nl) i = Some m ->
    exists m', nth_error (s_mods out) i = Some m' /\
      s_other m' = s_other m /\ s_fixed m' = s_fixed m /\ s_hard m' = s_hard m /\
      s_terminal m' = s_terminal m /\ map shape_of (s_rects m') = map shape_of (s_rects m) /\
      rects_area (s_rects m') = rects_area (s_rects m) /\
      (s_hard m && negb (s_fixed m) = false -> s_rects m' = s_rects m).
Proof. exact @layout_same_nets_areas. Qed.
Print Assumptions C14_layout_same_nets_areas.

(* ---- Module.recenter_rectangles at full strength: BOTH axes, every input ---- *)
(* every rectangle is moved by (centre - area-weighted centre of the rectangles), x and y *)
Theorem C14_recenter_exact : forall (rs : list Rect) (c : vec) (rs' : list Rect),
  recenter rs c = Ok rs' ->
  rects_area rs <> 0 /\ rs' = map (shift (fst c - gx rs) (snd c - gy rs)) rs.
Proof. exact recenter_exact. Qed.
Print Assumptions C14_recenter_exact.

(* per rectangle and per axis: an axis stands still exactly when ITS OWN increment is zero; a
   coincidence (zero increment) in one axis does not keep the other axis from moving *)
Theorem C14_recenter_axes : forall (rs : list Rect) (c : vec) (rs' : list Rect) (i : nat) (r : Rect),
  recenter rs c = Ok rs' -> nth_error rs i = Some r ->
  exists r', nth_error rs' i = Some r' /\ shape_of r' = shape_of r /\
    cx r' = cx r + (fst c - gx rs) /\ cy r' = cy r + (snd c - gy rs) /\
    (cx r' = cx r <-> fst c = gx rs) /\ (cy r' = cy r <-> snd c = gy rs).
Proof. exact recenter_nth. Qed.
Print Assumptions C14_recenter_axes.

Theorem C14_recenter_centred : forall (rs : list Rect) (c : vec) (rs' : list Rect),
  recenter rs c = Ok rs' -> centroid_is rs' c.
Proof. exact recenter_centroid_is. Qed.
Print Assumptions C14_recenter_centred.

(* zero increments in both axes: already centred rectangles stay where they are; the move is idempotent *)
Theorem C14_recenter_fixpoint : forall (rs : list Rect) (c : vec),
  rects_area rs <> 0 -> gx rs = fst c -> gy rs = snd c -> recenter rs c = Ok rs.
Proof. exact recenter_fixpoint. Qed.
Print Assumptions C14_recenter_fixpoint.

Theorem C14_recenter_idem : forall (rs : list Rect) (c : vec) (rs' : list Rect),
  recenter rs c = Ok rs' -> recenter rs' c = Ok rs'.
Proof. exact recenter_idem. Qed.
Print Assumptions C14_recenter_idem.

(* a hard module driven through its public interface (centre setter, add_rectangle, recenter_rectangles in
   any order): a recenter_rectangles() that returns acts on the rectangles and the centre the module has NOW *)
Theorem C14_recenter_history : forall (ops : list rc_op) (st st' : rc_state),
  rc_run (ops ++ [RcRecenter]) st = Ok st' ->
  exists st1 c, rc_run ops st = Ok st1 /\ rc_centre st1 = Some c /\ rc_centre st' = Some c /\
    rc_rects st' = map (shift (fst c - gx (rc_rects st1)) (snd c - gy (rc_rects st1))) (rc_rects st1) /\
    centroid_is (rc_rects st') c.
Proof. exact rc_history. Qed.
Print Assumptions C14_recenter_history.

(* spectral_layout moves a movable hard module to the computed position c in both axes *)
Theorem C14_layout_rigid_exact : forall (thr : Qc) (rnd : nat -> nat -> nat -> Qc)
    (produce : nat -> nat -> nat -> list (list Qc) -> list Qc -> list Qc) (niter : nat -> nat -> nat)
    (A B : Type) (radius_of : smod A -> Qc) (W H : Qc) (nf : nat) (nl out : snet A B) (i : nat) (m : smod A),
  spectral_layout thr rnd produce niter radius_of W H nf nl = Ok out ->
  nth_error (s_mods nl) i = Some m -> s_fixed m = false -> s_hard m = true ->
  exists m' c, nth_error (s_mods out) i = Some m' /\
    s_rects m' = map (shift (fst c - gx (s_rects m)) (snd c - gy (s_rects m))) (s_rects m) /\
    centroid_is (s_rects m') c /\
    (radius_of m <= W * half -> radius_of m <= H * half -> disc_in_die W H c (radius_of m)).
Proof. exact @layout_rigid_exact. Qed.
Print Assumptions C14_layout_rigid_exact.

(* ---- several calls on ONE Spectral object (other dies, trial counts, seeds) ----
   [sess_init] is Spectral.__init__ (graph, masses, fixed flags and the centre matrix are stored once),
   [sess_run] a sequence of spectral_layout calls, each with its own die, trial count and arbitrary
   random start / iteration vectors.  The statements are about the LAST call of any sequence. *)
Theorem C14_session_single : forall (thr : Qc) (A B : Type) (radius_of : smod A -> Qc) rnd produce niter
    (W H : Qc) (nf : nat) (nl : snet A B),
  spectral_layout thr rnd produce niter radius_of W H nf nl =
  match sess_init radius_of nl with
  | Ok s0 => match sess_run thr [mkCall W H nf rnd produce niter] s0 with
             | Ok s => Ok (mkSnet (ss_mods s) (ss_adj s) (ss_nets s))
             | EmptyMin => EmptyMin | ZeroDiv => ZeroDiv | AssertFail => AssertFail
             end
  | EmptyMin => EmptyMin | ZeroDiv => ZeroDiv | AssertFail => AssertFail
  end.
Proof. exact @layout_is_session. Qed.
Print Assumptions C14_session_single.

Theorem C14_session_discs : forall (thr : Qc) (A B : Type) (radius_of : smod A -> Qc)
    (nl : snet A B) (calls : list call) (c : call) (s0 s2 : sess A B) (i : nat) (m0 : smod A),
  sess_init radius_of nl = Ok s0 -> sess_run thr (calls ++ [c]) s0 = Ok s2 ->
  nth_error (s_mods nl) i = Some m0 -> s_fixed m0 = false ->
  radius_of m0 <= c_W c * half -> radius_of m0 <= c_H c * half ->
  exists m2 p, nth_error (ss_mods s2) i = Some m2 /\ position_is m2 p /\
               disc_in_die (c_W c) (c_H c) p (radius_of m0).
Proof. exact @session_discs. Qed.
Print Assumptions C14_session_discs.

Theorem C14_session_fixed : forall (thr : Qc) (A B : Type) (radius_of : smod A -> Qc)
    (nl : snet A B) (calls : list call) (c : call) (s0 s2 : sess A B) (i : nat) (m0 : smod A),
  sess_init radius_of nl = Ok s0 -> sess_run thr (calls ++ [c]) s0 = Ok s2 ->
  nth_error (s_mods nl) i = Some m0 -> s_fixed m0 = true ->
  exists c0, s_centre m0 = Some c0 /\
    nth_error (ss_mods s2) i =
    Some (mkSmod (if s_hard m0 && negb (s_terminal m0) then None else Some c0)
                 (s_fixed m0) (s_hard m0) (s_terminal m0) (s_rects m0) (s_other m0)).
Proof. exact @session_fixed. Qed.
Print Assumptions C14_session_fixed.

(* m1 = the module as the object holds it just before the last call (the current values) *)
Theorem C14_session_rigid : forall (thr : Qc) (A B : Type) (radius_of : smod A -> Qc)
    (nl : snet A B) (calls : list call) (c : call) (s0 s2 : sess A B) (i : nat) (m0 : smod A),
  sess_init radius_of nl = Ok s0 -> sess_run thr (calls ++ [c]) s0 = Ok s2 ->
  nth_error (s_mods nl) i = Some m0 -> s_fixed m0 = false -> s_hard m0 = true ->
  exists (s1 : sess A B) m1 m2 p,
    sess_run thr calls s0 = Ok s1 /\ nth_error (ss_mods s1) i = Some m1 /\ nth_error (ss_mods s2) i = Some m2 /\
    s_rects m2 = map (shift (fst p - gx (s_rects m1)) (snd p - gy (s_rects m1))) (s_rects m1) /\
    centroid_is (s_rects m2) p /\
    (radius_of m0 <= c_W c * half -> radius_of m0 <= c_H c * half -> disc_in_die (c_W c) (c_H c) p (radius_of m0)) /\
    (exists dx dy, s_rects m1 = map (shift dx dy) (s_rects m0)) /\
    (exists dx dy, s_rects m2 = map (shift dx dy) (s_rects m0)).
Proof. exact @session_rigid. Qed.
Print Assumptions C14_session_rigid.

Theorem C14_session_same_nets_areas : forall (thr : Qc) (A B : Type) (radius_of : smod A -> Qc)
    (nl : snet A B) (calls : list call) (s0 s : sess A B),
  sess_init radius_of nl = Ok s0 -> sess_run thr calls s0 = Ok s ->
  ss_nets s = s_nets nl /\ ss_adj s = s_adj nl /\ List.length (ss_mods s) = List.length (s_mods nl) /\
  forall i m0, nth_error (s_mods nl) i = Some m0 ->
    exists m, nth_error (ss_mods s) i = Some m /\
      s_other m = s_other m0 /\ s_fixed m = s_fixed m0 /\ s_hard m = s_hard m0 /\ s_terminal m = s_terminal m0 /\
      map shape_of (s_rects m) = map shape_of (s_rects m0) /\ rects_area (s_rects m) = rects_area (s_rects m0) /\
      (s_hard m0 && negb (s_fixed m0) = false -> s_rects m = s_rects m0) /\
      (exists dx dy, s_rects m = map (shift dx dy) (s_rects m0)).
Proof. exact @session_same. Qed.
Print Assumptions C14_session_same_nets_areas.

(* ---- the constructor does not alter what it is given ----
   [spectral_new] is Spectral.__init__ on the INPUT (modules, nets: module indices as listed, a module may be
   listed twice, and the weight): the object holds the modules and the nets as given, its graph is the clique
   model of exactly those nets (every listed pin counts in the divisor 2w/k) ... *)
Theorem C14_constructor_keeps_input : forall (A : Type) (radius_of : smod A -> Qc) (ms : list (smod A))
    (nets : list net) (s0 : sess A (list net)),
  spectral_new radius_of ms nets = Ok s0 ->
  ss_mods s0 = ms /\ ss_nets s0 = nets /\ clique_adj (List.length ms) nets = Ok (ss_adj s0) /\
  ss_fx s0 = map (fun m => s_fixed m) ms /\
  exists adj, sess_init radius_of (mkSnet ms adj nets) = Ok s0.
Proof. exact @spectral_new_input. Qed.
Print Assumptions C14_constructor_keeps_input.

(* ... and after ANY sequence of calls the nets are still the nets of the input, pin by pin, the graph is still
   their clique model, and every module keeps payload, flags, rectangle shapes and area *)
Theorem C14_constructed_session_same : forall (A : Type) (radius_of : smod A -> Qc) (thr : Qc)
    (ms : list (smod A)) (nets : list net) (calls : list call) (s0 s : sess A (list net)),
  spectral_new radius_of ms nets = Ok s0 -> sess_run thr calls s0 = Ok s ->
  ss_nets s = nets /\ clique_adj (List.length ms) nets = Ok (ss_adj s) /\
  List.length (ss_mods s) = List.length ms /\
  forall i m0, nth_error ms i = Some m0 ->
    exists m, nth_error (ss_mods s) i = Some m /\
      s_other m = s_other m0 /\ s_fixed m = s_fixed m0 /\ s_hard m = s_hard m0 /\ s_terminal m = s_terminal m0 /\
      map shape_of (s_rects m) = map shape_of (s_rects m0) /\ rects_area (s_rects m) = rects_area (s_rects m0) /\
      (s_hard m0 && negb (s_fixed m0) = false -> s_rects m = s_rects m0) /\
      (exists dx dy, s_rects m = map (shift dx dy) (s_rects m0)).
Proof. exact @constructed_session_same. Qed.
Print Assumptions C14_constructed_session_same.

(* ---- the CONCRETE iteration of spectral_layout_die (what the theorems above abstract as [produce]) ----
   orthogonalize against the finished rows, calculate_centroids, fixed entries kept, the rarely taken "all nodes
   ended in the same place" step (average with the current row), normalize.  For EVERY graph, mass vector,
   start row and epsilon - in particular for the bipartite graphs and mirrored starts on which the averaging
   step is taken - a step that returns leaves every movable entry within its span ... *)
Theorem C14_iteration_bound : forall (thr atol eps : Qc) (adj : adjlist) (deg mass : list Qc) (fx : list bool)
    (spans : list Qc) (prev : list (list Qc)) (c co c' : list Qc) (i : nat) (y s : Qc),
  iter_step thr atol eps adj deg mass fx spans prev c = Ok (co, c') ->
  nth_error c' i = Some y -> nth_error spans i = Some s -> nth_error fx i = Some false -> 0 <= s ->
  Qcabs y <= s.
Proof. exact iter_step_bound. Qed.
Print Assumptions C14_iteration_bound.

(* ... and every fixed entry where it was *)
Theorem C14_iteration_fixed : forall (thr atol eps : Qc) (adj : adjlist) (deg mass : list Qc) (fx : list bool)
    (spans : list Qc) (prev : list (list Qc)) (c co c' : list Qc) (i : nat),
  iter_step thr atol eps adj deg mass fx spans prev c = Ok (co, c') -> nth_error fx i = Some true ->
  nth_error c' i = nth_error c i.
Proof. exact iter_step_fixed. Qed.
Print Assumptions C14_iteration_fixed.

(* one whole dimension with the concrete loop (convergence test, iteration limit [fuel], any random entries
   [rnd]): fixed nodes at initial - size/2, every movable node whose disc fits within size/2 - radius *)
Theorem C14_dimension_concrete : forall (thr atol eps : Qc) (adj : adjlist) (deg mass : list Qc) (fx : list bool)
    (spans : list Qc) (rnd : nat -> nat -> nat -> Qc) (d fuel : nat) (size : Qc) (radius ini : list Qc)
    (prev : list (list Qc)) (c : list Qc) (k : nat),
  spans = spans_of size radius ->
  dim_run_conc thr atol eps adj deg mass fx spans rnd d fuel size ini prev = Ok (c, k) ->
  List.length fx = List.length ini ->
  List.length c = List.length ini /\ (k <= fuel)%nat /\
  (forall j x, nth_error ini j = Some x -> nth_error fx j = Some true -> nth_error c j = Some (x - size * half)) /\
  (forall j y r, nth_error c j = Some y -> nth_error radius j = Some r -> nth_error fx j = Some false ->
                 r <= size * half -> Qcabs y + r <= size * half).
Proof. exact dim_run_conc_post. Qed.
Print Assumptions C14_dimension_concrete.
