(* C08 - Rectilinear shape search admits exactly the k-box single-trunk orthogons.
   Statements only; every proof is [exact <lemma>].  Model: RectSearch/Coords.v (definecoords),
   Names.v (variables), Encode.v (enforce_bb, solve as posting sequences of C07's SATManager
   model, with the border-test repair fixes/C08-border-tests.diff), Shapes.v (specification).
   All theorems are for every grid size and every number of boxes k >= 1; the SAT solver is a
   function with a sound-and-complete contract (as in C07).
   Grids: the theorems are stated under the decidable hypothesis [full_grid inp]; C08_full_grid_general
   proves it for EVERY rectangular grid of cells given by strictly increasing coordinate lists (cells
   in any order, any occupancy values), and C08_shapes_exact_grid / C08_search_exact_grid restate
   the two main theorems for grids given that way.
   Modes: rect.solve has two branches - "Min area approach" (ratio < 1: --minarea, --sf d < 1) and
   "Min error approach" (ratio >= 1: --minerr (2, default), --maxdiff (3), --sf d >= 1).  The property
   quantifies over the cost bounds of the minimum-error mode: the search theorems are for every
   ratio >= 1 (hypothesis ~ ratio < 1); the shape theorems (box / attach / shapes) do not depend on
   the mode, the formula part they describe is posted identically in both branches. *)
From Coq Require Import ZArith List Bool String Sorted Permutation.
From FrameModel Require Import Num.QcTac PB.Expr PB.Cnf PB.Robdd PB.Codify PB.Sat
  RectSearch.Coords RectSearch.Names RectSearch.Encode RectSearch.Registry RectSearch.Shapes RectSearch.EncodeFacts
  RectSearch.GridFacts RectSearch.BoxFacts RectSearch.AttachFacts RectSearch.ShapesFacts RectSearch.SearchFacts
  RectSearch.BboxFacts RectSearch.Examples RectSearch.GridGen RectSearch.GridIff RectSearch.GridTheorems RectSearch.SelectBox
  RectSearch.Spelling.
Import ListNotations.
Local Open Scope nat_scope.

(* the string code of the structured variables is one-to-one *)
Theorem C08_name_inj : forall v w, name v = name w -> v = w.
Proof. exact name_inj. Qed.
Print Assumptions C08_name_inj.

(* the formula that solve builds: from every well-formed diagram store the clause list is
   produced, and a user assignment extends to a model of it exactly when every posted
   constraint holds (C07's post_exact; no post of solve is ever refused) *)
Theorem C08_encode_exact : forall mode inp k factor ratio bound (m0 : memory) ps, mem_wf m0 ->
  solve_posts mode inp k factor ratio bound = Some ps ->
  exists m s, encode mode inp k factor ratio bound m0 = Some (m, s) /\
              forall a, ext a (clauses s) <-> posts_hold a ps.
Proof. exact encode_exact. Qed.
Print Assumptions C08_encode_exact.

(* the objective expression ratio * selarea - realarea evaluates to the cost of the selected cells *)
Theorem C08_objective_eval : forall a inp factor ratio,
  eval a (objective inp factor ratio) = cost_of inp factor ratio (fun b => a (name (VSel b))).
Proof. exact objective_eval. Qed.
Print Assumptions C08_objective_eval.

(* (i) one enforce_bb (trunk form): models projected on the cell variables = non-empty full
   rectangles of cells *)
Theorem C08_box_exact : forall inp i (m0 : memory), full_grid inp = true -> mem_wf m0 ->
  exists m s sts, run_posts m0 empty_mgr (enforce_bb Repaired inp (definecoords inp) i i) = Some (m, s, sts) /\
    forall sigma,
      (exists a, (forall b, b < List.length inp -> a (name (VCell i b)) = sigma b) /\ ext a (clauses s)) <->
      is_box inp sigma.
Proof. exact box_exact. Qed.
Print Assumptions C08_box_exact.

(* (ii) enforce_bb of a branch with the N/S/E/W selector, the trunk being a rectangle T that
   shares no cell with the branch: models projected on the branch's cells = rectangles abutting
   T along one side within T's extent *)
Theorem C08_attach_exact : forall inp i (m0 : memory) T, full_grid inp = true -> i <> 0 -> mem_wf m0 ->
  rect_okb (ncols (definecoords inp)) (nrows (definecoords inp)) T = true ->
  exists m s sts, run_posts m0 empty_mgr (enforce_bb Repaired inp (definecoords inp) i 0) = Some (m, s, sts) /\
    forall sigma, (forall b, b < List.length inp -> sigma b = true -> in_rect T (colb inp b) (rowb inp b) = false) ->
      ((exists a, (forall b, b < List.length inp -> a (name (VCell i b)) = sigma b) /\
                  (forall b, b < List.length inp -> a (name (VCell 0 b)) = in_rect T (colb inp b) (rowb inp b)) /\
                  ext a (clauses s)) <->
       (exists B, rect_okb (ncols (definecoords inp)) (nrows (definecoords inp)) B = true /\
                  (forall b, b < List.length inp -> sigma b = in_rect B (colb inp b) (rowb inp b)) /\
                  abutsb T B = true)).
Proof. exact attach_exact. Qed.
Print Assumptions C08_attach_exact.

(* (iii) the whole shape formula (everything solve posts except the cost bound): models
   projected on the per-box cell variables = the k-box single-trunk orthogons *)
Theorem C08_shapes_exact : forall inp k (m0 : memory), full_grid inp = true -> 1 <= k -> mem_wf m0 ->
  exists m s sts, run_posts m0 empty_mgr (shape_posts Repaired inp k) = Some (m, s, sts) /\
    forall sigma,
      (exists a, (forall i b, i < k -> b < List.length inp -> a (name (VCell i b)) = sigma i b) /\
                 ext a (clauses s)) <-> shape k inp sigma.
Proof. exact shapes_exact. Qed.
Print Assumptions C08_shapes_exact.

(* (iv) solve, for any sound and complete solver: a result is produced; "(0, 1), []" exactly
   when no shape reaches the bound; otherwise the model read back is a shape, its cost reaches
   the bound, the returned number is cost + 1 and the returned rectangles are the bounding
   boxes of the cells of each box *)
Theorem C08_search_exact : forall (sat_o : cnf -> option valuation),
  (forall f e, sat_o f = Some e -> sat e f) -> (forall f, sat_o f = None -> forall e, ~ sat e f) ->
  forall inp k factor ratio bound (m0 : memory),
    full_grid inp = true -> 1 <= k -> mem_wf m0 -> ~ (ratio < 1)%Qc ->
    exists r, solve_with Repaired inp k factor ratio bound sat_o m0 = Some r /\
      match r with
      | Insat => forall sigma, shape k inp sigma -> (cost_of inp factor ratio (selected k sigma) < bound)%Z
      | Found c1 rects =>
          exists sigma, shape k inp sigma /\
            (bound <= cost_of inp factor ratio (selected k sigma))%Z /\
            c1 = (cost_of inp factor ratio (selected k sigma) + 1)%Z /\
            rects = map (fun i => cells_bbox inp (sigma i)) (seq 0 k)
      end.
Proof. exact search_exact. Qed.
Print Assumptions C08_search_exact.

(* the bounding box solve computes from the cells of a box that is a full rectangle of cells
   is that rectangle's extent: with (iv), the returned rectangles are the boxes of the shape *)
Theorem C08_bbox_rect : forall inp, full_grid inp = true -> forall s R,
  rect_okb (ncols (definecoords inp)) (nrows (definecoords inp)) R = true ->
  (forall b, b < List.length inp -> s b = in_rect R (colb inp b) (rowb inp b)) ->
  cells_bbox inp s = Some (nth (c0 R) (xcoords (definecoords inp)) 0%Qc, nth (r0 R) (ycoords (definecoords inp)) 0%Qc,
                           nth (S (c1 R)) (xcoords (definecoords inp)) 0%Qc, nth (S (r1 R)) (ycoords (definecoords inp)) 0%Qc).
Proof. exact bbox_rect. Qed.
Print Assumptions C08_bbox_rect.

(* F10: with the unrepaired border tests (literal 0, int(Width), int(Height)) the formula of a
   3 x 1 grid of width 3.5 has a model whose two boxes are detached *)
Theorem C08_border_refuted : exists inp W H e,
  full_grid inp = true /\
  match run_posts [] empty_mgr (shape_posts (Orig W H) inp 2) with
  | Some (_, s, _) => sat e (clauses s)
  | None => False
  end /\ ~ shape 2 inp (cells_of e).
Proof. exact border_refuted. Qed.
Print Assumptions C08_border_refuted.

(* every rectangular grid of cells satisfies the hypothesis [full_grid] of the theorems above: for ALL
   strictly increasing column boundaries xs and row boundaries ys (uniform or not, any origin, integer
   or fractional; at least one column and one row) and every list [inp] that contains exactly the cells
   of the grid on xs, ys - in any order, with any occupancy values ([is_grid]: the geometry of [inp] is
   a permutation of the geometry of [grid_cells xs ys]) - and definecoords recovers xs and ys *)
Theorem C08_full_grid_general : forall xs ys inp,
  StronglySorted Qclt xs -> StronglySorted Qclt ys -> 2 <= List.length xs -> 2 <= List.length ys ->
  Permutation (map geom_of inp) (map geom_of (grid_cells xs ys)) ->
  full_grid inp = true /\ xcoords (definecoords inp) = xs /\ ycoords (definecoords inp) = ys.
Proof. exact full_grid_general. Qed.
Print Assumptions C08_full_grid_general.

(* ... and conversely: the hypothesis [full_grid] of the theorems is exactly "the input is a rectangular grid of cells" *)
Theorem C08_full_grid_iff : forall inp, full_grid inp = true <->
  exists xs ys, StronglySorted Qclt xs /\ StronglySorted Qclt ys /\ 2 <= List.length xs /\ 2 <= List.length ys /\
                is_grid xs ys inp.
Proof. exact full_grid_iff. Qed.
Print Assumptions C08_full_grid_iff.

(* (iii) for grids given by their coordinate lists *)
Theorem C08_shapes_exact_grid : forall xs ys inp k (m0 : memory),
  StronglySorted Qclt xs -> StronglySorted Qclt ys -> 2 <= List.length xs -> 2 <= List.length ys ->
  is_grid xs ys inp -> 1 <= k -> mem_wf m0 ->
  exists m s sts, run_posts m0 empty_mgr (shape_posts Repaired inp k) = Some (m, s, sts) /\
    forall sigma,
      (exists a, (forall i b, i < k -> b < List.length inp -> a (name (VCell i b)) = sigma i b) /\
                 ext a (clauses s)) <-> shape k inp sigma.
Proof. exact shapes_exact_grid. Qed.
Print Assumptions C08_shapes_exact_grid.

(* (iv) for grids given by their coordinate lists, with the shape as its list of index rectangles
   (trunk first; [shape_rects]: inside the grid, non-empty, pairwise disjoint, every later one abutting
   the first on one side within its extent) and the returned rectangles written with xs, ys:
   solve answers "(0, 1), []" exactly when no k-box shape reaches the bound; otherwise it returns
   cost + 1 and exactly the boxes (x0, y0, x1, y1) of a k-box shape whose cost reaches the bound *)
Theorem C08_search_exact_grid : forall (sat_o : cnf -> option valuation),
  (forall f e, sat_o f = Some e -> sat e f) -> (forall f, sat_o f = None -> forall e, ~ sat e f) ->
  forall xs ys inp k factor ratio bound (m0 : memory),
    StronglySorted Qclt xs -> StronglySorted Qclt ys -> 2 <= List.length xs -> 2 <= List.length ys ->
    is_grid xs ys inp -> 1 <= k -> mem_wf m0 -> ~ (ratio < 1)%Qc ->
    exists r, solve_with Repaired inp k factor ratio bound sat_o m0 = Some r /\
      match r with
      | Insat => forall Rs, List.length Rs = k ->
                   shape_rects (List.length xs - 1) (List.length ys - 1) Rs = true ->
                   (shape_cost inp factor ratio Rs < bound)%Z
      | Found c1 rects =>
          exists Rs, List.length Rs = k /\
            shape_rects (List.length xs - 1) (List.length ys - 1) Rs = true /\
            (bound <= shape_cost inp factor ratio Rs)%Z /\
            c1 = (shape_cost inp factor ratio Rs + 1)%Z /\
            rects = map (fun R => Some (box_of xs ys R)) Rs
      end.
Proof. exact search_exact_grid. Qed.
Print Assumptions C08_search_exact_grid.

(* the correspondence also compares the manager's variable table (the order in which solve and
   enforce_bb register their variables = their DIMACS numbers); it does so on [encode_reg], the posting
   sequence with the registrations interleaved.  Registration changes nothing else: the diagram store,
   the clause list, the auxiliary counter and the codified set are those of [encode], about which the
   theorems above speak; one is defined exactly when the other is *)
Theorem C08_registration_irrelevant : forall mode inp k factor ratio bound (m0 : memory),
  match encode_reg mode inp k factor ratio bound m0, encode mode inp k factor ratio bound m0 with
  | Some (m, s), Some (m', s') => m = m' /\ clauses s = clauses s' /\ auxcount s = auxcount s' /\ codified s = codified s'
  | None, None => True
  | _, _ => False
  end.
Proof. exact encode_reg_encode. Qed.
Print Assumptions C08_registration_irrelevant.

(* rect_io.select_box (with the shared-border repair fixes/C08-select-box-shared-borders.diff): from the
   allocation of a grid - the cells of the grid on xs, ys in any order, each stored as centre and size
   [arect_of] with the ratios of its modules - whose lines are further apart than the snapping tolerance
   (1e-9 x the largest coordinate magnitude), select_box returns exactly those cells with the selected
   module's ratio (0 where it is absent), and they are a grid on xs, ys: the hypotheses of
   C08_shapes_exact_grid / C08_search_exact_grid hold of what the search receives.  (Exact rationals: the
   binary64 rounding of centre -/+ size / 2 that the repair absorbs is judged by the harness's direct
   oracle on decimal coordinates.) *)
Theorem C08_select_box_grid : forall xs ys sel (cms : list (cell * list (string * Qc))),
  StronglySorted Qclt xs -> StronglySorted Qclt ys -> 2 <= List.length xs -> 2 <= List.length ys ->
  is_grid xs ys (map fst cms) -> spaced (snap_tol xs) xs -> spaced (snap_tol ys) ys ->
  select_box sel (map (fun cm => arect_of (fst cm) (snd cm)) cms) = map (cell_of sel) cms /\
  is_grid xs ys (map (cell_of sel) cms).
Proof. exact select_box_of_grid. Qed.
Print Assumptions C08_select_box_grid.

(* how the numbers are WRITTEN (RectSearch/Spelling.v): the cells of the input problem are tuples of Python numbers;
   one grid line may be the int 1 in some cells and the float 1.0 (a numpy scalar, 0.0 / -0.0, 10e-1 in a file) in
   others.  The model reads a written number by its value ([read_problem]); two ways of writing the same grid are
   the same input, so the formula, its models and the search's answer cannot depend on the writing - and all the
   theorems above apply to [read_problem ws].  (Different values - 0.1 + 0.2 and 0.3 - are different lines:
   Spelling.ex_near_grid.)  The harness hands the model the problem as it was written to the implementation. *)
Theorem C08_spelling_irrelevant : forall ws ws', Forall2 same_values ws ws' -> read_problem ws = read_problem ws'.
Proof. exact spelling_irrelevant. Qed.
Print Assumptions C08_spelling_irrelevant.

(* (iii) for a grid written in any way *)
Theorem C08_spelled_shapes_exact : forall ws k (m0 : memory),
  full_grid (read_problem ws) = true -> 1 <= k -> mem_wf m0 ->
  exists m s sts, run_posts m0 empty_mgr (shape_posts Repaired (read_problem ws) k) = Some (m, s, sts) /\
    forall sigma,
      (exists a, (forall i b, i < k -> b < List.length ws -> a (name (VCell i b)) = sigma i b) /\
                 ext a (clauses s)) <-> shape k (read_problem ws) sigma.
Proof. exact spelled_shapes_exact. Qed.
Print Assumptions C08_spelled_shapes_exact.
