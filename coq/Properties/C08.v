(* C08 - placeholder while the development is being built *)
From Coq Require Import List Bool String.
From FrameModel Require Import RectSearch.Names.
Theorem C08_name_inj : forall v w, name v = name w -> v = w.
Proof. exact name_inj. Qed.
Print Assumptions C08_name_inj.
