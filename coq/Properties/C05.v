(* C05 - Loaded netlist matches its definition; ill-formed designs are rejected.
   Statements only; every proof is [exact <lemma>].
   [read_netlist sqrt_o epsdef t] is the model of Netlist(t) (Yaml/NetlistRead.v);
   sqrt_o stands for math.sqrt, epsdef for the Rectangle epsilons in force before
   the call (None = undefined).  [rejects x] = exists r, x = Reject r. *)
From Coq Require Import Permutation.
From FrameModel Require Import Num.QcTac Geometry.Rect Yaml.Tree Yaml.NetlistRead
  Yaml.NetlistWrite Yaml.NetlistFacts Yaml.NetlistDerived Yaml.NetlistRoundTrip
  Yaml.NetlistImage Yaml.NetlistDoc Yaml.NetlistAccept Yaml.NetlistReadNames Yaml.NetlistReadForms.
Open Scope Qc_scope.

(* ---- derived quantities ---- *)
(* a hard module (fixed and terminal ones included) has the sum of the areas of
   its rectangles - zero for a terminal without rectangles; the total area of a
   soft module is the sum of its region areas by definition of module_total_area *)
Theorem C05_derived_area : forall sqrt_o e t n,
  read_netlist sqrt_o e t = Ok n ->
  Forall (fun m => (m_hard m = true -> m_area m = [(KW_GROUND, sum_areas (m_rects m))] /\
                                       module_total_area m = sum_areas (m_rects m)) /\
                   (m_terminal m = true -> m_hard m = true -> m_rects m = [] -> module_total_area m = 0))
         (nl_modules n).
Proof. exact derived_area. Qed.
Print Assumptions C05_derived_area.

Theorem C05_derived_center : forall sqrt_o e t n,
  read_netlist sqrt_o e t = Ok n ->
  Forall (fun m => m_rects m <> [] -> m_center m = Some (centroid (m_rects m))) (nl_modules n).
Proof. exact derived_center. Qed.
Print Assumptions C05_derived_center.

Theorem C05_derived_rectangles : forall sqrt_o e t n,
  read_netlist sqrt_o e t = Ok n ->
  Permutation (nl_rects n) (flat_map m_rects (nl_modules n)).
Proof. exact derived_rectangles. Qed.
Print Assumptions C05_derived_rectangles.

Theorem C05_derived_fixed_rectangles : forall sqrt_o e t n,
  read_netlist sqrt_o e t = Ok n ->
  Permutation (filter mr_fixed (nl_rects n)) (flat_map m_rects (filter m_fixed (nl_modules n))).
Proof. exact derived_fixed_rectangles. Qed.
Print Assumptions C05_derived_fixed_rectangles.

(* per net: weight times the sum over the members of the distance from the
   member's centre to the mean of the centres; a distance is a non-negative
   number whose square is the squared Euclidean distance (contract of sqrt on
   the arguments that occur) *)
Theorem C05_wire_length_def : forall sqrt_o ms e wl,
  (forall ds, net_sqdists ms e = Some ds ->
     Forall (fun a => 0 <= sqrt_o a /\ sqrt_o a * sqrt_o a = a) ds) ->
  net_wire_length sqrt_o ms e = Some wl ->
  exists cs dist,
    member_centers ms (n_members e) = Some cs /\
    Forall2 (fun c d => 0 <= d /\ d * d = sqdist (mean_point cs) c) cs dist /\
    wl = n_weight e * Qcsum dist.
Proof. exact wire_length_def. Qed.
Print Assumptions C05_wire_length_def.

(* ---- rejection: every document, every position of the defect ---- *)
(* [module_at t name info]: info is the attribute mapping of module name at any
   position of the Modules mapping of t; [net_at t net]: net is at any position
   of the Nets list.  No hypothesis on the rest of the document is needed: if
   something else is wrong the document is rejected for that reason. *)
Theorem C05_reject_unknown_module : forall sqrt_o e t net b,
  net_at t net -> In (YStr b) net ->
  (forall items mods, t = YMap items -> lookup KW_MODULES items = Some (YMap mods) -> ~ In b (map fst mods)) ->
  rejects (read_netlist sqrt_o e t).
Proof. exact reject_unknown_module. Qed.
Print Assumptions C05_reject_unknown_module.

Theorem C05_reject_nonpositive_weight : forall sqrt_o e t l wt q,
  net_at t (l ++ [wt]) -> as_number wt = Some q -> q <= 0 -> rejects (read_netlist sqrt_o e t).
Proof. exact reject_nonpositive_weight. Qed.
Print Assumptions C05_reject_nonpositive_weight.

Theorem C05_reject_nonpositive_area : forall sqrt_o e t name info v,
  module_at t name info -> In (KW_AREA, v) info -> bad_area v -> rejects (read_netlist sqrt_o e t).
Proof. exact reject_nonpositive_area. Qed.
Print Assumptions C05_reject_nonpositive_area.

Theorem C05_reject_soft_without_area : forall sqrt_o e t name info,
  module_at t name info ->
  has_key KW_AREA info = false -> has_key KW_HARD info = false ->
  has_key KW_FIXED info = false -> has_key KW_TERMINAL info = false ->
  rejects (read_netlist sqrt_o e t).
Proof. exact reject_soft_without_area. Qed.
Print Assumptions C05_reject_soft_without_area.

(* "hard" = what Module.__init__ makes of the attributes (classified info s, s_hard s) *)
Theorem C05_reject_hard_with_area : forall sqrt_o e t name info s,
  module_at t name info -> classified info s -> s_hard s = true -> s_area s <> [] ->
  rejects (read_netlist sqrt_o e t).
Proof. exact reject_hard_with_area. Qed.
Print Assumptions C05_reject_hard_with_area.

Theorem C05_reject_hard_without_rectangles : forall sqrt_o e t name info s,
  module_at t name info -> classified info s ->
  s_hard s = true -> s_terminal s = false -> has_key KW_RECTANGLES info = false ->
  rejects (read_netlist sqrt_o e t).
Proof. exact reject_hard_without_rectangles. Qed.
Print Assumptions C05_reject_hard_without_rectangles.

(* two rectangles, at any two positions, of a hard module that is not a terminal
   overlap by more than the area epsilon in force *)
Theorem C05_reject_hard_overlap : forall sqrt_o e t ms es m aeps,
  parse_netlist t = Ok (ms, es) -> In m ms ->
  m_hard m = true -> m_terminal m = false ->
  (forall ms1, cr_squares sqrt_o ms = Ok ms1 -> area_eps (epsilon_after sqrt_o e ms1) = aeps) ->
  overlapping_pair aeps (m_rects m) ->
  rejects (read_netlist sqrt_o e t).
Proof. exact reject_hard_overlap. Qed.
Print Assumptions C05_reject_hard_overlap.

Theorem C05_reject_unknown_attribute : forall sqrt_o e t name info k v,
  module_at t name info -> In (k, v) info -> mem_str k known_keys = false ->
  rejects (read_netlist sqrt_o e t).
Proof. exact reject_unknown_attribute. Qed.
Print Assumptions C05_reject_unknown_attribute.

Theorem C05_reject_invalid_name : forall sqrt_o e t name info,
  module_at t name info -> valid_identifier name = false -> rejects (read_netlist sqrt_o e t).
Proof. exact reject_invalid_name. Qed.
Print Assumptions C05_reject_invalid_name.

(* ---- names: every string that is not [A-Za-z_][A-Za-z0-9_]* ---- *)
(* Strings are byte sequences (a Python str is its UTF-8 encoding; a key that is
   no str - YAML null / true / 1e3 - is the byte 255 followed by its repr).
   [fullmatch] is the full-match relation of a regular expression,
   [ident_re] = Cat (Cls start_chars) (Star (Cls rest_chars)) with the two
   classes given as the literal lists of the 53 / 63 ASCII characters
   (Yaml/NetlistReadNames.v).  valid_identifier is exactly that full match: *)
Theorem C05_identifier_fullmatch : forall s, valid_identifier s = true <-> fullmatch ident_re s.
Proof. exact valid_identifier_fullmatch. Qed.
Print Assumptions C05_identifier_fullmatch.

(* ... i.e. a first character of [A-Za-z_] followed by characters of [A-Za-z0-9_] only *)
Theorem C05_identifier_chars : forall s,
  fullmatch ident_re s <->
  exists c r, s = String c r /\ In c start_chars /\ all_chars (fun d => In d rest_chars) r.
Proof. exact fullmatch_is_identifier. Qed.
Print Assumptions C05_identifier_chars.

(* one foreign character anywhere - a control character, a blank, a newline at
   the end (which re.match with '$' would let through), any byte of a non-ASCII
   letter or digit - and the string is no identifier *)
Theorem C05_no_identifier_foreign_char : forall s c,
  In c (chars_of s) -> ~ In c rest_chars -> ~ fullmatch ident_re s.
Proof. exact foreign_char_no_identifier. Qed.
Print Assumptions C05_no_identifier_foreign_char.

Theorem C05_no_identifier_non_ascii : forall s c,
  In c (chars_of s) -> (128 <= nat_of_ascii c)%nat -> ~ fullmatch ident_re s.
Proof. exact non_ascii_no_identifier. Qed.
Print Assumptions C05_no_identifier_non_ascii.

Theorem C05_no_identifier_control_or_blank : forall s c,
  In c (chars_of s) -> (nat_of_ascii c <= 32 \/ nat_of_ascii c = 127)%nat -> ~ fullmatch ident_re s.
Proof. exact control_or_blank_no_identifier. Qed.
Print Assumptions C05_no_identifier_control_or_blank.

Theorem C05_no_identifier_trailing_newline : forall s,
  ~ fullmatch ident_re (s ++ String "010"%char "").
Proof. exact trailing_newline_no_identifier. Qed.
Print Assumptions C05_no_identifier_trailing_newline.

(* a module named by ANY string that is no identifier, at any position *)
Theorem C05_reject_invalid_name_every_string : forall sqrt_o e t name info,
  module_at t name info -> ~ fullmatch ident_re name -> rejects (read_netlist sqrt_o e t).
Proof. exact reject_invalid_name_re. Qed.
Print Assumptions C05_reject_invalid_name_every_string.

(* a region of an area mapping named by any string that is no identifier *)
Theorem C05_reject_invalid_area_region : forall sqrt_o e t name info d r a,
  module_at t name info -> In (KW_AREA, YMap d) info -> In (r, a) d -> ~ fullmatch ident_re r ->
  rejects (read_netlist sqrt_o e t).
Proof. exact reject_invalid_area_region. Qed.
Print Assumptions C05_reject_invalid_area_region.

(* the region of a rectangle entry [x, y, w, h, region] named by any string that
   is no identifier, or given by something that is no string *)
Theorem C05_reject_invalid_rect_region : forall sqrt_o e t name info v x y w h s,
  module_at t name info -> lookup KW_RECTANGLES info = Some v ->
  rect_in v (YList [x; y; w; h; YStr s]) -> ~ fullmatch ident_re s ->
  rejects (read_netlist sqrt_o e t).
Proof. exact reject_invalid_rect_region. Qed.
Print Assumptions C05_reject_invalid_rect_region.

Theorem C05_reject_non_string_rect_region : forall sqrt_o e t name info v x y w h r,
  module_at t name info -> lookup KW_RECTANGLES info = Some v ->
  rect_in v (YList [x; y; w; h; r]) -> (forall s, r <> YStr s) ->
  rejects (read_netlist sqrt_o e t).
Proof. exact reject_non_string_rect_region. Qed.
Print Assumptions C05_reject_non_string_rect_region.

(* a net with fewer than two module names besides its weight *)
Theorem C05_reject_one_pin_net : forall sqrt_o e t net,
  net_at t net ->
  (forall names w, edge_items net = Ok (names, w) -> (List.length names < 2)%nat) ->
  rejects (read_netlist sqrt_o e t).
Proof. exact reject_one_pin_net. Qed.
Print Assumptions C05_reject_one_pin_net.

Theorem C05_reject_one_pin_net_weight : forall sqrt_o e t a wt q,
  net_at t [YStr a; wt] -> as_number wt = Some q -> rejects (read_netlist sqrt_o e t).
Proof. exact reject_one_pin_net_weight. Qed.
Print Assumptions C05_reject_one_pin_net_weight.

Theorem C05_reject_nonpositive_rect_size : forall sqrt_o e t name info v r,
  module_at t name info -> lookup KW_RECTANGLES info = Some v -> rect_in v r -> bad_rect r ->
  rejects (read_netlist sqrt_o e t).
Proof. exact reject_nonpositive_rect_size. Qed.
Print Assumptions C05_reject_nonpositive_rect_size.

(* ---- the hard-module rejections on the literal attributes of the document ---- *)
(* [hard_literal info]: the attribute mapping holds "hard: true" or "fixed: true".
   An area is any value but the empty mapping (which Module.__init__ reads as
   "no area"). *)
Theorem C05_reject_hard_with_area_doc : forall sqrt_o e t name info v,
  module_at t name info -> hard_literal info ->
  In (KW_AREA, v) info -> v <> YMap [] ->
  rejects (read_netlist sqrt_o e t).
Proof. exact reject_hard_with_area_doc. Qed.
Print Assumptions C05_reject_hard_with_area_doc.

Theorem C05_reject_hard_without_rectangles_doc : forall sqrt_o e t name info,
  module_at t name info -> hard_literal info ->
  ~ In (KW_TERMINAL, YBool true) info -> has_key KW_RECTANGLES info = false ->
  rejects (read_netlist sqrt_o e t).
Proof. exact reject_hard_without_rectangles_doc. Qed.
Print Assumptions C05_reject_hard_without_rectangles_doc.

(* [doc_overlapping_pair aeps v]: two entries [x, y, w, h(, region)] at any two
   positions of the rectangle list v whose rectangles overlap by more than aeps *)
Theorem C05_reject_hard_overlap_doc : forall sqrt_o e t name info v aeps,
  module_at t name info -> hard_literal info -> ~ In (KW_TERMINAL, YBool true) info ->
  In (KW_RECTANGLES, v) info -> doc_overlapping_pair aeps v ->
  (forall ms es ms1, parse_netlist t = Ok (ms, es) -> cr_squares sqrt_o ms = Ok ms1 ->
     area_eps (epsilon_after sqrt_o e ms1) = aeps) ->
  rejects (read_netlist sqrt_o e t).
Proof. exact reject_hard_overlap_doc. Qed.
Print Assumptions C05_reject_hard_overlap_doc.

Theorem C05_reject_hard_overlap_doc_eps : forall sqrt_o eps aeps t name info v,
  module_at t name info -> hard_literal info -> ~ In (KW_TERMINAL, YBool true) info ->
  In (KW_RECTANGLES, v) info -> doc_overlapping_pair aeps v ->
  rejects (read_netlist sqrt_o (Some (eps, aeps)) t).
Proof. exact reject_hard_overlap_doc_eps. Qed.
Print Assumptions C05_reject_hard_overlap_doc_eps.

(* ---- acceptance ---- *)
(* [well_formed_doc t] (Yaml/NetlistAccept.v) is a predicate on the document
   alone: root keys Modules / Nets; valid distinct module names; per module a
   mapping with distinct known keys in ANY order, well-formed values (area: a
   positive number or a non-empty mapping of valid region names to positive
   numbers; center: two numbers; aspect_ratio: a positive number or [x, y] with
   0 <= x <= 1 <= y; flags: booleans; rectangles: one entry or a non-empty list
   of entries [x, y, w, h] with x, y >= 0 and w, h > 0, a region only for soft
   modules) and a consistent kind (soft: an area, not flippable; hard = "hard:
   true" / "fixed: true" / terminal: no area, no aspect ratio, a centre only
   for terminals, rectangles unless a terminal, not both fixed and flippable;
   terminal: "terminal: true" without area / aspect ratio / flip; a fixed
   terminal has a centre); nets of at least two known module names and
   possibly a positive weight.
   [doc_geometry_ok eps aeps t] states the two geometric checks of
   _create_rectangles on the rectangle entries: the rectangles of a hard
   non-terminal module do not overlap by more than aeps, a flippable module has
   one rectangle or a rectangle to which all others abut. *)
Theorem C05_accept_well_formed_doc : forall sqrt_o e eps aeps t,
  well_formed_doc t ->
  (forall ms es, parse_netlist t = Ok (ms, es) ->
     match epsilon_after sqrt_o e ms with Some p => p | None => (0, 0) end = (eps, aeps)) ->
  doc_geometry_ok eps aeps t ->
  exists n, read_netlist sqrt_o e t = Ok n.
Proof. exact accept_well_formed_doc. Qed.
Print Assumptions C05_accept_well_formed_doc.

Theorem C05_accept_well_formed_doc_eps : forall sqrt_o eps aeps t,
  well_formed_doc t -> doc_geometry_ok eps aeps t ->
  exists n, read_netlist sqrt_o (Some (eps, aeps)) t = Ok n.
Proof. exact accept_well_formed_doc_eps. Qed.
Print Assumptions C05_accept_well_formed_doc_eps.

(* no side condition at all when every hard module has one rectangle (soft
   modules may have any number): loaded whatever the epsilon state *)
Theorem C05_accept_well_formed_doc_single : forall sqrt_o e t,
  well_formed_doc t -> hard_single_rect t -> exists n, read_netlist sqrt_o e t = Ok n.
Proof. exact accept_well_formed_doc_single. Qed.
Print Assumptions C05_accept_well_formed_doc_single.

(* a well-formed attribute mapping, whatever the order of its keys, is accepted
   by parse_yaml_module / Module.__init__ / setup, with the kind the document states *)
Theorem C05_accept_module : forall name info,
  valid_identifier name = true -> wf_info info ->
  exists m, parse_module name (YMap info) = Ok m /\
    m_hard m = doc_hard info /\ m_terminal m = has_key KW_TERMINAL info /\
    m_fixed m = flag KW_FIXED info /\ m_flip m = flag KW_FLIP info /\
    match lookup KW_RECTANGLES info with
    | Some v => parse_rectangles (flag KW_FIXED info) (doc_hard info) v = Ok (m_rects m) /\ m_rects m <> []
    | None => m_rects m = []
    end.
Proof. exact parse_module_accepts. Qed.
Print Assumptions C05_accept_module.

(* every canonical design (Yaml/NetlistRoundTrip.v), written in the exchange
   format, is accepted *)
Theorem C05_accept_well_formed : forall sqrt_o e n,
  NetlistRoundTrip.canonical sqrt_o e n ->
  exists n', read_netlist sqrt_o e (NetlistWrite.write_netlist n) = Ok n'.
Proof. exact NetlistRoundTrip.accept_well_formed. Qed.
Print Assumptions C05_accept_well_formed.

(* every document the reader accepts is accepted again after being written
   (with C04_image_canonical: the written form of every loaded design) *)
Theorem C05_accept_rewritten : forall sqrt_o e t n,
  read_netlist sqrt_o e t = Ok n ->
  exists n', read_netlist sqrt_o e (NetlistWrite.write_netlist n) = Ok n'.
Proof. exact accept_rewritten. Qed.
Print Assumptions C05_accept_rewritten.

(* ---- input forms and sessions ---- *)
(* Netlist(x) takes a tree, a YAML text (a str containing ': ' or a line break),
   the name of a file, an open text stream, or anything else (refused).  [yaml_load] / [file_text] stand for the
   text layer (ruamel, the file system); nothing is assumed about them.
   Whatever the form, a design is loaded only if read_netlist loads the tree
   the source stands for - so every rejection theorem above holds for every
   input form. *)
Theorem C05_source_loaded_inv : forall sqrt_o yaml_load file_text e src n,
  read_source sqrt_o yaml_load file_text e src = Loaded n ->
  exists t, read_netlist sqrt_o e t = Ok n /\
    match src with
    | SrcTree t' => t' = t
    | SrcStr s => exists txt, (if is_text s then Some s else file_text s) = Some txt /\
                              yaml_load txt = Some t
    | SrcStream txt => yaml_load txt = Some t
    | SrcOther => False
    end.
Proof. exact source_loaded_inv. Qed.
Print Assumptions C05_source_loaded_inv.

(* history independence: whatever the process loaded, rejected or wrote before
   (other designs with the same module names, the same source, a defective
   variant), a load from an undefined epsilon gives what it gives alone *)
Theorem C05_session_load_alone : forall sqrt_o yaml_load file_text ops src,
  run sqrt_o yaml_load file_text (ops ++ [OpLoad src]) =
  (run sqrt_o yaml_load file_text ops ++ [EvLoad (read_source sqrt_o yaml_load file_text None src)])%list.
Proof. exact session_load_alone. Qed.
Print Assumptions C05_session_load_alone.
