(* C06 - Single-trunk orthogon recognition is sound and complete.
   Statements only; every proof is [exact <lemma>]. *)
From FrameModel Require Import Num.QcTac Geometry.Rect Stog.CreateStog Stog.StogFacts Stog.StogPost
  Stog.StogHist Stog.StogModule Cases.CmpC06.
From Coq Require Import Permutation.
Open Scope list_scope.
Open Scope Qc_scope.

(* the reported side really is abutted, within the trunk's extent, without overlap *)
Theorem C06_find_location_sound : forall eps aeps t r l,
  find_location eps aeps t r = l -> l <> NOPOLY -> abuts eps aeps l t r.
Proof. exact find_location_sound. Qed.
Print Assumptions C06_find_location_sound.

(* and every abutting rectangle wider than the tolerance band gets exactly that side *)
Theorem C06_find_location_complete : forall eps aeps t r l, wf t -> wf r ->
  eps + eps <= rw r -> eps + eps <= rh r ->
  abuts eps aeps l t r -> find_location eps aeps t r = l.
Proof. exact find_location_complete. Qed.
Print Assumptions C06_find_location_complete.

Theorem C06_create_stog_defined : forall eps aeps rs, rs <> [] ->
  exists b out, create_stog eps aeps rs = Some (b, out).
Proof. exact create_stog_defined. Qed.
Print Assumptions C06_create_stog_defined.

(* reported => some rectangle is a trunk for all others (by position, so a repeated
   rectangle counts), trunk first with role TRUNK, every other rectangle carries the
   side it abuts; the output is the input reordered *)
Theorem C06_create_stog_true : forall eps aeps rs out,
  create_stog eps aeps rs = Some (true, out) ->
  exists t rest, out = set_loc t TRUNK :: rest /\
    Permutation (map geom rs) (map geom out) /\
    Forall (fun r => rloc r <> NOPOLY /\ rloc r <> TRUNK /\ abuts eps aeps (rloc r) t r) rest /\
    is_stog eps aeps rs.
Proof. exact create_stog_true. Qed.
Print Assumptions C06_create_stog_true.

(* not reported => no rectangle carries a role, nothing reordered, and no position is a trunk *)
Theorem C06_create_stog_false : forall eps aeps rs out,
  create_stog eps aeps rs = Some (false, out) ->
  out = map geom rs /\ Forall (fun r => rloc r = NOPOLY) out /\
  (forall i t, nth_error rs i = Some t ->
     exists j r, nth_error rs j = Some r /\ j <> i /\ find_location eps aeps t r = NOPOLY).
Proof. exact create_stog_false. Qed.
Print Assumptions C06_create_stog_false.

(* sound and complete: reported exactly when a single-trunk decomposition exists *)
Theorem C06_create_stog_iff : forall eps aeps rs, rs <> [] -> Forall wf rs -> nondegenerate eps rs ->
  ((exists out, create_stog eps aeps rs = Some (true, out)) <-> is_stog eps aeps rs).
Proof. exact create_stog_iff. Qed.
Print Assumptions C06_create_stog_iff.

(* the checker the correspondence applies to the implementation's output is sound *)
Theorem C06_stog_post_ok_sound : forall eps aeps inp out b, stog_post_ok eps aeps inp out b = true ->
  Permutation (map geom inp) (map geom out) /\
  (b = true -> exists t rest, out = t :: rest /\ rloc t = TRUNK /\
     Forall (fun r => rloc r <> NOPOLY /\ rloc r <> TRUNK /\ abuts eps aeps (rloc r) t r) rest) /\
  (b = false -> Forall (fun r => rloc r = NOPOLY) out).
Proof. exact stog_post_ok_sound. Qed.
Print Assumptions C06_stog_post_ok_sound.

(* ---------------------------------------------------------------------------------------
   Object histories (Stog/StogHist.v): the rectangles are objects that outlive a call, are
   put into other lists, moved or resized in place or through the setters, and carry the
   roles earlier calls (or the public location setter) left on them.
   --------------------------------------------------------------------------------------- *)

(* the roles the rectangles carry on entry are never read *)
Theorem C06_create_stog_ignores_old_roles : forall eps aeps rs rs',
  map geom rs = map geom rs' -> create_stog eps aeps rs = create_stog eps aeps rs'.
Proof. exact create_stog_ignores_old_roles. Qed.
Print Assumptions C06_create_stog_ignores_old_roles.

(* a call on objects of a pool = create_stog on fresh copies of their current geometry; the list
   is permuted only (kept as it is on a negative answer), no geometry changes, no object outside
   the list is touched *)
Theorem C06_call_spec : forall eps aeps pool idxs b idxs' pool',
  call eps aeps pool idxs = Some (b, idxs', pool') ->
  exists rs out,
    gather pool idxs = Some rs /\ gather pool' idxs' = Some out /\
    create_stog eps aeps (map geom rs) = Some (b, out) /\
    Permutation idxs idxs' /\ NoDup idxs /\ (b = false -> idxs' = idxs) /\
    map geom pool' = map geom pool /\
    (forall i, ~ In i idxs -> nth_error pool' i = nth_error pool i).
Proof. exact call_spec. Qed.
Print Assumptions C06_call_spec.

Theorem C06_call_ignores_old_roles : forall eps aeps pool pool' idxs, map geom pool = map geom pool' ->
  match call eps aeps pool idxs, call eps aeps pool' idxs with
  | Some (b, ix, p), Some (b', ix', p') =>
      b = b' /\ ix = ix' /\ map geom p = map geom p' /\ gather p ix = gather p' ix'
  | None, None => True
  | _, _ => False
  end.
Proof. exact call_ignores_old_roles. Qed.
Print Assumptions C06_call_ignores_old_roles.

(* sequence version, by induction over the operations: every call of every history (calls on
   sub-lists, permutations, lists with new or replaced rectangles, after in-place moves and
   resizes, after arbitrary roles were set) is create_stog on the current geometry *)
Theorem C06_hist_steps_ok : forall eps aeps ops pool,
  Forall (step_ok eps aeps) (run_hist eps aeps pool ops).
Proof. exact hist_steps_ok. Qed.
Print Assumptions C06_hist_steps_ok.

(* ... and what the caller sees (answers, orders, roles of the listed objects) does not depend on
   the roles the objects carried when the history started *)
Theorem C06_hist_ignores_old_roles : forall eps aeps ops pool pool', map geom pool = map geom pool' ->
  map visible (run_hist eps aeps pool ops) = map visible (run_hist eps aeps pool' ops).
Proof. exact hist_ignores_old_roles. Qed.
Print Assumptions C06_hist_ignores_old_roles.

(* "when so reported the trunk is listed first and every other rectangle carries the side it abuts;
   otherwise no rectangle carries a role" - at every call of every history *)
Theorem C06_hist_roles : forall eps aeps ops pool,
  Forall (fun s : step => match s with
     | (pre, idxs, Some (false, idxs', post)) =>
         idxs' = idxs /\ forall i, In i idxs -> exists r, nth_error post i = Some r /\ rloc r = NOPOLY
     | (pre, idxs, Some (true, idxs', post)) =>
         exists i0 rest t rs, idxs' = i0 :: rest /\ nth_error post i0 = Some (set_loc t TRUNK) /\
           gather post rest = Some rs /\
           Forall (fun r => rloc r <> NOPOLY /\ rloc r <> TRUNK /\ abuts eps aeps (rloc r) t r) rs
     | _ => True end) (run_hist eps aeps pool ops).
Proof. exact hist_roles. Qed.
Print Assumptions C06_hist_roles.

(* the per-call checker the correspondence applies to the implementation's observed histories *)
Theorem C06_call_check_sound : forall eps aeps pre idxs b idxs' post,
  call_check eps aeps pre idxs b idxs' post = true ->
  exists rs out,
    gather pre idxs = Some rs /\ gather post idxs' = Some out /\
    stog_decision eps aeps rs = Some b /\
    Permutation (map geom rs) (map geom out) /\
    (b = true -> exists t rest, out = t :: rest /\ rloc t = TRUNK /\
       Forall (fun r => rloc r <> NOPOLY /\ rloc r <> TRUNK /\ abuts eps aeps (rloc r) t r) rest) /\
    (b = false -> Forall (fun r => rloc r = NOPOLY) out).
Proof. exact call_check_sound. Qed.
Print Assumptions C06_call_check_sound.

(* ---------------------------------------------------------------------------------------
   Module histories (Stog/StogModule.v): the same histories issued through the Module API -
   m.create_stog() / m.has_stog between changes of the module's rectangles by any route
   (add_rectangle, clear_rectangles, the public list itself, Netlist.assign_rectangles,
   recenter_rectangles, in-place moves and resizes of the rectangles, plain create_stog calls).
   --------------------------------------------------------------------------------------- *)

(* every recognition of every module history is create_stog on the current geometry of the
   rectangles the module holds at that moment - whatever was answered before *)
Theorem C06_mhist_steps_ok : forall eps aeps ops pool ml,
  Forall (step_ok eps aeps) (run_mhist eps aeps pool ml ops).
Proof. exact mhist_steps_ok. Qed.
Print Assumptions C06_mhist_steps_ok.

(* ... trunk first and every other rectangle with the side it abuts, or no role at all *)
Theorem C06_mhist_roles : forall eps aeps ops pool ml,
  Forall (step_roles eps aeps) (run_mhist eps aeps pool ml ops).
Proof. exact mhist_roles. Qed.
Print Assumptions C06_mhist_roles.

(* m.has_stog right after a recognition is its answer *)
Theorem C06_has_stog_after_call : forall eps aeps pool ml b ml' pool',
  call eps aeps pool ml = Some (b, ml', pool') -> has_stog pool' ml' = b.
Proof. exact has_stog_after_call. Qed.
Print Assumptions C06_has_stog_after_call.

(* the checker applied to an observed m.create_stog() *)
Theorem C06_mcreate_check_sound : forall eps aeps pool ml b has idxs' post,
  mcreate_check eps aeps pool ml b has idxs' post = true ->
  has = b /\
  exists rs out,
    gather pool ml = Some rs /\ gather post idxs' = Some out /\
    stog_decision eps aeps rs = Some b /\
    Permutation (map geom rs) (map geom out) /\
    (b = true -> exists t rest, out = t :: rest /\ rloc t = TRUNK /\
       Forall (fun r => rloc r <> NOPOLY /\ rloc r <> TRUNK /\ abuts eps aeps (rloc r) t r) rest) /\
    (b = false -> Forall (fun r => rloc r = NOPOLY) out).
Proof. exact mcreate_check_sound. Qed.
Print Assumptions C06_mcreate_check_sound.
