(* C06 - Single-trunk orthogon recognition is sound and complete.
   Statements only; every proof is [exact <lemma>]. *)
From FrameModel Require Import Num.QcTac Geometry.Rect Stog.CreateStog Stog.StogFacts Stog.StogPost.
From Coq Require Import Permutation.
Open Scope list_scope.
Open Scope Qc_scope.

(* the reported side really is abutted, within the trunk's extent, without overlap *)
Theorem C06_find_location_sound : forall eps aeps t r l,
  find_location eps aeps t r = l -> l <> NOPOLY -> abuts eps aeps l t r.
Proof. exact find_location_sound. Qed.
Print Assumptions C06_find_location_sound.

(* and every abutting rectangle wider than the tolerance band gets exactly that side *)
Theorem C06_find_location_complete : forall eps aeps t r l, wf t -> wf r ->
  eps + eps <= rw r -> eps + eps <= rh r ->
  abuts eps aeps l t r -> find_location eps aeps t r = l.
Proof. exact find_location_complete. Qed.
Print Assumptions C06_find_location_complete.

Theorem C06_create_stog_defined : forall eps aeps rs, rs <> [] ->
  exists b out, create_stog eps aeps rs = Some (b, out).
Proof. exact create_stog_defined. Qed.
Print Assumptions C06_create_stog_defined.

(* reported => some rectangle is a trunk for all others (by position, so a repeated
   rectangle counts), trunk first with role TRUNK, every other rectangle carries the
   side it abuts; the output is the input reordered *)
Theorem C06_create_stog_true : forall eps aeps rs out,
  create_stog eps aeps rs = Some (true, out) ->
  exists t rest, out = set_loc t TRUNK :: rest /\
    Permutation (map geom rs) (map geom out) /\
    Forall (fun r => rloc r <> NOPOLY /\ rloc r <> TRUNK /\ abuts eps aeps (rloc r) t r) rest /\
    is_stog eps aeps rs.
Proof. exact create_stog_true. Qed.
Print Assumptions C06_create_stog_true.

(* not reported => no rectangle carries a role, nothing reordered, and no position is a trunk *)
Theorem C06_create_stog_false : forall eps aeps rs out,
  create_stog eps aeps rs = Some (false, out) ->
  out = map geom rs /\ Forall (fun r => rloc r = NOPOLY) out /\
  (forall i t, nth_error rs i = Some t ->
     exists j r, nth_error rs j = Some r /\ j <> i /\ find_location eps aeps t r = NOPOLY).
Proof. exact create_stog_false. Qed.
Print Assumptions C06_create_stog_false.

(* sound and complete: reported exactly when a single-trunk decomposition exists *)
Theorem C06_create_stog_iff : forall eps aeps rs, rs <> [] -> Forall wf rs -> nondegenerate eps rs ->
  ((exists out, create_stog eps aeps rs = Some (true, out)) <-> is_stog eps aeps rs).
Proof. exact create_stog_iff. Qed.
Print Assumptions C06_create_stog_iff.

(* the checker the correspondence applies to the implementation's output is sound *)
Theorem C06_stog_post_ok_sound : forall eps aeps inp out b, stog_post_ok eps aeps inp out b = true ->
  Permutation (map geom inp) (map geom out) /\
  (b = true -> exists t rest, out = t :: rest /\ rloc t = TRUNK /\
     Forall (fun r => rloc r <> NOPOLY /\ rloc r <> TRUNK /\ abuts eps aeps (rloc r) t r) rest) /\
  (b = false -> Forall (fun r => rloc r = NOPOLY) out).
Proof. exact stog_post_ok_sound. Qed.
Print Assumptions C06_stog_post_ok_sound.
