(* C03 - Initial allocation equals the exact geometric overlap.
   Statements only; every proof is [exact <lemma>].

   Model: Alloc/Initial.v ([initial_allocation] = create_initial_allocation: the Allocation of
   the die's refinable + fixed regions, Netlist.create_squares, _detect_fixed_rectangles, the
   pre-allocated fixed cells, the ratios of the other cells, the Allocation constructor).
   [sqrt_o] stands for math.sqrt and is required to be exact only at the areas of the modules
   that have no rectangles ([squarable]).  [compatible sqrt_o R Fx mods]: the cells (refinable R,
   fixed Fx) are proper rectangles pairwise without common area, Fx are the rectangles of the
   fixed modules, refinable regions are not marked fixed, names are distinct, every module
   without rectangles has a centre and a positive area, each module's own rectangles are proper
   and pairwise without common area.  [ceps] is the rounding allowance of the repaired code
   (fixes/C03-ratio-rounding.diff): a ratio in (1, 1+ceps] is recorded as 1; under the hypotheses
   every exact ratio is at most 1, so the allowance never changes a value (any ceps).  [shape sqrt_o m] = the module's
   rectangles, or the square of its area around its centre.  [covered c rs] = sum of the
   overlap areas of cell c with the rectangles rs (by C18_ov_common_region each term is the
   area of the common region; for pairwise disjoint rs it is the area of c inside the shape). *)
From FrameModel Require Import Num.QcTac Geometry.Rect Alloc.Alloc Alloc.Initial Alloc.InitialGeom
  Alloc.InitialFacts Alloc.InitialHist Cases.CmpC03 Cases.CmpC03Hist.
Open Scope list_scope.
Open Scope Qc_scope.

(* the square given to a module without rectangles *)
Theorem C03_shape_square : forall sqrt_o m x y,
  sqrt_at sqrt_o (marea m) -> mrects m = [] -> mcenter m = Some (x, y) -> 0 < marea m ->
  exists s, shape sqrt_o m = [mkRect x y s s false false "_" NOPOLY] /\ 0 < s /\ s * s = marea m.
Proof. exact shape_square. Qed.
Print Assumptions C03_shape_square.

(* pairwise disjoint rectangles cover at most the area of a cell *)
Theorem C03_covered_le_area : forall c rs,
  wf c -> pairwise_no_ov rs -> Forall wf rs -> covered c rs <= area c.
Proof. exact covered_le_area. Qed.
Print Assumptions C03_covered_le_area.

(* the whole cell list: the fixed modules' rectangles first (module order, marked fixed, map
   {m: 1}), then the refinable regions in order with the map computed by alloc_of, depth 0 *)
Theorem C03_ia_cells : forall sqrt_o feps ceps aeps inc0 R Fx mods,
  compatible sqrt_o R Fx mods -> 0 < feps -> feps < 1 ->
  initial_allocation sqrt_o feps ceps aeps inc0 R Fx mods =
  match mk_allocation aeps (init_cells R Fx) with
  | None => Reject RCells
  | Some _ => finalize aeps
      (flat_map (fun m => map (fun r => mkCell (set_fixed r) [(mname m, 1)] 0%nat) (mrects m))
                (filter mfixed (map (squared sqrt_o) mods)) ++
       map (fun r => mkCell r (alloc_of ceps inc0 (map (squared sqrt_o) mods) r) 0%nat) R)
  end.
Proof. exact ia_cells. Qed.
Print Assumptions C03_ia_cells.

(* each refinable cell and module: the recorded ratio is exactly the covered fraction, in [0,1] *)
Theorem C03_ia_ratio : forall sqrt_o feps ceps aeps inc0 R Fx mods out,
  compatible sqrt_o R Fx mods -> 0 < feps -> feps < 1 ->
  initial_allocation sqrt_o feps ceps aeps inc0 R Fx mods = Accept out ->
  forall c, In c R -> exists cell, In cell out /\ crect cell = c /\ cdepth cell = 0%nat /\
    forall m, In m mods ->
      ratio (mname m) cell = covered c (shape sqrt_o m) / area c /\
      0 <= ratio (mname m) cell /\ ratio (mname m) cell <= 1.
Proof. exact ia_ratio. Qed.
Print Assumptions C03_ia_ratio.

(* every fixed module owns exactly its own cells: each of its rectangles is a cell marked fixed
   whose map is {m: 1}, and any cell in which m has a positive ratio is one of these *)
Theorem C03_ia_fixed_owns : forall sqrt_o feps ceps aeps inc0 R Fx mods out,
  compatible sqrt_o R Fx mods -> 0 < feps -> feps < 1 ->
  initial_allocation sqrt_o feps ceps aeps inc0 R Fx mods = Accept out ->
  forall m, In m mods -> mfixed m = true ->
    (forall r, In r (mrects m) -> In (mkCell (set_fixed r) [(mname m, 1)] 0%nat) out) /\
    (forall cell, In cell out -> 0 < ratio (mname m) cell ->
       exists r, In r (mrects m) /\ cell = mkCell (set_fixed r) [(mname m, 1)] 0%nat).
Proof. exact ia_fixed_owns. Qed.
Print Assumptions C03_ia_fixed_owns.

(* without zero entries a module is listed in a refinable cell iff it covers part of it *)
Theorem C03_ia_listed_iff : forall sqrt_o feps ceps aeps R Fx mods out,
  compatible sqrt_o R Fx mods -> 0 < feps -> feps < 1 ->
  initial_allocation sqrt_o feps ceps aeps false R Fx mods = Accept out ->
  forall c, In c R -> exists cell, In cell out /\ crect cell = c /\
    forall m, In m mods ->
      ((exists q, lookup (mname m) (calloc cell) = Some q) <-> 0 < covered c (shape sqrt_o m)).
Proof. exact ia_listed_iff. Qed.
Print Assumptions C03_ia_listed_iff.

(* allocated area = area of the shape on the cells open to the module: the refinable cells for a
   soft or hard module; for a fixed module its own rectangles, which is also its area on all cells *)
Theorem C03_ia_area : forall sqrt_o feps ceps aeps inc0 R Fx mods out,
  compatible sqrt_o R Fx mods -> 0 < feps -> feps < 1 ->
  initial_allocation sqrt_o feps ceps aeps inc0 R Fx mods = Accept out ->
  forall m, In m mods ->
    (mfixed m = false ->
       area_of (mname m) out =
       Qcsum (map (fun r => Qcsum (map (fun c => area_overlap c r) R)) (shape sqrt_o m))) /\
    (mfixed m = true ->
       area_of (mname m) out = Qcsum (map area (mrects m)) /\
       area_of (mname m) out =
       Qcsum (map (fun r => Qcsum (map (fun c => area_overlap c r) (R ++ Fx))) (mrects m))).
Proof. exact ia_area. Qed.
Print Assumptions C03_ia_area.

(* the construction is accepted: no assertion of _detect_fixed_rectangles or of the Allocation
   constructor can fail, and no module has total area 0 (with zero entries: provided every
   movable module touches some refinable cell) *)
Theorem C03_ia_ok : forall sqrt_o feps ceps aeps inc0 R Fx mods,
  compatible sqrt_o R Fx mods ->
  (R ++ Fx <> [] /\
   Forall (fun r => 0 <= xmin r /\ 0 <= ymin r) (R ++ Fx) /\
   Forall (fun m => valid_identifier (mname m) = true) mods) ->
  0 < feps -> feps < 1 -> 0 <= aeps ->
  (inc0 = true -> forall m, In m mods -> mfixed m = false ->
     exists c, In c R /\ 0 < covered c (shape sqrt_o m)) ->
  exists out, initial_allocation sqrt_o feps ceps aeps inc0 R Fx mods = Accept out.
Proof. exact (fun s f c a i R Fx mods H1 H2 H3 H4 H5 H6 => ex_intro _ _ (ia_ok s f c a i R Fx mods H1 H2 H3 H4 H5 H6)). Qed.
Print Assumptions C03_ia_ok.

(* the hypotheses are satisfiable: a soft module sticking out of the die, lying partly on a
   blockage and over a hard module, next to a fixed module (Alloc/InitialFacts.v, Module Ex) *)
Theorem C03_hypotheses_satisfiable :
  compatible Ex.sq Ex.R [Ex.F1] Ex.mods /\ well_placed Ex.R [Ex.F1] Ex.mods.
Proof. exact (conj Ex.compatible_ex Ex.well_placed_ex). Qed.
Print Assumptions C03_hypotheses_satisfiable.

(* ---------------------------------------------------------------------------------------
   Object histories (Alloc/InitialHist.v): the netlist and the die are mutable objects that
   may have been read, relabelled, allocated and moved / resized in place or through setters
   before the allocation is computed.  The theorems above quantify over ALL R, Fx, mods; the
   statements below say that the values the objects have when the call is made are all that
   an allocation depends on.
   --------------------------------------------------------------------------------------- *)

(* every allocation of every operation sequence (reads, create_stog, earlier allocations, moves
   and resizes by attribute assignment or setter, module-centre writes - which drag along the
   square create_square aliased to the centre -, recenter_rectangles) is initial_allocation of
   the values the modules have at that moment *)
Theorem C03_hist_allocs_current : forall sqrt_o feps ceps aeps seps saeps R Fx ops ms,
  Forall (fun s => match s with (st, inc0, res) =>
            res = initial_allocation sqrt_o feps ceps aeps inc0 R Fx (map hbase st) end)
         (run_nhist sqrt_o feps ceps aeps seps saeps R Fx ms ops).
Proof. exact nhist_allocs_current. Qed.
Print Assumptions C03_hist_allocs_current.

(* the same netlist allocated twice / a die that was already used: the state an allocation leaves
   behind (a square for every module without rectangles, as far as create_squares got) gives the
   same allocation again, whatever the option *)
Theorem C03_alloc_twice : forall sqrt_o feps ceps aeps R Fx inc0 ms,
  initial_allocation sqrt_o feps ceps aeps inc0 R Fx (map hbase (squares_partial sqrt_o ms)) =
  initial_allocation sqrt_o feps ceps aeps inc0 R Fx (map hbase ms).
Proof. exact ia_twice. Qed.
Print Assumptions C03_alloc_twice.

Theorem C03_hist_alloc_twice : forall sqrt_o feps ceps aeps seps saeps R Fx inc0 inc1 ms,
  match run_nhist sqrt_o feps ceps aeps seps saeps R Fx ms [NAlloc inc0; NAlloc inc1] with
  | [(_, _, _); (_, _, r2)] => r2 = alloc_result sqrt_o feps ceps aeps R Fx inc1 ms
  | _ => False
  end.
Proof. exact nhist_alloc_twice. Qed.
Print Assumptions C03_hist_alloc_twice.

(* recenter_rectangles moves every rectangle of the module by one vector *)
Theorem C03_recenter_rigid : forall h h', recenter h = Some h' ->
  exists dx dy, mrects (hbase h') = map (translate dx dy) (mrects (hbase h)).
Proof. exact recenter_rigid. Qed.
Print Assumptions C03_recenter_rigid.

(* on a rectangle whose centre object is not shared, writing the attributes of the Point and giving
   the rectangle a new Point are the same operation *)
Theorem C03_mech_irrelevant_unshared : forall sqrt_o feps ceps aeps seps saeps R Fx ms mi ri x y h,
  nth_error ms mi = Some h -> hshared h = false ->
  apply_nop sqrt_o feps ceps aeps seps saeps R Fx ms (NMoveRect WInPlace mi ri x y) =
  apply_nop sqrt_o feps ceps aeps seps saeps R Fx ms (NMoveRect WSetter mi ri x y).
Proof. exact mech_irrelevant_unshared. Qed.
Print Assumptions C03_mech_irrelevant_unshared.

(* a history on which the checker of the correspondence passes, with the aliasing visible:
   allocate, move the centre of the squared module in place, move a hard module in place, allocate *)
Theorem C03_hist_example :
  nhist_check Ex.sq Ex.feps Ex.ceps Ex.aeps (qc 1 1000000) (qc 1 1000) Ex.R [Ex.F1]
    [mkH ExH.S0 false; mkH ExH.Hm false; mkH ExH.Fm false]
    [ (NAlloc false, false,
       NOAccept [0; 0; 0; 0]%Z
         [ mkCell ExH.fx [("F1"%string, 1)] 0%nat; mkCell Ex.A [] 0%nat; mkCell Ex.B [] 0%nat;
           mkCell Ex.C [("S"%string, qc 3 8); ("H"%string, qc 1 4)] 0%nat ],
       [mkH (ExH.S1 (qc 7 2)) true; mkH ExH.Hm false; mkH ExH.Fm false]);
      (NSetCenter WInPlace 0 (qc 3 1) (qc 2 1), false, NONone,
       [mkH (ExH.S1 (qc 3 1)) true; mkH ExH.Hm false; mkH ExH.Fm false]);
      (NProbe, false, NONone, [mkH (ExH.S1 (qc 3 1)) true; mkH ExH.Hm false; mkH ExH.Fm false]);
      (NMoveRect WInPlace 1 0 (qc 5 2) (qc 1 2), false, NONone,
       [mkH (ExH.S1 (qc 3 1)) true; mkH ExH.H2 false; mkH ExH.Fm false]);
      (NAlloc false, false,
       NOAccept [0; 0; 0; 0]%Z
         [ mkCell ExH.fx [("F1"%string, 1)] 0%nat; mkCell Ex.A [] 0%nat; mkCell Ex.B [] 0%nat;
           mkCell Ex.C [("S"%string, qc 1 2); ("H"%string, qc 1 4)] 0%nat ],
       [mkH (ExH.S1 (qc 3 1)) true; mkH ExH.H2 false; mkH ExH.Fm false]) ] = true.
Proof. exact ExH.hist_ex. Qed.
Print Assumptions C03_hist_example.

(* ---------------------------------------------------------------------------------------
   Coincidences (Geometry/RectCoincide.v, Alloc/InitialCoincide.v): a module whose single rectangle
   or default square shares the centre or a corner with a refinable cell - whatever derived quantity
   they also share (area, a side, perimeter, aspect ratio) - gets min(w) * min(h) / area of the cell
   there, and the ratio 1 exactly when the cell lies inside the rectangle.
   --------------------------------------------------------------------------------------- *)
From FrameModel Require Import Geometry.RectCoincide Alloc.InitialCoincide.
Theorem C03_ia_ratio_anchored : forall sqrt_o feps ceps aeps inc0 R Fx mods out,
  compatible sqrt_o R Fx mods -> 0 < feps -> feps < 1 ->
  initial_allocation sqrt_o feps ceps aeps inc0 R Fx mods = Accept out ->
  forall c, In c R -> exists cell, In cell out /\ crect cell = c /\
    forall m s, In m mods -> shape sqrt_o m = [s] -> wf c -> wf s ->
      (forall a, anchored a c s ->
         ratio (mname m) cell = Qcmin (rw c) (rw s) * Qcmin (rh c) (rh s) / area c) /\
      (ratio (mname m) cell = 1 <-> is_inside c s = true).
Proof. exact ia_ratio_anchored. Qed.
Print Assumptions C03_ia_ratio_anchored.
