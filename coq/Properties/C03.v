(* C03 - placeholder while the facts are being written *)
From FrameModel Require Import Num.QcTac Geometry.Rect Alloc.Alloc Alloc.Initial.
Theorem C03_placeholder : forall r, fixed (set_fixed r) = true.
Proof. exact (fun r => eq_refl). Qed.
Print Assumptions C03_placeholder.
