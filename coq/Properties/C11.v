(* C11 - Die refinement keeps the tiling, reaches the count and bounds the aspect ratio.
   Statements only; every proof is [exact <lemma>].
   The model mirrors split_rectangles as repaired by fixes/C11-phase2-aspect.diff (phase 2
   passes the two halves through phase 1 again); on the unrepaired code the aspect-ratio
   clause is false (C11_halving_alone_refuted; 1x1 die, limit 1.5, n = 2). *)
From FrameModel Require Import Num.QcTac Geometry.Rect Refine.Phase1 Refine.Phase1Facts
  Refine.Phase2 Refine.Phase2Facts Refine.DieRefine Refine.DieFacts Refine.GridFacts Refine.PermFacts
  Refine.DieOps Refine.DieOpsFacts Refine.ScaleFacts Cases.CmpC11.
From Coq Require Import Permutation.
Open Scope list_scope.
Open Scope Qc_scope.

(* ---- phase 1 (deterministic, mirrored exactly) ---- *)
(* whenever phase 1 returns: both asserts held, every input had positive size, and the result
   is - input rectangle by input rectangle, last one first - a list of pieces obtained by
   halving (htree) that tile it, carry its attributes, are well formed and within the limit *)
Theorem C11_phase1_sound : forall fuel rs r n out, phase1 fuel rs r n = Ok out ->
  (0 < n)%Z /\ ar_limit < r /\ Forall wf rs /\
  exists gs, out = List.concat gs /\
    Forall2 (fun p g => htree p g) (rev rs) gs /\
    Forall2 (fun p g => tiles g p /\ Forall (same_attrs p) g) (rev rs) gs /\
    Forall (fun c => aspect_ratio c <= r) out /\ Forall wf out.
Proof. exact phase1_sound. Qed.
Print Assumptions C11_phase1_sound.

Theorem C11_phase1_tiles : forall fuel rs r n out, phase1 fuel rs r n = Ok out ->
  exists gs, out = List.concat gs /\
    Forall2 (fun p g => tiles g p /\ Forall (same_attrs p) g) (rev rs) gs.
Proof. exact phase1_tiles. Qed.
Print Assumptions C11_phase1_tiles.

Theorem C11_phase1_aspect : forall fuel rs r n out, phase1 fuel rs r n = Ok out ->
  Forall (fun c => aspect_ratio c <= r) out.
Proof. exact phase1_aspect. Qed.
Print Assumptions C11_phase1_aspect.

(* termination: the fuel the model computes (sum of 2^(ceil(log2 aspect)+2)) always suffices for a
   limit the code accepts (r > 1.415 implies r * r > 2) *)
Theorem C11_phase1_fuel : forall rs r n, Forall wf rs -> (0 < n)%Z -> ar_limit < r ->
  exists out, phase1 (Phase1.phase1_fuel rs) rs r n = Ok out.
Proof. exact Phase1Facts.phase1_fuel. Qed.
Print Assumptions C11_phase1_fuel.

Theorem C11_phase1_reject_iff : forall rs r n, Forall wf rs ->
  (phase1 (Phase1.phase1_fuel rs) rs r n = Reject <-> ((n <= 0)%Z \/ r <= ar_limit)).
Proof. exact phase1_reject_iff. Qed.
Print Assumptions C11_phase1_reject_iff.

(* ---- phase 2 (relational: verified checker + the model's own algorithm) ---- *)
Theorem C11_phase2_sound : forall p1 out r n, Forall wf p1 -> phase2_ok p1 out r n = true ->
  (n <= List.length out)%nat /\ Forall (fun c => aspect_ratio c <= r) out /\
  exists gs, Permutation out (List.concat gs) /\
    Forall2 (fun p g => htree p g) p1 gs /\
    Forall2 (fun p g => tiles g p /\ Forall (same_attrs p) g) p1 gs.
Proof. exact phase2_sound. Qed.
Print Assumptions C11_phase2_sound.

Theorem C11_phase2_greedy_ok : forall p1 r n, ar_limit < r -> Forall wf p1 ->
  Forall (fun c => aspect_ratio c <= r) p1 -> p1 <> [] ->
  exists out, phase2_greedy p1 r n = Ok out /\ phase2_ok p1 out r n = true.
Proof. exact phase2_greedy_ok. Qed.
Print Assumptions C11_phase2_greedy_ok.

(* one repaired step yields at least two pieces: the inner call returns before its own phase 2 *)
Theorem C11_unit_split_len : forall r x ps, unit_split r x = Ok ps -> (2 <= List.length ps)%nat.
Proof. exact unit_split_len. Qed.
Print Assumptions C11_unit_split_len.

(* ---- split_rectangles ---- *)
(* [refines rs out]: out is, up to order, rectangle by rectangle of rs a list of pieces that tile
   it and carry its attributes *)
Theorem C11_refines_def : forall rs out, refines rs out <->
  exists gs, Permutation out (List.concat gs) /\
    Forall2 (fun p g => tiles g p /\ Forall (same_attrs p) g) rs gs.
Proof. exact (fun rs out => iff_refl (refines rs out)). Qed.
Print Assumptions C11_refines_def.

Theorem C11_refines_inside : forall rs out, refines rs out ->
  Forall (fun c => wf c /\ exists p, In p rs /\ is_inside c p = true /\ same_attrs p c) out.
Proof. exact refines_wf_inside. Qed.
Print Assumptions C11_refines_inside.

Theorem C11_split_rectangles_sound : forall rs r n out, split_rectangles_ok rs r n out = true ->
  (0 < n)%Z /\ ar_limit < r /\ Forall wf rs /\
  (Z.to_nat n <= List.length out)%nat /\ Forall (fun c => aspect_ratio c <= r) out /\ refines rs out.
Proof. exact split_rectangles_sound. Qed.
Print Assumptions C11_split_rectangles_sound.

(* the aspect-ratio clause at full strength: every admissible limit, in particular 1.415 < r < 2 *)
Theorem C11_split_aspect : forall rs r n out, split_rectangles_ok rs r n out = true ->
  Forall (fun c => aspect_ratio c <= r) out.
Proof. exact split_aspect. Qed.
Print Assumptions C11_split_aspect.

Theorem C11_split_rectangles_greedy_ok : forall rs r n, Forall wf rs -> rs <> [] -> (0 < n)%Z ->
  ar_limit < r ->
  exists out, split_rectangles_greedy rs r n = Ok out /\ split_rectangles_ok rs r n out = true.
Proof. exact split_rectangles_greedy_ok. Qed.
Print Assumptions C11_split_rectangles_greedy_ok.

Theorem C11_split_rectangles_reject_iff : forall rs r n, Forall wf rs -> rs <> [] ->
  (split_rectangles_greedy rs r n = Reject <-> ((n <= 0)%Z \/ r <= ar_limit)).
Proof. exact split_rectangles_reject_iff. Qed.
Print Assumptions C11_split_rectangles_reject_iff.

(* ---- Die.split_refinable_regions ---- *)
Theorem C11_die_split_sound : forall d r n d', die_split_ok d r n d' = true ->
  bbox d' = bbox d /\ blockages d' = blockages d /\ fixedr d' = fixedr d /\
  (0 < n)%Z /\ ar_limit < r /\
  (Z.to_nat n <= List.length (refinable d'))%nat /\
  Forall (fun c => aspect_ratio c <= r) (refinable d') /\
  refines (refinable d) (refinable d') /\
  Forall (fun x => is_ground x = false) (spec d') /\ Forall (fun x => is_ground x = true) (ground d').
Proof. exact die_split_sound. Qed.
Print Assumptions C11_die_split_sound.

Theorem C11_die_split_greedy_sound : forall d r n, Forall wf (refinable d) -> refinable d <> [] ->
  (0 < n)%Z -> ar_limit < r ->
  exists d', die_split_greedy d r n = Ok d' /\
    bbox d' = bbox d /\ blockages d' = blockages d /\ fixedr d' = fixedr d /\
    (Z.to_nat n <= List.length (refinable d'))%nat /\
    Forall (fun c => aspect_ratio c <= r) (refinable d') /\
    refines (refinable d) (refinable d') /\
    Forall (fun x => is_ground x = false) (spec d') /\ Forall (fun x => is_ground x = true) (ground d').
Proof. exact die_split_greedy_sound. Qed.
Print Assumptions C11_die_split_greedy_sound.

(* the checker does not depend on the order of the list; the state the model's own algorithm
   leaves in the Die (after the re-partition by tag) is admissible *)
Theorem C11_phase2_ok_perm : forall p1 out out' r n, Permutation out out' ->
  phase2_ok p1 out r n = phase2_ok p1 out' r n.
Proof. exact phase2_ok_perm. Qed.
Print Assumptions C11_phase2_ok_perm.

Theorem C11_die_split_greedy_ok : forall d r n, Forall wf (refinable d) -> refinable d <> [] ->
  (0 < n)%Z -> ar_limit < r ->
  exists d', die_split_greedy d r n = Ok d' /\ die_split_ok d r n d' = true.
Proof. exact die_split_greedy_ok. Qed.
Print Assumptions C11_die_split_greedy_ok.

Theorem C11_untouched : forall d r n d', die_split_greedy d r n = Ok d' ->
  bbox d' = bbox d /\ blockages d' = blockages d /\ fixedr d' = fixedr d.
Proof. exact untouched. Qed.
Print Assumptions C11_untouched.

(* ---- grids ---- *)
Theorem C11_grid_count : forall d nrows ncols g,
  rectangle_grid d nrows ncols = Some g -> List.length g = (nrows * ncols)%nat.
Proof. exact grid_count. Qed.
Print Assumptions C11_grid_count.

Theorem C11_grid_tiles : forall d nrows ncols g, wf d -> rectangle_grid d nrows ncols = Some g -> tiles g d.
Proof. exact grid_tiles. Qed.
Print Assumptions C11_grid_tiles.

Theorem C11_initial_grid_sound : forall d nrows ncols d', initial_grid d nrows ncols = Ok d' -> wf (bbox d) ->
  grid_request_ok d nrows ncols /\
  bbox d' = bbox d /\ spec d' = [] /\ blockages d' = blockages d /\ fixedr d' = fixedr d /\
  List.length (ground d') = (Z.to_nat nrows * Z.to_nat ncols)%nat /\
  tiles (ground d') (bbox d) /\
  Forall (fun c => same_attrs (bbox d) c /\ rloc c = NOPOLY) (ground d').
Proof. exact initial_grid_sound. Qed.
Print Assumptions C11_initial_grid_sound.

Theorem C11_initial_grid_defined : forall d nrows ncols,
  ((0 < nrows)%Z /\ (0 < ncols)%Z /\ (1 < nrows + ncols)%Z /\
   spec d = [] /\ blockages d = [] /\ fixedr d = [] /\ exists g0, ground d = [g0]) ->
  exists d', initial_grid d nrows ncols = Ok d'.
Proof. exact initial_grid_defined. Qed.
Print Assumptions C11_initial_grid_defined.

(* ---- the finding, and non-vacuity ---- *)
Theorem C11_halving_alone_refuted :
  aspect_ratio unit_square <= qc 3 2 /\
  exists a b, split unit_square = Some (a, b) /\
    ~ aspect_ratio a <= qc 3 2 /\ ~ aspect_ratio b <= qc 3 2.
Proof. exact halving_alone_refuted. Qed.
Print Assumptions C11_halving_alone_refuted.

Theorem C11_die_split_example :
  exists d', die_split_greedy unit_die (qc 3 2) 2 = Ok d' /\ List.length (ground d') = 4%nat /\
             die_split_ok unit_die (qc 3 2) 2 d' = true.
Proof. exact die_split_example. Qed.
Print Assumptions C11_die_split_example.

(* ---- histories: any sequence of operations on ONE Die object (Refine/DieOps.v) ---- *)
(* one admissible step from a state that tiles the die: the clauses of the property for the
   r, n (rows, cols) of THAT call, relative to the state the step started from *)
Theorem C11_step_sound : forall d op out d', die_inv d -> step_ok d op out d' = true ->
  (bbox d' = bbox d /\ blockages d' = blockages d /\ fixedr d' = fixedr d /\
   match op, out with
   | OSplit r n, Returned =>
       (0 < n)%Z /\ ar_limit < r /\
       (Z.to_nat n <= List.length (refinable d'))%nat /\
       Forall (fun c => aspect_ratio c <= r) (refinable d') /\
       refines (refinable d) (refinable d') /\
       Forall (fun x => is_ground x = false) (spec d') /\ Forall (fun x => is_ground x = true) (ground d')
   | OGrid nr nc, Returned =>
       grid_request_ok d nr nc /\ spec d' = [] /\
       List.length (ground d') = (Z.to_nat nr * Z.to_nat nc)%nat /\
       tiles (ground d') (bbox d) /\
       Forall (fun c => same_attrs (bbox d) c /\ rloc c = NOPOLY) (ground d')
   | OSplit _ _, Raised | OGrid _ _, Raised => d' = d
   | ORead, Lists refin fixd => d' = d /\ Permutation (refinable d) refin /\ Permutation (fixedr d) fixd
   | _, _ => False
   end) /\
  die_inv d'.
Proof. exact step_sound. Qed.
Print Assumptions C11_step_sound.

(* every prefix of every admissible history, by induction over the list of operations: each step
   has its own clauses (step_post is the statement of C11_step_sound), the die, the blockages and the
   fixed regions are those of the start, and the refinable regions together with them still tile
   the die - whatever was called before, in whatever order *)
Theorem C11_history_sound : forall d0 tr, die_inv d0 -> trace_ok d0 tr = true ->
  Forall (fun s : DieSt * event =>
            let '(prev, (op, out, next)) := s in
            step_post prev op out next /\ die_inv next /\
            bbox next = bbox d0 /\ blockages next = blockages d0 /\ fixedr next = fixedr d0 /\
            tiles (refinable next ++ blockages d0 ++ fixedr d0) (bbox d0))
         (steps d0 tr).
Proof. exact history_sound. Qed.
Print Assumptions C11_history_sound.

Theorem C11_history_prefix : forall d tr1 tr2,
  trace_ok d (tr1 ++ tr2) = trace_ok d tr1 && trace_ok (final d tr1) tr2.
Proof. exact trace_ok_app. Qed.
Print Assumptions C11_history_prefix.

(* the model's own run (largest-first, first maximum) is defined for every list of operations on
   a die with at least one refinable region, never runs out of fuel, and is an admissible history *)
Theorem C11_run_ops_ok : forall ops d, die_inv d /\ refinable d <> [] ->
  exists tr, run_ops d ops = Ok tr /\ trace_ok d tr = true /\ map (fun e : event => fst (fst e)) tr = ops.
Proof. exact run_ops_ok. Qed.
Print Assumptions C11_run_ops_ok.

(* what the correspondence evaluates on the state the constructor left *)
Theorem C11_die_inv_b_sound : forall d, die_inv_b d = true -> die_inv d.
Proof. exact die_inv_b_sound. Qed.
Print Assumptions C11_die_inv_b_sound.

(* non-vacuity, and the history on which a remembered aspect ratio goes stale: 10 x 10 die,
   split(2, 1), read, initial_grid(1, 5), split(2, 5), read: twenty cells of aspect ratio <= 2 *)
Theorem C11_stale_history :
  exists tr, run_ops die10 ops_stale = Ok tr /\ trace_ok die10 tr = true /\
    List.length (refinable (final die10 tr)) = 20%nat /\
    forallb (fun c => Qcleb (aspect_ratio c) (qc 2 1)) (refinable (final die10 tr)) = true.
Proof. exact stale_history. Qed.
Print Assumptions C11_stale_history.

(* ---- absolute scale and small pieces (Refine/ScaleFacts.v) ---- *)
(* the loop of split_refinable_regions that files the pieces under ground / specialised keeps every
   piece, whatever its area: the refinable regions afterwards are the rectangles split_rectangles
   returned, all of them *)
Theorem C11_repartition_keeps_every_piece : forall d rects, Permutation (refinable (repartition d rects)) rects.
Proof. exact repartition_keeps_every_piece. Qed.
Print Assumptions C11_repartition_keeps_every_piece.

Theorem C11_repartition_count : forall d rects, List.length (refinable (repartition d rects)) = List.length rects.
Proof. exact repartition_count. Qed.
Print Assumptions C11_repartition_count.

(* the decisions of the refinement are the same for a die measured in other units (every length
   multiplied by s > 0): well-formedness, the aspect ratio compared with the limit, the halving itself,
   and which of two rectangles has the larger area *)
Theorem C11_scale_decisions : forall s x y, 0 < s ->
  wfb (scale s x) = wfb x /\ aspect_ratio (scale s x) = aspect_ratio x /\
  split (scale s x) = option_map (fun p => (scale s (fst p), scale s (snd p))) (split x) /\
  Qcltb (area (scale s x)) (area (scale s y)) = Qcltb (area x) (area y).
Proof. exact scale_decisions. Qed.
Print Assumptions C11_scale_decisions.
