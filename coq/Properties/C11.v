(* C11 - placeholder while the facts are being developed *)
From FrameModel Require Import Num.QcTac Geometry.Rect Refine.Phase1 Refine.Phase2 Refine.DieRefine.
Theorem C11_repartition_untouched : forall d rects,
  blockages (repartition d rects) = blockages d /\ fixedr (repartition d rects) = fixedr d.
Proof. exact (fun d rects => conj eq_refl eq_refl). Qed.
Print Assumptions C11_repartition_untouched.
