(* C10 - Global floorplanning returns a feasible allocation and rigid hard modules.
   Statements only; every proof is [exact <lemma>].

   What is proved: the LOGICAL SHELL of tools/glbfloor/optimization.py (extract_solution, get_a, the rule
   fixing model.a[m][c], the refine/optimise loop) and Module.recenter_rectangles, GIVEN the solver
   contract SolOK (Glb/Extract.v) at every optimisation of the run.
   What NO theorem covers:  (1) that the values GEKKO/IPOPT returns satisfy SolOK (numerical convergence,
   bound handling, tolerance) - monitored on real runs by harness/props/c10.py, not proved;
   (2) that the loop terminates when max_iter is None - the model follows the loop with explicit fuel and
   the theorem speaks about runs that return (with an iteration limit, C10_loop_bounded).
   SINCE THE CONSTRAINT SYSTEM IS IN THE MODEL (Glb/System.v: which model.a[m][c] are floats and which are
   variables - the threshold rule with its strict comparisons -, the bounds, the capacity / area / centroid /
   dispersion equations, the anchor, linking and rigid-offset equations of the movable hard modules, the
   hyperedge equations; names are data): SolOK is no longer a bare hypothesis but a CONSEQUENCE of "the solver
   returned a point feasible for the system it was given" (C10_system_feasible_solok, C10_glb_from_system), for
   every die, allocation, netlist, threshold (ties included) and whatever the module names - given that no
   netlist module bears the internal name f"{m}_{r}" of a rectangle of a movable hard module, which the repaired
   code asserts (fixes/C10-fake-name-clash.diff; gen_system = None models the AssertionError).
   "Do not overlap" is proved at the strength the Allocation constructor itself re-validates
   (no two cells overlap by more than the area tolerance aeps); extract_solution alone also keeps exact
   non-overlap (it returns a sub-list of the cells it was given). *)
From FrameModel Require Import Num.QcTac Geometry.Rect Alloc.Alloc Glb.Extract Glb.ExtractFacts
  Glb.RigidFacts Glb.LoopFacts Glb.Example Glb.System Glb.SystemFacts Glb.SystemExample.
Open Scope list_scope.
Open Scope Qc_scope.

(* extract_solution, cells: sub-list of the given cells (hence inside the die and non-overlapping),
   ratios in [0,1], per-cell sum <= 1 + tol, accepted by the Allocation constructor *)
Theorem C10_extract_alloc_ok : forall sol eps tol t aeps die mods cells0,
  SolOK eps tol t die mods cells0 sol -> t <= 1 -> accepted aeps cells0 -> names_ok mods ->
  let rects := map crect cells0 in
  let out := extract_cells sol t mods rects in
  sublist (map crect out) rects /\
  (all_inside die rects -> all_inside die (map crect out)) /\
  (pairwise_no_ov rects -> pairwise_no_ov (map crect out)) /\
  no_ov_rects aeps (map crect out) /\
  ratios_in_unit out /\
  cell_sums_le (1 + tol) out /\
  (out <> [] -> accepted aeps out /\ extract_cells sol t mods rects = out /\
                mk_allocation aeps out = Some out).
Proof. exact extract_alloc_ok. Qed.
Print Assumptions C10_extract_alloc_ok.

(* fixed modules: their cells are returned with exactly {m: 1}; the module is returned unchanged *)
Theorem C10_extract_fixed : forall sol eps tol t die mods cells0 m,
  SolOK eps tol t die mods cells0 sol ->
  0 < t -> tol <= 1 - t ->
  names_ok mods -> In m mods -> mfixed m = true -> owns m cells0 ->
  owns m (extract_cells sol t mods (map crect cells0)) /\ extract_module sol m = Some m.
Proof. exact extract_fixed_thm. Qed.
Print Assumptions C10_extract_fixed.

(* recenter_rectangles: one translation vector for all rectangles, shapes kept, the
   area-weighted centroid becomes the module centre *)
Theorem C10_recenter_rigid : forall c rs rs', recenter c rs = Some rs' ->
  exists dx dy,
    rs' = map (translate dx dy) rs /\
    (forall r, cx (translate dx dy r) = cx r + dx /\ cy (translate dx dy r) = cy r + dy /\
               same_shape r (translate dx dy r)) /\
    rects_area rs' = rects_area rs /\ rects_area rs <> 0 /\
    centroid rs' = c.
Proof. exact recenter_rigid_thm. Qed.
Print Assumptions C10_recenter_rigid.

(* the flips: each axis is either left alone or mirrored about the module centre ... *)
Theorem C10_flip_mirror : forall sol m c rs,
  exists bx by_ : bool,
    flip sol m c rs = map (fun r => mirror_if_y by_ (snd c) (mirror_if_x bx (fst c) r)) rs.
Proof. exact flip_mirror_thm. Qed.
Print Assumptions C10_flip_mirror.

(* ... a mirror maps cx to 2c - cx, keeps the other coordinate and the shape, negates offsets *)
Theorem C10_mirror_x_spec : forall c r,
  cx (mirror_x c r) = c + c - cx r /\ cy (mirror_x c r) = cy r /\ same_shape r (mirror_x c r).
Proof. exact mirror_x_spec. Qed.
Print Assumptions C10_mirror_x_spec.
Theorem C10_mirror_y_spec : forall c r,
  cy (mirror_y c r) = c + c - cy r /\ cx (mirror_y c r) = cx r /\ same_shape r (mirror_y c r).
Proof. exact mirror_y_spec. Qed.
Print Assumptions C10_mirror_y_spec.
Theorem C10_mirror_x_offsets : forall c r s, cx (mirror_x c r) - cx (mirror_x c s) = - (cx r - cx s).
Proof. exact mirror_x_offsets. Qed.
Print Assumptions C10_mirror_x_offsets.
Theorem C10_mirror_y_offsets : forall c r s, cy (mirror_y c r) - cy (mirror_y c s) = - (cy r - cy s).
Proof. exact mirror_y_offsets. Qed.
Print Assumptions C10_mirror_y_offsets.

(* ... and the module centre stays the area-weighted centroid of the flipped rectangles *)
Theorem C10_flip_centroid : forall sol m c rs, rects_area rs <> 0 -> centroid rs = c ->
  centroid (flip sol m c rs) = c /\ rects_area (flip sol m c rs) = rects_area rs.
Proof. exact flip_centroid. Qed.
Print Assumptions C10_flip_centroid.

(* together: soft and fixed modules keep their rectangles; a movable hard module is translated
   or mirrored, never reshaped (rigid = same shapes, cx' = +-cx + dx, cy' = +-cy + dy) *)
Theorem C10_extract_module_rigid : forall sol m m', extract_module sol m = Some m' ->
  (mhard m && negb (mfixed m) = false -> mrects m' = mrects m) /\
  (mhard m && negb (mfixed m) = true ->
     rigid (mrects m) (mrects m') /\ centroid (mrects m') = mcenter m' /\ rects_area (mrects m') <> 0).
Proof. exact extract_module_rigid. Qed.
Print Assumptions C10_extract_module_rigid.

Theorem C10_centres_in_die : forall sol eps tol t die mods cells0 m m',
  SolOK eps tol t die mods cells0 sol ->
  In m mods -> (mfixed m = true -> in_box die (mcenter m)) ->
  extract_module sol m = Some m' -> in_box die (mcenter m').
Proof. exact centres_in_die_thm. Qed.
Print Assumptions C10_centres_in_die.

(* the centre the netlist computes for a fixed module lies in the die when its rectangles do *)
Theorem C10_centroid_in_box : forall die rs, rs <> [] ->
  Forall (fun r => wf r /\ is_inside r die = true) rs -> in_box die (centroid rs).
Proof. exact centroid_in_box. Qed.
Print Assumptions C10_centroid_in_box.

(* THE PROPERTY, conditional on the solver contract at every optimisation of the run
   (sol_ok_along), for every run of the loop that returns after at least one optimisation.
   The full statement, without that hypothesis, is C10_glb_statement below: it is not provable
   (it is false for a solver that answers with over-full cells). *)
Definition C10_glb_statement : Prop :=
  forall tol t aeps die solver fuel max_iter ms cells ms' cells',
  0 < t -> t <= 1 -> tol <= 1 - t -> max_iter <> Some 0%nat ->
  Inv aeps die ms ms cells ->
  glbfloor solver aeps t fuel max_iter ms cells = Finished ms' cells' ->
  GlbOK aeps tol die ms ms' cells'.

Theorem C10_glb_statement_refuted : ~ C10_glb_statement.
Proof. exact C10Example.unconditional_statement_refuted. Qed.
Print Assumptions C10_glb_statement_refuted.

Theorem C10_glb_partial : forall eps tol t aeps die solver fuel max_iter ms cells ms' cells',
  0 < t -> t <= 1 -> tol <= 1 - t ->
  max_iter <> Some 0%nat ->
  Inv aeps die ms ms cells ->
  sol_ok_along solver aeps t eps tol die fuel max_iter 1 ms cells ->
  glbfloor solver aeps t fuel max_iter ms cells = Finished ms' cells' ->
  GlbOK aeps tol die ms ms' cells'.
Proof. exact glb_partial. Qed.
Print Assumptions C10_glb_partial.

(* with an iteration limit k the loop returns or raises within k + 1 passes (fuel is then no
   restriction); nothing of the kind is proved for max_iter = None *)
Theorem C10_loop_bounded : forall solver aeps t k fuel n ms cells,
  (1 <= fuel)%nat -> (k + 2 <= fuel + n)%nat ->
  glb_loop solver aeps t fuel (Some k) n ms cells <> OutOfFuel.
Proof. exact glb_loop_bounded. Qed.
Print Assumptions C10_loop_bounded.

(* non-vacuity: a concrete instance (fixed + soft + flippable hard module) satisfies SolOK and the
   invariant, the loop returns on it, and the hypotheses of C10_glb_partial hold together *)
Theorem C10_solok_satisfiable :
  SolOK C10Example.eps C10Example.tol C10Example.t C10Example.die C10Example.mods C10Example.cells C10Example.sol.
Proof. exact C10Example.sol_ok. Qed.
Print Assumptions C10_solok_satisfiable.
Theorem C10_glb_partial_nonvacuous : exists ms' cells',
  glbfloor C10Example.solver C10Example.aeps C10Example.t 2 (Some 1%nat) C10Example.mods C10Example.cells
    = Finished ms' cells' /\
  GlbOK C10Example.aeps C10Example.tol C10Example.die C10Example.mods ms' cells'.
Proof. exact C10Example.glb_partial_applies. Qed.
Print Assumptions C10_glb_partial_nonvacuous.

(* ---------------------------------------------------------------------------------------------------------
   The constraint system of optimize_allocation (Glb/System.v)
   --------------------------------------------------------------------------------------------------------- *)

(* every point feasible for the generated system (bounds exactly, every (in)equation within tol), read through
   get_value, satisfies the WHOLE solver contract: ratios in [0,1], movable centres in the die box, no cell above
   1 + tol * (1 + number of movable hard modules), fixed centres and frozen ratios returned as stored *)
Theorem C10_system_feasible_solok : forall pow32 eps t tol die mods areas cells edges sys asg,
  gen_system pow32 eps t die mods areas cells edges = Some sys ->
  names_ok mods ->
  forallb cell_ok cells = true ->
  Feasible tol sys asg ->
  SolOK eps (sys_tol tol mods) t die mods cells (sol_of_asg eps t mods cells asg).
Proof. exact feasible_solok. Qed.
Print Assumptions C10_system_feasible_solok.

(* the correspondence files evaluate the generator with the rows of model.a tabulated once: the same system *)
Theorem C10_fast_generator_same : forall pow32 eps t die mods areas cells edges,
  gen_system_fast pow32 eps t die mods areas cells edges = gen_system pow32 eps t die mods areas cells edges.
Proof. exact gen_system_fast_same. Qed.
Print Assumptions C10_fast_generator_same.

(* the internal names f"{m}_{r}" never collide with each other, whatever the module names *)
Theorem C10_fake_names_injective : forall m r m' r', fake m r = fake m' r' -> m = m' /\ r = r'.
Proof. exact fake_inj. Qed.
Print Assumptions C10_fake_names_injective.

(* THE PROPERTY, conditional only on: at every optimisation of the run the solver answered with a point feasible
   for the system optimize_allocation built (feasible_along), for every run that returns after at least one
   optimisation.  [solver_of] = build the system (None: the code raises), solve, read the values. *)
Theorem C10_glb_from_system : forall pow32 eps aeps t tol die areas edges raw fuel max_iter ms cells ms' cells',
  0 < t -> t <= 1 -> sys_tol tol ms <= 1 - t ->
  max_iter <> Some 0%nat ->
  Inv aeps die ms ms cells ->
  feasible_along pow32 eps aeps t die areas edges raw tol fuel max_iter 1 ms cells ->
  glbfloor (solver_of pow32 eps t die areas edges raw) aeps t fuel max_iter ms cells = Finished ms' cells' ->
  GlbOK aeps (sys_tol tol ms) die ms ms' cells'.
Proof. exact glb_from_system_thm. Qed.
Print Assumptions C10_glb_from_system.

(* non-vacuity: an instance with a fixed module, a soft module "H_io" next to the movable flippable hard module
   "H", its ratio exactly 1 - threshold (a tie: a variable), a three-pin net; its system has a feasible point *)
Theorem C10_tie_is_variable :
  get_a C10SysExample.cells C10SysExample.mS 1 = 1 - C10SysExample.t /\
  model_a C10SysExample.eps C10SysExample.t C10SysExample.cells C10SysExample.mS 1 = None.
Proof. exact C10SysExample.tie_is_variable. Qed.
Print Assumptions C10_tie_is_variable.
Theorem C10_system_feasible_satisfiable : exists sys,
  C10SysExample.the_system = Some sys /\ Feasible C10SysExample.tol sys C10SysExample.asg.
Proof. exact C10SysExample.system_feasible. Qed.
Print Assumptions C10_system_feasible_satisfiable.
Theorem C10_glb_from_system_nonvacuous : exists ms' cells',
  glbfloor C10SysExample.solver C10SysExample.aeps C10SysExample.t 2 (Some 1%nat) C10SysExample.mods C10SysExample.cells
    = Finished ms' cells' /\
  GlbOK C10SysExample.aeps (sys_tol C10SysExample.tol C10SysExample.mods) C10SysExample.die C10SysExample.mods ms' cells'.
Proof. exact C10SysExample.glb_from_system_applies. Qed.
Print Assumptions C10_glb_from_system_nonvacuous.

(* the capacity equations are needed: on that instance, the system WITHOUT its capacity equations has a feasible
   point (tolerance 0) that occupies a cell 200 % - what a change skipping a capacity equation allows *)
Theorem C10_capacity_equations_needed : exists sys,
  C10SysExample.the_system = Some sys /\
  Forall (fun c => exists k, c = cap_con C10SysExample.eps C10SysExample.t C10SysExample.mods C10SysExample.cells k)
         (firstn (List.length C10SysExample.cells) (scons sys)) /\
  Feasible C10SysExample.tol (C10SysExample.drop_caps sys) C10SysExample.asg_bad /\
  Qcsum (map (fun m => sa (sol_of_asg C10SysExample.eps C10SysExample.t C10SysExample.mods C10SysExample.cells
                                   C10SysExample.asg_bad) (mname m) 2) C10SysExample.mods) = qc 2 1.
Proof. exact C10SysExample.capacity_equations_needed. Qed.
Print Assumptions C10_capacity_equations_needed.
