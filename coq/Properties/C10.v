(* C10 - Global floorplanning returns a feasible allocation and rigid hard modules.
   Statements only; every proof is [exact <lemma>].

   What is proved: the LOGICAL SHELL of tools/glbfloor/optimization.py (extract_solution, get_a, the rule
   fixing model.a[m][c], the refine/optimise loop) and Module.recenter_rectangles, GIVEN the solver
   contract SolOK (Glb/Extract.v) at every optimisation of the run.
   What NO theorem covers:  (1) that the values GEKKO/IPOPT returns satisfy SolOK (numerical convergence,
   bound handling, tolerance) - monitored on real runs by harness/props/c10.py, not proved;
   (2) that the loop terminates when max_iter is None - the model follows the loop with explicit fuel and
   the theorem speaks about runs that return (with an iteration limit, C10_loop_bounded).
   "Do not overlap" is proved at the strength the Allocation constructor itself re-validates
   (no two cells overlap by more than the area tolerance aeps); extract_solution alone also keeps exact
   non-overlap (it returns a sub-list of the cells it was given). *)
From FrameModel Require Import Num.QcTac Geometry.Rect Alloc.Alloc Glb.Extract Glb.ExtractFacts
  Glb.RigidFacts Glb.LoopFacts Glb.Example.
Open Scope list_scope.
Open Scope Qc_scope.

(* extract_solution, cells: sub-list of the given cells (hence inside the die and non-overlapping),
   ratios in [0,1], per-cell sum <= 1 + tol, accepted by the Allocation constructor *)
Theorem C10_extract_alloc_ok : forall sol eps tol t aeps die mods cells0,
  SolOK eps tol t die mods cells0 sol -> t <= 1 -> accepted aeps cells0 -> names_ok mods ->
  let rects := map crect cells0 in
  let out := extract_cells sol t mods rects in
  sublist (map crect out) rects /\
  (all_inside die rects -> all_inside die (map crect out)) /\
  (pairwise_no_ov rects -> pairwise_no_ov (map crect out)) /\
  no_ov_rects aeps (map crect out) /\
  ratios_in_unit out /\
  cell_sums_le (1 + tol) out /\
  (out <> [] -> accepted aeps out /\ extract_cells sol t mods rects = out /\
                mk_allocation aeps out = Some out).
Proof. exact extract_alloc_ok. Qed.
Print Assumptions C10_extract_alloc_ok.

(* fixed modules: their cells are returned with exactly {m: 1}; the module is returned unchanged *)
Theorem C10_extract_fixed : forall sol eps tol t die mods cells0 m,
  SolOK eps tol t die mods cells0 sol ->
  0 < t -> tol <= 1 - t ->
  names_ok mods -> In m mods -> mfixed m = true -> owns m cells0 ->
  owns m (extract_cells sol t mods (map crect cells0)) /\ extract_module sol m = Some m.
Proof. exact extract_fixed_thm. Qed.
Print Assumptions C10_extract_fixed.

(* recenter_rectangles: one translation vector for all rectangles, shapes kept, the
   area-weighted centroid becomes the module centre *)
Theorem C10_recenter_rigid : forall c rs rs', recenter c rs = Some rs' ->
  exists dx dy,
    rs' = map (translate dx dy) rs /\
    (forall r, cx (translate dx dy r) = cx r + dx /\ cy (translate dx dy r) = cy r + dy /\
               same_shape r (translate dx dy r)) /\
    rects_area rs' = rects_area rs /\ rects_area rs <> 0 /\
    centroid rs' = c.
Proof. exact recenter_rigid_thm. Qed.
Print Assumptions C10_recenter_rigid.

(* the flips: each axis is either left alone or mirrored about the module centre ... *)
Theorem C10_flip_mirror : forall sol m c rs,
  exists bx by_ : bool,
    flip sol m c rs = map (fun r => mirror_if_y by_ (snd c) (mirror_if_x bx (fst c) r)) rs.
Proof. exact flip_mirror_thm. Qed.
Print Assumptions C10_flip_mirror.

(* ... a mirror maps cx to 2c - cx, keeps the other coordinate and the shape, negates offsets *)
Theorem C10_mirror_x_spec : forall c r,
  cx (mirror_x c r) = c + c - cx r /\ cy (mirror_x c r) = cy r /\ same_shape r (mirror_x c r).
Proof. exact mirror_x_spec. Qed.
Print Assumptions C10_mirror_x_spec.
Theorem C10_mirror_y_spec : forall c r,
  cy (mirror_y c r) = c + c - cy r /\ cx (mirror_y c r) = cx r /\ same_shape r (mirror_y c r).
Proof. exact mirror_y_spec. Qed.
Print Assumptions C10_mirror_y_spec.
Theorem C10_mirror_x_offsets : forall c r s, cx (mirror_x c r) - cx (mirror_x c s) = - (cx r - cx s).
Proof. exact mirror_x_offsets. Qed.
Print Assumptions C10_mirror_x_offsets.
Theorem C10_mirror_y_offsets : forall c r s, cy (mirror_y c r) - cy (mirror_y c s) = - (cy r - cy s).
Proof. exact mirror_y_offsets. Qed.
Print Assumptions C10_mirror_y_offsets.

(* ... and the module centre stays the area-weighted centroid of the flipped rectangles *)
Theorem C10_flip_centroid : forall sol m c rs, rects_area rs <> 0 -> centroid rs = c ->
  centroid (flip sol m c rs) = c /\ rects_area (flip sol m c rs) = rects_area rs.
Proof. exact flip_centroid. Qed.
Print Assumptions C10_flip_centroid.

(* together: soft and fixed modules keep their rectangles; a movable hard module is translated
   or mirrored, never reshaped (rigid = same shapes, cx' = +-cx + dx, cy' = +-cy + dy) *)
Theorem C10_extract_module_rigid : forall sol m m', extract_module sol m = Some m' ->
  (mhard m && negb (mfixed m) = false -> mrects m' = mrects m) /\
  (mhard m && negb (mfixed m) = true ->
     rigid (mrects m) (mrects m') /\ centroid (mrects m') = mcenter m' /\ rects_area (mrects m') <> 0).
Proof. exact extract_module_rigid. Qed.
Print Assumptions C10_extract_module_rigid.

Theorem C10_centres_in_die : forall sol eps tol t die mods cells0 m m',
  SolOK eps tol t die mods cells0 sol ->
  In m mods -> (mfixed m = true -> in_box die (mcenter m)) ->
  extract_module sol m = Some m' -> in_box die (mcenter m').
Proof. exact centres_in_die_thm. Qed.
Print Assumptions C10_centres_in_die.

(* the centre the netlist computes for a fixed module lies in the die when its rectangles do *)
Theorem C10_centroid_in_box : forall die rs, rs <> [] ->
  Forall (fun r => wf r /\ is_inside r die = true) rs -> in_box die (centroid rs).
Proof. exact centroid_in_box. Qed.
Print Assumptions C10_centroid_in_box.

(* THE PROPERTY, conditional on the solver contract at every optimisation of the run
   (sol_ok_along), for every run of the loop that returns after at least one optimisation.
   The full statement, without that hypothesis, is C10_glb_statement below: it is not provable
   (it is false for a solver that answers with over-full cells). *)
Definition C10_glb_statement : Prop :=
  forall tol t aeps die solver fuel max_iter ms cells ms' cells',
  0 < t -> t <= 1 -> tol <= 1 - t -> max_iter <> Some 0%nat ->
  Inv aeps die ms ms cells ->
  glbfloor solver aeps t fuel max_iter ms cells = Finished ms' cells' ->
  GlbOK aeps tol die ms ms' cells'.

Theorem C10_glb_statement_refuted : ~ C10_glb_statement.
Proof. exact C10Example.unconditional_statement_refuted. Qed.
Print Assumptions C10_glb_statement_refuted.

Theorem C10_glb_partial : forall eps tol t aeps die solver fuel max_iter ms cells ms' cells',
  0 < t -> t <= 1 -> tol <= 1 - t ->
  max_iter <> Some 0%nat ->
  Inv aeps die ms ms cells ->
  sol_ok_along solver aeps t eps tol die fuel max_iter 1 ms cells ->
  glbfloor solver aeps t fuel max_iter ms cells = Finished ms' cells' ->
  GlbOK aeps tol die ms ms' cells'.
Proof. exact glb_partial. Qed.
Print Assumptions C10_glb_partial.

(* with an iteration limit k the loop returns or raises within k + 1 passes (fuel is then no
   restriction); nothing of the kind is proved for max_iter = None *)
Theorem C10_loop_bounded : forall solver aeps t k fuel n ms cells,
  (1 <= fuel)%nat -> (k + 2 <= fuel + n)%nat ->
  glb_loop solver aeps t fuel (Some k) n ms cells <> OutOfFuel.
Proof. exact glb_loop_bounded. Qed.
Print Assumptions C10_loop_bounded.

(* non-vacuity: a concrete instance (fixed + soft + flippable hard module) satisfies SolOK and the
   invariant, the loop returns on it, and the hypotheses of C10_glb_partial hold together *)
Theorem C10_solok_satisfiable :
  SolOK C10Example.eps C10Example.tol C10Example.t C10Example.die C10Example.mods C10Example.cells C10Example.sol.
Proof. exact C10Example.sol_ok. Qed.
Print Assumptions C10_solok_satisfiable.
Theorem C10_glb_partial_nonvacuous : exists ms' cells',
  glbfloor C10Example.solver C10Example.aeps C10Example.t 2 (Some 1%nat) C10Example.mods C10Example.cells
    = Finished ms' cells' /\
  GlbOK C10Example.aeps C10Example.tol C10Example.die C10Example.mods ms' cells'.
Proof. exact C10Example.glb_partial_applies. Qed.
Print Assumptions C10_glb_partial_nonvacuous.
