(* C09 - The legaliser's constraint system admits exactly the legal floorplans.
   Statements only; every proof is [exact <lemma>].

   build nl dw dh r      the named, grouped equations (lhs, cmp, rhs, hard) that
                         netlist_to_utils + Model(...) generate (Legal/Build.v; mirrors the
                         code repaired by fixes/C09-hard-fix-offsets.diff)
   met eps v q           Equation.is_equation_met at annealing slack eps under the
                         configuration v (Legal/Sem.v)
   Legal v d tau ...     v is a legal floorplan, every clause relaxed by d, overlaps admitted
                         up to the smoothing tolerance tau (Legal/Legal.v) *)
From Coq Require Import Reals List Bool.
From FrameModel Require Import Num.QcTac Legal.Syntax Legal.Build Legal.Sem Legal.LegalFacts Legal.Legal
  Legal.LegalIff Legal.LegalInput Legal.LegalExample Legal.Roles.
Import ListNotations.
Open Scope R_scope.

(* the aspect test thin(w,h) >= thin(r,1), thin(w,h) = w*h/(w*w+h*h), bounds the ratio by r *)
Theorem C09_thin_iff : forall w h r, 0 < w -> 0 < h -> 1 <= r ->
  (thinR w h >= thinR r 1 <-> w <= r * h /\ h <= r * w).
Proof. exact thin_iff. Qed.
Print Assumptions C09_thin_iff.

(* the smoothed maximum 0.5*(x+y+sqrt((x-y)^2+4 tau^2)) is non-negative iff x or y is, or
   their product is within tau^2: the documented smoothing tolerance made explicit *)
Theorem C09_smax_iff : forall x y t,
  (smaxR x y t >= 0 <-> x >= 0 \/ y >= 0 \/ x * y <= t * t).
Proof. exact smax_iff. Qed.
Print Assumptions C09_smax_iff.

(* ... and with the slack d of a soft equation *)
Theorem C09_smax_ge : forall x y t d,
  (smaxR x y t >= - d <-> x + d >= 0 \/ y + d >= 0 \/ (x + d) * (y + d) <= t * t).
Proof. exact smax_ge. Qed.
Print Assumptions C09_smax_ge.

(* x-separation measure of two rectangles: non-negative iff the centres are at least half the
   sum of the widths apart (the rectangles do not overlap in x) *)
Theorem C09_sep_x_iff : forall v m i n j, 0 <= W v m i + W v n j ->
  (sep_x v m i n j >= 0 <-> Rabs (X v m i - X v n j) >= (W v m i + W v n j) / 2).
Proof. exact sep_x_iff. Qed.
Print Assumptions C09_sep_x_iff.

(* per-group characterisations: each generated group is met iff its geometric clause holds,
   relaxed by eps + 1e-6 exactly as the code relaxes it *)
Theorem C09_bounds_group : forall eps v dw dh m i,
  Forall (met eps v) (bounds_eqs dw dh m i) <-> InsideDie v (eps + met_tol) (Qc2R dw) (Qc2R dh) m i.
Proof. exact bounds_met. Qed.
Print Assumptions C09_bounds_group.

Theorem C09_shapes_group : forall eps v r m i,
  met eps v (shape_eq r m i) <-> AspectOK v (eps + met_tol) (Qc2R r) m i.
Proof. exact shape_met. Qed.
Print Assumptions C09_shapes_group.

Theorem C09_area_group : forall eps v m c a,
  met eps v (area_eq m c a) <-> AreaOK v (eps + met_tol) (Qc2R a) m c.
Proof. exact area_met. Qed.
Print Assumptions C09_area_group.

Theorem C09_attach_group : forall eps v s m i,
  Forall (met eps v) (attach_eqs s m i) <-> Attached v (eps + met_tol) s m i.
Proof. exact attach_met. Qed.
Print Assumptions C09_attach_group.

Theorem C09_intra_group : forall eps v U m s,
  Forall (met eps v) (intra_side U m s) <->
  forall a b, In (a, b) (adjacent_pairs (sorted_side U s)) -> Before v (eps + met_tol) s m a b.
Proof. exact intra_side_met. Qed.
Print Assumptions C09_intra_group.

(* the pairs constrained are consecutive branches of the side in the order of their original
   coordinate (stable sort): distinct members of the side with non-decreasing keys *)
Theorem C09_intra_order : forall key l a b, NoDup l -> In (a, b) (adjacent_pairs (sort_by key l)) ->
  In a l /\ In b l /\ a <> b /\ (key a <= key b)%Qc.
Proof. exact sorted_pairs. Qed.
Print Assumptions C09_intra_order.

Theorem C09_inter_group : forall eps v tau m i n j,
  met eps v (inter_eq tau m i n j) <-> NoOverlap v (eps + met_tol) (Qc2R tau) m i n j.
Proof. exact inter_met. Qed.
Print Assumptions C09_inter_group.

Theorem C09_fix_group : forall eps v nl u m M, netlist_to_utils nl = Some u -> nth_error nl m = Some M ->
  (Forall (met eps v) (fix_mod u m (nrects (umod_of M))) <->
   (m_hard M = true -> Rigid v (eps + met_tol) (umod_of M) m) /\
   (m_fixed M = true -> InPlace v (eps + met_tol) (umod_of M) m)).
Proof. exact (fun eps v nl u m M Hu HM => fix_mod_met eps v nl u Hu m M HM). Qed.
Print Assumptions C09_fix_group.

(* MAIN: the generated system is satisfied by exactly the legal floorplans - every rectangle
   inside the die and within the aspect-ratio limit, every module at least its required area,
   branches attached to their trunk within its extent, same-side branches in their original
   order and not overlapping, no overlap between different modules up to tau, hard modules
   congruent to their original shape, fixed modules in place *)
Theorem C09_legal_iff : forall nl dw dh r eqs eps v,
  build nl dw dh r = Some eqs ->
  (Forall (met eps v) eqs <->
   Legal v (eps + met_tol) (Qc2R (tau_of dw dh (List.length nl))) (Qc2R dw) (Qc2R dh) (Qc2R r) nl).
Proof. exact legal_iff. Qed.
Print Assumptions C09_legal_iff.

(* the system exists for every netlist of single-trunk orthogons, and the roles are the ones
   create_stog assigned *)
Theorem C09_stog_builds : forall nl dw dh r, stog_netlist nl -> exists eqs, build nl dw dh r = Some eqs.
Proof. exact stog_netlist_builds. Qed.
Print Assumptions C09_stog_builds.

Theorem C09_legal_iff_stog : forall nl dw dh r eps v, stog_netlist nl ->
  exists eqs, build nl dw dh r = Some eqs /\
  (Forall (met eps v) eqs <->
   Legal v (eps + met_tol) (Qc2R (tau_of dw dh (List.length nl))) (Qc2R dw) (Qc2R dh) (Qc2R r) nl).
Proof. exact legal_iff_stog. Qed.
Print Assumptions C09_legal_iff_stog.

Theorem C09_stog_roles : forall M t rest, m_rects M = (LTrunk, t) :: rest ->
  Forall (fun p => is_side (fst p) = true) rest ->
  umod_of M = mkUmod t (pick LNorth rest) (pick LSouth rest) (pick LEast rest) (pick LWest rest).
Proof. exact umod_of_stog. Qed.
Print Assumptions C09_stog_roles.

(* more slack admits more: a crisply legal floorplan (d = 0) is legal at every slack *)
Theorem C09_legal_mono : forall v d d' tau dw dh r nl, d <= d' ->
  Legal v d tau dw dh r nl -> Legal v d' tau dw dh r nl.
Proof. exact Legal_mono. Qed.
Print Assumptions C09_legal_mono.

(* in particular the input configuration of an already legal floorplan satisfies the system,
   at every stage of the annealing *)
Theorem C09_legal_input : forall nl dw dh r eqs eps,
  1 <= Qc2R r -> 0 <= eps ->
  InputLegal (Qc2R dw) (Qc2R dh) (Qc2R r) nl ->
  build nl dw dh r = Some eqs ->
  Forall (met eps (input_env nl)) eqs.
Proof. exact legal_input. Qed.
Print Assumptions C09_legal_input.

(* the hypotheses are satisfiable: soft L-shape + hard trunk-with-branch (the F11 module) + fixed
   square in a 10x10 die, ratio limit 2; its 52 equations are met by its input *)
Theorem C09_example_input_legal : InputLegal (Qc2R ex_dw) (Qc2R ex_dh) (Qc2R ex_r) ex_nl.
Proof. exact ex_input_legal. Qed.
Print Assumptions C09_example_input_legal.

Theorem C09_example_input_met : forall eps, 0 <= eps -> exists eqs,
  build ex_nl ex_dw ex_dh ex_r = Some eqs /\ Forall (met eps (input_env ex_nl)) eqs.
Proof. exact ex_input_met. Qed.
Print Assumptions C09_example_input_met.

(* the ratio limit may be given as r or as 1/r, and thin is symmetric in its arguments *)
Theorem C09_thin_ratio_inverse : forall r, 0 < r -> thinR (1 / r) 1 = thinR r 1.
Proof. exact thin_ratio_inverse. Qed.
Print Assumptions C09_thin_ratio_inverse.
