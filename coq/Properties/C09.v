(* C09 - placeholder while the facts are being developed (replaced below) *)
From FrameModel Require Import Num.QcTac Legal.Syntax Legal.Build.
Theorem C09_placeholder : forall x y, eadd (Cst x) (Cst y) = Cst (x + y)%Qc.
Proof. exact (fun x y => eq_refl). Qed.
Print Assumptions C09_placeholder.
