(* placeholder until the theorems are proved: replaced below in this session *)
From FrameModel Require Import Num.QcTac Geometry.Rect Alloc.Alloc.
