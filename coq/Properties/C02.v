(* C02 - Refining an allocation conserves tiling, module area and centroid.
   Statements only; every proof is [exact <lemma>]. *)
From FrameModel Require Import Num.QcTac Geometry.Rect Alloc.Alloc Alloc.GeomExtra Alloc.RefinesFacts
  Alloc.AcceptFacts Alloc.OpsFacts Alloc.Thr Alloc.ThrFacts Alloc.Hist Alloc.HistFacts.
Open Scope list_scope.
Open Scope Qc_scope.

(* [refines cells cells'] (Alloc/RefinesFacts.v): cells' is cells with every cell replaced, in place,
   by pieces that (cell_refines) carry the same occupancy map and attributes, lie inside it, do not
   overlap each other, add up to its area and first moments, and are the cell itself when it is fixed. *)

(* every composition of refine / uniform_refinement_depth / griddify succeeds on an accepted
   allocation, yields an accepted allocation, and is a refinement of its argument *)
(* thresholds are what the code receives ([thr], Alloc/Thr.v: a finite value - [0,1] is where C02 quantifies -, but
   also +inf, -inf or a NaN: the statements hold for all of them); [xop_admissible]: levels > 0 *)
Theorem C02_run_ops_ok : forall eps aeps q ops, 0 <= aeps -> Forall xop_admissible ops ->
  forall cells, accepted aeps cells ->
  exists new, run_xops eps aeps q ops cells = Some new /\ refines cells new /\ accepted aeps new.
Proof. exact run_xops_ok. Qed.
Print Assumptions C02_run_ops_ok.

Theorem C02_refine_ok : forall aeps (t : thr) levels cells, 0 <= aeps -> (0 < levels)%nat -> accepted aeps cells ->
  exists new, refine_x aeps t levels cells = Some new /\ refines cells new /\ accepted aeps new.
Proof. exact refine_x_ok. Qed.
Print Assumptions C02_refine_ok.

(* on finite thresholds these are the functions of Alloc.v that the models of the callers use *)
Theorem C02_fin_run_ops : forall eps aeps q ops cells,
  run_xops eps aeps q (map xop_of_op ops) cells = run_ops eps aeps q ops cells.
Proof. exact run_xops_of_ops. Qed.
Print Assumptions C02_fin_run_ops.

Theorem C02_uniform_ok : forall aeps cells, 0 <= aeps -> accepted aeps cells ->
  exists new, uniform_refinement_depth aeps cells = Some new /\ refines cells new /\ accepted aeps new.
Proof. exact uniform_ok. Qed.
Print Assumptions C02_uniform_ok.

Theorem C02_griddify_ok : forall eps aeps q cells, 0 <= aeps -> accepted aeps cells ->
  exists new, griddify eps aeps q cells = Some new /\ refines cells new /\ accepted aeps new.
Proof. exact griddify_ok. Qed.
Print Assumptions C02_griddify_ok.

(* a refinement conserves every module's allocated area and centre of mass *)
Theorem C02_refines_area : forall m cells cells', refines cells cells' -> area_of m cells' = area_of m cells.
Proof. exact refines_area. Qed.
Print Assumptions C02_refines_area.

Theorem C02_refines_center : forall m cells cells', refines cells cells' -> center_of m cells' = center_of m cells.
Proof. exact refines_center. Qed.
Print Assumptions C02_refines_center.

(* the tiling, inheritance and fixed-cell clauses are the fields of cell_refines; restated *)
Theorem C02_refines_unfold : forall cells cells', refines cells cells' ->
  exists parts, cells' = List.concat parts /\
    Forall2 (fun c ps =>
      Forall (fun p => calloc p = calloc c /\ wf (crect p) /\ is_inside (crect p) (crect c) = true /\
                       same_attrs (crect c) (crect p)) ps /\
      pairwise_no_ov (map crect ps) /\
      Qcsum (map carea ps) = carea c /\
      (fixed (crect c) = true -> ps = [c])) cells parts.
Proof. exact refines_unfold. Qed.
Print Assumptions C02_refines_unfold.

(* pieces of different cells overlap no more than their parents did *)
Theorem C02_ov_mono : forall a b p q, is_inside a p = true -> is_inside b q = true ->
  area_overlap a b <= area_overlap p q.
Proof. exact ov_mono. Qed.
Print Assumptions C02_ov_mono.

(* ---- histories on shared objects (Alloc/Hist.v) ----
   A program may keep every allocation it has built, call any of them again (refine / uniform_refinement_depth /
   griddify / must_be_refined / max_refinement_depth / area / center, with any arguments), and set rect.fixed in
   place on a cell between two calls; allocations derived from one another may hold the same Rectangle object, so
   the flag may be seen by several of them.  [run_hist] is that program on the model: the state is the list of the
   allocations built so far (current values), every step is the value function of Alloc.v on the current values -
   nothing is remembered between calls.  Which allocations share an object is not part of C02: [HSetFixed] carries
   the flags observed after the assignment, the model accepts them if they are a possible outcome (the addressed
   cell carries the flag; a cell whose flag changed has the geometry of the addressed cell and carries the flag) and
   goes on from them.  [hvalid aeps s]: s has at least one allocation and all of them are accepted by the constructor.
   [event_ok eps aeps q (call, src, result)]: src - the values the target had when the call was made - is accepted,
   and: a refinement call returned [ONew (Some new)] with [run_op call src = Some new], [refines src new] and
   [accepted new] (the clauses of C02, with the fixed flags of that moment); a query returned the value function
   of Alloc.v on src. *)

(* setting fixed flags in place keeps an allocation accepted *)
Theorem C02_flag_rel_accepted : forall aeps l l',
  Forall2 (fun c c' => c' = c \/ exists b, c' = cset_fixed b c) l l' -> accepted aeps l -> accepted aeps l'.
Proof. exact flag_rel_accepted. Qed.
Print Assumptions C02_flag_rel_accepted.

(* every call of every history succeeds and is a refinement of what its target was at that moment *)
Theorem C02_run_hist_ok : forall eps aeps q ops, 0 <= aeps -> Forall hop_admissible ops ->
  forall s, hvalid aeps s ->
  hvalid aeps (fst (run_hist eps aeps q ops s)) /\ Forall (event_ok eps aeps q) (snd (run_hist eps aeps q ops s)).
Proof. exact run_hist_ok. Qed.
Print Assumptions C02_run_hist_ok.

Theorem C02_hist_ok : forall eps aeps q cells ops, 0 <= aeps -> accepted aeps cells -> Forall hop_admissible ops ->
  hist eps aeps q cells ops = Some (map snd (snd (run_hist eps aeps q ops (hinit cells)))) /\
  hvalid aeps (fst (run_hist eps aeps q ops (hinit cells))) /\
  Forall (event_ok eps aeps q) (snd (run_hist eps aeps q ops (hinit cells))).
Proof. exact hist_ok. Qed.
Print Assumptions C02_hist_ok.

(* c.rect.fixed = b, c the cell of A[k] with centre (x, y) (the position of a cell in the list is no part of the
   property; cells of an accepted allocation do not overlap, so the centre identifies the cell): whichever
   allocations share that Rectangle object, afterwards that cell of A[k] carries the flag b, and every cell of every
   allocation is as it was or - possibly, if it has the geometry of c - carries the flag b too ([set_rel]) *)
Theorem C02_hset_fixed_spec : forall eps aeps q s k x y b after s' fl,
  hstep eps aeps q (HSetFixed k x y b after) s = (s', OFixed fl) ->
  fl = hfixed s' /\
  exists c0 c1, find (at_centre x y) (hget s k) = Some c0 /\
    find (at_centre x y) (hget s' k) = Some c1 /\ fixed (crect c1) = b /\
    Forall2 (Forall2 (fun c c' => c' = c \/ (c' = cset_fixed b c /\ same_geom c0 c = true))) s s'.
Proof. exact hset_fixed_spec. Qed.
Print Assumptions C02_hset_fixed_spec.

(* ... and the next refinement call on that allocation, whatever it is and whatever was asked of the
   allocation before, hands that cell over whole *)
Theorem C02_set_fixed_true_not_cut : forall eps aeps q s k x y after o' s1 fl,
  0 <= aeps -> hvalid aeps s -> xop_admissible o' ->
  hstep eps aeps q (HSetFixed k x y true after) s = (s1, OFixed fl) ->
  exists c j new parts, nth_error (hget s1 k) j = Some c /\ at_centre x y c = true /\ fixed (crect c) = true /\
    snd (hstep eps aeps q (HApply k o') s1) = ONew (Some new) /\
    new = List.concat parts /\ Forall2 cell_refines (hget s1 k) parts /\ nth_error parts j = Some [c].
Proof. exact set_fixed_true_not_cut. Qed.
Print Assumptions C02_set_fixed_true_not_cut.
