(* C02 - Refining an allocation conserves tiling, module area and centroid.
   Statements only; every proof is [exact <lemma>]. *)
From FrameModel Require Import Num.QcTac Geometry.Rect Alloc.Alloc Alloc.GeomExtra Alloc.RefinesFacts
  Alloc.AcceptFacts Alloc.OpsFacts.
Open Scope list_scope.
Open Scope Qc_scope.

(* [refines cells cells'] (Alloc/RefinesFacts.v): cells' is cells with every cell replaced, in place,
   by pieces that (cell_refines) carry the same occupancy map and attributes, lie inside it, do not
   overlap each other, add up to its area and first moments, and are the cell itself when it is fixed. *)

(* every composition of refine / uniform_refinement_depth / griddify succeeds on an accepted
   allocation, yields an accepted allocation, and is a refinement of its argument *)
Theorem C02_run_ops_ok : forall eps aeps q ops, 0 <= aeps -> Forall op_admissible ops ->
  forall cells, accepted aeps cells ->
  exists new, run_ops eps aeps q ops cells = Some new /\ refines cells new /\ accepted aeps new.
Proof. exact run_ops_ok. Qed.
Print Assumptions C02_run_ops_ok.

Theorem C02_refine_ok : forall aeps t levels cells, 0 <= aeps -> (0 < levels)%nat -> accepted aeps cells ->
  exists new, refine aeps t levels cells = Some new /\ refines cells new /\ accepted aeps new.
Proof. exact refine_ok. Qed.
Print Assumptions C02_refine_ok.

Theorem C02_uniform_ok : forall aeps cells, 0 <= aeps -> accepted aeps cells ->
  exists new, uniform_refinement_depth aeps cells = Some new /\ refines cells new /\ accepted aeps new.
Proof. exact uniform_ok. Qed.
Print Assumptions C02_uniform_ok.

Theorem C02_griddify_ok : forall eps aeps q cells, 0 <= aeps -> accepted aeps cells ->
  exists new, griddify eps aeps q cells = Some new /\ refines cells new /\ accepted aeps new.
Proof. exact griddify_ok. Qed.
Print Assumptions C02_griddify_ok.

(* a refinement conserves every module's allocated area and centre of mass *)
Theorem C02_refines_area : forall m cells cells', refines cells cells' -> area_of m cells' = area_of m cells.
Proof. exact refines_area. Qed.
Print Assumptions C02_refines_area.

Theorem C02_refines_center : forall m cells cells', refines cells cells' -> center_of m cells' = center_of m cells.
Proof. exact refines_center. Qed.
Print Assumptions C02_refines_center.

(* the tiling, inheritance and fixed-cell clauses are the fields of cell_refines; restated *)
Theorem C02_refines_unfold : forall cells cells', refines cells cells' ->
  exists parts, cells' = List.concat parts /\
    Forall2 (fun c ps =>
      Forall (fun p => calloc p = calloc c /\ wf (crect p) /\ is_inside (crect p) (crect c) = true /\
                       same_attrs (crect c) (crect p)) ps /\
      pairwise_no_ov (map crect ps) /\
      Qcsum (map carea ps) = carea c /\
      (fixed (crect c) = true -> ps = [c])) cells parts.
Proof. exact refines_unfold. Qed.
Print Assumptions C02_refines_unfold.

(* pieces of different cells overlap no more than their parents did *)
Theorem C02_ov_mono : forall a b p q, is_inside a p = true -> is_inside b q = true ->
  area_overlap a b <= area_overlap p q.
Proof. exact ov_mono. Qed.
Print Assumptions C02_ov_mono.
