From Coq Require Import ZArith List Bool String.
From FrameModel Require Import PB.Expr PB.Cnf PB.Robdd PB.SatFacts0.
Theorem C07_gt0_refuted : exists i a, isclause_orig i = Tautology /\ ~ holds a i.
Proof. exact gt0_refuted. Qed.
Print Assumptions C07_gt0_refuted.
