From Coq Require Import ZArith List Bool String.
From FrameModel Require Import PB.Expr PB.Cnf PB.Robdd PB.RobddFacts.
Theorem C07_gt0_refuted : exists i a, Forall (fun t => (0 < tc t)%Z) (il i) /\ isclause_orig i = Tautology /\ ~ holds a i.
Proof. exact gt0_refuted. Qed.
Print Assumptions C07_gt0_refuted.
