(* C07 - SAT layer: every posted constraint is encoded exactly.
   Statements only; every proof is [exact <lemma>].  Model: PB/Cnf.v, Amo.v, Robdd.v,
   Codify.v, Sat.v (tools/rect/satmanager.py, Ineq.isclause / getrobdd / constructrobdd of
   tools/rect/pseudobool.py, with the isclause repair fixes/C07-isclause-gt0.diff). *)
From Coq Require Import ZArith List Bool String.
From FrameModel Require Import PB.Expr PB.Cnf PB.Amo PB.Robdd PB.Codify PB.Sat
  PB.AmoFacts PB.RobddFacts PB.CodifyFacts PB.SatFacts PB.SatSpan PB.Dag PB.DagPost PB.DagPostFacts.
Import ListNotations.
Local Open Scope nat_scope.

(* pairwise at-most-one: for every list (any length, repeated literals counted with
   multiplicity) the clauses hold exactly when at most one literal is true *)
Theorem C07_amo_quadratic : forall e l, sat e (quadratic l) <-> at_most_one e l.
Proof. exact amo_quadratic. Qed.
Print Assumptions C07_amo_quadratic.

(* chained at-most-one: every width k >= 3, every list, every value of the counter of
   auxiliary variables; the encoding is produced (the recursion terminates) and is exact
   on the user's variables *)
Theorem C07_amo_heule : forall k l aux a, 3 <= k -> user_lits l ->
  exists cs aux', heule (List.length l) k aux l = Some (cs, aux') /\
                  (ext a cs <-> at_most_one (uval a) l).
Proof. exact amo_heule. Qed.
Print Assumptions C07_amo_heule.

(* the clause shortcut of pseudoboolencoding (repaired test) *)
Theorem C07_isclause_exact : forall i a, Forall (fun t => (0 < tc t)%Z) (il i) ->
  match isclause i with
  | Tautology => holds a i
  | IsClause c => clause_val (uval a) c = true <-> holds a i
  | NotClause => True
  end.
Proof. exact isclause_exact. Qed.
Print Assumptions C07_isclause_exact.

(* the unrepaired test (rhs <= 0 for > as well) declares x + y > 0 a tautology *)
Theorem C07_gt0_refuted : exists i a,
  Forall (fun t => (0 < tc t)%Z) (il i) /\ isclause_orig i = Tautology /\ ~ holds a i.
Proof. exact gt0_refuted. Qed.
Print Assumptions C07_gt0_refuted.

(* both diagram constructions, from every well-formed store (whatever was built earlier):
   a result is produced; the store only grows and stays well formed; every old id keeps
   its denotation; the root is true exactly where the sum reaches the bound *)
Theorem C07_robdd_sem : forall dec i (m : memory) root m', mem_wf m -> Forall (fun t => (0 < tc t)%Z) (il i) ->
  getrobdd dec i m = Some (root, m') ->
  exists ex, m' = m ++ ex /\ mem_wf m' /\ valid m' root /\
    (forall id a, valid m id -> den m' a id = den m a id) /\
    (forall a, den m' a root = true <-> (tsum a (il i) >= ir i)%Z).
Proof. exact robdd_sem. Qed.
Print Assumptions C07_robdd_sem.

Theorem C07_getrobdd_total : forall dec i (m : memory), Forall (fun t => (0 < tc t)%Z) (il i) ->
  exists r, getrobdd dec i m = Some r.
Proof. exact getrobdd_total. Qed.
Print Assumptions C07_getrobdd_total.

(* _codifyrobdd from an empty manager *)
Theorem C07_codify_exact : forall (m : memory) root a, mem_wf m -> valid m root ->
  exists s', codify (S root) m root empty_mgr = Some s' /\
             (ext a (clauses s' ++ [[(Node root, true)]]) <-> den m a root = true).
Proof. exact codify_exact. Qed.
Print Assumptions C07_codify_exact.

(* ... and into a manager that already codified part of the diagram *)
Theorem C07_codify_exact_gen : forall (m : memory) root s s' a, mem_wf m -> cod_inv m s ->
  codify (S root) m root s = Some s' ->
  cod_inv m s' /\
  (forall e, extends e a -> sat e (clauses s' ++ [[(Node root, true)]]) -> den m a root = true) /\
  (forall aux, den m a root = true -> sat (canon m a aux) (clauses s) ->
               sat (canon m a aux) (clauses s' ++ [[(Node root, true)]])).
Proof. exact codify_exact_gen. Qed.
Print Assumptions C07_codify_exact_gen.

(* every sequence of posts from every well-formed initial store *)
Theorem C07_post_exact : forall (m0 : memory) ps, mem_wf m0 -> Forall post_ok ps ->
  exists m s sts, run_posts m0 empty_mgr ps = Some (m, s, sts) /\
    List.length sts = List.length ps /\
    forall a, ext a (clauses s) <-> accepted_hold a ps sts.
Proof. exact post_exact. Qed.
Print Assumptions C07_post_exact.

(* a manager that SPANS other managers' encodings: it posts ps1, the store then grows by ANY well-formed
   extension (C07_robdd_sem: that is what every encoding by whatever manager does to the store - [m' = m ++ ex],
   [mem_wf m']; no bound on its length), and it posts ps2: exactly the assignments that satisfy every accepted
   constraint of both extend *)
Theorem C07_post_span : forall (m0 : memory) ps1 ps2, mem_wf m0 -> Forall post_ok ps1 -> Forall post_ok ps2 ->
  exists m1 s1 sts1, run_posts m0 empty_mgr ps1 = Some (m1, s1, sts1) /\ List.length sts1 = List.length ps1 /\
    forall ex : memory, mem_wf (m1 ++ ex) ->
      exists m2 s2 sts2, run_posts (m1 ++ ex) s1 ps2 = Some (m2, s2, sts2) /\
        List.length sts2 = List.length ps2 /\
        forall a, ext a (clauses s2) <-> accepted_hold a ps1 sts1 /\ accepted_hold a ps2 sts2.
Proof. exact post_span. Qed.
Print Assumptions C07_post_span.

(* which posts are accepted, and which user assignments extend, does not depend on the store the posts start
   from (the harness runs the model from the empty store when the implementation's holds 10^3 .. 2^21 nodes) *)
Theorem C07_post_store_independent : forall (m0 m0' : memory) ps, mem_wf m0 -> mem_wf m0' -> Forall post_ok ps ->
  exists m s m' s' sts,
    run_posts m0 empty_mgr ps = Some (m, s, sts) /\ run_posts m0' empty_mgr ps = Some (m', s', sts) /\
    sts = map post_status ps /\
    forall a, ext a (clauses s) <-> ext a (clauses s').
Proof. exact post_store_independent. Qed.
Print Assumptions C07_post_store_independent.

(* both at once: two runs of "post ps1, the store grows, post ps2" from two arbitrary stores with two arbitrary
   growths (across any size) accept the same posts and admit the same user assignments *)
Theorem C07_post_span_store_independent : forall (m0 m0' : memory) ps1 ps2,
  mem_wf m0 -> mem_wf m0' -> Forall post_ok ps1 -> Forall post_ok ps2 ->
  exists m1 s1 m1' s1' sts1,
    run_posts m0 empty_mgr ps1 = Some (m1, s1, sts1) /\ run_posts m0' empty_mgr ps1 = Some (m1', s1', sts1) /\
    forall ex ex' : memory, mem_wf (m1 ++ ex) -> mem_wf (m1' ++ ex') ->
      exists m2 s2 m2' s2' sts2,
        run_posts (m1 ++ ex) s1 ps2 = Some (m2, s2, sts2) /\ run_posts (m1' ++ ex') s1' ps2 = Some (m2', s2', sts2) /\
        (forall a, ext a (clauses s2) <-> ext a (clauses s2')) /\
        (forall a, ext a (clauses s2) <-> accepted_hold a ps1 sts1 /\ accepted_hold a ps2 sts2).
Proof. exact post_span_store_independent. Qed.
Print Assumptions C07_post_span_store_independent.

(* C07_post_exact quantifies over EVERY well-formed store; the hypothesis is satisfiable at every size *)
Theorem C07_post_exact_any_size : forall n ps, Forall post_ok ps ->
  exists m0 : memory, List.length m0 = n /\ mem_wf m0 /\
    exists m s sts, run_posts m0 empty_mgr ps = Some (m, s, sts) /\
      forall a, ext a (clauses s) <-> accepted_hold a ps sts.
Proof. exact post_exact_any_size. Qed.
Print Assumptions C07_post_exact_any_size.

Theorem C07_refused_unchanged : forall (m : memory) s p m' s',
  run_post m s p = Some (m', s', Refused) -> m' = m /\ s' = s.
Proof. exact refused_unchanged. Qed.
Print Assumptions C07_refused_unchanged.

Theorem C07_refused_only : forall (m : memory) s p m' s',
  run_post m s p = Some (m', s', Refused) ->
  (exists k l, p = PAmoH k l /\ (k < 3)%Z) \/
  (exists i d, p = PIneq i d /\ isclause i = NotClause /\ is_ge (iop i) = false).
Proof. exact refused_only. Qed.
Print Assumptions C07_refused_only.

(* with any sound and complete solver in place of PySAT *)
Theorem C07_solve_exact : forall (sat_o : cnf -> option valuation),
  (forall f e, sat_o f = Some e -> sat e f) ->
  (forall f, sat_o f = None -> forall e, ~ sat e f) ->
  forall (m0 : memory) ps, mem_wf m0 -> Forall post_ok ps ->
    exists m s sts, run_posts m0 empty_mgr ps = Some (m, s, sts) /\
      ((exists e, solve sat_o s = Some e) <-> (exists a, accepted_hold a ps sts)) /\
      (forall e, solve sat_o s = Some e ->
         accepted_hold (user_part e) ps sts /\
         (forall x, evalexpr e x = eval (user_part e) x) /\
         (forall v b, value e (User v, b) = lit (user_part e) v b)).
Proof. exact solve_exact. Qed.
Print Assumptions C07_solve_exact.

(* ---- histories over shared objects (PB/Dag.v, PB/DagPost.v): the posted literals and
   inequalities are objects bound to names, reused, and derived from each other between the posts.
   [compile] succeeds exactly on the well-typed histories and lists the posts with the tree each
   posted inequality was built from; [accepted_direct] reads an inequality by DIRECT integer
   evaluation of the two sides as the user wrote them (not from the stored normal form) ---- *)
Theorem C07_dag_post_exact : forall (m0 : memory) ops cps vs trees, mem_wf m0 ->
  compile [] [] ops = Some (cps, vs, trees) ->
  exists m s sts, run_hist m0 empty_mgr [] ops = Some (m, s, vs, sts) /\
    List.length sts = List.length cps /\
    forall a, ext a (clauses s) <-> accepted_direct a cps sts.
Proof. exact dag_post_exact. Qed.
Print Assumptions C07_dag_post_exact.

(* with any sound and complete solver: satisfiable iff some assignment satisfies what the user
   wrote; the exposed model satisfies it; evalexpr of any bound expression object is the direct
   integer value of the tree that built it *)
Theorem C07_dag_solve_exact : forall (sat_o : cnf -> option valuation),
  (forall f e, sat_o f = Some e -> sat e f) ->
  (forall f, sat_o f = None -> forall e, ~ sat e f) ->
  forall (m0 : memory) ops cps vs trees, mem_wf m0 -> compile [] [] ops = Some (cps, vs, trees) ->
    exists m s sts, run_hist m0 empty_mgr [] ops = Some (m, s, vs, sts) /\
      ((exists e, solve sat_o s = Some e) <-> (exists a, accepted_direct a cps sts)) /\
      (forall e, solve sat_o s = Some e ->
         accepted_direct (user_part e) cps sts /\
         Forall2 (fun v t => forall x, v = VExpr x -> evalexpr e x = ueval (user_part e) t) vs trees).
Proof. exact dag_solve_exact. Qed.
Print Assumptions C07_dag_solve_exact.
