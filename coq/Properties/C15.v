(* C15 - Grid orthogon decomposition finds exactly the single-trunk decompositions.
   Statements only; every proof is [exact <lemma>]. *)
From Coq Require Import List Bool Arith.
From FrameModel Require Import Strop.Strop Strop.Spec Strop.StropBase Strop.StropFacts.
Import ListNotations.

(* Bounded completeness + soundness (finite domain stated in the theorem): for every
   0/1 matrix of every shape R x C with R, C >= 1 and R*C <= 16 (all 2^(R*C) matrices of
   each of the 50 shapes were evaluated), is_strop reports a decomposition exactly when
   the brute-force test finds one, exactly when any trunk T and branch list Bs with
   [decomp M T Bs] exist, and every offered instance is such a decomposition. *)
Theorem C15_strop_complete_bounded : forall R C M,
  1 <= R -> 1 <= C -> R * C <= 16 -> shape M R C ->
  (is_strop M = true <-> has_decomp M = true) /\
  (is_strop M = true <-> exists T Bs, decomp M T Bs) /\
  (forall inst, In inst (instances M) -> decomp M (trunk inst) (branches inst)).
Proof. exact strop_complete_bounded. Qed.
Print Assumptions C15_strop_complete_bounded.

(* the enumeration used by the sweep is complete, for every R and C *)
Theorem C15_all_matrices_complete : forall M R C, shape M R C -> In M (all_matrices R C).
Proof. exact all_matrices_complete. Qed.
Print Assumptions C15_all_matrices_complete.

(* for matrices of ANY size: whenever some trunk and branches decompose the grid, the
   brute-force existence test says so (so [has_decomp] is not weaker than [exists T Bs, decomp]) *)
Theorem C15_decomp_has_decomp : forall M T Bs, decomp M T Bs -> has_decomp M = true.
Proof. exact decomp_has_decomp. Qed.
Print Assumptions C15_decomp_has_decomp.

(* the boolean decomposition checker used by the sweep decides [decomp], for any size *)
Theorem C15_decomp_b_iff : forall M T Bs, decomp_b M T Bs = true <-> decomp M T Bs.
Proof. exact decomp_b_iff. Qed.
Print Assumptions C15_decomp_b_iff.
