(* C15 - Grid orthogon decomposition finds exactly the single-trunk decompositions.
   Statements only; every proof is [exact <lemma>]. *)
From Coq Require Import List Bool Arith.
From FrameModel Require Import Num.QcTac Geometry.Rect Stog.CreateStog Stog.StogFacts.
From FrameModel Require Import Strop.Strop Strop.Spec Strop.StropBase Strop.StropFacts
     Strop.StropComplete Strop.StropStog Strop.Polygon Strop.PolygonFacts Strop.PolygonForms Strop.Text.
Import ListNotations.
Open Scope nat_scope.

(* Bounded completeness + soundness (finite domain stated in the theorem): for every
   0/1 matrix of every shape R x C with R, C >= 1 and R*C <= 16 (all 2^(R*C) matrices of
   each of the 50 shapes were evaluated), is_strop reports a decomposition exactly when
   the brute-force test finds one, exactly when any trunk T and branch list Bs with
   [decomp M T Bs] exist, and every offered instance is such a decomposition. *)
Theorem C15_strop_complete_bounded : forall R C M,
  1 <= R -> 1 <= C -> R * C <= 16 -> shape M R C ->
  (is_strop M = true <-> has_decomp M = true) /\
  (is_strop M = true <-> exists T Bs, decomp M T Bs) /\
  (forall inst, In inst (instances M) -> decomp M (trunk inst) (branches inst)).
Proof. exact strop_complete_bounded. Qed.
Print Assumptions C15_strop_complete_bounded.

(* the enumeration used by the sweep is complete, for every R and C *)
Theorem C15_all_matrices_complete : forall M R C, shape M R C -> In M (all_matrices R C).
Proof. exact all_matrices_complete. Qed.
Print Assumptions C15_all_matrices_complete.

(* for matrices of ANY size: whenever some trunk and branches decompose the grid, the
   brute-force existence test says so (so [has_decomp] is not weaker than [exists T Bs, decomp]) *)
Theorem C15_decomp_has_decomp : forall M T Bs, decomp M T Bs -> has_decomp M = true.
Proof. exact decomp_has_decomp. Qed.
Print Assumptions C15_decomp_has_decomp.

(* the boolean decomposition checker used by the sweep decides [decomp], for any size *)
Theorem C15_decomp_b_iff : forall M T Bs, decomp_b M T Bs = true <-> decomp M T Bs.
Proof. exact decomp_b_iff. Qed.
Print Assumptions C15_decomp_b_iff.

(* Soundness for matrices of ANY size: every instance that Strop offers for a matrix its
   constructor accepts (at least one row and column, all rows of equal length) is a
   decomposition: trunk and branches are non-empty rectangles of the grid, every branch abuts
   the trunk on one side within the trunk's extent, and every cell of the grid is covered
   exactly once if it is true and not at all if it is false. *)
Theorem C15_strop_sound : forall M inst, wf_matrix M = true -> In inst (instances M) ->
  decomp M (trunk inst) (branches inst).
Proof. exact strop_sound. Qed.
Print Assumptions C15_strop_sound.

(* any size: a reported decomposition exists (the converse direction is the bounded theorem) *)
Theorem C15_strop_sound_exists : forall M, wf_matrix M = true -> is_strop M = true ->
  has_decomp M = true /\ exists T Bs, decomp M T Bs.
Proof. exact strop_sound_exists. Qed.
Print Assumptions C15_strop_sound_exists.

(* any size: the rectangles of an instance (trunk first) have as many cells as the matrix has ones *)
Theorem C15_strop_rects_area : forall M inst, wf_matrix M = true -> In inst (instances M) ->
  sum (map area (rectangles inst)) = num_cells M.
Proof. exact strop_rects_area. Qed.
Print Assumptions C15_strop_rects_area.

(* ... as do the rectangles of any decomposition whatsoever *)
Theorem C15_decomp_area : forall M T Bs, wf_matrix M = true -> decomp M T Bs ->
  sum (map area (T :: Bs)) = num_cells M.
Proof. exact decomp_area. Qed.
Print Assumptions C15_decomp_area.

(* ====================== completeness for matrices of ANY size ====================== *)
(* whenever some trunk T and branch list Bs decompose the grid (T need not be one of the
   candidates the code examines), Strop offers at least one instance *)
Theorem C15_strop_complete : forall M T Bs, wf_matrix M = true -> decomp M T Bs -> is_strop M = true.
Proof. exact strop_complete. Qed.
Print Assumptions C15_strop_complete.

(* ... and when the brute-force existence test succeeds *)
Theorem C15_strop_complete_has_decomp : forall M, wf_matrix M = true -> has_decomp M = true ->
  is_strop M = true.
Proof. exact strop_complete_has_decomp. Qed.
Print Assumptions C15_strop_complete_has_decomp.

(* "reports a decomposition exactly when one exists", every size *)
Theorem C15_strop_iff : forall M, wf_matrix M = true ->
  (is_strop M = true <-> has_decomp M = true) /\
  (is_strop M = true <-> exists T Bs, decomp M T Bs).
Proof. exact strop_iff. Qed.
Print Assumptions C15_strop_iff.

(* the statement of C15_strop_complete_bounded without its bound *)
Theorem C15_strop_complete_shape : forall R C M, 1 <= R -> 1 <= C -> shape M R C ->
  (is_strop M = true <-> has_decomp M = true) /\
  (is_strop M = true <-> exists T Bs, decomp M T Bs) /\
  (forall inst, In inst (instances M) -> decomp M (trunk inst) (branches inst)).
Proof. exact strop_complete_shape. Qed.
Print Assumptions C15_strop_complete_shape.

(* the hypotheses are satisfiable beyond the sweep's bound (30 cells); the decomposition trunk
   given here is not among the code's candidates, four others are offered *)
Example C15_strop_complete_ex :
  wf_matrix big_example = true /\
  decomp_b big_example (mkSR 1 3 2 3) [mkSR 0 0 2 3; mkSR 4 4 3 3; mkSR 1 1 1 1; mkSR 2 2 0 1;
                                       mkSR 3 3 1 1; mkSR 1 1 4 4; mkSR 2 2 4 5; mkSR 3 3 4 4] = true /\
  map trunk (instances big_example) = [mkSR 0 3 2 3; mkSR 0 4 3 3; mkSR 1 3 1 4; mkSR 2 2 0 5].
Proof. exact strop_complete_ex. Qed.

(* the key step, as a statement about the code's candidate table: a full rectangle whose rows
   are single runs and which cannot be extended by a full line on any side is returned by
   _get_trunks_matrix *)
Theorem C15_trunk_by_rows : forall M t,
  rlo t <= rhi t -> rhi t < List.length M -> clo t <= chi t ->
  (forall i j, rlo t <= i <= rhi t -> clo t <= j <= chi t -> cell M i j = true) ->
  (forall k, rlo t <= k <= rhi t -> rowconvex M k) ->
  (clo t = 0 \/ exists k, rlo t <= k <= rhi t /\ cell M k (clo t - 1) = false) ->
  (exists k, rlo t <= k <= rhi t /\ cell M k (S (chi t)) = false) ->
  (rlo t = 0 \/ exists j, clo t <= j <= chi t /\ cell M (rlo t - 1) j = false) ->
  (exists j, clo t <= j <= chi t /\ cell M (S (rhi t)) j = false) ->
  In t (get_trunks_matrix M).
Proof. exact trunk_by_rows. Qed.
Print Assumptions C15_trunk_by_rows.

(* ====================== strop_to_stog: recognised by C06's create_stog ====================== *)
Open Scope Qc_scope.

(* The rectangles of an offered instance (trunk first), placed on a grid with column
   boundaries X 0 < X 1 < ... and row boundaries Y 0 > Y 1 > ... (row 0 on top) whose columns
   and rows are at least d wide, with tolerances 0 < eps, eps + eps <= d, 0 <= aeps: position 0
   is a trunk in C06's coordinate sense, and the C06 model of create_stog answers true with a
   rectangle labelled TRUNK first and a side for every other rectangle. *)
Theorem C15_strop_to_stog : forall M inst (X Y : nat -> Qc) (d eps aeps : Qc),
  wf_matrix M = true -> In inst (instances M) ->
  (forall j, (j < ncols M)%nat -> X j + d <= X (S j)) ->
  (forall i, (i < nrows M)%nat -> Y (S i) + d <= Y i) ->
  0 < eps -> eps + eps <= d -> 0 <= aeps ->
  let rs := map (to_rect X Y) (rectangles inst) in
  is_stog_at eps aeps rs 0 (to_rect X Y (trunk inst)) /\
  exists t rest, create_stog eps aeps rs = Some (true, set_loc t TRUNK :: rest) /\
    Forall (fun r => rloc r <> NOPOLY /\ rloc r <> TRUNK /\ StogFacts.abuts eps aeps (rloc r) t r) rest.
Proof. exact strop_to_stog. Qed.
Print Assumptions C15_strop_to_stog.

(* the same with Strop's width / height lists (boundaries = prefix sums) *)
Theorem C15_strop_to_stog_widths : forall M inst (ws hs : list Qc) (x0 y0 d eps aeps : Qc),
  wf_matrix M = true -> In inst (instances M) ->
  List.length ws = ncols M -> List.length hs = nrows M ->
  Forall (fun w => d <= w) ws -> Forall (fun h => d <= h) hs ->
  0 < eps -> eps + eps <= d -> 0 <= aeps ->
  let rs := map (to_rect (xs_of x0 ws) (ys_of y0 hs)) (rectangles inst) in
  is_stog_at eps aeps rs 0 (to_rect (xs_of x0 ws) (ys_of y0 hs) (trunk inst)) /\
  exists t rest, create_stog eps aeps rs = Some (true, set_loc t TRUNK :: rest) /\
    Forall (fun r => rloc r <> NOPOLY /\ rloc r <> TRUNK /\ StogFacts.abuts eps aeps (rloc r) t r) rest.
Proof. exact strop_to_stog_widths. Qed.
Print Assumptions C15_strop_to_stog_widths.

(* any decomposition at all (not only the offered ones), trunk first, is a STOG in coordinates;
   only 0 < eps, 0 <= aeps and a positive minimal cell size are needed here *)
Theorem C15_decomp_is_stog : forall (X Y : nat -> Qc) (nr nc : nat) (d : Qc),
  (forall j, (j < nc)%nat -> X j + d <= X (S j)) ->
  (forall i, (i < nr)%nat -> Y (S i) + d <= Y i) -> 0 < d ->
  forall eps aeps : Qc, 0 < eps -> 0 <= aeps ->
  forall M T Bs, nrows M = nr -> ncols M = nc -> decomp M T Bs ->
  is_stog_at eps aeps (map (to_rect X Y) (T :: Bs)) 0 (to_rect X Y T).
Proof. exact decomp_is_stog. Qed.
Print Assumptions C15_decomp_is_stog.

(* ====================== polygon level (model Strop/Polygon.v) ====================== *)
(* every rectangle list the model of strop_decomposition(vertices) can return comes from an
   offered instance of the grid matrix and, loaded as coordinate rectangles, is recognised by
   the C06 model with the trunk first (d bounds the gaps of the coordinate lists from below) *)
Theorem C15_poly_to_stog : forall vs L l (d eps aeps : Qc),
  strop_decomposition_all vs = Some L -> In l L ->
  (forall j, (S j < List.length (x_coords vs))%nat ->
     nth j (x_coords vs) 0 + d <= nth (S j) (x_coords vs) 0) ->
  (forall i, (S i < List.length (y_coords vs))%nat ->
     nth (S i) (y_coords vs) 0 + d <= nth i (y_coords vs) 0) ->
  0 < eps -> eps + eps <= d -> 0 <= aeps ->
  exists inst, In inst (instances (grid_matrix vs)) /\
    l = map (rect4 (x_coords vs) (y_coords vs)) (rectangles inst) /\
    is_stog_at eps aeps (map rect_of4 l) 0 (rect_of4 (rect4 (x_coords vs) (y_coords vs) (trunk inst))) /\
    exists t rest, create_stog eps aeps (map rect_of4 l) = Some (true, set_loc t TRUNK :: rest) /\
      Forall (fun r => rloc r <> NOPOLY /\ rloc r <> TRUNK /\ StogFacts.abuts eps aeps (rloc r) t r) rest.
Proof. exact poly_to_stog. Qed.
Print Assumptions C15_poly_to_stog.

(* such a d always exists: sorted(set(...)) is strictly monotone *)
Theorem C15_poly_gaps : forall vs, exists d, 0 < d /\
  (forall j, (S j < List.length (x_coords vs))%nat ->
     nth j (x_coords vs) 0 + d <= nth (S j) (x_coords vs) 0) /\
  (forall i, (S i < List.length (y_coords vs))%nat ->
     nth (S i) (y_coords vs) 0 + d <= nth i (y_coords vs) 0).
Proof. exact poly_gaps. Qed.
Print Assumptions C15_poly_gaps.

(* the even-odd test on a rectangle outline, either orientation, is the half-open box test *)
Theorem C15_inside_rectangle : forall x0 x1 y0 y1 px py : Qc, x0 < x1 -> y0 < y1 ->
  point_inside (px, py) [(x0, y0); (x1, y0); (x1, y1); (x0, y1)] = in_box x0 x1 y0 y1 px py /\
  point_inside (px, py) [(x0, y1); (x1, y1); (x1, y0); (x0, y0)] = in_box x0 x1 y0 y1 px py.
Proof. exact inside_rectangle. Qed.
Print Assumptions C15_inside_rectangle.

(* hence for a rectangle: cell centre inside <-> cell inside, for every refining grid *)
Theorem C15_rectangle_cell_centre : forall x0 x1 y0 y1 a b c e : Qc,
  x0 < x1 -> y0 < y1 -> a < b -> c < e ->
  (x0 <= a -> b <= x1 -> y0 <= c -> e <= y1 ->
     point_inside (mid a b, mid c e) [(x0, y0); (x1, y0); (x1, y1); (x0, y1)] = true) /\
  (b <= x0 \/ x1 <= a \/ e <= y0 \/ y1 <= c ->
     point_inside (mid a b, mid c e) [(x0, y0); (x1, y0); (x1, y1); (x0, y1)] = false).
Proof. exact rectangle_cell_centre. Qed.
Print Assumptions C15_rectangle_cell_centre.

(* for ANY vertex list: the test depends neither on the orientation nor on the start vertex *)
Theorem C15_point_inside_rev : forall p vs, point_inside p (rev vs) = point_inside p vs.
Proof. exact point_inside_rev. Qed.
Print Assumptions C15_point_inside_rev.
Theorem C15_point_inside_shift : forall p l1 l2, point_inside p (l2 ++ l1) = point_inside p (l1 ++ l2).
Proof. exact point_inside_shift. Qed.
Print Assumptions C15_point_inside_shift.

(* ====================== every input form of the vertex list (model Strop/PolygonForms.v) ====================== *)
(* the whole decomposition (grid lines, cell matrix, instances, rectangles) depends only on the SET of
   vertices and on the parity test; the code performs no normalisation of the list and needs none: *)
Theorem C15_decomposition_ext : forall vs vs',
  (forall p, In p vs <-> In p vs') -> (forall p, point_inside p vs = point_inside p vs') ->
  strop_decomposition_all vs = strop_decomposition_all vs'.
Proof. exact decomposition_ext. Qed.
Print Assumptions C15_decomposition_ext.

(* other orientation *)
Theorem C15_decomposition_rev : forall vs, strop_decomposition_all (rev vs) = strop_decomposition_all vs.
Proof. exact decomposition_rev. Qed.
Print Assumptions C15_decomposition_rev.

(* other start vertex *)
Theorem C15_decomposition_shift : forall l1 l2,
  strop_decomposition_all (l2 ++ l1) = strop_decomposition_all (l1 ++ l2).
Proof. exact decomposition_shift. Qed.
Print Assumptions C15_decomposition_shift.

(* the list closed by repeating its first vertex *)
Theorem C15_decomposition_closed : forall v0 t,
  strop_decomposition_all ((v0 :: t) ++ [v0]) = strop_decomposition_all (v0 :: t).
Proof. exact decomposition_closed. Qed.
Print Assumptions C15_decomposition_closed.

(* Point objects, array rows (a 2-D array is the list of its rows) or a mixture: only the values count *)
Theorem C15_forms_irrelevant : forall vs vs' : list Vertex, map as_point vs = map as_point vs' ->
  decomposition_of_forms vs = decomposition_of_forms vs'.
Proof. exact forms_irrelevant. Qed.
Print Assumptions C15_forms_irrelevant.

Theorem C15_forms_orbit : forall l1 l2 : list Vertex,
  decomposition_of_forms (rev (l1 ++ l2)) = decomposition_of_forms (l1 ++ l2) /\
  decomposition_of_forms (l2 ++ l1) = decomposition_of_forms (l1 ++ l2).
Proof. exact decomposition_forms_orbit. Qed.
Print Assumptions C15_forms_orbit.

Example C15_forms_ex :
  decomposition_of_forms
    [VRow (qc 1 1) (qc 5 2); VRow (qc 1 1) (qc 1 1); VRow (qc 2 1) (qc 1 1); VPoint (qc 2 1) 0;
     VPoint 0 0; VRow 0 (qc 5 2); VRow (qc 1 1) (qc 5 2)] = strop_decomposition_all L_example.
Proof. exact forms_ex. Qed.

(* ====================== matrices given as text (model Strop/Text.v) ====================== *)
(* Strop(str_matrix) splits the text at whitespace (str.split()).  Whatever whitespace stands before the
   first row (lead, possibly none), after each row (seps: one run per row, non-empty except possibly the
   last), the constructor answers as on the matrix itself - so every theorem about [strop] / [instances]
   above holds for every accepted spelling.  Rows must be non-empty (an empty row cannot be spelled). *)
Theorem C15_text_spelling : forall (lead : Text) (M : BoolMatrix) (seps : list Text),
  blank lead -> Forall (fun row => row <> []) M -> List.length seps = List.length M -> seps_fit seps ->
  strop_text (spell lead M seps) = strop M.
Proof. exact strop_text_spelling. Qed.
Print Assumptions C15_text_spelling.

(* a character other than '0' / '1' in a row, or no row at all: refused (an assertion) *)
Theorem C15_text_nonbinary : forall s,
  existsb (existsb (fun c => negb (is_bit c))) (split s) = true -> strop_text s = None.
Proof. exact strop_text_nonbinary. Qed.
Print Assumptions C15_text_nonbinary.
Theorem C15_text_blank : forall s, blank s -> strop_text s = None.
Proof. exact strop_text_blank. Qed.
Print Assumptions C15_text_blank.

Example C15_text_ex :
  let M := [[true; false]; [true; true]; [false; true]] in
  (spell [9] M [[10]; [32; 32]; [32; 10]] = [9; 49; 48; 10; 49; 49; 32; 32; 48; 49; 32; 10])%N /\
  strop_text (spell [9%N] M [[10]; [32; 32]; [32; 10]]%N) = strop M /\
  strop_text (spell [] M [[10]; [10]; [10]]%N) = strop M /\
  strop_text [49; 50]%N = None /\ strop_text [32; 10]%N = None /\ strop_text [49; 32; 49; 49]%N = None.
Proof. exact spelling_ex. Qed.

(* worked examples: hypotheses of the implications above are satisfiable *)
Example C15_strop_to_stog_ex :
  let M := [[false; true; false; false]; [true; true; true; false];
            [false; true; true; true]; [false; false; true; false]] in
  let rs := map (to_rect (xs_of 0 [qc 1 1; qc 2 1; qc 1 2; qc 1 1]) (ys_of (qc 10 1) [qc 1 1; qc 3 1; qc 1 4; qc 2 1]))
                (List.concat (map rectangles (instances M))) in
  map trunk (instances M) = [mkSR 1 2 1 2] /\ List.length rs = 5%nat /\
  exists out, create_stog (qc 1 1024) (qc 1 1024) rs = Some (true, out) /\
              map rloc out = [TRUNK; NORTH; SOUTH; EAST; WEST].
Proof. exact strop_to_stog_ex. Qed.

Example C15_poly_ex :
  grid_matrix L_example = [[true; false]; [true; true]] /\
  exists l1 l2, strop_decomposition_all L_example = Some [l1; l2] /\
    map (fun l => option_map (fun x => (fst x, map rloc (snd x)))
                    (create_stog (qc 1 100) (qc 1 100) (map rect_of4 l))) [l1; l2] =
    [Some (true, [TRUNK; EAST]); Some (true, [TRUNK; NORTH])].
Proof. exact poly_ex. Qed.

(* Not proved in Coq (kept visible): "the resulting rectangles have the polygon's area" for
   every simple orthogonal polygon ([orthogonal], [simple], [shoelace] are defined in
   Strop/PolygonFacts.v).  It needs: cell centre inside by the even-odd rule <-> cell inside the
   polygon, a Jordan-curve argument; proved above for rectangle outlines only.  For single-trunk
   polygons it is explored by the correspondence (the model's rectangles equal the
   implementation's) and the oracle (shoelace area) on every run. *)
Definition C15_polygon_area_statement : Prop :=
  forall vs L l, orthogonal vs -> simple vs -> strop_decomposition_all vs = Some L -> In l L ->
    Qcsum (map rect4_area l) = shoelace vs.
(* it holds of the worked example *)
Example C15_polygon_area_ex : forall L l, strop_decomposition_all L_example = Some L -> In l L ->
  Qcsum (map rect4_area l) = shoelace L_example.
Proof. exact polygon_area_ex. Qed.
