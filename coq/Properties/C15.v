(* C15 - Grid orthogon decomposition finds exactly the single-trunk decompositions.
   Statements only; every proof is [exact <lemma>]. *)
From Coq Require Import List Bool Arith.
From FrameModel Require Import Strop.Strop Strop.Spec Strop.StropBase Strop.StropFacts.
Import ListNotations.

(* Bounded completeness + soundness (finite domain stated in the theorem): for every
   0/1 matrix of every shape R x C with R, C >= 1 and R*C <= 16 (all 2^(R*C) matrices of
   each of the 50 shapes were evaluated), is_strop reports a decomposition exactly when
   the brute-force test finds one, exactly when any trunk T and branch list Bs with
   [decomp M T Bs] exist, and every offered instance is such a decomposition. *)
Theorem C15_strop_complete_bounded : forall R C M,
  1 <= R -> 1 <= C -> R * C <= 16 -> shape M R C ->
  (is_strop M = true <-> has_decomp M = true) /\
  (is_strop M = true <-> exists T Bs, decomp M T Bs) /\
  (forall inst, In inst (instances M) -> decomp M (trunk inst) (branches inst)).
Proof. exact strop_complete_bounded. Qed.
Print Assumptions C15_strop_complete_bounded.

(* the enumeration used by the sweep is complete, for every R and C *)
Theorem C15_all_matrices_complete : forall M R C, shape M R C -> In M (all_matrices R C).
Proof. exact all_matrices_complete. Qed.
Print Assumptions C15_all_matrices_complete.

(* for matrices of ANY size: whenever some trunk and branches decompose the grid, the
   brute-force existence test says so (so [has_decomp] is not weaker than [exists T Bs, decomp]) *)
Theorem C15_decomp_has_decomp : forall M T Bs, decomp M T Bs -> has_decomp M = true.
Proof. exact decomp_has_decomp. Qed.
Print Assumptions C15_decomp_has_decomp.

(* the boolean decomposition checker used by the sweep decides [decomp], for any size *)
Theorem C15_decomp_b_iff : forall M T Bs, decomp_b M T Bs = true <-> decomp M T Bs.
Proof. exact decomp_b_iff. Qed.
Print Assumptions C15_decomp_b_iff.

(* Soundness for matrices of ANY size: every instance that Strop offers for a matrix its
   constructor accepts (at least one row and column, all rows of equal length) is a
   decomposition: trunk and branches are non-empty rectangles of the grid, every branch abuts
   the trunk on one side within the trunk's extent, and every cell of the grid is covered
   exactly once if it is true and not at all if it is false. *)
Theorem C15_strop_sound : forall M inst, wf_matrix M = true -> In inst (instances M) ->
  decomp M (trunk inst) (branches inst).
Proof. exact strop_sound. Qed.
Print Assumptions C15_strop_sound.

(* any size: a reported decomposition exists (the converse direction is the bounded theorem) *)
Theorem C15_strop_sound_exists : forall M, wf_matrix M = true -> is_strop M = true ->
  has_decomp M = true /\ exists T Bs, decomp M T Bs.
Proof. exact strop_sound_exists. Qed.
Print Assumptions C15_strop_sound_exists.

(* any size: the rectangles of an instance (trunk first) have as many cells as the matrix has ones *)
Theorem C15_strop_rects_area : forall M inst, wf_matrix M = true -> In inst (instances M) ->
  sum (map area (rectangles inst)) = num_cells M.
Proof. exact strop_rects_area. Qed.
Print Assumptions C15_strop_rects_area.

(* ... as do the rectangles of any decomposition whatsoever *)
Theorem C15_decomp_area : forall M T Bs, wf_matrix M = true -> decomp M T Bs ->
  sum (map area (T :: Bs)) = num_cells M.
Proof. exact decomp_area. Qed.
Print Assumptions C15_decomp_area.

(* Not proved in Coq (kept visible): completeness for matrices of every size, and the polygon
   level (cell centre inside the polygon by the even-odd rule <-> cell inside the polygon, for
   every simple orthogonal polygon), which is explored by the correspondence/oracle only. *)
Definition C15_strop_complete_statement : Prop :=
  forall M T Bs, wf_matrix M = true -> decomp M T Bs -> is_strop M = true.
