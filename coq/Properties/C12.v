(* C12 - Refinement decisions are consistent, exact and terminate.
   Statements only; every proof is [exact <lemma>]. *)
From FrameModel Require Import Num.QcTac Geometry.Rect Alloc.Alloc Alloc.GeomExtra Alloc.RefinesFacts
  Alloc.AcceptFacts Alloc.OpsFacts Alloc.DecisionFacts Alloc.GriddifyFacts Alloc.GriddifyPieceFacts Alloc.Thr Alloc.ThrFacts Alloc.Hist Alloc.HistFacts.
Open Scope list_scope.
Open Scope Qc_scope.

(* Thresholds are what the code receives: [t : thr] (Alloc/Thr.v) is a finite value, +inf, -inf or a NaN, and the only
   thing the code does with it is  x <= t  on a ratio x ([le_thr]: always true for +inf, always false for -inf and
   NaN).  A finite threshold [q : Qc] is read as [TFin q] (coercion).  On finite thresholds the functions below are,
   by computation, the functions of Alloc.v that the models of the callers use (theorems C12_fin_splittable, C12_fin_must_be_refined, C12_fin_refine). *)

(* must_be_refined(t) holds exactly when refining at t changes the allocation, for every threshold ... *)
Theorem C12_mbr_iff_changes : forall (t : thr) levels cells new, Forall (fun c => wf (crect c)) cells -> (0 < levels)%nat ->
  refine_cells_x t levels cells = Some new ->
  (must_be_refined_x t cells = true <-> new <> cells).
Proof. exact mbr_x_iff_changes. Qed.
Print Assumptions C12_mbr_iff_changes.

(* ... in terms of the public calls on an allocation the constructor accepts: refine(t, levels) returns, and returns
   something else than the cells it was given exactly when must_be_refined(t) ... *)
Theorem C12_refine_mbr_iff_changes : forall aeps (t : thr) levels cells, 0 <= aeps -> (0 < levels)%nat -> accepted aeps cells ->
  exists new, refine_x aeps t levels cells = Some new /\ (must_be_refined_x t cells = true <-> new <> cells).
Proof. exact refine_x_mbr_iff_changes. Qed.
Print Assumptions C12_refine_mbr_iff_changes.

(* ... when it holds the number of cells strictly grows (progress of the refine-while-needed loop) ... *)
Theorem C12_mbr_true_progress : forall (t : thr) levels cells new, Forall (fun c => wf (crect c)) cells -> (0 < levels)%nat ->
  must_be_refined_x t cells = true -> refine_cells_x t levels cells = Some new ->
  (List.length cells < List.length new)%nat.
Proof. exact mbr_x_true_progress. Qed.
Print Assumptions C12_mbr_true_progress.

(* ... and when it does not, refining is the identity (the loop stops) *)
Theorem C12_mbr_false_identity : forall (t : thr) levels cells,
  must_be_refined_x t cells = false -> refine_cells_x t levels cells = Some cells.
Proof. exact mbr_x_false_identity. Qed.
Print Assumptions C12_mbr_false_identity.

(* the loop  while a.must_be_refined(t): a = a.refine(t, levels)  followed for [fuel] rounds from an accepted
   allocation: it never raises; if it has stopped, nothing must be refined and refining is the identity; if it has
   not, every one of the [fuel] rounds added at least one cell - it never stalls on an unchanged allocation.
   (With refinement alone a selected cell stays selected - the pieces inherit its map - so the loop of a caller ends
   because the caller recomputes the ratios between two rounds, tools/glbfloor; what C12 promises is progress.) *)
Theorem C12_refine_loop_progress : forall aeps (t : thr) levels, 0 <= aeps -> (0 < levels)%nat ->
  forall fuel cells, accepted aeps cells ->
  match refine_loop fuel aeps t levels cells with
  | LoopDone out => accepted aeps out /\ must_be_refined_x t out = false /\ refines cells out /\
                    refine_x aeps t levels out = Some out
  | LoopRaised => False
  | LoopOutOfFuel out => accepted aeps out /\ refines cells out /\ (List.length cells + fuel <= List.length out)%nat
  end.
Proof. exact refine_loop_progress. Qed.
Print Assumptions C12_refine_loop_progress.

(* threshold refinement splits precisely the cells that are not fixed, non-empty and in which no
   module exceeds t: each into 2^levels cells of equal area obtained by the recursive halving of the
   longer side (split_alloc), depth raised by levels, same map; every other cell is left as it was *)
Theorem C12_refine_exact : forall (t : thr) levels cells new, Forall (fun c => wf (crect c)) cells ->
  refine_cells_x t levels cells = Some new ->
  exists parts, new = List.concat parts /\ Forall2 (refine_cell_spec_x t levels) cells parts.
Proof. exact refine_x_exact. Qed.
Print Assumptions C12_refine_exact.

(* the extreme thresholds, on an accepted allocation (ratios in [0, 1]): at +inf and at every finite t >= 1 (1, 2,
   1e308) exactly the refinable occupied cells are selected - an EMPTY cell is never selected and never makes
   must_be_refined true -; at -inf, at a NaN and at every t < 0 nothing is selected, must_be_refined is False and
   refine returns the cells it was given *)
Theorem C12_splittable_top : forall aeps cells c (t : thr), accepted aeps cells -> In c cells ->
  t = TPosInf \/ (exists q, t = TFin q /\ 1 <= q) -> splittable_x t c = occupied_refinable c.
Proof. exact splittable_x_top. Qed.
Print Assumptions C12_splittable_top.
Theorem C12_mbr_top : forall aeps cells (t : thr), accepted aeps cells -> t = TPosInf \/ (exists q, t = TFin q /\ 1 <= q) ->
  must_be_refined_x t cells = existsb occupied_refinable cells.
Proof. exact mbr_x_top. Qed.
Print Assumptions C12_mbr_top.
Theorem C12_mbr_bottom : forall aeps cells (t : thr) levels, accepted aeps cells ->
  t = TNegInf \/ t = TNan \/ (exists q, t = TFin q /\ q < 0) ->
  must_be_refined_x t cells = false /\ refine_cells_x t levels cells = Some cells.
Proof. exact mbr_x_bottom. Qed.
Print Assumptions C12_mbr_bottom.
Example C12_ex_empty_inf : accepted (qc 1 1024) ex_empty_cells /\
  must_be_refined_x TPosInf ex_empty_cells = false /\
  refine_x (qc 1 1024) TPosInf 16 ex_empty_cells = Some ex_empty_cells /\
  refine_loop 3 (qc 1 1024) TPosInf 1 ex_empty_cells = LoopDone ex_empty_cells /\
  must_be_refined_x TPosInf ex_cells = true /\ must_be_refined_x TNegInf ex_cells = false /\
  must_be_refined_x TNan ex_cells = false /\
  match refine_x (qc 1 1024) TPosInf 2 ex_cells with Some new => List.length new = 5%nat | None => False end.
Proof. exact ex_empty_inf. Qed.

(* finite thresholds: the extended functions are the functions of Alloc.v (used by the models of the callers) *)
Theorem C12_fin_splittable : forall (t : Qc) c, splittable_x (TFin t) c = splittable t c.
Proof. exact splittable_x_fin. Qed.
Print Assumptions C12_fin_splittable.
Theorem C12_fin_must_be_refined : forall (t : Qc) cells, must_be_refined_x (TFin t) cells = must_be_refined t cells.
Proof. exact must_be_refined_x_fin. Qed.
Print Assumptions C12_fin_must_be_refined.
Theorem C12_fin_refine : forall aeps (t : Qc) levels cells, refine_x aeps (TFin t) levels cells = refine aeps t levels cells.
Proof. exact refine_x_fin. Qed.
Print Assumptions C12_fin_refine.

(* one halving step of split_alloc cuts the longer side in two equal halves *)
Theorem C12_split_halves : forall r, wf r ->
  exists r1 r2, split r = Some (r1, r2) /\ tiles [r1; r2] r /\
    area r1 = area r * half /\ area r2 = area r * half /\
    same_attrs r r1 /\ same_attrs r r2 /\
    (rw r < rh r -> rw r1 = rw r /\ rw r2 = rw r /\ rh r1 = rh r * half /\ rh r2 = rh r * half) /\
    (rh r <= rw r -> rh r1 = rh r /\ rh r2 = rh r /\ rw r1 = rw r * half /\ rw r2 = rw r * half).
Proof. exact Geometry.SplitFacts.split_halves. Qed.
Print Assumptions C12_split_halves.

(* uniform-depth refinement: every refinable cell ends at the former maximum depth; fixed cells and
   cells already at that depth are left as they were *)
Theorem C12_uniform_exact : forall cells new, Forall (fun c => wf (crect c)) cells ->
  uniform_cells cells = Some new ->
  exists parts, new = List.concat parts /\ Forall2 (uniform_cell_spec (max_depth cells)) cells parts.
Proof. exact uniform_exact. Qed.
Print Assumptions C12_uniform_exact.

Theorem C12_uniform_all_at_max : forall cells new, Forall (fun c => wf (crect c)) cells ->
  uniform_cells cells = Some new ->
  Forall (fun p => fixed (crect p) = false -> cdepth p = max_depth cells) new.
Proof. exact uniform_all_at_max. Qed.
Print Assumptions C12_uniform_all_at_max.

(* grid refinement: in the result no refinable cell has a boundary line of an original cell strictly
   inside it unless cutting there was tried and refused on an ancestor of the cell (refused_x /
   refused_y: the cell, or a cell it was cut from, not fixed, with the line strictly inside and
   x_cuttable / y_cuttable false) *)
Theorem C12_griddify_aligned : forall eps q cells new,
  Forall (fun c => wf (crect c)) cells -> in_quadrant cells = true ->
  griddify_cells eps q cells = Some new ->
  let xc := fst (gather_boundaries eps (map crect cells)) in
  let yc := snd (gather_boundaries eps (map crect cells)) in
  Forall (fun f => fixed (crect f) = false ->
     (forall x, In x (interior xc) -> xmin (crect f) < x -> x < xmax (crect f) -> refused_x q x cells f) /\
     (forall y, In y (interior yc) -> ymin (crect f) < y -> y < ymax (crect f) -> refused_y q y cells f)) new.
Proof. exact griddify_aligned. Qed.
Print Assumptions C12_griddify_aligned.

(* ... and for the horizontal lines the 1% exception is measured against the PIECE: all x cuts are applied before the
   first y cut, so a boundary line y still strictly inside a refinable cell f of the result was tried and refused on
   a cell that contains f and has exactly the x extent of f (refused_y_piece) - one of the two pieces of that cut
   would have been no thicker than q times the width OF f, however wide the original cell was.  (A y line that is an
   exempt sliver of every original cell it crosses can be a due cut of a narrower piece; an implementation that
   selects the lines to try by looking at the original cells leaves it uncut and does not satisfy this.) *)
Theorem C12_griddify_aligned_piece : forall eps q cells new,
  Forall (fun c => wf (crect c)) cells -> in_quadrant cells = true ->
  griddify_cells eps q cells = Some new ->
  let yc := snd (gather_boundaries eps (map crect cells)) in
  Forall (fun f => fixed (crect f) = false ->
     forall y, In y (interior yc) -> ymin (crect f) < y -> y < ymax (crect f) -> refused_y_piece q y cells f) new.
Proof. exact griddify_aligned_piece. Qed.
Print Assumptions C12_griddify_aligned_piece.
Theorem C12_griddify_piece_sliver : forall eps q cells new,
  Forall (fun c => wf (crect c)) cells -> in_quadrant cells = true ->
  griddify_cells eps q cells = Some new ->
  Forall (fun f => fixed (crect f) = false ->
     forall y, In y (interior (snd (gather_boundaries eps (map crect cells)))) ->
       ymin (crect f) < y -> y < ymax (crect f) ->
       exists a, desc cells a /\ is_inside (crect f) (crect a) = true /\
         ymin (crect a) < y /\ y < ymax (crect a) /\
         (y - ymin (crect a) <= q * rw (crect f) \/ ymax (crect a) - y <= q * rw (crect f))) new.
Proof. exact griddify_piece_sliver. Qed.
Print Assumptions C12_griddify_piece_sliver.
(* the class is inhabited: in piece_layout (A = [0,128] x [0,8], B beside it defining y = 1, C above its left end defining
   x = 16) the line y = 1 is cuttable in no original cell, and griddify cuts the left piece [0,16] x [0,8] at y = 1 and
   leaves the right piece [16,128] x [0,8] whole: 5 cells *)
Example C12_ex_piece_layout :
  forallb (fun c => negb (y_cuttable (crect c) (qc 1 1) (qc 1 100))) piece_layout = true /\
  match griddify_cells (qc 1 1048576) (qc 1 100) piece_layout with
  | Some new => has_box 0 0 (qc 16 1) (qc 1 1) new && has_box 0 (qc 1 1) (qc 16 1) (qc 8 1) new &&
                has_box (qc 16 1) 0 (qc 128 1) (qc 8 1) new && Nat.eqb (List.length new) 5
  | None => false
  end = true.
Proof. exact piece_layout_cut. Qed.
(* "any non-overlapping cell layout": the theorems above do not ask the cells to tile their bounding box, and cells of one
   shape need not be aligned.  brick_layout = three 2 x 1 bricks at x in [0,2], [2,4] (bottom row) and [1,3] (row above):
   all cells have the same width and height, each is crossed through the middle by a side of another one, and griddify
   halves every one of them (six 1 x 1 cells at depth 1) - it is not the identity on equal-shaped cells *)
Example C12_ex_brick_layout :
  forallb (fun c => Qceqb (rw (crect c)) (qc 2 1) && Qceqb (rh (crect c)) (qc 1 1)) brick_layout = true /\
  match griddify_cells (qc 1 1048576) (qc 1 100) brick_layout with
  | Some new => has_box 0 0 (qc 1 1) (qc 1 1) new && has_box (qc 1 1) 0 (qc 2 1) (qc 1 1) new &&
                has_box (qc 2 1) 0 (qc 3 1) (qc 1 1) new && has_box (qc 3 1) 0 (qc 4 1) (qc 1 1) new &&
                has_box (qc 1 1) (qc 1 1) (qc 2 1) (qc 2 1) new && has_box (qc 2 1) (qc 1 1) (qc 3 1) (qc 2 1) new &&
                Nat.eqb (List.length new) 6 && forallb (fun c => Nat.eqb (cdepth c) 1) new
  | None => false
  end = true.
Proof. exact brick_layout_cut. Qed.

(* a refused cut strictly inside a cell is a sliver cut: one piece would be no thicker than q times
   the cell's other side *)
Theorem C12_refused_is_sliver_x : forall r x q, xmin r < x -> x < xmax r -> x_cuttable r x q = false ->
  x - xmin r <= q * rh r \/ xmax r - x <= q * rh r.
Proof. exact refused_is_sliver_x. Qed.
Print Assumptions C12_refused_is_sliver_x.

Theorem C12_refused_is_sliver_y : forall r y q, ymin r < y -> y < ymax r -> y_cuttable r y q = false ->
  y - ymin r <= q * rw r \/ ymax r - y <= q * rw r.
Proof. exact refused_is_sliver_y. Qed.
Print Assumptions C12_refused_is_sliver_y.

(* ---- the same decisions at every state of a history on shared objects (Alloc/Hist.v, see C02.v) ----
   [s] below is any valid state (all allocations built so far accepted); by C12_reach_valid that is every state
   reached from an accepted allocation by refinement calls, copies, queries and rect.fixed = b set in place
   (whichever allocations share the flagged Rectangle object). *)
Theorem C12_reach_valid : forall eps aeps q cells ops, 0 <= aeps -> accepted aeps cells -> Forall hop_admissible ops ->
  hvalid aeps (fst (run_hist eps aeps q ops (hinit cells))).
Proof. exact reach_valid. Qed.
Print Assumptions C12_reach_valid.

(* after any history, must_be_refined(t) on any allocation answers True exactly when refine(t, levels) on that
   allocation, called at that moment, returns something else than its current cells *)
Theorem C12_reach_mbr_iff_changes : forall eps aeps q cells ops k t levels,
  0 <= aeps -> accepted aeps cells -> Forall hop_admissible ops -> (0 < levels)%nat ->
  let s := fst (run_hist eps aeps q ops (hinit cells)) in
  exists new, snd (hstep eps aeps q (HApply k (XRefine t levels)) s) = ONew (Some new) /\
    (snd (hstep eps aeps q (HMbr k t) s) = OBool true <-> new <> hget s k).
Proof. exact reach_mbr_iff_changes. Qed.
Print Assumptions C12_reach_mbr_iff_changes.

Theorem C12_hist_mbr_iff_changes : forall eps aeps q s k t levels, 0 <= aeps -> hvalid aeps s -> (0 < levels)%nat ->
  exists new, snd (hstep eps aeps q (HApply k (XRefine t levels)) s) = ONew (Some new) /\
    (snd (hstep eps aeps q (HMbr k t) s) = OBool true <-> new <> hget s k).
Proof. exact hist_mbr_iff_changes. Qed.
Print Assumptions C12_hist_mbr_iff_changes.

(* the cells refine(t, levels) cuts are decided by the flags and maps of that moment *)
Theorem C12_hist_refine_exact : forall eps aeps q s k t levels, 0 <= aeps -> hvalid aeps s -> (0 < levels)%nat ->
  exists new parts, snd (hstep eps aeps q (HApply k (XRefine t levels)) s) = ONew (Some new) /\
    new = List.concat parts /\ Forall2 (refine_cell_spec_x t levels) (hget s k) parts.
Proof. exact hist_refine_exact. Qed.
Print Assumptions C12_hist_refine_exact.

(* what rect.fixed = b changes about the decision: a flagged cell is never selected; an unflagged one is selected
   iff it is occupied and no ratio exceeds t *)
Theorem C12_splittable_set_fixed_true : forall (t : thr) c, splittable_x t (cset_fixed true c) = false.
Proof. exact splittable_set_fixed_true. Qed.
Print Assumptions C12_splittable_set_fixed_true.
Theorem C12_splittable_set_fixed_false : forall (t : thr) c,
  splittable_x t (cset_fixed false c) = negb (is_empty (calloc c)) && forallb (fun p => le_thr (snd p) t) (calloc c).
Proof. exact splittable_set_fixed_false. Qed.
Print Assumptions C12_splittable_set_fixed_false.

Theorem C12_hist_uniform_all_at_max : forall eps aeps q s k, 0 <= aeps -> hvalid aeps s ->
  exists new, snd (hstep eps aeps q (HApply k XUniform) s) = ONew (Some new) /\
    Forall (fun p => fixed (crect p) = false -> cdepth p = max_depth (hget s k)) new.
Proof. exact hist_uniform_all_at_max. Qed.
Print Assumptions C12_hist_uniform_all_at_max.

Theorem C12_hist_griddify_aligned : forall eps aeps q s k, 0 <= aeps -> hvalid aeps s ->
  let cells := hget s k in
  let xc := fst (gather_boundaries eps (map crect cells)) in
  let yc := snd (gather_boundaries eps (map crect cells)) in
  exists new, snd (hstep eps aeps q (HApply k XGriddify) s) = ONew (Some new) /\
    Forall (fun f => fixed (crect f) = false ->
      (forall x, In x (interior xc) -> xmin (crect f) < x -> x < xmax (crect f) -> refused_x q x cells f) /\
      (forall y, In y (interior yc) -> ymin (crect f) < y -> y < ymax (crect f) -> refused_y q y cells f)) new.
Proof. exact hist_griddify_aligned. Qed.
Print Assumptions C12_hist_griddify_aligned.
