(* C12 - Refinement decisions are consistent, exact and terminate.
   Statements only; every proof is [exact <lemma>]. *)
From FrameModel Require Import Num.QcTac Geometry.Rect Alloc.Alloc Alloc.GeomExtra Alloc.RefinesFacts
  Alloc.AcceptFacts Alloc.OpsFacts Alloc.DecisionFacts Alloc.GriddifyFacts Alloc.Hist Alloc.HistFacts.
Open Scope list_scope.
Open Scope Qc_scope.

(* must_be_refined(t) holds exactly when refining at t changes the allocation ... *)
Theorem C12_mbr_iff_changes : forall t levels cells new, Forall (fun c => wf (crect c)) cells -> (0 < levels)%nat ->
  refine_cells t levels cells = Some new ->
  (must_be_refined t cells = true <-> new <> cells).
Proof. exact mbr_iff_changes. Qed.
Print Assumptions C12_mbr_iff_changes.

(* ... when it holds the number of cells strictly grows (progress of the refine-while-needed loop) ... *)
Theorem C12_mbr_true_progress : forall t levels cells new, Forall (fun c => wf (crect c)) cells -> (0 < levels)%nat ->
  must_be_refined t cells = true -> refine_cells t levels cells = Some new ->
  (List.length cells < List.length new)%nat.
Proof. exact mbr_true_progress. Qed.
Print Assumptions C12_mbr_true_progress.

(* ... and when it does not, refining is the identity (the loop stops) *)
Theorem C12_mbr_false_identity : forall t levels cells,
  must_be_refined t cells = false -> refine_cells t levels cells = Some cells.
Proof. exact mbr_false_identity. Qed.
Print Assumptions C12_mbr_false_identity.

(* threshold refinement splits precisely the cells that are not fixed, non-empty and in which no
   module exceeds t: each into 2^levels cells of equal area obtained by the recursive halving of the
   longer side (split_alloc), depth raised by levels, same map; every other cell is left as it was *)
Theorem C12_refine_exact : forall t levels cells new, Forall (fun c => wf (crect c)) cells ->
  refine_cells t levels cells = Some new ->
  exists parts, new = List.concat parts /\ Forall2 (refine_cell_spec t levels) cells parts.
Proof. exact refine_exact. Qed.
Print Assumptions C12_refine_exact.

(* one halving step of split_alloc cuts the longer side in two equal halves *)
Theorem C12_split_halves : forall r, wf r ->
  exists r1 r2, split r = Some (r1, r2) /\ tiles [r1; r2] r /\
    area r1 = area r * half /\ area r2 = area r * half /\
    same_attrs r r1 /\ same_attrs r r2 /\
    (rw r < rh r -> rw r1 = rw r /\ rw r2 = rw r /\ rh r1 = rh r * half /\ rh r2 = rh r * half) /\
    (rh r <= rw r -> rh r1 = rh r /\ rh r2 = rh r /\ rw r1 = rw r * half /\ rw r2 = rw r * half).
Proof. exact Geometry.SplitFacts.split_halves. Qed.
Print Assumptions C12_split_halves.

(* uniform-depth refinement: every refinable cell ends at the former maximum depth; fixed cells and
   cells already at that depth are left as they were *)
Theorem C12_uniform_exact : forall cells new, Forall (fun c => wf (crect c)) cells ->
  uniform_cells cells = Some new ->
  exists parts, new = List.concat parts /\ Forall2 (uniform_cell_spec (max_depth cells)) cells parts.
Proof. exact uniform_exact. Qed.
Print Assumptions C12_uniform_exact.

Theorem C12_uniform_all_at_max : forall cells new, Forall (fun c => wf (crect c)) cells ->
  uniform_cells cells = Some new ->
  Forall (fun p => fixed (crect p) = false -> cdepth p = max_depth cells) new.
Proof. exact uniform_all_at_max. Qed.
Print Assumptions C12_uniform_all_at_max.

(* grid refinement: in the result no refinable cell has a boundary line of an original cell strictly
   inside it unless cutting there was tried and refused on an ancestor of the cell (refused_x /
   refused_y: the cell, or a cell it was cut from, not fixed, with the line strictly inside and
   x_cuttable / y_cuttable false) *)
Theorem C12_griddify_aligned : forall eps q cells new,
  Forall (fun c => wf (crect c)) cells -> in_quadrant cells = true ->
  griddify_cells eps q cells = Some new ->
  let xc := fst (gather_boundaries eps (map crect cells)) in
  let yc := snd (gather_boundaries eps (map crect cells)) in
  Forall (fun f => fixed (crect f) = false ->
     (forall x, In x (interior xc) -> xmin (crect f) < x -> x < xmax (crect f) -> refused_x q x cells f) /\
     (forall y, In y (interior yc) -> ymin (crect f) < y -> y < ymax (crect f) -> refused_y q y cells f)) new.
Proof. exact griddify_aligned. Qed.
Print Assumptions C12_griddify_aligned.

(* a refused cut strictly inside a cell is a sliver cut: one piece would be no thicker than q times
   the cell's other side *)
Theorem C12_refused_is_sliver_x : forall r x q, xmin r < x -> x < xmax r -> x_cuttable r x q = false ->
  x - xmin r <= q * rh r \/ xmax r - x <= q * rh r.
Proof. exact refused_is_sliver_x. Qed.
Print Assumptions C12_refused_is_sliver_x.

Theorem C12_refused_is_sliver_y : forall r y q, ymin r < y -> y < ymax r -> y_cuttable r y q = false ->
  y - ymin r <= q * rw r \/ ymax r - y <= q * rw r.
Proof. exact refused_is_sliver_y. Qed.
Print Assumptions C12_refused_is_sliver_y.

(* ---- the same decisions at every state of a history on shared objects (Alloc/Hist.v, see C02.v) ----
   [s] below is any valid state (all allocations built so far accepted); by C12_reach_valid that is every state
   reached from an accepted allocation by refinement calls, copies, queries and rect.fixed = b set in place
   (whichever allocations share the flagged Rectangle object). *)
Theorem C12_reach_valid : forall eps aeps q cells ops, 0 <= aeps -> accepted aeps cells -> Forall hop_admissible ops ->
  hvalid aeps (fst (run_hist eps aeps q ops (hinit cells))).
Proof. exact reach_valid. Qed.
Print Assumptions C12_reach_valid.

(* after any history, must_be_refined(t) on any allocation answers True exactly when refine(t, levels) on that
   allocation, called at that moment, returns something else than its current cells *)
Theorem C12_reach_mbr_iff_changes : forall eps aeps q cells ops k t levels,
  0 <= aeps -> accepted aeps cells -> Forall hop_admissible ops -> (0 < levels)%nat ->
  let s := fst (run_hist eps aeps q ops (hinit cells)) in
  exists new, snd (hstep eps aeps q (HApply k (OpRefine t levels)) s) = ONew (Some new) /\
    (snd (hstep eps aeps q (HMbr k t) s) = OBool true <-> new <> hget s k).
Proof. exact reach_mbr_iff_changes. Qed.
Print Assumptions C12_reach_mbr_iff_changes.

Theorem C12_hist_mbr_iff_changes : forall eps aeps q s k t levels, 0 <= aeps -> hvalid aeps s -> (0 < levels)%nat ->
  exists new, snd (hstep eps aeps q (HApply k (OpRefine t levels)) s) = ONew (Some new) /\
    (snd (hstep eps aeps q (HMbr k t) s) = OBool true <-> new <> hget s k).
Proof. exact hist_mbr_iff_changes. Qed.
Print Assumptions C12_hist_mbr_iff_changes.

(* the cells refine(t, levels) cuts are decided by the flags and maps of that moment *)
Theorem C12_hist_refine_exact : forall eps aeps q s k t levels, 0 <= aeps -> hvalid aeps s -> (0 < levels)%nat ->
  exists new parts, snd (hstep eps aeps q (HApply k (OpRefine t levels)) s) = ONew (Some new) /\
    new = List.concat parts /\ Forall2 (refine_cell_spec t levels) (hget s k) parts.
Proof. exact hist_refine_exact. Qed.
Print Assumptions C12_hist_refine_exact.

(* what rect.fixed = b changes about the decision: a flagged cell is never selected; an unflagged one is selected
   iff it is occupied and no ratio exceeds t *)
Theorem C12_splittable_set_fixed_true : forall t c, splittable t (cset_fixed true c) = false.
Proof. exact splittable_set_fixed_true. Qed.
Print Assumptions C12_splittable_set_fixed_true.
Theorem C12_splittable_set_fixed_false : forall t c,
  splittable t (cset_fixed false c) = negb (is_empty (calloc c)) && forallb (fun p => Qcleb (snd p) t) (calloc c).
Proof. exact splittable_set_fixed_false. Qed.
Print Assumptions C12_splittable_set_fixed_false.

Theorem C12_hist_uniform_all_at_max : forall eps aeps q s k, 0 <= aeps -> hvalid aeps s ->
  exists new, snd (hstep eps aeps q (HApply k OpUniform) s) = ONew (Some new) /\
    Forall (fun p => fixed (crect p) = false -> cdepth p = max_depth (hget s k)) new.
Proof. exact hist_uniform_all_at_max. Qed.
Print Assumptions C12_hist_uniform_all_at_max.

Theorem C12_hist_griddify_aligned : forall eps aeps q s k, 0 <= aeps -> hvalid aeps s ->
  let cells := hget s k in
  let xc := fst (gather_boundaries eps (map crect cells)) in
  let yc := snd (gather_boundaries eps (map crect cells)) in
  exists new, snd (hstep eps aeps q (HApply k OpGriddify) s) = ONew (Some new) /\
    Forall (fun f => fixed (crect f) = false ->
      (forall x, In x (interior xc) -> xmin (crect f) < x -> x < xmax (crect f) -> refused_x q x cells f) /\
      (forall y, In y (interior yc) -> ymin (crect f) < y -> y < ymax (crect f) -> refused_y q y cells f)) new.
Proof. exact hist_griddify_aligned. Qed.
Print Assumptions C12_hist_griddify_aligned.
