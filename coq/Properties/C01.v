(* C01 - Die decomposition is an exact tiling of the die.
   Statements only; every proof is [exact <lemma>].
   Model: Die/Boundaries.v (gather_boundaries), Cells.v (occupancy by cell centre), Cover.v
   (relational cover: checker is_cover + the model's greedy_cover), DieModel.v (parser,
   constructor, repaired _check_rectangles).  Tolerances eps/aeps/deps/tin are parameters. *)
From Coq Require Import Permutation.
From FrameModel Require Import Num.QcTac Geometry.Rect Cases.CmpC01
  Die.Boundaries Die.BoundariesFacts Die.Cells Die.Cover Die.CoverFacts Die.GridFacts Die.HananFacts
  Die.DieModel Die.DieFacts Die.DieExample Die.DieInput Die.DieInputFacts Die.NetHistory Die.NetHistoryFacts.
From Coq Require Import Ascii String.
Open Scope string_scope.
Open Scope list_scope.
Open Scope Qc_scope.

(* (i) the checker applied to the implementation's ground list is sound: the accepted
   index-rectangles lie in the matrix, contain only free cells, are pairwise disjoint and
   every free cell is in exactly one of them (count_in = 1 on free cells, 0 elsewhere) *)
Theorem C01_cover_sound : forall nr nc occ gs, is_cover nr nc occ gs = true ->
  Forall (fun g => ir_ok nr nc g = true) gs /\
  (forall g r c, In g gs -> in_ir g r c = true -> (r < nr)%nat /\ (c < nc)%nat /\ occ r c = false) /\
  ForallOrdPairs ir_disjoint gs /\
  (forall r c, (r < nr)%nat -> (c < nc)%nat -> occ r c = false -> exists g, In g gs /\ in_ir g r c = true) /\
  (forall r c, count_in r c gs = if is_free nr nc occ r c then 1%nat else 0%nat).
Proof. exact cover_sound. Qed.
Print Assumptions C01_cover_sound.

(* (ii) a cover always exists: the largest-first greedy cover passes the checker, for every
   occupancy matrix of every size and every weight function; each step takes a largest
   rectangle of free cells *)
Theorem C01_greedy_is_cover : forall w nr nc occ, is_cover nr nc occ (greedy_cover w nr nc occ) = true.
Proof. exact greedy_is_cover. Qed.
Print Assumptions C01_greedy_is_cover.

Theorem C01_greedy_takes_largest : forall w nr nc fuel occ g rest,
  greedy w nr nc occ fuel = g :: rest ->
  ir_ok nr nc g = true /\ all_free occ g = true /\
  forall h, ir_ok nr nc h = true -> all_free occ h = true -> w h <= w g.
Proof. exact greedy_takes_largest. Qed.
Print Assumptions C01_greedy_takes_largest.

(* gather_boundaries: always strictly increasing; for eps-separated coordinates exactly the
   distinct coordinates *)
Theorem C01_boundaries : forall eps coords, 0 <= eps ->
  incr (dedup eps (sort coords)) /\
  (sep eps coords -> forall v, In v (dedup eps (sort coords)) <-> In v coords).
Proof. exact boundaries_spec. Qed.
Print Assumptions C01_boundaries.

(* (iii) grid geometry: the cells of two strictly increasing boundary lists tile the grid's
   rectangle; more generally index-rectangles containing every cell exactly once do, and the
   area of an index-rectangle of cells is the sum of the areas of its cells *)
Theorem C01_cells_tile_grid : forall xs ys nr nc t,
  incr xs -> incr ys -> nc = (List.length xs - 1)%nat -> nr = (List.length ys - 1)%nat ->
  (1 <= nr)%nat -> (1 <= nc)%nat ->
  tiles (map (fun g => sp xs ys g t) (cell_cover nr nc (fun _ _ => false)))
        (span_rect xs ys 0 (nr - 1) 0 (nc - 1) t).
Proof. exact cells_tile_grid. Qed.
Print Assumptions C01_cells_tile_grid.

Theorem C01_irects_tile : forall xs ys nr nc (L : list irect) (tag : irect -> string) (t0 : string),
  incr xs -> incr ys -> nc = (List.length xs - 1)%nat -> nr = (List.length ys - 1)%nat ->
  (1 <= nr)%nat -> (1 <= nc)%nat ->
  Forall (fun g => ir_ok nr nc g = true) L ->
  (forall r c, count_in r c L = if in_grid_b nr nc r c then 1%nat else 0%nat) ->
  tiles (map (fun g => sp xs ys g (tag g)) L) (span_rect xs ys 0 (nr - 1) 0 (nc - 1) t0).
Proof. exact irects_tile. Qed.
Print Assumptions C01_irects_tile.

Theorem C01_span_area : forall xs ys g t, (rlo g <= rhi g)%nat -> (clo g <= chi g)%nat ->
  area (sp xs ys g t) = Qcsum (map (cell_area xs ys) (ir_cells g)).
Proof. exact sp_area. Qed.
Print Assumptions C01_span_area.

(* (iv) Hanan grid: for a rectangle whose sides are grid lines, the centre of a cell is
   point_inside it iff the whole cell is inside it; its area is the sum of its cells *)
Theorem C01_hanan_cell : forall xs ys nr nc, incr xs -> incr ys ->
  nc = (List.length xs - 1)%nat -> nr = (List.length ys - 1)%nat ->
  forall r, wf r -> on_grid xs ys r -> forall i j t, (i < nr)%nat -> (j < nc)%nat ->
  (point_inside r (centre xs j) (centre ys i) = true <->
   is_inside (sp xs ys (mkIR i i j j) t) r = true).
Proof. exact hanan_cell. Qed.
Print Assumptions C01_hanan_cell.

Theorem C01_hanan_area : forall xs ys nr nc, incr xs -> incr ys ->
  nc = (List.length xs - 1)%nat -> nr = (List.length ys - 1)%nat ->
  forall r, wf r -> on_grid xs ys r ->
  area r = Qcsum (map (cell_area xs ys) (ir_cells (input_ir xs ys r))).
Proof. exact hanan_area. Qed.
Print Assumptions C01_hanan_area.

(* (v) a valid, eps-separated description + ANY cover accepted by the checker: the reported
   regions tile the die, every input region is reported unchanged, ground regions carry "_" *)
Theorem C01_die_tiles : forall eps d w h regions gs,
  0 <= eps -> parse d = Some (w, h, regions) ->
  let ins := inputs regions (d_fixed d) in
  let xs := die_xs eps w h ins in
  let ys := die_ys eps w h ins in
  separated eps w h ins -> valid w h ins -> accepted_cover eps w h ins gs ->
  let out := ins ++ map (ground_of xs ys) gs in
  tiles out (die_rect w h) /\
  (forall r, In r ins -> In r out) /\
  Forall (fun g => region g = KW_GROUND /\ fixed g = false) (map (ground_of xs ys) gs).
Proof. exact die_tiles. Qed.
Print Assumptions C01_die_tiles.

(* (vi) a valid description is never rejected, whichever accepted cover the code computes:
   the result is Accept with the input lists unchanged *)
Theorem C01_die_accepts_valid : forall eps aeps deps tin d w h regions gs,
  0 <= eps -> 0 <= aeps -> 0 < deps -> 0 <= tin -> parse d = Some (w, h, regions) ->
  let ins := inputs regions (d_fixed d) in
  separated eps w h ins -> valid w h ins -> accepted_cover eps w h ins gs ->
  die_with_cover eps aeps deps tin d gs =
    Accept (map (ground_of (die_xs eps w h ins) (die_ys eps w h ins)) gs)
           (specialised regions) (blockages regions) (d_fixed d).
Proof. exact die_accepts_valid. Qed.
Print Assumptions C01_die_accepts_valid.

Theorem C01_die_model_accepts_valid : forall eps aeps deps tin d w h regions,
  0 <= eps -> 0 <= aeps -> 0 < deps -> 0 <= tin -> parse d = Some (w, h, regions) ->
  let ins := inputs regions (d_fixed d) in
  separated eps w h ins -> valid w h ins ->
  exists ground, die_model eps aeps deps tin d =
    Accept ground (specialised regions) (blockages regions) (d_fixed d).
Proof. exact die_model_accepts_valid. Qed.
Print Assumptions C01_die_model_accepts_valid.

(* malformed description, an input rectangle leaving the die by more than the tolerance of
   the (repaired) inside test, or two input rectangles overlapping by more than aeps:
   rejected whatever the cover.  (Overlaps in (0, aeps] and excursions within tin are
   accepted by the code and by the model: documented tolerance.) *)
Theorem C01_die_rejects_invalid : forall eps aeps deps tin d gs,
  malformed d \/ leaves_die tin d \/ overlapping aeps d ->
  exists why, die_with_cover eps aeps deps tin d gs = Reject why.
Proof. exact die_rejects_invalid. Qed.
Print Assumptions C01_die_rejects_invalid.

Theorem C01_parse_region_clauses : forall x y w h tag,
  parse_region (YList [YNum x; YNum y; YNum w; YNum h; YStr tag]) <> None ->
  tag <> KW_GROUND /\ (valid_identifier tag = true \/ tag = KW_BLOCKAGE) /\ 0 < w /\ 0 < h /\ 0 <= x /\ 0 <= y.
Proof. exact parse_region_tag. Qed.
Print Assumptions C01_parse_region_clauses.

(* the boolean tiling checker evaluated by the correspondence is sound *)
Theorem C01_tiles_b_sound : forall l d, tiles_b l d = true -> tiles l d.
Proof. exact tiles_b_sound. Qed.
Print Assumptions C01_tiles_b_sound.

(* the hypotheses are satisfiable: a 3-region die (T-junction, region on the border, free
   pocket enclosed by the regions and the border) and a 4-region pinwheel with a hole
   enclosed by regions only, one of them a fixed rectangle *)
Theorem C01_example_three_regions : exists w h regions, parse ex3 = Some (w, h, regions) /\
    separated eps_ex w h (inputs regions (d_fixed ex3)) /\ valid w h (inputs regions (d_fixed ex3)) /\
    accepted_cover eps_ex w h (inputs regions (d_fixed ex3)) [mkIR 0 0 1 1].
Proof. exact ex3_satisfies. Qed.
Print Assumptions C01_example_three_regions.

Theorem C01_example_pinwheel : exists w h regions, parse ex4 = Some (w, h, regions) /\
    separated eps_ex w h (inputs regions (d_fixed ex4)) /\ valid w h (inputs regions (d_fixed ex4)) /\
    accepted_cover eps_ex w h (inputs regions (d_fixed ex4)) [mkIR 1 1 1 1].
Proof. exact ex4_satisfies. Qed.
Print Assumptions C01_example_pinwheel.

Theorem C01_example_invalid : leaves_die (qc 1 1000000) ex_out /\ malformed ex_bad.
Proof. exact ex_invalid. Qed.
Print Assumptions C01_example_invalid.

(* ---- (vii) the input forms of Die(stream, netlist): dict, list, str ('<W>x<H>' / YAML text /
   file name, tried in this order), open stream (Die/DieInput.v).  The file system [file_of] and
   the YAML loader [yaml_load] are arbitrary. ---- *)

(* '<a>x<b>' is a die iff there is exactly one 'x', float() accepts both parts and both values
   are positive and finite; float() is the modelled CPython grammar (py_float) *)
Theorem C01_string_die_intro : forall a b w h, no_x a -> no_x b ->
  py_float a = Some (PFin w) -> py_float b = Some (PFin h) -> 0 < w -> 0 < h ->
  string_die_chars (a ++ char_x :: b) = SDShape w h.
Proof. exact string_die_intro. Qed.
Print Assumptions C01_string_die_intro.

Theorem C01_string_die_inv : forall l w h, string_die_chars l = SDShape w h ->
  exists a b, l = (a ++ char_x :: b)%list /\ no_x a /\ no_x b /\
    py_float a = Some (PFin w) /\ py_float b = Some (PFin h) /\ 0 < w /\ 0 < h.
Proof. exact string_die_inv. Qed.
Print Assumptions C01_string_die_inv.

(* the string form means the same as the dict {width: w, height: h}: same result for every
   netlist (fx) and every cover *)
Theorem C01_string_same_as_dict : forall file_of yaml_load eps aeps deps tin s w h fx gs,
  string_die s = SDShape w h ->
  die_in_with_cover file_of yaml_load eps aeps deps tin (InStr s) fx gs =
  die_in_with_cover file_of yaml_load eps aeps deps tin (InMap (shape_tree w h)) fx gs /\
  die_in_with_cover file_of yaml_load eps aeps deps tin (InStr s) fx gs =
  IRes (die_with_cover eps aeps deps tin (mkDesc (shape_tree w h) fx) gs) /\
  parse (mkDesc (shape_tree w h) fx) = Some (w, h, []).
Proof. exact string_same_as_dict. Qed.
Print Assumptions C01_string_same_as_dict.

(* hence Die('<W>x<H>', netlist): the fixed rectangles of the netlist are reported and carved out
   of the ground; everything reported tiles the die *)
Theorem C01_string_die_tiles : forall file_of yaml_load eps aeps deps tin s w h fx gs,
  0 <= eps -> 0 <= aeps -> 0 < deps -> 0 <= tin ->
  string_die s = SDShape w h ->
  let xs := die_xs eps w h fx in
  let ys := die_ys eps w h fx in
  separated eps w h fx -> valid w h fx -> accepted_cover eps w h fx gs ->
  die_in_with_cover file_of yaml_load eps aeps deps tin (InStr s) fx gs =
    IRes (Accept (map (ground_of xs ys) gs) [] [] fx) /\
  tiles (fx ++ map (ground_of xs ys) gs) (die_rect w h).
Proof. exact string_die_tiles. Qed.
Print Assumptions C01_string_die_tiles.

(* every form that resolves to a description is constructed exactly like the dict: a valid
   description is accepted and tiles, with the fixed rectangles among the regions ... *)
Theorem C01_input_accepts_valid : forall file_of yaml_load eps aeps deps tin i t fx w h regions gs,
  0 <= eps -> 0 <= aeps -> 0 < deps -> 0 <= tin ->
  resolve file_of yaml_load i = RTree t -> parse (mkDesc t fx) = Some (w, h, regions) ->
  let ins := inputs regions fx in
  let xs := die_xs eps w h ins in
  let ys := die_ys eps w h ins in
  separated eps w h ins -> valid w h ins -> accepted_cover eps w h ins gs ->
  die_in_with_cover file_of yaml_load eps aeps deps tin i fx gs =
    IRes (Accept (map (ground_of xs ys) gs) (specialised regions) (blockages regions) fx) /\
  tiles (ins ++ map (ground_of xs ys) gs) (die_rect w h) /\
  (forall r, In r fx -> In r (ins ++ map (ground_of xs ys) gs)).
Proof. exact input_accepts_valid. Qed.
Print Assumptions C01_input_accepts_valid.

(* ... an invalid one is rejected, and what is not a description is never accepted *)
Theorem C01_input_rejects_invalid : forall file_of yaml_load eps aeps deps tin i t fx gs,
  resolve file_of yaml_load i = RTree t ->
  malformed (mkDesc t fx) \/ leaves_die tin (mkDesc t fx) \/ overlapping aeps (mkDesc t fx) ->
  exists why, die_in_with_cover file_of yaml_load eps aeps deps tin i fx gs = IRes (Reject why).
Proof. exact input_rejects_invalid. Qed.
Print Assumptions C01_input_rejects_invalid.

Theorem C01_unresolved_not_accepted : forall file_of yaml_load eps aeps deps tin i fx gs,
  (forall t, resolve file_of yaml_load i <> RTree t) ->
  forall g s b f, die_in_with_cover file_of yaml_load eps aeps deps tin i fx gs <> IRes (Accept g s b f).
Proof. exact unresolved_not_accepted. Qed.
Print Assumptions C01_unresolved_not_accepted.

(* several constructions in one process: the result of each is that of a fresh construction *)
Theorem C01_construction_independent : forall file_of yaml_load before c after,
  nth_error (construct_all file_of yaml_load (before ++ c :: after)) (List.length before) =
  Some (construct file_of yaml_load c).
Proof. exact construction_independent. Qed.
Print Assumptions C01_construction_independent.

(* the SAME objects (description dict / str / stream, Netlist object) handed to several constructions,
   with (true) or without (false) the netlist, in any order: the constructor only reads its arguments, so
   every construction returns what a fresh construction on the objects as the user made them returns -
   whatever the constructor f computes - and the objects are afterwards what they were *)
Theorem C01_session_fresh : forall A (f : die_input -> list Rect -> A) o steps,
  session f o steps = map (fun b => f (o_desc o) (call_fixed o b)) steps.
Proof. exact session_fresh. Qed.
Print Assumptions C01_session_fresh.

Theorem C01_session_objects_unchanged : forall o steps, objects_after o steps = o.
Proof. exact session_objects_unchanged. Qed.
Print Assumptions C01_session_objects_unchanged.

(* Die(d) followed by Die(d, netlist) on the same d *)
Theorem C01_session_second_use : forall A (f : die_input -> list Rect -> A) o b1 b2,
  nth_error (session f o [b1; b2]) 1 = Some (f (o_desc o) (call_fixed o b2)).
Proof. exact session_second_use. Qed.
Print Assumptions C01_session_second_use.

(* what the correspondence evaluates on such a history: every observed outcome agrees with the model on
   the objects as the user made them *)
Theorem C01_agree_steps_sound : forall o steps chks,
  agree_steps (session (fun i fx => (i, fx)) o steps) chks = true ->
  Forall2 (fun (b : bool) (chk : die_input -> list Rect -> bool) => chk (o_desc o) (call_fixed o b) = true) steps chks.
Proof. exact agree_steps_sound. Qed.
Print Assumptions C01_agree_steps_sound.

(* ---- the attached Netlist object has a HISTORY before (and between) the constructions (Die/NetHistory.v):
   assign_rectangles, is_fixed / is_hard, rectangle setters, recenter_rectangles, create_squares, reads, earlier dies.
   A netlist is the list of its modules; the die is handed the rectangles of the modules that are fixed NOW. ---- *)

(* whatever the history [pre] did, the construction after it is handed the fixed rectangles of the modules as [pre] left them *)
Theorem C01_history_die_current : forall A (f : die_input -> list Rect -> A) d st pre st' outs b,
  run_ops pre st = Some st' -> nsession f d st pre = Some outs ->
  nsession f d st (pre ++ [ODie b]) = Some (outs ++ [f d (seen_fixed st' b)]).
Proof. exact nsession_die_current. Qed.
Print Assumptions C01_history_die_current.

(* a history splits anywhere: the later part runs on the netlist the earlier part left *)
Theorem C01_history_app : forall A (f : die_input -> list Rect -> A) d a b st,
  nsession f d st (a ++ b) =
  match nsession f d st a, run_ops a st with
  | Some xs, Some st' => option_map (app xs) (nsession f d st' b)
  | _, _ => None
  end.
Proof. exact nsession_app. Qed.
Print Assumptions C01_history_app.

(* a history of reads only (constructions, netlist.rectangles, num_rectangles, fixed_rectangles()) is the session on
   the same objects: every construction sees the netlist as the user made it *)
Theorem C01_history_reads_only : forall A (f : die_input -> list Rect -> A) d st ops,
  forallb is_read ops = true ->
  nsession f d st ops = Some (session f (mkObjs d (net_fixed st)) (dies_of ops)).
Proof. exact nsession_reads_only. Qed.
Print Assumptions C01_history_reads_only.

(* assign_rectangles on a fixed module: the die is handed the NEW rectangles ... *)
Theorem C01_assign_new_seen : forall n rs st st' m g,
  apply_op (OAssign n rs) st = Some st' ->
  In m st -> named n m = true -> m_fixed m = true -> In g rs ->
  In (fixed_rect g) (net_fixed st').
Proof. exact assign_new_seen. Qed.
Print Assumptions C01_assign_new_seen.

(* ... and none of the module's old ones: every fixed rectangle is a new one or belongs to another module *)
Theorem C01_assign_old_forgotten : forall n rs st st' r,
  apply_op (OAssign n rs) st = Some st' ->
  In r (net_fixed st') -> In r (map fixed_rect rs) \/ In r (net_fixed (others n st)).
Proof. exact assign_old_forgotten. Qed.
Print Assumptions C01_assign_old_forgotten.

(* module.is_fixed = False: nothing of that module is fixed any more; = True: its rectangles as they are now *)
Theorem C01_release : forall n st st',
  apply_op (OSetFixed n false) st = Some st' -> net_fixed st' = net_fixed (others n st).
Proof. exact net_fixed_release. Qed.
Print Assumptions C01_release.

Theorem C01_fix : forall n st st',
  apply_op (OSetFixed n true) st = Some st' ->
  net_fixed st' = flat_map (fun m => if named n m || m_fixed m then map fixed_rect (m_rects m) else []) st.
Proof. exact net_fixed_fix. Qed.
Print Assumptions C01_fix.

Theorem C01_sethard_irrelevant : forall n b st st',
  apply_op (OSetHard n b) st = Some st' -> net_fixed st' = net_fixed st.
Proof. exact net_fixed_sethard. Qed.
Print Assumptions C01_sethard_irrelevant.

(* the histories are not vacuous: a fixed module relocated, another released, a read and a bare die in between *)
Theorem C01_history_example :
  nsession (fun _ fx => fx) (InStr "10x9") ex_net
    [ODie true; OAssign "M1" [mkGeom (qc 7 1) (qc 2 1) (qc 2 1) (qc 2 1)]; ODie true; OSetFixed "M2" false; ORead; ODie true; ODie false]
  = Some [ [fixed_rect (mkGeom (qc 2 1) (qc 7 1) (qc 2 1) (qc 2 1)); fixed_rect (mkGeom (qc 8 1) (qc 11 2) (qc 2 1) (qc 1 1))];
           [fixed_rect (mkGeom (qc 7 1) (qc 2 1) (qc 2 1) (qc 2 1)); fixed_rect (mkGeom (qc 8 1) (qc 11 2) (qc 2 1) (qc 1 1))];
           [fixed_rect (mkGeom (qc 7 1) (qc 2 1) (qc 2 1) (qc 2 1))];
           [] ].
Proof. exact history_example. Qed.
Print Assumptions C01_history_example.

(* what the correspondence evaluates on such a history: the model accepts the history and every observed construction
   agrees with the model on what it was handed *)
Theorem C01_agree_nsteps_sound : forall d st ops chks,
  agree_nsteps (nsession (fun i fx => (i, fx)) d st ops) chks = true ->
  exists seen, nsession (fun i fx => (i, fx)) d st ops = Some seen /\
    Forall2 (fun (p : die_input * list Rect) (chk : die_input -> list Rect -> bool) => chk (fst p) (snd p) = true) seen chks.
Proof. exact agree_nsteps_sound. Qed.
Print Assumptions C01_agree_nsteps_sound.

(* the three readings of a str, in the order the code tries them *)
Theorem C01_read_order : forall file_of yaml_load s,
  match string_die s with
  | SDShape w h => resolve file_of yaml_load (InStr s) = RTree (shape_tree w h)
  | SDNotPositive => resolve file_of yaml_load (InStr s) = RAssert
  | SDInfinite => resolve file_of yaml_load (InStr s) = RInfinite
  | SDNone =>
      if is_text (chars s) then resolve file_of yaml_load (InStr s) = from_text yaml_load s
      else resolve file_of yaml_load (InStr s) =
           match file_of s with Some txt => from_text yaml_load txt | None => RRaise end
  end.
Proof. exact read_order. Qed.
Print Assumptions C01_read_order.

(* what the correspondence evaluates: accepted by the comparator = the input resolves to a
   description on which the dict comparator holds *)
Theorem C01_agree_accept_in_resolved : forall files loads eps aeps deps tin i fx G S B Fx,
  agree_accept_in files loads eps aeps deps tin i fx G S B Fx = true ->
  exists t, resolve (files_of files) (loader_of loads) i = RTree t /\
            agree_accept eps aeps deps tin (mkDesc t fx) G S B Fx = true.
Proof. exact agree_accept_in_resolved. Qed.
Print Assumptions C01_agree_accept_in_resolved.

(* spellings: the grammar is not vacuous *)
Theorem C01_string_die_examples :
  string_die "10x9" = SDShape (qc 10 1) (qc 9 1) /\
  string_die " 1.25e1 x 1_0 " = SDShape (qc 25 2) (qc 10 1) /\
  string_die "+5.x.5" = SDShape (qc 5 1) (qc 1 2) /\
  string_die "125E-1x1e+1" = SDShape (qc 25 2) (qc 10 1) /\
  string_die "0x10" = SDNotPositive /\ string_die "nanx5" = SDNotPositive /\ string_die "10x-9" = SDNotPositive /\
  string_die "infx5" = SDInfinite /\
  string_die "10x9x8" = SDNone /\ string_die "10X9" = SDNone /\ string_die "1__0x9" = SDNone /\
  string_die "1e_1x2" = SDNone /\ string_die ".x2" = SDNone /\ string_die "+ 1x2" = SDNone /\
  string_die "width: 10" = SDNone.
Proof. exact string_die_examples. Qed.
Print Assumptions C01_string_die_examples.
