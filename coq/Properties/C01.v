(* C01 - Die decomposition is an exact tiling of the die.
   Statements only; every proof is [exact <lemma>]. *)
From FrameModel Require Import Num.QcTac Geometry.Rect Die.Boundaries Die.Cells Die.Cover Die.CoverFacts
  Die.DieModel.
Open Scope nat_scope.

(* the checker applied to the implementation's ground list is sound: the accepted
   index-rectangles lie in the matrix, contain only free cells, are pairwise disjoint and
   every free cell is in exactly one of them (count_in = 1 on free cells, 0 elsewhere) *)
Theorem C01_cover_sound : forall nr nc occ gs, is_cover nr nc occ gs = true ->
  Forall (fun g => ir_ok nr nc g = true) gs /\
  (forall g r c, In g gs -> in_ir g r c = true -> r < nr /\ c < nc /\ occ r c = false) /\
  ForallOrdPairs ir_disjoint gs /\
  (forall r c, r < nr -> c < nc -> occ r c = false -> exists g, In g gs /\ in_ir g r c = true) /\
  (forall r c, count_in r c gs = if is_free nr nc occ r c then 1 else 0).
Proof. exact cover_sound. Qed.
Print Assumptions C01_cover_sound.

(* a cover always exists: the largest-first greedy cover passes the checker, for every
   occupancy matrix of every size and every weight function *)
Theorem C01_greedy_is_cover : forall w nr nc occ, is_cover nr nc occ (greedy_cover w nr nc occ) = true.
Proof. exact greedy_is_cover. Qed.
Print Assumptions C01_greedy_is_cover.
