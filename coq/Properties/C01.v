(* C01 - Die decomposition is an exact tiling of the die.
   Statements only; every proof is [exact <lemma>].
   Model: Die/Boundaries.v (gather_boundaries), Cells.v (occupancy by cell centre), Cover.v
   (relational cover: checker is_cover + the model's greedy_cover), DieModel.v (parser,
   constructor, repaired _check_rectangles).  Tolerances eps/aeps/deps/tin are parameters. *)
From Coq Require Import Permutation.
From FrameModel Require Import Num.QcTac Geometry.Rect Cases.CmpC01
  Die.Boundaries Die.BoundariesFacts Die.Cells Die.Cover Die.CoverFacts Die.GridFacts Die.HananFacts
  Die.DieModel Die.DieFacts Die.DieExample.
Open Scope Qc_scope.

(* (i) the checker applied to the implementation's ground list is sound: the accepted
   index-rectangles lie in the matrix, contain only free cells, are pairwise disjoint and
   every free cell is in exactly one of them (count_in = 1 on free cells, 0 elsewhere) *)
Theorem C01_cover_sound : forall nr nc occ gs, is_cover nr nc occ gs = true ->
  Forall (fun g => ir_ok nr nc g = true) gs /\
  (forall g r c, In g gs -> in_ir g r c = true -> (r < nr)%nat /\ (c < nc)%nat /\ occ r c = false) /\
  ForallOrdPairs ir_disjoint gs /\
  (forall r c, (r < nr)%nat -> (c < nc)%nat -> occ r c = false -> exists g, In g gs /\ in_ir g r c = true) /\
  (forall r c, count_in r c gs = if is_free nr nc occ r c then 1%nat else 0%nat).
Proof. exact cover_sound. Qed.
Print Assumptions C01_cover_sound.

(* (ii) a cover always exists: the largest-first greedy cover passes the checker, for every
   occupancy matrix of every size and every weight function; each step takes a largest
   rectangle of free cells *)
Theorem C01_greedy_is_cover : forall w nr nc occ, is_cover nr nc occ (greedy_cover w nr nc occ) = true.
Proof. exact greedy_is_cover. Qed.
Print Assumptions C01_greedy_is_cover.

Theorem C01_greedy_takes_largest : forall w nr nc fuel occ g rest,
  greedy w nr nc occ fuel = g :: rest ->
  ir_ok nr nc g = true /\ all_free occ g = true /\
  forall h, ir_ok nr nc h = true -> all_free occ h = true -> w h <= w g.
Proof. exact greedy_takes_largest. Qed.
Print Assumptions C01_greedy_takes_largest.

(* gather_boundaries: always strictly increasing; for eps-separated coordinates exactly the
   distinct coordinates *)
Theorem C01_boundaries : forall eps coords, 0 <= eps ->
  incr (dedup eps (sort coords)) /\
  (sep eps coords -> forall v, In v (dedup eps (sort coords)) <-> In v coords).
Proof. exact boundaries_spec. Qed.
Print Assumptions C01_boundaries.

(* (iii) grid geometry: the cells of two strictly increasing boundary lists tile the grid's
   rectangle; more generally index-rectangles containing every cell exactly once do, and the
   area of an index-rectangle of cells is the sum of the areas of its cells *)
Theorem C01_cells_tile_grid : forall xs ys nr nc t,
  incr xs -> incr ys -> nc = (List.length xs - 1)%nat -> nr = (List.length ys - 1)%nat ->
  (1 <= nr)%nat -> (1 <= nc)%nat ->
  tiles (map (fun g => sp xs ys g t) (cell_cover nr nc (fun _ _ => false)))
        (span_rect xs ys 0 (nr - 1) 0 (nc - 1) t).
Proof. exact cells_tile_grid. Qed.
Print Assumptions C01_cells_tile_grid.

Theorem C01_irects_tile : forall xs ys nr nc (L : list irect) (tag : irect -> string) (t0 : string),
  incr xs -> incr ys -> nc = (List.length xs - 1)%nat -> nr = (List.length ys - 1)%nat ->
  (1 <= nr)%nat -> (1 <= nc)%nat ->
  Forall (fun g => ir_ok nr nc g = true) L ->
  (forall r c, count_in r c L = if in_grid_b nr nc r c then 1%nat else 0%nat) ->
  tiles (map (fun g => sp xs ys g (tag g)) L) (span_rect xs ys 0 (nr - 1) 0 (nc - 1) t0).
Proof. exact irects_tile. Qed.
Print Assumptions C01_irects_tile.

Theorem C01_span_area : forall xs ys g t, (rlo g <= rhi g)%nat -> (clo g <= chi g)%nat ->
  area (sp xs ys g t) = Qcsum (map (cell_area xs ys) (ir_cells g)).
Proof. exact sp_area. Qed.
Print Assumptions C01_span_area.

(* (iv) Hanan grid: for a rectangle whose sides are grid lines, the centre of a cell is
   point_inside it iff the whole cell is inside it; its area is the sum of its cells *)
Theorem C01_hanan_cell : forall xs ys nr nc, incr xs -> incr ys ->
  nc = (List.length xs - 1)%nat -> nr = (List.length ys - 1)%nat ->
  forall r, wf r -> on_grid xs ys r -> forall i j t, (i < nr)%nat -> (j < nc)%nat ->
  (point_inside r (centre xs j) (centre ys i) = true <->
   is_inside (sp xs ys (mkIR i i j j) t) r = true).
Proof. exact hanan_cell. Qed.
Print Assumptions C01_hanan_cell.

Theorem C01_hanan_area : forall xs ys nr nc, incr xs -> incr ys ->
  nc = (List.length xs - 1)%nat -> nr = (List.length ys - 1)%nat ->
  forall r, wf r -> on_grid xs ys r ->
  area r = Qcsum (map (cell_area xs ys) (ir_cells (input_ir xs ys r))).
Proof. exact hanan_area. Qed.
Print Assumptions C01_hanan_area.

(* (v) a valid, eps-separated description + ANY cover accepted by the checker: the reported
   regions tile the die, every input region is reported unchanged, ground regions carry "_" *)
Theorem C01_die_tiles : forall eps d w h regions gs,
  0 <= eps -> parse d = Some (w, h, regions) ->
  let ins := inputs regions (d_fixed d) in
  let xs := die_xs eps w h ins in
  let ys := die_ys eps w h ins in
  separated eps w h ins -> valid w h ins -> accepted_cover eps w h ins gs ->
  let out := ins ++ map (ground_of xs ys) gs in
  tiles out (die_rect w h) /\
  (forall r, In r ins -> In r out) /\
  Forall (fun g => region g = KW_GROUND /\ fixed g = false) (map (ground_of xs ys) gs).
Proof. exact die_tiles. Qed.
Print Assumptions C01_die_tiles.

(* (vi) a valid description is never rejected, whichever accepted cover the code computes:
   the result is Accept with the input lists unchanged *)
Theorem C01_die_accepts_valid : forall eps aeps deps tin d w h regions gs,
  0 <= eps -> 0 <= aeps -> 0 < deps -> 0 <= tin -> parse d = Some (w, h, regions) ->
  let ins := inputs regions (d_fixed d) in
  separated eps w h ins -> valid w h ins -> accepted_cover eps w h ins gs ->
  die_with_cover eps aeps deps tin d gs =
    Accept (map (ground_of (die_xs eps w h ins) (die_ys eps w h ins)) gs)
           (specialised regions) (blockages regions) (d_fixed d).
Proof. exact die_accepts_valid. Qed.
Print Assumptions C01_die_accepts_valid.

Theorem C01_die_model_accepts_valid : forall eps aeps deps tin d w h regions,
  0 <= eps -> 0 <= aeps -> 0 < deps -> 0 <= tin -> parse d = Some (w, h, regions) ->
  let ins := inputs regions (d_fixed d) in
  separated eps w h ins -> valid w h ins ->
  exists ground, die_model eps aeps deps tin d =
    Accept ground (specialised regions) (blockages regions) (d_fixed d).
Proof. exact die_model_accepts_valid. Qed.
Print Assumptions C01_die_model_accepts_valid.

(* malformed description, an input rectangle leaving the die by more than the tolerance of
   the (repaired) inside test, or two input rectangles overlapping by more than aeps:
   rejected whatever the cover.  (Overlaps in (0, aeps] and excursions within tin are
   accepted by the code and by the model: documented tolerance.) *)
Theorem C01_die_rejects_invalid : forall eps aeps deps tin d gs,
  malformed d \/ leaves_die tin d \/ overlapping aeps d ->
  exists why, die_with_cover eps aeps deps tin d gs = Reject why.
Proof. exact die_rejects_invalid. Qed.
Print Assumptions C01_die_rejects_invalid.

Theorem C01_parse_region_clauses : forall x y w h tag,
  parse_region (YList [YNum x; YNum y; YNum w; YNum h; YStr tag]) <> None ->
  tag <> KW_GROUND /\ (valid_identifier tag = true \/ tag = KW_BLOCKAGE) /\ 0 < w /\ 0 < h /\ 0 <= x /\ 0 <= y.
Proof. exact parse_region_tag. Qed.
Print Assumptions C01_parse_region_clauses.

(* the boolean tiling checker evaluated by the correspondence is sound *)
Theorem C01_tiles_b_sound : forall l d, tiles_b l d = true -> tiles l d.
Proof. exact tiles_b_sound. Qed.
Print Assumptions C01_tiles_b_sound.

(* the hypotheses are satisfiable: a 3-region die (T-junction, region on the border, free
   pocket enclosed by the regions and the border) and a 4-region pinwheel with a hole
   enclosed by regions only, one of them a fixed rectangle *)
Theorem C01_example_three_regions : exists w h regions, parse ex3 = Some (w, h, regions) /\
    separated eps_ex w h (inputs regions (d_fixed ex3)) /\ valid w h (inputs regions (d_fixed ex3)) /\
    accepted_cover eps_ex w h (inputs regions (d_fixed ex3)) [mkIR 0 0 1 1].
Proof. exact ex3_satisfies. Qed.
Print Assumptions C01_example_three_regions.

Theorem C01_example_pinwheel : exists w h regions, parse ex4 = Some (w, h, regions) /\
    separated eps_ex w h (inputs regions (d_fixed ex4)) /\ valid w h (inputs regions (d_fixed ex4)) /\
    accepted_cover eps_ex w h (inputs regions (d_fixed ex4)) [mkIR 1 1 1 1].
Proof. exact ex4_satisfies. Qed.
Print Assumptions C01_example_pinwheel.

Theorem C01_example_invalid : leaves_die (qc 1 1000000) ex_out /\ malformed ex_bad.
Proof. exact ex_invalid. Qed.
Print Assumptions C01_example_invalid.
