(* C04 - Netlist write -> read round trip preserves the design.
   Statements only; every proof is [exact <lemma>].
   write_netlist mirrors the REPAIRED writer (flip and per-region areas written),
   read_netlist the repaired reader (centre computed after create_stog).

   Status: PARTIAL.  The round trip and the repeatability of writing are proved
   for every *canonical* design (Yaml/NetlistRoundTrip.v: well-formed modules of
   every kind with distinct valid names, rectangles with regions, nets of >= 2
   known members with positive weights, and rectangle order / roles / centres /
   epsilon that _create_rectangles reproduces).  The full statements quantify
   over the image of the reader; the missing link is
   [image_canonical_statement] (every loaded netlist is canonical: invariants
   of Module.__init__/setup, stability of create_stog's trunk choice once the
   trunk is in front, permutation invariance of the overlap check and of the
   smallest distance).  The harness evaluates the conclusion of the full
   statement on the model for every generated document (Cases/CmpC0405.v: rt_model). *)
From FrameModel Require Import Num.QcTac Geometry.Rect Yaml.Tree Yaml.NetlistRead Yaml.NetlistWrite
  Yaml.NetlistRoundTrip.
Open Scope Qc_scope.

(* the full statements, kept visible *)
Definition C04_rt_read_write_statement : Prop := forall sqrt_o, rt_read_write_statement sqrt_o.
Definition C04_rt_idempotent_statement : Prop := forall sqrt_o, rt_idempotent_statement sqrt_o.

(* reading what was written gives the same modules in the same order (names,
   kind flags incl. flip, per-region areas, centres, aspect ratios, rectangles
   with regions and roles), the same nets (members, weights) and the same epsilons *)
Theorem C04_rt_read_write_partial : forall sqrt_o e n,
  canonical sqrt_o e n ->
  exists n', read_netlist sqrt_o e (write_netlist n) = Ok n' /\
             nl_modules n' = nl_modules n /\ nl_nets n' = nl_nets n /\ nl_eps n' = nl_eps n.
Proof. exact rt_canonical. Qed.
Print Assumptions C04_rt_read_write_partial.

(* writing is repeatable: the reloaded design is written as the identical document *)
Theorem C04_rt_idempotent_partial : forall sqrt_o e n,
  canonical sqrt_o e n ->
  exists n', read_netlist sqrt_o e (write_netlist n) = Ok n' /\ write_netlist n' = write_netlist n.
Proof. exact rt_idempotent_canonical. Qed.
Print Assumptions C04_rt_idempotent_partial.

(* the full statement follows from the missing link *)
Theorem C04_rt_read_write_from_image : forall sqrt_o,
  image_canonical_statement sqrt_o -> rt_read_write_statement sqrt_o.
Proof. exact rt_read_write_from_image. Qed.
Print Assumptions C04_rt_read_write_from_image.

(* building blocks that hold for every module / net separately *)
Theorem C04_module_round_trip : forall m,
  wf_module m -> parse_module (m_name m) (YMap (write_module m)) = Ok (unload m).
Proof. exact parse_write_module. Qed.
Print Assumptions C04_module_round_trip.

Theorem C04_net_round_trip : forall names e,
  wf_net names e -> parse_edge (write_net e) = Ok (n_members e, n_weight e).
Proof. exact parse_write_net. Qed.
Print Assumptions C04_net_round_trip.
