(* C04 - Netlist write -> read round trip preserves the design.
   Statements only; every proof is [exact <lemma>].
   write_netlist mirrors the REPAIRED writer (flip and per-region areas written),
   read_netlist the repaired reader (centre computed after create_stog).

   Status: FULL at the level of document trees.  The round trip and the
   repeatability of writing hold for every netlist in the image of the reader,
   for every sqrt_o (no contract is needed) and every epsilon state e.
   Yaml/NetlistRoundTrip.v proves them for canonical designs;
   Yaml/NetlistImage.v proves that every netlist the reader accepts is
   canonical: flag flow of Module.__init__/setup whatever the order of the
   attributes, stability of create_stog's trunk choice once the trunk is in
   front (Stog/StogStable.v), permutation invariance of the overlap check and
   of the smallest distance. *)
From FrameModel Require Import Num.QcTac Geometry.Rect Stog.CreateStog Stog.StogStable
  Yaml.Tree Yaml.NetlistRead Yaml.NetlistWrite Yaml.NetlistRoundTrip Yaml.NetlistImage
  Yaml.NetlistReadForms Yaml.NetlistWriteArea.
Open Scope Qc_scope.

(* reading what was written gives the same modules in the same order (names,
   kind flags incl. flip, per-region areas, centres, aspect ratios, rectangles
   with regions and roles), the same nets (members, weights) and the same
   epsilons: for every netlist n the reader accepts (from any document t,
   under any epsilon state e) *)
Theorem C04_rt_read_write : forall sqrt_o e t n,
  read_netlist sqrt_o e t = Ok n ->
  exists n', read_netlist sqrt_o e (write_netlist n) = Ok n' /\
             nl_modules n' = nl_modules n /\ nl_nets n' = nl_nets n /\ nl_eps n' = nl_eps n.
Proof. exact rt_read_write. Qed.
Print Assumptions C04_rt_read_write.

(* writing is repeatable: the reloaded design is written as the identical document *)
Theorem C04_rt_idempotent : forall sqrt_o e t n,
  read_netlist sqrt_o e t = Ok n ->
  exists n', read_netlist sqrt_o e (write_netlist n) = Ok n' /\ write_netlist n' = write_netlist n.
Proof. exact rt_idempotent. Qed.
Print Assumptions C04_rt_idempotent.

(* the same when the reload runs under the epsilon the first load left behind
   (load, write, reload in one process without Rectangle.undefine_epsilon()) *)
Theorem C04_rt_read_write_retained : forall sqrt_o e t n,
  read_netlist sqrt_o e t = Ok n ->
  exists n', read_netlist sqrt_o (nl_eps n) (write_netlist n) = Ok n' /\
             nl_modules n' = nl_modules n /\ nl_nets n' = nl_nets n /\ nl_eps n' = nl_eps n.
Proof. exact rt_read_write_retained. Qed.
Print Assumptions C04_rt_read_write_retained.

(* every netlist the reader accepts is canonical *)
Theorem C04_image_canonical : forall sqrt_o e t n,
  read_netlist sqrt_o e t = Ok n -> canonical sqrt_o e n.
Proof. exact image_canonical. Qed.
Print Assumptions C04_image_canonical.

(* the round trip for canonical designs (not necessarily produced by the reader) *)
Theorem C04_rt_read_write_canonical : forall sqrt_o e n,
  canonical sqrt_o e n ->
  exists n', read_netlist sqrt_o e (write_netlist n) = Ok n' /\
             nl_modules n' = nl_modules n /\ nl_nets n' = nl_nets n /\ nl_eps n' = nl_eps n.
Proof. exact rt_canonical. Qed.
Print Assumptions C04_rt_read_write_canonical.

Theorem C04_rt_idempotent_canonical : forall sqrt_o e n,
  canonical sqrt_o e n ->
  exists n', read_netlist sqrt_o e (write_netlist n) = Ok n' /\ write_netlist n' = write_netlist n.
Proof. exact rt_idempotent_canonical. Qed.
Print Assumptions C04_rt_idempotent_canonical.

(* building blocks that hold for every module / net separately *)
Theorem C04_module_round_trip : forall m,
  wf_module m -> parse_module (m_name m) (YMap (write_module m)) = Ok (unload m).
Proof. exact parse_write_module. Qed.
Print Assumptions C04_module_round_trip.

Theorem C04_net_round_trip : forall names e,
  wf_net names e -> parse_edge (write_net e) = Ok (n_members e, n_weight e).
Proof. exact parse_write_net. Qed.
Print Assumptions C04_net_round_trip.

(* a soft module with two or more regions is written with every region and its own area,
   whatever the magnitudes (a ground area of 4e17 or 2^53 next to regions of 12 or 1 - a
   binary64 sum of the areas would give the ground area again: the writer never looks at the total) *)
Theorem C04_write_area_keeps_regions : forall a,
  (2 <= List.length a)%nat -> write_area a = area_mapping a.
Proof. exact write_area_keeps_regions. Qed.
Print Assumptions C04_write_area_keeps_regions.

(* every module the reader builds is well formed, whatever the order of its attributes *)
Theorem C04_parsed_module_wf : forall name t m, parse_module name t = Ok m -> wf_module m.
Proof. exact parse_module_wf. Qed.
Print Assumptions C04_parsed_module_wf.

(* create_stog run on its own output changes nothing: same order, same roles *)
Theorem C04_create_stog_stable : forall eps aeps rs flag out,
  create_stog eps aeps rs = Some (flag, out) -> create_stog eps aeps out = Some (flag, out).
Proof. exact create_stog_stable. Qed.
Print Assumptions C04_create_stog_stable.

(* the same on the rectangles of a module as the reader sees them after the
   write (roles dropped, order kept) *)
Theorem C04_module_stog_stable : forall eps aeps rs hs fin orig,
  m_create_stog eps aeps rs = Some (hs, fin, orig) ->
  m_create_stog eps aeps (map NetlistDerived.reset fin) = Some (hs, fin, fin).
Proof. exact m_create_stog_stable. Qed.
Print Assumptions C04_module_stog_stable.

(* ---- writing is repeatable within a session ---- *)
(* Yaml/NetlistReadForms.v: a session = loads (tree / text / file name; from an
   undefined epsilon) and writes of loaded designs.  Writing a design twice
   gives the same document twice (whatever happened before), and - the model
   having no state a write could change - a later load or write is not affected
   by it: the harness checks the same of the code (the design observed before
   and after it was written, and the two texts). *)
Theorem C04_session_write_repeatable : forall sqrt_o yaml_load file_text ops k,
  exists t, NetlistReadForms.run sqrt_o yaml_load file_text (ops ++ [NetlistReadForms.OpWrite k; NetlistReadForms.OpWrite k]) =
            (NetlistReadForms.run sqrt_o yaml_load file_text ops ++ [NetlistReadForms.EvWrite t; NetlistReadForms.EvWrite t])%list.
Proof. exact NetlistReadForms.session_write_repeatable. Qed.
Print Assumptions C04_session_write_repeatable.
