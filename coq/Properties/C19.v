(* C19 - every document FRAME produces is accepted back and says the same thing. *)
From FrameModel Require Import Num.QcTac Geometry.Rect Alloc.Alloc Yaml.Tree Yaml.NetlistRead Yaml.NetlistWrite
  Yaml.Netgen Yaml.DieAlloc Yaml.Producers Yaml.ProducersFacts.
Open Scope Qc_scope.

Theorem C19_named_edges_pure : forall es,
  snd (dump_named es) = es /\ fst (dump_named (snd (dump_named es))) = fst (dump_named es).
Proof. exact named_edges_pure. Qed.
Print Assumptions C19_named_edges_pure.
