(* C19 - every document FRAME produces is accepted back and says the same thing.
   Statements only; every proof is [exact <lemma>].

   Models: Yaml/DieAlloc.v (Die.write_yaml / parse_yaml_die, Allocation.write_yaml /
   _parse_yaml_tree), Yaml/Netgen.v (tools/netgen), Yaml/Producers.v (dump_yaml_namededges,
   FloorSet, rect_io, legalfloor); the netlist reader is read_netlist of C04/C05.
   dump_named mirrors the REPAIRED dump_yaml_namededges (fixes/C19-namededges-copy.diff),
   fs_terminal_entry the repaired FloorSet terminal rectangles
   (fixes/C19-floorset-terminal-position.diff).

   Status: die_rt, alloc_rt, netgen_<topology> (all seven, every size of the domain),
   named_edges_pure: PROVED.  solution_netlist_rt / legal_netlist_rt: the full statements
   are FALSE of the code as it is (open findings F14b, F14c): _refuted by witnesses.
   solution_netlist_rt_partial is proved on the part of the preserved sub-class that needs no
   STOG reasoning (soft modules given by a single ground area and a centre, nets of weight 1);
   missing for the rest of the sub-class (modules with rectangles, hard / fixed modules, modules
   in the result) and for legal_netlist_rt_partial: that create_stog recognises again the trunk
   of the rectangles as they are written (trunk first, then N, S, E, W) - the canonical-design
   obligation of C04; there the correspondence and the direct oracle speak.
   Grid with --add-centers and the FloorSet converter: correspondence + oracle only. *)
From FrameModel Require Import Num.QcTac Geometry.Rect Alloc.Alloc Yaml.Tree Yaml.NetlistRead Yaml.NetlistWrite
  Yaml.Netgen Yaml.NetgenFacts Yaml.NetgenHTree Yaml.DieAlloc Yaml.DieAllocFacts Yaml.Producers
  Yaml.ProducersFacts Yaml.ProducersPartial.
Open Scope Qc_scope.

(* ---------------- the die ---------------- *)
(* reader after writer gives the same die: width, height, blockages, specialised regions *)
Theorem C19_die_rt : forall d,
  die_wfb d = true ->
  read_die (write_die d) = Some (mkDie (dw d) (dh d) (map plain (dblock d)) (map plain (dspec d))).
Proof. exact die_rt. Qed.
Print Assumptions C19_die_rt.

(* writing leaves the die as it was, so a second write gives the same document *)
Theorem C19_die_write_pure : forall d,
  snd (write_die_st d) = d /\ fst (write_die_st (snd (write_die_st d))) = fst (write_die_st d).
Proof. exact die_write_pure. Qed.
Print Assumptions C19_die_write_pure.

(* ---------------- the allocation ---------------- *)
(* reader after writer gives the same cells (centre, size, region, ratios in order, depth) *)
Theorem C19_alloc_rt : forall aeps cells,
  accepted aeps cells -> forallb cell_region_ok cells = true ->
  read_alloc aeps (write_alloc cells) = Some (map plain_cell cells).
Proof. exact alloc_rt. Qed.
Print Assumptions C19_alloc_rt.

Theorem C19_alloc_write_pure : forall cells,
  snd (write_alloc_st cells) = cells /\
  fst (write_alloc_st (snd (write_alloc_st cells))) = fst (write_alloc_st cells).
Proof. exact alloc_write_pure. Qed.
Print Assumptions C19_alloc_write_pure.

(* the hypothesis on the regions is needed: a cell in a blockage region is written but refused *)
Theorem C19_alloc_rt_needs_region :
  accepted 0 alloc_blockage_cell /\ read_alloc 0 (write_alloc alloc_blockage_cell) = None.
Proof. exact alloc_rt_needs_region. Qed.
Print Assumptions C19_alloc_rt_needs_region.

(* ---------------- netgen ---------------- *)
Theorem C19_netgen_chain : forall sqrt_o epsdef n area,
  Qcltb 0 area = true ->
  read_netlist sqrt_o epsdef (gen_chain n area) =
  Ok (loaded sqrt_o epsdef area (chain_entries n) (chain_wedges n)).
Proof. exact netgen_chain. Qed.
Print Assumptions C19_netgen_chain.

Theorem C19_netgen_ring : forall sqrt_o epsdef n area,
  Qcltb 0 area = true ->
  read_netlist sqrt_o epsdef (gen_ring n area) =
  Ok (loaded sqrt_o epsdef area (chain_entries n) (ring_wedges n)).
Proof. exact netgen_ring. Qed.
Print Assumptions C19_netgen_ring.

Theorem C19_netgen_star : forall sqrt_o epsdef n area,
  Qcltb 0 area = true ->
  read_netlist sqrt_o epsdef (gen_star n area) =
  Ok (loaded sqrt_o epsdef area (chain_entries n) (star_wedges n)).
Proof. exact netgen_star. Qed.
Print Assumptions C19_netgen_star.

Theorem C19_netgen_one_net : forall sqrt_o epsdef n area,
  (2 <= n)%nat -> Qcltb 0 area = true ->
  read_netlist sqrt_o epsdef (gen_one_net n area) =
  Ok (loaded sqrt_o epsdef area (chain_entries n) (one_net_wedges n)).
Proof. exact netgen_one_net. Qed.
Print Assumptions C19_netgen_one_net.

Theorem C19_netgen_one_net_domain : forall sqrt_o epsdef n,
  (n < 2)%nat -> exists r, read_netlist sqrt_o epsdef (gen_one_net n 1) = Reject r.
Proof. exact netgen_one_net_domain. Qed.
Print Assumptions C19_netgen_one_net_domain.

Theorem C19_netgen_ring_star : forall sqrt_o epsdef n area,
  (2 <= n)%nat -> Qcltb 0 area = true ->
  read_netlist sqrt_o epsdef (gen_ring_star n area) =
  Ok (loaded sqrt_o epsdef area (chain_entries n) (ring_star_wedges n)).
Proof. exact netgen_ring_star. Qed.
Print Assumptions C19_netgen_ring_star.

Theorem C19_netgen_ring_star_domain : forall sqrt_o epsdef n,
  (n < 2)%nat -> exists r, read_netlist sqrt_o epsdef (gen_ring_star n 1) = Reject r.
Proof. exact netgen_ring_star_domain. Qed.
Print Assumptions C19_netgen_ring_star_domain.

Theorem C19_netgen_grid : forall sqrt_o epsdef rows cols area,
  (1 <= cols)%nat -> Qcltb 0 area = true ->
  read_netlist sqrt_o epsdef (gen_grid rows cols area None) =
  Ok (loaded sqrt_o epsdef area (grid_entries rows cols) (grid_wedges rows cols)).
Proof. exact netgen_grid. Qed.
Print Assumptions C19_netgen_grid.

Theorem C19_netgen_htree : forall sqrt_o epsdef l area,
  (1 <= l)%nat -> Qcltb 0 area = true ->
  exists doc, gen_htree l area = Some doc /\
    read_netlist sqrt_o epsdef doc = Ok (loaded sqrt_o epsdef area (htree_entries l) (hwedges l 1 0)).
Proof. exact netgen_htree. Qed.
Print Assumptions C19_netgen_htree.

(* ---------------- named edges ---------------- *)
Theorem C19_named_edges_pure : forall es,
  snd (dump_named es) = es /\ fst (dump_named (snd (dump_named es))) = fst (dump_named es).
Proof. exact named_edges_pure. Qed.
Print Assumptions C19_named_edges_pure.

(* the code as found: the argument is changed, the second document differs and is no net *)
Theorem C19_named_edges_found_refuted :
  exists es, snd (dump_named_found es) <> es /\
             fst (dump_named_found (snd (dump_named_found es))) <> fst (dump_named_found es) /\
             (forall e, In e (fst (dump_named_found (snd (dump_named_found es)))) ->
                        exists r, parse_edge e = Reject r).
Proof. exact named_edges_found_refuted. Qed.
Print Assumptions C19_named_edges_found_refuted.

(* ---------------- the string builders ---------------- *)
Definition C19_solution_netlist_rt_statement : Prop := solution_netlist_rt_statement.
Definition C19_legal_netlist_rt_statement : Prop := legal_netlist_rt_statement.

(* on soft modules given by area and centre with unit-weight nets the document is accepted
   back with the same modules and nets *)
Theorem C19_solution_netlist_rt_partial : forall sqrt_o epsdef xs nets rects eps,
  forallb (fun x => Qcltb 0 (c_area x) && valid_identifier (c_name x)) xs = true ->
  nodup_str (map c_name xs) = true ->
  forallb (unit_net_ok (map c_name xs)) nets = true ->
  let n := mkNetlist (map cmodule xs) nets rects eps in
  exists t n', solution_to_netlist_found n [] = Some t /\ read_netlist sqrt_o epsdef t = Ok n' /\
               nl_modules n' = nl_modules n /\ nl_nets n' = nl_nets n.
Proof. exact solution_netlist_rt_partial. Qed.
Print Assumptions C19_solution_netlist_rt_partial.

Theorem C19_solution_netlist_rt_refuted : forall sqrt_o,
  (exists n t n', read_netlist sqrt_o eps_ref doc_weight = Ok n /\ solution_to_netlist_found n [] = Some t /\
                  read_netlist sqrt_o eps_ref t = Ok n' /\ map n_weight (nl_nets n') <> map n_weight (nl_nets n)) /\
  (exists n t r, read_netlist sqrt_o eps_ref doc_terminal = Ok n /\ solution_to_netlist_found n [] = Some t /\
                 read_netlist sqrt_o eps_ref t = Reject r).
Proof. exact solution_netlist_rt_refuted. Qed.
Print Assumptions C19_solution_netlist_rt_refuted.

Theorem C19_legal_netlist_rt_refuted : forall sqrt_o,
  exists n t n', read_netlist sqrt_o eps_ref doc_weight_rects = Ok n /\ legal_netlist_found n = Some t /\
                 read_netlist sqrt_o eps_ref t = Ok n' /\
                 map n_weight (nl_nets n') <> map n_weight (nl_nets n) /\
                 map mr_region (nl_rects n') <> map mr_region (nl_rects n).
Proof. exact legal_netlist_rt_refuted. Qed.
Print Assumptions C19_legal_netlist_rt_refuted.
